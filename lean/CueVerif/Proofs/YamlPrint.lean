/-
C11 (extension) — lemmas about the printing steps of Model/YamlPrint.lean:
`stripBlankLinePadding` acts line by line (its fast path is sound); under `blockLiteralSafe`
it turns the printer's padded lines into exactly the lines of `emitBlock`; the single-quoted
form reads back.
-/
import CueVerif.Model.YamlPrint
import CueVerif.Proofs.YamlBlock
import CueVerif.Proofs.Yaml
namespace CueVerif.Yaml
open CueVerif.Quote (Bytes)

/-! ### lines -/

theorem splitLines_exists (t : Bytes) : ∃ h tl, splitLines t = h :: tl := by
  cases hs : splitLines t with
  | nil => exact absurd hs (splitLines_ne_nil t)
  | cons h tl => exact ⟨h, tl, rfl⟩

/-- no line produced by `splitLines` contains a line feed -/
theorem splitLines_noLF (s : Bytes) : ∀ l ∈ splitLines s, 10 ∉ l := by
  induction s with
  | nil => intro l hl; simp [splitLines_nil] at hl; subst hl; simp
  | cons c t ih =>
    obtain ⟨h, tl, ht⟩ := splitLines_exists t
    rw [splitLines_cons c t h tl ht]
    rw [ht] at ih
    intro l hl
    by_cases hc : c = 10
    · subst hc
      simp only [beq_self_eq_true, if_true, List.mem_cons] at hl
      rcases hl with rfl | hl
      · simp
      · exact ih l (by simpa using hl)
    · have : (c == 10) = false := by simpa using hc
      simp only [this, Bool.false_eq_true, if_false, List.mem_cons] at hl
      rcases hl with rfl | hl
      · have := ih h (by simp)
        simp only [List.mem_cons, not_or]
        exact ⟨fun e => hc e.symm, this⟩
      · exact ih l (by simp [hl])

theorem splitLines_of_noLF (l : Bytes) (h : 10 ∉ l) : splitLines l = [l] := by
  induction l with
  | nil => rfl
  | cons c t ih =>
    have hc : (c == 10) = false := by
      have : c ≠ 10 := fun e => h (by simp [e])
      simpa using this
    have ht := ih (fun e => h (by simp [e]))
    rw [splitLines_cons c t t [] ht, hc]; rfl

theorem splitLines_append_nl (l rest x : Bytes) (xs : List Bytes) (hl : 10 ∉ l)
    (hr : splitLines rest = x :: xs) : splitLines (l ++ 10 :: rest) = l :: x :: xs := by
  induction l with
  | nil => rw [List.nil_append, splitLines_cons 10 _ x xs hr]; rfl
  | cons c t iht =>
    have hc : (c == 10) = false := by
      have : c ≠ 10 := fun e => hl (by simp [e])
      simpa using this
    have := iht (fun e => hl (by simp [e]))
    rw [List.cons_append, splitLines_cons c _ t (x :: xs) this, hc]; rfl

/-- `splitLines` inverts `joinLines` on LF-free lines -/
theorem splitLines_joinLines (ls : List Bytes) (hne : ls ≠ []) (h : ∀ l ∈ ls, 10 ∉ l) :
    splitLines (joinLines ls) = ls := by
  induction ls with
  | nil => exact absurd rfl hne
  | cons l r ih =>
    cases r with
    | nil => simpa [joinLines] using splitLines_of_noLF l (h l (by simp))
    | cons x xs =>
      have ihr := ih (by simp) (fun l' hl' => h l' (by simp [hl']))
      have hl := h l (by simp)
      show splitLines (l ++ [10] ++ joinLines (x :: xs)) = _
      rw [List.append_assoc]
      exact splitLines_append_nl l _ x xs hl ihr

/-! ### stripLine -/

theorem stripLine_of_nonblank (l : Bytes) (h : l.any (· != 32) = true) : stripLine l = l := by
  unfold stripLine
  have : (l.dropWhile (· == 32)).isEmpty = false := by
    induction l with
    | nil => simp at h
    | cons c t ih =>
      simp only [List.dropWhile_cons]
      by_cases hc : c = 32
      · subst hc; simp only [beq_self_eq_true, if_true]; exact ih (by simpa using h)
      · have : (c == 32) = false := by simpa using hc
        simp [this]
  simp [this]

theorem stripLine_nil : stripLine [] = [] := rfl

theorem stripLine_blank (n : Nat) : stripLine (List.replicate n 32) = [] := by
  unfold stripLine
  have : (List.replicate n 32).dropWhile (· == 32) = [] := by
    induction n with
    | zero => rfl
    | succ n ih => simp [List.replicate_succ, ih]
  cases n <;> simp [this]

/-- a line is blank-padded only: non-empty, all blanks -/
def blankOnly (l : Bytes) : Bool := !l.isEmpty && l.all (· == 32)

theorem stripLine_eq_self_of_not_blankOnly (l : Bytes) (h : blankOnly l = false) : stripLine l = l := by
  cases l with
  | nil => rfl
  | cons c t =>
    apply stripLine_of_nonblank
    simp only [blankOnly, List.isEmpty_cons, Bool.not_false, Bool.true_and] at h
    have key : ∀ l : Bytes, l.all (· == 32) = false → l.any (· != 32) = true := by
      intro l
      induction l with
      | nil => simp
      | cons y ys ihy =>
        intro hy
        by_cases h32 : y = 32
        · subst h32
          simp only [List.all_cons, beq_self_eq_true, Bool.true_and] at hy
          simp [ihy hy]
        · simp [h32]
    exact key _ h

/-! ### the fast path of stripBlankLinePadding is sound -/

theorem containsSub_cons_of (p : Bytes) (c : Nat) (t : Bytes) (h : containsSub p t = true) :
    containsSub p (c :: t) = true := by
  simp [containsSub, h]

theorem hasSuffix_cons_of (c : Nat) (t : Bytes) (h : hasSuffix [32] t = true) : hasSuffix [32] (c :: t) = true := by
  simp only [hasSuffix, List.isSuffixOf] at h ⊢
  cases t with
  | nil => simp [List.isPrefixOf] at h
  | cons x xs =>
    simp only [List.reverse_cons, List.append_assoc] at h ⊢
    cases hr : xs.reverse with
    | nil => rw [hr] at h; simpa [List.isPrefixOf] using h
    | cons y ys => rw [hr] at h; simpa [List.isPrefixOf] using h

/-- if some line of a document is blank-only then the document contains " \n" or ends in a blank -/
theorem trailing_blank_of_blankOnly (s : Bytes) :
    (∃ l ∈ splitLines s, blankOnly l = true) → (containsSub [32, 10] s || hasSuffix [32] s) = true := by
  induction s with
  | nil => intro ⟨l, hl, hb⟩; simp [splitLines_nil] at hl; subst hl; simp [blankOnly] at hb
  | cons c t ih =>
    obtain ⟨h, tl, ht⟩ := splitLines_exists t
    rw [splitLines_cons c t h tl ht]
    rw [ht] at ih
    intro ⟨l, hl, hb⟩
    by_cases hc : c = 10
    · subst hc
      simp only [beq_self_eq_true, if_true, List.mem_cons] at hl
      rcases hl with rfl | hl
      · simp [blankOnly] at hb
      · have := ih ⟨l, by simpa using hl, hb⟩
        rcases Bool.or_eq_true _ _ |>.mp this with h1 | h2
        · simp [containsSub_cons_of _ _ _ h1]
        · simp [hasSuffix_cons_of _ _ h2]
    · have hc' : (c == 10) = false := by simpa using hc
      simp only [hc', Bool.false_eq_true, if_false, List.mem_cons] at hl
      rcases hl with rfl | hl
      · -- the first line c :: h is blank-only
        simp only [blankOnly, List.isEmpty_cons, Bool.not_false, Bool.true_and, List.all_cons, Bool.and_eq_true,
          beq_iff_eq] at hb
        obtain ⟨rfl, hall⟩ := hb
        cases h with
        | nil =>
          -- t starts a new line right away, or is empty
          cases t with
          | nil => simp [hasSuffix, List.isSuffixOf, List.isPrefixOf]
          | cons x xs =>
            by_cases hx : x = 10
            · subst hx
              simp [containsSub, List.isPrefixOf]
            · obtain ⟨h', tl', ht'⟩ := splitLines_exists xs
              have hx' : (x == 10) = false := by simpa using hx
              rw [splitLines_cons x xs h' tl' ht', hx'] at ht
              simp at ht
        | cons y ys =>
          have := ih ⟨y :: ys, by simp, by simp [blankOnly, hall]⟩
          rcases Bool.or_eq_true _ _ |>.mp this with h1 | h2
          · simp [containsSub_cons_of _ _ _ h1]
          · simp [hasSuffix_cons_of _ _ h2]
      · have := ih ⟨l, by simp [hl], hb⟩
        rcases Bool.or_eq_true _ _ |>.mp this with h1 | h2
        · simp [containsSub_cons_of _ _ _ h1]
        · simp [hasSuffix_cons_of _ _ h2]

/-- `stripBlankLinePadding` acts on every line independently, for EVERY document: the fast
path ("no ` \n`, no trailing blank: return the input") never skips a line the loop would
have changed -/
theorem strip_linewise (doc : Bytes) :
    stripBlankLinePadding doc = joinLines ((splitLines doc).map stripLine) := by
  unfold stripBlankLinePadding
  split
  · rename_i hfast
    have hno : ∀ l ∈ splitLines doc, blankOnly l = false := by
      intro l hl
      cases hb' : blankOnly l with
      | false => rfl
      | true =>
        have := trailing_blank_of_blankOnly doc ⟨l, hl, hb'⟩
        simp only [Bool.and_eq_true, Bool.not_eq_true', Bool.or_eq_true] at hfast this
        rcases this with h | h
        · rw [h] at hfast; exact absurd hfast.1 (by simp)
        · rw [h] at hfast; exact absurd hfast.2 (by simp)
    have : (splitLines doc).map stripLine = splitLines doc := by
      conv => rhs; rw [← List.map_id (splitLines doc)]
      apply List.map_congr_left
      intro l hl
      exact stripLine_eq_self_of_not_blankOnly l (hno l hl)
    rw [this, joinLines_splitLines]
  · rfl

/-! ### under blockLiteralSafe the stripped printer lines are the lines of `emitBlock` -/

theorem blockLiteralSafe_noTrailing (P : IsPrint) (s : Bytes) (h : blockLiteralSafe P s = true) :
    (containsSub [32, 10] s || hasSuffix [32] s) = false := by
  unfold blockLiteralSafe at h
  split at h
  · simp at h
  · split at h
    · simp at h
    · split at h
      · simp at h
      · split at h
        · simp at h
        · split at h
          · simp at h
          · rename_i hc; simpa using hc

theorem stripLine_padded (ind : Nat) (l : Bytes) (h : blankOnly l = false) :
    stripLine (List.replicate ind 32 ++ l) = padLine ind l := by
  cases l with
  | nil => simp [padLine, stripLine_blank]
  | cons c t =>
    have hl := stripLine_eq_self_of_not_blankOnly (c :: t) h
    simp only [padLine, List.isEmpty_cons, Bool.false_eq_true, if_false]
    apply stripLine_of_nonblank
    have : (c :: t).any (· != 32) = true := by
      cases hany : (c :: t).any (· != 32) with
      | true => rfl
      | false =>
        have hall : (c :: t).all (· == 32) = true := by
          simp only [List.any_eq_false, List.all_eq_true] at hany ⊢
          intro x hx; simpa using hany x hx
        simp [blankOnly, hall] at h
    simp [List.any_append, this]

theorem mem_dropLast {α} (x : α) : ∀ (l : List α), x ∈ l.dropLast → x ∈ l
  | [], h => by simp at h
  | [_], h => by simp at h
  | a :: b :: t, h => by
    simp only [List.dropLast_cons₂, List.mem_cons] at h ⊢
    rcases h with h | h
    · exact Or.inl h
    · exact Or.inr (by simpa using mem_dropLast x (b :: t) h)

/-- the printer's padded lines, after `stripBlankLinePadding`'s per-line step, are exactly the
lines `emitBlock` models (non-empty lines indented, empty lines empty) -/
theorem strip_raw_lines (P : IsPrint) (ind : Nat) (s : Bytes) (h : blockLiteralSafe P s = true) :
    (emitBlockRaw ind s).2.map stripLine = (emitBlock ind s).2 := by
  have hnb : ∀ l ∈ splitLines s, blankOnly l = false := by
    intro l hl
    cases hb : blankOnly l with
    | false => rfl
    | true =>
      have := trailing_blank_of_blankOnly s ⟨l, hl, hb⟩
      rw [blockLiteralSafe_noTrailing P s h] at this
      exact absurd this (by simp)
  simp only [emitBlockRaw, emitBlock, List.map_map]
  apply List.map_congr_left
  intro l hl
  have hl' : l ∈ splitLines s := by
    split at hl
    · exact mem_dropLast l _ hl
    · exact hl
  have := stripLine_padded ind l (hnb l hl')
  simpa [padLine] using this

theorem raw_lines_ne_nil (ind : Nat) (s : Bytes) : (emitBlockRaw ind s).2 ≠ [] := by
  simp only [emitBlockRaw, ne_eq, List.map_eq_nil_iff]
  rcases eq_nil_or_snoc s with hs | ⟨t, x, hs⟩
  · subst hs; simp [hasSuffix, splitLines_nil]
  · subst hs
    by_cases hx : x = 10
    · subst hx
      rw [hasSuffix_nl_snoc, splitLines_snoc_nl]
      simpa using splitLines_ne_nil t
    · have : (x == 10) = false := by simpa using hx
      rw [hasSuffix_nl_snoc, this]
      simpa using splitLines_ne_nil (t ++ [x])

theorem raw_lines_noLF (ind : Nat) (s : Bytes) : ∀ l ∈ ((emitBlockRaw ind s).2.map stripLine), 10 ∉ l := by
  intro l hl
  simp only [emitBlockRaw, List.map_map, List.mem_map, Function.comp] at hl
  obtain ⟨l0, hl0, rfl⟩ := hl
  have hl0' : l0 ∈ splitLines s := by
    split at hl0
    · exact mem_dropLast l0 _ hl0
    · exact hl0
  have h1 := splitLines_noLF s l0 hl0'
  unfold stripLine
  split
  · simp
  · simp only [List.mem_append, List.mem_replicate, not_or]
    exact ⟨fun e => by omega, h1⟩

/-- what a YAML reader sees of the block the encoder PRINTS (padded lines joined, passed through
`stripBlankLinePadding`, split into lines again) is exactly `emitBlock`'s lines -/
theorem printed_block_lines (P : IsPrint) (ind : Nat) (s : Bytes) (h : blockLiteralSafe P s = true) :
    splitLines (stripBlankLinePadding (joinLines (emitBlockRaw ind s).2)) = (emitBlock ind s).2 := by
  rw [strip_linewise]
  have hraw : splitLines (joinLines (emitBlockRaw ind s).2) = (emitBlockRaw ind s).2 := by
    apply splitLines_joinLines _ (raw_lines_ne_nil ind s)
    intro l hl
    simp only [emitBlockRaw, List.mem_map] at hl
    obtain ⟨l0, hl0, rfl⟩ := hl
    have hl0' : l0 ∈ splitLines s := by
      split at hl0
      · exact mem_dropLast l0 _ hl0
      · exact hl0
    have h1 := splitLines_noLF s l0 hl0'
    simp only [List.mem_append, List.mem_replicate, not_or]
    exact ⟨fun e => by omega, h1⟩
  rw [hraw, splitLines_joinLines _ _ (raw_lines_noLF ind s), strip_raw_lines P ind s h]
  simpa using raw_lines_ne_nil ind s

/-- the printed block round trip: print (padded), strip the padding, read back -/
theorem printed_block_roundtrip (P : IsPrint) (ind : Nat) (s : Bytes) (h : blockLiteralSafe P s = true) :
    parseBlock (emitBlockRaw ind s).1 (splitLines (stripBlankLinePadding (joinLines (emitBlockRaw ind s).2))) = s := by
  rw [printed_block_lines P ind s h]
  exact block_roundtrip P s h ind

/-! ### the whole printed document -/

theorem joinLines_snoc_nil (ls : List Bytes) (h : ls ≠ []) : joinLines (ls ++ [[]]) = joinLines ls ++ [10] := by
  induction ls with
  | nil => exact absurd rfl h
  | cons l r ih =>
    cases r with
    | nil => simp [joinLines]
    | cons x xs =>
      have := ih (by simp)
      simp only [List.cons_append] at this ⊢
      simp only [joinLines, this, List.append_assoc]

theorem joinLines_cons_ne (l : Bytes) (r : List Bytes) (hr : r ≠ []) :
    joinLines (l :: r) = l ++ [10] ++ joinLines r := by
  cases r with
  | nil => exact absurd rfl hr
  | cons x xs => rfl

theorem chompText_nonblank (c : Chomp) : 10 ∉ c.text ∧ c.text.any (· != 32) = true := by
  cases c <;> decide

/-- the lines of the document `Encode` prints for `{key: <literal block of s>}`: the key line
with the header, then exactly `emitBlock`'s lines, then the end of the last line -/
theorem printed_doc_lines (P : IsPrint) (key : Bytes) (hk : 10 ∉ key) (ind : Nat) (s : Bytes)
    (h : blockLiteralSafe P s = true) :
    splitLines (printedBlockDoc key ind s) =
      (key ++ b ": " ++ (emitBlockRaw ind s).1.text) :: ((emitBlock ind s).2 ++ [[]]) := by
  have hb : b ": " = [58, 32] := by decide
  have hrawne := raw_lines_ne_nil ind s
  have hrawlf : ∀ l ∈ (emitBlockRaw ind s).2, 10 ∉ l := by
    intro l hl
    simp only [emitBlockRaw, List.mem_map] at hl
    obtain ⟨l0, hl0, rfl⟩ := hl
    have hl0' : l0 ∈ splitLines s := by
      split at hl0
      · exact mem_dropLast l0 _ hl0
      · exact hl0
    have h1 := splitLines_noLF s l0 hl0'
    simp only [List.mem_append, List.mem_replicate, not_or]
    exact ⟨fun e => by omega, h1⟩
  have hkl : 10 ∉ key ++ b ": " ++ (emitBlockRaw ind s).1.text := by
    simp only [hb, List.mem_append, List.mem_cons, not_or]
    exact ⟨⟨hk, by simp⟩, (chompText_nonblank _).1⟩
  -- the document is the join of its lines
  have hdoc : key ++ b ": " ++ (emitBlockRaw ind s).1.text ++ [10] ++ joinLines (emitBlockRaw ind s).2 ++ [10] =
      joinLines ((key ++ b ": " ++ (emitBlockRaw ind s).1.text) :: ((emitBlockRaw ind s).2 ++ [[]])) := by
    rw [joinLines_cons_ne _ _ (by simp), joinLines_snoc_nil _ hrawne]
    simp only [List.append_assoc]
  have hall : ∀ l ∈ (key ++ b ": " ++ (emitBlockRaw ind s).1.text) :: ((emitBlockRaw ind s).2 ++ [[]]), 10 ∉ l := by
    intro l hl
    simp only [List.mem_cons, List.mem_append, List.not_mem_nil, or_false] at hl
    rcases hl with rfl | hl | rfl
    · exact hkl
    · exact hrawlf l hl
    · simp
  unfold printedBlockDoc
  simp only []
  rw [strip_linewise, hdoc, splitLines_joinLines _ (by simp) hall]
  have hmapall : ∀ l ∈ ((key ++ b ": " ++ (emitBlockRaw ind s).1.text) :: ((emitBlockRaw ind s).2 ++ [[]])).map stripLine,
      10 ∉ l := by
    intro l hl
    simp only [List.mem_map] at hl
    obtain ⟨l0, hl0, rfl⟩ := hl
    have := hall l0 hl0
    unfold stripLine
    split
    · simp
    · exact this
  rw [splitLines_joinLines _ (by simp) hmapall]
  simp only [List.map_cons, List.map_append, List.map_nil, stripLine_nil, strip_raw_lines P ind s h]
  congr 1
  apply stripLine_of_nonblank
  simp only [List.any_append, Bool.or_eq_true]
  exact Or.inr (chompText_nonblank _).2

/-! ### single-quoted scalars read back -/

theorem unquoteSingleBody_escape (s : Bytes) : unquoteSingleBody (s.flatMap sqEsc) = some s := by
  unfold unquoteSingleBody
  induction s with
  | nil => rfl
  | cons c t ih =>
    by_cases hc : c = 39
    · subst hc
      simp only [List.flatMap_cons, sqEsc, beq_self_eq_true, if_true, List.cons_append, List.nil_append]
      simp only [unquoteSingleAux, beq_self_eq_true, if_true, Bool.false_eq_true, if_false]
      rw [ih]; rfl
    · have hc' : (c == 39) = false := by simpa using hc
      simp only [List.flatMap_cons, sqEsc, hc', Bool.false_eq_true, if_false, List.cons_append, List.nil_append]
      simp only [unquoteSingleAux, hc', Bool.false_eq_true, if_false]
      rw [ih]; rfl

theorem single_quoted_roundtrip (s : Bytes) : unquoteSingle (singleQuoted s) = some s := by
  simp only [singleQuoted, unquoteSingle, List.cons_append, List.nil_append, List.reverse_append, List.reverse_cons,
    List.reverse_nil, List.reverse_reverse]
  exact unquoteSingleBody_escape s

end CueVerif.Yaml
