/-
C04: generalisation of `chain_sets` (Proofs/DisjNested1.lean) from the singleton cross `[p]`
to ANY cross list all of whose leaves are `maybeDefault` in both mode fields — the situation
at the marked nested disjunction of a node whose EARLIER disjunction conjuncts are mark-free.
-/
import CueVerif.Proofs.DisjNested2
namespace CueVerif.Disj
variable {V : Type} [DecidableEq V]
set_option linter.unusedSectionVars false

/-- every leaf has `origDefaultMode = maybeDefault` -/
def OdmMaybe (c : List (Leaf V)) : Prop := ∀ q ∈ c, q.odm = .maybe

/-- `crossProduct` over a cross list without any default (dm and odm all maybe): value and
default sets of the result in terms of the flattened term results -/
theorem crossProduct_noDefault (c : List (Leaf V)) (h1 : AllMaybe c) (h2 : OdmMaybe c)
    (terms : Leaf V → List (R V)) :
    let rs := c.flatMap terms
    let rd := !(rs.any fun r => r.odm == .isDef)
    (∀ x, valsP (crossProduct c terms) x ↔ ∃ l ∈ rs.flatMap (flatR true rd), l.v = x) ∧
    (∀ x, defsP (crossProduct c terms) x ↔
      ∃ l ∈ rs.flatMap (flatR true rd), l.v = x ∧ l.dm = .isDef) := by
  intro rs rd
  have hfm : ((c.map fun p => (p, terms p)).flatMap fun pr => pr.2) = rs := by
    simp [rs, List.flatMap_map]
  have hld : (!((c.map fun p => (p, terms p)).any fun pr =>
      !pr.2.isEmpty && (pr.1.dm == .isDef || pr.1.odm == .isDef))) = true := by
    rw [Bool.not_eq_true', List.any_eq_false]
    intro pr hpr
    obtain ⟨p, hp, rfl⟩ := List.mem_map.1 hpr
    simp [h1 p hp, h2 p hp]
  have hrd : (!((c.map fun p => (p, terms p)).any fun pr => pr.2.any fun r => r.odm == .isDef)) = rd := by
    simp [rd, rs, List.any_flatMap, List.any_map, Function.comp_def]
  unfold crossProduct
  simp only [hld, hrd, hfm]
  obtain ⟨f1, f2, _, _⟩ := fold_AD (rs.flatMap (flatR true rd)) ([] : List (Leaf V))
  have hpf := place_flat true rd rs ([], false)
  have hdem := sets_map_mode (fun r : Leaf V => if r.dm = .maybe then { r with dm := .notDef } else r)
    (by intro r; split <;> rfl)
    (by
      intro r
      by_cases hr : r.dm = .maybe
      · simp [hr]
      · simp [hr])
    (rs.foldl (place true rd) ([], false)).1
  have hbase_v : ∀ x, ¬ valsP ([] : List (Leaf V)) x := by rintro x ⟨q, hq, _⟩; cases hq
  have hbase_d : ∀ x, ¬ defsP ([] : List (Leaf V)) x := by rintro x ⟨q, hq, _⟩; cases hq
  constructor
  · intro x
    split
    · rw [hdem.1, hpf, f1]; simp [hbase_v]
    · rw [hpf, f1]; simp [hbase_v]
  · intro x
    split
    · rw [hdem.2, hpf, f2]; simp [hbase_d]
    · rw [hpf, f2]; simp [hbase_d]

/-- `chain_sets` for any cross list without default: a (marked) disjunction with arbitrarily
nested mark-free terms, evaluated against ANY number of partial disjuncts none of which
carries a default -/
theorem chain_sets_cross (S : Sl V) (h : Laws S) (l r : Expr V) (hf : (Expr.or l r).mfChain = true)
    (c : List (Leaf V)) (h1 : AllMaybe c) (h2 : OdmMaybe c) :
    (∀ y, valsP ((sem S (.or l r)).conj c) y ↔
      ∃ p ∈ c, ∃ mt ∈ tms (.or l r) false, ∃ x ∈ (specPair S mt.2).v, S.meet p.v x = some y) ∧
    (∀ y, defsP ((sem S (.or l r)).conj c) y ↔
      ∃ p ∈ c, ∃ mt ∈ tms (.or l r) false, mt.1 = true ∧
        ∃ x ∈ (specPair S mt.2).v, S.meet p.v x = some y) := by
  let ts := tms (.or l r) false
  let hd := (Expr.or l r).chainMarked
  let terms : Leaf V → List (R V) := fun q => ts.flatMap (termR S hd q)
  let rs := c.flatMap terms
  have e0 : (sem S (.or l r)).conj c = crossProduct c terms := by
    have e1 : (sem S (.or l r)).conj c = crossProduct c (fun q =>
        (sem S l).terms ((sem S l).hasMark || (sem S r).hasMark) false q ++
        (sem S r).terms ((sem S l).hasMark || (sem S r).hasMark) false q) := rfl
    rw [e1]
    have e2 : (fun q => (sem S l).terms ((sem S l).hasMark || (sem S r).hasMark) false q ++
        (sem S r).terms ((sem S l).hasMark || (sem S r).hasMark) false q) = terms := by
      funext q
      rw [terms_eq, terms_eq, hasMark_eq, hasMark_eq]
      simp [terms, ts, hd, tms, Expr.chainMarked]
    rw [e2]
  have hmf := tms_markfree (.or l r) false hf
  have hany : ts.any (·.1) = hd := by
    have := tms_any (.or l r) false
    simpa [ts, hd] using this
  have hshape : ∀ p ∈ c, ∀ mt ∈ ts, ∀ x ∈ termR S hd p mt, RShape (mode hd mt.1) x := by
    intro p hp mt hmt x hx
    exact rshape_doDisj _ _ (allMaybe_all S mt.2 (hmf mt hmt)).conj p (h1 p hp) _ x hx
  have hrd : ∀ p ∈ c, ∀ mt ∈ ts, ∀ x ∈ termR S hd p mt, mode hd mt.1 = .isDef →
      (!(rs.any fun r => r.odm == .isDef)) = false := by
    intro p hp mt hmt x hx hm
    rw [Bool.not_eq_false', List.any_eq_true]
    refine ⟨x, List.mem_flatMap.2 ⟨p, hp, List.mem_flatMap.2 ⟨mt, hmt, hx⟩⟩, ?_⟩
    rw [rshape_odm _ x (hshape p hp mt hmt x hx), hm]; rfl
  obtain ⟨c1, c2⟩ := crossProduct_noDefault c h1 h2 terms
  rw [e0]
  -- membership of a result in the big flatMap
  have hmem : ∀ x, x ∈ rs ↔ ∃ p ∈ c, ∃ mt ∈ ts, x ∈ termR S hd p mt := by
    intro x
    constructor
    · intro hx
      obtain ⟨p, hp, hx⟩ := List.mem_flatMap.1 hx
      obtain ⟨mt, hmt, hx⟩ := List.mem_flatMap.1 hx
      exact ⟨p, hp, mt, hmt, hx⟩
    · rintro ⟨p, hp, mt, hmt, hx⟩
      exact List.mem_flatMap.2 ⟨p, hp, List.mem_flatMap.2 ⟨mt, hmt, hx⟩⟩
  constructor
  · intro y
    rw [c1]
    constructor
    · rintro ⟨lf, hlf, rfl⟩
      obtain ⟨x, hx, hlx⟩ := List.mem_flatMap.1 hlf
      obtain ⟨p, hp, mt, hmt, hxm⟩ := (hmem x).1 hx
      have hs := flatR_shape _ _ (hrd p hp mt hmt x hxm) x (hshape p hp mt hmt x hxm)
      have hv : lf.v ∈ x.vals := (hs.1 lf.v).1 ⟨lf, hlx, rfl⟩
      have : lf.v ∈ rvals (termR S hd p mt) := by
        unfold rvals; exact List.mem_flatMap.2 ⟨x, hxm, hv⟩
      exact ⟨p, hp, mt, hmt, (doDisj_values S h mt.2 p _ lf.v).1 this⟩
    · rintro ⟨p, hp, mt, hmt, hx⟩
      have : y ∈ rvals (termR S hd p mt) := (doDisj_values S h mt.2 p _ y).2 hx
      unfold rvals at this
      obtain ⟨x, hxm, hv⟩ := List.mem_flatMap.1 this
      have hs := flatR_shape _ _ (hrd p hp mt hmt x hxm) x (hshape p hp mt hmt x hxm)
      obtain ⟨lf, hlf, hlv⟩ := (hs.1 y).2 hv
      exact ⟨lf, List.mem_flatMap.2 ⟨x, (hmem x).2 ⟨p, hp, mt, hmt, hxm⟩, hlf⟩, hlv⟩
  · intro y
    rw [c2]
    constructor
    · rintro ⟨lf, hlf, rfl, hdm⟩
      obtain ⟨x, hx, hlx⟩ := List.mem_flatMap.1 hlf
      obtain ⟨p, hp, mt, hmt, hxm⟩ := (hmem x).1 hx
      have hs := flatR_shape _ _ (hrd p hp mt hmt x hxm) x (hshape p hp mt hmt x hxm)
      have hv : lf.v ∈ x.vals := (hs.1 lf.v).1 ⟨lf, hlx, rfl⟩
      have hm : mode hd mt.1 = .isDef := (hs.2 lf hlx).1 hdm
      have : lf.v ∈ rvals (termR S hd p mt) := by
        unfold rvals; exact List.mem_flatMap.2 ⟨x, hxm, hv⟩
      exact ⟨p, hp, mt, hmt, ((mode_isDef _ _).1 hm).2, (doDisj_values S h mt.2 p _ lf.v).1 this⟩
    · rintro ⟨p, hp, mt, hmt, hmk, hx⟩
      have : y ∈ rvals (termR S hd p mt) := (doDisj_values S h mt.2 p _ y).2 hx
      unfold rvals at this
      obtain ⟨x, hxm, hv⟩ := List.mem_flatMap.1 this
      have hs := flatR_shape _ _ (hrd p hp mt hmt x hxm) x (hshape p hp mt hmt x hxm)
      obtain ⟨lf, hlf, hlv⟩ := (hs.1 y).2 hv
      have hhd : hd = true := by
        rw [← hany, List.any_eq_true]; exact ⟨mt, hmt, hmk⟩
      have hm : mode hd mt.1 = .isDef := (mode_isDef _ _).2 ⟨hhd, hmk⟩
      exact ⟨lf, List.mem_flatMap.2 ⟨x, (hmem x).2 ⟨p, hp, mt, hmt, hxm⟩, hlf⟩, hlv,
        (hs.2 lf hlf).2 hm⟩

end CueVerif.Disj
