import CueVerif.Proofs.ModzipExtract
/-!
C15, the byte budget of an extraction as ONE statement: whatever Unzip returns, the regular
files it brought into being hold, in total, at most MaxZipFile bytes (plus one byte per file
without the container contract: the LimitedReader bound), and the two special files stay
within MaxCUEMod / MaxLICENSE — for every archive, including forged declared sizes.
-/
namespace CueVerif.Modzip

theorem declaredTotal_erase (z : List ZEnt) (e : ZEnt) (he : e ∈ z)
    (hd : isDirName e.name = false) :
    declaredTotal z = e.declared + declaredTotal (z.erase e) := by
  induction z with
  | nil => cases he
  | cons x xs ih =>
    by_cases hx : x = e
    · subst hx
      simp [declaredTotal, hd]
    · have hmem : e ∈ xs := by
        rcases List.mem_cons.mp he with h | h
        · exact absurd h.symm hx
        · exact h
      have hb : ¬ (x == e) = true := by simpa using hx
      rw [List.erase_cons_tail hb]
      simp only [declaredTotal]
      rw [ih hmem]
      omega

/-- distinct paths, each charged to an entry of the archive that determines it: the sum of the
charges is bounded by the sum of the declared sizes (plus `k` per path) -/
theorem sum_le_declaredTotal (key : ZEnt → Path) (len : Path → Nat) (k : Nat) :
    ∀ (qs : List Path) (z : List ZEnt), qs.Nodup →
    (∀ q ∈ qs, len q = 0 ∨
      ∃ e ∈ z, isDirName e.name = false ∧ key e = q ∧ len q ≤ e.declared + k) →
    (qs.map len).sum ≤ declaredTotal z + k * qs.length := by
  intro qs
  induction qs with
  | nil => intro z _ _; simp
  | cons q qs ih =>
    intro z hnd h
    obtain ⟨hq, hnd'⟩ := List.nodup_cons.mp hnd
    simp only [List.map_cons, List.sum_cons, List.length_cons, Nat.mul_succ]
    rcases h q List.mem_cons_self with h0 | ⟨e, he, hd, hk, hl⟩
    · have := ih z hnd' (fun q' hq' => h q' (List.mem_cons_of_mem _ hq'))
      omega
    · have := ih (z.erase e) hnd' (fun q' hq' => by
        rcases h q' (List.mem_cons_of_mem _ hq') with h0 | ⟨e', he', hd', hk', hl'⟩
        · exact Or.inl h0
        · refine Or.inr ⟨e', ?_, hd', hk', hl'⟩
          have hne : e' ≠ e := by
            intro heq
            subst heq
            rw [hk] at hk'
            subst hk'
            exact hq hq'
          exact (List.mem_erase_of_ne hne).mpr he')
      rw [declaredTotal_erase z e he hd]
      omega

theorem fileLen_of_none (fs : FS) (q : Path) (h : fs.get q = none) : fs.fileLen q = 0 := by
  unfold FS.fileLen; rw [h]

/-- **The byte budget.**  For every archive (forged sizes, failing or over-delivering
readers, write failures), every prior file system and every outcome: over any set `qs` of
distinct paths that did not exist before, the regular files Unzip left there hold at most
MaxZipFile + |qs| bytes (LimitedReader: declared+1 per file, unconditionally), and at most
MaxZipFile bytes when Unzip succeeded or when no entry's reader yields more than its
declared size (the container contract). -/
theorem unzip_total (U : Uni) (fs : FS) (dir : Path) (zipSize : Nat) (z : List ZEnt)
    (h64 : ∀ e ∈ z, e.declared < 2 ^ 64) (qs : List Path) (hnd : qs.Nodup)
    (hnew : ∀ q ∈ qs, fs.get q = none) :
    (unzip U fs dir zipSize z).1.bytesAt qs ≤ maxZipFile + qs.length ∧
    ((unzip U fs dir zipSize z).2 = true ∨ (∀ e ∈ z, e.data.length ≤ e.declared) →
      (unzip U fs dir zipSize z).1.bytesAt qs ≤ maxZipFile) := by
  unfold FS.bytesAt
  cases herr : (checkZip U zipSize z).isErr with
  | true =>
    rw [unzip_rejected U fs dir zipSize z herr]
    have := sum_le_declaredTotal (fun _ => []) fs.fileLen 0 qs [] hnd
      (fun q hq => Or.inl (fileLen_of_none fs q (hnew q hq)))
    simp only [declaredTotal, Nat.zero_mul, Nat.add_zero, Nat.le_zero_eq] at this
    rw [this]
    exact ⟨Nat.zero_le _, fun _ => Nat.zero_le _⟩
  | false =>
    have htot : declaredTotal z ≤ maxZipFile :=
      (checkZip_ok U zipSize z (fun e he _ => h64 e he) herr).2.2.1
    have hsz := unzip_sizes U fs dir zipSize z h64
    have charge : ∀ k : Nat,
        (∀ q c, fs.get q = none → (unzip U fs dir zipSize z).1.get q = some (.file c) →
          ∀ e ∈ z, c <+: e.data → c.length ≤ e.declared + 1 →
            (e.data.length ≤ e.declared → c.length ≤ e.declared) →
            ((unzip U fs dir zipSize z).2 = true → c = e.data ∧ c.length ≤ e.declared) →
            c.length ≤ e.declared + k) →
        (qs.map (unzip U fs dir zipSize z).1.fileLen).sum ≤ declaredTotal z + k * qs.length := by
      intro k hk
      apply sum_le_declaredTotal (fun e => dir ++ splitOn 47 e.name) _ k qs z hnd
      intro q hq
      cases hg : (unzip U fs dir zipSize z).1.get q with
      | none => left; unfold FS.fileLen; rw [hg]
      | some n =>
        cases n with
        | dir => left; unfold FS.fileLen; rw [hg]
        | file c =>
          right
          obtain ⟨e, he, hskip, hqe, -, hpre, h1, h2, h3⟩ := hsz q c (hnew q hq) hg
          refine ⟨e, he, skipEntry_false_isDir hskip, hqe.symm, ?_⟩
          have : (unzip U fs dir zipSize z).1.fileLen q = c.length := by
            unfold FS.fileLen; rw [hg]
          rw [this]
          exact hk q c (hnew q hq) hg e he hpre h1 h2 h3
    constructor
    · have := charge 1 (fun _ _ _ _ _ _ _ h1 _ _ => h1)
      omega
    · intro hor
      have := charge 0 (fun _ _ _ _ e he _ _ h2 h3 => by
        rcases hor with hs | hc
        · exact (h3 hs).2
        · exact h2 (hc e he))
      omega

/-- The special files: whatever Unzip returns, a `cue.mod/module.cue` (resp. `LICENSE`) it
created beneath the target holds at most MaxCUEMod+1 (resp. MaxLICENSE+1) bytes, and at most
MaxCUEMod (resp. MaxLICENSE) when Unzip succeeded or the entry's reader keeps the container
contract. -/
theorem unzip_special (U : Uni) (fs : FS) (dir : Path) (zipSize : Nat) (z : List ZEnt)
    (h64 : ∀ e ∈ z, e.declared < 2 ^ 64) (name : Str) (lim : Nat)
    (hname : (name = sCueModModule ∧ lim = maxCUEMod) ∨ (name = sLICENSE ∧ lim = maxLICENSE))
    (c : List Nat) (hq : fs.get (dir ++ splitOn 47 name) = none)
    (hc : (unzip U fs dir zipSize z).1.get (dir ++ splitOn 47 name) = some (.file c)) :
    c.length ≤ lim + 1 ∧
    ((unzip U fs dir zipSize z).2 = true ∨ (∀ e ∈ z, e.data.length ≤ e.declared) →
      c.length ≤ lim) := by
  cases herr : (checkZip U zipSize z).isErr with
  | true =>
    rw [unzip_rejected U fs dir zipSize z herr] at hc
    rw [hq] at hc; cases hc
  | false =>
    obtain ⟨e, he, hskip, hqe, -, -, h1, h2, h3⟩ := unzip_sizes U fs dir zipSize z h64 _ c hq hc
    have hsp : splitOn 47 name = splitOn 47 e.name := List.append_cancel_left hqe
    have hn : e.name = name := by
      rw [← joinSlash_splitOn e.name, ← hsp, joinSlash_splitOn]
    have hd := skipEntry_false_isDir hskip
    obtain ⟨-, -, -, hm, hl, -⟩ := checkZip_ok U zipSize z (fun e he _ => h64 e he) herr
    have hlim : e.declared ≤ lim := by
      rcases hname with ⟨a, b⟩ | ⟨a, b⟩
      · rw [b]; exact hm e he hd (by rw [hn, a])
      · rw [b]; exact hl e he hd (by rw [hn, a])
    refine ⟨by omega, fun hor => ?_⟩
    rcases hor with hs | hcn
    · have := (h3 hs).2; omega
    · have := h2 (hcn e he); omega

end CueVerif.Modzip
