/-
Proofs for the "identifier spellings agree" part of C09: the scanner lexes the whole input
as one identifier-shaped token (`scanIdent`) exactly when `ast.IsValidIdent` holds
(`isValidIdent`).  Core Lean only.
-/
import CueVerif.Model.Ident
namespace CueVerif.Ident

variable (lU dU : Nat → Bool)

/-! ### the identifier loop -/

theorem identLoop_append (s : Str) :
    (identLoop lU dU s).1 ++ (identLoop lU dU s).2.1 = s := by
  induction s with
  | nil => rfl
  | cons c cs ih =>
    unfold identLoop
    split
    · simp [ih]
    · rfl

/-- the loop consumes everything iff every character is an identifier part -/
theorem identLoop_beq (s : Str) :
    ((identLoop lU dU s).1 == s) = s.all (identPart lU dU) := by
  induction s with
  | nil => rfl
  | cons c cs ih =>
    unfold identLoop
    split
    · rename_i hc
      simp only [List.all_cons, hc, Bool.true_and, ← ih]
      simp
    · rename_i hc
      simp [hc]

theorem identLoop_nil_of_not (c : Nat) (cs : Str) (hc : identPart lU dU c = false) :
    identLoop lU dU (c :: cs) = ([], c :: cs, false) := by
  unfold identLoop
  simp [hc]

/-! ### `scanFieldIdentifier` -/

theorem sfi_ne (ch : Nat) (cs : Str) (h : ch ≠ 35) :
    scanFieldIdentifier lU dU (ch :: cs) = identLoop lU dU (ch :: cs) := by
  unfold scanFieldIdentifier
  split
  · rename_i heq
    simp only [List.cons.injEq] at heq
    exact absurd heq.1 h
  · rfl

theorem sfi_nil : scanFieldIdentifier lU dU [] = ([], [], false) := rfl

theorem sfi_append (s : Str) :
    (scanFieldIdentifier lU dU s).1 ++ (scanFieldIdentifier lU dU s).2.1 = s := by
  unfold scanFieldIdentifier
  split
  · rename_i cs
    simp only
    split
    · rfl
    · simp [identLoop_append]
  · exact identLoop_append lU dU s

/-- a literal that is the whole rest of the input leaves nothing behind -/
theorem sfi_rest_nil (s : Str) (h : (scanFieldIdentifier lU dU s).1 = s) :
    (scanFieldIdentifier lU dU s).2.1 = [] := by
  have := sfi_append lU dU s
  rw [h] at this
  exact List.append_right_eq_self.mp this

/-- `#…`: the literal is the whole input iff no digit follows the '#' and the rest consists
of identifier parts -/
theorem sfi_hash_beq (hFFFD : dU 0xFFFD = false) (t : Str) :
    ((scanFieldIdentifier lU dU (35 :: t)).1 == 35 :: t) =
      (!isDigit dU (firstRune t) && t.all (identPart lU dU)) := by
  unfold scanFieldIdentifier
  simp only
  cases t with
  | nil => simp [identLoop, firstRune, isDigit, hFFFD, headIs]
  | cons c u =>
    simp only [firstRune, headIs]
    by_cases hd : isDigit dU c = true
    · simp [hd]
    · have hd' : isDigit dU c = false := by simpa using hd
      simp only [hd', Bool.false_eq_true, ↓reduceIte, Bool.not_false, Bool.true_and,
        ← identLoop_beq lU dU (c :: u)]
      simp

/-! ### byte length -/

theorem foldl_byteLen_ge (l : Str) (n : Nat) : n ≤ l.foldl (fun n c => n + byteLen c) n := by
  induction l generalizing n with
  | nil => exact Nat.le_refl _
  | cons a t ih =>
    simp only [List.foldl_cons]
    have := ih (n + byteLen a)
    omega

theorem byteLen_pos (c : Nat) : 1 ≤ byteLen c := by
  unfold byteLen
  split
  · omega
  · split
    · omega
    · split <;> omega

theorem byteLenStr_two (a b : Nat) (l : Str) : byteLenStr (a :: b :: l) > 1 := by
  unfold byteLenStr
  simp only [List.foldl_cons]
  have := foldl_byteLen_ge l (0 + byteLen a + byteLen b)
  have := byteLen_pos a
  have := byteLen_pos b
  omega

/-! ### `IsValidIdent` by shape -/

theorem valid_nil : isValidIdent lU dU [] = false := rfl

theorem valid_plain (ch : Nat) (cs : Str) (h95 : ch ≠ 95) (h35 : ch ≠ 35) :
    isValidIdent lU dU (ch :: cs) =
      (!isDigit dU ch && (ch :: cs).all (identPart lU dU)) := by
  have e95 : (ch == 95) = false := by simpa using h95
  have e35 : (ch == 35) = false := by simpa using h35
  simp only [isValidIdent, List.isEmpty_cons, Bool.false_eq_true, ↓reduceIte, cutPrefix, e95, e35,
    firstRune]
  cases isDigit dU ch <;> simp

theorem valid_hash (cs : Str) :
    isValidIdent lU dU (35 :: cs) =
      (!isDigit dU (firstRune cs) && cs.all (identPart lU dU)) := by
  have e : ((35 : Nat) == 95) = false := by decide
  simp only [isValidIdent, List.isEmpty_cons, Bool.false_eq_true, ↓reduceIte, cutPrefix, e,
    BEq.rfl]
  cases isDigit dU (firstRune cs) <;> simp

theorem valid_underscore : isValidIdent lU dU [95] = true := by
  simp [isValidIdent, cutPrefix]

theorem valid_underscore_hash (cs : Str) :
    isValidIdent lU dU (95 :: 35 :: cs) =
      (!isDigit dU (firstRune cs) && cs.all (identPart lU dU)) := by
  simp only [isValidIdent, List.isEmpty_cons, Bool.false_eq_true, ↓reduceIte, cutPrefix,
    BEq.rfl]
  cases isDigit dU (firstRune cs) <;> simp

theorem valid_underscore_plain (c : Nat) (cs : Str) (h35 : c ≠ 35) :
    isValidIdent lU dU (95 :: c :: cs) = (c :: cs).all (identPart lU dU) := by
  have e35 : (c == 35) = false := by simpa using h35
  simp [isValidIdent, cutPrefix, e35]

/-! ### the token switch of `Scan` -/

/-- the observable on one token: identifier-shaped, and the literal is `s` -/
def obs (t : Tok) (s : Str) : Bool := t.identShaped && t.lit == s

theorem obs_notIdent (e : Bool) (s : Str) : obs (notIdent e) s = false := rfl

theorem headIs_nil (p : Nat → Bool) : headIs p [] = false := rfl

/-- ASCII letters, '$' and (under disjointness) non-ASCII letters are not digits -/
theorem not_digit_of_letter (hdisj : ∀ c, 128 ≤ c → lU c = true → dU c = false) (ch : Nat)
    (h : (isLetter lU ch || ch == 36) = true) : isDigit dU ch = false := by
  simp only [isLetter, Bool.or_eq_true, Bool.and_eq_true, decide_eq_true_eq, beq_iff_eq] at h
  simp only [isDigit, Bool.or_eq_false_iff, Bool.and_eq_false_iff, decide_eq_false_iff_not]
  rcases h with ((⟨h1, h2⟩ | ⟨h1, h2⟩) | ⟨h1, h2⟩) | h
  · exact ⟨by omega, Or.inl (by omega)⟩
  · exact ⟨by omega, Or.inl (by omega)⟩
  · exact ⟨by omega, Or.inr (hdisj ch h1 h2)⟩
  · exact ⟨by omega, Or.inl (by omega)⟩

/-- first character '#' -/
theorem scanAt_hash (hFFFD : dU 0xFFFD = false) (cs : Str) (err : Bool) :
    obs (scanAt lU dU (35 :: cs) err) (35 :: cs) = isValidIdent lU dU (35 :: cs) := by
  rw [valid_hash, ← sfi_hash_beq lU dU hFFFD]
  have hl : isLetter lU 35 = false := by simp [isLetter]
  unfold scanAt
  simp only [hl, show ((35 : Nat) ≤ 57) = True by simp, show ((48 : Nat) ≤ 35) = False by simp,
    decide_false, decide_true, Bool.false_and, Bool.false_eq_true, ↓reduceIte, BEq.rfl,
    Bool.or_true, bne_self_eq_false, Bool.false_or]
  by_cases hw : (scanFieldIdentifier lU dU (35 :: cs)).1 = 35 :: cs
  · -- the literal is the whole input, hence nothing follows and the token is IDENT
    have hr := sfi_rest_nil lU dU _ hw
    have hb : ((scanFieldIdentifier lU dU (35 :: cs)).1 == 35 :: cs) = true := by
      rw [hw]; simp
    rw [hb]
    split
    · simp [obs, hb]
    · simp only [hr, headIs_nil, Bool.not_false, ↓reduceIte]
      simp [obs, hb]
  · have hb : ((scanFieldIdentifier lU dU (35 :: cs)).1 == 35 :: cs) = false := by
      simpa using hw
    rw [hb]
    split
    · simp [obs, hb]
    · split
      · simp [obs, hb]
      · rfl

/-- first character a letter or '$' -/
theorem scanAt_letter (hdisj : ∀ c, 128 ≤ c → lU c = true → dU c = false) (ch : Nat) (cs : Str)
    (err : Bool) (hl : (isLetter lU ch || ch == 36) = true) :
    obs (scanAt lU dU (ch :: cs) err) (ch :: cs) = isValidIdent lU dU (ch :: cs) := by
  have hnd := not_digit_of_letter lU dU hdisj ch hl
  have hl' := hl
  simp only [isLetter, Bool.or_eq_true, Bool.and_eq_true, decide_eq_true_eq, beq_iff_eq] at hl'
  have hfacts : ¬ (48 ≤ ch ∧ ch ≤ 57) ∧ ch ≠ 35 ∧ ch ≠ 95 := by
    rcases hl' with ((⟨h1, h2⟩ | ⟨h1, h2⟩) | ⟨h1, h2⟩) | h <;> omega
  obtain ⟨hd, h35, h95⟩ := hfacts
  have hd' : (decide (48 ≤ ch) && decide (ch ≤ 57)) = false := by
    simp only [Bool.and_eq_false_iff, decide_eq_false_iff_not]; omega
  have hne : (ch != 35) = true := by simpa using h35
  have hl2 : (isLetter lU ch || ch == 36 || ch == 35) = true := by rw [hl]; rfl
  rw [valid_plain lU dU ch cs h95 h35, hnd, ← identLoop_beq]
  unfold scanAt
  simp only [hd', Bool.false_eq_true, ↓reduceIte, hl2, sfi_ne lU dU ch cs h35, hne, Bool.true_or,
    ite_self, obs, Bool.true_and, Bool.not_false]

/-- first character an ASCII digit: a number token -/
theorem scanAt_digit (ch : Nat) (cs : Str) (err : Bool) (hd : 48 ≤ ch ∧ ch ≤ 57) :
    obs (scanAt lU dU (ch :: cs) err) (ch :: cs) = isValidIdent lU dU (ch :: cs) := by
  have hd' : (decide (48 ≤ ch) && decide (ch ≤ 57)) = true := by simp [hd]
  have hdig : isDigit dU ch = true := by simp [isDigit, hd]
  rw [valid_plain lU dU ch cs (by omega) (by omega), hdig]
  unfold scanAt
  simp only [hd', ↓reduceIte, obs_notIdent]
  rfl

/-- any other first character: some token that is not identifier-shaped -/
theorem scanAt_other (ch : Nat) (cs : Str) (err : Bool) (hd : ¬ (48 ≤ ch ∧ ch ≤ 57))
    (hl : (isLetter lU ch || ch == 36 || ch == 35) = false) (h95 : ch ≠ 95) :
    obs (scanAt lU dU (ch :: cs) err) (ch :: cs) = isValidIdent lU dU (ch :: cs) := by
  have hd' : (decide (48 ≤ ch) && decide (ch ≤ 57)) = false := by
    simp only [Bool.and_eq_false_iff, decide_eq_false_iff_not]; omega
  have e95 : (ch == 95) = false := by simpa using h95
  have hl' := hl
  simp only [Bool.or_eq_false_iff, beq_eq_false_iff_ne] at hl'
  obtain ⟨⟨hlet, h36⟩, h35⟩ := hl'
  have e36 : (ch == 36) = false := by simpa using h36
  have e35 : (ch == 35) = false := by simpa using h35
  rw [valid_plain lU dU ch cs h95 h35]
  unfold scanAt
  simp only [hd', Bool.false_eq_true, ↓reduceIte, e95, obs_notIdent, List.all_cons, identPart,
    hlet, e36, e35, Bool.false_or, Bool.or_false]
  cases isDigit dU ch <;> rfl

theorem sfi_hash_head (t : Str) :
    ∃ l', (scanFieldIdentifier lU dU (35 :: t)).1 = 35 :: l' := by
  unfold scanFieldIdentifier
  simp only
  split
  · exact ⟨[], rfl⟩
  · exact ⟨_, rfl⟩

theorem identPart_124 : identPart lU dU 124 = false := by
  simp [identPart, isLetter, isDigit]

/-- first character '_' -/
theorem scanAt_underscore (hFFFD : dU 0xFFFD = false) (cs : Str) (err : Bool) :
    obs (scanAt lU dU (95 :: cs) err) (95 :: cs) = isValidIdent lU dU (95 :: cs) := by
  have hl : (isLetter lU 95 || (95 : Nat) == 36 || (95 : Nat) == 35) = false := by
    simp [isLetter]
  have hd' : (decide ((48 : Nat) ≤ 95) && decide ((95 : Nat) ≤ 57)) = false := by decide
  unfold scanAt
  simp only [hd', Bool.false_eq_true, ↓reduceIte, hl, BEq.rfl]
  split
  · -- `_|_`
    rename_i u
    simp only [↓reduceIte, obs_notIdent]
    rw [valid_underscore_plain lU dU 124 (95 :: u) (by decide)]
    simp [identPart_124]
  · cases cs with
    | nil => simp [sfi_nil, obs, valid_underscore, headIs]
    | cons c t =>
      by_cases h35 : c = 35
      · subst h35
        rw [valid_underscore_hash, ← sfi_hash_beq lU dU hFFFD]
        obtain ⟨l', hl'⟩ := sfi_hash_head lU dU t
        simp [hl', obs]
      · rw [valid_underscore_plain lU dU c t h35, sfi_ne lU dU c t h35, ← identLoop_beq]
        by_cases hw : (identLoop lU dU (c :: t)).1 = c :: t
        · have happ := identLoop_append lU dU (c :: t)
          rw [hw] at happ
          have hr : (identLoop lU dU (c :: t)).2.1 = [] := List.append_right_eq_self.mp happ
          simp [hw, hr, headIs, obs]
        · have hb : ((identLoop lU dU (c :: t)).1 == c :: t) = false := by simpa using hw
          rw [hb]
          simp only [Bool.false_eq_true, ↓reduceIte]
          split
          · rfl
          · simp [obs, hb]

/-- the token switch agrees with `IsValidIdent` at every position -/
theorem scanAt_agree (hFFFD : dU 0xFFFD = false)
    (hdisj : ∀ c, 128 ≤ c → lU c = true → dU c = false) (cur : Str) (err : Bool) :
    obs (scanAt lU dU cur err) cur = isValidIdent lU dU cur := by
  cases cur with
  | nil => rfl
  | cons ch cs =>
    by_cases hd : 48 ≤ ch ∧ ch ≤ 57
    · exact scanAt_digit lU dU ch cs err hd
    · by_cases hl : (isLetter lU ch || ch == 36) = true
      · exact scanAt_letter lU dU hdisj ch cs err hl
      · by_cases h35 : ch = 35
        · subst h35; exact scanAt_hash lU dU hFFFD cs err
        · by_cases h95 : ch = 95
          · subst h95; exact scanAt_underscore lU dU hFFFD cs err
          · apply scanAt_other lU dU ch cs err hd _ h95
            have hl' : (isLetter lU ch || ch == 36) = false := by simpa using hl
            have e35 : (ch == 35) = false := by simpa using h35
            rw [hl', e35]; rfl

/-! ### `Init`, `skipWhitespace` and the theorem -/

theorem sfi_len (s : Str) : (scanFieldIdentifier lU dU s).1.length ≤ s.length := by
  have := congrArg List.length (sfi_append lU dU s)
  simp only [List.length_append] at this
  omega

/-- an identifier-shaped token's literal is no longer than what is left of the input -/
theorem scanAt_len (cur : Str) (err : Bool) :
    (scanAt lU dU cur err).identShaped = true →
      (scanAt lU dU cur err).lit.length ≤ cur.length := by
  cases cur with
  | nil => intro h; cases h
  | cons ch cs =>
    have h1 := sfi_len lU dU (ch :: cs)
    have h2 := sfi_len lU dU cs
    simp only [List.length_cons] at h1
    unfold scanAt
    simp only
    repeat' split
    all_goals first
      | (intro h; cases h; done)
      | (intro _; simp only [List.length_cons]; omega)
      | (intro _; contradiction)

theorem obs_false_of_len (cur s : Str) (err : Bool) (h : cur.length < s.length) :
    obs (scanAt lU dU cur err) s = false := by
  cases ho : obs (scanAt lU dU cur err) s with
  | false => rfl
  | true =>
    exfalso
    simp only [obs, Bool.and_eq_true, beq_iff_eq] at ho
    have := scanAt_len lU dU cur err ho.1
    rw [ho.2] at this
    omega

theorem skipWs_len (s : Str) : (skipWs s).1.length ≤ s.length := by
  induction s with
  | nil => simp [skipWs]
  | cons c cs ih =>
    unfold skipWs
    split
    · simp only [List.length_cons]; omega
    · simp

def isWs (c : Nat) : Bool := c == 32 || c == 9 || c == 10 || c == 13

theorem skipWs_not_ws (c : Nat) (cs : Str) (h : isWs c = false) :
    skipWs (c :: cs) = (c :: cs, false) := by
  unfold skipWs
  simp only [isWs] at h
  simp [h]

theorem skipWs_ws (c : Nat) (cs : Str) (h : isWs c = true) :
    (skipWs (c :: cs)).1 = (skipWs cs).1 := by
  unfold isWs at h
  rw [skipWs]
  simp [h]

theorem valid_ws (c : Nat) (cs : Str) (h : isWs c = true) :
    isValidIdent lU dU (c :: cs) = false := by
  simp only [isWs, Bool.or_eq_true, beq_iff_eq] at h
  rcases h with ((h | h) | h) | h <;> subst h <;>
    (rw [valid_plain lU dU _ cs (by decide) (by decide)]
     simp [identPart, isLetter, isDigit])

theorem valid_bom (hBOM : lU 0xFEFF = false) (cs : Str) :
    isValidIdent lU dU (0xFEFF :: cs) = false := by
  rw [valid_plain lU dU _ cs (by decide) (by decide)]
  simp only [List.all_cons, identPart, isLetter, hBOM]
  cases isDigit dU 65279 <;> simp

/-- **Identifier spellings agree.**  For every string of code points, the scanner's first token
is identifier-shaped (IDENT or keyword) with the whole input as its literal iff
`ast.IsValidIdent` holds.  Side conditions, all true of Go's Unicode tables and each needed:
* `hFFFD`: U+FFFD is not a digit (`IsValidIdent("#")` decodes the empty rest to U+FFFD);
* `hBOM`: U+FEFF is not a letter (`Init` skips a leading byte order mark);
* `hdisj`: no rune >= 0x80 is both letter and digit (`Scan` tests `isLetter` where
  `IsValidIdent` tests `isDigit` on the first character). -/
theorem ident_agree (hFFFD : dU 0xFFFD = false) (hBOM : lU 0xFEFF = false)
    (hdisj : ∀ c, 128 ≤ c → lU c = true → dU c = false) (s : Str) :
    scanIdent lU dU s = isValidIdent lU dU s := by
  show obs (scanFirst lU dU s) s = _
  cases s with
  | nil => rfl
  | cons c cs =>
    unfold scanFirst init
    by_cases hb : c = 0xFEFF
    · subst hb
      rw [valid_bom lU dU hBOM]
      simp only [BEq.rfl, ↓reduceIte]
      apply obs_false_of_len
      have := skipWs_len cs
      simp only [List.length_cons]
      omega
    · have hb' : (c == 0xFEFF) = false := by simpa using hb
      simp only [hb', Bool.false_eq_true, ↓reduceIte]
      cases hw : isWs c with
      | true =>
        rw [valid_ws lU dU c cs hw]
        apply obs_false_of_len
        rw [skipWs_ws c cs hw]
        have := skipWs_len cs
        simp only [List.length_cons]
        omega
      | false =>
        rw [skipWs_not_ws c cs hw]
        exact scanAt_agree lU dU hFFFD hdisj (c :: cs) _

/-! ### the same with "and the scanner reported no error" -/

section clean
variable (hL1 : lU 0xFFFD = false) (hL2 : lU 0xFEFF = false)
  (hD1 : dU 0xFFFD = false) (hD2 : dU 0xFEFF = false)
include hL1 hL2 hD1 hD2

/-- NUL, U+FFFD and U+FEFF (the characters `next()` complains about) are not identifier parts -/
theorem nextErr_of_identPart (c : Nat) (t : Str) (h : identPart lU dU c = true) :
    nextErr (c :: t) = false := by
  simp only [nextErr, Bool.or_eq_false_iff, beq_eq_false_iff_ne]
  refine ⟨⟨?_, ?_⟩, ?_⟩ <;> intro hc <;> subst hc <;>
    simp [identPart, isLetter, isDigit, hL1, hL2, hD1, hD2] at h

theorem loop_all (s : Str) (h : (identLoop lU dU s).1 = s) :
    (identLoop lU dU s).2.2 = false ∧ nextErr s = false := by
  induction s with
  | nil => exact ⟨rfl, rfl⟩
  | cons c cs ih =>
    unfold identLoop at h ⊢
    split
    · rename_i hc
      simp only [hc, ↓reduceIte, List.cons.injEq, true_and] at h
      obtain ⟨h1, h2⟩ := ih h
      exact ⟨by simp [h1, h2], nextErr_of_identPart lU dU hL1 hL2 hD1 hD2 c cs hc⟩
    · rename_i hc
      simp [hc] at h

theorem sfi_all (s : Str) (h : (scanFieldIdentifier lU dU s).1 = s) :
    (scanFieldIdentifier lU dU s).2.2 = false ∧ nextErr s = false := by
  cases s with
  | nil => exact ⟨rfl, rfl⟩
  | cons c t =>
    by_cases h35 : c = 35
    · subst h35
      have hn : nextErr (35 :: t) = false := by simp [nextErr]
      refine ⟨?_, hn⟩
      unfold scanFieldIdentifier at h ⊢
      simp only at h ⊢
      by_cases hd : headIs (isDigit dU) t = true
      · simp only [hd, ↓reduceIte, List.cons.injEq, true_and] at h
        subst h
        simp [headIs] at hd
      · simp only [hd, ↓reduceIte, List.cons.injEq, true_and, Bool.false_eq_true] at h ⊢
        obtain ⟨h1, h2⟩ := loop_all lU dU hL1 hL2 hD1 hD2 t h
        simp [h1, h2]
    · rw [sfi_ne lU dU c t h35] at h ⊢
      exact loop_all lU dU hL1 hL2 hD1 hD2 (c :: t) h

/-- a token whose literal is everything from `cur` on adds no error -/
theorem scanAt_err (cur : Str) (err : Bool) :
    obs (scanAt lU dU cur err) cur = true → (scanAt lU dU cur err).err = err := by
  cases cur with
  | nil => intro h; cases h
  | cons ch cs =>
    have hA : (scanFieldIdentifier lU dU (ch :: cs)).1 = ch :: cs →
        (scanFieldIdentifier lU dU (ch :: cs)).2.2 = false :=
      fun h => (sfi_all lU dU hL1 hL2 hD1 hD2 _ h).1
    have hB : (scanFieldIdentifier lU dU cs).1 = cs →
        (scanFieldIdentifier lU dU cs).2.2 = false ∧ nextErr cs = false :=
      fun h => sfi_all lU dU hL1 hL2 hD1 hD2 _ h
    unfold scanAt
    simp only [obs]
    repeat' split
    all_goals first
      | (intro h; cases h; done)
      | (intro h
         simp only [Bool.true_and, beq_iff_eq] at h
         simp only [hA h, Bool.or_false]
         done)
      | (intro h
         simp only [Bool.true_and, beq_iff_eq, List.cons.injEq] at h
         obtain ⟨h1, h2⟩ := hB h.2
         simp only [h1, h2, Bool.or_false]
         done)
      | (intro _; contradiction)

/-- **Identifier spellings agree, error-free variant.**  `scanIdentClean` additionally
requires that the scanner reported no error; under the (true) side conditions that U+FFFD
and U+FEFF are neither letters nor digits it coincides with `scanIdent`. -/
theorem scanIdentClean_eq (s : Str) : scanIdentClean lU dU s = scanIdent lU dU s := by
  show (obs (scanFirst lU dU s) s && !(scanFirst lU dU s).err) = obs (scanFirst lU dU s) s
  cases ho : obs (scanFirst lU dU s) s with
  | false => rfl
  | true =>
    suffices h : (scanFirst lU dU s).err = false by rw [h]; rfl
    cases s with
    | nil => cases ho
    | cons c cs =>
      unfold scanFirst init at ho ⊢
      by_cases hb : c = 0xFEFF
      · subst hb
        simp only [BEq.rfl, ↓reduceIte] at ho
        rw [obs_false_of_len] at ho
        · cases ho
        · have := skipWs_len cs
          simp only [List.length_cons]
          omega
      · have hb' : (c == 0xFEFF) = false := by simpa using hb
        simp only [hb', Bool.false_eq_true, ↓reduceIte] at ho ⊢
        cases hw : isWs c with
        | true =>
          rw [obs_false_of_len] at ho
          · cases ho
          · rw [skipWs_ws c cs hw]
            have := skipWs_len cs
            simp only [List.length_cons]
            omega
        | false =>
          rw [skipWs_not_ws c cs hw] at ho ⊢
          simp only at ho ⊢
          rw [scanAt_err lU dU hL1 hL2 hD1 hD2 _ _ ho]
          -- the first character is not NUL / U+FFFD, or the token would not be an identifier
          by_cases h0 : c = 0
          · subst h0
            simp [scanAt, isLetter, obs, notIdent] at ho
          · by_cases hf : c = 0xFFFD
            · subst hf
              simp [scanAt, isLetter, obs, notIdent, hL1] at ho
            · simp [h0, hf]

end clean

theorem ident_agree_clean (hL1 : lU 0xFFFD = false) (hL2 : lU 0xFEFF = false)
    (hD1 : dU 0xFFFD = false) (hD2 : dU 0xFEFF = false)
    (hdisj : ∀ c, 128 ≤ c → lU c = true → dU c = false) (s : Str) :
    scanIdentClean lU dU s = isValidIdent lU dU s := by
  rw [scanIdentClean_eq lU dU hL1 hL2 hD1 hD2, ident_agree lU dU hD1 hL2 hdisj]

/-! ### tests (evaluation on samples; NOT the property) and tightness of the side conditions -/

-- "#a", "_#a", "__", "$1", "_", "#", "é" are identifiers for both (233 = é is the only non-ASCII letter)
example : ([[35, 97], [95, 35, 97], [95, 95], [36, 49], [95], [35], [233]].all fun s =>
    scanIdent (· == 233) (· == 0x663) s && isValidIdent (· == 233) (· == 0x663) s) = true := by
  decide
-- "#1", "_#1", "__#", "_|_", "##", "a#", "1a", "٣", " a", "" are not, for both
example : ([[35, 49], [95, 35, 49], [95, 95, 35], [95, 124, 95], [35, 35], [97, 35], [49, 97],
    [0x663], [32, 97], []].all fun s =>
    !scanIdent (· == 233) (· == 0x663) s && !isValidIdent (· == 233) (· == 0x663) s) = true := by
  decide
-- `hFFFD` is needed: if U+FFFD were a digit, `IsValidIdent("#")` would be false
example : scanIdent (fun _ => false) (· == 0xFFFD) [35] ≠
    isValidIdent (fun _ => false) (· == 0xFFFD) [35] := by decide
-- `hBOM` is needed: if U+FEFF were a letter, `IsValidIdent("\uFEFF")` would be true
example : scanIdent (· == 0xFEFF) (fun _ => false) [0xFEFF] ≠
    isValidIdent (· == 0xFEFF) (fun _ => false) [0xFEFF] := by decide
-- `hdisj` is needed: a rune that is both letter and digit is lexed as an identifier
example : scanIdent (· == 233) (· == 233) [233] ≠ isValidIdent (· == 233) (· == 233) [233] := by
  decide

end CueVerif.Ident
