import CueVerif.Model.ModzipEsc
import CueVerif.Proofs.ModzipEscape
import CueVerif.Proofs.ModzipCreate
/-!
mod/module/escape.go: the literal transcription equals the byte-level model, unescape is a left
inverse of escape, and the cache directory name `enc@encVer` determines (path, version).
-/
namespace CueVerif.Modzip

theorem decodeRune_ge {b0 : Nat} {rest : Str} {r : Nat} {s' : Str}
    (h : decodeRune (b0 :: rest) = some (r, s')) (hb : 128 ≤ b0) : 128 ≤ r := by
  simp only [decodeRune] at h
  repeat' split at h
  all_goals (try simp only [Option.some.injEq, Prod.mk.injEq, reduceCtorEq] at h)
  all_goals (try omega)

theorem runes_ascii (s : Str) (h : ∀ b ∈ s, b < 128) : runes s = s := by
  induction s with
  | nil => rfl
  | cons b t ih =>
    rw [runes_cons_ascii b t (h b List.mem_cons_self),
      ih (fun x hx => h x (List.mem_cons_of_mem _ hx))]

theorem runes_any_ge (s : Str) (h : ∃ b ∈ s, 128 ≤ b) : ∃ r ∈ runes s, 128 ≤ r := by
  induction s with
  | nil => obtain ⟨b, hb, _⟩ := h; cases hb
  | cons b t ih =>
    by_cases hb : b < 128
    · rw [runes_cons_ascii b t hb]
      obtain ⟨x, hx, hx128⟩ := h
      rcases List.mem_cons.mp hx with rfl | hx
      · omega
      · obtain ⟨r, hr, hr128⟩ := ih ⟨x, hx, hx128⟩
        exact ⟨r, List.mem_cons_of_mem _ hr, hr128⟩
    · unfold runes
      simp only [List.length_cons, runesAux]
      split
      · rename_i r s' hd
        exact ⟨r, by simp, decodeRune_ge hd (by omega)⟩
      · exact ⟨65533, by simp, by omega⟩

theorem flatMap_escRune_noUpper (s : Str) (h : ∀ r ∈ s, ¬ (65 ≤ r ∧ r ≤ 90)) :
    s.flatMap escRune = s := by
  induction s with
  | nil => rfl
  | cons a t ih =>
    rw [List.flatMap_cons, ih (fun r hr => h r (List.mem_cons_of_mem _ hr))]
    unfold escRune
    rw [if_neg (h a List.mem_cons_self)]
    rfl

/-- the literal transcription of escapeString (two loops over the runes, fast path when there
is no upper-case letter) computes the same function as the byte-level model -/
theorem escapeStringLit_eq (s : Str) : escapeStringLit s = escapeString s := by
  by_cases hall : ∀ b ∈ s, b < 128
  · unfold escapeStringLit escapeString
    simp only [runes_ascii s hall]
    split
    · rfl
    · split
      · rename_i hnu
        have hnu' : ∀ x ∈ s, isUpper x = false := by simpa using hnu
        have : ∀ r ∈ s, ¬ (65 ≤ r ∧ r ≤ 90) := by
          intro r hr hc
          have := hnu' r hr
          simp [isUpper] at this
          omega
        have := flatMap_escRune_noUpper s this
        unfold escRune at this
        rw [this]
      · rfl
  · have hex : ∃ b ∈ s, 128 ≤ b := by
      apply Classical.byContradiction
      intro hn
      apply hall
      intro b hb
      apply Classical.byContradiction
      intro hlt
      exact hn ⟨b, hb, by omega⟩
    obtain ⟨r, hr, hr128⟩ := runes_any_ge s hex
    obtain ⟨b, hb, hb128⟩ := hex
    have h1 : (runes s).any (fun r => r == 33 || decide (r ≥ 128)) = true :=
      List.any_eq_true.mpr ⟨r, hr, by simp; right; exact hr128⟩
    have h2 : s.any (fun r => r == 33 || decide (r ≥ 128)) = true :=
      List.any_eq_true.mpr ⟨b, hb, by simp; right; exact hb128⟩
    unfold escapeStringLit escapeString
    simp only [h1, h2, if_true]

/-! ### unescape ∘ escape = id -/

theorem unescape_flatMap (s : Str) (h : ∀ r ∈ s, r ≠ 33 ∧ r < 128) :
    unescapeString (s.flatMap escRune) = some s := by
  induction s with
  | nil => rfl
  | cons a t ih =>
    have ha := h a List.mem_cons_self
    have iht := ih (fun r hr => h r (List.mem_cons_of_mem _ hr))
    rw [List.flatMap_cons]
    unfold escRune
    by_cases hu : 65 ≤ a ∧ a ≤ 90
    · rw [if_pos hu]
      show unescapeString (33 :: (a + 32) :: t.flatMap escRune) = some (a :: t)
      unfold unescapeString
      simp only [if_true]
      have : 97 ≤ a + 32 ∧ a + 32 ≤ 122 := by omega
      rw [if_pos this, iht]
      simp
    · rw [if_neg hu]
      show unescapeString (a :: t.flatMap escRune) = some (a :: t)
      unfold unescapeString
      rw [if_neg ha.1, if_neg hu, iht]
      rfl

theorem unescape_escape (s e : Str) (h : escapeString s = some e) :
    unescapeString e = some s := by
  obtain ⟨h1, rfl⟩ := escapeString_eq s e h
  exact unescape_flatMap s h1

/-! ### `enc@encVer` determines (path, version) -/

theorem append_sep_inj (x : Nat) (a a' b b' : Str) (ha : x ∉ a) (ha' : x ∉ a')
    (h : a ++ x :: b = a' ++ x :: b') : a = a' ∧ b = b' := by
  induction a generalizing a' with
  | nil =>
    cases a' with
    | nil => simp at h; exact ⟨rfl, h⟩
    | cons c cs =>
      simp only [List.nil_append, List.cons_append, List.cons.injEq] at h
      exact absurd (by rw [h.1]; exact List.mem_cons_self) ha'
  | cons c cs ih =>
    cases a' with
    | nil =>
      simp only [List.nil_append, List.cons_append, List.cons.injEq] at h
      exact absurd (by rw [← h.1]; exact List.mem_cons_self) ha
    | cons d ds =>
      simp only [List.cons_append, List.cons.injEq] at h
      obtain ⟨h1, h2⟩ := ih ds (fun hx => ha (List.mem_cons_of_mem _ hx))
        (fun hx => ha' (List.mem_cons_of_mem _ hx)) h.2
      exact ⟨by rw [h.1, h1], h2⟩

theorem escape_no_at (s e : Str) (h : escapeString s = some e) (hs : 64 ∉ s) : 64 ∉ e := by
  obtain ⟨_, rfl⟩ := escapeString_eq s e h
  intro hb
  rw [List.mem_flatMap] at hb
  obtain ⟨r, hr, hbr⟩ := hb
  unfold escRune at hbr
  split at hbr
  · simp only [List.mem_cons, List.not_mem_nil, or_false] at hbr; omega
  · simp only [List.mem_cons, List.not_mem_nil, or_false] at hbr; subst hbr; exact hs hr

theorem escapeVersion_some {U : Uni} {sv : Bool} {v e : Str} (h : escapeVersion U sv v = some e) :
    sv = true ∧ checkElem U v = none ∧ 33 ∉ v ∧ escapeString v = some e := by
  unfold escapeVersion at h
  split at h
  · cases h
  · rename_i h1
    split at h
    · cases h
    · rename_i h2
      simp only [Bool.or_eq_true, Option.isSome_iff_ne_none, ne_eq, List.contains_eq_mem,
        decide_eq_true_eq, not_or, Decidable.not_not] at h2
      rw [escapeStringLit_eq] at h
      exact ⟨by simpa using h1, h2.1, h2.2, h⟩

theorem escapePath_some {ok : Bool} {p e : Str} (h : escapePath ok p = some e) :
    ok = true ∧ escapeString p = some e := by
  unfold escapePath at h
  split at h
  · cases h
  · rename_i h1
    rw [escapeStringLit_eq] at h
    exact ⟨by simpa using h1, h⟩

/-- two module versions with the same extraction directory name are the same module version
(module paths contain no '@': modPathOK, checked by CheckPathWithoutVersion — a hypothesis
here) -/
theorem cacheDirName_injective (U : Uni) (ok ok' sv sv' : Bool) (p p' v v' d : Str)
    (hp : 64 ∉ p) (hp' : 64 ∉ p')
    (h : cacheDirName U ok sv p v = some d) (h' : cacheDirName U ok' sv' p' v' = some d) :
    p = p' ∧ v = v' := by
  unfold cacheDirName at h h'
  split at h
  · rename_i ep ev h1 h2
    split at h'
    · rename_i ep' ev' h1' h2'
      have heq : ep' ++ 64 :: ev' = ep ++ 64 :: ev :=
        (Option.some.inj h').trans (Option.some.inj h).symm
      have e1 := (escapePath_some h1).2
      have e1' := (escapePath_some h1').2
      have e2 := (escapeVersion_some h2).2.2.2
      have e2' := (escapeVersion_some h2').2.2.2
      obtain ⟨a, b⟩ := append_sep_inj 64 ep' ep ev' ev (escape_no_at _ _ e1' hp')
        (escape_no_at _ _ e1 hp) heq
      subst a; subst b
      exact ⟨escape_injective p p' _ e1 e1', escape_injective v v' _ e2 e2'⟩
    · cases h'
  · cases h

end CueVerif.Modzip
