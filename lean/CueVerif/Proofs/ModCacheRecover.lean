import CueVerif.Proofs.ModCacheObs
/-!
C16: recovery.  From any state that satisfies the invariant in which no thread is running
(e.g. every process that ever touched the cache has been killed at an arbitrary point), a
clean `Fetch` by a fresh process, run alone and without registry faults, terminates, returns
the directory, and the directory is the complete module.
-/
namespace CueVerif.ModCache

/-- reflexive-transitive closure of `Step` -/
inductive Steps (n : Nat) : VSt → VSt → Prop
  | refl (s) : Steps n s s
  | tail {s s' s''} : Steps n s s' → Step n s' s'' → Steps n s s''

theorem runAlone_steps (n : Nat) (t : Tid) : ∀ fuel s evs, Steps n s (runAlone n t fuel s evs).1 := by
  sorry

/-- size of what RemoveAll still has to remove -/
def dsize : Option DirSt → Nat
  | none => 0
  | some d => d.files + (if d.cur then 1 else 0) + 1

/-- a bound on the number of steps the fetching thread still needs -/
def rank (n : Nat) (s : VSt) : Pc → Nat
  | .fStatDir => 25 + s.ztmps.length + dsize s.dir + 2 * n
  | .fStatMark => 24 + s.ztmps.length + dsize s.dir + 2 * n
  | .zEnter => 23 + s.ztmps.length + dsize s.dir + 2 * n
  | .zStat1 => 22 + s.ztmps.length + dsize s.dir + 2 * n
  | .zLock => 21 + s.ztmps.length + dsize s.dir + 2 * n
  | .zStat2 => 20 + s.ztmps.length + dsize s.dir + 2 * n
  | .zClean => 19 + s.ztmps.length + dsize s.dir + 2 * n
  | .zCreate => 18 + dsize s.dir + 2 * n
  | .zGet _ => 17 + dsize s.dir + 2 * n
  | .zCopy _ => 16 + dsize s.dir + 2 * n
  | .zRename _ => 15 + dsize s.dir + 2 * n
  | .zUnlock true => 14 + dsize s.dir + 2 * n
  | .lLock => 13 + dsize s.dir + 2 * n
  | .lStatDir => 12 + dsize s.dir + 2 * n
  | .lStatMark => 11 + dsize s.dir + 2 * n
  | .lRmAll => 10 + dsize s.dir + 2 * n
  | .lMark => 9 + 2 * n
  | .uCheck => 8 + 2 * n
  | .uMkdir => 7 + 2 * n
  | .uCreate i => 6 + 2 * (n - i)
  | .uWrite i => 5 + 2 * (n - i)
  | .fUnmark => 4
  | .fReadOnly => 3
  | .fUnlock _ => 2
  | _ => 0

/-- the program points a fault-free Fetch passes through -/
def Pc.onPath : Pc → Bool
  | .fStatDir | .fStatMark | .zEnter | .zStat1 | .zLock | .zStat2 | .zClean | .zCreate
  | .zGet _ | .zCopy _ | .zRename _ | .zUnlock true | .lLock | .lStatDir | .lStatMark | .lRmAll
  | .lMark | .uCheck | .uMkdir | .uCreate _ | .uWrite _ | .fUnmark | .fReadOnly
  | .fUnlock .avail | .idle => true
  | _ => false

/-- thread `t` is the only one running, inside a fault-free Fetch -/
structure Solo (n : Nat) (t : Tid) (s : VSt) : Prop where
  inv : Inv n s
  others : ∀ u, u ≠ t → s.pc u = .idle
  alive : s.dead t.1 = false
  path : (s.pc t).onPath = true
  fresh : (s.pc t = .fStatDir ∨ s.pc t = .fStatMark ∨ s.pc t = .zEnter) → s.zc t.1 = .idle

/-- one step of the lone thread: it is enabled, stays on the path, the rank drops, and if it
returns, it returns the directory -/
theorem solo_step {n t s} (h : Solo n t s) (hne : s.pc t ≠ .idle) :
    ∃ s' o, next n s t (choiceFor s t .none false) = some (s', o) ∧ Solo n t s' ∧
      rank n s' (s'.pc t) < rank n s (s.pc t) ∧ (s'.pc t = .idle → o.ev = .avail) := by
  sorry

theorem solo_run {n t} : ∀ fuel s evs, Solo n t s → s.pc t ≠ .idle → rank n s (s.pc t) ≤ fuel →
    (runAlone n t fuel s evs).1.pc t = .idle ∧ Complete n (runAlone n t fuel s evs).1 ∧
      (runAlone n t fuel s evs).1.mark = false ∧ Ev.avail ∈ (runAlone n t fuel s evs).2 := by
  sorry

/-- **recovery** -/
theorem recover {n s} (h : Inv n s) (hq : ∀ u, s.pc u = .idle) (t : Tid)
    (ha : s.dead t.1 = false) (hz : s.zc t.1 = .idle) :
    (cleanFetch n s t).1.pc t = .idle ∧ Complete n (cleanFetch n s t).1 ∧
      (cleanFetch n s t).1.mark = false ∧ Ev.avail ∈ (cleanFetch n s t).2 ∧
      Steps n s (cleanFetch n s t).1 := by
  sorry

end CueVerif.ModCache
