import CueVerif.Proofs.ModCacheObs
/-!
C16: recovery.  From any state that satisfies the invariant in which no thread is running
(e.g. every process that ever touched the cache has been killed at an arbitrary point), a
clean `Fetch` by a fresh process, run alone and without registry faults, terminates, returns
the directory, and the directory is the complete module.
-/
namespace CueVerif.ModCache

/-- reflexive-transitive closure of `Step` -/
inductive Steps (n : Nat) : VSt → VSt → Prop
  | refl (s) : Steps n s s
  | tail {s s' s''} : Steps n s s' → Step n s' s'' → Steps n s s''

theorem Steps.head {n s s' s''} (h : Step n s s') (hs : Steps n s' s'') : Steps n s s'' := by
  induction hs with
  | refl => exact .tail (.refl _) h
  | tail _ st ih => exact .tail ih st

theorem runAlone_idle {n t fuel s evs} (h : s.pc t = .idle) :
    runAlone n t fuel s evs = (s, evs) := by
  cases fuel with
  | zero => rfl
  | succ f => unfold runAlone; simp [h]

theorem runAlone_succ {n t fuel s evs s' o} (hne : s.pc t ≠ .idle)
    (hn : next n s t (choiceFor s t .none false) = some (s', o)) :
    runAlone n t (fuel + 1) s evs = runAlone n t fuel s' (evs ++ [o.ev]) := by
  rw [runAlone]
  split
  · rename_i e; exact absurd e hne
  · simp [hn]

theorem runAlone_steps (n : Nat) (t : Tid) : ∀ fuel s evs, Steps n s (runAlone n t fuel s evs).1 := by
  intro fuel
  induction fuel with
  | zero => intro s evs; exact .refl _
  | succ f ih =>
    intro s evs
    by_cases hp : s.pc t = .idle
    · rw [runAlone_idle hp]; exact .refl _
    · cases hn : next n s t (choiceFor s t .none false) with
      | none =>
        rw [runAlone]
        split
        · exact .refl _
        · simp only [hn]; exact .refl _
      | some r =>
        obtain ⟨s', o⟩ := r
        rw [runAlone_succ hp hn]
        exact Steps.head (.act _ _ t _ o hn) (ih _ _)

/-- size of what RemoveAll still has to remove -/
def dsize : Option DirSt → Nat
  | none => 0
  | some d => d.files + (if d.cur then 1 else 0) + 1

theorem dsize_rmOne (d : DirSt) : dsize (rmOne d) < dsize (some d) := by
  obtain ⟨k, c, g⟩ := d
  cases c
  · cases k <;> simp [rmOne, dsize]
  · simp [rmOne, dsize]

/-- a bound on the number of steps the fetching thread still needs -/
def rank (n : Nat) (s : VSt) : Pc → Nat
  | .fStatDir => 25 + s.ztmps.length + dsize s.dir + 2 * n
  | .fStatMark => 24 + s.ztmps.length + dsize s.dir + 2 * n
  | .zEnter => 23 + s.ztmps.length + dsize s.dir + 2 * n
  | .zStat1 => 22 + s.ztmps.length + dsize s.dir + 2 * n
  | .zLock => 21 + s.ztmps.length + dsize s.dir + 2 * n
  | .zStat2 => 20 + s.ztmps.length + dsize s.dir + 2 * n
  | .zClean => 19 + s.ztmps.length + dsize s.dir + 2 * n
  | .zCreate => 18 + dsize s.dir + 2 * n
  | .zGet _ => 17 + dsize s.dir + 2 * n
  | .zCopy _ => 16 + dsize s.dir + 2 * n
  | .zRename _ => 15 + dsize s.dir + 2 * n
  | .zUnlock true => 14 + dsize s.dir + 2 * n
  | .lLock => 13 + dsize s.dir + 2 * n
  | .lStatDir => 12 + dsize s.dir + 2 * n
  | .lStatMark => 11 + dsize s.dir + 2 * n
  | .lRmAll => 10 + dsize s.dir + 2 * n
  | .lMark => 9 + 2 * n
  | .uCheck => 8 + 2 * n
  | .uMkdir => 7 + 2 * n
  | .uCreate i => 6 + 2 * (n - i)
  | .uWrite i => 5 + 2 * (n - i)
  | .fUnmark => 4
  | .fReadOnly => 3
  | .fUnlock _ => 2
  | _ => 0

/-- the program points a fault-free Fetch passes through -/
def Pc.onPath : Pc → Bool
  | .fStatDir | .fStatMark | .zEnter | .zStat1 | .zLock | .zStat2 | .zClean | .zCreate
  | .zGet _ | .zCopy _ | .zRename _ | .zUnlock true | .lLock | .lStatDir | .lStatMark | .lRmAll
  | .lMark | .uCheck | .uMkdir | .uCreate _ | .uWrite _ | .fUnmark | .fReadOnly
  | .fUnlock .avail | .idle => true
  | _ => false

/-- thread `t` is the only one running, inside a fault-free Fetch -/
structure Solo (n : Nat) (t : Tid) (s : VSt) : Prop where
  inv : Inv n s
  others : ∀ u, u ≠ t → s.pc u = .idle
  alive : s.dead t.1 = false
  path : (s.pc t).onPath = true
  fresh : (s.pc t = .fStatDir ∨ s.pc t = .fStatMark ∨ s.pc t = .zEnter) → s.zc t.1 = .idle

/-- a step of `t` touches nobody else's program counter and kills nobody -/
theorem next_frame {n s t c s' o} (hn : next n s t c = some (s', o)) :
    (∀ u, u ≠ t → s'.pc u = s.pc u) ∧ s'.dead = s.dead := by
  all_next
  all_goals (refine ⟨fun u hu => ?_, rfl⟩; first | rfl | simp [upd, hu])

theorem solo_lock_none {n t s} (h : Solo n t s) (hc : (s.pc t).crit = false) : s.lock = none := by
  cases hl : s.lock with
  | none => rfl
  | some k =>
    have := h.inv.lock_crit k hl
    by_cases e : k = t
    · subst e; rw [hc] at this; cases this
    · rw [h.others k e] at this; simp [Pc.crit] at this

/-- what one step of the lone thread has to achieve -/
def Good (n : Nat) (t : Tid) (s : VSt) : Prop :=
  ∃ s' o, next n s t (choiceFor s t .none false) = some (s', o) ∧
    (s'.pc t).onPath = true ∧
    ((s'.pc t = .fStatDir ∨ s'.pc t = .fStatMark ∨ s'.pc t = .zEnter) → s'.zc t.1 = .idle) ∧
    rank n s' (s'.pc t) < rank n s (s.pc t) ∧ (s'.pc t = .idle → o.ev = .avail)

theorem solo_fStatDir {n t s} (h : Solo n t s) (hp : s.pc t = .fStatDir) : Good n t s := by
  have hz := h.fresh (Or.inl hp)
  have ha := h.alive
  cases hd : s.dir with
  | none =>
    refine ⟨{ s with pc := upd s.pc t .zEnter }, {}, by simp [next, hp, ha, hd], ?_⟩
    simp [upd, Pc.onPath, rank, hp, hd, hz]
  | some d =>
    refine ⟨{ s with pc := upd s.pc t .fStatMark }, { hook := some "downloaddir.between-stats" },
      by simp [next, hp, ha, hd], ?_⟩
    simp [upd, Pc.onPath, rank, hp, hd, hz]

theorem solo_fStatMark {n t s} (h : Solo n t s) (hp : s.pc t = .fStatMark) : Good n t s := by
  have hz := h.fresh (Or.inr (Or.inl hp))
  have ha := h.alive
  cases hm : s.mark with
  | true =>
    refine ⟨{ s with pc := upd s.pc t .zEnter }, {}, by simp [next, hp, ha, hm], ?_⟩
    simp [upd, Pc.onPath, rank, hp, hz]
  | false =>
    refine ⟨{ s with pc := upd s.pc t .idle }, { ev := .avail }, by simp [next, hp, ha, hm], ?_⟩
    simp [upd, Pc.onPath, rank, hp] <;> omega

theorem solo_zEnter {n t s} (h : Solo n t s) (hp : s.pc t = .zEnter) : Good n t s := by
  have hz := h.fresh (Or.inr (Or.inr hp))
  have ha := h.alive
  refine ⟨{ s with pc := upd s.pc t .zStat1, zc := upd s.zc t.1 (.running t.2) }, {},
    by simp [next, hp, ha, hz], ?_⟩
  simp [upd, Pc.onPath, rank, hp] <;> omega

theorem solo_zStat1 {n t s} (h : Solo n t s) (hp : s.pc t = .zStat1) : Good n t s := by
  have ha := h.alive
  cases hd : s.zip with
  | none =>
    refine ⟨{ s with pc := upd s.pc t .zLock }, {}, by simp [next, hp, ha, hd], ?_⟩
    simp [upd, Pc.onPath, rank, hp] <;> omega
  | some d =>
    refine ⟨{ s with pc := upd s.pc t .lLock, zc := upd s.zc t.1 (.done true) },
      { hook := some "fetch.zip-ready" }, by simp [next, hp, ha, hd], ?_⟩
    simp [upd, Pc.onPath, rank, hp] <;> omega

theorem solo_zLock {n t s} (h : Solo n t s) (hp : s.pc t = .zLock) : Good n t s := by
  have ha := h.alive
  have hl := solo_lock_none h (by simp [hp, Pc.crit])
  refine ⟨{ s with pc := upd s.pc t .zStat2, lock := some t }, {}, by simp [next, hp, ha, hl], ?_⟩
  simp [upd, Pc.onPath, rank, hp] <;> omega

theorem solo_zStat2 {n t s} (h : Solo n t s) (hp : s.pc t = .zStat2) : Good n t s := by
  have ha := h.alive
  cases hd : s.zip with
  | none =>
    refine ⟨{ s with pc := upd s.pc t .zClean }, {}, by simp [next, hp, ha, hd], ?_⟩
    simp [upd, Pc.onPath, rank, hp] <;> omega
  | some d =>
    refine ⟨{ s with pc := upd s.pc t (.zUnlock true) }, {}, by simp [next, hp, ha, hd], ?_⟩
    simp [upd, Pc.onPath, rank, hp] <;> omega

theorem solo_zClean {n t s} (h : Solo n t s) (hp : s.pc t = .zClean) : Good n t s := by
  have ha := h.alive
  cases hd : s.ztmps with
  | nil =>
    refine ⟨{ s with pc := upd s.pc t .zCreate }, {}, by simp [next, hp, ha, hd], ?_⟩
    simp [upd, Pc.onPath, rank, hp, hd]
  | cons e r =>
    obtain ⟨k, b⟩ := e
    refine ⟨{ s with ztmps := tdel k s.ztmps }, {}, by simp [next, hp, ha, hd], ?_⟩
    have := tdel_head_length_lt k b r
    simp [Pc.onPath, rank, hp, hd]; omega

theorem solo_zCreate {n t s} (h : Solo n t s) (hp : s.pc t = .zCreate) : Good n t s := by
  have ha := h.alive
  have hf := tget_fresh s.ztmps
  refine ⟨{ s with pc := upd s.pc t (.zGet (fresh s.ztmps)), ztmps := tset (fresh s.ztmps) .part s.ztmps },
    { hook := some "zip.tmp-created" }, by simp [next, hp, ha, choiceFor, hf], ?_⟩
  simp [upd, Pc.onPath, rank, hp] <;> omega

theorem solo_zGet {n t s k} (h : Solo n t s) (hp : s.pc t = .zGet k) : Good n t s := by
  have ha := h.alive
  refine ⟨{ s with pc := upd s.pc t (.zCopy k), nget := upd s.nget t.1 (s.nget t.1 + 1) },
    { ev := .getZip }, by simp [next, hp, ha, choiceFor], ?_⟩
  simp [upd, Pc.onPath, rank, hp] <;> omega

theorem solo_zCopy {n t s k} (h : Solo n t s) (hp : s.pc t = .zCopy k) : Good n t s := by
  have ha := h.alive
  refine ⟨{ s with pc := upd s.pc t (.zRename k),
                   ztmps := if (tget k s.ztmps).isSome then tset k .full s.ztmps else s.ztmps },
    { hook := some "zip.copied" }, by simp [next, hp, ha, choiceFor], ?_⟩
  simp [upd, Pc.onPath, rank, hp] <;> omega

theorem solo_zRename {n t s k} (h : Solo n t s) (hp : s.pc t = .zRename k) : Good n t s := by
  have ha := h.alive
  have hl := h.inv.loc t
  rw [hp] at hl
  simp only [Local] at hl
  refine ⟨{ s with pc := upd s.pc t (.zUnlock true), zip := some .full, ztmps := tdel k s.ztmps },
    { hook := some "zip.renamed" }, by simp [next, hp, ha, hl], ?_⟩
  simp [upd, Pc.onPath, rank, hp] <;> omega

theorem solo_zUnlock {n t s} (h : Solo n t s) (hp : s.pc t = .zUnlock true) : Good n t s := by
  have ha := h.alive
  refine ⟨{ s with pc := upd s.pc t .lLock, lock := unlock s t, zc := upd s.zc t.1 (.done true) },
    { hook := some "fetch.zip-ready" }, by simp [next, hp, ha], ?_⟩
  simp [upd, Pc.onPath, rank, hp] <;> omega

theorem solo_lLock {n t s} (h : Solo n t s) (hp : s.pc t = .lLock) : Good n t s := by
  have ha := h.alive
  have hl := solo_lock_none h (by simp [hp, Pc.crit])
  refine ⟨{ s with pc := upd s.pc t .lStatDir, lock := some t }, { hook := some "fetch.locked" },
    by simp [next, hp, ha, hl], ?_⟩
  simp [upd, Pc.onPath, rank, hp] <;> omega

theorem solo_lStatDir {n t s} (h : Solo n t s) (hp : s.pc t = .lStatDir) : Good n t s := by
  have ha := h.alive
  cases hd : s.dir with
  | none =>
    refine ⟨{ s with pc := upd s.pc t .lMark }, { hook := some "fetch.cleaned" },
      by simp [next, hp, ha, hd], ?_⟩
    simp [upd, Pc.onPath, rank, hp] <;> omega
  | some d =>
    refine ⟨{ s with pc := upd s.pc t .lStatMark }, { hook := some "downloaddir.between-stats" },
      by simp [next, hp, ha, hd], ?_⟩
    simp [upd, Pc.onPath, rank, hp] <;> omega

theorem solo_lStatMark {n t s} (h : Solo n t s) (hp : s.pc t = .lStatMark) : Good n t s := by
  have ha := h.alive
  cases hm : s.mark with
  | true =>
    refine ⟨{ s with pc := upd s.pc t .lRmAll }, {}, by simp [next, hp, ha, hm], ?_⟩
    simp [upd, Pc.onPath, rank, hp] <;> omega
  | false =>
    refine ⟨{ s with pc := upd s.pc t (.fUnlock .avail) }, {}, by simp [next, hp, ha, hm], ?_⟩
    simp [upd, Pc.onPath, rank, hp] <;> omega

theorem solo_lRmAll {n t s} (h : Solo n t s) (hp : s.pc t = .lRmAll) : Good n t s := by
  have ha := h.alive
  cases hd : s.dir with
  | none =>
    refine ⟨{ s with pc := upd s.pc t .lMark }, { hook := some "fetch.cleaned" },
      by simp [next, hp, ha, hd], ?_⟩
    simp [upd, Pc.onPath, rank, hp, hd, dsize]
  | some d =>
    refine ⟨{ s with dir := rmOne d }, {}, by simp [next, hp, ha, hd], ?_⟩
    have := dsize_rmOne d
    simp [Pc.onPath, rank, hp, hd]; omega

theorem solo_lMark {n t s} (h : Solo n t s) (hp : s.pc t = .lMark) : Good n t s := by
  have ha := h.alive
  refine ⟨{ s with pc := upd s.pc t .uCheck, mark := true }, { hook := some "fetch.partial-written" },
    by simp [next, hp, ha], ?_⟩
  simp [upd, Pc.onPath, rank, hp] <;> omega

theorem solo_uCheck {n t s} (h : Solo n t s) (hp : s.pc t = .uCheck) : Good n t s := by
  have ha := h.alive
  have hl := h.inv.loc t
  have hz := h.inv.has_zip t (by simp [hp, Pc.needZip])
  rw [hp] at hl
  simp only [Local] at hl
  refine ⟨{ s with pc := upd s.pc t .uMkdir }, {}, ?_, ?_⟩
  · cases hzz : s.zip with
    | none => simp [hzz] at hz
    | some b => simp [next, hp, ha, hl.1, hzz]
  · simp [upd, Pc.onPath, rank, hp]

theorem solo_uMkdir {n t s} (h : Solo n t s) (hp : s.pc t = .uMkdir) : Good n t s := by
  have ha := h.alive
  refine ⟨_, { hook := some "unzip.dir-created" }, by simp [next, hp, ha]; rfl, ?_⟩
  simp [upd, Pc.onPath, rank, hp] <;> omega

theorem solo_uCreate {n t s i} (h : Solo n t s) (hp : s.pc t = .uCreate i) : Good n t s := by
  have ha := h.alive
  by_cases hi : i < n
  · refine ⟨_, { hook := some "unzip.file-created" }, by simp [next, hp, ha, hi]; rfl, ?_⟩
    simp [upd, Pc.onPath, rank, hp] <;> omega
  · refine ⟨{ s with pc := upd s.pc t .fUnmark }, { hook := some "fetch.unzipped" },
      by simp [next, hp, ha, hi], ?_⟩
    simp [upd, Pc.onPath, rank, hp] <;> omega

theorem solo_uWrite {n t s i} (h : Solo n t s) (hp : s.pc t = .uWrite i) : Good n t s := by
  have ha := h.alive
  have hl := h.inv.loc t
  rw [hp] at hl
  simp only [Local] at hl
  refine ⟨_, { hook := some "unzip.file-written" }, by simp [next, hp, ha]; rfl, ?_⟩
  simp [upd, Pc.onPath, rank, hp] <;> omega

theorem solo_fUnmark {n t s} (h : Solo n t s) (hp : s.pc t = .fUnmark) : Good n t s := by
  have ha := h.alive
  have hl := h.inv.loc t
  rw [hp] at hl
  simp only [Local] at hl
  refine ⟨{ s with pc := upd s.pc t .fReadOnly, mark := false }, { hook := some "fetch.partial-removed" },
    by simp [next, hp, ha, hl.2], ?_⟩
  simp [upd, Pc.onPath, rank, hp] <;> omega

theorem solo_fReadOnly {n t s} (h : Solo n t s) (hp : s.pc t = .fReadOnly) : Good n t s := by
  have ha := h.alive
  refine ⟨{ s with pc := upd s.pc t (.fUnlock .avail) }, { hook := some "fetch.done" },
    by simp [next, hp, ha], ?_⟩
  simp [upd, Pc.onPath, rank, hp] <;> omega

theorem solo_fUnlock {n t s} (h : Solo n t s) (hp : s.pc t = .fUnlock .avail) : Good n t s := by
  have ha := h.alive
  refine ⟨{ s with pc := upd s.pc t .idle, lock := unlock s t }, { ev := .avail },
    by simp [next, hp, ha], ?_⟩
  simp [upd, Pc.onPath, rank, hp] <;> omega

theorem solo_good {n t s} (h : Solo n t s) (hne : s.pc t ≠ .idle) : Good n t s := by
  have hpath := h.path
  cases hp : s.pc t with
  | idle => exact absurd hp hne
  | fStatDir => exact solo_fStatDir h hp
  | fStatMark => exact solo_fStatMark h hp
  | zEnter => exact solo_zEnter h hp
  | zStat1 => exact solo_zStat1 h hp
  | zLock => exact solo_zLock h hp
  | zStat2 => exact solo_zStat2 h hp
  | zClean => exact solo_zClean h hp
  | zCreate => exact solo_zCreate h hp
  | zGet k => exact solo_zGet h hp
  | zCopy k => exact solo_zCopy h hp
  | zRename k => exact solo_zRename h hp
  | zUnlock b =>
    cases b with
    | true => exact solo_zUnlock h hp
    | false => simp [hp, Pc.onPath] at hpath
  | lLock => exact solo_lLock h hp
  | lStatDir => exact solo_lStatDir h hp
  | lStatMark => exact solo_lStatMark h hp
  | lRmAll => exact solo_lRmAll h hp
  | lMark => exact solo_lMark h hp
  | uCheck => exact solo_uCheck h hp
  | uMkdir => exact solo_uMkdir h hp
  | uCreate i => exact solo_uCreate h hp
  | uWrite i => exact solo_uWrite h hp
  | fUnmark => exact solo_fUnmark h hp
  | fReadOnly => exact solo_fReadOnly h hp
  | fUnlock r =>
    cases r with
    | avail => exact solo_fUnlock h hp
    | err => simp [hp, Pc.onPath] at hpath
  | _ => simp [hp, Pc.onPath] at hpath

/-- one step of the lone thread: it is enabled, stays on the path, the rank drops, and if it
returns, it returns the directory -/
theorem solo_step {n t s} (h : Solo n t s) (hne : s.pc t ≠ .idle) :
    ∃ s' o, next n s t (choiceFor s t .none false) = some (s', o) ∧ Solo n t s' ∧
      rank n s' (s'.pc t) < rank n s (s.pc t) ∧ (s'.pc t = .idle → o.ev = .avail) := by
  obtain ⟨s', o, hn, hpath, hfresh, hrank, hev⟩ := solo_good h hne
  obtain ⟨hpc, hdead⟩ := next_frame hn
  refine ⟨s', o, hn, ⟨inv_next h.inv hn, ?_, ?_, hpath, hfresh⟩, hrank, hev⟩
  · intro u hu; rw [hpc u hu]; exact h.others u hu
  · rw [hdead]; exact h.alive

theorem rank_pos {n s pc} (hpath : pc.onPath = true) (hne : pc ≠ .idle) : 0 < rank n s pc := by
  cases pc with
  | zUnlock b => cases b <;> simp [Pc.onPath, rank] at hpath ⊢; omega
  | fUnlock r => simp [rank]
  | _ => simp [Pc.onPath, rank] at hpath hne ⊢ <;> omega

theorem solo_run {n t} : ∀ fuel s evs, Solo n t s → s.pc t ≠ .idle → rank n s (s.pc t) ≤ fuel →
    (runAlone n t fuel s evs).1.pc t = .idle ∧ Complete n (runAlone n t fuel s evs).1 ∧
      (runAlone n t fuel s evs).1.mark = false ∧ Ev.avail ∈ (runAlone n t fuel s evs).2 := by
  intro fuel
  induction fuel with
  | zero =>
    intro s evs h hne hr
    have := rank_pos (n := n) (s := s) h.path hne
    omega
  | succ f ih =>
    intro s evs h hne hr
    obtain ⟨s', o, hn, h', hrank, hev⟩ := solo_step h hne
    rw [runAlone_succ hne hn]
    by_cases hi : s'.pc t = .idle
    · rw [runAlone_idle hi]
      obtain ⟨hc, hm⟩ := avail_event h.inv hn (hev hi)
      exact ⟨hi, hc, hm, by simp [hev hi]⟩
    · exact ih s' _ h' hi (by omega)

/-- **recovery** -/
theorem recover {n s} (h : Inv n s) (hq : ∀ u, s.pc u = .idle) (t : Tid)
    (ha : s.dead t.1 = false) (hz : s.zc t.1 = .idle) :
    (cleanFetch n s t).1.pc t = .idle ∧ Complete n (cleanFetch n s t).1 ∧
      (cleanFetch n s t).1.mark = false ∧ Ev.avail ∈ (cleanFetch n s t).2 ∧
      Steps n s (cleanFetch n s t).1 := by
  have hn : next n s t { start := .fetch } = some ({ s with pc := upd s.pc t .fStatDir }, {}) := by
    simp [next, ha, hq t]
  have hsolo : Solo n t { s with pc := upd s.pc t .fStatDir } := by
    refine ⟨inv_next h hn, ?_, ha, by simp [upd, Pc.onPath], fun _ => hz⟩
    intro u hu; simp [upd, hu, hq u]
  have hrank : rank n { s with pc := upd s.pc t .fStatDir } (upd s.pc t .fStatDir t) ≤ fuelFor n s := by
    simp only [upd_same, rank, fuelFor]
    cases hd : s.dir with
    | none => simp [dsize]; omega
    | some d => cases hc : d.cur <;> simp [dsize, hc] <;> omega
  have hne : upd s.pc t .fStatDir t ≠ .idle := by simp
  have hrun := solo_run (fuelFor n s) _ [] hsolo hne hrank
  have hst := runAlone_steps n t (fuelFor n s) { s with pc := upd s.pc t .fStatDir } []
  have hcf : cleanFetch n s t = runAlone n t (fuelFor n s) { s with pc := upd s.pc t .fStatDir } [] := by
    simp [cleanFetch, hn]
  rw [hcf]
  exact ⟨hrun.1, hrun.2.1, hrun.2.2.1, hrun.2.2.2, Steps.head (.act _ _ t _ _ hn) hst⟩

end CueVerif.ModCache
