import CueVerif.Model.Export
import CueVerif.Props.C08
/-!
C07 (3) — the exporter builds disjunctions and conjunctions WITHOUT parenthesis nodes and relies
on the formatter's precedence printing: corollary of C08's theorems.
-/
namespace CueVerif.Export
open CueVerif CueVerif.Fmt

theorem foldl_bin_wf (o : OpTok) (ho : 1 ≤ o.prec) : ∀ (es : List Expr) (e : Expr), e.wf = true →
    (∀ x ∈ es, x.wf = true) → (es.foldl (fun acc x => Expr.bin o acc x) e).wf = true
  | [], e, he, _ => he
  | x :: es, e, he, h => by
    apply foldl_bin_wf o ho es (.bin o e x)
    · simp [Expr.wf, ho, he, h x (List.mem_cons_self)]
    · intro y hy; exact h y (List.mem_cons_of_mem _ hy)

theorem newBinExpr_wf (o : OpTok) (ho : 1 ≤ o.prec) (es : List Expr) (h : ∀ x ∈ es, x.wf = true)
    (e : Expr) (he : newBinExpr o es = some e) : e.wf = true := by
  cases es with
  | nil => cases he
  | cons x es =>
    simp only [newBinExpr, Option.some.injEq] at he
    subst he
    exact foldl_bin_wf o ho es x (h x List.mem_cons_self) (fun y hy => h y (List.mem_cons_of_mem _ hy))

theorem mkDisj_wf (ds : List (Bool × Expr)) (h : ∀ d ∈ ds, d.2.wf = true) (e : Expr)
    (he : mkDisj ds = some e) : e.wf = true := by
  apply newBinExpr_wf .or (by decide) _ _ e he
  intro x hx
  obtain ⟨d, hd, rfl⟩ := List.mem_map.1 hx
  unfold markDisjunct
  cases hb : d.1 <;> simp [Expr.wf, OpTok.isUnary, h d hd]

theorem mkConj_wf (es : List Expr) (h : ∀ x ∈ es, x.wf = true) (e : Expr)
    (he : mkConj es = some e) : e.wf = true :=
  newBinExpr_wf .and (by decide) es h e he

/-- what both formatters write for a well-formed tree scans and parses to a tree that differs
from it in parenthesis nodes only -/
theorem reparses_same (e : Expr) (h : e.wf = true) :
    (∃ t, (scan (render (fmtV2 e))).bind parseE = some t ∧ erase t = erase e) ∧
    (∃ t, (scan (render (fmtV1 e))).bind parseE = some t ∧ erase t = erase e) :=
  ⟨⟨norm e, C08.C08_v2_output_reparses e h, C08.C08_same_meaning e⟩,
   ⟨norm e, C08.C08_v1_output_reparses e h, C08.C08_same_meaning e⟩⟩

end CueVerif.Export
