import CueVerif.Model.ModzipDir
import CueVerif.Proofs.ModzipCreate
/-!
C15: the directory walk (listFilesInDir / CheckDir) and Create's sort.
-/
namespace CueVerif.Modzip

/-! ### the walk lists only regular, non-vendored files of the tree -/

mutual
theorem walkEntry_sound (rel name : Str) : (t : DTree) →
    ∀ f ∈ (walkEntry rel name t).files,
      f ∈ allFilesEntry rel t ∧ f.kind = .regular ∧ isVendoredPackage f.path = false
  | .file size => by
    intro f hf
    unfold walkEntry at hf
    split at hf
    · cases hf
    · rename_i hv
      simp only [List.mem_singleton] at hf
      subst hf
      exact ⟨by simp [allFilesEntry], rfl, by simpa using hv⟩
  | .irregular => by
    intro f hf
    unfold walkEntry at hf
    split at hf <;> cases hf
  | .dir ch => by
    intro f hf
    unfold walkEntry at hf
    unfold allFilesEntry
    split at hf
    · simp only [Listing.append, List.nil_append] at hf
      exact walkList_sound _ ch f hf
    · split at hf
      · cases hf
      · split at hf
        · cases hf
        · exact walkList_sound _ ch f hf
theorem walkList_sound (pre : Str) : (l : DList) →
    ∀ f ∈ (walkList pre l).files,
      f ∈ allFilesList pre l ∧ f.kind = .regular ∧ isVendoredPackage f.path = false
  | .nil => by
    intro f hf
    unfold walkList at hf
    cases hf
  | .cons n t rest => by
    intro f hf
    unfold walkList at hf
    unfold allFilesList
    simp only [Listing.append, List.mem_append] at hf ⊢
    rcases hf with hf | hf
    · obtain ⟨a, b, c⟩ := walkEntry_sound _ n t f hf
      exact ⟨Or.inl a, b, c⟩
    · obtain ⟨a, b, c⟩ := walkList_sound pre rest f hf
      exact ⟨Or.inr a, b, c⟩
end

/-! ### on a plain tree the walk lists every regular file and omits nothing -/

mutual
theorem walkEntry_plain (rel name : Str) : (t : DTree) → plainEntry rel name t = true →
    walkEntry rel name t = ⟨allFilesEntry rel t, []⟩
  | .file size => by
    intro h
    unfold plainEntry at h
    have hv : isVendoredPackage rel = false := by simpa using h
    unfold walkEntry allFilesEntry
    simp [hv]
  | .irregular => by
    intro h
    unfold plainEntry at h
    cases h
  | .dir ch => by
    intro h
    unfold plainEntry at h
    simp only [Bool.and_eq_true, Bool.not_eq_true'] at h
    obtain ⟨⟨⟨h1, h2⟩, h3⟩, h4⟩ := h
    unfold walkEntry allFilesEntry
    simp only [h1, h2, h3, Bool.false_eq_true, if_false]
    exact walkList_plain _ ch h4
theorem walkList_plain (pre : Str) : (l : DList) → plainList pre l = true →
    walkList pre l = ⟨allFilesList pre l, []⟩
  | .nil => by
    intro _
    unfold walkList allFilesList
    rfl
  | .cons n t rest => by
    intro h
    unfold plainList at h
    simp only [Bool.and_eq_true] at h
    unfold walkList allFilesList
    rw [walkEntry_plain _ n t h.1, walkList_plain pre rest h.2]
    simp [Listing.append]
end

/-- CheckDir on a plain tree IS CheckFiles on the regular files of the tree -/
theorem checkDir_plain (U : Uni) (root : DList) (h : plainList [] root = true) :
    checkDir U root = ((checkFiles U (allFilesList [] root)).1, []) := by
  unfold checkDir listFilesInDir
  rw [walkList_plain [] root h]

/-! ### Create's comparator and sort -/

theorem createCmp_eq (ap bp : Str) :
    createCmp ap bp = if strLt ap bp then -1 else if strLt bp ap then 1 else 0 := by
  unfold createCmp
  simp

theorem insertBy_perm {α : Type} (lt : α → α → Bool) (x : α) (l : List α) :
    (insertBy lt x l).Perm (x :: l) := by
  induction l with
  | nil => exact List.Perm.refl _
  | cons y ys ih =>
    unfold insertBy
    split
    · exact List.Perm.refl _
    · exact (List.Perm.cons y ih).trans (List.Perm.swap x y ys)

theorem foldl_insertBy_perm {α : Type} (lt : α → α → Bool) (l acc : List α) :
    (l.foldl (fun acc x => insertBy lt x acc) acc).Perm (l ++ acc) := by
  induction l generalizing acc with
  | nil => exact List.Perm.refl _
  | cons x xs ih =>
    rw [List.foldl_cons]
    refine (ih _).trans ?_
    refine (List.Perm.append_left xs (insertBy_perm lt x acc)).trans ?_
    rw [List.cons_append]
    exact List.perm_middle

theorem sortFiles_perm (files : List SrcFile) : (sortFiles files).Perm files := by
  unfold sortFiles
  have := foldl_insertBy_perm
    (fun (a b : SrcFile) => decide (createCmp a.ent.path b.ent.path < 0)) files []
  simpa using this

theorem mem_sortFiles (files : List SrcFile) (s : SrcFile) : s ∈ sortFiles files ↔ s ∈ files :=
  (sortFiles_perm files).mem_iff

/-- Create (sort included) succeeds exactly when the file-list check accepts the sorted list
and no valid file delivers more bytes than Lstat declared; the archive is then the valid files
of the sorted list -/
theorem createFull_iff (U : Uni) (files : List SrcFile) :
    (createFull U files).isSome = true ↔
      ((checkFiles U ((sortFiles files).map (·.ent))).1.isErr = false ∧
       ∀ e ∈ (checkFiles U ((sortFiles files).map (·.ent))).2,
         (srcOf (sortFiles files) e).length ≤ e.size.toNat) := by
  unfold createFull
  constructor
  · intro h
    obtain ⟨z, hz⟩ := Option.isSome_iff_exists.mp h
    obtain ⟨a, b, -⟩ := create_some U _ z hz
    exact ⟨a, b⟩
  · rintro ⟨a, b⟩
    rw [create_eq, a]
    simp only [Bool.false_eq_true, if_false]
    have : ((checkFiles U ((sortFiles files).map (·.ent))).2.any
        (fun e => decide ((srcOf (sortFiles files) e).length > e.size.toNat))) = false := by
      rw [Bool.eq_false_iff]
      intro hc
      obtain ⟨e, he, hd⟩ := List.any_eq_true.mp hc
      have := b e he
      simp only [gt_iff_lt, decide_eq_true_eq] at hd
      omega
    rw [this]
    simp

end CueVerif.Modzip
