/-
C10 helper lemmas: the string a well-formed, well-paired RFC 8259 string token denotes is a
valid UTF-8 byte string (a sequence of encoded Unicode scalar values).  Core Lean only.
-/
import CueVerif.Proofs.JsonString
namespace CueVerif.Json
open CueVerif CueVerif.Quote

def GoodStr (s : Bytes) : Prop := IsBytes s ∧ validUTF8 s = true

theorem goodStr_nil : GoodStr [] := by
  refine ⟨?_, ?_⟩
  · intro b hb; simp at hb
  · simp [validUTF8]

theorem goodStr_rune (r : Nat) (h1 : r ≤ 0x10FFFF) (h2 : ¬ (0xD800 ≤ r ∧ r < 0xE000)) (t : Bytes)
    (ht : GoodStr t) : GoodStr (encodeRune r ++ t) := by
  by_cases h80 : r < 0x80
  · rw [encodeRune_ascii r h80]
    refine ⟨?_, ?_⟩
    · intro b hb
      simp only [List.cons_append, List.nil_append, List.mem_cons] at hb
      rcases hb with rfl | hb
      · omega
      · exact ht.1 b hb
    · show validUTF8 (r :: t) = true
      rw [validUTF8]
      have : ¬ (0x80 ≤ r) := by omega
      simp [decodeFirst, h80, this, ht.2]
  · have h80' : 0x80 ≤ r := by omega
    have hd := decodeRune_encodeRune r t h80' h1 h2
    have hb := encodeRune_bytes_high r h80'
    have hl := encodeRune_length r h80'
    match he : encodeRune r with
    | [] => rw [he] at hl; simp at hl
    | c :: cs =>
      rw [he] at hd hb hl
      refine ⟨?_, ?_⟩
      · intro b hb'
        rcases List.mem_append.mp hb' with h | h
        · exact (hb b h).2
        · exact ht.1 b h
      · have hc := (hb c (by simp)).1
        have hd' : decodeRune (c :: (cs ++ t)) = (r, cs.length + 1) := by simpa using hd
        show validUTF8 (c :: (cs ++ t)) = true
        rw [validUTF8]
        have hnc : ¬ c < 0x80 := by omega
        have hl2 : ¬ (cs.length + 1 = 1) := by simp only [List.length_cons] at hl; omega
        simp only [decodeFirst, hnc, if_false, hd', Nat.add_sub_cancel, List.drop_left]
        have hcs : cs ≠ [] := by intro h; rw [h] at hl2; simp at hl2
        simp [hcs, ht.2]

theorem goodStr_ascii (b : Nat) (hb : b < 0x80) (t : Bytes) (ht : GoodStr t) : GoodStr (b :: t) := by
  have := goodStr_rune b (by omega) (by omega) t ht
  rwa [encodeRune_ascii b hb] at this

theorem uVal_lt (a b c d : Nat) (h : (JItem.u a b c d).wf = true) : uVal a b c d < 65536 :=
  (hexVal_u a b c d h).2

/-- the denotation of a well-formed, well-paired token is valid UTF-8 -/
theorem denote_good : ∀ (n : Nat) (items : List JItem), items.length ≤ n → WfItems items →
    wellPaired items = true → GoodStr (denote items) := by
  intro n
  induction n with
  | zero =>
    intro items hl _ _
    have : items = [] := List.eq_nil_of_length_eq_zero (by omega)
    subst this; simpa [denote] using goodStr_nil
  | succ n ih =>
    intro items hl hwf hp
    cases items with
    | nil => simpa [denote] using goodStr_nil
    | cons i t =>
      have hlt : t.length ≤ n := by simp at hl; omega
      cases i with
      | raw r =>
        have hw := raw_wf hwf.head
        simp only [denote]
        exact goodStr_rune r hw.1 hw.2.1 _ (ih t hlt hwf.tail (by simpa [wellPaired] using hp))
      | esc e =>
        simp only [denote]
        refine goodStr_ascii e.value (by cases e <;> decide) _ (ih t hlt hwf.tail (by simpa [wellPaired] using hp))
      | u a b c d =>
        have hv := uVal_lt a b c d hwf.head
        cases hh : isHigh (uVal a b c d) with
        | false =>
          rw [wellPaired_u_notHigh a b c d t hh, Bool.and_eq_true] at hp
          rw [denote_u_notHigh a b c d t hh]
          have hlow : isLow (uVal a b c d) = false := by simpa using hp.1
          have hnh : ¬ (0xD800 ≤ uVal a b c d ∧ uVal a b c d < 0xDC00) := by
            intro h; rw [(high_iff _).mpr h] at hh; cases hh
          have hnl : ¬ (0xDC00 ≤ uVal a b c d ∧ uVal a b c d < 0xE000) := by
            intro h; rw [(low_iff _).mpr h] at hlow; cases hlow
          exact goodStr_rune _ (by omega) (by omega) _ (ih t hlt hwf.tail hp.2)
        | true =>
          obtain ⟨a', b', c', d', t', rfl, hlow, hp'⟩ := wellPaired_u_high a b c d t hh hp
          rw [denote_u_pair a b c d a' b' c' d' t' hh hlow]
          have h1 := (high_iff _).mp hh
          have h2 := (low_iff _).mp hlow
          have hlt' : t'.length ≤ n := by simp at hlt; omega
          refine goodStr_rune _ ?_ ?_ _ (ih t' hlt' hwf.tail.tail hp')
          · have : combine (uVal a b c d) (uVal a' b' c' d') =
                0x10000 + (uVal a b c d - 0xD800) * 0x400 + (uVal a' b' c' d' - 0xDC00) := rfl
            omega
          · have : combine (uVal a b c d) (uVal a' b' c' d') =
                0x10000 + (uVal a b c d - 0xD800) * 0x400 + (uVal a' b' c' d' - 0xDC00) := rfl
            omega

end CueVerif.Json
