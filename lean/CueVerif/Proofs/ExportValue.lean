import CueVerif.Spec.Export
import CueVerif.Proofs.CoreWF
import CueVerif.Proofs.Core
/-!
C07 (4) — proofs: the reference exporters on CueCore values round-trip through `eval`.
Core Lean only.
-/
namespace CueVerif.Export
open CueVerif CueVerif.Core

/-! ### slot lists -/

/-- `n` empty slots in front -/
def pad : Nat → Slots → Slots
  | 0, xs => xs
  | n + 1, xs => .cons .none (pad n xs)

/-- the value of a block of field declarations whose slots (from label `i` on) are `T`, trimmed -/
def ofTrimmed (i : Nat) (T : Slots) : Val := if T.isNil then .top else .struct (pad i T) false

theorem pad_succ (i : Nat) (xs : Slots) : pad (i + 1) xs = pad i (.cons .none xs) := by
  induction i with
  | zero => rfl
  | succ i ih => show Slots.cons .none (pad (i + 1) xs) = .cons .none (pad i (.cons .none xs)); rw [ih]

theorem closeBy_false : ∀ xs : Slots, closeBy false xs = xs
  | .nil => rfl
  | .cons s rest => by simp [closeBy, closeBy_false rest]

theorem single_eq_pad (i : Nat) (s : Slot) : single i s = pad i (.cons s .nil) := by
  induction i with
  | zero => rfl
  | succ i ih => simp [single, pad, ih]

theorem mergeSlot_none_right (s : Slot) : mergeSlot s false .none false = s := by
  cases s <;> simp [mergeSlot]

theorem merge_single_pad (i : Nat) (s : Slot) (rest : Slots) :
    mergeSlots (single i s) false (pad (i + 1) rest) false = pad i (.cons s rest) := by
  induction i with
  | zero => simp [single, pad, mergeSlots, mergeSlot_none_right, closeBy_false]
  | succ i ih =>
    show mergeSlots (.cons .none (single i s)) false (.cons .none (pad (i + 1) rest)) false =
      .cons .none (pad i (.cons s rest))
    rw [mergeSlots, ih]; simp [mergeSlot]

theorem hasRegBot_pad (i : Nat) (xs : Slots) : (pad i xs).hasRegBot = xs.hasRegBot := by
  induction i with
  | zero => rfl
  | succ i ih => simp [pad, Slots.hasRegBot, Slot.isRegBot, ih]

theorem hasRegBot_trim : ∀ xs : Slots, (trimSlots xs).hasRegBot = xs.hasRegBot
  | .nil => rfl
  | .cons s rest => by
    have ih := hasRegBot_trim rest
    simp only [trimSlots]
    split
    · rename_i h
      simp only [Bool.and_eq_true, Bool.not_eq_true'] at h
      cases s with
      | none =>
        cases hr : trimSlots rest with
        | nil => rw [hr] at ih; simp [Slots.hasRegBot, Slot.isRegBot, ← ih]
        | cons a b => rw [hr] at h; simp [Slots.isNil] at h
      | some t v => simp [Slot.isSome] at h
    · simp [Slots.hasRegBot, ih]

theorem trim_noTrail : ∀ xs : Slots, xs.noTrail = true → trimSlots xs = xs
  | .nil, _ => rfl
  | .cons s rest, h => by
    simp only [Slots.noTrail, Bool.and_eq_true, Bool.or_eq_true, Bool.not_eq_true'] at h
    simp only [trimSlots, trim_noTrail rest h.2]
    rcases h.1 with h1 | h1 <;> simp [h1]

/-- one more field declaration in front of a block -/
theorem step_some (i : Nat) (t : ArcTy) (w : Val) (T : Slots)
    (hrb : (Slot.some t w).isRegBot = false) (hT : T.hasRegBot = false) :
    unify (fieldV i t w) (ofTrimmed (i + 1) T) = .struct (pad i (.cons (.some t w) T)) false := by
  have hf : fieldV i t w = .struct (single i (.some t w)) false := by
    simp [fieldV, normS, hasRegBot_single, hrb]
  rw [hf]
  unfold ofTrimmed
  cases T with
  | nil => simp [Slots.isNil, single_eq_pad]
  | cons a b =>
    simp only [Slots.isNil, Bool.false_eq_true, if_false]
    rw [unify_struct_struct, merge_single_pad]
    have hT' : (a.isRegBot || b.hasRegBot) = false := hT
    simp [normS, hasRegBot_pad, Slots.hasRegBot, hrb, hT']

/-- an empty slot in front of a block -/
theorem step_none (i : Nat) (T : Slots) :
    ofTrimmed (i + 1) T = ofTrimmed i (if T.isNil then .nil else .cons .none T) := by
  unfold ofTrimmed
  cases T with
  | nil => rfl
  | cons a b => simp [Slots.isNil, pad_succ]

theorem trim_cons_none (rest : Slots) :
    trimSlots (.cons .none rest) = if (trimSlots rest).isNil then .nil else .cons .none (trimSlots rest) := by
  simp [trimSlots, Slot.isSome]

theorem trim_cons_some (t : ArcTy) (v : Val) (rest : Slots) :
    trimSlots (.cons (.some t v) rest) = .cons (.some t v) (trimSlots rest) := by
  simp [trimSlots, Slot.isSome]

theorem eval_struct (ds : Decls) :
    eval (.struct ds) = (match ds with | .nil => .struct .nil false | .cons d r => evalDecls (.cons d r)) := by
  cases ds <;> simp [eval]

theorem norm_of_wf (s : Sc) (h : s.wf = true) : s.norm = some s := by
  cases s <;> simp [Sc.norm, Sc.iv, mkRng]
  rename_i lo hi
  cases lo <;> cases hi <;> simp [Sc.wf, mkRng] at h ⊢
  rw [if_neg (by omega), if_pos h]

theorem isNil_iff (xs : Slots) : xs.isNil = true ↔ xs = .nil := by
  cases xs <;> simp [Slots.isNil]

/-! ### `exportV` -/

theorem exportSlots_nil_iff : ∀ (xs : Slots) (i : Nat),
    exportSlots i xs = .nil ↔ (trimSlots xs).isNil = true
  | .nil, i => by simp [exportSlots, trimSlots, Slots.isNil]
  | .cons .none rest, i => by
    rw [trim_cons_none]
    simp only [exportSlots, exportSlot]
    rw [exportSlots_nil_iff rest (i + 1)]
    cases (trimSlots rest).isNil <;> simp [Slots.isNil]
  | .cons (.some t v) rest, i => by
    rw [trim_cons_some]
    simp [exportSlots, exportSlot, Slots.isNil]

mutual
theorem eval_exportV : ∀ v : Val, v.wf = true → eval (exportV v) = v
  | .bot, _ => by simp [exportV, eval]
  | .top, _ => by simp [exportV, eval]
  | .sc s, h => by
    simp only [Val.wf] at h
    simp [exportV, eval, litV, norm_of_wf s h]
  | .struct xs c, h => by
    simp only [Val.wf, Bool.and_eq_true, Bool.not_eq_true'] at h
    have hs := evalDecls_exportSlots xs h.1.1 h.2 0
    rw [trim_noTrail xs h.1.2] at hs
    have hn := exportSlots_nil_iff xs 0
    rw [trim_noTrail xs h.1.2] at hn
    have hstruct : eval (.struct (exportSlots 0 xs)) = .struct xs false := by
      rw [eval_struct]
      cases hd : exportSlots 0 xs with
      | nil =>
        have := (isNil_iff xs).1 (hn.1 hd)
        subst this; rfl
      | cons d r =>
        simp only
        rw [← hd, hs]
        unfold ofTrimmed
        have : xs.isNil = false := by
          cases hx : xs.isNil with
          | false => rfl
          | true => rw [hn.2 hx] at hd; cases hd
        simp [this, pad]
    cases c with
    | false => simp [exportV, hstruct]
    | true => simp [exportV, eval, hstruct, closeV]
  | .list vs, h => by
    simp only [Val.wf, Bool.and_eq_true, Bool.not_eq_true'] at h
    simp [exportV, eval, evalList_exportVals vs h.1, normL, h.2]
termination_by structural v => v
theorem evalDecls_exportSlots : ∀ xs : Slots, xs.wf = true → xs.hasRegBot = false →
    ∀ i, evalDecls (exportSlots i xs) = ofTrimmed i (trimSlots xs)
  | .nil, _, _, i => by simp [exportSlots, evalDecls, trimSlots, ofTrimmed, Slots.isNil]
  | .cons s rest, h, hb, i => by
    simp only [Slots.wf, Bool.and_eq_true] at h
    simp only [Slots.hasRegBot, Bool.or_eq_false_iff] at hb
    have ih := evalDecls_exportSlots rest h.2 hb.2 (i + 1)
    have hs := exportSlot_sound s h.1 i
    cases s with
    | none =>
      simp only [exportSlots, exportSlot]
      rw [ih, step_none, trim_cons_none]
    | some t v =>
      simp only [exportSlot, Option.some.injEq] at hs
      simp only [exportSlots, exportSlot, evalDecls, evalDecl]
      rw [hs, ih, trim_cons_some,
        step_some i t v _ hb.1 (by rw [hasRegBot_trim]; exact hb.2)]
      simp [ofTrimmed, Slots.isNil]
termination_by structural xs => xs
theorem exportSlot_sound : ∀ s : Slot, s.wf = true → ∀ i : Nat,
    (match s with
     | .none => True
     | .some _ v => eval (exportV v) = v)
  | .none, _, _ => trivial
  | .some _ v, h, _ => by
    simp only [Slot.wf] at h
    exact eval_exportV v h
termination_by structural s => s
theorem evalList_exportVals : ∀ vs : Vals, vs.wf = true → evalList (exportVals vs) = vs
  | .nil, _ => by simp [exportVals, evalList]
  | .cons v rest, h => by
    simp only [Vals.wf, Bool.and_eq_true] at h
    simp [exportVals, evalList, eval_exportV v h.1, evalList_exportVals rest h.2]
termination_by structural vs => vs
end

end CueVerif.Export
