/-
Automatic comma insertion (C09): after which tokens `Scan` sets `insertEOL`, compared with the
list of doc/ref/spec.md §Commas.  Core Lean only.
-/
import CueVerif.Proofs.ScanTotal
namespace CueVerif.Scan

/-- what the token switch decides about `insertEOL`: ILLEGAL tokens aside (they keep the
previous value, or set it for `__#…`), the value is `insertsComma` of the token kind -/
def ActComma : Act → Prop
  | .done k _ _ i _ _ => k = .ILLEGAL ∨ i = insertsComma k
  | _ => True

theorem strStep_kind (q : QI) (ca : Bool) (lp : Str) (hasCR err : Bool) (b : Nat) (rest : Str)
    (w : Nat) (r1 : Str) (cl : Bool × Str) (r : StrRes)
    (h : strStep q ca lp hasCR err b rest w r1 cl = .stop r) : r.kind = .STRING ∨ r.kind = .INTERPOLATION := by
  unfold strStep at h
  dsimp only at h
  repeat' split at h
  all_goals first
    | (cases h; exact Or.inl rfl)
    | (cases h; exact Or.inr rfl)
    | (exact absurd h (by simp))

theorem strLoop_kind : ∀ cur q ca lp hasCR err skip,
    (strLoop q ca lp hasCR err skip cur).kind = .STRING ∨ (strLoop q ca lp hasCR err skip cur).kind = .INTERPOLATION := by
  intro cur
  induction cur with
  | nil => intro q ca lp hasCR err skip; cases skip <;> simp [strLoop]
  | cons b rest ih =>
    intro q ca lp hasCR err skip
    cases skip with
    | succ k => unfold strLoop; exact ih _ _ _ _ _ _
    | zero =>
      unfold strLoop
      split
      · exact Or.inl rfl
      · dsimp only
        split
        · rename_i r hstep; exact strStep_kind _ _ _ _ _ _ _ _ _ _ _ hstep
        · exact ih _ _ _ _ _ _

theorem scanQuoted_kind (nh ch : Nat) (cur : Str) :
    (scanQuoted nh ch cur).kind = .STRING ∨ (scanQuoted nh ch cur).kind = .INTERPOLATION := by
  unfold scanQuoted
  dsimp only
  repeat' split
  all_goals first
    | exact Or.inl rfl
    | exact strLoop_kind _ _ _ _ _ _ _

theorem quotedAct_comma (cur : Str) (nh ch : Nat) (after : Str) : ActComma (quotedAct cur nh ch after) := by
  unfold quotedAct
  right
  rcases scanQuoted_kind nh ch after with h | h <;> simp only [h] <;> rfl

theorem kindOfNum_comma (k : NumLit.Kind) : true = insertsComma (kindOfNum k) := by
  cases k <;> rfl

theorem lookup_comma (l : Str) : true = insertsComma (lookup l) := by
  unfold lookup; split <;> rfl

theorem classify_comma (M : Mode) (U : Uni) (ins : Bool) (cur : Str) : ActComma (classify M U ins cur) := by
  unfold classify
  split
  · split
    · trivial
    · exact Or.inr rfl
  · dsimp only
    repeat' split
    all_goals first
      | exact Or.inr (kindOfNum_comma _)
      | exact quotedAct_comma _ _ _ _
      | trivial
      | skip
    · -- classIdent
      unfold classIdent
      dsimp only
      repeat' split
      all_goals first
        | exact Or.inr (lookup_comma _)
        | exact Or.inr rfl
        | exact quotedAct_comma _ _ _ _
        | skip
      · unfold hashString
        dsimp only
        repeat' split
        all_goals first
          | exact quotedAct_comma _ _ _ _
          | exact Or.inl rfl
    · unfold classUnderscore
      split
      · exact Or.inr rfl
      dsimp only
      repeat' split
      all_goals first
        | exact Or.inr rfl
        | exact Or.inl rfl
    · unfold classNewline
      dsimp only
      split <;> trivial
    · unfold classDot
      repeat' split
      all_goals first
        | exact Or.inr (kindOfNum_comma _)
        | exact Or.inr rfl
        | exact Or.inl rfl
    · unfold classSlash
      repeat' split
      all_goals first
        | trivial
        | exact Or.inr rfl
    · unfold classOther
      split
      · exact Or.inr rfl
      · exact Or.inl rfl

/-- the spec's list plus the two extra kinds of the code -/
theorem insertsComma_spec (k : Kind) (h1 : k ≠ .SEMICOLON) (h2 : k ≠ .ATTRIBUTE) :
    insertsComma k = specComma k := by
  cases k <;> first | rfl | exact absurd rfl h1 | exact absurd rfl h2

/-- after every token other than ILLEGAL, `s.insertEOL` is `insertsComma` of its kind
(mode without DontInsertCommas) -/
theorem scanTok_comma (M : Mode) (U : Uni) (n : Nat) (hM : M.dontInsertCommas = false) :
    ∀ fuel st t st', scanTok M U n fuel st = some (t, st') → t.kind ≠ .ILLEGAL →
      st'.insertEOL = insertsComma t.kind := by
  intro fuel
  induction fuel with
  | zero => intro st t st' h; simp [scanTok] at h
  | succ fuel ih =>
    intro st t st' h hk
    have hc := classify_comma M U st.insertEOL (skipWs st.insertEOL st.cur)
    unfold scanTok at h
    dsimp only at h
    generalize classify M U st.insertEOL (skipWs st.insertEOL st.cur) = act at hc h
    cases act with
    | done k l rest ins e push =>
      dsimp only at h
      injection h with h
      injection h with h1 h2
      subst h1 h2
      dsimp only at hk ⊢
      rcases hc with hc | hc
      · exact absurd hc hk
      · simp only [hM]; exact hc
    | autoComma rest =>
      dsimp only at h
      injection h with h
      injection h with h1 h2
      subst h1 h2
      rfl
    | again start =>
      dsimp only at h
      split at h
      · exact absurd h (by simp)
      · rename_i t0 s0 heq
        injection h with h
        injection h with h1 h2
        subst h1 h2
        exact ih _ t0 _ heq hk
    | attr c1 =>
      dsimp only at h
      split at h
      · exact absurd h (by simp)
      · split at h
        · split at h
          · exact absurd h (by simp)
          · injection h with h
            injection h with h1 h2
            subst h1 h2
            simp only [hM]; rfl
        · injection h with h
          injection h with h1 h2
          subst h1 h2
          simp only [hM]; rfl

end CueVerif.Scan
