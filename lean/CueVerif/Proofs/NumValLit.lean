/-
C06 helper lemmas, part C1: every spelling of the literal grammar denotes, in the model of
`compiler.parse`/`NumInfo.decimal`, exactly the value the spec assigns to it (`literal_value`,
`literal_litValue`); outside the exponent window it is an error (`literal_window_error`); whatever
is accepted has the spec's kind and value (`literal_sound`).
Core Lean (`Rat` is core); single Mathlib modules may be imported here if really needed.
The supporting lemmas are in `Proofs/NumValLitAux.lean`.
-/
import CueVerif.Model.NumVal
import CueVerif.Spec.Arith
import CueVerif.Proofs.NumLit
import CueVerif.Proofs.NumValLitAux
namespace CueVerif.Proofs.NumValLit
open CueVerif CueVerif.Arith CueVerif.NumVal CueVerif.Spec.Arith
open CueVerif.Proofs.NumValLitAux

/-- Horner evaluation of the separator-free digits is the positional value -/
theorem horner_digitsVal (base : Nat) (hb : base ≤ 16) (ds : List Nat) (h : wfDigits base ds = true) :
    horner base (ds.filter (· != 95)) = digitsVal base ds :=
  horner_ok base hb ds (wfDigits_ok base ds h)

/-- the value reader on a grammar spelling (all bases, separators, fraction, exponent,
multipliers), inside the region where the implementation is right -/
theorem literal_value (l : Lit) (hwf : l.wf = true) (hw : l.inWindow) (hi : l.siIntegral) :
    ∃ n, readValue l.kind l.spell = .ok n ∧ n.k = l.kind ∧ toRat n.d = l.denote := by
  cases l with
  | dec ds => exact lit_dec ds hwf hw
  | bin ds => exact lit_bin ds hwf
  | oct ds => exact lit_oct ds hwf
  | hex u ds => exact lit_hex u ds hwf
  | si ip fp m => exact lit_si ip fp m hwf hw hi
  | siDot fp m => exact lit_siDot fp m hwf hw hi
  | fPoint ip fp ex => exact lit_fPoint ip fp ex hwf hw
  | fExp ip ex => exact lit_fExp ip ex hwf hw
  | fDot fp ex => exact lit_fDot fp ex hwf hw

/-- outside the exponent window of the decimal package the literal is an ERROR, never a wrong
value (the spec's implementation restriction allows the error) -/
theorem literal_window_error (l : Lit) (hwf : l.wf = true) (hw : ¬ l.inWindow) :
    readValue l.kind l.spell = .err := by
  cases l with
  | dec ds => exact lit_dec_out ds hwf hw
  | bin ds => exact absurd (show (Lit.bin ds).inWindow from window_prefixed) hw
  | oct ds => exact absurd (show (Lit.oct ds).inWindow from window_prefixed) hw
  | hex u ds => exact absurd (show (Lit.hex u ds).inWindow from window_prefixed) hw
  | si ip fp m => exact lit_si_out ip fp m hwf hw
  | siDot fp m => exact lit_siDot_out fp m hwf hw
  | fPoint ip fp ex => exact lit_fPoint_out ip fp ex hwf hw
  | fExp ip ex => exact lit_fExp_out ip ex hwf hw
  | fDot fp ex => exact lit_fDot_out fp ex hwf hw

/-- the scanner gate accepts every grammar spelling with the grammar's kind, except the
`si_lit`s with a superfluous leading zero -/
def literal_accepted_stmt : Prop :=
  ∀ l : Lit, l.wf = true → l.siLeadingZero = false → NumLit.parseNumUnsigned l.spell = some l.kind

theorem literal_accepted : literal_accepted_stmt :=
  fun l hwf hz => literal_accepted_aux l hwf hz

/-- gate and value reader together: `compiler.parse` on a grammar spelling, inside the region
where the implementation is right -/
theorem literal_litValue (l : Lit) (hwf : l.wf = true) (hz : l.siLeadingZero = false)
    (hw : l.inWindow) (hi : l.siIntegral) :
    ∃ n, litValue l.spell = .ok n ∧ n.k = l.kind ∧ toRat n.d = l.denote := by
  have := literal_value l hwf hw hi
  unfold litValue
  rw [literal_accepted l hwf hz]
  exact this

/-- an accepted multiplied spelling whose product fits the precision is integral -/
theorem literal_integral (l : Lit) (hwf : l.wf = true) (hw : l.inWindow)
    (n : Num) (h : readValue l.kind l.spell = .ok n) : l.siIntegral := by
  cases l with
  | si ip fp m => exact lit_si_integral ip fp m hwf hw n h
  | siDot fp m => exact lit_siDot_integral fp m hwf hw n h
  | _ => trivial

/-- soundness of the value reader: whatever it accepts has the spec's value -/
theorem literal_read_sound (l : Lit) (hwf : l.wf = true) (n : Num)
    (h : readValue l.kind l.spell = .ok n) : n.k = l.kind ∧ toRat n.d = l.denote := by
  by_cases hw : l.inWindow
  · have hi := literal_integral l hwf hw n h
    obtain ⟨n', h1, h2, h3⟩ := literal_value l hwf hw hi
    rw [h1] at h
    injection h with h
    subst h
    exact ⟨h2, h3⟩
  · rw [literal_window_error l hwf hw] at h
    cases h

/-- soundness of `compiler.parse` on the grammar's spellings: whenever a spelling is accepted its
kind and value are the spec's, unconditionally.  Rejections (`literal_false_trunc`, leading zeros,
the exponent window) are not wrong values. -/
theorem literal_sound (l : Lit) (hwf : l.wf = true) (n : Num)
    (h : litValue l.spell = .ok n) : n.k = l.kind ∧ toRat n.d = l.denote := by
  unfold litValue at h
  cases hk : NumLit.parseNumUnsigned l.spell with
  | none => rw [hk] at h; cases h
  | some k =>
    rw [hk] at h
    have hk' : readValue k l.spell = readValue l.kind l.spell := by
      cases hz : l.siLeadingZero with
      | false =>
        have := literal_accepted l hwf hz
        rw [this] at hk
        injection hk with hk
        rw [hk]
      | true =>
        cases l with
        | si ip fp m => exact readValue_si_kind k ip fp m hwf
        | _ => simp [Lit.siLeadingZero] at hz
    have h' : readValue k l.spell = .ok n := h
    rw [hk'] at h'
    exact literal_read_sound l hwf n h'

/-- full statement: every grammar spelling is accepted and denotes the spec's value -/
def literal_stmt : Prop :=
  ∀ l : Lit, l.wf = true → ∃ n, litValue l.spell = .ok n ∧ n.k = l.kind ∧ toRat n.d = l.denote

/-- `1.3Ki` (spec: 1331) is rejected -/
theorem literal_false_trunc :
    litValue (Lit.si [49] (some [51]) ⟨.K, true⟩).spell = .err ∧
    (Lit.si [49] (some [51]) ⟨.K, true⟩).denote = 1331 := by
  refine ⟨by decide, ?_⟩
  have hm : mantissa [49] [51] * ((1024 : Nat) : Rat) = 6656 / 5 := by
    have a : digitsVal 10 [49] = 1 := by decide
    have b : digitsVal 10 [51] = 3 := by decide
    have c : nDigits [51] = 1 := by decide
    simp only [mantissa, a, b, c]
    simp
    grind
  show ((truncNonneg (mantissa [49] [51] * ((1024 : Nat) : Rat)) : Int) : Rat) = 1331
  rw [hm]
  have : (6656 / 5 : Rat).floor = 1331 := by
    apply floor_eq
    · simp; grind
    · simp; grind
  simp [truncNonneg, this]

/-- `1e100001` (outside the exponent window) is rejected -/
theorem literal_exponent_rejected :
    litValue (Lit.fExp [49] ⟨false, .none, [49, 48, 48, 48, 48, 49]⟩).spell = .err := by
  decide

/-- `0K` is accepted with value 0 -/
theorem literal_bare_zero_ok :
    litValue (Lit.si [48] none ⟨.K, false⟩).spell = .ok ⟨.int, ⟨0, 0⟩⟩ := by
  decide

/-- `12345678901234567890123456789012345678K` (a product of more than 34 digits) is exact -/
theorem literal_big_mantissa_ok :
    litValue (Lit.si [49,50,51,52,53,54,55,56,57,48,49,50,51,52,53,54,55,56,57,48,49,50,51,52,53,54,55,56,57,48,49,50,51,52,53,54,55,56] none ⟨.K, false⟩).spell
      = .ok ⟨.int, ⟨12345678901234567890123456789012345678000, 0⟩⟩ := by
  decide

theorem literal_false : ¬ literal_stmt := by
  intro h
  obtain ⟨n, hn, _, _⟩ := h (Lit.si [49] (some [51]) ⟨.K, true⟩) (by decide)
  rw [literal_false_trunc.1] at hn
  cases hn

end CueVerif.Proofs.NumValLit
