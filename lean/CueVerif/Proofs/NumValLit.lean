/-
C06 helper lemmas, part C1: every spelling of the literal grammar denotes, in the model of
`compiler.parse`/`NumInfo.decimal`, exactly the value the spec assigns to it.
Core Lean (`Rat` is core); single Mathlib modules may be imported here if really needed.
-/
import CueVerif.Model.NumVal
import CueVerif.Spec.Arith
import CueVerif.Proofs.NumLit
namespace CueVerif.Proofs.NumValLit
open CueVerif CueVerif.Arith CueVerif.NumVal CueVerif.Spec.Arith

/-- Horner evaluation of the separator-free digits is the positional value -/
theorem horner_digitsVal (base : Nat) (hb : base ≤ 16) (ds : List Nat) (h : wfDigits base ds = true) :
    horner base (ds.filter (· != 95)) = digitsVal base ds := by sorry

/-- the value reader on a grammar spelling (all bases, separators, fraction, exponent,
multipliers), inside the region where the implementation is right -/
theorem literal_value (l : Lit) (hwf : l.wf = true) (hw : l.inWindow) (hi : l.siIntegral)
    (hf : l.siFits prec) :
    ∃ n, readValue l.kind l.spell = .ok n ∧ n.k = l.kind ∧ toRat n.d = l.denote := by sorry

/-- the scanner gate accepts every grammar spelling with the grammar's kind, except the
`si_lit`s with a superfluous leading zero -/
def literal_accepted_stmt : Prop :=
  ∀ l : Lit, l.wf = true → l.siLeadingZero = false → NumLit.parseNumUnsigned l.spell = some l.kind

/-- full statement: every grammar spelling is accepted and denotes the spec's value -/
def literal_stmt : Prop :=
  ∀ l : Lit, l.wf = true → ∃ n, litValue l.spell = .ok n ∧ n.k = l.kind ∧ toRat n.d = l.denote

/-- `1.3Ki` (spec: 1331) is rejected -/
theorem literal_false_trunc :
    litValue (Lit.si [49] (some [51]) ⟨.K, true⟩).spell = .err ∧
    (Lit.si [49] (some [51]) ⟨.K, true⟩).denote = 1331 := by sorry

/-- `1e100001` silently denotes 1 -/
theorem literal_false_exponent :
    litValue (Lit.fExp [49] ⟨false, .none, [49, 48, 48, 48, 48, 49]⟩).spell = .ok ⟨.float, ⟨1, 0⟩⟩ ∧
    (Lit.fExp [49] ⟨false, .none, [49, 48, 48, 48, 48, 49]⟩).denote ≠ 1 := by sorry

/-- `12345678901234567890123456789012345678K` is silently rounded to 34 digits -/
theorem literal_false_round :
    litValue (Lit.si [49,50,51,52,53,54,55,56,57,48,49,50,51,52,53,54,55,56,57,48,49,50,51,52,53,54,55,56,57,48,49,50,51,52,53,54,55,56] none ⟨.K, false⟩).spell
      = .ok ⟨.int, ⟨12345678901234567890123456789012350000000, 0⟩⟩ ∧
    (Lit.si [49,50,51,52,53,54,55,56,57,48,49,50,51,52,53,54,55,56,57,48,49,50,51,52,53,54,55,56,57,48,49,50,51,52,53,54,55,56] none ⟨.K, false⟩).denote
      = 12345678901234567890123456789012345678000 := by sorry

theorem literal_false : ¬ literal_stmt := by sorry

end CueVerif.Proofs.NumValLit
