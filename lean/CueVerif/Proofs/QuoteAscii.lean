/-
C09_ascii_only: every byte `Quote` emits for a form with `WithASCIIOnly` is below 0x80,
for every form (single line, multi-line, optional hashes) and every input.
-/
import CueVerif.Proofs.Quote
namespace CueVerif.Quote

def AllAscii (s : Bytes) : Prop := ∀ b ∈ s, b < 0x80

theorem AllAscii.append {a b : Bytes} (ha : AllAscii a) (hb : AllAscii b) : AllAscii (a ++ b) := by
  intro x hx; rcases List.mem_append.mp hx with h | h
  · exact ha x h
  · exact hb x h

theorem allAscii_hashes (n : Nat) : AllAscii (hashes n) := by
  intro b hb; simp [hashes] at hb; omega

theorem allAscii_tabs (n : Nat) : AllAscii (tabs n) := by
  intro b hb; simp [tabs] at hb; omega

theorem allAscii_appendEscape (h : Nat) : AllAscii (appendEscape h) := by
  intro b hb
  simp only [appendEscape, List.mem_cons] at hb
  rcases hb with rfl | hb
  · decide
  · exact allAscii_hashes h b hb

theorem hexDigit_lt128 (d : Nat) (h : d < 16) : hexDigit d < 0x80 := by
  unfold hexDigit; split <;> omega

theorem allAscii_escapeBody (x : Bool) (r : Nat) : AllAscii (escapeBody x r) := by
  intro b hb
  unfold escapeBody at hb
  repeat' split at hb
  all_goals
    simp only [List.mem_cons, List.mem_nil_iff, or_false] at hb
    rcases hb with rfl | rfl | rfl | rfl | rfl | rfl | rfl | rfl | rfl <;>
      first | decide | (apply hexDigit_lt128; omega)

theorem allAscii_rune {E : Env} (f : Form) (hq : f.quote < 0x80) (ha : f.asciiOnly = true)
    (ml : Bool) (h r : Nat) : AllAscii (appendEscapedRune E f ml h r) := by
  unfold appendEscapedRune
  split
  · next hc =>
    have hr : r < 0x80 := by
      simp only [Bool.or_eq_true, Bool.and_eq_true, beq_iff_eq] at hc
      rcases hc with hc | hc
      · rw [hc.2]; exact hq
      · omega
    apply AllAscii.append (allAscii_appendEscape h)
    intro b hb; simp at hb; omega
  split
  · next hp =>
    have hr : r < 0x80 := by
      simp only [Form.isPrint, ha, if_true, Bool.and_eq_true, decide_eq_true_eq] at hp
      exact hp.1
    rw [encodeRune_ascii r hr]
    intro b hb; simp at hb; omega
  · exact AllAscii.append (allAscii_appendEscape h) (allAscii_escapeBody _ _)

theorem allAscii_escapeLoop {E : Env} (f : Form) (hq : f.quote < 0x80) (ha : f.asciiOnly = true)
    (ml : Bool) (h : Nat) : ∀ (n : Nat) (s : Bytes), s.length ≤ n → AllAscii (escapeLoop E f ml h s) := by
  intro n
  induction n with
  | zero =>
    intro s hn
    have : s = [] := List.length_eq_zero_iff.mp (by omega)
    subst this; intro b hb; simp [escapeLoop] at hb
  | succ n ih =>
    intro s hn
    match s with
    | [] => intro b hb; simp [escapeLoop] at hb
    | b0 :: rest =>
      have hlen : rest.length ≤ n := by simp at hn; omega
      unfold escapeLoop
      dsimp only
      split
      · apply AllAscii.append
        · apply AllAscii.append (allAscii_appendEscape h)
          intro b hb
          simp only [List.mem_cons, List.mem_nil_iff, or_false] at hb
          rcases hb with rfl | rfl | rfl
          · decide
          · apply hexDigit_lt128; omega
          · apply hexDigit_lt128; omega
        · exact ih rest hlen
      split
      · intro b hb
        simp only [List.mem_cons, List.mem_append] at hb
        rcases hb with rfl | hb | hb
        · decide
        · revert hb
          cases rest with
          | nil => intro hb; cases hb
          | cons b1 _ =>
            dsimp only
            split
            · exact allAscii_tabs _ b
            · intro hb; cases hb
        · exact ih rest hlen b hb
      · apply AllAscii.append (allAscii_rune f hq ha ml h _)
        apply ih
        simp only [List.length_drop]; omega

/-- when `singleLineHashCount`'s loop succeeds for an ASCII-only form, s is pure ASCII -/
theorem slhc_allAscii {E : Env} (f : Form) (ha : f.asciiOnly = true) :
    ∀ (n : Nat) (s : Bytes) (acc m : Nat), s.length ≤ n → slhcLoop E f s acc = some m → AllAscii s := by
  intro n
  induction n with
  | zero =>
    intro s acc m hn _
    have : s = [] := List.length_eq_zero_iff.mp (by omega)
    subst this; intro b hb; cases hb
  | succ n ih =>
    intro s acc m hn hs
    match s with
    | [] => intro b hb; cases hb
    | b0 :: rest =>
      have hlen : rest.length ≤ n := by simp at hn; omega
      unfold slhcLoop at hs
      dsimp only at hs
      split at hs
      · cases hs
      split at hs
      · cases hs
      · next h1 h2 =>
        -- the unit is printable under asciiOnly, hence its rune is < 0x80, hence b0 < 0x80
        have hp : f.isPrint E (decodeFirst b0 rest).1 = true := by simpa using h2
        have hr : (decodeFirst b0 rest).1 < 0x80 := by
          simp only [Form.isPrint, ha, if_true, Bool.and_eq_true, decide_eq_true_eq] at hp
          exact hp.1
        have hb0 : b0 < 0x80 := by
          rcases Nat.lt_or_ge b0 0x80 with hlt0 | hge'
          · exact hlt0
          exfalso
          obtain ⟨_, hc⟩ := decodeFirst_cases b0 rest
          rcases hc with ⟨hg, _⟩ | ⟨_, hw, _⟩
          · rcases hg with ⟨hlt, ho⟩ | ⟨hge2, _⟩
            · -- rune < 0x80 but decoded from b0 ≥ 0x80: decodeFirst gives decodeRune, width ≥ 2 impossible with ascii rune
              have hd : decodeFirst b0 rest = decodeRune (b0 :: rest) := by
                unfold decodeFirst; simp; omega
              by_cases hw2 : 2 ≤ (decodeRune (b0 :: rest)).2
              · have := (encodeRune_decodeRune (b0 :: rest) hw2).2.2.1
                rw [hd] at hlt; omega
              · have hw1 : (decodeRune (b0 :: rest)).2 = 1 := by
                  have := decodeRune_width_pos b0 rest; omega
                have := decodeRune_width_one b0 rest hw1
                rw [hd] at hlt
                rcases this with ⟨_, h⟩ | ⟨h, _⟩
                · omega
                · rw [h] at hlt; omega
            · omega
          · have : (decide (0x80 ≤ b0) && (decodeFirst b0 rest).2 == 1) = true := by simp [hge', hw]
            simp [this] at h1
        have hw : (decodeFirst b0 rest).2 = 1 := by simp [decodeFirst, hb0]
        rw [hw] at hs
        simp only [Nat.sub_self, List.drop_zero] at hs
        have hrest : AllAscii rest := by
          split at hs
          · exact ih rest _ m hlen hs
          · exact ih rest _ m hlen hs
        intro b hb
        rcases List.mem_cons.mp hb with rfl | hb
        · exact hb0
        · exact hrest b hb

/-- `C09_ascii_only`, for either single-line hash counter -/
theorem quoteWith_ascii {E : Env} (slhc : Env → Form → Bytes → Nat)
    (hsl : ∀ f s, slhc E f s = 0 ∨ slhc E f s = singleLineHashCountOld E f s)
    (f : Form) (hq : f.quote < 0x80) (ha : f.asciiOnly = true) (s : Bytes) :
    AllAscii (quoteWith slhc E f s) := by
  have hQ : AllAscii [f.quote] := by intro b hb; simp at hb; omega
  have hT : AllAscii f.triple := by
    intro b hb; simp [Form.triple] at hb; omega
  have hNL : AllAscii [10] := by intro b hb; simp at hb; omega
  have hbody : ∀ ml h, (ml = true ∨ h = 0 ∨ AllAscii s) → AllAscii (appendEscaped E f ml h s) := by
    intro ml h hc
    unfold appendEscaped
    split
    · next hcond =>
      simp only [Bool.and_eq_true, Bool.not_eq_true', decide_eq_true_eq] at hcond
      rcases hc with h1 | h1 | h1
      · rw [h1] at hcond; cases hcond.1
      · omega
      · exact h1
    · exact allAscii_escapeLoop f hq ha ml h s.length s (Nat.le_refl _)
  unfold quoteWith
  dsimp only
  split
  · next hml =>
    split
    · exact ((((allAscii_hashes _).append hT).append hNL).append (allAscii_tabs _)).append hT
    · refine (((((((allAscii_hashes _).append hT).append hNL).append ?_).append (hbody _ _ (Or.inl hml))).append hNL).append (allAscii_tabs _)).append hT |>.append (allAscii_hashes _)
      split
      · exact allAscii_tabs _
      · intro b hb; cases hb
  · next hml =>
    have hml' : f.effMultiline s = false := by simpa using hml
    refine ((((allAscii_hashes _).append hQ).append (hbody _ _ ?_)).append hQ).append (allAscii_hashes _)
    -- single line: the raw copy happens only when the hash counter is positive
    unfold hashCountWith
    simp only [hml', Bool.false_eq_true, if_false]
    split
    · rcases hsl f s with h0 | h1
      · right; left; exact h0
      · rw [h1]
        unfold singleLineHashCountOld
        split
        · right; left; rfl
        · split
          · next n hn => right; right; exact slhc_allAscii f ha s.length s 1 n (Nat.le_refl _) hn
          · right; left; rfl
    · right; left; rfl

end CueVerif.Quote
