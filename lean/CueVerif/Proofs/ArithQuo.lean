/-
C06 helper lemmas, part D: `/` is the correctly rounded 34-digit quotient.
Core Lean (`Rat` is core); single Mathlib modules may be imported here if really needed.
-/
import CueVerif.Model.DecArith
import CueVerif.Spec.Arith
import CueVerif.Proofs.Dec
import CueVerif.Proofs.ArithQuoAux
namespace CueVerif.Proofs.ArithQuo
open CueVerif CueVerif.Arith CueVerif.Spec.Arith

/-- `reduceKeepingFloats` does not change the value -/
theorem toRat_reduce (d : Dec) : toRat (reduceKeepingFloats d) = toRat d :=
  toRat_reduceKeepingFloats d

theorem cast_le2 (D R : Nat) : D ≤ 2 * R ↔ (D : Rat) ≤ 2 * (R : Rat) := by
  have : (2 : Rat) * (R : Rat) = ((2 * R : Nat) : Rat) := by
    rw [Rat.natCast_mul]; norm_cast
  rw [this, Rat.natCast_le_natCast]

/-- the two half-ulp bounds, with the sign -/
theorem rounding_rat (σ V w : Rat) (q0 q1 R D : Nat) (hσ : σ = 1 ∨ σ = -1) (hw : 0 < w)
    (hq : (D ≤ 2 * R ∧ q1 = q0 + 1) ∨ (¬ D ≤ 2 * R ∧ q1 = q0)) (hRD : R < D)
    (hVD : V * (D : Rat) = ((q0 : Rat) * D + R) * w) :
    2 * (σ * V - σ * ((q1 : Rat) * w)) ≤ w ∧ 2 * (σ * ((q1 : Rat) * w) - σ * V) ≤ w := by
  have hD : (0 : Rat) < D := Rat.natCast_pos.2 (by omega)
  have hR0 : (0 : Rat) ≤ R := Rat.natCast_nonneg
  have hRD' : (R : Rat) < D := Rat.natCast_lt_natCast.2 hRD
  rcases hq with ⟨h1, rfl⟩ | ⟨h1, h2⟩
  · obtain ⟨b1, b2⟩ := round_hi V w D q0 R hw hD hVD hRD' ((cast_le2 D R).1 h1)
    have e : ((q0 + 1 : Nat) : Rat) = (q0 : Rat) + 1 := by rw [Rat.natCast_add]; norm_cast
    rw [e]
    rcases hσ with rfl | rfl <;> constructor <;> grind
  · subst h2
    obtain ⟨b1, b2⟩ := round_lo V w D q1 R hw hD hVD hR0 (fun h => h1 ((cast_le2 D R).2 h))
    rcases hσ with rfl | rfl <;> constructor <;> grind

theorem exact_rat (σ V w : Rat) (q0 q1 R D : Nat) (hσ : σ = 1 ∨ σ = -1) (hw : 0 < w)
    (hq : (D ≤ 2 * R ∧ q1 = q0 + 1) ∨ (¬ D ≤ 2 * R ∧ q1 = q0)) (hRD : R < D)
    (hVD : V * (D : Rat) = ((q0 : Rat) * D + R) * w) :
    σ * ((q1 : Rat) * w) = σ * V ↔ R = 0 := by
  have hD : (0 : Rat) < D := Rat.natCast_pos.2 (by omega)
  have hR0 : (0 : Rat) ≤ R := Rat.natCast_nonneg
  have hRD' : (R : Rat) < D := Rat.natCast_lt_natCast.2 hRD
  have key : (q1 : Rat) * w = V ↔ (R : Rat) = 0 := by
    apply exact_iff V w D q0 R q1 hw hD hVD hR0 hRD'
    rcases hq with ⟨h1, rfl⟩ | ⟨h1, h2⟩
    · left; refine ⟨(cast_le2 D R).1 h1, ?_⟩
      rw [Rat.natCast_add]; norm_cast
    · right; exact ⟨fun h => h1 ((cast_le2 D R).2 h), by rw [h2]⟩
  have e0 : (R : Rat) = 0 ↔ R = 0 := Rat.natCast_eq_zero_iff
  rw [← e0, ← key]
  rcases hσ with rfl | rfl <;> constructor <;> intro h <;> grind

/-- the contract of `apd.Context.Quo` as implemented by `quoRound`: correctly rounded -/
theorem quoRound_isRounding (p : Nat) (hp : 0 < p) (a b : Dec) (ha : a.coeff ≠ 0) (hb : b.coeff ≠ 0) :
    IsRounding p (quoRound p a b).1 (toRat a / toRat b) := by
  obtain ⟨σ, V, q0, q1, R, D, hσ, hv, hr, hna, hq, hfl, hRD, hlo, hhi, hVD⟩ :=
    quoRound_core p hp a b ha hb
  refine ⟨?_, ?_⟩
  · rw [hna]; rcases hq with ⟨_, rfl⟩ | ⟨_, rfl⟩ <;> omega
  · rw [hv, hr]
    exact rounding_rat σ V _ q0 q1 R D hσ (Rat.zpow_pos ten_pos) hq hRD hVD

/-- the Inexact flag is exact -/
theorem quoRound_flag (p : Nat) (hp : 0 < p) (a b : Dec) (ha : a.coeff ≠ 0) (hb : b.coeff ≠ 0) :
    (quoRound p a b).2 = false ↔ toRat (quoRound p a b).1 = toRat a / toRat b := by
  obtain ⟨σ, V, q0, q1, R, D, hσ, hv, hr, hna, hq, hfl, hRD, hlo, hhi, hVD⟩ :=
    quoRound_core p hp a b ha hb
  rw [hfl, hv, hr]
  exact (exact_rat σ V _ q0 q1 R D hσ (Rat.zpow_pos ten_pos) hq hRD hVD).symm

/-- a positive value `σ·V` that is `c·10^E` is `|c|·10^E` -/
theorem abs_of_fits (σ V : Rat) (c : Int) (E : Int) (hσ : σ = 1 ∨ σ = -1) (hV : 0 < V)
    (h : (c : Rat) * (10 : Rat) ^ E = σ * V) : V = ((c.natAbs : Nat) : Rat) * (10 : Rat) ^ E := by
  have hT : (0 : Rat) < (10 : Rat) ^ E := Rat.zpow_pos ten_pos
  have hn : (0 : Rat) ≤ ((c.natAbs : Nat) : Rat) := Rat.natCast_nonneg
  have hm : 0 ≤ ((c.natAbs : Nat) : Rat) * (10 : Rat) ^ E := Rat.mul_nonneg hn (Rat.le_of_lt hT)
  rw [cast_eq_sg c] at h
  rcases sg_cases c with hs | hs <;> rw [hs] at h <;> rcases hσ with rfl | rfl <;> grind

/-- when the quotient needs at most `p` digits it is returned exactly -/
theorem quoRound_of_fits (p : Nat) (hp : 0 < p) (a b : Dec) (ha : a.coeff ≠ 0) (hb : b.coeff ≠ 0)
    (hf : FitsVal p (toRat a / toRat b)) : toRat (quoRound p a b).1 = toRat a / toRat b := by
  obtain ⟨σ, V, q0, q1, R, D, hσ, hv, hr, hna, hq, hfl, hRD, hlo, hhi, hVD⟩ :=
    quoRound_core p hp a b ha hb
  obtain ⟨d, ⟨c, j, hc, hdc⟩, hd⟩ := hf
  have hw : (0 : Rat) < (10 : Rat) ^ (quoRound p a b).1.exp := Rat.zpow_pos ten_pos
  have hD : (0 : Rat) < D := Rat.natCast_pos.2 (by omega)
  have hVpos : 0 < V := by
    have h1 : (0 : Rat) < ((q0 : Rat) * D + R) * (10 : Rat) ^ (quoRound p a b).1.exp := by
      apply Rat.mul_pos _ hw
      have : (0 : Rat) < ((q0 * D + R : Nat) : Rat) := by
        apply Rat.natCast_pos.2
        have : 0 < q0 := Nat.lt_of_lt_of_le (Nat.pow_pos (by decide)) hlo
        have : 0 < q0 * D := Nat.mul_pos this (by omega)
        omega
      simpa [Rat.natCast_add, Rat.natCast_mul] using this
    rw [← hVD] at h1
    apply Rat.not_le.1
    intro hle
    have := Rat.mul_le_mul_of_nonneg_right hle (Rat.le_of_lt hD)
    grind
  have hd' : (c : Rat) * (10 : Rat) ^ (d.exp + j) = σ * V := by
    rw [← hv, ← hd]
    have : d = ⟨c * 10 ^ j, d.exp⟩ := by cases d; simp_all
    rw [this, toRat_mul_pow]; rfl
  have hVc := abs_of_fits σ V c _ hσ hVpos hd'
  have hR0 : R = 0 := fits_exact p q0 R D c.natAbs V _ _ hp hVc hVD hRD hlo hc
  rw [hv, hr]
  exact (exact_rat σ V _ q0 q1 R D hσ hw hq hRD hVD).2 hR0

theorem toRat_zero_coeff (e : Int) : toRat ⟨0, e⟩ = 0 := by
  unfold toRat
  have : ((0 : Int) : Rat) = 0 := by norm_cast
  rw [this]; grind

theorem zero_div_rat (x : Rat) : (0 : Rat) / x = 0 := by
  rw [Rat.div_def]; grind

/-- the three ways `quoOp` produces a number -/
theorem quoOp_num (x y r : Num) (h : quoOp x y = .num r) :
    y.d.coeff ≠ 0 ∧ r.k = .float ∧
      ((x.d.coeff = 0 ∧ r.d = reduceKeepingFloats ⟨0, x.d.exp - y.d.exp⟩) ∨
       (x.d.coeff ≠ 0 ∧ r.d = reduceKeepingFloats (quoRound prec x.d y.d).1)) := by
  unfold quoOp at h
  split at h
  · cases h
  · rename_i hy
    have hy' : y.d.coeff ≠ 0 := by simpa using hy
    refine ⟨hy', ?_⟩
    split at h
    · rename_i hx
      have hx' : x.d.coeff = 0 := by simpa using hx
      split at h
      · injection h with h; subst h; exact ⟨rfl, Or.inl ⟨hx', rfl⟩⟩
      · cases h
    · rename_i hx
      have hx' : x.d.coeff ≠ 0 := by simpa using hx
      simp only at h
      split at h
      · cases h
      · injection h with h; subst h; exact ⟨rfl, Or.inr ⟨hx', rfl⟩⟩

/-- `/` always yields a float; its value is the correctly rounded quotient … -/
theorem quo_rounded (x y r : Num) (h : quoOp x y = .num r) :
    r.k = .float ∧ ∃ r0 : Dec, IsRounding prec r0 (toRat x.d / toRat y.d) ∧ toRat r.d = toRat r0 := by
  obtain ⟨hy, hk, hc⟩ := quoOp_num x y r h
  refine ⟨hk, ?_⟩
  rcases hc with ⟨hx, hr⟩ | ⟨hx, hr⟩
  · refine ⟨⟨0, 0⟩, ?_, ?_⟩
    · have hx0 : toRat x.d = 0 := by
        have : x.d = ⟨0, x.d.exp⟩ := by cases x; rename_i k d; cases d; simp_all
        rw [this]; exact toRat_zero_coeff _
      rw [hx0, zero_div_rat]
      refine ⟨by simp, ?_, ?_⟩ <;> rw [toRat_zero_coeff] <;>
        have := Rat.zpow_pos ten_pos (n := (0 : Int)) <;> grind
    · rw [hr, toRat_reduce, toRat_zero_coeff, toRat_zero_coeff]
  · refine ⟨(quoRound prec x.d y.d).1, quoRound_isRounding prec (by decide) _ _ hx hy, ?_⟩
    rw [hr, toRat_reduce]

/-- … and the exact quotient when that has at most 34 significant digits -/
theorem quo_exact (x y r : Num) (h : quoOp x y = .num r)
    (hf : FitsVal prec (toRat x.d / toRat y.d)) : toRat r.d = toRat x.d / toRat y.d := by
  obtain ⟨hy, hk, hc⟩ := quoOp_num x y r h
  rcases hc with ⟨hx, hr⟩ | ⟨hx, hr⟩
  · have hx0 : toRat x.d = 0 := by
      have : x.d = ⟨0, x.d.exp⟩ := by cases x; rename_i k d; cases d; simp_all
      rw [this]; exact toRat_zero_coeff _
    rw [hr, toRat_reduce, toRat_zero_coeff, hx0, zero_div_rat]
  · rw [hr, toRat_reduce]
    exact quoRound_of_fits prec (by decide) _ _ hx hy hf

/-- `/` errors exactly on a zero divisor or outside the exponent window -/
theorem quo_total (x y : Num) :
    (∃ r, quoOp x y = .num r ∧ y.d.coeff ≠ 0) ∨
    (quoOp x y = .err .divZero ∧ y.d.coeff = 0) ∨
    (quoOp x y = .err .failed ∧ y.d.coeff ≠ 0) := by
  unfold quoOp
  split
  · rename_i hy
    exact Or.inr (Or.inl ⟨rfl, by simpa using hy⟩)
  · rename_i hy
    have hy' : y.d.coeff ≠ 0 := by simpa using hy
    split
    · split
      · exact Or.inl ⟨_, rfl, hy'⟩
      · exact Or.inr (Or.inr ⟨rfl, hy'⟩)
    · simp only
      split
      · exact Or.inr (Or.inr ⟨rfl, hy'⟩)
      · exact Or.inl ⟨_, rfl, hy'⟩

end CueVerif.Proofs.ArithQuo
