/-
C06 helper lemmas, part D: `/` is the correctly rounded 34-digit quotient.
Core Lean (`Rat` is core); single Mathlib modules may be imported here if really needed.
-/
import CueVerif.Model.DecArith
import CueVerif.Spec.Arith
import CueVerif.Proofs.Dec
namespace CueVerif.Proofs.ArithQuo
open CueVerif CueVerif.Arith CueVerif.Spec.Arith

/-- `reduceKeepingFloats` does not change the value -/
theorem toRat_reduce (d : Dec) : toRat (reduceKeepingFloats d) = toRat d := by sorry

/-- the contract of `apd.Context.Quo` as implemented by `quoRound`: correctly rounded -/
theorem quoRound_isRounding (p : Nat) (hp : 0 < p) (a b : Dec) (ha : a.coeff ≠ 0) (hb : b.coeff ≠ 0) :
    IsRounding p (quoRound p a b).1 (toRat a / toRat b) := by sorry

/-- the Inexact flag is exact -/
theorem quoRound_flag (p : Nat) (hp : 0 < p) (a b : Dec) (ha : a.coeff ≠ 0) (hb : b.coeff ≠ 0) :
    (quoRound p a b).2 = false ↔ toRat (quoRound p a b).1 = toRat a / toRat b := by sorry

/-- when the quotient needs at most `p` digits it is returned exactly -/
theorem quoRound_of_fits (p : Nat) (hp : 0 < p) (a b : Dec) (ha : a.coeff ≠ 0) (hb : b.coeff ≠ 0)
    (hf : FitsVal p (toRat a / toRat b)) : toRat (quoRound p a b).1 = toRat a / toRat b := by sorry

/-- `/` always yields a float; its value is the correctly rounded quotient … -/
theorem quo_rounded (x y r : Num) (h : quoOp x y = .num r) :
    r.k = .float ∧ ∃ r0 : Dec, IsRounding prec r0 (toRat x.d / toRat y.d) ∧ toRat r.d = toRat r0 := by sorry

/-- … and the exact quotient when that has at most 34 significant digits -/
theorem quo_exact (x y r : Num) (h : quoOp x y = .num r)
    (hf : FitsVal prec (toRat x.d / toRat y.d)) : toRat r.d = toRat x.d / toRat y.d := by sorry

/-- `/` errors exactly on a zero divisor or outside the exponent window -/
theorem quo_total (x y : Num) :
    (∃ r, quoOp x y = .num r ∧ y.d.coeff ≠ 0) ∨
    (quoOp x y = .err .divZero ∧ y.d.coeff = 0) ∨
    (quoOp x y = .err .failed ∧ y.d.coeff ≠ 0) := by sorry

end CueVerif.Proofs.ArithQuo
