import CueVerif.Proofs.ExportBounds
/-!
C07 (2) — proofs, continued: the whole `boundSimplifier` run, `MatchBuiltinRange`, and the
`*adt.Conjunction` arm.  Core Lean only.
-/
namespace CueVerif.Export
open CueVerif CueVerif.Scalar Std

/-! ### `boundSimplifier.add` and the loop -/

theorem ite_setMin (c : Bool) (s : BSimp) (x : Option (Bound × Dec)) :
    (if c = true then { s with min := x } else s) = { s with min := if c = true then x else s.min } := by
  cases c <;> rfl

theorem ite_setMax (c : Bool) (s : BSimp) (x : Option (Bound × Dec)) :
    (if c = true then { s with max := x } else s) = { s with max := if c = true then x else s.max } := by
  cases c <;> rfl

theorem bool_rearr_min (i mn sb mx : Bool) : ((i && (mn && sb) && mx) && true) = ((i && mn && mx) && sb) := by
  cases i <;> cases mn <;> cases sb <;> cases mx <;> rfl

theorem bool_rearr_max (i mn sb mx : Bool) : ((i && mn && (mx && sb)) && true) = ((i && mn && mx) && sb) := by
  cases i <;> cases mn <;> cases sb <;> cases mx <;> rfl

theorem add_sound (re : Bytes → Bytes → Bool) (s : BSimp) (hs : s.Inv) (c : Constraint) :
    (s.add c).1.Inv ∧
    ∀ a, ((s.add c).1.den re a && ((s.add c).2 || sat re a c)) = (s.den re a && sat re a c) := by
  cases c with
  | atom x => exact ⟨hs, fun a => rfl⟩
  | range r => exact ⟨hs, fun a => rfl⟩
  | type t =>
    simp only [BSimp.add, type_int_iff]
    cases t <;> try exact ⟨hs, fun a => rfl⟩
    refine ⟨⟨hs.min, hs.max⟩, fun a => ?_⟩
    show ((!true || Kind.has Kind.int a) && denOpt re a s.min && denOpt re a s.max && true) =
      ((!s.isInt || Kind.has Kind.int a) && denOpt re a s.min && denOpt re a s.max && Kind.has Kind.int a)
    cases s.isInt <;> cases Kind.has Kind.int a <;> cases denOpt re a s.min <;>
      cases denOpt re a s.max <;> rfl
  | bound b =>
    simp only [BSimp.add, bound_kind_ne_int, Bool.false_eq_true, if_false]
    cases hn : b.val.num? with
    | none => exact ⟨hs, fun a => rfl⟩
    | some n =>
      cases hop : b.op with
      | ne => exact ⟨hs, fun a => rfl⟩
      | mat => exact ⟨hs, fun a => rfl⟩
      | nmat => exact ⟨hs, fun a => rfl⟩
      | gt =>
        simp only [ite_setMin]
        refine ⟨⟨step_inv s.min isLower hs.min b n hn (by rw [hop]; rfl) _, hs.max⟩, fun a => ?_⟩
        show ((!s.isInt || Kind.has Kind.int a) && denOpt re a (if replaces s.min n (· != .gt) = true
          then some (b, n) else s.min) && denOpt re a s.max && true) = (s.den re a && satBound re a b)
        rw [min_step re s.min hs.min b n hn _ (Or.inl ⟨hop, rfl⟩) a]
        exact bool_rearr_min _ _ _ _
      | ge =>
        simp only [ite_setMin]
        refine ⟨⟨step_inv s.min isLower hs.min b n hn (by rw [hop]; rfl) _, hs.max⟩, fun a => ?_⟩
        show ((!s.isInt || Kind.has Kind.int a) && denOpt re a (if replaces s.min n (· == .lt) = true
          then some (b, n) else s.min) && denOpt re a s.max && true) = (s.den re a && satBound re a b)
        rw [min_step re s.min hs.min b n hn _ (Or.inr ⟨hop, rfl⟩) a]
        exact bool_rearr_min _ _ _ _
      | lt =>
        simp only [ite_setMax]
        refine ⟨⟨hs.min, step_inv s.max isUpper hs.max b n hn (by rw [hop]; rfl) _⟩, fun a => ?_⟩
        show ((!s.isInt || Kind.has Kind.int a) && denOpt re a s.min && denOpt re a (if replaces s.max n
          (· != .lt) = true then some (b, n) else s.max) && true) = (s.den re a && satBound re a b)
        rw [max_step re s.max hs.max b n hn _ (Or.inl ⟨hop, rfl⟩) a]
        exact bool_rearr_max _ _ _ _
      | le =>
        simp only [ite_setMax]
        refine ⟨⟨hs.min, step_inv s.max isUpper hs.max b n hn (by rw [hop]; rfl) _⟩, fun a => ?_⟩
        show ((!s.isInt || Kind.has Kind.int a) && denOpt re a s.min && denOpt re a (if replaces s.max n
          (· == .gt) = true then some (b, n) else s.max) && true) = (s.den re a && satBound re a b)
        rw [max_step re s.max hs.max b n hn _ (Or.inr ⟨hop, rfl⟩) a]
        exact bool_rearr_max _ _ _ _

theorem satAll_cons (re : Bytes → Bytes → Bool) (c : Constraint) (cs : List Constraint) (a : Atom) :
    satAll re (c :: cs) a = (sat re a c && satAll re cs a) := by
  simp [satAll]

theorem satAll_append (re : Bytes → Bytes → Bool) (cs ds : List Constraint) (a : Atom) :
    satAll re (cs ++ ds) a = (satAll re cs a && satAll re ds a) := by
  simp [satAll]

theorem simpRun_sound (re : Bytes → Bytes → Bool) (cs : List Constraint) : ∀ s : BSimp, s.Inv →
    (simpRun s cs).1.Inv ∧
    ∀ a, ((simpRun s cs).1.den re a && satAll re (simpRun s cs).2 a) = (s.den re a && satAll re cs a) := by
  induction cs with
  | nil => intro s hs; exact ⟨hs, fun a => rfl⟩
  | cons c cs ih =>
    intro s hs
    obtain ⟨hi, hd⟩ := add_sound re s hs c
    obtain ⟨hi', hd'⟩ := ih (s.add c).1 hi
    refine ⟨hi', fun a => ?_⟩
    have h1 := hd a
    have h2 := hd' a
    show ((simpRun (s.add c).1 cs).1.den re a &&
      satAll re (if (s.add c).2 = true then (simpRun (s.add c).1 cs).2 else c :: (simpRun (s.add c).1 cs).2) a) = _
    rw [satAll_cons]
    cases hu : (s.add c).2 with
    | true =>
      rw [hu, Bool.true_or, Bool.and_true] at h1
      rw [if_pos rfl, h2, h1, Bool.and_assoc]
    | false =>
      rw [hu, Bool.false_or] at h1
      rw [if_neg (by simp), satAll_cons]
      generalize BSimp.den re s a = u at *
      generalize (simpRun (s.add c).1 cs).1.den re a = x at *
      generalize satAll re (simpRun (s.add c).1 cs).2 a = y at *
      generalize (s.add c).1.den re a = z at *
      generalize satAll re cs a = w at *
      generalize sat re a c = v at *
      revert h1 h2; cases x <;> cases y <;> cases z <;> cases w <;> cases v <;> cases u <;> decide

/-- `simplifyBounds` preserves the set of satisfying atoms, for every list of conjuncts -/
theorem simplify_sound (re : Bytes → Bytes → Bool) (cs : List Constraint) (a : Atom) :
    satAll re (simplifyBounds cs) a = satAll re cs a := by
  obtain ⟨hi, hd⟩ := simpRun_sound re cs {} inv_empty
  have h := hd a
  rw [den_empty, Bool.true_and] at h
  unfold simplifyBounds simplify
  generalize simpRun {} cs = r at *
  obtain ⟨s, rest⟩ := r
  simp only at hi h ⊢
  rw [← h]
  unfold BSimp.expr
  cases hmn : s.min with
  | none => exact h.symm
  | some mnp =>
    cases hmx : s.max with
    | none => exact h.symm
    | some mxp =>
      obtain ⟨mn, mnNum⟩ := mnp
      obtain ⟨mx, mxNum⟩ := mxp
      obtain ⟨hmnn, hmnl⟩ := hi.min mn mnNum hmn
      simp only [BSimp.den, hmn, hmx, denOpt]
      cases hI : s.isInt with
      | false =>
        simp only [Bool.false_eq_true, if_false, Simplified.conjuncts, Prefix.conjuncts, optBound,
          List.nil_append, List.cons_append, satAll_cons, sat, Bool.not_false, Bool.true_or,
          Bool.true_and, Bool.and_assoc]
      | true =>
        simp only [if_true, Bool.not_true, Bool.false_or]
        rcases sign_cases mnNum with ⟨hs, hc⟩ | ⟨hs, hc⟩ | ⟨hs, hc⟩
        · simp only [hs, beq_self_eq_true, if_true, Simplified.conjuncts, Prefix.conjuncts, optBound,
            List.nil_append, List.cons_append, satAll_cons, sat, BType.kind, Bool.and_assoc]
        · cases hge : (mn.op == .ge) with
          | true =>
            have hop : mn.op = .ge := by simpa using hge
            have := uint_drop re a mn mnNum hmnn hop hc
            simp only [hs, hge, Bool.and_self, if_true, Simplified.conjuncts, Prefix.conjuncts,
              optBound, List.nil_append, List.cons_append, List.append_nil, satAll_cons, sat, ← this,
              Bool.and_assoc, show ((0 : Int) == -1) = false from rfl, Bool.false_eq_true, if_false,
              beq_self_eq_true]
          | false =>
            have := uint_keep re a mn mnNum hmnn hmnl (by omega)
            simp only [hs, hge, Bool.and_false, Simplified.conjuncts, Prefix.conjuncts,
              optBound, List.nil_append, List.cons_append, satAll_cons, sat,
              show ((0 : Int) == -1) = false from rfl, Bool.false_eq_true, if_false]
            rw [← Bool.and_assoc, ← this]; simp only [Bool.and_assoc]
        · have := uint_keep re a mn mnNum hmnn hmnl (by omega)
          simp only [hs, Simplified.conjuncts, Prefix.conjuncts,
            optBound, List.nil_append, List.cons_append, satAll_cons, sat,
            show ((1 : Int) == -1) = false from rfl, show ((1 : Int) == 0) = false from rfl,
            Bool.false_and, Bool.false_eq_true, if_false]
          rw [← Bool.and_assoc, ← this]; simp only [Bool.and_assoc]

end CueVerif.Export
