/-
Intern-table model (Model/Intern.lean): the global invariant of all reachable states.
-/
import CueVerif.Proofs.InternStep
namespace CueVerif.Intern
open CueVerif.Lockset

/-! ### list facts -/

theorem nodup_get_inj {α : Type} {l : List α} (hn : l.Nodup) {i j : Nat} {a : α}
    (hi : l[i]? = some a) (hj : l[j]? = some a) : i = j :=
  (List.getElem?_inj (List.getElem?_eq_some_iff.1 hi).1 hn).1 (hi.trans hj.symm)

theorem nodup_of_get_inj {α : Type} {l : List α}
    (h : ∀ (i j : Nat) (a : α), l[i]? = some a → l[j]? = some a → i = j) : l.Nodup := by
  rw [List.Nodup, List.pairwise_iff_getElem]
  intro i j hi hj hlt heq
  have := h i j l[i] (List.getElem?_eq_getElem hi) (by rw [heq]; exact List.getElem?_eq_getElem hj)
  omega

theorem consistent_nodup {d : Tab} (hc : Consistent d) : d.labels.Nodup := by
  apply nodup_of_get_inj
  intro i j a hi hj
  have h1 := (hc a i).2 hi
  have h2 := (hc a j).2 hj
  rw [h1] at h2
  exact Option.some.inj h2

theorem mem_set_cases {α : Type} {l : List α} {a : Nat} {x u : α} (h : u ∈ l.set a x) :
    u = x ∨ ∃ b, b ≠ a ∧ l[b]? = some u := by
  obtain ⟨b, hb⟩ := List.getElem?_of_mem h
  by_cases hba : a = b
  · subst hba
    rw [List.getElem?_set] at hb
    simp only [if_true] at hb
    split at hb
    · exact .inl (Option.some.inj hb).symm
    · cases hb
  · rw [List.getElem?_set_ne hba] at hb
    exact .inr ⟨b, fun h => hba h.symm, hb⟩

/-! ### the invariant -/

structure Inv (s : State) : Prop where
  /-- the map never points outside / to a wrong entry (also in the middle of an insert:
  the append comes before the store) -/
  A : ∀ k i, lookup s.data.map k = some i → s.data.labels[i]? = some k
  /-- every entry of `labels` is in the map, except the one being inserted right now -/
  B : ∀ i k, s.data.labels[i]? = some k → lookup s.data.map k = some i ∨
        ∃ (j : Nat) (t : Th Loc), s.ths[j]? = some t ∧ t.prog = getKeyProg ∧ t.st = .run ∧ t.pc = 12 ∧
          t.loc.s = k ∧ t.loc.p = i
  C : s.data.labels.Nodup
  P : ∀ t ∈ s.ths, t.prog = getKeyProg ∨ t.prog = indexToStringProg
  D : ∀ t ∈ s.ths, t.prog = getKeyProg → GK s.data.labels t

theorem Inv_init {d0 : Tab} (hc : Consistent d0) : Inv { data := d0, ths := [] } where
  A := fun k i h => (hc k i).1 h
  B := fun i k h => .inl ((hc k i).2 h)
  C := consistent_nodup hc
  P := fun t ht => by cases ht
  D := fun t ht => by cases ht

theorem Inv_spawn {s : State} (ih : Inv s) {p : Prog} (hp : p ∈ progs) {l0 : Loc}
    (hl : initL l0) : Inv { s with ths := s.ths ++ [Th.new p l0] } where
  A := ih.A
  B := by
    intro i k h
    rcases ih.B i k h with h | ⟨j, t, hj, rest⟩
    · exact .inl h
    · refine .inr ⟨j, t, ?_, rest⟩
      have hlt : j < s.ths.length := (List.getElem?_eq_some_iff.1 hj).1
      show (s.ths ++ [Th.new p l0])[j]? = some t
      rw [List.getElem?_append_left hlt]; exact hj
  C := ih.C
  P := by
    intro t ht
    rcases List.mem_append.1 ht with ht | ht
    · exact ih.P t ht
    · rw [List.mem_singleton] at ht
      subst ht
      simp only [progs, List.mem_cons, List.not_mem_nil, or_false] at hp
      exact hp
  D := by
    intro t ht hpt
    rcases List.mem_append.1 ht with ht | ht
    · exact ih.D t ht hpt
    · rw [List.mem_singleton] at ht
      subst ht
      have : p = getKeyProg := hpt
      subst this
      exact GK_new hl

/-- a step of an `IndexToString` thread -/
theorem Inv_its {s : State} (ih : Inv s) {a : Nat} {t t' : Th Loc} {d' : Tab}
    (ha : s.ths[a]? = some t) (hp : t.prog = indexToStringProg)
    (hn : next sem (free s.ths) s.data t = some (d', t')) :
    Inv { data := d', ths := s.ths.set a t' } := by
  obtain ⟨rfl, _⟩ := its_step hp hn
  have hp' : t'.prog = indexToStringProg := (next_prog _ _ _ _ _ _ hn).trans hp
  refine ⟨ih.A, ?_, ih.C, ?_, ?_⟩
  · intro i k h
    rcases ih.B i k h with h | ⟨j, u, hj, hup, rest⟩
    · exact .inl h
    · refine .inr ⟨j, u, ?_, hup, rest⟩
      have hne : a ≠ j := by
        rintro rfl
        rw [ha] at hj
        cases hj
        exact progs_ne (hup.symm.trans hp)
      show (s.ths.set a t')[j]? = some u
      rw [List.getElem?_set_ne hne]; exact hj
  · intro u hu
    rcases mem_set_cases hu with rfl | ⟨b, _, hb⟩
    · exact .inr hp'
    · exact ih.P u (List.mem_of_getElem? hb)
  · intro u hu hup
    rcases mem_set_cases hu with rfl | ⟨b, _, hb⟩
    · exact absurd (hup.symm.trans hp') progs_ne
    · exact ih.D u (List.mem_of_getElem? hb) hup

/-- the write-lock holder excludes every other `getKey` thread from the W-holding points -/
theorem other_not_W {s : State} (hmx : MX s) {a b : Nat} {t u : Th Loc}
    (ha : s.ths[a]? = some t) (hb : s.ths[b]? = some u) (hba : b ≠ a)
    (hW : t.held = [("mutex", true)]) : ("mutex", true) ∉ u.held :=
  hmx a b t u "mutex" true (fun h => hba h.symm) ha hb (by rw [hW]; exact List.mem_singleton.2 rfl)

/-- a failed lookup under the write lock means the key is not in `labels` -/
theorem Inv_notin {s : State} (ih : Inv s) (hmx : MX s) {a : Nat} {t : Th Loc}
    (ha : s.ths[a]? = some t) (hp : t.prog = getKeyProg)
    (hst : t.st = .run) (hpc : t.pc = 7) (hl : lookup s.data.map t.loc.s = none) :
    t.loc.s ∉ s.data.labels := by
  intro hmem
  obtain ⟨i, hi⟩ := List.getElem?_of_mem hmem
  rcases ih.B i _ hi with h | ⟨j, u, hj, hup, hust, hupc, _, _⟩
  · rw [hl] at h; cases h
  · have hok := ih.D t (List.mem_of_getElem? ha) hp
    simp only [GK, hst, hpc, GKrun] at hok
    have huW := (GK_run12 (ih.D u (List.mem_of_getElem? hj) hup) hust hupc).1
    have hne : j ≠ a := by
      rintro rfl
      rw [ha] at hj
      cases hj
      omega
    have := other_not_W hmx ha hj hne hok.1
    rw [huW] at this
    exact this (List.mem_singleton.2 rfl)

/-- a step of a `getKey` thread -/
theorem Inv_gk {s : State} (ih : Inv s) (hmx : MX s) {a : Nat} {t t' : Th Loc} {d' : Tab}
    (ha : s.ths[a]? = some t) (hp : t.prog = getKeyProg)
    (hn : next sem (free s.ths) s.data t = some (d', t')) :
    Inv { data := d', ths := s.ths.set a t' } ∧ StepOut s.data t d' t' := by
  have hlt : a < s.ths.length := (List.getElem?_eq_some_iff.1 ha).1
  have so : StepOut s.data t d' t' :=
    gk_step hp (ih.D t (List.mem_of_getElem? ha) hp) ih.A
      (fun hst hpc hl => Inv_notin ih hmx ha hp hst hpc hl) hn
  refine ⟨?_, so⟩
  have hp' : t'.prog = getKeyProg := so.prog.trans hp
  -- the parts that are the same in all three cases
  have hP : ∀ u ∈ s.ths.set a t', u.prog = getKeyProg ∨ u.prog = indexToStringProg := by
    intro u hu
    rcases mem_set_cases hu with rfl | ⟨b, _, hb⟩
    · exact .inl hp'
    · exact ih.P u (List.mem_of_getElem? hb)
  rcases so.data with ⟨rfl, hne⟩ | ⟨hst, hpc, hW, hnin, rfl, hst', hpc', hp12⟩ |
      ⟨hst, hpc, hW, hget, rfl⟩
  · -- quiet step
    refine ⟨ih.A, ?_, ih.C, hP, ?_⟩
    · intro i k h
      rcases ih.B i k h with h | ⟨j, u, hj, hup, hust, hupc, rest⟩
      · exact .inl h
      · refine .inr ⟨j, u, ?_, hup, hust, hupc, rest⟩
        have hja : a ≠ j := by
          rintro rfl
          rw [ha] at hj
          cases hj
          exact hne ⟨hust, hupc⟩
        show (s.ths.set a t')[j]? = some u
        rw [List.getElem?_set_ne hja]; exact hj
    · intro u hu hup
      rcases mem_set_cases hu with rfl | ⟨b, _, hb⟩
      · exact so.ok
      · exact ih.D u (List.mem_of_getElem? hb) hup
  · -- append
    refine ⟨?_, ?_, ?_, hP, ?_⟩
    · intro k i h
      have := ih.A k i h
      have hi : i < s.data.labels.length := (List.getElem?_eq_some_iff.1 this).1
      show (s.data.labels ++ [t.loc.s])[i]? = some k
      rw [List.getElem?_append_left hi]; exact this
    · intro i k h
      change (s.data.labels ++ [t.loc.s])[i]? = some k at h
      by_cases hi : i < s.data.labels.length
      · rw [List.getElem?_append_left hi] at h
        rcases ih.B i k h with h | ⟨j, u, hj, hup, hust, hupc, rest⟩
        · exact .inl h
        · refine .inr ⟨j, u, ?_, hup, hust, hupc, rest⟩
          have hja : a ≠ j := by
            rintro rfl
            rw [ha] at hj
            cases hj
            omega
          show (s.ths.set a t')[j]? = some u
          rw [List.getElem?_set_ne hja]; exact hj
      · have hi' : i = s.data.labels.length := by
          have : i < (s.data.labels ++ [t.loc.s]).length := (List.getElem?_eq_some_iff.1 h).1
          simp only [List.length_append, List.length_cons, List.length_nil] at this
          omega
        subst hi'
        rw [List.getElem?_concat_length] at h
        cases h
        exact .inr ⟨a, t', List.getElem?_set_self hlt, hp', hst', hpc', so.s, hp12⟩
    · show (s.data.labels ++ [t.loc.s]).Nodup
      rw [List.nodup_append]
      refine ⟨ih.C, by simp, ?_⟩
      intro x hx y hy hxy
      rw [List.mem_singleton] at hy
      subst hy; subst hxy
      exact hnin hx
    · intro u hu hup
      rcases mem_set_cases hu with rfl | ⟨b, hba, hb⟩
      · exact so.ok
      · exact GK_stable [t.loc.s] (ih.D u (List.mem_of_getElem? hb) hup)
          (other_not_W hmx ha hb hba hW)
  · -- store
    refine ⟨?_, ?_, ih.C, hP, ?_⟩
    · intro k i h
      change lookup ((t.loc.s, t.loc.p) :: s.data.map) k = some i at h
      show s.data.labels[i]? = some k
      rw [lookup] at h
      split at h
      · next hk => cases h; rw [← hk]; exact hget
      · exact ih.A k i h
    · intro i k h
      change s.data.labels[i]? = some k at h
      show lookup ((t.loc.s, t.loc.p) :: s.data.map) k = some i ∨ _
      rw [lookup]
      by_cases hk : t.loc.s = k
      · left
        rw [if_pos hk]
        subst hk
        rw [nodup_get_inj ih.C hget h]
      · rw [if_neg hk]
        rcases ih.B i k h with h | ⟨j, u, hj, hup, hust, hupc, hus, hupp⟩
        · exact .inl h
        · exfalso
          by_cases hja : j = a
          · subst hja
            rw [ha] at hj
            cases hj
            exact hk hus
          · have huW := (GK_run12 (ih.D u (List.mem_of_getElem? hj) hup) hust hupc).1
            have := other_not_W hmx ha hj hja hW
            rw [huW] at this
            exact this (List.mem_singleton.2 rfl)
    · intro u hu hup
      rcases mem_set_cases hu with rfl | ⟨b, _, hb⟩
      · exact so.ok
      · exact ih.D u (List.mem_of_getElem? hb) hup

theorem Inv_step {s s' : State} (ih : Inv s) (hmx : MX s) (hs : IStep s s') : Inv s' := by
  cases hs with
  | spawn p hp l0 hl => exact Inv_spawn ih hp hl
  | thread a t ha d' t' hn =>
    rcases ih.P t (List.mem_of_getElem? ha) with hp | hp
    · exact (Inv_gk ih hmx ha hp hn).1
    · exact Inv_its ih ha hp hn

theorem Inv_run {d0 : Tab} (hc : Consistent d0) {s : State} (hr : IRun d0 s) : Inv s := by
  induction hr with
  | init => exact Inv_init hc
  | step hr hs ih => exact Inv_step ih (MX_run sem progs initL d0 _ hr) hs

end CueVerif.Intern
