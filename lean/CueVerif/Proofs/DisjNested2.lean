/-
C04: the nested chain of Proofs/DisjNested1.lean unified with any number of atoms
(`Expr.NestedSingle`): `int & (*(1 | 2) | "a" | (3 | (4 | 5)))`, atoms before, after, between
parentheses.  Rules U0/U1 of the spec with the "all marked disjuncts eliminated" clause.
-/
import CueVerif.Proofs.DisjNested1
namespace CueVerif.Disj
variable {V : Type} [DecidableEq V]
set_option linter.unusedSectionVars false

theorem scalar_eq_n {S : Sl V} (h : Laws S) (e : Expr V) (hf : e.nestedConj = true) (o : Option V) :
    (sem S e).scalar o = o.bind fun x => (sv S e).bind fun y => S.meet x y := by
  induction e generalizing o with
  | atom a =>
    simp only [sv, sem, Option.bind_some, h.top]
  | and l r ihl ihr =>
    simp only [Expr.nestedConj, Bool.and_eq_true] at hf
    have e1 : (sem S (.and l r)).scalar o = (sem S r).scalar ((sem S l).scalar o) := rfl
    have e2 : sv S (.and l r) = (sem S r).scalar ((sem S l).scalar (some S.top)) := rfl
    rw [e1, e2, ihr hf.2, ihl hf.1, ihr hf.2, ihl hf.1]
    cases o with
    | none => rfl
    | some x =>
      cases hl : sv S l with
      | none => simp
      | some u =>
        cases hr : sv S r with
        | none => simp
        | some w =>
          simp only [Option.bind_some, h.top]
          have := h.assoc x u w
          rw [this]
  | paren e ih => exact ih hf o
  | or l r _ _ =>
    have e1 : (sem S (.or l r)).scalar o = o := rfl
    have e2 : sv S (.or l r) = some S.top := rfl
    rw [e1, e2]
    cases o with
    | none => rfl
    | some x => simp only [Option.bind_some]; rw [h.comm, h.top]
  | mark e _ => simp [Expr.nestedConj] at hf

theorem svP_and_n {S : Sl V} (h : Laws S) (l r : Expr V) (hr : r.nestedConj = true) :
    svP S (.and l r) = mt S (svP S l) (svP S r) := by
  funext x; apply propext
  have e2 : sv S (.and l r) = (sem S r).scalar (sv S l) := rfl
  unfold svP mt
  rw [e2, scalar_eq_n h r hr]
  cases sv S l with
  | none => simp
  | some y =>
    cases sv S r with
    | none => simp
    | some w => simp

theorem scalarOnly_nestedConj (e : Expr V) (h : e.scalarOnly = true) : e.nestedConj = true := by
  induction e with
  | atom a => rfl
  | and l r ihl ihr =>
    simp only [Expr.scalarOnly, Bool.and_eq_true] at h
    simp only [Expr.nestedConj, Bool.and_eq_true]; exact ⟨ihl h.1, ihr h.2⟩
  | paren e ih => simp only [Expr.scalarOnly] at h; simp only [Expr.nestedConj]; exact ih h
  | or l r _ _ => simp [Expr.scalarOnly] at h
  | mark e _ => simp [Expr.scalarOnly] at h

/-- the conjunct pairs of a conjunction of atoms carry no default and meet to the scalar -/
theorem scalar_VV {S : Sl V} (h : Laws S) (t : Expr V) (hs : t.scalarOnly = true) :
    VV S ((specSem S t).conjs.map Pair.v) = svP S t := by
  induction t with
  | atom a =>
    show mt S (memP [a]) (fun x => x = S.top) = _
    rw [mt_top_right h]
    funext x; apply propext
    simp [memP, svP, sv, sem, h.top, eq_comm]
  | and l r ihl ihr =>
    simp only [Expr.scalarOnly, Bool.and_eq_true] at hs
    show VV S (((specSem S l).conjs ++ (specSem S r).conjs).map Pair.v) = _
    rw [List.map_append, VV_append h, ihl hs.1, ihr hs.2,
      svP_and_n h l r (scalarOnly_nestedConj r hs.2)]
  | paren e ih => exact ih hs
  | or l r _ _ => simp [Expr.scalarOnly] at hs
  | mark e _ => simp [Expr.scalarOnly] at hs

theorem nested_zero (e : Expr V) (hn : e.nestedConj = true) (h0 : e.chains = 0) :
    e.scalarOnly = true := by
  induction e with
  | atom a => rfl
  | and l r ihl ihr =>
    simp only [Expr.nestedConj, Bool.and_eq_true] at hn
    simp only [Expr.chains] at h0
    simp only [Expr.scalarOnly, Bool.and_eq_true]
    exact ⟨ihl hn.1 (by omega), ihr hn.2 (by omega)⟩
  | paren e ih => exact ih hn h0
  | or l r _ _ => simp [Expr.chains] at h0
  | mark e _ => simp [Expr.nestedConj] at hn

/-- decomposition of a `NestedSingle` expression into its chain and its scalars -/
theorem nested_decomp {S : Sl V} (h : Laws S) (e : Expr V) (hn : e.nestedConj = true)
    (h1 : e.chains = 1) :
    ∃ l r A B, (Expr.or l r).mfChain = true ∧ (sem S e).conj = (sem S (.or l r)).conj ∧
      (specSem S e).conjs = A ++ specPair S (.or l r) :: B ∧ AllU A ∧ AllU B ∧
      mt S (VV S (A.map Pair.v)) (VV S (B.map Pair.v)) = svP S e ∧
      memP (specPair S e).d = mt S (svP S e) (memP (specPair S (.or l r)).d) := by
  induction e with
  | atom a => simp [Expr.chains] at h1
  | mark e _ => simp [Expr.nestedConj] at hn
  | paren e ih => exact ih hn h1
  | or l r _ _ =>
    have hs : svP S (.or l r) = fun x => x = S.top := by
      funext x; apply propext
      show (some S.top = some x) ↔ _
      simp [eq_comm]
    refine ⟨l, r, [], [], hn, rfl, rfl, (fun q hq => by cases hq), (fun q hq => by cases hq), ?_, ?_⟩
    · rw [hs]; exact mt_top_left h _
    · rw [hs, mt_top_left h]
  | and l r ihl ihr =>
    simp only [Expr.nestedConj, Bool.and_eq_true] at hn
    simp only [Expr.chains] at h1
    have hconjs : (specSem S (.and l r)).conjs = (specSem S l).conjs ++ (specSem S r).conjs := rfl
    have hd : (specPair S (.and l r)).d = unifyD S ((specSem S l).conjs ++ (specSem S r).conjs) := rfl
    have hsv := svP_and_n h l r hn.2
    by_cases hl : l.chains = 1
    · have hr0 : r.chains = 0 := by omega
      have hrs := nested_zero r hn.2 hr0
      obtain ⟨_, _, r3⟩ := spec_scalar h r hrs
      obtain ⟨l', r', A, B, c1, c2, c3, c4, c5, c6, _⟩ := ihl hn.1 hl
      have hB : AllU (B ++ (specSem S r).conjs) := allU_append c5 r3
      have hVV : mt S (VV S (A.map Pair.v)) (VV S ((B ++ (specSem S r).conjs).map Pair.v)) =
          svP S (.and l r) := by
        rw [List.map_append, VV_append h, ← mt_assoc h, c6, scalar_VV h r hrs, hsv]
      refine ⟨l', r', A, B ++ (specSem S r).conjs, c1, ?_, ?_, c4, hB, hVV, ?_⟩
      · show (fun c => (sem S r).conj ((sem S l).conj c)) = _
        rw [conj_id S r hrs, c2]; rfl
      · rw [hconjs, c3]; simp
      · rw [hd, c3]
        have : A ++ specPair S (.or l' r') :: B ++ (specSem S r).conjs =
            A ++ specPair S (.or l' r') :: (B ++ (specSem S r).conjs) := by simp
        rw [this, unifyD_oneM h A _ _ c4 hB, ← hVV,
          mt_comm h (memP _) (VV S _), ← mt_assoc h]
    · have hl0 : l.chains = 0 := by omega
      have hr1 : r.chains = 1 := by omega
      have hls := nested_zero l hn.1 hl0
      obtain ⟨_, _, l3⟩ := spec_scalar h l hls
      obtain ⟨l', r', A, B, c1, c2, c3, c4, c5, c6, _⟩ := ihr hn.2 hr1
      have hA : AllU ((specSem S l).conjs ++ A) := allU_append l3 c4
      have hVV : mt S (VV S (((specSem S l).conjs ++ A).map Pair.v)) (VV S (B.map Pair.v)) =
          svP S (.and l r) := by
        rw [List.map_append, VV_append h, mt_assoc h, c6, scalar_VV h l hls, hsv]
      refine ⟨l', r', (specSem S l).conjs ++ A, B, c1, ?_, ?_, hA, c5, hVV, ?_⟩
      · show (fun c => (sem S r).conj ((sem S l).conj c)) = _
        rw [conj_id S l hls, c2]; rfl
      · rw [hconjs, c3]; simp
      · rw [hd, c3]
        have : (specSem S l).conjs ++ (A ++ specPair S (.or l' r') :: B) =
            ((specSem S l).conjs ++ A) ++ specPair S (.or l' r') :: B := by simp
        rw [this, unifyD_oneM h _ _ _ hA c5, ← hVV,
          mt_comm h (memP _) (VV S _), ← mt_assoc h]

/-- Any number of atoms unified (in any order, bracketing, parenthesisation) with ONE
disjunction — marked or not — whose terms contain arbitrarily nested unmarked disjunctions:
the transcribed algorithm resolves exactly as the spec's value-default pair. -/
theorem default_nestedSingle (S : Sl V) (h : Laws S) (e : Expr V) (hf : e.NestedSingle = true) :
    (eval S e).resolve = (specPair S e).resolve := by
  simp only [Expr.NestedSingle, Bool.and_eq_true, decide_eq_true_eq] at hf
  obtain ⟨l, r, A, B, c1, c2, _, _, _, _, c7⟩ := nested_decomp h e hf.1 hf.2
  have hvals : ∀ x, x ∈ (eval S e).values ↔ x ∈ (specPair S e).v := values_iff S h e
  rw [eval_resolve, Pair.resolve_eq]
  cases hb : sv S e with
  | none =>
    have hv : (specPair S e).v = [] := by
      apply List.eq_nil_iff_forall_not_mem.2
      intro x hx
      have := (hvals x).2 hx
      have he : (eval S e).values = [] := by
        unfold eval doDisj
        have : (sem S e).scalar (some S.top) = none := hb
        simp only [this]; rfl
      rw [he] at this; cases this
    rw [hv]; rfl
  | some b =>
    simp only
    obtain ⟨m1, m2⟩ := chain_sets S h l r c1 ⟨b, .maybe, .maybe⟩ rfl rfl
    obtain ⟨_, s2⟩ := chain_spec_nested S l r c1
    obtain ⟨⟨k1, k2⟩, _⟩ := specPair_nodup S e
    have hnd : (vals ((sem S e).conj [⟨b, .maybe, .maybe⟩])).Nodup :=
      nodup_conj S _ _ (by simp [vals])
    have hev : (eval S e).values = vals ((sem S e).conj [⟨b, .maybe, .maybe⟩]) := by
      rw [eval_values, rvals_doDisj]
      have : (sem S e).scalar (some S.top) = some b := hb
      simp only [this]
    refine resOf_congr hnd k1 ((List.filter_sublist.map _).nodup hnd) k2 ?_ ?_
    · funext x; apply propext
      show x ∈ vals _ ↔ _
      rw [← hev]; exact hvals x
    · rw [memP_defs, c7, c2]
      funext y; apply propext
      rw [m2 y]
      have hsv : svP S e = fun x => x = b := by
        funext x; apply propext; unfold svP; rw [hb]; simp [eq_comm]
      rw [hsv]
      constructor
      · rintro ⟨mt', hmt, hmk, x, hx, hm⟩
        exact ⟨b, x, rfl, (s2 x).2 ⟨mt', hmt, hmk, hx⟩, hm⟩
      · rintro ⟨b', x, rfl, hx, hm⟩
        obtain ⟨mt', hmt, hmk, hx'⟩ := (s2 x).1 hx
        exact ⟨mt', hmt, hmk, x, hx', hm⟩

end CueVerif.Disj
