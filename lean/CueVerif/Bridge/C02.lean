/-
Bridge for C02: fingerprints of the normalised source of the functions the models
transcribe (Model/Sanitize.lean, Model/Toposort.lean), regenerated from /repo on every run.
The models were validated (O-level correspondence, notes/C02.md) against exactly these
versions; a changed pin says "the hand model is no longer known to describe this function".
(`appendToList` was re-pinned after the coordinator's fix commit that appends to a clipped
slice: how the list is BUILT is not part of the model, only its element order, which is unchanged.)
-/
import CueVerif.Gen.C02
namespace CueVerif.Bridge.C02
open CueVerif

theorem pin_errors_Sanitize : Gen.C02.pin_errors_Sanitize = "9782d93db99d683d" := by decide
theorem pin_errors_list_sanitize : Gen.C02.pin_errors_list_sanitize = "a97f023ff62f62a3" := by decide
theorem pin_errors_list_removeMultiples : Gen.C02.pin_errors_list_removeMultiples = "20c82bbbf43b2fb6" := by decide
theorem pin_errors_comparePosWithNoPosFirst : Gen.C02.pin_errors_comparePosWithNoPosFirst = "c164d7c7cd7818dd" := by decide
theorem pin_errors_Print : Gen.C02.pin_errors_Print = "90c9148cabe788e5" := by decide
theorem pin_errors_Errors : Gen.C02.pin_errors_Errors = "5f65bfc7f7b6839b" := by decide
theorem pin_errors_appendToList : Gen.C02.pin_errors_appendToList = "0e99e3e53321deb5" := by decide
theorem pin_token_Pos_Compare : Gen.C02.pin_token_Pos_Compare = "9318dfc39e699905" := by decide
theorem pin_token_Pos_IsValid : Gen.C02.pin_token_Pos_IsValid = "bde37ca2594d007d" := by decide
theorem pin_token_Pos_Filename : Gen.C02.pin_token_Pos_Filename = "6795ed360d790756" := by decide
theorem pin_token_Pos_Offset : Gen.C02.pin_token_Pos_Offset = "4eaca812afb1e38f" := by decide
theorem pin_token_Pos_HasAbsPos : Gen.C02.pin_token_Pos_HasAbsPos = "25edd0214c79bea2" := by decide
theorem pin_toposort_compareNodeByName : Gen.C02.pin_toposort_indexComparison_compareNodeByName = "d390e39c12c8479c" := by decide
theorem pin_toposort_compareComponentsByNodes : Gen.C02.pin_toposort_indexComparison_compareComponentsByNodes = "5470addf40591194" := by decide
theorem pin_toposort_Graph_Sort : Gen.C02.pin_toposort_Graph_Sort = "75d5d60eb8378346" := by decide
theorem pin_toposort_appendNodes : Gen.C02.pin_toposort_appendNodes = "64a660746af55357" := by decide
theorem pin_toposort_Graph_StronglyConnectedComponents : Gen.C02.pin_toposort_Graph_StronglyConnectedComponents = "6bb09fe37345ba74" := by decide
theorem pin_toposort_findSCC : Gen.C02.pin_toposort_sccFinderState_findSCC = "80221666e2e6d8c9" := by decide
theorem pin_toposort_GraphBuilder_Build : Gen.C02.pin_toposort_GraphBuilder_Build = "af42fde79b45233c" := by decide
theorem pin_toposort_GraphBuilder_AddEdge : Gen.C02.pin_toposort_GraphBuilder_AddEdge = "3ab62e6428ab5582" := by decide
theorem pin_toposort_GraphBuilder_EnsureNode : Gen.C02.pin_toposort_GraphBuilder_EnsureNode = "24ae4d60bca1f916" := by decide

end CueVerif.Bridge.C02
