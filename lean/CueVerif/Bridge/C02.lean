/-
Bridge for C02: fingerprints of the normalised source of the functions the models
transcribe (Model/Sanitize.lean, Model/Toposort.lean, Model/VertexFeatures.lean, Model/ScanLoops.lean), regenerated from /repo on every run.
The models were validated (O-level correspondence, notes/C02.md) against exactly these
versions; a changed pin says "the hand model is no longer known to describe this function".
(`appendToList` was re-pinned after the coordinator's fix commit that appends to a clipped
slice: how the list is BUILT is not part of the model, only its element order, which is unchanged.)
-/
import CueVerif.Gen.C02
namespace CueVerif.Bridge.C02
open CueVerif

theorem pin_errors_Sanitize : Gen.C02.pin_errors_Sanitize = "9782d93db99d683d" := by decide
theorem pin_errors_list_sanitize : Gen.C02.pin_errors_list_sanitize = "a97f023ff62f62a3" := by decide
theorem pin_errors_list_removeMultiples : Gen.C02.pin_errors_list_removeMultiples = "20c82bbbf43b2fb6" := by decide
theorem pin_errors_comparePosWithNoPosFirst : Gen.C02.pin_errors_comparePosWithNoPosFirst = "c164d7c7cd7818dd" := by decide
theorem pin_errors_Print : Gen.C02.pin_errors_Print = "90c9148cabe788e5" := by decide
theorem pin_errors_Errors : Gen.C02.pin_errors_Errors = "5f65bfc7f7b6839b" := by decide
theorem pin_errors_appendToList : Gen.C02.pin_errors_appendToList = "0e99e3e53321deb5" := by decide
theorem pin_token_Pos_Compare : Gen.C02.pin_token_Pos_Compare = "9318dfc39e699905" := by decide
theorem pin_token_Pos_IsValid : Gen.C02.pin_token_Pos_IsValid = "bde37ca2594d007d" := by decide
theorem pin_token_Pos_Filename : Gen.C02.pin_token_Pos_Filename = "6795ed360d790756" := by decide
theorem pin_token_Pos_Offset : Gen.C02.pin_token_Pos_Offset = "4eaca812afb1e38f" := by decide
theorem pin_token_Pos_HasAbsPos : Gen.C02.pin_token_Pos_HasAbsPos = "25edd0214c79bea2" := by decide
theorem pin_toposort_compareNodeByName : Gen.C02.pin_toposort_indexComparison_compareNodeByName = "d390e39c12c8479c" := by decide
theorem pin_toposort_compareComponentsByNodes : Gen.C02.pin_toposort_indexComparison_compareComponentsByNodes = "5470addf40591194" := by decide
theorem pin_toposort_Graph_Sort : Gen.C02.pin_toposort_Graph_Sort = "75d5d60eb8378346" := by decide
theorem pin_toposort_appendNodes : Gen.C02.pin_toposort_appendNodes = "64a660746af55357" := by decide
theorem pin_toposort_Graph_StronglyConnectedComponents : Gen.C02.pin_toposort_Graph_StronglyConnectedComponents = "6bb09fe37345ba74" := by decide
theorem pin_toposort_findSCC : Gen.C02.pin_toposort_sccFinderState_findSCC = "80221666e2e6d8c9" := by decide
theorem pin_toposort_GraphBuilder_Build : Gen.C02.pin_toposort_GraphBuilder_Build = "af42fde79b45233c" := by decide
theorem pin_toposort_GraphBuilder_AddEdge : Gen.C02.pin_toposort_GraphBuilder_AddEdge = "3ab62e6428ab5582" := by decide
theorem pin_toposort_GraphBuilder_EnsureNode : Gen.C02.pin_toposort_GraphBuilder_EnsureNode = "24ae4d60bca1f916" := by decide
-- graph construction from struct literals (Model/VertexFeatures.lean); `analyseStructs` and
-- `hasDynamic` are pinned because the model takes their OUTPUT as its input (positions and
-- explicitness per struct literal; no dynamic fields in the modelled fragment)
theorem pin_toposort_VertexFeatures : Gen.C02.pin_toposort_VertexFeatures = "6f05a62be47069a4" := by decide
theorem pin_toposort_addEdges : Gen.C02.pin_toposort_vertexFeatures_addEdges = "7cc89bdc9afb20db" := by decide
theorem pin_toposort_compareStructMeta : Gen.C02.pin_toposort_vertexFeatures_compareStructMeta = "7f95a9a8b35df426" := by decide
theorem pin_toposort_batch_isExplicit : Gen.C02.pin_toposort_structMetaBatch_isExplicit = "f7910ed74d3b5919" := by decide
theorem pin_toposort_appendBatch : Gen.C02.pin_toposort_structMetaBatches_appendBatch = "11b14324ec362601" := by decide
theorem pin_toposort_analyseStructs : Gen.C02.pin_toposort_analyseStructs = "a16ba8a946cc1a5b" := by decide
theorem pin_toposort_hasDynamic : Gen.C02.pin_toposort_structMeta_hasDynamic = "2a3e08d6ef51e3f8" := by decide

-- the scanner's dispatch and loops (Model/ScanLoops.lean)
theorem pin_scanner_next : Gen.C02.pin_scanner_Scanner_next = "4dd23fe72be50da9" := by decide
theorem pin_scanner_Init : Gen.C02.pin_scanner_Scanner_Init = "8a1daa0240f564d3" := by decide
theorem pin_scanner_isLetter : Gen.C02.pin_scanner_isLetter = "7aecc90050bc9728" := by decide
theorem pin_scanner_isDigit : Gen.C02.pin_scanner_isDigit = "da5acf79aeff31b3" := by decide
theorem pin_scanner_digitVal : Gen.C02.pin_scanner_digitVal = "10408a34ff508f9b" := by decide
theorem pin_scanner_scanIdentifier : Gen.C02.pin_scanner_Scanner_scanIdentifier = "ad41905e29154764" := by decide
theorem pin_scanner_scanFieldIdentifier : Gen.C02.pin_scanner_Scanner_scanFieldIdentifier = "8a2ef1e485ff91a2" := by decide
theorem pin_scanner_scanComment : Gen.C02.pin_scanner_Scanner_scanComment = "c15cdd15739ba840" := by decide
theorem pin_scanner_skipWhitespace : Gen.C02.pin_scanner_Scanner_skipWhitespace = "8ed44dd8247d3a8a" := by decide
theorem pin_scanner_recoverParen : Gen.C02.pin_scanner_Scanner_recoverParen = "049341926de4efdc" := by decide
theorem pin_scanner_consumeQuotes : Gen.C02.pin_scanner_Scanner_consumeQuotes = "90a17b53fb88b472" := by decide
theorem pin_scanner_scanHashes : Gen.C02.pin_scanner_Scanner_scanHashes = "b6afb35f43d723c9" := by decide
theorem pin_scanner_consumeStringClose : Gen.C02.pin_scanner_Scanner_consumeStringClose = "99ab59f3f07d775f" := by decide
theorem pin_scanner_scanEscape : Gen.C02.pin_scanner_Scanner_scanEscape = "797f428a147aef6f" := by decide
theorem pin_scanner_scanString : Gen.C02.pin_scanner_Scanner_scanString = "983ef5dcdf6576cb" := by decide
theorem pin_scanner_popInterpolation : Gen.C02.pin_scanner_Scanner_popInterpolation = "866cdcaf74bd11eb" := by decide
theorem pin_scanner_ResumeInterpolation : Gen.C02.pin_scanner_Scanner_ResumeInterpolation = "3aed8293d9693a6e" := by decide
theorem pin_scanner_scanAttribute : Gen.C02.pin_scanner_Scanner_scanAttribute = "a84ad2fdb4420f7d" := by decide
theorem pin_scanner_scanAttributeTokens : Gen.C02.pin_scanner_Scanner_scanAttributeTokens = "c26ed2004ce3c642" := by decide
theorem pin_scanner_switch2 : Gen.C02.pin_scanner_Scanner_switch2 = "4c47f82ae3efbba1" := by decide
theorem pin_scanner_Scan : Gen.C02.pin_scanner_Scanner_Scan = "e9b435645f244f67" := by decide

end CueVerif.Bridge.C02
