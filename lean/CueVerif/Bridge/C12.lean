/-
Bridge for C12: fingerprints (regenerated from /repo on every run, CueVerif.Gen.C12) of the
functions Model/Toml.lean transcribes by hand.  The model was validated against exactly these
versions (correspondence ops tomldecode / tomlemit / tomlround, notes/C12.md).
-/
import CueVerif.Gen.C12
namespace CueVerif.Bridge.C12
open CueVerif

theorem pin_toml_NewDecoder : Gen.C12.pin_toml_NewDecoder = "f9760b3ba650ee7c" := by decide
theorem pin_toml_Decoder_Decode : Gen.C12.pin_toml_Decoder_Decode = "57f0c30cc7f6772b" := by decide
theorem pin_toml_Decoder_nextRootNode : Gen.C12.pin_toml_Decoder_nextRootNode = "3a7aaba85e52bb47" := by decide
theorem pin_toml_Decoder_decodeField : Gen.C12.pin_toml_Decoder_decodeField = "1f06d984521b347b" := by decide
theorem pin_toml_Decoder_findArray : Gen.C12.pin_toml_Decoder_findArray = "7090637c1997eb31" := by decide
theorem pin_toml_Decoder_findArrayPrefix : Gen.C12.pin_toml_Decoder_findArrayPrefix = "22b6f9e6b3f31538" := by decide
theorem pin_toml_Decoder_decodeKey : Gen.C12.pin_toml_Decoder_decodeKey = "bc8fc10728632f60" := by decide
theorem pin_toml_Decoder_inlineFields : Gen.C12.pin_toml_Decoder_inlineFields = "23eac75c4a252a4f" := by decide
theorem pin_toml_quoteLabelIfNeeded : Gen.C12.pin_toml_quoteLabelIfNeeded = "09e2e903431cf364" := by decide
theorem pin_toml_Decoder_label : Gen.C12.pin_toml_Decoder_label = "b4388d785a0834c4" := by decide
theorem pin_toml_Decoder_decodeExpr : Gen.C12.pin_toml_Decoder_decodeExpr = "1bffacbeafcfb10e" := by decide
theorem pin_toml_NewEncoder : Gen.C12.pin_toml_NewEncoder = "cf1c6e3886ff9e65" := by decide
theorem pin_toml_Encoder_Encode : Gen.C12.pin_toml_Encoder_Encode = "317c39faf2384837" := by decide
theorem pin_toml_checkNoNull : Gen.C12.pin_toml_checkNoNull = "41102bb25a8d3b2a" := by decide
-- the code of repaired defects (fixed: lines of known-findings.d/C12.txt)
theorem pin_cue_Value_Int64 : Gen.C12.pin_cue_Value_Int64 = "b228d48ce9787d3f" := by decide
theorem pin_cmd_buildPlan_placeOrphans : Gen.C12.pin_cmd_buildPlan_placeOrphans = "36080d5bde0cf77e" := by decide
-- how output files are opened (O_EXCL without --force, O_TRUNC with it); exercised by harness/c12_overwrite.go
theorem pin_encoding_writer : Gen.C12.pin_encoding_writer = "7fbebf1e946da055" := by decide
theorem pin_ast_StringLabelNeedsQuoting : Gen.C12.pin_ast_StringLabelNeedsQuoting = "8e5531b8cb8df961" := by decide

end CueVerif.Bridge.C12
