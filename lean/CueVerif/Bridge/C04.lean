/-
Bridge for C04: facts regenerated from /repo (CueVerif.Gen.C04) versus the hand model
CueVerif.Model.Disj.  The `defaultMode` constants, `combineDefault` and `combineDefault2`
are TRANSLATED from the Go source on every run and proved equal to the model's tables on
the whole (finite) domain; the functions transcribed by hand are pinned by a fingerprint of
their normalised source (the model was validated against exactly these versions).
-/
import CueVerif.Gen.C04
import CueVerif.Model.Disj
namespace CueVerif.Bridge.C04
open CueVerif CueVerif.Disj

/-- the Go constants have the numeric values (hence the order) the model's `toNat` uses -/
theorem mode_constants :
    Gen.C04.maybeDefault = (Mode.maybe.toNat : Int) ∧ Gen.C04.isDefault = (Mode.isDef.toNat : Int) ∧
    Gen.C04.notDefault = (Mode.notDef.toNat : Int) := by decide

/-- `combineDefault` of the source = the model's, on every pair of modes -/
theorem combineDefault_eq (a b : Mode) :
    Gen.C04.combineDefault a.toNat b.toNat = (combineDefault a b).toNat := by
  cases a <;> cases b <;> decide

/-- `combineDefault2` of the source = the model's, on every cell of the table -/
theorem combineDefault2_eq (a b : Mode) (da db : Bool) :
    Gen.C04.combineDefault2 a.toNat b.toNat da db = (combineDefault2 a b da db).toNat := by
  cases a <;> cases b <;> cases da <;> cases db <;> decide

theorem pin_adt_mode : Gen.C04.pin_adt_mode = "ba42c6c9a0c947b7" := by decide
theorem pin_adt_nodeContext_processDisjunctions : Gen.C04.pin_adt_nodeContext_processDisjunctions = "0e983a4fee4d4234" := by decide
theorem pin_adt_nodeContext_crossProduct : Gen.C04.pin_adt_nodeContext_crossProduct = "c5322d8427df84dc" := by decide
theorem pin_adt_nodeContext_doDisjunct : Gen.C04.pin_adt_nodeContext_doDisjunct = "9d59162f14ed500d" := by decide
theorem pin_adt_appendDisjunct : Gen.C04.pin_adt_appendDisjunct = "8b8814151ffd0e28" := by decide
theorem pin_adt_nodeContext_finalizeDisjunctions : Gen.C04.pin_adt_nodeContext_finalizeDisjunctions = "b09b7732ee2a1ddd" := by decide
theorem pin_adt_Disjunction_Default : Gen.C04.pin_adt_Disjunction_Default = "062853d04b0152ca" := by decide
theorem pin_adt_Vertex_Default : Gen.C04.pin_adt_Vertex_Default = "96f19ad4f15b0e8a" := by decide
theorem pin_adt_Default : Gen.C04.pin_adt_Default = "c5fc4e461fc043a5" := by decide
theorem pin_adt_Vertex_DerefDisjunct : Gen.C04.pin_adt_Vertex_DerefDisjunct = "d1493c93dcba915a" := by decide
theorem pin_compile_compiler_addDisjunctionElem : Gen.C04.pin_compile_compiler_addDisjunctionElem = "fc5cf09f52615ada" := by decide
theorem pin_cue_Value_Default : Gen.C04.pin_cue_Value_Default = "43373f058dd7a7bf" := by decide

end CueVerif.Bridge.C04
