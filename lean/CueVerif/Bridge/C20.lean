/-
Bridge for C20: facts regenerated from /repo (CueVerif.Gen.C20) versus the model.
`subsumeProfile` is the translated composite literal behind trim's `equallySpecific`
(Model/Trim.lean `equallySpecific` = defaults applied on both sides).  trimv3.go is NOT
transcribed; its functions are pinned so that any rewrite is flagged and answered by the
translation-validation harness (failing-input search).
-/
import CueVerif.Gen.C20
import CueVerif.Model.Trim
namespace CueVerif.Bridge.C20
open CueVerif

/-- the profile the model's `equallySpecific` describes: `Defaults` (right operand = the
candidate conjuncts) and `LeftDefault` (left operand = the vertex), nothing else -/
def modelProfile : List String := ["Defaults=true", "LeftDefault=true"]

theorem subsumeProfile_eq : Gen.C20.subsumeProfile = modelProfile := by decide
theorem subsumeProfile_type : Gen.C20.subsumeProfile_type = "subsume.Profile" := by decide

theorem pin_trim_Files : Gen.C20.pin_trim_Files = "fd38f297ce180caa" := by decide
theorem pin_trim_filesV3 : Gen.C20.pin_trim_filesV3 = "9aad79a964bdf4dd" := by decide
theorem pin_trim_trimmerV3_findStaticDependencies : Gen.C20.pin_trim_trimmerV3_findStaticDependencies = "1310e081cb75fbb7" := by decide
theorem pin_trim_trimmerV3_findPatterns : Gen.C20.pin_trim_trimmerV3_findPatterns = "06abce3aba5b76fb" := by decide
theorem pin_trim_trimmerV3_findDisjunctions : Gen.C20.pin_trim_trimmerV3_findDisjunctions = "4e322769923cc2da" := by decide
theorem pin_trim_trimmerV3_keepAllChildren : Gen.C20.pin_trim_trimmerV3_keepAllChildren = "9220ff521149747c" := by decide
theorem pin_trim_trimmerV3_findConjunctForStruct : Gen.C20.pin_trim_trimmerV3_findConjunctForStruct = "2b54185921bba89a" := by decide
theorem pin_trim_trimmerV3_findRedundancies : Gen.C20.pin_trim_trimmerV3_findRedundancies = "eceb1b0821319701" := by decide
theorem pin_trim_trimmerV3_linkResolvers : Gen.C20.pin_trim_trimmerV3_linkResolvers = "6441a1d1c4f22729" := by decide
theorem pin_trim_trimmerV3_linkResolversOrig : Gen.C20.pin_trim_trimmerV3_linkResolversOrig = "2063d6aa19bb00da" := by decide
theorem pin_trim_trimmerV3_linkStructComprehension : Gen.C20.pin_trim_trimmerV3_linkStructComprehension = "d8d2964c8bbc7122" := by decide
theorem pin_trim_trimmerV3_resolveElemAll : Gen.C20.pin_trim_trimmerV3_resolveElemAll = "9f8249791202a5a9" := by decide
theorem pin_trim_trimmerV3_equallySpecific : Gen.C20.pin_trim_trimmerV3_equallySpecific = "17e4dbaae901695c" := by decide
theorem pin_trim_trimmerV3_solvePending : Gen.C20.pin_trim_trimmerV3_solvePending = "0016e88feb1d4edb" := by decide
theorem pin_trim_trimmerV3_solveUndecideds : Gen.C20.pin_trim_trimmerV3_solveUndecideds = "86f241a7dbf05233" := by decide
theorem pin_trim_trimmerV3_trim : Gen.C20.pin_trim_trimmerV3_trim = "edccbe79648885ce" := by decide
theorem pin_trim_trimmerV3_getNodeMeta : Gen.C20.pin_trim_trimmerV3_getNodeMeta = "cab3e13a976e961d" := by decide
theorem pin_trim_nodeMeta_isRequired : Gen.C20.pin_trim_nodeMeta_isRequired = "3643c40e270c51ad" := by decide
theorem pin_trim_nodeMeta__isRequired : Gen.C20.pin_trim_nodeMeta__isRequired = "f09de943bcf05ec6" := by decide
theorem pin_trim_nodeMeta_isRequiredBy : Gen.C20.pin_trim_nodeMeta_isRequiredBy = "6b00d1ed9c27b8e8" := by decide
theorem pin_trim_nodeMeta__isRequiredBy : Gen.C20.pin_trim_nodeMeta__isRequiredBy = "ad85324f4238578f" := by decide
theorem pin_trim_nodeMeta_isEmbedded : Gen.C20.pin_trim_nodeMeta_isEmbedded = "badeae4a982453e0" := by decide
theorem pin_trim_nodeMeta_comprehensionDependsOn : Gen.C20.pin_trim_nodeMeta_comprehensionDependsOn = "37dc019b97dbbbce" := by decide
theorem pin_trim_nodeMeta_isAncestorOf : Gen.C20.pin_trim_nodeMeta_isAncestorOf = "11e71c5b3309d811" := by decide
theorem pin_trim_nodeMeta_addRequiredBy : Gen.C20.pin_trim_nodeMeta_addRequiredBy = "b327303898e0aa80" := by decide
theorem pin_trim_nodeMeta_markRequired : Gen.C20.pin_trim_nodeMeta_markRequired = "f888a6d2390b9f08" := by decide
theorem pin_trim_nodeMetas_sort : Gen.C20.pin_trim_nodeMetas_sort = "9e4c161fc80f4ad5" := by decide
theorem pin_trim_nodeMetas_seenCountSum : Gen.C20.pin_trim_nodeMetas_seenCountSum = "f4f17206c2673cbb" := by decide
theorem pin_trim_nodeMetas_hasRequired : Gen.C20.pin_trim_nodeMetas_hasRequired = "fa9f777446a7735e" := by decide
theorem pin_cmd_runTrim : Gen.C20.pin_cmd_runTrim = "350cc4c5f996ae3e" := by decide
theorem pin_subsume_Profile_Value : Gen.C20.pin_subsume_Profile_Value = "3d8414c439e5422b" := by decide
theorem pin_adt_Vertex_Default : Gen.C20.pin_adt_Vertex_Default = "96f19ad4f15b0e8a" := by decide
theorem pin_adt_Disjunction_Default : Gen.C20.pin_adt_Disjunction_Default = "062853d04b0152ca" := by decide

end CueVerif.Bridge.C20
