/-
Bridge for C03: facts regenerated from /repo (CueVerif.Gen.C03) versus the hand model
(CueVerif.Model.Scalar / Model.Dec).  Tables are compared cell by cell; `pin_*` are fingerprints
of the normalised source of the functions the model transcribes by hand — the model was
validated (correspondence, notes/C03.md) against exactly these versions.
-/
import CueVerif.Gen.C03
import CueVerif.Model.Scalar
namespace CueVerif.Bridge.C03
open CueVerif CueVerif.Scalar

/-! ### adt.Kind bits -/
theorem kind_bits :
    Gen.C03.NullKind = (Kind.null : Nat) ∧ Gen.C03.BoolKind = (Kind.bool : Nat) ∧
    Gen.C03.IntKind = (Kind.int : Nat) ∧ Gen.C03.FloatKind = (Kind.float : Nat) ∧
    Gen.C03.StringKind = (Kind.string : Nat) ∧ Gen.C03.BytesKind = (Kind.bytes : Nat) ∧
    Gen.C03.NumberKind = (Kind.number : Nat) ∧ Gen.C03.TopKind = (Kind.top : Nat) ∧
    Gen.C03.BottomKind = (Kind.bottom : Nat) := by decide

/-- the atoms' kind bits are the generated constants -/
theorem atom_kinds :
    (Atom.null.kind : Int) = Gen.C03.NullKind ∧ ((Atom.bool true).kind : Int) = Gen.C03.BoolKind ∧
    ((Atom.int 0).kind : Int) = Gen.C03.IntKind ∧ ((Atom.float ⟨0, 0⟩).kind : Int) = Gen.C03.FloatKind ∧
    ((Atom.str []).kind : Int) = Gen.C03.StringKind ∧ ((Atom.bytes []).kind : Int) = Gen.C03.BytesKind := by
  decide

/-- `TopKind &^ NullKind` -/
theorem nonNull_kind : (Kind.nonNull : Int) = Gen.C03.TopKind - Gen.C03.NullKind := by decide

/-! ### opInfo -/
def opName : Op → String
  | .lt => "LessThanOp" | .le => "LessEqualOp" | .gt => "GreaterThanOp" | .ge => "GreaterEqualOp"
  | .ne => "NotEqualOp" | .mat => "MatchOp" | .nmat => "NotMatchOp"

/-- the model's `opInfo` is the code's table (the `EqualOp` row is not reachable from CUE source
without the struct-comparison experiment's unary `==`, and not modelled) -/
theorem opInfo_eq :
    Gen.C03.opInfo.filter (fun r => r.1 != "EqualOp") =
      [Op.gt, .ge, .lt, .le, .ne, .mat, .nmat].map
        (fun op => (opName op, opName (opInfo op).1, (opInfo op).2)) := by decide

/-! ### cmpTonode -/
def relHolds (s : String) (o : Ordering) : Option Bool :=
  if s = "r == -1" then some (o == .lt)
  else if s = "r != 1" then some (o != .gt)
  else if s = "r == 0" then some (o == .eq)
  else if s = "r != 0" then some (o != .eq)
  else if s = "r != -1" then some (o != .lt)
  else if s = "r == 1" then some (o == .gt)
  else none

theorem cmpTonode_eq :
    [Op.lt, .le, .gt, .ge, .ne].all (fun op =>
      match Gen.C03.cmpTonode.lookup (opName op) with
      | some s => [Ordering.lt, .eq, .gt].all (fun o => relHolds s o == some (opHolds op o))
      | none => false) = true := by decide

/-! ### predeclared ranges -/
def rangeName : Range → String
  | .rune => "rune" | .int8 => "int8" | .int16 => "int16" | .int32 => "int32" | .int64 => "int64"
  | .int128 => "int128" | .uint => "uint" | .uint8 => "uint8" | .uint16 => "uint16"
  | .uint32 => "uint32" | .uint64 => "uint64" | .uint128 => "uint128"
  | .float32 => "float32" | .float64 => "float64"

def rangeEntry (r : Range) : String × String × Int × Int :=
  match r.intSpec with
  | none => (rangeName r, "float", r.floatMax.coeff, r.floatMax.exp)
  | some (lo, some hi) => (rangeName r, "int", lo, hi)
  | some (_, none) => (rangeName r, "uint", 0, 0)

theorem ranges_eq :
    Gen.C03.ranges =
      [Range.float32, .float64, .int128, .int16, .int32, .int64, .int8, .rune, .uint, .uint128,
       .uint16, .uint32, .uint64, .uint8].map rangeEntry := by decide

/-! ### precision of internal.BaseContext -/
theorem precision_eq : Gen.C03.basePrecision = Dec.basePrecision := by decide

/-! ### fingerprints of the hand-transcribed functions -/
theorem pin_adt_SimplifyBounds : Gen.C03.pin_adt_SimplifyBounds = "a045e09e37d9b75c" := by decide
theorem pin_adt_errIncompatibleBounds : Gen.C03.pin_adt_errIncompatibleBounds = "39ae5aa39eb08248" := by decide
theorem pin_adt_opInfo : Gen.C03.pin_adt_opInfo = "ac1dec46ed039f64" := by decide
theorem pin_adt_cmpTonode : Gen.C03.pin_adt_cmpTonode = "b3615dae370638bb" := by decide
theorem pin_adt_BinOpBool : Gen.C03.pin_adt_BinOpBool = "4bfdf810ebb3ce0b" := by decide
theorem pin_adt_BinOp : Gen.C03.pin_adt_BinOp = "3e59a3ba75fe3a9b" := by decide
theorem pin_adt_BoundValue_Kind : Gen.C03.pin_adt_BoundValue_Kind = "fc65d3abf272dcaa" := by decide
theorem pin_adt_BoundValue_validate : Gen.C03.pin_adt_BoundValue_validate = "7df3091fa67f5965" := by decide
theorem pin_adt_BoundExpr_evaluate : Gen.C03.pin_adt_BoundExpr_evaluate = "3923a73cb7270ef5" := by decide
theorem pin_adt_nodeContext_insertValueConjunct : Gen.C03.pin_adt_nodeContext_insertValueConjunct = "1216d9583fe9fd23" := by decide
theorem pin_adt_nodeContext_updateNodeType : Gen.C03.pin_adt_nodeContext_updateNodeType = "e18b2c95d3b5c06e" := by decide
theorem pin_adt_nodeContext_validateValue : Gen.C03.pin_adt_nodeContext_validateValue = "db535d39618051b6" := by decide
theorem pin_adt_nodeContext_getValidators : Gen.C03.pin_adt_nodeContext_getValidators = "616feacd6ddef777" := by decide
theorem pin_compile_mkIntRange : Gen.C03.pin_compile_mkIntRange = "9528daf201c782dc" := by decide
theorem pin_compile_mkFloatRange : Gen.C03.pin_compile_mkFloatRange = "47b45078d3d0730d" := by decide
theorem pin_compile_mkUint : Gen.C03.pin_compile_mkUint = "2307b669750d9952" := by decide
theorem pin_compile_newBound : Gen.C03.pin_compile_newBound = "921b7785015f7f8d" := by decide

end CueVerif.Bridge.C03
