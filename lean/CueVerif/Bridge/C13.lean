/-
Bridge for C13: facts regenerated from /repo (CueVerif.Gen.C13) versus the hand model
(Model/JsonSchemaSkel.lean).  `pin_*` are fingerprints of the normalised source of the
functions / tables the model transcribes; the model was validated (harness: class-I `skel`
ops for finalize + type/enum mask arithmetic, class-O verdicts for everything) against exactly
these versions.  A changed pin means "the hand model is no longer known to describe this
function": the check then searches for a failing input.
-/
import CueVerif.Gen.C13
import CueVerif.Model.JsonSchemaSkel
namespace CueVerif.Bridge.C13
open CueVerif

theorem pin_jsonschema_state_finalize : Gen.C13.pin_jsonschema_state_finalize = "7ce137f2eb40ebf0" := by decide
theorem pin_jsonschema_kindToAST : Gen.C13.pin_jsonschema_kindToAST = "0293c40cb9f58279" := by decide
theorem pin_jsonschema_constraintAllOf : Gen.C13.pin_jsonschema_constraintAllOf = "5691a295e00c2b18" := by decide
theorem pin_jsonschema_constraintAnyOf : Gen.C13.pin_jsonschema_constraintAnyOf = "9daf93dba605c9e8" := by decide
theorem pin_jsonschema_constraintOneOf : Gen.C13.pin_jsonschema_constraintOneOf = "10946a9074e1d57b" := by decide
theorem pin_jsonschema_constraintNot : Gen.C13.pin_jsonschema_constraintNot = "4e20059fc6789033" := by decide
theorem pin_jsonschema_constraintIfThenElse : Gen.C13.pin_jsonschema_constraintIfThenElse = "f03de3a34e54e205" := by decide
theorem pin_jsonschema_matchN : Gen.C13.pin_jsonschema_matchN = "b907ef02302a8d9e" := by decide
theorem pin_jsonschema_constraintType : Gen.C13.pin_jsonschema_constraintType = "a3116fae6ee286fb" := by decide
theorem pin_jsonschema_constraintEnum : Gen.C13.pin_jsonschema_constraintEnum = "af53501fe211891d" := by decide
theorem pin_jsonschema_constraintConst : Gen.C13.pin_jsonschema_constraintConst = "d5b2fb74bd128a83" := by decide
theorem pin_jsonschema_boolSchema : Gen.C13.pin_jsonschema_boolSchema = "fadd9e28f29e7cc7" := by decide
theorem pin_jsonschema_errorDisallowed : Gen.C13.pin_jsonschema_errorDisallowed = "ffbeebbc08a99957" := by decide
theorem pin_jsonschema_state_hasConstraints : Gen.C13.pin_jsonschema_state_hasConstraints = "cffc0b672cb3b3af" := by decide
theorem pin_jsonschema_constraintInfo_add : Gen.C13.pin_jsonschema_constraintInfo_add = "2fdfc7022d5578f7" := by decide
theorem pin_jsonschema_state_add : Gen.C13.pin_jsonschema_state_add = "a6fa9d99b3aad758" := by decide
theorem pin_jsonschema_coreToCUE : Gen.C13.pin_jsonschema_coreToCUE = "36981e1e2b0ae9cc" := by decide
theorem pin_jsonschema_allTypes : Gen.C13.pin_jsonschema_allTypes = "15341d53e87d42cc" := by decide
theorem pin_compile_matchNBuiltin : Gen.C13.pin_compile_matchNBuiltin = "e5fe967ab10f5a2c" := by decide
theorem pin_compile_matchIfBuiltin : Gen.C13.pin_compile_matchIfBuiltin = "8619d1f1b6892b33" := by decide
theorem pin_compile_checkNum : Gen.C13.pin_compile_checkNum = "414c01bd9a62d81d" := by decide
theorem pin_compile_finalizeSelf : Gen.C13.pin_compile_finalizeSelf = "9d8b4353a2a9ef25" := by decide

/-- `coreToCUE` / `allTypes` as the model has them: number = int|float, seven kinds in all -/
theorem model_coreToCUE_num : Skel.coreToCUE .num = [.int, .float] := rfl
theorem model_allTypes : Skel.CKind.all.length = 7 := rfl

end CueVerif.Bridge.C13
