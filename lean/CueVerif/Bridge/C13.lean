/-
Bridge for C13: facts regenerated from /repo (CueVerif.Gen.C13) versus the hand model
(Model/JsonSchemaSkel.lean).  `pin_*` are fingerprints of the normalised source of the
functions / tables the model transcribes; the model was validated (harness: class-I `skel`
ops for finalize + type/enum mask arithmetic, class-O verdicts for everything) against exactly
these versions.  A changed pin means "the hand model is no longer known to describe this
function": the check then searches for a failing input.
-/
import CueVerif.Gen.C13
import CueVerif.Model.JsonSchemaSkel
import CueVerif.Model.JsonSchemaCC
namespace CueVerif.Bridge.C13
open CueVerif

theorem pin_jsonschema_state_finalize : Gen.C13.pin_jsonschema_state_finalize = "7ce137f2eb40ebf0" := by decide
theorem pin_jsonschema_kindToAST : Gen.C13.pin_jsonschema_kindToAST = "0293c40cb9f58279" := by decide
theorem pin_jsonschema_constraintAllOf : Gen.C13.pin_jsonschema_constraintAllOf = "5691a295e00c2b18" := by decide
theorem pin_jsonschema_constraintAnyOf : Gen.C13.pin_jsonschema_constraintAnyOf = "9daf93dba605c9e8" := by decide
theorem pin_jsonschema_constraintOneOf : Gen.C13.pin_jsonschema_constraintOneOf = "10946a9074e1d57b" := by decide
theorem pin_jsonschema_constraintNot : Gen.C13.pin_jsonschema_constraintNot = "4e20059fc6789033" := by decide
theorem pin_jsonschema_constraintIfThenElse : Gen.C13.pin_jsonschema_constraintIfThenElse = "f03de3a34e54e205" := by decide
theorem pin_jsonschema_matchN : Gen.C13.pin_jsonschema_matchN = "b907ef02302a8d9e" := by decide
theorem pin_jsonschema_constraintType : Gen.C13.pin_jsonschema_constraintType = "a3116fae6ee286fb" := by decide
theorem pin_jsonschema_constraintEnum : Gen.C13.pin_jsonschema_constraintEnum = "af53501fe211891d" := by decide
theorem pin_jsonschema_constraintConst : Gen.C13.pin_jsonschema_constraintConst = "d5b2fb74bd128a83" := by decide
theorem pin_jsonschema_boolSchema : Gen.C13.pin_jsonschema_boolSchema = "fadd9e28f29e7cc7" := by decide
theorem pin_jsonschema_errorDisallowed : Gen.C13.pin_jsonschema_errorDisallowed = "ffbeebbc08a99957" := by decide
theorem pin_jsonschema_state_hasConstraints : Gen.C13.pin_jsonschema_state_hasConstraints = "cffc0b672cb3b3af" := by decide
theorem pin_jsonschema_constraintInfo_add : Gen.C13.pin_jsonschema_constraintInfo_add = "2fdfc7022d5578f7" := by decide
theorem pin_jsonschema_state_add : Gen.C13.pin_jsonschema_state_add = "a6fa9d99b3aad758" := by decide
theorem pin_jsonschema_coreToCUE : Gen.C13.pin_jsonschema_coreToCUE = "36981e1e2b0ae9cc" := by decide
theorem pin_jsonschema_allTypes : Gen.C13.pin_jsonschema_allTypes = "15341d53e87d42cc" := by decide
theorem pin_compile_matchNBuiltin : Gen.C13.pin_compile_matchNBuiltin = "e5fe967ab10f5a2c" := by decide
theorem pin_compile_matchIfBuiltin : Gen.C13.pin_compile_matchIfBuiltin = "8619d1f1b6892b33" := by decide
theorem pin_compile_checkNum : Gen.C13.pin_compile_checkNum = "414c01bd9a62d81d" := by decide
theorem pin_compile_finalizeSelf : Gen.C13.pin_compile_finalizeSelf = "9d8b4353a2a9ef25" := by decide

/-! session 3: the per-keyword builders transcribed by Model/JsonSchemaCC.lean (numbers, strings,
arrays, constValue, schemaState and its helpers, the phase table `constraints`); validated against
exactly these versions by the class-I `cc` stream (AST-level structural correspondence) -/
theorem pin_jsonschema_constraintMinimum : Gen.C13.pin_jsonschema_constraintMinimum = "56b648dbb35951cd" := by decide
theorem pin_jsonschema_constraintMaximum : Gen.C13.pin_jsonschema_constraintMaximum = "cb22489ab2cb67cb" := by decide
theorem pin_jsonschema_constraintExclusiveMinimum : Gen.C13.pin_jsonschema_constraintExclusiveMinimum = "c6ddbc611e31b627" := by decide
theorem pin_jsonschema_constraintExclusiveMaximum : Gen.C13.pin_jsonschema_constraintExclusiveMaximum = "6364c61838efc60b" := by decide
theorem pin_jsonschema_constraintMultipleOf : Gen.C13.pin_jsonschema_constraintMultipleOf = "1f87f1a958b03111" := by decide
theorem pin_jsonschema_constraintMinLength : Gen.C13.pin_jsonschema_constraintMinLength = "9f8406c461a4b817" := by decide
theorem pin_jsonschema_constraintMaxLength : Gen.C13.pin_jsonschema_constraintMaxLength = "0d4f1c4362b7392a" := by decide
theorem pin_jsonschema_constraintPattern : Gen.C13.pin_jsonschema_constraintPattern = "98e1124c463455c4" := by decide
theorem pin_jsonschema_constraintMinItems : Gen.C13.pin_jsonschema_constraintMinItems = "9713878611ae32e3" := by decide
theorem pin_jsonschema_constraintMaxItems : Gen.C13.pin_jsonschema_constraintMaxItems = "463995ed073a525b" := by decide
theorem pin_jsonschema_constraintUniqueItems : Gen.C13.pin_jsonschema_constraintUniqueItems = "fbe8f282775d7982" := by decide
theorem pin_jsonschema_constraintMinContains : Gen.C13.pin_jsonschema_constraintMinContains = "899fa7265b817c91" := by decide
theorem pin_jsonschema_constraintMaxContains : Gen.C13.pin_jsonschema_constraintMaxContains = "19f9a563d2b10314" := by decide
theorem pin_jsonschema_constraintContains : Gen.C13.pin_jsonschema_constraintContains = "e95a6aebcfeaeb2c" := by decide
theorem pin_jsonschema_constraintItems : Gen.C13.pin_jsonschema_constraintItems = "5727055b8b7645c5" := by decide
theorem pin_jsonschema_constraintPrefixItems : Gen.C13.pin_jsonschema_constraintPrefixItems = "067dfb43d2af56ec" := by decide
theorem pin_jsonschema_setAdditionalItems : Gen.C13.pin_jsonschema_setAdditionalItems = "24aef46d3974f38f" := by decide
theorem pin_jsonschema_constraintIf : Gen.C13.pin_jsonschema_constraintIf = "c40a41ea51d09781" := by decide
theorem pin_jsonschema_constraintThen : Gen.C13.pin_jsonschema_constraintThen = "7b0b838d549c3c90" := by decide
theorem pin_jsonschema_constraintElse : Gen.C13.pin_jsonschema_constraintElse = "6def8b38d2c0a4a6" := by decide
theorem pin_jsonschema_state_constValue : Gen.C13.pin_jsonschema_state_constValue = "0ecb9f718fae98d6" := by decide
theorem pin_jsonschema_state_schemaState : Gen.C13.pin_jsonschema_state_schemaState = "22d30d9ce80dfad8" := by decide
theorem pin_jsonschema_state_schema : Gen.C13.pin_jsonschema_state_schema = "f8b988f1de12fa1d" := by decide
theorem pin_jsonschema_isTop : Gen.C13.pin_jsonschema_isTop = "ca64b5037e3ac3de" := by decide
theorem pin_jsonschema_isErrorCall : Gen.C13.pin_jsonschema_isErrorCall = "189ecbec45814bf0" := by decide
theorem pin_jsonschema_top : Gen.C13.pin_jsonschema_top = "9d9244ea73a82830" := by decide
theorem pin_jsonschema_decoder_number : Gen.C13.pin_jsonschema_decoder_number = "9c9b9e64511545d9" := by decide
theorem pin_jsonschema_decoder_uint : Gen.C13.pin_jsonschema_decoder_uint = "ac89ad7aada1a0af" := by decide
theorem pin_jsonschema_uint64Value : Gen.C13.pin_jsonschema_uint64Value = "01ae1809f8740f3c" := by decide
theorem pin_jsonschema_decoder_regexpValue : Gen.C13.pin_jsonschema_decoder_regexpValue = "b0cf4044ceac0375" := by decide
theorem pin_jsonschema_constraints : Gen.C13.pin_jsonschema_constraints = "e3356e5c6178c012" := by decide

/-- `coreToCUE` / `allTypes` as the model has them: number = int|float, seven kinds in all -/
theorem model_coreToCUE_num : Skel.coreToCUE .num = [.int, .float] := rfl
theorem model_allTypes : Skel.CKind.all.length = 7 := rfl

/-- the phase table as the model has it (constraints_gen.go): phase 1 before 2 before 3 -/
theorem model_phases :
    CCm.phaseOf (.type []) = 1 ∧ CCm.phaseOf (.enum []) = 1 ∧ CCm.phaseOf (.minContains 0) = 1 ∧
    CCm.phaseOf (.minimum ⟨0, 1⟩) = 2 ∧ CCm.phaseOf (.exclusiveMinimum ⟨0, 1⟩) = 1 ∧
    CCm.phaseOf (.contains (.bool true)) = 2 ∧ CCm.phaseOf (.prefixItems []) = 2 ∧
    CCm.phaseOf (.items (.bool true)) = 3 ∧ CCm.phaseOf (.allOf []) = 2 := by decide

end CueVerif.Bridge.C13
