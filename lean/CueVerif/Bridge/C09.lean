/-
Bridge for C09: facts regenerated from /repo (CueVerif.Gen.C09) versus the hand models.
`pin_*` are fingerprints of the normalised source of the functions the models transcribe
(cue/literal quote.go, string.go, num.go; the scanner's number/identifier lexing;
ast.IsValidIdent); the models were validated by correspondence against exactly these versions.
-/
import CueVerif.Gen.C09
import CueVerif.Model.Quote
import CueVerif.Model.NumLit
namespace CueVerif.Bridge.C09
open CueVerif

/-- the scanner's `digitVal` table is the model's (the literal package's copy is pinned) -/
theorem scannerDigitVal_eq (c : Nat) : Gen.C09.scannerDigitVal c = NumLit.digitVal c := by
  simp only [Gen.C09.scannerDigitVal, NumLit.digitVal]
  repeat' split
  all_goals first | rfl | (simp_all) | omega

/-- surrogate range constants used by `QuoteInfo.Unquote` (model: 0xD800, 0xDC00, 0xE000) -/
theorem surrogates : Gen.C09.surHigh = 0xD800 ∧ Gen.C09.surLow = 0xDC00 ∧ Gen.C09.surEnd = 0xE000 := by
  decide

/-- the three sentinels of the unquote loop are negative (an overflowing `\\U` is rejected by `v < 0`) -/
theorem sentinels : Gen.C09.terminatedByQuote = -1 ∧ Gen.C09.terminatedByExpr = -2 ∧
    Gen.C09.escapedNewline = -3 := by decide

theorem pin_literal_Form_WithTabIndent : Gen.C09.pin_literal_Form_WithTabIndent = "48e78396d5f334c0" := by decide
theorem pin_literal_Form_WithOptionalTabIndent : Gen.C09.pin_literal_Form_WithOptionalTabIndent = "9e2240aeb258d940" := by decide
theorem pin_literal_Form_WithOptionalHashes : Gen.C09.pin_literal_Form_WithOptionalHashes = "facff4b30f5a673a" := by decide
theorem pin_literal_Form_WithASCIIOnly : Gen.C09.pin_literal_Form_WithASCIIOnly = "d0eb4e16866813c2" := by decide
theorem pin_literal_Form_WithGraphicOnly : Gen.C09.pin_literal_Form_WithGraphicOnly = "36c7dafd44120bc3" := by decide
theorem pin_literal_Form_Quote : Gen.C09.pin_literal_Form_Quote = "87be0ceb5a591315" := by decide
theorem pin_literal_Form_Append : Gen.C09.pin_literal_Form_Append = "47703ec039748d13" := by decide
theorem pin_literal_Form_appendEscaped : Gen.C09.pin_literal_Form_appendEscaped = "e4f6399a7269d77d" := by decide
theorem pin_literal_Form_appendEscapedRune : Gen.C09.pin_literal_Form_appendEscapedRune = "e0ff2bfd13206a30" := by decide
theorem pin_literal_Form_appendEscape : Gen.C09.pin_literal_Form_appendEscape = "c346718b56327bb7" := by decide
theorem pin_literal_Form_isPrint : Gen.C09.pin_literal_Form_isPrint = "3d316aeedf9d6502" := by decide
theorem pin_literal_Form_singleLineHashCount : Gen.C09.pin_literal_Form_singleLineHashCount = "9a4778e0d4d7b936" := by decide
theorem pin_literal_Form_requiredHashCount : Gen.C09.pin_literal_Form_requiredHashCount = "4eb9d80ad5e3db37" := by decide
theorem pin_literal_Unquote : Gen.C09.pin_literal_Unquote = "7b1fcfe81d6cf8c0" := by decide
theorem pin_literal_ParseQuotes : Gen.C09.pin_literal_ParseQuotes = "1a310404c68d538c" := by decide
theorem pin_literal_QuoteInfo_Unquote : Gen.C09.pin_literal_QuoteInfo_Unquote = "3ece8a915cb385ba" := by decide
theorem pin_literal_hasClosingDelimPrefix : Gen.C09.pin_literal_hasClosingDelimPrefix = "85d7628bc292aca8" := by decide
theorem pin_literal_skipWhitespaceAfterNewline : Gen.C09.pin_literal_skipWhitespaceAfterNewline = "d005110dccadd904" := by decide
theorem pin_literal_isSimple : Gen.C09.pin_literal_isSimple = "0526fd3c4a39e411" := by decide
theorem pin_literal_unquoteChar : Gen.C09.pin_literal_unquoteChar = "eab3a8cb37686ae3" := by decide
theorem pin_literal_unhex : Gen.C09.pin_literal_unhex = "e828f60dd9a61aa5" := by decide
theorem pin_literal_ParseNum : Gen.C09.pin_literal_ParseNum = "f62ad6ae0fe132dc" := by decide
theorem pin_literal_NumInfo_next : Gen.C09.pin_literal_NumInfo_next = "fec08a8bae3fc87b" := by decide
theorem pin_literal_NumInfo_digitVal : Gen.C09.pin_literal_NumInfo_digitVal = "b72d7578cbdf111a" := by decide
theorem pin_literal_NumInfo_scanMantissa : Gen.C09.pin_literal_NumInfo_scanMantissa = "8f02c5a2db5ecd93" := by decide
theorem pin_literal_NumInfo_scanNumber : Gen.C09.pin_literal_NumInfo_scanNumber = "a20a9ef43ec46211" := by decide
theorem pin_scanner_Scanner_scanNumber : Gen.C09.pin_scanner_Scanner_scanNumber = "e16e2044fdc3af71" := by decide
theorem pin_scanner_Scanner_scanMantissa : Gen.C09.pin_scanner_Scanner_scanMantissa = "d6c742f674995ae6" := by decide
theorem pin_scanner_Scanner_scanFieldIdentifier : Gen.C09.pin_scanner_Scanner_scanFieldIdentifier = "8a2ef1e485ff91a2" := by decide
theorem pin_scanner_Scanner_scanIdentifier : Gen.C09.pin_scanner_Scanner_scanIdentifier = "ad41905e29154764" := by decide
theorem pin_scanner_isLetter : Gen.C09.pin_scanner_isLetter = "7aecc90050bc9728" := by decide
theorem pin_scanner_isDigit : Gen.C09.pin_scanner_isDigit = "da5acf79aeff31b3" := by decide
theorem pin_scanner_Scanner_next : Gen.C09.pin_scanner_Scanner_next = "4dd23fe72be50da9" := by decide
theorem pin_ast_IsValidIdent : Gen.C09.pin_ast_IsValidIdent = "da53dfe8880f02f2" := by decide
theorem pin_ast_isLetter : Gen.C09.pin_ast_isLetter = "7aecc90050bc9728" := by decide
theorem pin_ast_isDigit : Gen.C09.pin_ast_isDigit = "da5acf79aeff31b3" := by decide
theorem pin_literal_NumInfo_decimal : Gen.C09.pin_literal_NumInfo_decimal = "aca1b0e83663d828" := by decide

end CueVerif.Bridge.C09
