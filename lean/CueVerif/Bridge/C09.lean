/-
Bridge for C09: facts regenerated from /repo (CueVerif.Gen.C09) versus the hand models.
`pin_*` are fingerprints of the normalised source of the functions the models transcribe
(cue/literal quote.go, string.go, num.go; the scanner's number/identifier lexing;
ast.IsValidIdent); the models were validated by correspondence against exactly these versions.
-/
import CueVerif.Gen.C09
import CueVerif.Model.Quote
import CueVerif.Model.NumLit
import CueVerif.Model.TokenFile
import CueVerif.Spec.Scan
namespace CueVerif.Bridge.C09
open CueVerif

/-- the scanner's `digitVal` table is the model's (the literal package's copy is pinned) -/
theorem scannerDigitVal_eq (c : Nat) : Gen.C09.scannerDigitVal c = NumLit.digitVal c := by
  simp only [Gen.C09.scannerDigitVal, NumLit.digitVal]
  repeat' split
  all_goals first | rfl | (simp_all) | omega

/-- surrogate range constants used by `QuoteInfo.Unquote` (model: 0xD800, 0xDC00, 0xE000) -/
theorem surrogates : Gen.C09.surHigh = 0xD800 ∧ Gen.C09.surLow = 0xDC00 ∧ Gen.C09.surEnd = 0xE000 := by
  decide

/-- the three sentinels of the unquote loop are negative (an overflowing `\\U` is rejected by `v < 0`) -/
theorem sentinels : Gen.C09.terminatedByQuote = -1 ∧ Gen.C09.terminatedByExpr = -2 ∧
    Gen.C09.escapedNewline = -3 := by decide

theorem pin_literal_Form_WithTabIndent : Gen.C09.pin_literal_Form_WithTabIndent = "48e78396d5f334c0" := by decide
theorem pin_literal_Form_WithOptionalTabIndent : Gen.C09.pin_literal_Form_WithOptionalTabIndent = "9e2240aeb258d940" := by decide
theorem pin_literal_Form_WithOptionalHashes : Gen.C09.pin_literal_Form_WithOptionalHashes = "facff4b30f5a673a" := by decide
theorem pin_literal_Form_WithASCIIOnly : Gen.C09.pin_literal_Form_WithASCIIOnly = "d0eb4e16866813c2" := by decide
theorem pin_literal_Form_WithGraphicOnly : Gen.C09.pin_literal_Form_WithGraphicOnly = "36c7dafd44120bc3" := by decide
theorem pin_literal_Form_Quote : Gen.C09.pin_literal_Form_Quote = "87be0ceb5a591315" := by decide
theorem pin_literal_Form_Append : Gen.C09.pin_literal_Form_Append = "47703ec039748d13" := by decide
theorem pin_literal_Form_appendEscaped : Gen.C09.pin_literal_Form_appendEscaped = "e4f6399a7269d77d" := by decide
theorem pin_literal_Form_appendEscapedRune : Gen.C09.pin_literal_Form_appendEscapedRune = "e0ff2bfd13206a30" := by decide
theorem pin_literal_Form_appendEscape : Gen.C09.pin_literal_Form_appendEscape = "c346718b56327bb7" := by decide
theorem pin_literal_Form_isPrint : Gen.C09.pin_literal_Form_isPrint = "3d316aeedf9d6502" := by decide
theorem pin_literal_Form_singleLineHashCount : Gen.C09.pin_literal_Form_singleLineHashCount = "9a4778e0d4d7b936" := by decide
theorem pin_literal_Form_requiredHashCount : Gen.C09.pin_literal_Form_requiredHashCount = "4eb9d80ad5e3db37" := by decide
theorem pin_literal_Unquote : Gen.C09.pin_literal_Unquote = "7b1fcfe81d6cf8c0" := by decide
theorem pin_literal_ParseQuotes : Gen.C09.pin_literal_ParseQuotes = "1a310404c68d538c" := by decide
theorem pin_literal_QuoteInfo_Unquote : Gen.C09.pin_literal_QuoteInfo_Unquote = "3ece8a915cb385ba" := by decide
theorem pin_literal_hasClosingDelimPrefix : Gen.C09.pin_literal_hasClosingDelimPrefix = "85d7628bc292aca8" := by decide
theorem pin_literal_skipWhitespaceAfterNewline : Gen.C09.pin_literal_skipWhitespaceAfterNewline = "d005110dccadd904" := by decide
theorem pin_literal_isSimple : Gen.C09.pin_literal_isSimple = "0526fd3c4a39e411" := by decide
theorem pin_literal_unquoteChar : Gen.C09.pin_literal_unquoteChar = "eab3a8cb37686ae3" := by decide
theorem pin_literal_unhex : Gen.C09.pin_literal_unhex = "e828f60dd9a61aa5" := by decide
theorem pin_literal_ParseNum : Gen.C09.pin_literal_ParseNum = "f62ad6ae0fe132dc" := by decide
theorem pin_literal_NumInfo_next : Gen.C09.pin_literal_NumInfo_next = "fec08a8bae3fc87b" := by decide
theorem pin_literal_NumInfo_digitVal : Gen.C09.pin_literal_NumInfo_digitVal = "b72d7578cbdf111a" := by decide
theorem pin_literal_NumInfo_scanMantissa : Gen.C09.pin_literal_NumInfo_scanMantissa = "8f02c5a2db5ecd93" := by decide
theorem pin_literal_NumInfo_scanNumber : Gen.C09.pin_literal_NumInfo_scanNumber = "a20a9ef43ec46211" := by decide
theorem pin_scanner_Scanner_scanNumber : Gen.C09.pin_scanner_Scanner_scanNumber = "e16e2044fdc3af71" := by decide
theorem pin_scanner_Scanner_scanMantissa : Gen.C09.pin_scanner_Scanner_scanMantissa = "d6c742f674995ae6" := by decide
theorem pin_scanner_Scanner_scanFieldIdentifier : Gen.C09.pin_scanner_Scanner_scanFieldIdentifier = "8a2ef1e485ff91a2" := by decide
theorem pin_scanner_Scanner_scanIdentifier : Gen.C09.pin_scanner_Scanner_scanIdentifier = "ad41905e29154764" := by decide
theorem pin_scanner_isLetter : Gen.C09.pin_scanner_isLetter = "7aecc90050bc9728" := by decide
theorem pin_scanner_isDigit : Gen.C09.pin_scanner_isDigit = "da5acf79aeff31b3" := by decide
theorem pin_scanner_Scanner_next : Gen.C09.pin_scanner_Scanner_next = "4dd23fe72be50da9" := by decide
theorem pin_ast_IsValidIdent : Gen.C09.pin_ast_IsValidIdent = "da53dfe8880f02f2" := by decide
theorem pin_ast_isLetter : Gen.C09.pin_ast_isLetter = "7aecc90050bc9728" := by decide
theorem pin_ast_isDigit : Gen.C09.pin_ast_isDigit = "da5acf79aeff31b3" := by decide
theorem pin_literal_NumInfo_decimal : Gen.C09.pin_literal_NumInfo_decimal = "aca1b0e83663d828" := by decide

/-! ### extension round (session 3): the position table of cue/token/position.go -/

/-- the packing constants of `token.Pos`: the model's `relUnit = 64 = 1 << relShift`, and every
flag bit (`relMask`, `commaBit`, `scannedBit`) lies below it, so the `rel` argument of
`C09_pos_offset_roundtrip` (0 ≤ rel < 64) covers every `WithRel/WithComma/WithScanned` value -/
theorem pos_packing : Gen.C09.relShift = (TokenFile.relShift : Int) ∧
    TokenFile.relUnit = 2 ^ TokenFile.relShift ∧
    Gen.C09.relMask + Gen.C09.commaBit + Gen.C09.scannedBit < TokenFile.relUnit := by decide

/-- `AddLineInfo` has no caller in the tree (outside tests): `f.infos` is always empty, as the
model assumes; neither have `MergeLine` and `SetLines` (tables come from `AddLine` /
`SetLinesForContent` only) -/
theorem no_line_infos : Gen.C09.addLineInfoCallSites = 0 ∧ Gen.C09.mergeLineCallSites = 0 ∧
    Gen.C09.setLinesCallSites = 0 := by decide

theorem pin_token_NewFile : Gen.C09.pin_token_NewFile = "7b716289b579b46f" := by decide
theorem pin_token_File_fixOffset : Gen.C09.pin_token_File_fixOffset = "35cfec5838f6f825" := by decide
theorem pin_token_File_AddLine : Gen.C09.pin_token_File_AddLine = "22bba488d464a0c8" := by decide
theorem pin_token_File_SetLines : Gen.C09.pin_token_File_SetLines = "3f2049ee756080b5" := by decide
theorem pin_token_File_SetLinesForContent : Gen.C09.pin_token_File_SetLinesForContent = "896619cb77799e8f" := by decide
theorem pin_token_File_Pos : Gen.C09.pin_token_File_Pos = "84b33d31cc204b28" := by decide
theorem pin_token_File_Offset : Gen.C09.pin_token_File_Offset = "d7288801105deb49" := by decide
theorem pin_token_File_unpack : Gen.C09.pin_token_File_unpack = "9e89eb838fdaf524" := by decide
theorem pin_token_File_position : Gen.C09.pin_token_File_position = "c23b3d59c22388ac" := by decide
theorem pin_token_File_PositionFor : Gen.C09.pin_token_File_PositionFor = "1907fe29c4a320b8" := by decide
theorem pin_token_File_Position : Gen.C09.pin_token_File_Position = "745f22f2d221733d" := by decide
theorem pin_token_searchInts : Gen.C09.pin_token_searchInts = "717df8d5211cdc60" := by decide
theorem pin_token_toPos : Gen.C09.pin_token_toPos = "94a6f4cf62ac3973" := by decide
theorem pin_token_Pos_index : Gen.C09.pin_token_Pos_index = "cf850c1e8cdb09b8" := by decide
theorem pin_token_Pos_Add : Gen.C09.pin_token_Pos_Add = "9cafc369f1cc8371" := by decide
theorem pin_token_Pos_Position : Gen.C09.pin_token_Pos_Position = "35970aed643f09bf" := by decide
theorem pin_token_Pos_Offset : Gen.C09.pin_token_Pos_Offset = "4eaca812afb1e38f" := by decide
theorem pin_token_Pos_HasAbsPos : Gen.C09.pin_token_Pos_HasAbsPos = "25edd0214c79bea2" := by decide
theorem pin_token_Pos_IsValid : Gen.C09.pin_token_Pos_IsValid = "bde37ca2594d007d" := by decide
theorem pin_token_File_Lines : Gen.C09.pin_token_File_Lines = "e0a9bac230361178" := by decide
theorem pin_token_File_LineCount : Gen.C09.pin_token_File_LineCount = "1833ee8d55e4c23e" := by decide

/-! ### extension round (session 3): the scanner as a total function (Model/Scan.lean) -/

/-- the keyword table `token.Lookup` uses (regenerated from the constants between
`keywordBeg` and `keywordEnd`) is the model's -/
theorem scan_keywords : Gen.C09.keywords.map (fun s => s.toList.map Char.toNat) = Scan.keywords := by decide

/-- doc/ref/spec.md §Commas, regenerated and translated into token kinds by the extractor,
is the list `Scan.specCommaKinds` that `C09_comma_rule_*` speak about -/
theorem scan_spec_commas : Gen.C09.specCommaKinds = Scan.specCommaKinds.map Scan.kindName := by decide

theorem scan_spec_comma_text : Gen.C09.specCommaBullets =
    ["an identifier, keyword, or bottom", "a number or string literal, including an interpolation",
     "one of the characters `)`, `]`, `}`, or `?`", "an ellipsis `...`"] := by decide

theorem pin_scanner_Scanner_Scan : Gen.C09.pin_scanner_Scanner_Scan = "e9b435645f244f67" := by decide
theorem pin_scanner_Scanner_Init : Gen.C09.pin_scanner_Scanner_Init = "8a1daa0240f564d3" := by decide
theorem pin_scanner_Scanner_skipWhitespace : Gen.C09.pin_scanner_Scanner_skipWhitespace = "8ed44dd8247d3a8a" := by decide
theorem pin_scanner_Scanner_scanComment : Gen.C09.pin_scanner_Scanner_scanComment = "c15cdd15739ba840" := by decide
theorem pin_scanner_Scanner_scanString : Gen.C09.pin_scanner_Scanner_scanString = "983ef5dcdf6576cb" := by decide
theorem pin_scanner_Scanner_scanEscape : Gen.C09.pin_scanner_Scanner_scanEscape = "797f428a147aef6f" := by decide
theorem pin_scanner_Scanner_consumeQuotes : Gen.C09.pin_scanner_Scanner_consumeQuotes = "90a17b53fb88b472" := by decide
theorem pin_scanner_Scanner_consumeStringClose : Gen.C09.pin_scanner_Scanner_consumeStringClose = "99ab59f3f07d775f" := by decide
theorem pin_scanner_Scanner_scanHashes : Gen.C09.pin_scanner_Scanner_scanHashes = "b6afb35f43d723c9" := by decide
theorem pin_scanner_stripCR : Gen.C09.pin_scanner_stripCR = "01f48a82622ecdaa" := by decide
theorem pin_scanner_Scanner_scanAttribute : Gen.C09.pin_scanner_Scanner_scanAttribute = "a84ad2fdb4420f7d" := by decide
theorem pin_scanner_Scanner_scanAttributeTokens : Gen.C09.pin_scanner_Scanner_scanAttributeTokens = "c26ed2004ce3c642" := by decide
theorem pin_scanner_Scanner_recoverParen : Gen.C09.pin_scanner_Scanner_recoverParen = "049341926de4efdc" := by decide
theorem pin_scanner_Scanner_switch2 : Gen.C09.pin_scanner_Scanner_switch2 = "4c47f82ae3efbba1" := by decide
theorem pin_scanner_Scanner_popInterpolation : Gen.C09.pin_scanner_Scanner_popInterpolation = "866cdcaf74bd11eb" := by decide
theorem pin_scanner_Scanner_ResumeInterpolation : Gen.C09.pin_scanner_Scanner_ResumeInterpolation = "3aed8293d9693a6e" := by decide
theorem pin_scanner_Scanner_Offset : Gen.C09.pin_scanner_Scanner_Offset = "3552722d27f70f1e" := by decide
theorem pin_scanner_Scanner_errf : Gen.C09.pin_scanner_Scanner_errf = "cff7056d7ce6f951" := by decide
theorem pin_token_Lookup : Gen.C09.pin_token_Lookup = "cbc48ba334be51ed" := by decide
theorem pin_parser_parser_parseInterpolation : Gen.C09.pin_parser_parser_parseInterpolation = "03e6f1e1327ccc2d" := by decide

end CueVerif.Bridge.C09
