/-
Bridge for C15: facts regenerated from /repo (CueVerif.Gen.C15) versus the hand model.
`pin_*` are fingerprints of the normalised source of the functions the model transcribes;
the model was validated (correspondence) against exactly these versions.
-/
import CueVerif.Gen.C15
import CueVerif.Model.Modzip
import CueVerif.Model.ModzipDir
namespace CueVerif.Bridge.C15
open CueVerif

theorem maxZipFile_eq : Gen.C15.maxZipFile = (Modzip.maxZipFile : Int) := by decide
theorem maxCUEMod_eq : Gen.C15.maxCUEMod = (Modzip.maxCUEMod : Int) := by decide
theorem maxLICENSE_eq : Gen.C15.maxLICENSE = (Modzip.maxLICENSE : Int) := by decide

/-- module.fileNameOK, for every rune and every interpretation of unicode.IsLetter -/
theorem fileNameOK_ascii : ∀ k, k < 128 →
    Gen.C15.fileNameOK (fun _ => false) k = Modzip.fileNameOK (fun _ => false) k := by decide

theorem fileNameOK_eq (isLetter : Nat → Bool) (r : Nat) :
    Gen.C15.fileNameOK isLetter r = Modzip.fileNameOK isLetter r := by
  unfold Gen.C15.fileNameOK Modzip.fileNameOK Modzip.fileNameAllowed
  by_cases h : r < 128
  · simp only [h, decide_true, if_true]
    have := fileNameOK_ascii r h
    unfold Gen.C15.fileNameOK Modzip.fileNameOK Modzip.fileNameAllowed at this
    simpa only [h, decide_true, if_true] using this
  · simp [h]

theorem badWindowsNames_eq : Gen.C15.badWindowsNames = Modzip.badWindowsNames := by decide

/-- the VCS directory names pruned by listFilesInDir and the prefix of isVendoredPackage, as
regenerated from the source, are the model's -/
theorem vcsNames_eq : Gen.C15.vcsNames = Modzip.vcsNames := by decide
theorem vendorPrefix_eq : Gen.C15.vendorPrefix = Modzip.sVendorPrefix := by decide

/-- every extraction of the module cache goes through modzip.Unzip from Cache.Fetch, and the
registry client checks uploads with modzip.CheckZip from checkModule -/
theorem callers_Unzip : Gen.C15.callers_modcache_Unzip = ["Cache.Fetch"] := by decide
theorem callers_CheckZip : Gen.C15.callers_modregistry_CheckZip = ["checkModule"] := by decide

theorem pin_module_checkPath : Gen.C15.pin_module_checkPath = "dcda10e6f1ec6893" := by decide
theorem pin_module_checkElem : Gen.C15.pin_module_checkElem = "170379e46b975543" := by decide
theorem pin_module_CheckFilePath : Gen.C15.pin_module_CheckFilePath = "5b217e6b65b17098" := by decide
theorem pin_module_escapeString : Gen.C15.pin_module_escapeString = "f7ec47cd068f9159" := by decide
theorem pin_module_EscapePath : Gen.C15.pin_module_EscapePath = "cf1d3b0dc5b77ab4" := by decide
theorem pin_module_EscapeVersion : Gen.C15.pin_module_EscapeVersion = "1e43fedccbc294c9" := by decide
theorem pin_modzip_CheckedFiles_Err : Gen.C15.pin_modzip_CheckedFiles_Err = "71aa6c4aeed8e63e" := by decide
theorem pin_modzip_CheckFiles : Gen.C15.pin_modzip_CheckFiles = "f619999066d89dfb" := by decide
theorem pin_modzip_checkFiles : Gen.C15.pin_modzip_checkFiles = "27b2f4dc4f67d323" := by decide
theorem pin_modzip_CheckDir : Gen.C15.pin_modzip_CheckDir = "e611e0450101d285" := by decide
theorem pin_modzip_CheckZipFile : Gen.C15.pin_modzip_CheckZipFile = "153a4f9c1942602d" := by decide
theorem pin_modzip_CheckZip : Gen.C15.pin_modzip_CheckZip = "683ddceaeb7c0621" := by decide
theorem pin_modzip_Create : Gen.C15.pin_modzip_Create = "e782b72b64d78000" := by decide
theorem pin_modzip_CreateFromDir : Gen.C15.pin_modzip_CreateFromDir = "4137de7409d04af3" := by decide
theorem pin_modzip_isVendoredPackage : Gen.C15.pin_modzip_isVendoredPackage = "ba02e225c8df63ef" := by decide
theorem pin_modzip_Unzip : Gen.C15.pin_modzip_Unzip = "ce3101a2a84ee4d0" := by decide
theorem pin_modzip_collisionChecker_check : Gen.C15.pin_modzip_collisionChecker_check = "6eee451de485e3a6" := by decide
theorem pin_modzip_listFilesInDir : Gen.C15.pin_modzip_listFilesInDir = "01b2d147f5832d5a" := by decide
theorem pin_modzip_strToFold : Gen.C15.pin_modzip_strToFold = "63924d5cff538f49" := by decide
theorem pin_modzip_splitCUEMod : Gen.C15.pin_modzip_splitCUEMod = "a87f8d3862e2a04d" := by decide
theorem pin_modzip_dirFileIO_Path : Gen.C15.pin_modzip_dirFileIO_Path = "65bb6481fa5f45a4" := by decide
theorem pin_modzip_dirFileIO_Lstat : Gen.C15.pin_modzip_dirFileIO_Lstat = "7bb801578503a380" := by decide
theorem pin_modzip_dirFileIO_Open : Gen.C15.pin_modzip_dirFileIO_Open = "878b7d16c8122e44" := by decide

end CueVerif.Bridge.C15
