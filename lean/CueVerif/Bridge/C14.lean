/-
Bridge for C14: facts regenerated from /repo (CueVerif.Gen.C14) versus the hand model.
`pin_*` are fingerprints of the normalised source of the functions the model transcribes;
the model was validated (correspondence, DESIGN.md §C14) against exactly these versions.
-/
import CueVerif.Gen.C14
import CueVerif.Model.Semver
namespace CueVerif.Bridge.C14
open CueVerif

theorem isIdentChar_eq (c : Nat) : Gen.C14.isIdentChar c = Semver.isIdentChar c := by
  simp [Gen.C14.isIdentChar, Semver.isIdentChar]

theorem pin_semver_parse : Gen.C14.pin_semver_parse = "e7c6fb938e61a7b3" := by decide
theorem pin_semver_parseInt : Gen.C14.pin_semver_parseInt = "0449fec35beaf025" := by decide
theorem pin_semver_parsePrerelease : Gen.C14.pin_semver_parsePrerelease = "02ac32791d3a8096" := by decide
theorem pin_semver_parseBuild : Gen.C14.pin_semver_parseBuild = "91edad8ec4851cb1" := by decide
theorem pin_semver_isBadNum : Gen.C14.pin_semver_isBadNum = "2bfcfffd8fd7d09c" := by decide
theorem pin_semver_isNum : Gen.C14.pin_semver_isNum = "04ce231c4ef9a733" := by decide
theorem pin_semver_compareInt : Gen.C14.pin_semver_compareInt = "dab43449e17b3fdd" := by decide
theorem pin_semver_comparePrerelease : Gen.C14.pin_semver_comparePrerelease = "760ecf733fb10812" := by decide
theorem pin_semver_nextIdent : Gen.C14.pin_semver_nextIdent = "1378ee15c1c34384" := by decide
theorem pin_semver_Compare : Gen.C14.pin_semver_Compare = "3152fc2e75e98801" := by decide
theorem pin_semver_Canonical : Gen.C14.pin_semver_Canonical = "79b0a11c1b1be345" := by decide
theorem pin_semver_IsValid : Gen.C14.pin_semver_IsValid = "0ebe9e13a142d9bd" := by decide
theorem pin_mvs_NewGraph : Gen.C14.pin_mvs_NewGraph = "b3d1d3d773e927b4" := by decide
theorem pin_mvs_Graph_Require : Gen.C14.pin_mvs_Graph_Require = "459690ccac9090c0" := by decide
theorem pin_mvs_Graph_Selected : Gen.C14.pin_mvs_Graph_Selected = "351bb1d52f3a1b41" := by decide
theorem pin_mvs_Graph_BuildList : Gen.C14.pin_mvs_Graph_BuildList = "99e65de8aacc1814" := by decide
theorem pin_mvs_buildList : Gen.C14.pin_mvs_buildList = "5ce555382d1b344b" := by decide
theorem pin_mvs_BuildList : Gen.C14.pin_mvs_BuildList = "0d31ae8820effc61" := by decide
theorem pin_par_Work_Add : Gen.C14.pin_par_Work_Add = "6738a1ce978fcc9e" := by decide
theorem pin_par_Work_Do : Gen.C14.pin_par_Work_Do = "1e8a1bbaababcce9" := by decide
theorem pin_par_Work_runner : Gen.C14.pin_par_Work_runner = "6b01f4e5287be4b9" := by decide
theorem pin_par_Work_init : Gen.C14.pin_par_Work_init = "4f02859d38cf9746" := by decide
theorem pin_module_Versions_Max : Gen.C14.pin_module_Versions_Max = "08d5d658d9c458c1" := by decide

theorem pin_modrequirements_readModGraph : Gen.C14.pin_modrequirements_Requirements_readModGraph = "df0a79d42396c97c" := by decide
theorem pin_modrequirements_cueModSummary : Gen.C14.pin_modrequirements_Requirements_cueModSummary = "e2c55a394541410f" := by decide
theorem pin_modrequirements_NewRequirements : Gen.C14.pin_modrequirements_NewRequirements = "d873cd55fff924b1" := by decide
theorem pin_modrequirements_Graph : Gen.C14.pin_modrequirements_Requirements_Graph = "c1d156011aae530b" := by decide
theorem pin_modrequirements_cmpVersion : Gen.C14.pin_modrequirements_cmpVersion = "0b033df76a48c581" := by decide
theorem pin_par_NewQueue : Gen.C14.pin_par_NewQueue = "f89211cea39e8ea6" := by decide
theorem pin_par_Queue_Add : Gen.C14.pin_par_Queue_Add = "b1793b1d2f696e9c" := by decide
theorem pin_par_Queue_Idle : Gen.C14.pin_par_Queue_Idle = "f90cee8ecea242a1" := by decide

-- extension round (session 3): Model/MvsOps.lean transcribes exactly these versions
theorem pin_mvs_Req : Gen.C14.pin_mvs_Req = "863698a5eddfa5f0" := by decide
theorem pin_mvs_Upgrade : Gen.C14.pin_mvs_Upgrade = "ec442e9c2af06a50" := by decide
theorem pin_mvs_UpgradeAll : Gen.C14.pin_mvs_UpgradeAll = "a48222a8a8a47bf6" := by decide
theorem pin_mvs_Downgrade : Gen.C14.pin_mvs_Downgrade = "1025aa7a8a373dfe" := by decide
theorem pin_mvs_override_Required : Gen.C14.pin_mvs_override_Required = "949714b36fe3000f" := by decide

end CueVerif.Bridge.C14
