/-
Bridge for C19: the lock/access protocols REGENERATED from /repo by extract/c19.go
(`CueVerif.Gen.C19`) versus the lock machine and the intern-table model.

* `getKey_protocol`, `indexToString_protocol`: the two model programs the linearizability
  theorems are about ARE the regenerated protocols.
* `*_wellLocked`: EVERY function of the scanned packages that touches the watched shared
  state passes the strict static lockset check, so `C19_lockset`, `C19_no_fatal_unlock`,
  `C19_no_lock_leak`, `C19_no_deadlock` apply to the protocols as they are in the source
  today (a write moved under RLock, an unlocked fast-path read, a lock leaked on an early
  return, a new function reading a shared map without the lock: the `decide` fails).
* `*_decls`: the watched variables still have the types the classification relies on
  (`sync.Map`, `atomic.Uint64`, `sync.RWMutex`, plain maps/slices).
* `ctor_exact`: the only unlocked write to watched state is the one in `Runtime.Init`
  (before the runtime is shared).
* `frozen_*`/`register_*`: the builtin tables read without a lock are written only by
  `registerBuiltin`, reachable only from `init` functions.
* `pin_*`: source fingerprints of the two functions whose DATA effect is hand-transcribed.
-/
import CueVerif.Gen.C19
import CueVerif.Model.Intern
import CueVerif.Proofs.Lockset
namespace CueVerif.Bridge.C19
open CueVerif CueVerif.Lockset

theorem getKey_protocol : Prog.ofRaw Gen.C19.proto_getKey = Intern.getKeyProg := by decide

theorem indexToString_protocol :
    Prog.ofRaw Gen.C19.proto_index_IndexToString = Intern.indexToStringProg := by decide

/-- every protocol of internal/core/runtime passes the strict lockset check -/
theorem runtime_wellLocked :
    (Gen.C19.protocols.all fun p => wellLocked Intern.guard true (Prog.ofRaw p.2)) = true := by decide

/-- the type caches are only ever used through their internally synchronised methods -/
theorem convert_wellLocked :
    (Gen.C19.convert_protocols.all fun p => wellLocked Intern.guard true (Prog.ofRaw p.2)) = true := by decide
theorem cue_wellLocked :
    (Gen.C19.cue_protocols.all fun p => wellLocked Intern.guard true (Prog.ofRaw p.2)) = true := by decide
theorem adt_wellLocked :
    (Gen.C19.adt_protocols.all fun p => wellLocked Intern.guard true (Prog.ofRaw p.2)) = true := by decide
theorem cuego_wellLocked :
    (Gen.C19.cuego_protocols.all fun p => wellLocked Intern.guard true (Prog.ofRaw p.2)) = true := by decide

/-- the protocols of internal/core/runtime as they are in the source today -/
def runtimeProgs : List Prog := Gen.C19.protocols.map fun p => Prog.ofRaw p.2

theorem runtimeProgs_ok : ∀ p ∈ runtimeProgs, wellLocked Intern.guard true p = true := by
  intro p hp
  simp only [runtimeProgs, List.mem_map] at hp
  obtain ⟨q, hq, rfl⟩ := hp
  exact (List.all_eq_true.mp runtime_wellLocked) q hq

/-- THE LOCKSET THEOREM APPLIED TO THE REGENERATED SOURCE PROTOCOLS: any number of
goroutines calling getKey / IndexToString / AddInst / LoadBuiltin / LoadInstance /
GetInstanceFromNode / getNodeFromInstance / SetBuildData / BuildData / getNextUniqueID /
LoadType / StoreType in any interleaving, under any data semantics: no two conflicting
accesses to labelMap, labels, imports, importsByBuild, loaded, nextUniqueID are ever
simultaneously enabled; no unlock of an unlocked mutex; no lock leaked; no deadlock. -/
theorem runtime_race_free {D L : Type} (sem : Sem D L) (initL : L → Prop) (d0 : D)
    (s : St D L) (hr : Run sem runtimeProgs initL d0 s) : ¬ Race s :=
  Lockset.no_race sem runtimeProgs initL d0 Intern.guard true runtimeProgs_ok s hr

theorem runtime_no_fatal_unlock {D L : Type} (sem : Sem D L) (initL : L → Prop) (d0 : D)
    (s : St D L) (hr : Run sem runtimeProgs initL d0 s) : ∀ t ∈ s.ths, ¬ FatalUnlock t :=
  Lockset.no_fatal_unlock sem runtimeProgs initL d0 Intern.guard true runtimeProgs_ok s hr

theorem runtime_no_lock_leak {D L : Type} (sem : Sem D L) (initL : L → Prop) (d0 : D)
    (s : St D L) (hr : Run sem runtimeProgs initL d0 s) : ∀ t ∈ s.ths, t.st = .done → t.held = [] :=
  Lockset.no_lock_leak sem runtimeProgs initL d0 Intern.guard true runtimeProgs_ok s hr

theorem runtime_no_deadlock {D L : Type} (sem : Sem D L) (initL : L → Prop) (d0 : D)
    (s : St D L) (hr : Run sem runtimeProgs initL d0 s) : ¬ Deadlock sem s :=
  Lockset.no_deadlock sem runtimeProgs initL d0 Intern.guard runtimeProgs_ok s hr

theorem runtime_decls : Gen.C19.decls =
    [("importPaths", "map[string]*build.Instance"), ("imports", "map[*adt.Vertex]*build.Instance"),
     ("importsByBuild", "map[*build.Instance]*adt.Vertex"),
     ("instances", "map[*build.Instance]func(*Runtime) (*adt.Vertex, error)"),
     ("labelMap", "map[string]int"), ("labels", "[]string"),
     ("loaded", "map[*build.Instance]interface{}"), ("lock", "sync.RWMutex"),
     ("mutex", "sync.RWMutex"), ("nextUniqueID", "uint64"),
     ("shortNames", "map[string]*build.Instance"), ("typeCache", "sync.Map")] := by decide
theorem convert_decls : Gen.C19.convert_decls = [("astTypeCache", "sync.Map")] := by decide
theorem cue_decls : Gen.C19.cue_decls = [("fieldCache", "sync.Map")] := by decide
theorem adt_decls : Gen.C19.adt_decls = [("contextGeneration", "atomic.Uint64")] := by decide
theorem cuego_decls : Gen.C19.cuego_decls = [("typeCache", "sync.Map")] := by decide

/-- constructors: exactly one, with exactly one (unlocked, pre-sharing) write -/
theorem ctor_exact : Gen.C19.ctor_protocols =
    [("Runtime.Init", [("br", "r.index != nil", "", 1), ("ret", "", "", 0), ("acc", "loaded", "assign", 0)])] := by
  decide
theorem convert_ctor_exact : Gen.C19.convert_ctor_protocols = [] := by decide
theorem cue_ctor_exact : Gen.C19.cue_ctor_protocols = [] := by decide
theorem adt_ctor_exact : Gen.C19.adt_ctor_protocols = [] := by decide
theorem cuego_ctor_exact : Gen.C19.cuego_ctor_protocols = [] := by decide

/-- the builtin tables are written by `registerBuiltin` only … -/
theorem frozen_writers : Gen.C19.frozen_writers =
    [("importPaths", ["builtins.registerBuiltin"]), ("instances", ["builtins.registerBuiltin"]),
     ("shortNames", ["builtins.registerBuiltin"])] := by decide
/-- … which is reachable only through runtime.RegisterBuiltin ← internal/pkg.Register ←
`init` functions, i.e. before any goroutine of the program can run -/
theorem registerBuiltin_inner_callers :
    Gen.C19.registerBuiltin_inner_callers = ["internal/core/runtime:RegisterBuiltin"] := by decide
theorem registerBuiltin_callers : Gen.C19.registerBuiltin_callers = ["internal/pkg:Register"] := by decide
theorem register_only_from_init : Gen.C19.register_not_init = [] := by decide

theorem pin_runtime_getKey : Gen.C19.pin_runtime_getKey = "e1d40b7038f38638" := by decide
theorem pin_runtime_index_IndexToString : Gen.C19.pin_runtime_index_IndexToString = "7451202b9f434ac3" := by decide
theorem pin_runtime_Runtime_StringToIndex : Gen.C19.pin_runtime_Runtime_StringToIndex = "e815bd1c88950d63" := by decide
theorem pin_runtime_Runtime_IndexToString : Gen.C19.pin_runtime_Runtime_IndexToString = "d4f7b778ae6900a6" := by decide

end CueVerif.Bridge.C19
