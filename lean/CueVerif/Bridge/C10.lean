/-
Bridge for C10: facts regenerated from the working tree (CueVerif.Gen.C10) versus the models.

* `safeSet_eq`: Go's encoding/json `safeSet` table (the characters `appendString` copies
  unescaped when HTML escaping is off), re-read from the toolchain the repository selects, is
  the model's `safeAscii` on every ASCII code point.
* apd's exponent limits and the "0E-n is printed in full down to -2000" constant are the model's.
* the parser's nesting limit the harness relies on for its "very deep" documents.
* `pin_*`: fingerprints of the normalised source of every function the C10 models transcribe or
  compose — in the repository (encoding/json, internal/encoding/json, cue/types.go appenders,
  the scanner's string lexing, NumInfo.decimal, UnaryExpr.evaluate, the CUE builtins, and the
  C09 functions behind `unquote`/`parseNum`), in Go's encoding/json (`appendString`) and in
  cockroachdb/apd (Append, fmtE, fmtF, setString, setExponent, SetString, Neg, Round).
-/
import CueVerif.Gen.C10
import CueVerif.Model.Json
namespace CueVerif.Bridge.C10
open CueVerif

/-- the regenerated `safeSet` lists exactly the code points 0x20..0x7F, in order -/
theorem safeSet_keys : Gen.C10.safeSet.map (·.1) = List.range' 32 96 := by decide

/-- on each of them it agrees with the model's `safeAscii` -/
theorem safeSet_eq : ∀ p ∈ Gen.C10.safeSet, Json.safeAscii p.1 = p.2 := by decide

/-- code points below 0x20 are not listed (array default `false`), and the model escapes them -/
theorem safeSet_controls : ∀ b, b < 32 → Json.safeAscii b = false := by
  intro b hb; simp [Json.safeAscii]; omega

theorem apd_limits : Gen.C10.apdMaxExponent = Json.apdMaxExponent ∧ Gen.C10.apdMinExponent = Json.apdMinExponent ∧
    Gen.C10.apdLowestZeroExp = -2000 := by decide

theorem parser_nest_limit : Gen.C10.parserMaxNestLevel = 10000 := by decide

theorem pin_encjson_Extract : Gen.C10.pin_encjson_Extract = "f202da04c04aa001" := by decide
theorem pin_encjson_extract : Gen.C10.pin_encjson_extract = "d7f9f6146ca02e1c" := by decide
theorem pin_encjson_NewDecoder : Gen.C10.pin_encjson_NewDecoder = "718e78aff9e02950" := by decide
theorem pin_encjson_Decoder_Extract : Gen.C10.pin_encjson_Decoder_Extract = "d34315d1d228a8b8" := by decide
theorem pin_encjson_Decoder_extract : Gen.C10.pin_encjson_Decoder_extract = "8abd6f8ec76898aa" := by decide
theorem pin_encjson_Decoder_patchPos : Gen.C10.pin_encjson_Decoder_patchPos = "fcaaad333e5ee4df" := by decide
theorem pin_intjson_Marshal : Gen.C10.pin_intjson_Marshal = "4a0f73266f10cd69" := by decide
theorem pin_intjson_PatchExpr : Gen.C10.pin_intjson_PatchExpr = "c3b8318ad223e020" := by decide
theorem pin_intjson_hasSpaces : Gen.C10.pin_intjson_hasSpaces = "45bf7992c6f9a803" := by decide
theorem pin_cue_Value_MarshalJSON : Gen.C10.pin_cue_Value_MarshalJSON = "c119efe777c4c639" := by decide
theorem pin_cue_Value_appendJSON : Gen.C10.pin_cue_Value_appendJSON = "bdf200d1b2ed2b14" := by decide
theorem pin_cue_structValue_appendJSON : Gen.C10.pin_cue_structValue_appendJSON = "c73afa3fb3e56a3b" := by decide
theorem pin_cue_listAppendJSON : Gen.C10.pin_cue_listAppendJSON = "975c4ce28ad58bce" := by decide
theorem pin_scanner_Scanner_scanString : Gen.C10.pin_scanner_Scanner_scanString = "983ef5dcdf6576cb" := by decide
theorem pin_scanner_Scanner_scanEscape : Gen.C10.pin_scanner_Scanner_scanEscape = "797f428a147aef6f" := by decide
theorem pin_scanner_Scanner_next : Gen.C10.pin_scanner_Scanner_next = "4dd23fe72be50da9" := by decide
theorem pin_literal_NumInfo_decimal : Gen.C10.pin_literal_NumInfo_decimal = "aca1b0e83663d828" := by decide
theorem pin_literal_NumInfo_Decimal : Gen.C10.pin_literal_NumInfo_Decimal = "8cfcbed371c9b5b7" := by decide
theorem pin_adt_UnaryExpr_evaluate : Gen.C10.pin_adt_UnaryExpr_evaluate = "ad1448027c0e3bcb" := by decide
theorem pin_literal_Unquote : Gen.C10.pin_literal_Unquote = "7b1fcfe81d6cf8c0" := by decide
theorem pin_literal_ParseQuotes : Gen.C10.pin_literal_ParseQuotes = "1a310404c68d538c" := by decide
theorem pin_literal_QuoteInfo_Unquote : Gen.C10.pin_literal_QuoteInfo_Unquote = "3ece8a915cb385ba" := by decide
theorem pin_literal_hasClosingDelimPrefix : Gen.C10.pin_literal_hasClosingDelimPrefix = "85d7628bc292aca8" := by decide
theorem pin_literal_skipWhitespaceAfterNewline : Gen.C10.pin_literal_skipWhitespaceAfterNewline = "d005110dccadd904" := by decide
theorem pin_literal_isSimple : Gen.C10.pin_literal_isSimple = "0526fd3c4a39e411" := by decide
theorem pin_literal_unquoteChar : Gen.C10.pin_literal_unquoteChar = "eab3a8cb37686ae3" := by decide
theorem pin_literal_unhex : Gen.C10.pin_literal_unhex = "e828f60dd9a61aa5" := by decide
theorem pin_literal_ParseNum : Gen.C10.pin_literal_ParseNum = "f62ad6ae0fe132dc" := by decide
theorem pin_literal_NumInfo_next : Gen.C10.pin_literal_NumInfo_next = "fec08a8bae3fc87b" := by decide
theorem pin_literal_NumInfo_digitVal : Gen.C10.pin_literal_NumInfo_digitVal = "b72d7578cbdf111a" := by decide
theorem pin_literal_NumInfo_scanMantissa : Gen.C10.pin_literal_NumInfo_scanMantissa = "8f02c5a2db5ecd93" := by decide
theorem pin_literal_NumInfo_scanNumber : Gen.C10.pin_literal_NumInfo_scanNumber = "a20a9ef43ec46211" := by decide
theorem pin_scanner_Scanner_scanNumber : Gen.C10.pin_scanner_Scanner_scanNumber = "e16e2044fdc3af71" := by decide
theorem pin_scanner_Scanner_scanMantissa : Gen.C10.pin_scanner_Scanner_scanMantissa = "d6c742f674995ae6" := by decide
theorem pin_pkgjson_Marshal : Gen.C10.pin_pkgjson_Marshal = "65b3ee95f457ab93" := by decide
theorem pin_pkgjson_MarshalStream : Gen.C10.pin_pkgjson_MarshalStream = "fc55323b44aca028" := by decide
theorem pin_pkgjson_Unmarshal : Gen.C10.pin_pkgjson_Unmarshal = "659c54ac187d445f" := by decide
theorem pin_pkgjson_UnmarshalStream : Gen.C10.pin_pkgjson_UnmarshalStream = "4eecab088aa6d95c" := by decide
theorem pin_stdjson_appendString : Gen.C10.pin_stdjson_appendString = "62c0a9ab1945d55d" := by decide
theorem pin_apd_Decimal_Append : Gen.C10.pin_apd_Decimal_Append = "cfd3bd90f2f28473" := by decide
theorem pin_apd_fmtE : Gen.C10.pin_apd_fmtE = "788149eda2f0f080" := by decide
theorem pin_apd_fmtF : Gen.C10.pin_apd_fmtF = "cc23cd99169f8061" := by decide
theorem pin_apd_Decimal_setString : Gen.C10.pin_apd_Decimal_setString = "6f5cbc31068a7b0e" := by decide
theorem pin_apd_Decimal_setExponent : Gen.C10.pin_apd_Decimal_setExponent = "9eecb04fa4c309fb" := by decide
theorem pin_apd_Context_SetString : Gen.C10.pin_apd_Context_SetString = "3f21482eeda1c71c" := by decide
theorem pin_apd_Decimal_SetString : Gen.C10.pin_apd_Decimal_SetString = "d74f67213545ec10" := by decide
theorem pin_apd_Decimal_UnmarshalText : Gen.C10.pin_apd_Decimal_UnmarshalText = "a5d924b31a5e8957" := by decide
theorem pin_apd_Decimal_Neg : Gen.C10.pin_apd_Decimal_Neg = "b36a2f4862b3204a" := by decide
theorem pin_apd_Rounder_Round : Gen.C10.pin_apd_Rounder_Round = "6b169e4de3ca017d" := by decide

end CueVerif.Bridge.C10
