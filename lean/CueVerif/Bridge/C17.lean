/-
Bridge for C17: fingerprints (regenerated from /repo on every run as CueVerif.Gen.C17) of the
normalised source of every function the hand models transcribe: Model/Tidy.lean (modload,
modpkgload, modrequirements, modimports), Model/Modfile.lean (modfile, modfiledata) and the CLI
entry point the harness mirrors (cmd/cue/cmd.runModTidy).  The models were validated by
correspondence against exactly these versions.
-/
import CueVerif.Gen.C17
namespace CueVerif.Bridge.C17
open CueVerif

theorem pin_modload_tidy : Gen.C17.pin_modload_tidy = "c2f586c4d7605d7e" := by decide
theorem pin_modload_loader_tidyOnce : Gen.C17.pin_modload_loader_tidyOnce = "f7032ae09963f788" := by decide
theorem pin_modload_loader_resolveDependencies : Gen.C17.pin_modload_loader_resolveDependencies = "5de029eb8d8c8b62" := by decide
theorem pin_modload_loader_resolveMissingImports : Gen.C17.pin_modload_loader_resolveMissingImports = "963c3040770894b0" := by decide
theorem pin_modload_loader_updateRoots : Gen.C17.pin_modload_loader_updateRoots = "08bdfd5e711c382d" := by decide
theorem pin_modload_loader_tidyRoots : Gen.C17.pin_modload_loader_tidyRoots = "c06070f3fb1e6038" := by decide
theorem pin_modload_keepImpliedDefaults : Gen.C17.pin_modload_keepImpliedDefaults = "c8881a8d433ced9e" := by decide
theorem pin_modload_modfileFromRequirements : Gen.C17.pin_modload_modfileFromRequirements = "5d5423764d898ba3" := by decide
theorem pin_modload_equalRequirements : Gen.C17.pin_modload_equalRequirements = "93c7b7eea67cc542" := by decide
theorem pin_modload_mergeRequirements : Gen.C17.pin_modload_mergeRequirements = "b3d3e5c28d9dc855" := by decide
theorem pin_modload_loader_queryImport : Gen.C17.pin_modload_loader_queryImport = "c8ef035ba6f0289d" := by decide
theorem pin_modload_loader_queryLatestModules : Gen.C17.pin_modload_loader_queryLatestModules = "2231f59303defef0" := by decide
theorem pin_modload_LatestVersion : Gen.C17.pin_modload_LatestVersion = "c264105b71fb3811" := by decide
theorem pin_modload_loader_shouldIncludePkgFile : Gen.C17.pin_modload_loader_shouldIncludePkgFile = "2796c92644cb99cb" := by decide
theorem pin_modload_withoutIgnoredFiles : Gen.C17.pin_modload_withoutIgnoredFiles = "a77211007bd082a1" := by decide
theorem pin_modload_readPublishedModuleFile : Gen.C17.pin_modload_readPublishedModuleFile = "b12518f4e98761d2" := by decide
theorem pin_modpkgload_LoadPackages : Gen.C17.pin_modpkgload_LoadPackages = "bcbfdf9690c117d2" := by decide
theorem pin_modpkgload_Packages_load : Gen.C17.pin_modpkgload_Packages_load = "3c476827f948a07d" := by decide
theorem pin_modpkgload_Packages_addPkg : Gen.C17.pin_modpkgload_Packages_addPkg = "779f0055eff7401e" := by decide
theorem pin_modpkgload_Packages_applyPkgFlags : Gen.C17.pin_modpkgload_Packages_applyPkgFlags = "12145cc6db2632de" := by decide
theorem pin_modpkgload_Packages_buildStacks : Gen.C17.pin_modpkgload_Packages_buildStacks = "f09ba35413dee7b5" := by decide
theorem pin_modpkgload_Packages_importFromModules : Gen.C17.pin_modpkgload_Packages_importFromModules = "5d3e27c4696931ae" := by decide
theorem pin_modpkgload_FindPackageLocations : Gen.C17.pin_modpkgload_FindPackageLocations = "f6e400d197c7cee7" := by decide
theorem pin_modpkgload_locInModule : Gen.C17.pin_modpkgload_locInModule = "4cc2b4506de6d850" := by decide
theorem pin_modpkgload_Packages_fetch : Gen.C17.pin_modpkgload_Packages_fetch = "5240d5f28821b091" := by decide
theorem pin_modpkgload_pathAncestors : Gen.C17.pin_modpkgload_pathAncestors = "ba629f80fa0e0732" := by decide
theorem pin_modpkgload_IsStdlibPackage : Gen.C17.pin_modpkgload_IsStdlibPackage = "b46fdbfab49ac550" := by decide
theorem pin_modrequirements_NewRequirements : Gen.C17.pin_modrequirements_NewRequirements = "d873cd55fff924b1" := by decide
theorem pin_modrequirements_Requirements_WithDefaultMajorVersions : Gen.C17.pin_modrequirements_Requirements_WithDefaultMajorVersions = "8a073e46c349cfd3" := by decide
theorem pin_modrequirements_Requirements_initDefaultMajorVersions : Gen.C17.pin_modrequirements_Requirements_initDefaultMajorVersions = "777b73c11e2a9ec3" := by decide
theorem pin_modrequirements_Requirements_RootSelected : Gen.C17.pin_modrequirements_Requirements_RootSelected = "3a5112ecab33dc60" := by decide
theorem pin_modrequirements_Requirements_DefaultMajorVersion : Gen.C17.pin_modrequirements_Requirements_DefaultMajorVersion = "9d99323c30c2149c" := by decide
theorem pin_modrequirements_Requirements_DependencyDefaultMajorVersion : Gen.C17.pin_modrequirements_Requirements_DependencyDefaultMajorVersion = "3b9679c5344f441b" := by decide
theorem pin_modrequirements_Requirements_readModGraph : Gen.C17.pin_modrequirements_Requirements_readModGraph = "df0a79d42396c97c" := by decide
theorem pin_modrequirements_Requirements_Graph : Gen.C17.pin_modrequirements_Requirements_Graph = "c1d156011aae530b" := by decide
theorem pin_modrequirements_ModuleGraph_Selected : Gen.C17.pin_modrequirements_ModuleGraph_Selected = "3ebd300a30a2807d" := by decide
theorem pin_modrequirements_cmpVersion : Gen.C17.pin_modrequirements_cmpVersion = "0b033df76a48c581" := by decide
theorem pin_modimports_AllImports : Gen.C17.pin_modimports_AllImports = "a4cbd1da483dbb18" := by decide
theorem pin_modimports_PackageFiles : Gen.C17.pin_modimports_PackageFiles = "ac4937d807ee9499" := by decide
theorem pin_modimports_AllModuleFiles : Gen.C17.pin_modimports_AllModuleFiles = "6c45cbff217c4d7f" := by decide
theorem pin_modimports_yieldAllModFiles : Gen.C17.pin_modimports_yieldAllModFiles = "16a1f7e93e0dcd75" := by decide
theorem pin_modfiledata_File_init : Gen.C17.pin_modfiledata_File_init = "db0970ff56007b86" := by decide
theorem pin_modfiledata_File_QualifiedModule : Gen.C17.pin_modfiledata_File_QualifiedModule = "b0a212c52bf34634" := by decide
theorem pin_modfiledata_File_DepVersions : Gen.C17.pin_modfiledata_File_DepVersions = "0f63c0df6d2bfc04" := by decide
theorem pin_modfiledata_File_DefaultMajorVersions : Gen.C17.pin_modfiledata_File_DefaultMajorVersions = "d718c3ac131e5b06" := by decide
theorem pin_modfile_Parse : Gen.C17.pin_modfile_Parse = "e64304c37b46f173" := by decide
theorem pin_modfile_ParseNonStrict : Gen.C17.pin_modfile_ParseNonStrict = "70a7a7a57e4f53c8" := by decide
theorem pin_modfile_parse : Gen.C17.pin_modfile_parse = "6df114fbba760df0" := by decide
theorem pin_modfile_Format : Gen.C17.pin_modfile_Format = "ad06e05950acf7ee" := by decide
theorem pin_cmd_runModTidy : Gen.C17.pin_cmd_runModTidy = "1894f77fbe5580ba" := by decide

end CueVerif.Bridge.C17
