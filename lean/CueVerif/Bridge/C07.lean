/-
Bridge for C07: facts regenerated from /repo (CueVerif.Gen.C07) versus the hand model
(CueVerif.Model.Export, and C03's Model.Scalar for the predeclared ranges).  Tables are compared
cell by cell; `pin_*` are fingerprints of the normalised source of the functions the model
transcribes by hand (or that the harness drives as entry points) — the model was validated
(correspondence, notes/C07.md) against exactly these versions.
-/
import CueVerif.Gen.C07
import CueVerif.Model.Export
namespace CueVerif.Bridge.C07
open CueVerif CueVerif.Scalar CueVerif.Export

/-! ### adt.Kind constants used by `boundSimplifier.add` / `MatchBuiltinRange` -/
theorem kinds : Gen.C07.IntKind = (Kind.int : Nat) ∧ Gen.C07.ScalarKinds = (scalarKinds : Nat) := by decide

/-! ### builtinrange.go: the model's tables are the code's tables (names, numbers, order) -/
theorem intRanges_eq :
    Gen.C07.intRanges.map (fun r => BuiltinRange.mk r.1 (Dec.ofInt r.2.1) (Dec.ofInt r.2.2)) =
      intBuiltinRanges := by decide

theorem floatRanges_eq :
    Gen.C07.floatRanges.map (fun r => BuiltinRange.mk r.1 ⟨r.2.1.1, r.2.1.2⟩ ⟨r.2.2.1, r.2.2.2⟩) =
      floatBuiltinRanges := by decide

/-! ### compile/predeclared.go: what the printed identifier means when it is read back is C03's
`Range` (`intSpec` / `floatMax`), under the spelling `Range.name` -/
def rangeEntry (r : Range) : String × String × Int × Int :=
  match r.intSpec with
  | none => (Range.name r, "float", r.floatMax.coeff, r.floatMax.exp)
  | some (lo, some hi) => (Range.name r, "int", lo, hi)
  | some (_, none) => (Range.name r, "uint", 0, 0)

theorem predefinedRanges_eq :
    Gen.C07.predefinedRanges =
      [Range.float32, .float64, .int128, .int16, .int32, .int64, .int8, .rune, .uint, .uint128,
       .uint16, .uint32, .uint64, .uint8].map rangeEntry := by decide

/-! ### the two tables of the SOURCE agree with each other (complete tables, by `decide`):
every row of builtinrange.go is the row of the same name of predefinedRanges with the same
numbers; `rune` has no row (so it is never printed) -/
theorem int_rows_predeclared :
    Gen.C07.intRanges.all (fun r => Gen.C07.predefinedRanges.contains (r.1, "int", r.2.1, r.2.2)) = true := by
  decide

theorem float_rows_predeclared :
    Gen.C07.floatRanges.all (fun r =>
      Gen.C07.predefinedRanges.contains (r.1, "float", r.2.2.1, r.2.2.2) &&
      r.2.1.1 == - r.2.2.1 && r.2.1.2 == r.2.2.2) = true := by
  decide

theorem no_rune_row :
    (Gen.C07.intRanges.map (·.1) ++ Gen.C07.floatRanges.map (·.1)).all (· != "rune") = true := by decide

/-- every sized predeclared range except `rune` has a row (nothing printable is missed) -/
theorem rows_complete :
    (Gen.C07.predefinedRanges.filter (fun r => r.2.1 != "uint" && r.1 != "rune")).all (fun r =>
      (Gen.C07.floatRanges.map (·.1) ++ Gen.C07.intRanges.map (·.1)).contains r.1) = true := by decide

/-! ### fingerprints -/
theorem pin_adt_MatchBuiltinRange : Gen.C07.pin_adt_MatchBuiltinRange = "6fbda06bbf9744ff" := by decide
theorem pin_adt_mustDec : Gen.C07.pin_adt_mustDec = "848bdb3845cb7825" := by decide
theorem pin_adt_BoundValue_Kind : Gen.C07.pin_adt_BoundValue_Kind = "fc65d3abf272dcaa" := by decide
theorem pin_adt_MakeIdentLabel : Gen.C07.pin_adt_MakeIdentLabel = "3a20dd3dfb38fb4a" := by decide
theorem pin_export_boundSimplifier_add : Gen.C07.pin_export_boundSimplifier_add = "d10a5f3492528d7d" := by decide
theorem pin_export_boundSimplifier_expr : Gen.C07.pin_export_boundSimplifier_expr = "1b98906d828b11dc" := by decide
theorem pin_export_wrapBin : Gen.C07.pin_export_wrapBin = "ab44f6442afd03d4" := by decide
theorem pin_export_exporter_stringLabel : Gen.C07.pin_export_exporter_stringLabel = "6c2ef819378900d4" := by decide
theorem pin_export_exporter_boundValue : Gen.C07.pin_export_exporter_boundValue = "25682c03e7135c2d" := by decide
theorem pin_export_exporter_num : Gen.C07.pin_export_exporter_num = "0b799d352730a988" := by decide
theorem pin_export_exporter_listComposite : Gen.C07.pin_export_exporter_listComposite = "757ac087d2ed28f1" := by decide
theorem pin_export_exporter_structComposite : Gen.C07.pin_export_exporter_structComposite = "4ac7cac16e9a451a" := by decide
theorem pin_export_exporter_vertex : Gen.C07.pin_export_exporter_vertex = "83c2267878d0f7b6" := by decide
theorem pin_export_Profile_Vertex : Gen.C07.pin_export_Profile_Vertex = "6f632b0e1de46076" := by decide
theorem pin_export_Profile_Def : Gen.C07.pin_export_Profile_Def = "dbec4570e288c2cb" := by decide
theorem pin_export_exporter_value_case_Conjunction : Gen.C07.pin_export_exporter_value_case_Conjunction = "93a4621608a7eb52" := by decide
theorem pin_export_exporter_value_case_Disjunction : Gen.C07.pin_export_exporter_value_case_Disjunction = "4af6d98441bee49e" := by decide
theorem pin_ast_NewStringLabel : Gen.C07.pin_ast_NewStringLabel = "9cfae78901d1695f" := by decide
theorem pin_ast_StringLabelNeedsQuoting : Gen.C07.pin_ast_StringLabelNeedsQuoting = "8e5531b8cb8df961" := by decide
theorem pin_ast_NewString : Gen.C07.pin_ast_NewString = "74737a73f6f38f24" := by decide
theorem pin_ast_IsValidIdent : Gen.C07.pin_ast_IsValidIdent = "da53dfe8880f02f2" := by decide
theorem pin_ast_NewBinExpr : Gen.C07.pin_ast_NewBinExpr = "e353bdd537a12679" := by decide
theorem pin_compile_compiler_label : Gen.C07.pin_compile_compiler_label = "41c27da0a7ccab57" := by decide
theorem pin_cue_Value_Syntax : Gen.C07.pin_cue_Value_Syntax = "7e6120eee295b400" := by decide
theorem pin_cue_Final : Gen.C07.pin_cue_Final = "be07c109362e2a7e" := by decide
theorem pin_cue_Concrete : Gen.C07.pin_cue_Concrete = "d4042096263fef42" := by decide
theorem pin_cue_All : Gen.C07.pin_cue_All = "e9911699a555f3bb" := by decide
theorem pin_cue_Hidden : Gen.C07.pin_cue_Hidden = "c1e8921d91f802ef" := by decide
theorem pin_cue_Definitions : Gen.C07.pin_cue_Definitions = "58842d95ad29da25" := by decide
theorem pin_cue_Optional : Gen.C07.pin_cue_Optional = "db08516d4eb87408" := by decide
theorem pin_cue_Attributes : Gen.C07.pin_cue_Attributes = "32088e5de2498d37" := by decide
theorem pin_cue_Docs : Gen.C07.pin_cue_Docs = "10ae63bb31109ff3" := by decide
theorem pin_cue_Raw : Gen.C07.pin_cue_Raw = "5c3e32c7f9c5d2fa" := by decide
theorem pin_cmd_runEval : Gen.C07.pin_cmd_runEval = "3a6c6ee5dc998abd" := by decide
theorem pin_encoding_NewEncoder : Gen.C07.pin_encoding_NewEncoder = "235d70a3abf52b88" := by decide

end CueVerif.Bridge.C07
