/-
Bridge for C06: facts regenerated from /repo (CueVerif.Gen.C06) versus the hand model
(Model/DecArith.lean, Model/NumVal.lean).  `pin_*` are fingerprints of the normalised source of
the functions the model transcribes; the model was validated (correspondence) against exactly
these versions.
-/
import CueVerif.Gen.C06
import CueVerif.Model.DecArith
import CueVerif.Model.NumVal
namespace CueVerif.Bridge.C06
open CueVerif

/-- `internal.BaseContext` has the precision the model rounds to -/
theorem basePrecision_eq : Gen.C06.basePrecision = Arith.prec := by decide
/-- … and is declared without a Rounding (apd default: half up, as `Arith.round`) -/
theorem baseContextSrc_eq : Gen.C06.baseContextSrc = "Context{*apd.BaseContext.WithPrecision(34)}" := by decide
/-- the literal package's own context (now only used for `RoundToIntegralExact`, which does not
depend on the precision) -/
theorem litPrecision_eq : Gen.C06.litPrecision = Arith.prec := by decide
theorem litContextAssigns_eq :
    Gen.C06.litContextAssigns = ["baseContext = apd.BaseContext", "baseContext.Precision = 34"] := by decide
/-- the version of cockroachdb/apd whose contract (`round`, `quoRound`, exponent window, `fmtG`)
the model states -/
theorem apdVersion_eq : Gen.C06.apdVersion = "v3.2.3" := by decide

/-- `+ - * /` go through `internal.BaseContext` -/
theorem arithCtx_eq : Gen.C06.arithCtx =
    [("Add", "internal.BaseContext.Add"), ("Sub", "internal.BaseContext.Sub"),
     ("Mul", "internal.BaseContext.Mul"), ("Quo", "internal.BaseContext.Quo"),
     ("Pow", "internal.BaseContext.Pow")] := by decide

/-- `div mod quo rem` use big.Int `Div Mod` (Euclidean) and `Quo Rem` (truncated), as `Arith.intFn` -/
theorem intDivTable_eq : Gen.C06.intDivTable =
    [("IntDiv", "(*apd.BigInt).Div"), ("IntMod", "(*apd.BigInt).Mod"),
     ("IntQuo", "(*apd.BigInt).Quo"), ("IntRem", "(*apd.BigInt).Rem")] := by decide

theorem builtinTable_eq : Gen.C06.builtinTable =
    [("\"div\"", "[]adt.Param{intParam, intParam}", "adt.IntKind", "(*adt.OpContext).IntDiv call.Value(0) call.Value(1)"),
     ("\"mod\"", "[]adt.Param{intParam, intParam}", "adt.IntKind", "(*adt.OpContext).IntMod call.Value(0) call.Value(1)"),
     ("\"quo\"", "[]adt.Param{intParam, intParam}", "adt.IntKind", "(*adt.OpContext).IntQuo call.Value(0) call.Value(1)"),
     ("\"rem\"", "[]adt.Param{intParam, intParam}", "adt.IntKind", "(*adt.OpContext).IntRem call.Value(0) call.Value(1)")] := by decide

/-- the comparison table of `cmpTonode`, read as a function of the three-way result -/
def cmpRow (op : Arith.COp) : String × String :=
  match op with
  | .lt => ("LessThanOp", "r == -1")
  | .le => ("LessEqualOp", "r != 1")
  | .eq => ("EqualOp", "r == 0")
  | .ne => ("NotEqualOp", "r != 0")
  | .ge => ("GreaterEqualOp", "r != -1")
  | .gt => ("GreaterThanOp", "r == 1")

/-- meaning of the six source expressions over r ∈ {-1, 0, 1} -/
def evalRow (e : String) (r : Ordering) : Bool :=
  let v : Int := match r with | .lt => -1 | .eq => 0 | .gt => 1
  if e == "r == -1" then v == -1 else if e == "r != 1" then v != 1
  else if e == "r == 0" then v == 0 else if e == "r != 0" then v != 0
  else if e == "r != -1" then v != -1 else if e == "r == 1" then v == 1 else false

theorem cmpTonode_rows (op : Arith.COp) : cmpRow op ∈ Gen.C06.cmpTonode := by
  cases op <;> decide

theorem cmpTonode_eq (op : Arith.COp) (r : Ordering) :
    evalRow (cmpRow op).2 r = Arith.cmpTonode op r := by
  cases op <;> cases r <;> decide

/-- multiplier letters and their ranks (K M G T P are the ones the scanner admits) -/
theorem charToMul_eq : Gen.C06.charToMul =
    [(75, 1), (77, 2), (71, 3), (84, 4), (80, 5), (69, 6), (90, 7), (89, 8)] := by decide

theorem mulIndex_eq : ∀ p ∈ Gen.C06.charToMul, p.2 ≤ 5 → NumVal.mulIndex p.1 = p.2 := by decide

/-- SI multipliers are powers of 1000, IEC multipliers powers of 1024 (`NumVal.mulValue`) -/
theorem mulToRatInit_eq : Gen.C06.mulToRatInit =
    ["d := apd.New(1, 0)", "b := apd.New(1, 0)", "dm := apd.New(1000, 0)", "bm := apd.New(1024, 0)",
     "i := Multiplier(1); int(i) < len(charToMul); i++", "c.Mul(&dn, d, dm)", "c.Mul(&bn, b, bm)",
     "mulToRat[mulDec|i] = d", "mulToRat[mulBin|i] = b"] := by decide

/-- `NumInfo.decimal` returns the error of `UnmarshalText` (out-of-window exponents, no mantissa
digits): the model's `litExp = none ↦ .err` and `bareZeroMul ↦ .err` (since /repo 1674508) -/
theorem unmarshalStmt_eq : Gen.C06.unmarshalStmt =
    "if err := v.UnmarshalText(p.buf); err != nil { return p.errorf(\"invalid number: %v\", err) }" := by decide

/-- the multiplier product is computed with apd's unlimited-precision context: exact, as
`NumVal.decValue` (`Dec.mul`, no rounding) since /repo 06ced89 -/
theorem mulCall_eq : Gen.C06.mulCall = "apd.BaseContext.Mul(v, v, mulToRat[p.mul])" := by decide

theorem mulValue_eq (i : Nat) : NumVal.mulValue i false = 1000 ^ i ∧ NumVal.mulValue i true = 1024 ^ i := by
  simp [NumVal.mulValue]

theorem pin_adt_numOp : Gen.C06.pin_adt_numOp = "ced31eb6c138026a" := by decide
theorem pin_adt_intDivOp : Gen.C06.pin_adt_intDivOp = "135559593d8dba16" := by decide
theorem pin_adt_OpContext_Add : Gen.C06.pin_adt_OpContext_Add = "7036aadbe8bd463a" := by decide
theorem pin_adt_OpContext_Sub : Gen.C06.pin_adt_OpContext_Sub = "a072e2e6deff0b54" := by decide
theorem pin_adt_OpContext_Mul : Gen.C06.pin_adt_OpContext_Mul = "2bfd6c8f11fa750c" := by decide
theorem pin_adt_OpContext_Quo : Gen.C06.pin_adt_OpContext_Quo = "6b6b281138879512" := by decide
theorem pin_adt_OpContext_IntDiv : Gen.C06.pin_adt_OpContext_IntDiv = "e95272c1517ddf8a" := by decide
theorem pin_adt_OpContext_IntMod : Gen.C06.pin_adt_OpContext_IntMod = "21c4eed913e7ae6a" := by decide
theorem pin_adt_OpContext_IntQuo : Gen.C06.pin_adt_OpContext_IntQuo = "0a4572b497b066b1" := by decide
theorem pin_adt_OpContext_IntRem : Gen.C06.pin_adt_OpContext_IntRem = "41aa00b480f9762d" := by decide
theorem pin_adt_BinOp : Gen.C06.pin_adt_BinOp = "3e59a3ba75fe3a9b" := by decide
theorem pin_adt_cmpTonode : Gen.C06.pin_adt_cmpTonode = "b3615dae370638bb" := by decide
theorem pin_adt_OpContext_newNum : Gen.C06.pin_adt_OpContext_newNum = "657b12e052ea130f" := by decide
theorem pin_adt_UnaryExpr_evaluate : Gen.C06.pin_adt_UnaryExpr_evaluate = "ad1448027c0e3bcb" := by decide
theorem pin_adt_Num_Cmp : Gen.C06.pin_adt_Num_Cmp = "795f4e83ae9b565c" := by decide
theorem pin_internal_reduceKeepingFloats : Gen.C06.pin_internal_reduceKeepingFloats = "9706c7d675af4cbc" := by decide
theorem pin_internal_Context_Quo : Gen.C06.pin_internal_Context_Quo = "aa11236fac125b0d" := by decide
theorem pin_literal_NumInfo_decimal : Gen.C06.pin_literal_NumInfo_decimal = "aca1b0e83663d828" := by decide
theorem pin_literal_ParseNum : Gen.C06.pin_literal_ParseNum = "f62ad6ae0fe132dc" := by decide
theorem pin_literal_NumInfo_scanNumber : Gen.C06.pin_literal_NumInfo_scanNumber = "a20a9ef43ec46211" := by decide
theorem pin_literal_NumInfo_scanMantissa : Gen.C06.pin_literal_NumInfo_scanMantissa = "8f02c5a2db5ecd93" := by decide
theorem pin_literal_NumInfo_next : Gen.C06.pin_literal_NumInfo_next = "fec08a8bae3fc87b" := by decide
theorem pin_compile_intDivOp : Gen.C06.pin_compile_intDivOp = "01f89247371afec8" := by decide
theorem pin_compile_compiler_parse : Gen.C06.pin_compile_compiler_parse = "903a4b0507a82bf6" := by decide
theorem pin_export_exporter_num : Gen.C06.pin_export_exporter_num = "0b799d352730a988" := by decide
theorem pin_math_Floor : Gen.C06.pin_math_Floor = "51c4ecb8ebe6f19d" := by decide
theorem pin_math_Ceil : Gen.C06.pin_math_Ceil = "95a32502de5b776c" := by decide
theorem pin_math_Trunc : Gen.C06.pin_math_Trunc = "0fc44e1df060b560" := by decide
theorem pin_math_Round : Gen.C06.pin_math_Round = "52eb66d1a6d0b8c7" := by decide
theorem pin_math_RoundToEven : Gen.C06.pin_math_RoundToEven = "fd426251360f32a1" := by decide
theorem pin_math_toInt : Gen.C06.pin_math_toInt = "ad39c1aba6704d06" := by decide
theorem pin_math_MultipleOf : Gen.C06.pin_math_MultipleOf = "6cbea9504170d2e1" := by decide
theorem pin_math_Abs : Gen.C06.pin_math_Abs = "afb397890ef3c937" := by decide
theorem pin_math_Pow : Gen.C06.pin_math_Pow = "7c0c1a1a648594ca" := by decide

end CueVerif.Bridge.C06
