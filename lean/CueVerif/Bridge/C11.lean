/-
C11 — bridge: the facts regenerated from the working tree (Gen/C11.lean) are the tables the
model uses; the hand-transcribed decision functions are pinned.
-/
import CueVerif.Gen.C11
import CueVerif.Model.Yaml
import CueVerif.Bridge.C11Loops
namespace CueVerif.Bridge.C11
open CueVerif
open CueVerif.Quote (Bytes decodeRune)

theorem legacyStrings_eq : Gen.C11.legacyStrings = Yaml.legacyStrings := by decide
theorem specialFloats_eq : Gen.C11.specialFloats = Yaml.specialFloats := by decide
theorem nonStringStarts_eq : Gen.C11.nonStringStarts = Yaml.nonStringStarts := by decide
theorem regexpStarts_eq : Gen.C11.regexpStarts = Yaml.regexpStarts := by decide
theorem unprintableRune_eq (r : Nat) : Gen.C11.unprintableRune r = Yaml.unprintableRune r := rfl

-- regexp source texts (the `RE` terms of the model are written next to these texts and are
-- cross-checked against Go's regexp engine on every run)
theorem re_useQuote_eq : Gen.C11.re_useQuote = Yaml.srcUseQuote := by decide
theorem re_anyOctal_eq : Gen.C11.re_rxAnyOctalYaml11 = Yaml.srcAnyOctal := by decide
theorem re_yamlInt_eq : Gen.C11.re_rxYamlInt = Yaml.srcYamlInt := by decide
theorem re_yamlFloat_eq : Gen.C11.re_rxYamlFloat = Yaml.srcYamlFloat := by decide

-- the yaml.v3 based encoder has its own copies of the table and of two regexps
theorem legacyStringsV3_eq : Gen.C11.legacyStringsV3 = Yaml.legacyStrings := by decide
theorem re_useQuoteV3_eq : Gen.C11.re_useQuoteV3 = Yaml.srcUseQuote := by decide
theorem re_anyOctalV3_eq : Gen.C11.re_rxAnyOctalYaml11V3 = Yaml.srcAnyOctal := by decide

/-! ### TRANSLATED functions (extract/lib_loops.go): the definition regenerated from the Go source
on every run equals the model's function for ALL inputs (proofs: Bridge/C11Loops.lean).  The
externs of a translated function (regexp matchers, tables, `unicode.IsPrint`, the UTF-8
decoder, the lexer-reading `decodesAsNonString`, `strconv.Quote`) are instantiated with the
model's counterparts; `P`, `lx`, `q` stay universally quantified. -/

theorem needsSingleQuoting_eq (s : Bytes) : Gen.C11.needsSingleQuoting s = Yaml.needsSingleQuoting s :=
  C11Loops.needsSingleQuoting_eq s
theorem singleQuoted_eq (s : Bytes) : Gen.C11.singleQuoted s = Yaml.singleQuoted s := C11Loops.singleQuoted_eq s
theorem yamlUnprintable_eq (P : Yaml.IsPrint) (s : Bytes) :
    Gen.C11.yamlUnprintable decodeRune P s = Yaml.yamlUnprintable P s := C11Loops.yamlUnprintable_eq P s
theorem blockLiteralSafe_eq (P : Yaml.IsPrint) (s : Bytes) :
    Gen.C11.blockLiteralSafe decodeRune P s = Yaml.blockLiteralSafe P s := C11Loops.blockLiteralSafe_eq P s
theorem shouldQuote_eq (P : Yaml.IsPrint) (lx : Yaml.Lex) (s : Bytes) :
    Gen.C11.shouldQuote (fun x => Yaml.legacyStrings.contains x) Yaml.reUseQuote.matches Yaml.reAnyOctal.matches
      (Yaml.decodesAsNonString lx) decodeRune P s = Yaml.shouldQuote P lx s := C11Loops.shouldQuote_eq P lx s
theorem quoteScalar_eq (P : Yaml.IsPrint) (lx : Yaml.Lex) (q : Bytes → Bytes) (s : Bytes) :
    Gen.C11.quoteScalar (fun x => Yaml.legacyStrings.contains x) Yaml.reUseQuote.matches Yaml.reAnyOctal.matches
      (Yaml.decodesAsNonString lx) decodeRune P q s = (Yaml.quoteScalar P lx s).text q s :=
  C11Loops.quoteScalar_eq P lx q s
theorem token_codes : Gen.C11.token_ILLEGAL = Yaml.NumKind.illegal.code ∧ Gen.C11.token_INT = Yaml.NumKind.int.code ∧
    Gen.C11.token_FLOAT = Yaml.NumKind.float.code := C11Loops.token_codes
theorem numberKind_eq (s : Bytes) :
    Gen.C11.numberKind Yaml.reYamlInt.matches Yaml.reYamlFloat.matches s = (Yaml.numberKind s).code :=
  C11Loops.numberKind_eq s
theorem yaml11OctalToCUE_eq (v : Bytes) : Gen.C11.yaml11OctalToCUE decodeRune v = Yaml.yaml11OctalToCUE v :=
  C11Loops.yaml11OctalToCUE_eq v
theorem shouldQuoteV3_eq (s : Bytes) :
    Gen.C11.shouldQuoteV3 (fun x => Yaml.legacyStrings.contains x) Yaml.reUseQuote.matches s = Yaml.shouldQuoteV3 s :=
  C11Loops.shouldQuoteV3_eq s

-- pins (functions outside the translator's subset): internal/encoding/yaml/goccy/encode.go
theorem pin_encodeScalar : Gen.C11.pin_goccy_encodeScalar = "3837b5b0de11071f" := by decide
theorem pin_decodesAsNonString : Gen.C11.pin_goccy_decodesAsNonString = "fce33d44bc451f0c" := by decide
theorem pin_isNumberTokenType : Gen.C11.pin_goccy_isNumberTokenType = "1f4ccb8487617f00" := by decide
theorem pin_singleToken : Gen.C11.pin_goccy_singleToken = "5eb573f128974522" := by decide
theorem pin_yamlNumber : Gen.C11.pin_goccy_yamlNumber = "51c3370d9e08cdcc" := by decide
theorem pin_yamlIsNumber : Gen.C11.pin_goccy_yamlIsNumber = "5c1ee1a7a2dba153" := by decide
theorem pin_stripBlankLinePadding : Gen.C11.pin_goccy_stripBlankLinePadding = "3539e521aed9ee58" := by decide
theorem pin_quoteFlowUnsafe : Gen.C11.pin_goccy_quoteFlowUnsafe = "5e1154290a11d44a" := by decide
-- pins: internal/encoding/yaml/goccy/decode.go
theorem pin_scalarString : Gen.C11.pin_goccy_decoder_scalarString = "e05d640919ced928" := by decide
theorem pin_intExpr : Gen.C11.pin_goccy_decoder_intExpr = "a90f71bd59409b7f" := by decide
theorem pin_floatExpr : Gen.C11.pin_goccy_decoder_floatExpr = "b2b6a9a3407f811f" := by decide
theorem pin_makeNum : Gen.C11.pin_goccy_decoder_makeNum = "436b7cab89d030f8" := by decide
theorem pin_infString : Gen.C11.pin_goccy_infString = "1c93ad253d010b41" := by decide
theorem pin_quotedString : Gen.C11.pin_goccy_decoder_quotedString = "74cf8f2814077c68" := by decide
theorem pin_integer : Gen.C11.pin_goccy_decoder_integer = "27e3d0f35cd862e6" := by decide
theorem pin_float : Gen.C11.pin_goccy_decoder_float = "292b4870de4f8bd4" := by decide
theorem pin_label : Gen.C11.pin_goccy_decoder_label = "38008d1c57404de1" := by decide
theorem pin_keyLabel : Gen.C11.pin_goccy_decoder_keyLabel = "10833b0a5340507c" := by decide
-- pins: internal/encoding/yaml/{encode,decode}.go (yaml.v3 based implementation)
theorem pin_v3_encodeScalar : Gen.C11.pin_yaml_encodeScalar = "12b84cf514f0b345" := by decide
theorem pin_v3_setNum : Gen.C11.pin_yaml_setNum = "cff38cd9a02c3e8f" := by decide
theorem pin_v3_scalar : Gen.C11.pin_yaml_decoder_scalar = "0447bd4421c208ca" := by decide
theorem pin_v3_label : Gen.C11.pin_yaml_decoder_label = "25b0794ad493fe35" := by decide

end CueVerif.Bridge.C11
