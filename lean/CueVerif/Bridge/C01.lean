/-
Bridge for C01. The evaluator (scheduler, sharing, typocheck, disjunct2: ~20k lines) is NOT
transcribed: the CueCore model (Model/Core.lean) is tied to it by correspondence (O-level op
`eval`) and the property is checked directly on the implementation (rearrangement predicate).
The pins below fingerprint the anchored entry points the property's mechanisms live in; a
changed pin says "this function is no longer the one the correspondence was validated
against" and makes the check search for a failing input.
-/
import CueVerif.Gen.C01
namespace CueVerif.Bridge.C01
open CueVerif

theorem pin_scheduleVertexConjuncts : Gen.C01.pin_adt_nodeContext_scheduleVertexConjuncts = "c079f5f0eddcdb68" := by decide
theorem pin_insertArc : Gen.C01.pin_adt_nodeContext_insertArc = "fea0d37dafe6ba42" := by decide
theorem pin_shareIfPossible : Gen.C01.pin_adt_nodeContext_shareIfPossible = "11c45d1f8b9e8ca5" := by decide
theorem pin_unshare : Gen.C01.pin_adt_nodeContext_unshare = "240570efcc03624d" := by decide
theorem pin_appendDisjunct : Gen.C01.pin_adt_appendDisjunct = "8b8814151ffd0e28" := by decide
theorem pin_updateArcType : Gen.C01.pin_adt_Vertex_updateArcType = "f682055c0ea63d3e" := by decide
theorem pin_addResolver : Gen.C01.pin_adt_nodeContext_addResolver = "790fb6e8c931de77" := by decide
theorem pin_processListLit : Gen.C01.pin_adt_processListLit = "bd2dae69b1f2c488" := by decide
theorem pin_checkTypos : Gen.C01.pin_adt_nodeContext_checkTypos = "2d2e6da9e8a67d4f" := by decide

end CueVerif.Bridge.C01
