/-
Bridge for C18: facts regenerated from /repo/tools/flow (CueVerif.Gen.C18) versus the model.
Translated facts are compared with the model's definitions; `pin_*` are fingerprints of the
normalised source of the functions transcribed by hand in Model/Flow.lean — the model was
validated (trace correspondence, DESIGN.md §C18) against exactly these versions.
-/
import CueVerif.Gen.C18
import CueVerif.Model.Flow
namespace CueVerif.Bridge.C18
open CueVerif CueVerif.Flow

/-- the numeric values of the `State` constants are the model's ranks -/
theorem state_order :
    Gen.C18.stateWaiting = (TState.waiting.rank : Int) ∧ Gen.C18.stateReady = (TState.ready.rank : Int) ∧
    Gen.C18.stateRunning = (TState.running.rank : Int) ∧ Gen.C18.stateTerminated = (TState.terminated.rank : Int) := by
  decide

/-- `Task.done` is the model's `doneRank`, on every numeric state -/
theorem done_eq (state : Nat) : Gen.C18.done state = doneRank state := by
  simp [Gen.C18.done, doneRank]

/-- hence on the four states: only Terminated is done -/
theorem done_states (st : TState) : Gen.C18.done st.rank = decide (st = .terminated) := by
  cases st <;> decide

/-- `Task.isReady` has the shape "every element of depTasks is done" (model: `isReady`) -/
theorem isReady_shape : Gen.C18.isReady_shape = "all depTasks done" := by decide

/-- `markReady` moves exactly Waiting tasks that are ready to Ready (model: `markReady`) -/
theorem markReady_states :
    Gen.C18.markReady_from = (TState.waiting.rank : Int) ∧ Gen.C18.markReady_to = (TState.ready.rank : Int) := by
  decide

/-- `runLoop` dispatches Ready → Running, marks a received completion Terminated, and loops
while no error is recorded (model: `dispatchOne`, `onComplete`, `loopHead`) -/
theorem runLoop_states :
    Gen.C18.dispatch_from = (TState.ready.rank : Int) ∧ Gen.C18.dispatch_to = (TState.running.rank : Int) ∧
    Gen.C18.complete_to = (TState.terminated.rank : Int) ∧ Gen.C18.loop_cond = "c.errs == nil" := by
  decide

theorem pin_Task_done : Gen.C18.pin_flow_Task_done = "62411de68365b7d8" := by decide
theorem pin_Task_isReady : Gen.C18.pin_flow_Task_isReady = "a8044e7989aceef9" := by decide
theorem pin_Task_addDep : Gen.C18.pin_flow_Task_addDep = "a6870504039cfc8b" := by decide
theorem pin_Task_Fill : Gen.C18.pin_flow_Task_Fill = "a2c5cd9a205a03b4" := by decide
theorem pin_runLoop : Gen.C18.pin_flow_Controller_runLoop = "c07cff43c34659a3" := by decide
theorem pin_markReady : Gen.C18.pin_flow_Controller_markReady = "f6013ad823fb1f64" := by decide
theorem pin_updateValue : Gen.C18.pin_flow_Controller_updateValue = "d9340605ab8d0923" := by decide
theorem pin_updateTaskValue : Gen.C18.pin_flow_Controller_updateTaskValue = "f8dc358d891e2598" := by decide
theorem pin_updateTaskResults : Gen.C18.pin_flow_Controller_updateTaskResults = "c10f56df809a9f5a" := by decide
theorem pin_initTasks : Gen.C18.pin_flow_Controller_initTasks = "3e1d4711fdc352d4" := by decide
theorem pin_getTask : Gen.C18.pin_flow_Controller_getTask = "fd68f0957ff2e1cc" := by decide
theorem pin_findRootTasks : Gen.C18.pin_flow_Controller_findRootTasks = "ff01a70569fae591" := by decide
theorem pin_markTaskDependencies : Gen.C18.pin_flow_Controller_markTaskDependencies = "a2f6ebb42851e878" := by decide
theorem pin_findImpliedTask : Gen.C18.pin_flow_Controller_findImpliedTask = "c143f84e21a215dc" := by decide
theorem pin_checkCycle : Gen.C18.pin_flow_checkCycle = "cfa8fff037bea7dd" := by decide
theorem pin_isCyclic : Gen.C18.pin_flow_cycleChecker_isCyclic = "b2a18ba8e4542092" := by decide
theorem pin_addCycleError : Gen.C18.pin_flow_cycleChecker_addCycleError = "98f7ff5de58dac16" := by decide
theorem pin_New : Gen.C18.pin_flow_New = "d39c679cdc5c6132" := by decide
theorem pin_Run : Gen.C18.pin_flow_Controller_Run = "d602e18a0abe3b4f" := by decide
theorem pin_Value : Gen.C18.pin_flow_Controller_Value = "cc90ce78bc90318f" := by decide

end CueVerif.Bridge.C18
