/-
Bridge for C16: facts regenerated from /repo (CueVerif.Gen.C16) versus the hand model.
 * `fx_*`: the watched calls (file-system effects, lock operations, registry calls) and hook
   points of every transcribed function, in source order, equal the lists the model's
   program points were written against;
 * `hook_order_*`: the hook points of the model's clean runs, in the model's STEP order, are
   the hook points of the source in source order (Unzip's per-file hooks repeated per file);
 * `pin_*`: fingerprints of the normalised source of the transcribed functions.
-/
import CueVerif.Gen.C16
import CueVerif.Model.ModCache
import CueVerif.Model.ModCachePaths
namespace CueVerif.Bridge.C16
open CueVerif

theorem fx_Fetch : Gen.C16.fx_Fetch = ModCache.goFetch := by decide
theorem fx_FetchFromCache : Gen.C16.fx_FetchFromCache = ModCache.goFetchFromCache := by decide
theorem fx_downloadDir : Gen.C16.fx_downloadDir = ModCache.goDownloadDir := by decide
theorem fx_downloadZip : Gen.C16.fx_downloadZip = ModCache.goDownloadZip := by decide
theorem fx_downloadZip1 : Gen.C16.fx_downloadZip1 = ModCache.goDownloadZip1 := by decide
theorem fx_Unzip : Gen.C16.fx_Unzip = ModCache.goUnzip := by decide
theorem fx_ModFile : Gen.C16.fx_ModFile = ModCache.goModFile := by decide
theorem fx_fetchModFileData : Gen.C16.fx_fetchModFileData = ModCache.goFetchModFileData := by decide
theorem fx_downloadModFile1 : Gen.C16.fx_downloadModFile1 = ModCache.goDownloadModFile1 := by decide
theorem fx_readDiskCache : Gen.C16.fx_readDiskCache = ModCache.goReadDiskCache := by decide
theorem fx_writeDiskCache : Gen.C16.fx_writeDiskCache = ModCache.goWriteDiskCache := by decide
theorem fx_lockVersion : Gen.C16.fx_lockVersion = ModCache.goLockVersion := by decide

/-- what Fetch removes under the version lock: entries of the parent directory named
`filepath.Base(dir) + ".tmp-" + <digits>` that are not themselves named after a version
(`ok && isAllDigits(suffix) && !isVersionDir(entry.Name())`), and `dir` itself when partial;
`isAllDigits` and `isVersionDir` are pinned and transcribed in Model/ModCachePaths.lean -/
theorem fx_Fetch_removes : Gen.C16.fx_Fetch_removes = ModCache.goFetchRemoves := by decide
theorem fx_Fetch_defs : Gen.C16.fx_Fetch_defs = ModCache.goFetchDefs := by decide
theorem cleanup_tmp_suffix : Gen.C16.cleanup_tmp_suffix = ModCache.tmpSuffixText := by decide
theorem tmp_suffix_bytes : ModCache.tmpSuffixText.toList.map Char.toNat = ModCache.tmpSuffix := by decide

/-- the model's cold Fetch passes the source's hook points in the source's order -/
theorem hook_order_fetch_0 : ModCache.coldHooks 0 .fetch =
    ModCache.composeHooks 0 Gen.C16.fx_downloadZip1_hooks Gen.C16.fx_Fetch_hooks Gen.C16.fx_Unzip_hooks := by decide
theorem hook_order_fetch_1 : ModCache.coldHooks 1 .fetch =
    ModCache.composeHooks 1 Gen.C16.fx_downloadZip1_hooks Gen.C16.fx_Fetch_hooks Gen.C16.fx_Unzip_hooks := by decide
theorem hook_order_fetch_3 : ModCache.coldHooks 3 .fetch =
    ModCache.composeHooks 3 Gen.C16.fx_downloadZip1_hooks Gen.C16.fx_Fetch_hooks Gen.C16.fx_Unzip_hooks := by decide
theorem hook_order_modfile : ModCache.coldHooks 3 .modFile = Gen.C16.fx_writeDiskCache_hooks := by decide
/-- on a warm cache Fetch and FetchFromCache pass exactly downloadDir's hook point (between the
two stat calls: the directory first, then the marker) -/
theorem hook_order_warm_fetch :
    (match ModCache.next 3 { ModCache.VSt.init with dir := some ⟨3, false, true⟩, zip := some .full } (0, 0) { start := .fetch } with
     | some (s1, _) => ModCache.hooksAlone 3 (0, 0) 10 s1 []
     | none => []) = Gen.C16.fx_downloadDir_hooks := by decide
theorem hook_order_warm_fromcache :
    (match ModCache.next 3 { ModCache.VSt.init with dir := some ⟨3, false, true⟩, zip := some .full } (0, 0) { start := .fetchFromCache } with
     | some (s1, _) => ModCache.hooksAlone 3 (0, 0) 10 s1 []
     | none => []) = Gen.C16.fx_downloadDir_hooks := by decide
theorem hook_order_fromcache : ModCache.coldHooks 3 .fetchFromCache = Gen.C16.fx_FetchFromCache_hooks := by decide

theorem pin_modcache_Cache_Fetch : Gen.C16.pin_modcache_Cache_Fetch = "5ea76b9d3c232af1" := by decide
theorem pin_modcache_Cache_FetchFromCache : Gen.C16.pin_modcache_Cache_FetchFromCache = "e2bff6dd2316d2b5" := by decide
theorem pin_modcache_Cache_downloadZip : Gen.C16.pin_modcache_Cache_downloadZip = "a0701c8899cddee4" := by decide
theorem pin_modcache_Cache_downloadZip1 : Gen.C16.pin_modcache_Cache_downloadZip1 = "5d5ed189ad24fcc0" := by decide
theorem pin_modcache_Cache_downloadDir : Gen.C16.pin_modcache_Cache_downloadDir = "2d28fa0f75e2b582" := by decide
theorem pin_modcache_Cache_cachePath : Gen.C16.pin_modcache_Cache_cachePath = "2fe45abf740296ec" := by decide
theorem pin_modcache_Cache_lockVersion : Gen.C16.pin_modcache_Cache_lockVersion = "646ffb9c6ce0e9a1" := by decide
theorem pin_modcache_Cache_writeDiskCache : Gen.C16.pin_modcache_Cache_writeDiskCache = "a9ab77214d3dd39b" := by decide
theorem pin_modcache_Cache_readDiskCache : Gen.C16.pin_modcache_Cache_readDiskCache = "0470dabf41445587" := by decide
theorem pin_modcache_Cache_readDiskModFile : Gen.C16.pin_modcache_Cache_readDiskModFile = "c0249a0b722f76b8" := by decide
theorem pin_modcache_Cache_writeDiskModFile : Gen.C16.pin_modcache_Cache_writeDiskModFile = "a00597693a692fe3" := by decide
theorem pin_modcache_Cache_fetchModFileData : Gen.C16.pin_modcache_Cache_fetchModFileData = "69b213a816c1241f" := by decide
theorem pin_modcache_Cache_downloadModFile1 : Gen.C16.pin_modcache_Cache_downloadModFile1 = "17aef2eb5298777e" := by decide
theorem pin_modcache_Cache_ModFile : Gen.C16.pin_modcache_Cache_ModFile = "2687568602fb0782" := by decide
theorem pin_modcache_tempFile : Gen.C16.pin_modcache_tempFile = "fc3a5158eca0beee" := by decide
theorem pin_modcache_RemoveAll : Gen.C16.pin_modcache_RemoveAll = "4e7a3edb52d6cba1" := by decide
theorem pin_modcache_downloadDirPartialError_Is : Gen.C16.pin_modcache_downloadDirPartialError_Is = "f6431a07bcd424a9" := by decide
theorem pin_modzip_Unzip : Gen.C16.pin_modzip_Unzip = "ce3101a2a84ee4d0" := by decide
theorem pin_par_ErrCache_Do : Gen.C16.pin_par_ErrCache_Do = "3072b8324b408a24" := by decide
theorem pin_par_Cache_Do : Gen.C16.pin_par_Cache_Do = "383de71de7cd18a6" := by decide
theorem pin_robustio_Rename : Gen.C16.pin_robustio_Rename = "8d8bc43bddb78277" := by decide
theorem pin_robustio_RemoveAll : Gen.C16.pin_robustio_RemoveAll = "908cbc1ce348c8cb" := by decide
theorem pin_robustio_WriteFile : Gen.C16.pin_robustio_WriteFile = "58be92685c92f3a0" := by decide
theorem pin_robustio_ReadFile : Gen.C16.pin_robustio_ReadFile = "3a3b398ea3a9343c" := by decide
theorem pin_modregistry_Module_GetZip : Gen.C16.pin_modregistry_Module_GetZip = "7c679de0fdba6785" := by decide
theorem pin_modregistry_Module_ModuleFile : Gen.C16.pin_modregistry_Module_ModuleFile = "6ee0d8f24b966d1b" := by decide
theorem pin_modcache_isAllDigits : Gen.C16.pin_modcache_isAllDigits = "8e75289aa85939f3" := by decide
theorem pin_modcache_isVersionDir : Gen.C16.pin_modcache_isVersionDir = "bc45db5be54fe908" := by decide

end CueVerif.Bridge.C16
