/-
Bridge for C08: facts regenerated from /repo (CueVerif.Gen.C08) versus the hand model
(Model/Fmt.lean).  The precedence table and the token numbering are translated definitions;
`pin_*` are fingerprints of the normalised source of the functions (or single type-switch arms)
the model transcribes, validated by the correspondence of harness/c08*.go.
The UnaryExpr arm of exprRaw and cue/format's `unaryOpMergesWithOperand` are pinned at the versions
of fix ab8529a (`Fmt.v1GuardEnabled = true` models exactly that guard).
-/
import CueVerif.Gen.C08
import CueVerif.Model.Fmt
namespace CueVerif.Bridge.C08
open CueVerif

/-- the model's precedence table IS token.Token.Precedence on every operator token -/
theorem precedence_eq (o : Fmt.OpTok) : Gen.C08.precedence o.code = o.prec := by
  cases o <;> decide

/-- no token number outside the model's binary operators has a precedence (checked over the whole
token range 0..63) -/
theorem precedence_other : ∀ n, n < 64 → Fmt.OpTok.ofCode n = none → Gen.C08.precedence n = 0 := by
  decide

theorem lowestPrec_eq : Gen.C08.lowestPrec = Fmt.lowestPrec := by decide
theorem unaryPrec_eq : Gen.C08.unaryPrec = Fmt.unaryPrec := by decide
theorem highestPrec_eq : Gen.C08.highestPrec = Fmt.highestPrec := by decide

/-- the token numbering -/
theorem token_codes :
    Gen.C08.tok_ADD = Fmt.OpTok.add.code ∧
    Gen.C08.tok_SUB = Fmt.OpTok.sub.code ∧
    Gen.C08.tok_MUL = Fmt.OpTok.mul.code ∧
    Gen.C08.tok_QUO = Fmt.OpTok.quo.code ∧
    Gen.C08.tok_AND = Fmt.OpTok.and.code ∧
    Gen.C08.tok_OR = Fmt.OpTok.or.code ∧
    Gen.C08.tok_LAND = Fmt.OpTok.land.code ∧
    Gen.C08.tok_LOR = Fmt.OpTok.lor.code ∧
    Gen.C08.tok_BIND = Fmt.OpTok.bind.code ∧
    Gen.C08.tok_EQL = Fmt.OpTok.eql.code ∧
    Gen.C08.tok_LSS = Fmt.OpTok.lss.code ∧
    Gen.C08.tok_GTR = Fmt.OpTok.gtr.code ∧
    Gen.C08.tok_NOT = Fmt.OpTok.not.code ∧
    Gen.C08.tok_ARROW = Fmt.OpTok.arrow.code ∧
    Gen.C08.tok_NEQ = Fmt.OpTok.neq.code ∧
    Gen.C08.tok_LEQ = Fmt.OpTok.leq.code ∧
    Gen.C08.tok_GEQ = Fmt.OpTok.geq.code ∧
    Gen.C08.tok_MAT = Fmt.OpTok.mat.code ∧
    Gen.C08.tok_NMAT = Fmt.OpTok.nmat.code ∧
    Gen.C08.tok_LPAREN = Fmt.OpTok.lparen.code ∧
    Gen.C08.tok_LBRACK = Fmt.OpTok.lbrack.code ∧
    Gen.C08.tok_LBRACE = Fmt.OpTok.lbrace.code ∧
    Gen.C08.tok_COMMA = Fmt.OpTok.comma.code ∧
    Gen.C08.tok_PERIOD = Fmt.OpTok.period.code ∧
    Gen.C08.tok_ELLIPSIS = Fmt.OpTok.ellipsis.code ∧
    Gen.C08.tok_RPAREN = Fmt.OpTok.rparen.code ∧
    Gen.C08.tok_RBRACK = Fmt.OpTok.rbrack.code ∧
    Gen.C08.tok_RBRACE = Fmt.OpTok.rbrace.code ∧
    Gen.C08.tok_SEMICOLON = Fmt.OpTok.semicolon.code ∧
    Gen.C08.tok_COLON = Fmt.OpTok.colon.code ∧
    Gen.C08.tok_OPTION = Fmt.OpTok.option.code ∧
    Gen.C08.tok_TILDE = Fmt.OpTok.tilde.code := by
  decide

theorem pin_scanner_Scanner_Scan : Gen.C08.pin_scanner_Scanner_Scan = "e9b435645f244f67" := by decide
theorem pin_scanner_Scanner_switch2 : Gen.C08.pin_scanner_Scanner_switch2 = "4c47f82ae3efbba1" := by decide
theorem pin_scanner_Scanner_scanFieldIdentifier : Gen.C08.pin_scanner_Scanner_scanFieldIdentifier = "8a2ef1e485ff91a2" := by decide
theorem pin_scanner_isLetter : Gen.C08.pin_scanner_isLetter = "7aecc90050bc9728" := by decide
theorem pin_scanner_isDigit : Gen.C08.pin_scanner_isDigit = "da5acf79aeff31b3" := by decide
theorem pin_parser_parser_parseBinaryExpr : Gen.C08.pin_parser_parser_parseBinaryExpr = "d055dc8b265bcab7" := by decide
theorem pin_parser_parser_parseBinaryExprTail : Gen.C08.pin_parser_parser_parseBinaryExprTail = "cbe964e3f4df2745" := by decide
theorem pin_parser_parser_parseUnaryExpr : Gen.C08.pin_parser_parser_parseUnaryExpr = "73ff9f45116d3361" := by decide
theorem pin_format_formatter_exprRaw_case_BinaryExpr : Gen.C08.pin_format_formatter_exprRaw_case_BinaryExpr = "663998a7789358a0" := by decide
theorem pin_format_formatter_exprRaw_case_UnaryExpr : Gen.C08.pin_format_formatter_exprRaw_case_UnaryExpr = "4d6c2b56986a320a" := by decide
theorem pin_format_unaryOpMergesWithOperand : Gen.C08.pin_format_unaryOpMergesWithOperand = "0b112c9bd5fbed28" := by decide
/-- cue/format's guard is textually the guard of internal/pretty (same normalised source) -/
theorem v1_guard_is_v2_guard : Gen.C08.pin_format_unaryOpMergesWithOperand = Gen.C08.pin_pretty_unaryOpMergesWithOperand := by decide
theorem pin_format_formatter_exprRaw_case_ParenExpr : Gen.C08.pin_format_formatter_exprRaw_case_ParenExpr = "0245dbdb235de0b9" := by decide
theorem pin_format_formatter_exprRaw_case_Ident : Gen.C08.pin_format_formatter_exprRaw_case_Ident = "42e2a2f6715eeb3a" := by decide
theorem pin_format_formatter_exprRaw_case_BasicLit : Gen.C08.pin_format_formatter_exprRaw_case_BasicLit = "5a03cd8a6eb9588d" := by decide
theorem pin_format_formatter_binaryExpr : Gen.C08.pin_format_formatter_binaryExpr = "cd3255f94ebe1166" := by decide
theorem pin_format_walkBinary : Gen.C08.pin_format_walkBinary = "acd7959a416b37aa" := by decide
theorem pin_format_cutoff : Gen.C08.pin_format_cutoff = "03d3b2303126e299" := by decide
theorem pin_format_diffPrec : Gen.C08.pin_format_diffPrec = "c95a6ff12b378cd8" := by decide
theorem pin_format_reduceDepth : Gen.C08.pin_format_reduceDepth = "9ea082e54eb4346d" := by decide
theorem pin_format_mayCombine : Gen.C08.pin_format_mayCombine = "726478e87021d4f8" := by decide
theorem pin_format_formatter_expr : Gen.C08.pin_format_formatter_expr = "4efe3acdd45daa68" := by decide
theorem pin_format_formatter_expr0 : Gen.C08.pin_format_formatter_expr0 = "eb222f9b6d020d40" := by decide
theorem pin_format_formatter_expr1 : Gen.C08.pin_format_formatter_expr1 = "48de812ceacdeaa2" := by decide
theorem pin_pretty_converter_unaryExpr : Gen.C08.pin_pretty_converter_unaryExpr = "92e440c03424ff28" := by decide
theorem pin_pretty_converter_binaryExprPrec : Gen.C08.pin_pretty_converter_binaryExprPrec = "d1ea087bb72b426e" := by decide
theorem pin_pretty_converter_binaryOperand : Gen.C08.pin_pretty_converter_binaryOperand = "da598aeeebc10671" := by decide
theorem pin_pretty_wrapForPrecedence : Gen.C08.pin_pretty_wrapForPrecedence = "1d1f2b32281240f3" := by decide
theorem pin_pretty_binaryCutoff : Gen.C08.pin_pretty_binaryCutoff = "cd948a8b0d9c0d81" := by decide
theorem pin_pretty_binaryWalk : Gen.C08.pin_pretty_binaryWalk = "2fc939ada3b668af" := by decide
theorem pin_pretty_binaryDiffPrec : Gen.C08.pin_pretty_binaryDiffPrec = "0ca04347bb5e16ca" := by decide
theorem pin_pretty_operatorsWouldMerge : Gen.C08.pin_pretty_operatorsWouldMerge = "7b986f7113b3b7a8" := by decide
theorem pin_pretty_unaryOpMergesWithOperand : Gen.C08.pin_pretty_unaryOpMergesWithOperand = "0b112c9bd5fbed28" := by decide
theorem pin_pretty_converter_parenExpr : Gen.C08.pin_pretty_converter_parenExpr = "9eee671d7f978005" := by decide
theorem pin_format_Node : Gen.C08.pin_format_Node = "7e9e109c7b04913e" := by decide
theorem pin_format_Source : Gen.C08.pin_format_Source = "b44f02e64d25d337" := by decide
theorem pin_cmd_formatFile : Gen.C08.pin_cmd_formatFile = "a2f3fdd10f04f21b" := by decide

end CueVerif.Bridge.C08
