/-
C11 — bridge lemmas for the definitions TRANSLATED from the Go source by extract/lib_loops.go
(Gen/C11.lean: needsSingleQuoting, singleQuoted, yamlUnprintable, blockLiteralSafe, shouldQuote,
quoteScalar, numberKind, yaml11OctalToCUE, v3 shouldQuote): each equals the hand-written model
function for ALL inputs.  The theorems proper are restated in Bridge/C11.lean (audited there).
-/
import CueVerif.Gen.C11
import CueVerif.Model.YamlEmit
import CueVerif.Proofs.Utf8
namespace CueVerif.Bridge.C11Loops
open CueVerif CueVerif.Yaml
open CueVerif.Quote (Bytes decodeRune)

/-! ### helper definitions of the translator's prelude -/

theorem lpContains_eq (p s : Bytes) : Gen.C11.lpContains p s = containsSub p s := by
  induction s with
  | nil => rfl
  | cons c t ih => simp only [Gen.C11.lpContains, containsSub, ih]

theorem lpReplaceByte_nil (o : Nat) (s : Bytes) : Gen.C11.lpReplaceByte o [] s = s.filter (· != o) := by
  induction s with
  | nil => rfl
  | cons c t ih =>
    simp only [Gen.C11.lpReplaceByte, ih, List.filter_cons]
    by_cases h : c = o <;> simp [h]

theorem lpReplaceByte_flatMap (o : Nat) (n s : Bytes) :
    Gen.C11.lpReplaceByte o n s = s.flatMap (fun c => if c == o then n else [c]) := by
  induction s with
  | nil => rfl
  | cons c t ih => simp only [Gen.C11.lpReplaceByte, ih, List.flatMap_cons]

/-! ### loop-free functions -/

theorem needsSingleQuoting_eq (s : Bytes) : Gen.C11.needsSingleQuoting s = Yaml.needsSingleQuoting s := by
  have h1 : b "?" = [63] := by decide
  have h2 : b "? " = [63, 32] := by decide
  have h3 : b "<<" = [60, 60] := by decide
  have h4 : b "..." = [46, 46, 46] := by decide
  simp only [Gen.C11.needsSingleQuoting, Yaml.needsSingleQuoting, hasPrefix, hasSuffix, h1, h2, h3, h4]

theorem singleQuoted_eq (s : Bytes) : Gen.C11.singleQuoted s = Yaml.singleQuoted s := by
  simp only [Gen.C11.singleQuoted, Yaml.singleQuoted, lpReplaceByte_flatMap]
  rfl

/-! ### yamlUnprintable: `for i, r := range s` -/

theorem unprintable_loop (P : IsPrint) : ∀ (n fuel fuel' : Nat) (s : Bytes) (i : Nat),
    s.length - i ≤ n → s.length - i ≤ fuel → s.length - i ≤ fuel' →
    Gen.C11.yamlUnprintable_loop1 decodeRune P fuel s i = yamlUnprintableLoop P fuel' (s.drop i) := by
  intro n
  induction n with
  | zero =>
    intro fuel fuel' s i hn _ _
    have hd : s.drop i = [] := List.drop_eq_nil_of_le (by omega)
    have hlt : ¬ i < s.length := by omega
    rw [hd]
    cases fuel <;> cases fuel' <;> simp [Gen.C11.yamlUnprintable_loop1, yamlUnprintableLoop, hlt]
  | succ n ih =>
    intro fuel fuel' s i hn hf hf'
    by_cases hlt : i < s.length
    · obtain ⟨c, t, hct⟩ : ∃ c t, s.drop i = c :: t := by
        cases h : s.drop i with
        | nil => have := List.drop_eq_nil_iff.mp h; omega
        | cons c t => exact ⟨c, t, rfl⟩
      obtain ⟨f, rfl⟩ : ∃ f, fuel = f + 1 := ⟨fuel - 1, by omega⟩
      obtain ⟨f', rfl⟩ : ∃ f', fuel' = f' + 1 := ⟨fuel' - 1, by omega⟩
      have hw := (Quote.decodeRune_width_pos c t).1
      have hmax : max (decodeRune (c :: t)).2 1 = (decodeRune (c :: t)).2 := by omega
      have hdrop : ∀ w, (c :: t).drop w = s.drop (i + w) := by
        intro w; rw [← hct, List.drop_drop]
      have hrec := ih f f' s (i + (decodeRune (c :: t)).2) (by omega) (by omega) (by omega)
      simp only [Gen.C11.yamlUnprintable_loop1, yamlUnprintableLoop, hct, hlt, decide_true, if_true, hmax, hdrop,
        unprintableRune]
      rw [hrec]
      by_cases h1 : ((decodeRune (c :: t)).1 == 9 || (decodeRune (c :: t)).1 == 10) = true
      · simp only [h1, if_true]
      · simp only [h1]
        by_cases h2 : (decide ((decodeRune (c :: t)).1 < 32) || (decodeRune (c :: t)).1 == 127 || (decodeRune (c :: t)).1 == 133
            || (decodeRune (c :: t)).1 == 8232 || (decodeRune (c :: t)).1 == 8233 || (decodeRune (c :: t)).1 == 65534
            || (decodeRune (c :: t)).1 == 65535) = true
        · simp [h2]
        · simp only [h2]
          by_cases h3 : ((decodeRune (c :: t)).1 != 32 && (decodeRune (c :: t)).1 != 65533 && !P (decodeRune (c :: t)).1) = true
          · simp [h3]
          · simp only [h3]
            by_cases h4 : (decodeRune (c :: t)).1 = 65533 <;> by_cases h5 : (decodeRune (c :: t)).2 = 1 <;> simp [h4, h5]
    · have hd : s.drop i = [] := List.drop_eq_nil_of_le (by omega)
      rw [hd]
      cases fuel <;> cases fuel' <;> simp [Gen.C11.yamlUnprintable_loop1, yamlUnprintableLoop, hlt]

theorem yamlUnprintable_eq (P : IsPrint) (s : Bytes) :
    Gen.C11.yamlUnprintable decodeRune P s = Yaml.yamlUnprintable P s := by
  have := unprintable_loop P s.length s.length s.length s 0 (by omega) (by omega) (by omega)
  simpa [Gen.C11.yamlUnprintable, Yaml.yamlUnprintable] using this

/-! ### blockLiteralSafe, shouldQuote, quoteScalar, numberKind -/

theorem contains10 : (fun c : Nat => List.contains ([10] : List Nat) c) = (· == 10) := by
  funext c
  cases h : (c == 10) <;> simp [List.contains, List.elem, h]

theorem blockLiteralSafe_eq (P : IsPrint) (s : Bytes) :
    Gen.C11.blockLiteralSafe decodeRune P s = Yaml.blockLiteralSafe P s := by
  cases s with
  | nil => rfl
  | cons c t =>
    simp only [Gen.C11.blockLiteralSafe, Yaml.blockLiteralSafe, contains10, lpContains_eq, yamlUnprintable_eq,
      hasSuffix, List.length_cons, List.getD_cons_zero]
    have h0 : (t.length + 1 == 0) = false := by simp
    rw [h0, Bool.false_or]
    generalize (c == 32 || c == 9) = A
    cases hf : List.dropWhile (· == 10) (c :: t) with
    | nil => cases A <;> simp
    | cons f r =>
      simp only [List.getD_cons_zero]
      have h1 : ((f :: r) == ([] : List Nat)) = false := rfl
      rw [h1, Bool.false_or]
      generalize (f == 32 || f == 9) = B
      rfl

/-- the externs of the translated `shouldQuote` instantiated with the model's tables,
regexp matcher, lexer-verdict reading, UTF-8 decoder and `IsPrint` -/
theorem shouldQuote_eq (P : IsPrint) (lx : Lex) (s : Bytes) :
    Gen.C11.shouldQuote (fun x => Yaml.legacyStrings.contains x) reUseQuote.matches reAnyOctal.matches
      (Yaml.decodesAsNonString lx) decodeRune P s = Yaml.shouldQuote P lx s := by
  have hr : regexpStarts = [45, 43, 48, 49, 50, 51, 52, 53, 54, 55, 56, 57, 58, 46, 32, 9] := by decide
  cases s with
  | nil => rfl
  | cons c t =>
    simp only [Gen.C11.shouldQuote, Yaml.shouldQuote, shouldQuoteCore, yamlUnprintable_eq, hr, List.getD_cons_zero]
    have h0 : ((c :: t) == ([] : List Nat)) = false := rfl
    rw [h0, Bool.false_or]
    generalize Yaml.legacyStrings.contains (c :: t) = A
    generalize (List.contains [45, 43, 48, 49, 50, 51, 52, 53, 54, 55, 56, 57, 58, 46, 32, 9] c &&
          (reUseQuote.matches (c :: t) || reAnyOctal.matches (c :: t))) = B
    generalize (Yaml.decodesAsNonString lx (c :: t) || List.contains (c :: t) 9) = D
    cases A <;> cases B <;> simp

theorem quoteScalar_eq (P : IsPrint) (lx : Lex) (q : Bytes → Bytes) (s : Bytes) :
    Gen.C11.quoteScalar (fun x => Yaml.legacyStrings.contains x) reUseQuote.matches reAnyOctal.matches
      (Yaml.decodesAsNonString lx) decodeRune P q s = (Yaml.quoteScalar P lx s).text q s := by
  simp only [Gen.C11.quoteScalar, Yaml.quoteScalar, shouldQuote_eq, yamlUnprintable_eq, needsSingleQuoting_eq,
    singleQuoted_eq]
  generalize (Yaml.needsSingleQuoting s && !Yaml.yamlUnprintable P s && !List.contains s 10) = A
  generalize (Yaml.shouldQuote P lx s || Yaml.needsSingleQuoting s) = B
  cases A <;> cases B <;> simp [Decision.text]

theorem token_codes : Gen.C11.token_ILLEGAL = NumKind.illegal.code ∧ Gen.C11.token_INT = NumKind.int.code ∧
    Gen.C11.token_FLOAT = NumKind.float.code := by decide

theorem numberKind_eq (s : Bytes) :
    Gen.C11.numberKind reYamlInt.matches reYamlFloat.matches s = (Yaml.numberKind s).code := by
  cases s with
  | nil => rfl
  | cons c t =>
    simp only [Gen.C11.numberKind, Yaml.numberKind, lpReplaceByte_nil, List.getD_cons_zero]
    have h0 : ((c :: t) == ([] : List Nat)) = false := rfl
    rw [h0, Bool.false_or]
    generalize (c == 95) = A
    generalize reYamlInt.matches (List.filter (· != 95) (c :: t)) = B
    generalize reYamlFloat.matches (List.filter (· != 95) (c :: t)) = C
    cases A <;> cases B <;> cases C <;> simp [NumKind.code]

theorem shouldQuoteV3_eq (s : Bytes) :
    Gen.C11.shouldQuoteV3 (fun x => Yaml.legacyStrings.contains x) reUseQuote.matches s = Yaml.shouldQuoteV3 s := rfl

/-! ### yaml11OctalToCUE: `for _, c := range rest` over runes vs the model's byte-wise `all` -/

theorem decodeRune_nonascii (c : Nat) (t : Bytes) (h : 0x80 ≤ c) : 0x80 ≤ (decodeRune (c :: t)).1 := by
  generalize hp : decodeRune (c :: t) = p
  simp only [decodeRune] at hp
  repeat' split at hp
  all_goals subst hp
  all_goals simp only [Bool.and_eq_true, decide_eq_true_eq, Quote.isCont] at *
  all_goals omega

def octOrUnderscore (c : Nat) : Bool := (decide (48 ≤ c) && decide (c ≤ 55)) || c == 95

theorem octal_loop : ∀ (n fuel : Nat) (value sign digits rest : Bytes) (ok : Bool) (i : Nat),
    rest.length - i ≤ n → rest.length - i ≤ fuel →
    Gen.C11.yaml11OctalToCUE_loop1 decodeRune fuel value sign digits rest ok i =
      if (rest.drop i).all octOrUnderscore then (sign ++ [48, 111]) ++ rest else value := by
  intro n
  induction n with
  | zero =>
    intro fuel value sign digits rest ok i hn _
    have hd : rest.drop i = [] := List.drop_eq_nil_of_le (by omega)
    have hlt : ¬ i < rest.length := by omega
    rw [hd]
    cases fuel <;> simp [Gen.C11.yaml11OctalToCUE_loop1, hlt]
  | succ n ih =>
    intro fuel value sign digits rest ok i hn hf
    by_cases hlt : i < rest.length
    · obtain ⟨c, t, hct⟩ : ∃ c t, rest.drop i = c :: t := by
        cases h : rest.drop i with
        | nil => have := List.drop_eq_nil_iff.mp h; omega
        | cons c t => exact ⟨c, t, rfl⟩
      obtain ⟨f, rfl⟩ : ∃ f, fuel = f + 1 := ⟨fuel - 1, by omega⟩
      have ht : t = rest.drop (i + 1) := by
        have := congrArg (List.drop 1) hct
        simpa [List.drop_drop] using this.symm
      simp only [Gen.C11.yaml11OctalToCUE_loop1, hct, hlt, decide_true, if_true, List.all_cons]
      by_cases hc : c < 0x80
      · rw [Quote.decodeRune_ascii c t hc]
        simp only []
        rw [ih f value sign digits rest ok (i + 1) (by omega) (by omega), ← ht]
        by_cases ho : octOrUnderscore c = true
        · have : ((decide (c < 48) || decide (c > 55)) && c != 95) = false := by
            simp only [octOrUnderscore, Bool.or_eq_true, Bool.and_eq_true, decide_eq_true_eq, beq_iff_eq] at ho
            simp only [Bool.and_eq_false_iff, Bool.or_eq_false_iff, decide_eq_false_iff_not, bne_eq_false_iff_eq]
            omega
          simp [this, ho]
        · have : ((decide (c < 48) || decide (c > 55)) && c != 95) = true := by
            simp only [octOrUnderscore, Bool.or_eq_true, Bool.and_eq_true, decide_eq_true_eq, beq_iff_eq] at ho
            simp only [Bool.and_eq_true, Bool.or_eq_true, decide_eq_true_eq, bne_iff_ne]
            omega
          simp [this, ho]
      · have hr := decodeRune_nonascii c t (by omega)
        have ho : octOrUnderscore c = false := by
          simp only [octOrUnderscore, Bool.or_eq_false_iff, Bool.and_eq_false_iff, decide_eq_false_iff_not, beq_eq_false_iff_ne]
          omega
        have : ((decide ((decodeRune (c :: t)).1 < 48) || decide ((decodeRune (c :: t)).1 > 55)) &&
            (decodeRune (c :: t)).1 != 95) = true := by
          simp only [Bool.and_eq_true, Bool.or_eq_true, decide_eq_true_eq, bne_iff_ne]
          omega
        simp [this, ho]
    · have hd : rest.drop i = [] := List.drop_eq_nil_of_le (by omega)
      rw [hd]
      cases fuel <;> simp [Gen.C11.yaml11OctalToCUE_loop1, hlt]

theorem yaml11OctalToCUE_eq (v : Bytes) : Gen.C11.yaml11OctalToCUE decodeRune v = Yaml.yaml11OctalToCUE v := by
  have hb : b "0o" = [48, 111] := by decide
  have tail : ∀ (sign digits : Bytes) (v : Bytes),
      (let rest := if List.isPrefixOf [48] digits then digits.drop 1 else digits
       if (!List.isPrefixOf [48] digits || rest == []) = true then v
       else Gen.C11.yaml11OctalToCUE_loop1 decodeRune (rest.length - 0) v sign digits rest (List.isPrefixOf [48] digits) 0) =
      (match digits with
       | 48 :: rest => if rest.isEmpty then v else if rest.all octOrUnderscore then sign ++ [48, 111] ++ rest else v
       | _ => v) := by
    intro sign digits v
    cases digits with
    | nil => simp
    | cons d r =>
      by_cases hd : d = 48
      · subst hd
        cases r with
        | nil => simp
        | cons r0 r1 =>
          simp only [List.isPrefixOf, beq_self_eq_true, Bool.true_and, if_true, List.drop_succ_cons, List.drop_zero,
            Bool.not_true, Bool.false_or, List.isEmpty_cons]
          rw [octal_loop _ _ v sign _ _ _ 0 (Nat.le_refl _) (Nat.le_refl _)]
          simp
      · have : List.isPrefixOf [48] (d :: r) = false := by
          simp [List.isPrefixOf, Ne.symm hd]
        simp only [this, Bool.not_false, Bool.true_or, if_true]
        split
        · rename_i heq
          injection heq with h1 _
          exact absurd h1 hd
        · rfl
  simp only [Gen.C11.yaml11OctalToCUE, Yaml.yaml11OctalToCUE, hb]
  cases v with
  | nil => simp
  | cons c r =>
    simp only [List.length_cons, List.getD_cons_zero, List.take_succ_cons, List.take_zero, List.drop_succ_cons,
      List.drop_zero]
    have h0 : decide (r.length + 1 > 0) = true := by simp
    rw [h0, Bool.true_and]
    by_cases hs : (c == 43 || c == 45) = true
    · simp only [hs, if_true]
      exact tail [c] r (c :: r)
    · simp only [hs]
      exact tail [] (c :: r) (c :: r)

end CueVerif.Bridge.C11Loops
