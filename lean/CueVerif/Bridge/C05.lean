/-
Bridge for C05: facts regenerated from /repo (CueVerif.Gen.C05) versus the hand model.
The order of the `adt.ArcType` constants is the merge order of `Vertex.updateArcType`
("keep the smaller"), which `Closed.Kind.rank` / `Closed.Kind.merge` transcribe.
`pin_*` fingerprint the functions the model transcribes by hand.  typocheck.go is
deliberately not pinned: the evidence-based typo check is held to the semantic model by
correspondence only (harness/c05.go), so a behaviour-preserving refactor breaks nothing.
-/
import CueVerif.Gen.C05
import CueVerif.Model.Closed
namespace CueVerif.Bridge.C05
open CueVerif CueVerif.Closed

theorem arcMember_rank : Gen.C05.arcMember = (Kind.member.rank : Int) := by decide
theorem arcRequired_rank : Gen.C05.arcRequired = (Kind.required.rank : Int) := by decide
theorem arcOptional_rank : Gen.C05.arcOptional = (Kind.optional.rank : Int) := by decide
/-- the three field kinds come first: `ArcPending`/`ArcNotPresent` (not modelled) are larger -/
theorem arcPending_after : Gen.C05.arcPending = 3 := by decide

/-- `updateArcType` keeps the smaller constant: member > required > optional in strength;
complete table over the three modelled kinds. -/
theorem merge_table (a b : Kind) : (a.merge b).rank = min a.rank b.rank := by
  cases a <;> cases b <;> decide

theorem merge_member_wins (a : Kind) : Kind.member.merge a = .member ∧ a.merge .member = .member := by
  cases a <;> decide

theorem pin_adt_Vertex_updateArcType : Gen.C05.pin_adt_Vertex_updateArcType = "f682055c0ea63d3e" := by decide
theorem pin_adt_Vertex_Accept : Gen.C05.pin_adt_Vertex_Accept = "ffd35639465b32ac" := by decide
theorem pin_adt_Vertex_accepts : Gen.C05.pin_adt_Vertex_accepts = "82a55639cdd1058e" := by decide
theorem pin_adt_Vertex_IsOpenStruct : Gen.C05.pin_adt_Vertex_IsOpenStruct = "0c367d008fcddaac" := by decide
theorem pin_adt_Vertex_IsClosedStruct : Gen.C05.pin_adt_Vertex_IsClosedStruct = "43f3cc768291374b" := by decide
theorem pin_adt_isClosed : Gen.C05.pin_adt_isClosed = "38e6e0eb2e68f242" := by decide
theorem pin_adt_validator_validate : Gen.C05.pin_adt_validator_validate = "3d266f7c57b0bb3f" := by decide
theorem pin_compile_closeBuiltin : Gen.C05.pin_compile_closeBuiltin = "189f48716b0cc3d0" := by decide
theorem pin_cue_Value_Allows : Gen.C05.pin_cue_Value_Allows = "5ad47d912dd7f977" := by decide

end CueVerif.Bridge.C05
