/-
Bridge for C05: facts regenerated from /repo (CueVerif.Gen.C05) versus the hand model.
The order of the `adt.ArcType` constants is the merge order of `Vertex.updateArcType`
("keep the smaller"), which `Closed.Kind.rank` / `Closed.Kind.merge` transcribe.
`pin_*` fingerprint the functions the models transcribe by hand.  Since session 3 the
evidence algorithm of typocheck.go is transcribed (Model/Typo.lean): its functions are pinned
below and compared with the real evaluator by the harness stream `tyev` (class I); the
semantic model / spec stay tied by the observable streams (`val`, `adm`, `den`, class O).
-/
import CueVerif.Gen.C05
import CueVerif.Model.Closed
import CueVerif.Model.Typo
namespace CueVerif.Bridge.C05
open CueVerif CueVerif.Closed

theorem arcMember_rank : Gen.C05.arcMember = (Kind.member.rank : Int) := by decide
theorem arcRequired_rank : Gen.C05.arcRequired = (Kind.required.rank : Int) := by decide
theorem arcOptional_rank : Gen.C05.arcOptional = (Kind.optional.rank : Int) := by decide
/-- the three field kinds come first: `ArcPending`/`ArcNotPresent` (not modelled) are larger -/
theorem arcPending_after : Gen.C05.arcPending = 3 := by decide

/-- `updateArcType` keeps the smaller constant: member > required > optional in strength;
complete table over the three modelled kinds. -/
theorem merge_table (a b : Kind) : (a.merge b).rank = min a.rank b.rank := by
  cases a <;> cases b <;> decide

theorem merge_member_wins (a : Kind) : Kind.member.merge a = .member ∧ a.merge .member = .member := by
  cases a <;> decide

theorem pin_adt_Vertex_updateArcType : Gen.C05.pin_adt_Vertex_updateArcType = "f682055c0ea63d3e" := by decide
theorem pin_adt_Vertex_Accept : Gen.C05.pin_adt_Vertex_Accept = "ffd35639465b32ac" := by decide
theorem pin_adt_Vertex_accepts : Gen.C05.pin_adt_Vertex_accepts = "82a55639cdd1058e" := by decide
theorem pin_adt_Vertex_IsOpenStruct : Gen.C05.pin_adt_Vertex_IsOpenStruct = "0c367d008fcddaac" := by decide
theorem pin_adt_Vertex_IsClosedStruct : Gen.C05.pin_adt_Vertex_IsClosedStruct = "43f3cc768291374b" := by decide
theorem pin_adt_isClosed : Gen.C05.pin_adt_isClosed = "38e6e0eb2e68f242" := by decide
theorem pin_adt_validator_validate : Gen.C05.pin_adt_validator_validate = "3d266f7c57b0bb3f" := by decide
theorem pin_compile_closeBuiltin : Gen.C05.pin_compile_closeBuiltin = "189f48716b0cc3d0" := by decide
theorem pin_cue_Value_Allows : Gen.C05.pin_cue_Value_Allows = "5ad47d912dd7f977" := by decide

/-! ### evidence algorithm (Model/Typo.lean): constants regenerated, functions pinned -/

/-- `defIDType`: the order of the constants is the one `Typo.IDKind` lists -/
def idKindCode : Typo.IDKind → Int
  | .unknown => 0 | .embedding => 1 | .reference => 2 | .struct => 3
theorem defEmbedding_code : Gen.C05.defEmbedding = idKindCode .embedding := by decide
theorem defReference_code : Gen.C05.defReference = idKindCode .reference := by decide
theorem defStruct_code : Gen.C05.defStruct = idKindCode .struct := by decide
/-- `conjunctFlags`: three independent bits, modelled as the Bool fields `ell`/`top`/`str` of
`Typo.ConjInfo` -/
theorem conjunctFlags_bits :
    (Gen.C05.cHasEllipsis, Gen.C05.cHasTop, Gen.C05.cHasStruct) = (1, 2, 4) := by decide

theorem pin_adt_OpContext_getNextDefID : Gen.C05.pin_adt_OpContext_getNextDefID = "0d0fa52d0ef0399e" := by decide
theorem pin_adt_nodeContext_addReplacement : Gen.C05.pin_adt_nodeContext_addReplacement = "d3ac509d6ede5739" := by decide
theorem pin_adt_nodeContext_updateConjunctInfo : Gen.C05.pin_adt_nodeContext_updateConjunctInfo = "5d22e5e38074d6da" := by decide
theorem pin_adt_nodeContext_addResolver : Gen.C05.pin_adt_nodeContext_addResolver = "790fb6e8c931de77" := by decide
theorem pin_adt_OpContext_subField : Gen.C05.pin_adt_OpContext_subField = "e316d192247dfd21" := by decide
theorem pin_adt_nodeContext_newReq : Gen.C05.pin_adt_nodeContext_newReq = "91359d48193e0207" := by decide
theorem pin_adt_nodeContext_injectEmbedNode : Gen.C05.pin_adt_nodeContext_injectEmbedNode = "72e30d6038c483aa" := by decide
theorem pin_adt_nodeContext_splitStruct : Gen.C05.pin_adt_nodeContext_splitStruct = "00441d0252c04ebc" := by decide
theorem pin_adt_nodeContext_splitScope : Gen.C05.pin_adt_nodeContext_splitScope = "0a9c04c147dcedf8" := by decide
theorem pin_adt_nodeContext_checkTypos : Gen.C05.pin_adt_nodeContext_checkTypos = "2d2e6da9e8a67d4f" := by decide
theorem pin_adt_nodeContext_hasEvidenceForAll : Gen.C05.pin_adt_nodeContext_hasEvidenceForAll = "79603028e1f32e0c" := by decide
theorem pin_adt_nodeContext_hasEvidenceForOne : Gen.C05.pin_adt_nodeContext_hasEvidenceForOne = "baac122c8a4f9304" := by decide
theorem pin_adt_nodeContext_containsDefIDRec : Gen.C05.pin_adt_nodeContext_containsDefIDRec = "5f2d7c5556c2bfbd" := by decide
theorem pin_adt_getReqSets : Gen.C05.pin_adt_getReqSets = "f6fc2cf12e300a9e" := by decide
theorem pin_adt_nodeContext_filterTop : Gen.C05.pin_adt_nodeContext_filterTop = "862d8fbfe08fe546" := by decide
theorem pin_adt_hasParentEllipsis : Gen.C05.pin_adt_hasParentEllipsis = "c79c6d9beab80c3b" := by decide
theorem pin_adt_markIgnored : Gen.C05.pin_adt_markIgnored = "f234e38e6aa5fe39" := by decide
theorem pin_adt_filterSets : Gen.C05.pin_adt_filterSets = "80a5c60c4b763139" := by decide
theorem pin_adt_reqSets_lookupSet : Gen.C05.pin_adt_reqSets_lookupSet = "8575ab32ff297a8e" := by decide
theorem pin_adt_nodeContext_scheduleStruct : Gen.C05.pin_adt_nodeContext_scheduleStruct = "a54a7dac96c8caed" := by decide
theorem pin_adt_nodeContext_scheduleVertexConjuncts : Gen.C05.pin_adt_nodeContext_scheduleVertexConjuncts = "c079f5f0eddcdb68" := by decide
theorem pin_adt_OpContext_notAllowedError : Gen.C05.pin_adt_OpContext_notAllowedError = "d30a49f3f3e71c0a" := by decide

/-! ### arc-type merge: TRANSLATED from the guard and the final assignment of
`Vertex.updateArcType` (extract/c05_arc.go), proved equal to `Kind.merge` on the three
modelled kinds (the pin above stays as a tripwire for the rest of the body) -/
theorem updateArcType_translated (cur t : Kind) :
    Gen.C05.updateArcTypeResult (cur.rank : Int) (t.rank : Int) = ((cur.merge t).rank : Int) := by
  cases cur <;> cases t <;> decide
/-- the guard never fires because of `ArcNotPresent` for a modelled kind -/
theorem arcNotPresent_after : Gen.C05.arcNotPresent = 4 := by decide

/-! ### pattern constraints (Model/PatMatch.lean) -/
theorem pin_adt_matchPattern : Gen.C05.pin_adt_matchPattern = "6c1fa4be522ae07e" := by decide
theorem pin_adt_matchPatternValue : Gen.C05.pin_adt_matchPatternValue = "d1fe7ad2a87de116" := by decide
theorem pin_adt_BoundValue_validateStr : Gen.C05.pin_adt_BoundValue_validateStr = "6eac05120dd0bef9" := by decide

end CueVerif.Bridge.C05
