import CueVerif.Driver.Proto
import CueVerif.Model.Core
import CueVerif.Model.CoreDisj
/-!
Line protocol of C01.

`eval <tokens…>` — the words after `eval` are a prefix encoding of an expression:
  `T` top | `B` bottom | `i<int>` | `s<nat>` (n-th string constant) | `b0` | `b1` | `N` null
  | `tI` | `tS` | `tB` | `r<lo>:<hi>` (lo, hi an integer or `*`)
  | `&` e e | `c` e (close) | `{` n d1 … dn | `[` n e1 … en (closed list)
  declaration: `f<l>.` e (regular) | `f<l>?` e (optional) | `f<l>!` e (required) | `e` e (embedding)
answer: `bot` | `T` | scalar token (normalised) | `{<l><t>:<val>,…}` followed by `c` if closed
  | `[<val>,…]`.

`evald <tokens…>` — top-level disjunctions with default marks (Model/CoreDisj.lean):
  `|` d d | `*` d (mark) | `&` d d | otherwise a disjunction-free expression as above
answer: the non-bottom disjuncts rendered as above, duplicate-free (a disjunct is a default
if any of its copies is), sorted as strings: none ⇒ `bot`; one ⇒ `<val>`; several ⇒
`(<d>|<d>|…)` where a default disjunct is prefixed with `*` (only when the value carries
marks at all; `(*1|2)&(1|*2)` ⇒ `(i1|i2)`).
-/
namespace CueVerif.Driver.C01
open CueVerif CueVerif.Driver CueVerif.Core

def parseBound (s : String) : Option (Option Int) :=
  if s == "*" then some none else (parseInt? s).map some

/-- scalar tokens -/
def parseSc (tok : String) : Option Sc :=
  if tok == "N" then some .null
  else if tok == "b0" then some (.bool false)
  else if tok == "b1" then some (.bool true)
  else if tok == "tI" then some .tInt
  else if tok == "tS" then some .tStr
  else if tok == "tB" then some .tBool
  else if tok.startsWith "i" then (parseInt? (tok.drop 1).toString).map .int
  else if tok.startsWith "s" then ((tok.drop 1).toString.toNat?).map .str
  else if tok.startsWith "r" then
    match (tok.drop 1).toString.splitOn ":" with
    | [a, b] => do
      let lo ← parseBound a
      let hi ← parseBound b
      pure (.rng lo hi)
    | _ => none
  else none

/-- `f<l>.` / `f<l>?` / `f<l>!` -/
def parseFieldTok (tok : String) : Option (Nat × ArcTy) :=
  if tok.startsWith "f" && tok.length ≥ 3 then
    let body := (tok.drop 1).toString
    let num := (body.dropEnd 1).toString
    let t : Option ArcTy :=
      if body.endsWith "." then some .regular
      else if body.endsWith "?" then some .optional
      else if body.endsWith "!" then some .required
      else none
    match num.toNat?, t with
    | some l, some t => some (l, t)
    | _, _ => none
  else none

mutual
/-- total by fuel: every call consumes one unit -/
def parseExpr : Nat → List String → Option (Expr × List String)
  | 0, _ => none
  | _, [] => none
  | fuel + 1, tok :: rest =>
    if tok == "T" then some (.top, rest)
    else if tok == "B" then some (.bot, rest)
    else if tok == "&" then
      match parseExpr fuel rest with
      | some (a, rest1) =>
        match parseExpr fuel rest1 with
        | some (b, rest2) => some (.and a b, rest2)
        | none => none
      | none => none
    else if tok == "c" then
      match parseExpr fuel rest with
      | some (a, rest1) => some (.close a, rest1)
      | none => none
    else if tok == "{" then
      match rest with
      | nTok :: rest1 =>
        match nTok.toNat? with
        | some n =>
          match parseDecls fuel n rest1 with
          | some (ds, rest2) => some (.struct ds, rest2)
          | none => none
        | none => none
      | [] => none
    else if tok == "[" then
      match rest with
      | nTok :: rest1 =>
        match nTok.toNat? with
        | some n =>
          match parseList fuel n rest1 with
          | some (es, rest2) => some (.list es, rest2)
          | none => none
        | none => none
      | [] => none
    else
      match parseSc tok with
      | some s => some (.lit s, rest)
      | none => none
def parseList : Nat → Nat → List String → Option (Exprs × List String)
  | 0, _, _ => none
  | _ + 1, 0, ts => some (.nil, ts)
  | fuel + 1, n + 1, ts =>
    match parseExpr fuel ts with
    | some (e, rest1) =>
      match parseList fuel n rest1 with
      | some (es, rest2) => some (.cons e es, rest2)
      | none => none
    | none => none
def parseDecls : Nat → Nat → List String → Option (Decls × List String)
  | 0, _, _ => none
  | _ + 1, 0, ts => some (.nil, ts)
  | fuel + 1, n + 1, ts =>
    match parseDecl fuel ts with
    | some (d, rest1) =>
      match parseDecls fuel n rest1 with
      | some (ds, rest2) => some (.cons d ds, rest2)
      | none => none
    | none => none
def parseDecl : Nat → List String → Option (Decl × List String)
  | 0, _ => none
  | _, [] => none
  | fuel + 1, tok :: rest =>
    if tok == "e" then
      match parseExpr fuel rest with
      | some (a, rest1) => some (.embed a, rest1)
      | none => none
    else
      match parseFieldTok tok with
      | some (l, t) =>
        match parseExpr fuel rest with
        | some (a, rest1) => some (.field l t a, rest1)
        | none => none
      | none => none
end

def showBound : Option Int → String
  | none => "*"
  | some z => toString z

def showSc : Sc → String
  | .int z => "i" ++ toString z
  | .str n => "s" ++ toString n
  | .bool b => if b then "b1" else "b0"
  | .null => "N"
  | .tInt => "tI"
  | .tStr => "tS"
  | .tBool => "tB"
  | .rng lo hi => "r" ++ showBound lo ++ ":" ++ showBound hi

def showTy : ArcTy → String
  | .regular => "."
  | .optional => "?"
  | .required => "!"

mutual
def showVal : Val → String
  | .bot => "bot"
  | .top => "T"
  | .sc s => showSc s
  | .struct xs c => "{" ++ ",".intercalate (showSlots 0 xs) ++ "}" ++ (if c then "c" else "")
  | .list vs => "[" ++ ",".intercalate (showVals vs) ++ "]"
def showSlots : Nat → Slots → List String
  | _, .nil => []
  | i, .cons .none rest => showSlots (i + 1) rest
  | i, .cons (.some t v) rest => (toString i ++ showTy t ++ ":" ++ showVal v) :: showSlots (i + 1) rest
def showVals : Vals → List String
  | .nil => []
  | .cons v rest => showVal v :: showVals rest
end

/-- total by fuel -/
def parseD : Nat → List String → Option (DExpr × List String)
  | 0, _ => none
  | _, [] => none
  | fuel + 1, tok :: rest =>
    if tok == "|" then
      match parseD fuel rest with
      | some (a, rest1) =>
        match parseD fuel rest1 with
        | some (b, rest2) => some (.or a b, rest2)
        | none => none
      | none => none
    else if tok == "&" then
      match parseD fuel rest with
      | some (a, rest1) =>
        match parseD fuel rest1 with
        | some (b, rest2) => some (.and a b, rest2)
        | none => none
      | none => none
    else if tok == "*" then
      match parseD fuel rest with
      | some (a, rest1) => some (.mark a, rest1)
      | none => none
    else
      match parseExpr (fuel + 1) (tok :: rest) with
      | some (e, rest1) => some (.leaf e, rest1)
      | none => none

/-- insert into a list sorted by string, merging equal strings (flags or-ed) -/
def insertD (s : String) (b : Bool) : List (String × Bool) → List (String × Bool)
  | [] => [(s, b)]
  | (t, c) :: rest =>
    if s == t then (t, b || c) :: rest
    else if s < t then (s, b) :: (t, c) :: rest
    else (t, c) :: insertD s b rest

def showD (x : DVal) : String :=
  let ds := (x.items.filter (fun p => !p.1.isBot)).foldl
    (fun acc p => insertD (showVal p.1) (x.hm && p.2) acc) []
  match ds with
  | [] => "bot"
  | [(s, _)] => s
  | _ => "(" ++ "|".intercalate (ds.map fun (s, b) => (if b then "*" else "") ++ s) ++ ")"

/-- protocol handler for C01: words of one op line (after the property id) → answer -/
def handle (ws : List String) : String :=
  match ws with
  | "eval" :: toks =>
    match parseExpr (2 * toks.length + 4) toks with
    | some (e, []) => showVal (eval e)
    | _ => "bad-op"
  | "evald" :: toks =>
    match parseD (2 * toks.length + 4) toks with
    | some (e, []) => showD (evalD e)
    | _ => "bad-op"
  | _ => "bad-op"

end CueVerif.Driver.C01
