import CueVerif.Driver.Proto
namespace CueVerif.Driver.C01
open CueVerif CueVerif.Driver

/-- protocol handler for C01: words of one op line (after the property id) → answer -/
def handle (ws : List String) : String :=
  match ws with
  | _ => "bad-op"

end CueVerif.Driver.C01
