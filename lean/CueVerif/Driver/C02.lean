import CueVerif.Driver.Proto
import CueVerif.Model.Sanitize
import CueVerif.Model.Toposort
import CueVerif.Model.VertexFeatures
import CueVerif.Driver.C02Scan
namespace CueVerif.Driver.C02
open CueVerif CueVerif.Driver

/-! protocol handler for C02

  san  <errs>                    errs = "-" | e;e;…   e = fid.nameHex.off.bits/paths/msgHex/aux
                                 paths = "~" (no path) | hex,hex,…   → the surviving errors, same syntax
  topo <fixed> <labels> <edges>  labels = "-" | l,l,…  l = i<idx> | n<typ>.<hex>; edges = "-" | a>b,…
                                 (indices into labels) → "ok l,l,…" | "panic" | "fuel"
  scc  <labels> <edges>          → "ok c;c;…" every component's labels sorted, components sorted
  vf   <arcs> <roots>            arcs = labels; roots = r;r;…  r = id/pos/explicit/labels (pos as in `san`)
                                 → "ok l,l,…" (the order `toposort.VertexFeatures` returns)
-/

def parsePos (s : String) : Option Sanitize.Pos :=
  match s.splitOn "." with
  | [a, b, c, d] => do
    let fid ← a.toNat?
    let name ← unhex b
    let off ← c.toNat?
    let bits ← d.toNat?
    pure ⟨fid, name, off, bits⟩
  | _ => none

def parsePath (s : String) : Option (List (List Nat)) :=
  if s == "~" then some [] else (s.splitOn ",").mapM unhex

def parseErr (s : String) : Option Sanitize.Err :=
  match s.splitOn "/" with
  | [p, pa, m, a] => do
    let pos ← parsePos p
    let path ← parsePath pa
    let msg ← unhex m
    let aux ← a.toNat?
    pure ⟨pos, path, msg, aux⟩
  | _ => none

def showErr (e : Sanitize.Err) : String :=
  let p := e.pos
  let path := if e.path.isEmpty then "~" else ",".intercalate (e.path.map hex)
  s!"{p.fid}.{hex p.name}.{p.off}.{p.bits}/{path}/{hex e.msg}/{e.aux}"

def parseLabel (s : String) : Option Toposort.Label :=
  if s.startsWith "i" then (s.drop 1).toNat?.map Toposort.Label.int
  else if s.startsWith "n" then
    match (s.drop 1).toString.splitOn "." with
    | [t, h] => do
      let typ ← t.toNat?
      let str ← unhex h
      pure (Toposort.Label.named typ str)
    | _ => none
  else none

def showLabel : Toposort.Label → String
  | .int i => s!"i{i}"
  | .named t s => s!"n{t}.{hex s}"

def parseEdge (s : String) : Option (Nat × Nat) :=
  match s.splitOn ">" with
  | [a, b] => do pure (← a.toNat?, ← b.toNat?)
  | _ => none

/-- the presentation the harness built: nodes in the given order, successors in AddEdge
order, repeated edges ignored (GraphBuilder.edgesSet) -/
def mkGraph (labels : List Toposort.Label) (edges : List (Nat × Nat)) : Option Toposort.Graph := do
  let es ← edges.mapM fun (a, b) => do
    let u ← labels[a]?
    let v ← labels[b]?
    pure (u, v)
  let es := es.eraseDups
  pure ⟨labels, fun u => (es.filter (fun e => e.1 == u)).map (·.2)⟩

def parseGraph (ls es : String) : Option Toposort.Graph := do
  let labels ← if ls == "-" then some [] else (ls.splitOn ",").mapM parseLabel
  let edges ← if es == "-" then some [] else (es.splitOn ",").mapM parseEdge
  mkGraph labels edges

def parseLabels (s : String) : Option (List Toposort.Label) :=
  if s == "-" then some [] else (s.splitOn ",").mapM parseLabel

def parseRoot (s : String) : Option Toposort.Root :=
  match s.splitOn "/" with
  | [i, p, e, ls] => do
    let id ← i.toNat?
    let pos ← parsePos p
    let labels ← parseLabels ls
    pure ⟨id, pos, e == "1", labels⟩
  | _ => none

def insStr (x : String) : List String → List String
  | [] => [x]
  | y :: ys => if x ≤ y then x :: y :: ys else y :: insStr x ys

def sortStr (l : List String) : List String := l.foldr insStr []

def dash (s : String) : String := if s.isEmpty then "-" else s

def handle (ws : List String) : String :=
  match ws with
  | ["san", l] =>
    match (if l == "-" then some [] else (l.splitOn ";").mapM parseErr) with
    | some es => dash (";".intercalate ((Sanitize.sanitizeTop es).map showErr))
    | none => "bad-op"
  | ["topo", f, ls, es] =>
    match parseGraph ls es with
    | some g =>
      match Toposort.sortG (f == "1") Toposort.stableSort g with
      | .ok l => "ok " ++ dash (",".intercalate (l.map showLabel))
      | .panic => "panic"
      | .fuel => "fuel"
    | none => "bad-op"
  | ["scc", ls, es] =>
    match parseGraph ls es with
    | some g =>
      let cs := (Toposort.tarjan g).map fun c => ",".intercalate (sortStr (c.map showLabel))
      "ok " ++ dash (";".intercalate (sortStr cs))
    | none => "bad-op"
  | ["vf", as, rs] =>
    match parseLabels as, (rs.splitOn ";").mapM parseRoot with
    | some arcs, some roots =>
      match Toposort.vertexFeatures Toposort.stableSort arcs roots with
      | .ok l => "ok " ++ dash (",".intercalate (l.map showLabel))
      | .panic => "panic"
      | .fuel => "fuel"
    | _, _ => "bad-op"
  | ws => (C02Scan.handle ws).getD "bad-op"

end CueVerif.Driver.C02
