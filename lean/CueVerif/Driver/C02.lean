import CueVerif.Driver.Proto
namespace CueVerif.Driver.C02
open CueVerif CueVerif.Driver

/-- protocol handler for C02: words of one op line (after the property id) → answer -/
def handle (ws : List String) : String :=
  match ws with
  | _ => "bad-op"

end CueVerif.Driver.C02
