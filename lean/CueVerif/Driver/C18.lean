import CueVerif.Driver.Proto
import CueVerif.Spec.Flow
/-!
Line protocol for C18 (tools/flow).

  run   <tasks> <aux> <guards>   outcome of the described workflow when no task fails:
                                 "ok <terminated ids> inst=<ids>" | "cycle" | "deadlock"
  deps  <tasks> <aux> <guards>   dependency edges the description denotes (`specDeps`)
  depsx <tasks> <aux> <guards>   the same (compared with ALL discovered edges, I-level)
  trace <events>                 replay a recorded history of the real controller against the
                                 model: every observed event must be enabled in the model,
                                 every UpdateFunc snapshot must equal the model's task states
                                 and dependency sets; answers "ok <kind> <states> inst=<ids>"

Workflow text: tasks `;`-separated, each `<group|->:<refs|->`, refs `,`-separated
`t<i>` | `a<j>` | `g<j>`; aux fields `;`-separated ref lists; guards `,`-separated.
-/
namespace CueVerif.Driver.C18
open CueVerif CueVerif.Driver CueVerif.Flow

def insertNat (x : Nat) : List Nat → List Nat
  | [] => [x]
  | y :: ys => if x ≤ y then x :: y :: ys else y :: insertNat x ys

def sortNat (xs : List Nat) : List Nat := xs.foldr insertNat []

def natsStr (xs : List Nat) : String :=
  if xs.isEmpty then "-" else ",".intercalate ((sortNat xs).map toString)

/-- Re-tabulate the task table (performance only: the model keeps `tasks` as a function and
every step wraps it in another closure).  Extensionally the identity on every state in
which tasks beyond `n` are pristine — which `Inv.fresh` proves for all reachable states. -/
def norm (s : Ctl) : Ctl :=
  let arr := ((List.range s.n).map s.tasks).toArray
  { s with tasks := fun i => arr.getD i {} }

/-! ### workflow descriptions -/

def parseRef (s : String) : Option Ref :=
  match s.toList with
  | 't' :: r => (String.ofList r).toNat?.map Ref.task
  | 'a' :: r => (String.ofList r).toNat?.map Ref.aux
  | 'g' :: r => (String.ofList r).toNat?.map Ref.grp
  | _ => none

def parseRefs (s : String) : Option (List Ref) :=
  if s == "-" then some [] else (s.splitOn ",").mapM parseRef

def parseTask (s : String) : Option TaskDecl :=
  match s.splitOn ":" with
  | [g, rs] => do
    let refs ← parseRefs rs
    if g == "-" then pure { group := none, refs := refs }
    else do let j ← g.toNat?; pure { group := some j, refs := refs }
  | _ => none

def parseWF (ts as gs : String) : Option Workflow := do
  let tasks ← if ts == "-" then some [] else (ts.splitOn ";").mapM parseTask
  let aux ← if as == "-" then some [] else (as.splitOn ";").mapM parseRefs
  let guards ← natList? gs
  pure { tasks := tasks, aux := aux, guards := guards }

def edgesStr (es : List (Nat × List Nat)) : String :=
  let parts := (es.filter (fun e => !e.2.isEmpty)).map fun e => s!"{e.1}>{natsStr e.2}"
  if parts.isEmpty then "-" else ";".intercalate parts

def specEdges (w : Workflow) : String :=
  edgesStr ((List.range w.tasks.length).map fun i => (i, specDeps w i))

def discEdges (w : Workflow) : String :=
  edgesStr ((List.range w.tasks.length).map fun i => (i, discDeps w i))

/-! ### simulated run of a described workflow (no failure) -/

def posOf (idx : List Nat) (id : Nat) : Option Nat :=
  let rec go (l : List Nat) (k : Nat) : Option Nat :=
    match l with
    | [] => none
    | x :: xs => if x = id then some k else go xs (k + 1)
  go idx 0

/-- all denoted edges between present tasks, in model indices -/
def presentEdges (w : Workflow) (idx : List Nat) : List (Nat × Nat) :=
  (List.range idx.length).flatMap fun k =>
    match idx[k]? with
    | some i => (specDeps w i).filterMap fun d => (posOf idx d).map fun p => (k, p)
    | none => []

def firstRunning (s : Ctl) : Option Nat :=
  (List.range s.n).find? fun i => (s.tasks i).state = .running

def simulate (w : Workflow) : Nat → Ctl → List Nat → Ctl × List Nat
  | 0, s, idx => (s, idx)
  | fuel + 1, s, idx =>
    if s.stopped then (s, idx) else
    match firstRunning s with
    | none => (s, idx)
    | some k =>
      let id := idx.getD k 0
      let newIds := (List.range w.tasks.length).filter fun i =>
        !(idx.contains i) &&
        (match w.tasks[i]? with
         | some d => (match d.group with
            | some j => w.guards[j]? == some id
            | none => false)
         | none => false)
      let idx' := idx ++ newIds
      let g : Growth := { newTasks := newIds.length, newDeps := presentEdges w idx' }
      simulate w fuel (norm (onComplete s k true true g)) idx'

def stateChar : TState → Char
  | .waiting => 'w' | .ready => 'r' | .running => 'x' | .terminated => 't'

def runAnswer (w : Workflow) : String :=
  let idx0 := (List.range w.tasks.length).filter fun i =>
    match w.tasks[i]? with | some d => d.group.isNone | none => false
  let s0 := norm (start (new { newTasks := idx0.length, newDeps := presentEdges w idx0 }))
  let (s, idx) := simulate w (w.tasks.length + 2) s0 idx0
  -- the outcome the specification prescribes: a cycle among the tasks that would exist
  let ex := w.existing
  let specCyclic := checkCycle w.tasks.length (fun i => if ex.contains i then (specDeps w i).filter ex.contains else [])
  let ans :=
    if s.deadlock then "deadlock"
    else if s.errs then "cycle"
    else if !s.stopped then "fuel"
    else
      let term := (List.range s.n).filter fun k => (s.tasks k).state = .terminated
      "ok " ++ natsStr (term.map fun k => idx.getD k 0) ++ " inst=" ++ natsStr (s.inst.map fun k => idx.getD k 0)
  if (ans == "cycle") != specCyclic then "model-inconsistent " ++ ans else ans

/-! ### trace replay -/

structure Snap where
  states : List Char
  deps : List (List Nat)

def parseSnapTask (s : String) : Option (Char × List Nat) :=
  match s.toList with
  | [] => none
  | c :: r =>
    let rs := String.ofList r
    if rs.isEmpty then some (c, []) else
      ((rs.splitOn "+").mapM (fun (x : String) => x.toNat?)).map fun ds => (c, ds)

def parseSnap (s : String) : Option Snap :=
  if s == "-" then some ⟨[], []⟩ else do
    let ts ← (s.splitOn ",").mapM parseSnapTask
    pure ⟨ts.map (·.1), ts.map (·.2)⟩

structure Rep where
  ctl : Ctl := {}
  started : Bool := false
  startedTasks : List Nat := []
  ended : List (Nat × Bool × Bool) := []
  recvd : List Nat := []
  final : Option String := none

/-- task states as `markReady` left them: tasks dispatched at clock ≥ `since` were Ready -/
def statesAtMark (s : Ctl) (since : Nat) : List Char :=
  (List.range s.n).map fun i =>
    let t := s.tasks i
    let recent : Bool := match t.startAt with
      | some k => decide (since ≤ k)
      | none => false
    if t.state = .running ∧ recent = true then 'r' else stateChar t.state

def depsOfCtl (s : Ctl) : List (List Nat) :=
  (List.range s.n).map fun i => sortNat (s.tasks i).deps

def snapMatches (s : Ctl) (since : Nat) (sn : Snap) : Bool :=
  statesAtMark s since == sn.states && depsOfCtl s == sn.deps.map sortNat

def growthOf (s : Ctl) (sn : Snap) : Growth :=
  { newTasks := sn.states.length - s.n,
    newDeps := (List.range sn.deps.length).flatMap fun i =>
      ((sn.deps.getD i []).filter fun d => !((s.tasks i).deps.contains d)).map fun d => (i, d) }

def finalAnswer (kind : String) (s : Ctl) : String :=
  s!"ok {kind} {String.ofList ((List.range s.n).map fun i => stateChar (s.tasks i).state)} inst={natsStr s.inst}"

def splitEv (e : String) : Option (Char × String × String) :=
  match e.toList with
  | [] => none
  | k :: rest =>
    match (String.ofList rest).splitOn ":" with
    | [a, b] => some (k, a, b)
    | _ => none

def stepEv (r : Rep) (e : String) : Except String Rep :=
  match splitEv e with
  | none => .error s!"bad-event {e}"
  | some (k, a, b) =>
    if r.final.isSome then .error s!"event-after-return {e}" else
    match k with
    | 'U' =>
      match parseSnap b with
      | none => .error s!"bad-snapshot {e}"
      | some sn =>
        if a == "-" then
          if r.started then .error "second-init" else
          let g : Growth := { newTasks := sn.states.length,
                              newDeps := (List.range sn.deps.length).flatMap fun i => (sn.deps.getD i []).map fun d => (i, d) }
          let s := norm (start (new g))
          if snapMatches s 0 sn then .ok { r with ctl := s, started := true }
          else .error s!"init-snapshot-mismatch model={String.ofList (statesAtMark s 0)}"
        else
          match a.toNat? with
          | none => .error s!"bad-event {e}"
          | some t =>
            let s := r.ctl
            if !r.started then .error "update-before-init"
            else if s.stopped then .error s!"update-after-stop {t}"
            else if !(t < s.n ∧ (s.tasks t).state = .running) then .error s!"completion-of-non-running {t}"
            else if r.recvd.contains t then .error s!"completion-twice {t}"
            else match r.ended.find? (fun x => x.1 == t) with
              | none => .error s!"completion-before-runner-end {t}"
              | some (_, ok, fill) =>
                if !ok then .error s!"update-after-failure {t}"
                else
                  let s' := norm (onComplete s t true fill (growthOf s sn))
                  if snapMatches s' (s.clock + 1) sn then .ok { r with ctl := s', recvd := t :: r.recvd }
                  else .error s!"snapshot-mismatch after {t} model={String.ofList (statesAtMark s' (s.clock + 1))}"
    | 'S' =>
      match a.toNat? with
      | none => .error s!"bad-event {e}"
      | some t =>
        let s := r.ctl
        if !(r.started ∧ t < s.n ∧ (s.tasks t).state = .running) then .error s!"start-without-dispatch {t}"
        else if r.startedTasks.contains t then .error s!"started-twice {t}"
        else if b != "1" then .error s!"stale-input {t}"
        else .ok { r with startedTasks := t :: r.startedTasks }
    | 'E' =>
      match a.toNat? with
      | none => .error s!"bad-event {e}"
      | some t =>
        if !(r.startedTasks.contains t) then .error s!"end-without-start {t}"
        else if (r.ended.any fun x => x.1 == t) then .error s!"ended-twice {t}"
        else .ok { r with ended := (t, b.startsWith "1", b.endsWith "1") :: r.ended }
    | 'R' =>
      match parseSnap b with
      | none => .error s!"bad-snapshot {e}"
      | some sn =>
        let s := r.ctl
        if !r.started then .error "return-before-init" else
        let fin (s' : Ctl) : Except String Rep :=
          if String.ofList ((List.range s'.n).map fun i => stateChar (s'.tasks i).state) == String.ofList sn.states
              && depsOfCtl s' == sn.deps.map sortNat
          then .ok { r with ctl := s', final := some (finalAnswer a s') }
          else .error s!"final-mismatch {a} model={String.ofList ((List.range s'.n).map fun i => stateChar (s'.tasks i).state)}"
        if a == "ok" then
          if s.stopped ∧ !s.errs ∧ !s.cancelled then fin s else .error "returned-ok-but-model-not-finished"
        else if a == "cycle" then
          if s.stopped ∧ s.errs ∧ !s.deadlock then fin s else .error "returned-cycle-but-model-has-none"
        else if a == "fail" then
          -- the failed completion is the one the controller received last
          match r.ended.find? (fun x => !x.2.1 && !(r.recvd.contains x.1)) with
          | none => .error "returned-failure-without-failed-runner"
          | some (t, _, fill) =>
            if s.stopped then .error "failure-after-stop"
            else if !(t < s.n ∧ (s.tasks t).state = .running) then .error s!"failure-of-non-running {t}"
            else fin (norm (onComplete s t false fill {}))
        else if a == "cancel" then
          if s.stopped then fin s else fin { s with stopped := true, cancelled := true }
        else .error s!"returned-{a}"
    | _ => .error s!"bad-event {e}"

def replay (evs : List String) : String :=
  let rec go (r : Rep) : List String → String
    | [] => match r.final with
      | some a => a
      | none => "no-return-event"
    | e :: es =>
      match stepEv r e with
      | .ok r' => go r' es
      | .error m => m
  go {} evs

def handle (ws : List String) : String :=
  match ws with
  | ["run", ts, as, gs] =>
    match parseWF ts as gs with
    | some w => runAnswer w
    | none => "bad-op"
  | ["deps", ts, as, gs] =>
    match parseWF ts as gs with
    | some w => specEdges w
    | none => "bad-op"
  | ["depsx", ts, as, gs] =>
    match parseWF ts as gs with
    | some w => discEdges w
    | none => "bad-op"
  | ["trace", evs] => replay (evs.splitOn ";")
  | _ => "bad-op"

end CueVerif.Driver.C18
