import CueVerif.Driver.Proto
import CueVerif.Spec.JsonDoc
import CueVerif.Model.JsonDoc
/-!
Document-level protocol helpers for C10.  A tree travels as space separated words in prefix
order:  `n` | `t` | `f` | `#<neg 0/1>:<coeff>:<exp>` | `s<hex or ->` | `a<k>` v1 … vk |
`o<k>` <hex key 1> v1 … <hex key k> vk.
-/
namespace CueVerif.Driver.C10Doc
open CueVerif CueVerif.Driver CueVerif.Json

mutual
def readVal : Nat → List String → Option (MVal × List String)
  | 0, _ => none
  | _ + 1, [] => none
  | fuel + 1, w :: ws =>
    match w.toList with
    | ['n'] => some (.null, ws)
    | ['t'] => some (.bool true, ws)
    | ['f'] => some (.bool false, ws)
    | '#' :: cs =>
      match (String.ofList cs).splitOn ":" with
      | [a, b, c] =>
        match b.toNat?, parseInt? c with
        | some co, some e => some (.num (a == "1") co e, ws)
        | _, _ => none
      | _ => none
    | 's' :: cs =>
      match unhex (String.ofList cs) with
      | some s => some (.str s, ws)
      | none => none
    | 'a' :: cs =>
      match (String.ofList cs).toNat? with
      | some k =>
        match readVals fuel k ws with
        | some (es, ws') => some (.list es, ws')
        | none => none
      | none => none
    | 'o' :: cs =>
      match (String.ofList cs).toNat? with
      | some k =>
        match readFields fuel k ws with
        | some (fs, ws') => some (.struct fs, ws')
        | none => none
      | none => none
    | _ => none
def readVals : Nat → Nat → List String → Option (List MVal × List String)
  | 0, _, _ => none
  | _ + 1, 0, ws => some ([], ws)
  | fuel + 1, k + 1, ws =>
    match readVal fuel ws with
    | some (v, ws') =>
      match readVals fuel k ws' with
      | some (vs, ws'') => some (v :: vs, ws'')
      | none => none
    | none => none
def readFields : Nat → Nat → List String → Option (List (List Nat × MVal) × List String)
  | 0, _, _ => none
  | _ + 1, 0, ws => some ([], ws)
  | _ + 1, _ + 1, [] => none
  | fuel + 1, k + 1, kw :: ws =>
    match unhex kw with
    | none => none
    | some key =>
      match readVal fuel ws with
      | some (v, ws') =>
        match readFields fuel k ws' with
        | some (fs, ws'') => some ((key, v) :: fs, ws'')
        | none => none
      | none => none
end

/-- the whole word list must be one tree -/
def readTree (ws : List String) : Option MVal :=
  match readVal (2 * ws.length + 2) ws with
  | some (v, []) => some v
  | _ => none

mutual
def showJ : JVal → List String
  | .null => ["n"]
  | .bool true => ["t"]
  | .bool false => ["f"]
  | .num neg c e => [s!"#{if neg then "1" else "0"}:{c}:{e}"]
  | .str s => ["s" ++ hex s]
  | .arr es => s!"a{es.length}" :: showJs es
  | .obj ms => s!"o{ms.length}" :: showMs ms
def showJs : List JVal → List String
  | [] => []
  | v :: vs => showJ v ++ showJs vs
def showMs : List (List Nat × JVal) → List String
  | [] => []
  | (k, v) :: ms => hex k :: (showJ v ++ showMs ms)
end

def showTree (v : JVal) : String := " ".intercalate (showJ v)

def handleDoc (ws : List String) : Option String :=
  match ws with
  | "doc" :: tree =>
    match readTree tree with
    | some v => some (hex (appendJSON v))
    | none => some "bad-op"
  | "mstream" :: tree =>
    -- pkg/encoding/json.MarshalStream of a list value
    match readTree tree with
    | some (.list vs) => some (hex (marshalStream vs))
    | _ => some "bad-op"
  | ["docdata" , h] =>
    -- what the reference parser makes of the model's own output is not asked here; `docdata`
    -- is the SPEC reading of an arbitrary text
    match unhex h with
    | none => some "bad-op"
    | some t =>
      match parseJSON t with
      | some v => some ("ok " ++ showTree v)
      | none => some "invalid"
  | ["jstream", h] =>
    match unhex h with
    | none => some "bad-op"
    | some t =>
      let (vs, ok) := parseStream (t.length + 1) t
      some (s!"{vs.length} {if ok then "eof" else "err"}" ++
        String.join (vs.map fun v => " | " ++ showTree v))
  | _ => none

end CueVerif.Driver.C10Doc
