import CueVerif.Driver.Proto
import CueVerif.Model.Quote
import CueVerif.Model.NumLit
import CueVerif.Model.Ident
import CueVerif.Driver.C09Token
import CueVerif.Driver.C09Scan
namespace CueVerif.Driver.C09
open CueVerif CueVerif.Driver

/-- form code: `<S|B><multiline><auto><autoHash><asciiOnly><graphicOnly>.<indent>`, e.g. `S01010.2` -/
def parseForm (w : String) : Option Quote.Form :=
  match w.splitOn "." with
  | [flags, ind] =>
    match flags.toList, ind.toNat? with
    | [k, m, a, h, asc, g], some n =>
      let base : Option Quote.Form :=
        if k == 'S' then some Quote.stringForm else if k == 'B' then some Quote.bytesForm else none
      base.map fun b =>
        { b with multiline := m == '1', auto := a == '1', autoHash := h == '1',
                 asciiOnly := asc == '1', graphicOnly := g == '1', indent := n }
    | _, _ => none
  | _ => none

/-- `cp:flags,cp:flags,…` (bit 0 = strconv.IsPrint, bit 1 = strconv.IsGraphic), "-" for none -/
def parseEnv (w : String) : Option Quote.Env :=
  if w == "-" then some { isPrint := fun _ => false, isGraphic := fun _ => false } else
  let items := (w.splitOn ",").mapM fun it =>
    match it.splitOn ":" with
    | [a, b] => do let x ← a.toNat?; let y ← b.toNat?; pure (x, y)
    | _ => none
  items.map fun tbl =>
    let look (r : Nat) : Nat := match tbl.find? (fun e => e.1 == r) with
      | some e => e.2
      | none => 0
    { isPrint := fun r => look r % 2 == 1, isGraphic := fun r => look r / 2 % 2 == 1 }

def errStr : Quote.Err → String
  | .syntax => "syntax" | .missingOpeningNewline => "opening-newline"
  | .missingClosingNewline => "closing-newline" | .unmatchedQuote => "unmatched"
  | .surrogate => "surrogate" | .invalidUTF8 => "utf8" | .escapedLastNewline => "escaped-last-newline"
  | .whitespace => "whitespace" | .panic => "panic" | .fuel => "fuel"

def resStr : Except Quote.Err Quote.Bytes → String
  | .ok b => "ok " ++ hex b
  | .error e => "err " ++ errStr e

/-- the code points `for _, r := range s` yields (U+FFFD for every invalid byte) -/
def runesOf : Nat → Quote.Bytes → List Nat
  | 0, _ => []
  | _, [] => []
  | fuel + 1, b :: rest =>
    let rw := Quote.decodeRune (b :: rest)
    rw.1 :: runesOf fuel (rest.drop (rw.2 - 1))

def kindStr : Option NumLit.Kind → String
  | some .int => "int" | some .float => "float" | none => "no"

/-- `cp:flags,…` (bit 0 = unicode.IsLetter, bit 1 = unicode.IsDigit) for the runes ≥ 0x80 -/
def parseClasses (w : String) : Option ((Nat → Bool) × (Nat → Bool)) :=
  if w == "-" then some (fun _ => false, fun _ => false) else
  let items := (w.splitOn ",").mapM fun it =>
    match it.splitOn ":" with
    | [a, b] => do let x ← a.toNat?; let y ← b.toNat?; pure (x, y)
    | _ => none
  items.map fun tbl =>
    let look (r : Nat) : Nat := match tbl.find? (fun e => e.1 == r) with
      | some e => e.2
      | none => 0
    (fun r => look r % 2 == 1, fun r => look r / 2 % 2 == 1)

/-- protocol handler for C09: words of one op line (after the property id) → answer -/
def handle (ws : List String) : String :=
  match ws with
  | ["quote", form, s, env] =>
    match parseForm form, unhex s, parseEnv env with
    | some f, some b, some E => hex (Quote.quote E f b)
    | _, _, _ => "bad-op"
  | ["unquote", s] =>
    match unhex s with
    | some b => resStr (Quote.unquote b)
    | none => "bad-op"
  | ["num", s] =>
    match unhex s with
    | some b => kindStr (NumLit.scannerAccepts b) ++ " " ++ kindStr (NumLit.parseNum b)
    | none => "bad-op"
  | ["ident", s, cls] =>
    match unhex s, parseClasses cls with
    | some b, some (lU, dU) =>
      let cps := runesOf (b.length + 1) b
      boolStr (Ident.scanIdentClean lU dU cps) ++ " " ++ boolStr (Ident.isValidIdent lU dU cps)
    | _, _ => "bad-op"
  | ["decode", s] =>
    -- utf8.DecodeRuneInString / DecodeLastRuneInString of the model's own decoder
    match unhex s with
    | some b =>
      let a := Quote.decodeRune b
      let z := Quote.decodeLastRune b
      s!"{a.1} {a.2} {z.1} {z.2}"
    | none => "bad-op"
  | ["encode", r] =>
    match r.toNat? with
    | some n => hex (Quote.encodeRune n)
    | none => "bad-op"
  | ["isspace", r] =>
    match r.toNat? with
    | some n => boolStr (Quote.isSpace n)
    | none => "bad-op"
  | _ =>
    match C09Token.handle ws with
    | some a => a
    | none =>
      match C09Scan.handle ws with
      | some a => a
      | none => "bad-op"

end CueVerif.Driver.C09
