import CueVerif.Driver.Proto
import CueVerif.Model.Intern
namespace CueVerif.Driver.C19
open CueVerif CueVerif.Driver CueVerif.Lockset

/-- comma separated hex keys -/
def parseKeys (s : String) : Option (List Intern.Key) :=
  if s == "." then some [] else (s.splitOn ",").mapM unhex

/-- `hexkey:idx,…` -/
def parseObs (s : String) : Option (List (Intern.Key × Nat)) :=
  if s == "." then some [] else
  (s.splitOn ",").mapM fun e =>
    match e.splitOn ":" with
    | [k, i] => do let k ← unhex k; let i ← i.toNat?; pure (k, i)
    | _ => none

def natsStr (xs : List Nat) : String := if xs.isEmpty then "." else ",".intercalate (xs.map toString)

/-- run the MODEL machine: one `getKey` call after the other (each spawned when the
previous one has finished), from a table of `base` placeholder entries; results in call
order -/
def seqRun (base : Nat) (keys : List Intern.Key) : List Nat :=
  let rec go (s : Intern.State) (ks : List Intern.Key) (acc : List Nat) : List Nat :=
    match ks with
    | [] => acc.reverse
    | k :: r =>
      let s1 : Intern.State := { s with ths := s.ths ++ [Th.new Intern.getKeyProg (Intern.mkLoc k 0)] }
      let s2 := drain Intern.sem 24 s1
      match s2.ths.getLast? with
      | some t => go s2 r ((if t.st == .done then t.loc.p else 999999999) :: acc)
      | none => acc.reverse
  go { data := Intern.baseTab base, ths := [] } keys []

/-- run the MODEL machine concurrently: all calls spawned up front, then the given
schedule (thread indices; disabled entries are skipped), then drained -/
def concRun (base : Nat) (keys : List Intern.Key) (sched : List Nat) : List (Intern.Key × Nat) :=
  let s0 : Intern.State :=
    { data := Intern.baseTab base, ths := keys.map fun k => Th.new Intern.getKeyProg (Intern.mkLoc k 0) }
  let s1 := replay Intern.sem s0 sched
  let s2 := drain Intern.sem (24 * (keys.length + 1)) s1
  s2.ths.map fun t => (t.loc.s, if t.st == .done then t.loc.p else 999999999)

def handle (ws : List String) : String :=
  match ws with
  | ["seq", base, keys] =>
    -- sequential answers of the model for a series of getKey calls (indices as handed out)
    match base.toNat?, parseKeys keys with
    | some b, some ks => natsStr (seqRun b ks)
    | _, _ => "bad-op"
  | ["hist", base, obs] =>
    -- is this set of (key, index) results of concurrent getKey calls explainable by a
    -- sequential order of atomic insert-once operations (the spec)?
    match base.toNat?, parseObs obs with
    | some b, some o => if InternSpec.explainable b o then "ok" else "bad"
    | _, _ => "bad-op"
  | ["sched", base, keys, sched] =>
    -- model self-consistency under an arbitrary schedule: the model's own concurrent
    -- results judged by the spec (always "ok" by C19_intern_linearizable)
    match base.toNat?, parseKeys keys, natList? sched with
    | some b, some ks, some sc =>
      if InternSpec.explainable b (concRun b ks sc) then "ok" else "bad"
    | _, _, _ => "bad-op"
  | _ => "bad-op"

end CueVerif.Driver.C19
