import CueVerif.Driver.Proto
import CueVerif.Model.Yaml
import CueVerif.Model.YamlPrint
namespace CueVerif.Driver.C11
open CueVerif CueVerif.Driver CueVerif.Yaml

def tokOf (c : Char) : Option Tok :=
  match c with
  | 's' => some .str | 'b' => some .bool | 'n' => some .null | 'i' => some .implicitNull
  | 'f' => some .inf | 'a' => some .nan | 'm' => some .merge | 'd' => some .int
  | 'e' => some .float | 'q' => some .quoted | 'o' => some .other
  | _ => none

/-- `<single><type letter><same>` e.g. `1s1` -/
def parseLex (w : String) : Option Lex :=
  match w.toList with
  | [a, t, c] => (tokOf t).map fun ty => { single := a == '1', ty := ty, same := c == '1' }
  | _ => none

def styleStr : Style → String
  | .plain => "plain" | .single => "single" | .double => "double" | .literal => "literal"

def classStr : Class → String
  | .null => "null"
  | .bool v => "bool " ++ boolStr v
  | .int l => "int " ++ hex l
  | .float l => "float " ++ hex l
  | .numberAnd l => "number& " ++ hex l
  | .str s => "str " ++ hex s
  | .err => "err"
  | .other => "other"

def reOf (n : String) : Option RE :=
  if n == "useQuote" then some reUseQuote
  else if n == "rxAnyOctalYaml11" then some reAnyOctal
  else if n == "rxYamlInt" then some reYamlInt
  else if n == "rxYamlFloat" then some reYamlFloat
  else none

/-- protocol handler for C11: words of one op line (after the property id) → answer -/
def handle (ws : List String) : String :=
  match ws with
  | ["style", pos, s, multi, lex, libq, np] =>
    -- np: the runes of s that unicode.IsPrint rejects ("-" for none)
    match unhex s, parseLex lex, natList? np with
    | some bs, some lx, some bad =>
      let P : IsPrint := fun r => !bad.contains r
      if pos == "v" then styleStr (valueStyle P lx (libq == "1") bs (multi == "1"))
      else if pos == "k" then styleStr (keyStyle P lx (libq == "1") bs)
      else "bad-op"
    | _, _, _ => "bad-op"
  | ["style3", _, s] =>
    match unhex s with
    | some bs => if shouldQuoteV3 bs then "double" else "other"
    | none => "bad-op"
  | ["classify", t, v] =>
    match t.toList, unhex v with
    | [c], some bs => match tokOf c with
      | some ty => classStr (decodeScalar ty bs)
      | none => "bad-op"
    | _, _ => "bad-op"
  | ["re", n, s] =>
    match reOf n, unhex s with
    | some r, some bs => boolStr (r.matches bs)
    | _, _ => "bad-op"
  | ["block", ind, s] =>
    -- what a YAML parser reads back from the literal block the emitter writes for s
    match ind.toNat?, unhex s with
    | some n, some bs =>
      let e := emitBlock n bs
      if blockIllIndented e.2 then "err" else hex (parseBlock e.1 e.2)
    | _, _ => "bad-op"
  | ["blocktext", ind, s] =>
    -- the bytes Encode prints for {k: <literal block of s>} (padding stripped)
    match ind.toNat?, unhex s with
    | some n, some bs => hex (printedBlockDoc (b "k") n bs)
    | _, _ => "bad-op"
  | ["strip", d] =>
    match unhex d with
    | some bs => hex (stripBlankLinePadding bs)
    | none => "bad-op"
  | ["sq", s] =>
    match unhex s with
    | some bs => hex (singleQuoted bs)
    | none => "bad-op"
  | ["flow", s] =>
    -- a string the library leaves plain, as an element of a flow sequence
    match unhex s with
    | some bs => match quoteFlowUnsafe bs with
      | some q => hex q
      | none => hex bs
    | none => "bad-op"
  | _ => "bad-op"

end CueVerif.Driver.C11
