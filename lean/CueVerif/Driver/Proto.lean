/-
Line-protocol helpers for the model driver (core Lean only).
Byte strings travel as lowercase hex ("-" for the empty string); integers in decimal.
-/
namespace CueVerif.Driver

def hexVal (c : Char) : Option Nat :=
  if '0' ≤ c ∧ c ≤ '9' then some (c.toNat - 48)
  else if 'a' ≤ c ∧ c ≤ 'f' then some (c.toNat - 87)
  else if 'A' ≤ c ∧ c ≤ 'F' then some (c.toNat - 55)
  else none

def unhexAux : List Char → List Nat → Option (List Nat)
  | [], acc => some acc.reverse
  | [_], _ => none
  | a :: b :: rest, acc =>
    match hexVal a, hexVal b with
    | some x, some y => unhexAux rest ((x * 16 + y) :: acc)
    | _, _ => none

def unhex (s : String) : Option (List Nat) :=
  if s == "-" then some [] else unhexAux s.toList []

def hexDigit (n : Nat) : Char :=
  if n < 10 then Char.ofNat (48 + n) else Char.ofNat (87 + n)

def hex (bs : List Nat) : String :=
  if bs.isEmpty then "-" else
  String.ofList (bs.flatMap fun b => [hexDigit (b / 16 % 16), hexDigit (b % 16)])

def ordStr : Ordering → String
  | .lt => "lt" | .eq => "eq" | .gt => "gt"

def boolStr (b : Bool) : String := if b then "true" else "false"

def words (line : String) : List String :=
  (line.splitOn " ").filter (· ≠ "")

def parseInt? (s : String) : Option Int :=
  if s.startsWith "-" then (s.drop 1).toNat?.map (fun n => - (n : Int)) else s.toNat?.map (fun n => (n : Int))

/-- a comma separated list of naturals, "-" for empty -/
def natList? (s : String) : Option (List Nat) :=
  if s == "-" then some [] else (s.splitOn ",").mapM (·.toNat?)

end CueVerif.Driver
