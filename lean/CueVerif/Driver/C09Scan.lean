import CueVerif.Driver.Proto
import CueVerif.Spec.Scan
/-! driver op of the C09 extension: the scanner's token stream -/
namespace CueVerif.Driver.C09Scan
open CueVerif CueVerif.Driver CueVerif.Scan

def tokStr (t : Tok) : String :=
  s!"{kindName t.kind}:{t.off}:{t.fin}:{hex t.lit}:{if t.err then 1 else 0}"

/-- a segment returned by `ResumeInterpolation` is printed as RESUME (the client cannot see
its token kind): it is the only token that starts before the end of its predecessor -/
def streamStr : Option Tok → List Tok → List String
  | _, [] => []
  | prev, t :: rest =>
    let resumed : Bool := match prev with
      | some p => p.kind == .RPAREN && t.off + 1 == p.fin && (t.kind == .STRING || t.kind == .INTERPOLATION)
      | none => false
    (if resumed then tokStr { t with kind := .PANIC } |>.replace "PANIC" "RESUME" else tokStr t) ::
      streamStr (some t) rest

/-- `cp:flags,…` (bit 0 = unicode.IsLetter, bit 1 = unicode.IsDigit) for the runes ≥ 0x80 -/
def parseUni (w : String) : Option Uni :=
  if w == "-" then some ⟨fun _ => false, fun _ => false⟩ else
  let items := (w.splitOn ",").mapM fun it =>
    match it.splitOn ":" with
    | [a, b] => do let x ← a.toNat?; let y ← b.toNat?; pure (x, y)
    | _ => none
  items.map fun tbl =>
    let look (r : Nat) : Nat := match tbl.find? (fun e => e.1 == r) with
      | some e => e.2
      | none => 0
    ⟨fun r => look r % 2 == 1, fun r => look r / 2 % 2 == 1⟩

def handle (ws : List String) : Option String :=
  match ws with
  | ["scan", mode, s, cls] =>
    match unhex s, parseUni cls with
    | some b, some U =>
      let M : Mode := ⟨mode.toList.head? == some '1', mode.toList.getLast? == some '1'⟩
      let r := scan M U b
      some ((if r.2 then "1" else "0") ++ " " ++ " ".intercalate (streamStr none r.1))
    | _, _ => some "bad-op"
  | _ => none

end CueVerif.Driver.C09Scan
