import CueVerif.Driver.Proto
import CueVerif.Spec.ModCache
/-!
Driver for C16.  Snapshots of one module version's on-disk state travel as
  d<D>,m<M>,z<Z>,t<T>,l<L>,f<F>,u<U>
  D: `-` | <k><+…><g|b>   M,L: 0|1   Z,F: `-`|p|f   T,U: `-` | sorted letters f/p
Ops:
  trace <kind> <n> <fault> <init> <ret> <hook>=<snap>…   → ok <#events> | mismatch …
  crashat <kind> <n> <init> <k>                          → <snap> | done
  safe <n> <snap>                                        → true | false
  fromcache <n> <snap>                                   → avail | err   (FetchFromCache in a quiescent state)
  trace2 <n> <reader-kind> <init> <role>:<hook>=<snap>… <role>:ret:<r>=<snap>…
        a two-thread history under a forced schedule (W = a Fetch of process 0, R = the reader
        of process 1; only the named thread moves between two events)   → ok <#events> | mismatch …
-/
namespace CueVerif.Driver.C16
open CueVerif CueVerif.Driver CueVerif.ModCache

def parseBlob (s : String) : Option (Option Blob) :=
  if s == "-" then some none else if s == "p" then some (some .part)
  else if s == "f" then some (some .full) else none

def parseTmps (s : String) : Option Tmps :=
  if s == "-" then some [] else
  let rec go (i : Nat) : List Char → Option Tmps
    | [] => some []
    | c :: r =>
      (if c == 'f' then some Blob.full else if c == 'p' then some Blob.part else none).bind fun b =>
        (go (i + 1) r).map fun l => (i, b) :: l
  go 0 s.toList

def parseDir (s : String) : Option (Option DirSt) :=
  if s == "-" then some none else
  let cs := s.toList
  let ds := cs.takeWhile Char.isDigit
  let rest := cs.dropWhile Char.isDigit
  let plus := rest.takeWhile (· == '+')
  let q := rest.dropWhile (· == '+')
  match (String.ofList ds).toNat?, q with
  | some k, ['g'] => some (some ⟨k, plus.length > 0, plus.length ≤ 1⟩)
  | some k, ['b'] => some (some ⟨k, plus.length > 0, false⟩)
  | _, _ => none

def parseBit (s : String) : Option Bool :=
  if s == "0" then some false else if s == "1" then some true else none

/-- the thread every trace is about -/
def me : Tid := (0, 0)
/-- some other live process (only used when a snapshot says the lock is held) -/
def other : Tid := (7, 0)

def parseSnap (s : String) : Option VSt :=
  match s.splitOn "," with
  | [d, m, z, t, l, f, u] =>
    if d.startsWith "d" && m.startsWith "m" && z.startsWith "z" && t.startsWith "t" &&
       l.startsWith "l" && f.startsWith "f" && u.startsWith "u" then do
      let dir ← parseDir (d.drop 1).toString
      let mark ← parseBit (m.drop 1).toString
      let zip ← parseBlob (z.drop 1).toString
      let zt ← parseTmps (t.drop 1).toString
      let lk ← parseBit (l.drop 1).toString
      let modf ← parseBlob (f.drop 1).toString
      let mt ← parseTmps (u.drop 1).toString
      pure { VSt.init with dir := dir, mark := mark, zip := zip, ztmps := zt, modf := modf, mtmps := mt,
                           lock := if lk then some other else none }
    else none
  | _ => none

def showBlob : Option Blob → String
  | none => "-" | some .part => "p" | some .full => "f"

def showTmps (l : Tmps) : String :=
  if l.isEmpty then "-" else
  String.ofList ((l.filter (·.2 == .full)).map (fun _ => 'f') ++ (l.filter (·.2 == .part)).map (fun _ => 'p'))

def showDir : Option DirSt → String
  | none => "-"
  | some d => s!"{d.files}{if d.cur then "+" else ""}{if d.good then "g" else "b"}"

def showSnap (s : VSt) : String :=
  s!"d{showDir s.dir},m{if s.mark then 1 else 0},z{showBlob s.zip},t{showTmps s.ztmps},l{if s.lock.isSome then 1 else 0},f{showBlob s.modf},u{showTmps s.mtmps}"

def parseKind (s : String) : Option Start :=
  if s == "fetch" then some .fetch else if s == "modfile" then some .modFile
  else if s == "fromcache" then some .fetchFromCache else none

structure Run where
  events : List (String × VSt) := []
  evs : List Ev := []
  final : VSt
  blocked : Bool := false

/-- run thread `me` alone from `s0`: first the start step, then to completion; the registry
fails once according to `fault` -/
def runTrace (n : Nat) (kind : Start) (fault : String) (s0 : VSt) : Run :=
  let rec go (fuel : Nat) (s : VSt) (r : Run) : Run :=
    match fuel with
    | 0 => { r with final := s, blocked := true }
    | fuel + 1 =>
      match s.pc me with
      | .idle => { r with final := s }
      | pc =>
        let flt := match pc with
          | .zGet _ => fault == "get"
          | .mGet => fault == "get"
          | .zCopy _ => fault == "copy"
          | _ => false
        match next n s me (choiceFor s me .none flt) with
        | none => { r with final := s, blocked := true }
        | some (s', o) =>
          go fuel s' { r with evs := r.evs ++ [o.ev],
                              events := match o.hook with
                                | some h => r.events ++ [(h, s')]
                                | none => r.events }
  match next n s0 me { start := kind } with
  | none => { final := s0, blocked := true }
  | some (s1, _) => go (fuelFor n s0 + 2 * n + 60) s1 { final := s1 }

def retOf (evs : List Ev) : String :=
  if evs.contains .err then "err" else if evs.contains .avail then "avail" else "ok"

def checkEvents (n : Nat) : Nat → List (String × VSt) → List String → String
  | k, [], [] => s!"ok {k}"
  | k, (h, s) :: _, [] => s!"mismatch at {k}: model continues with {h}={showSnap s}, implementation stopped"
  | k, [], w :: _ => s!"mismatch at {k}: model stopped, implementation continues with {w}"
  | k, (h, s) :: r, w :: ws =>
    let m := s!"{h}={showSnap s}"
    if m != w then s!"mismatch at {k}: model={m} impl={w}"
    else if !(safeB n s) then s!"unsafe model state at {k}: {m}"
    else checkEvents n (k + 1) r ws

/-- the reader thread of two-thread histories (another process than `me`) -/
def rdr : Tid := (1, 0)

/-- advance thread `t` alone until it passes a hook point (`some h`) or has returned (`none`) -/
def advance (n : Nat) (t : Tid) : Nat → VSt → List Ev → Except String (Option String × VSt × List Ev)
  | 0, _, _ => .error "model-out-of-fuel"
  | fuel + 1, s, evs =>
    match s.pc t with
    | .idle => .ok (none, s, evs)
    | _ =>
      match next n s t (choiceFor s t .none false) with
      | none => .error "model-blocked"
      | some (s', o) =>
        match o.hook with
        | some h => .ok (some h, s', evs ++ [o.ev])
        | none => advance n t fuel s' (evs ++ [o.ev])

structure T2 where
  s : VSt
  wStarted : Bool := false
  rStarted : Bool := false
  wEvs : List Ev := []
  rEvs : List Ev := []

def splitAt1 (c : Char) (s : String) : Option (String × String) :=
  match s.splitOn (String.singleton c) with
  | a :: b :: rest => some (a, (String.singleton c).intercalate (b :: rest))
  | _ => none

def checkTrace2 (n : Nat) (rk : Start) : Nat → T2 → List String → String
  | k, _, [] => s!"ok {k}"
  | k, st, w :: ws =>
    match splitAt1 ':' w with
    | none => "bad-op"
    | some (role, rest) =>
      match splitAt1 '=' rest with
      | none => "bad-op"
      | some (name, snap) =>
        let isW := role == "W"
        let t := if isW then me else rdr
        let started := if isW then st.wStarted else st.rStarted
        -- the thread makes its call when its first event is due
        let s0? : Option VSt :=
          if started then some st.s
          else (next n st.s t { start := if isW then .fetch else rk }).map (·.1)
        match s0? with
        | none => s!"mismatch at {k}: the model cannot start {role}"
        | some s0 =>
          let evs0 := if isW then st.wEvs else st.rEvs
          match advance n t (fuelFor n s0 + 2 * n + 80) s0 evs0 with
          | .error e => s!"mismatch at {k}: {e} (impl: {w})"
          | .ok (h?, s1, evs1) =>
            let st' : T2 := if isW then { st with s := s1, wStarted := true, wEvs := evs1 }
                            else { st with s := s1, rStarted := true, rEvs := evs1 }
            let got := match h? with
              | some h => s!"{role}:{h}={showSnap s1}"
              | none => s!"{role}:ret:{retOf evs1}={showSnap s1}"
            if got != w then s!"mismatch at {k}: model={got} impl={w}"
            else if !(safeB n s1) then s!"unsafe model state at {k}: {got}"
            else
              let _ := name; let _ := snap
              checkTrace2 n rk (k + 1) st' ws

def handle (ws : List String) : String :=
  match ws with
  | "trace" :: kind :: n :: fault :: init :: ret :: evs =>
    match parseKind kind, n.toNat?, parseSnap init with
    | some k, some n, some s0 =>
      let r := runTrace n k fault s0
      if r.blocked then "model-blocked"
      else if retOf r.evs != ret then s!"mismatch ret: model={retOf r.evs} impl={ret}"
      else checkEvents n 0 r.events evs
    | _, _, _ => "bad-op"
  | ["crashat", kind, n, init, k] =>
    match parseKind kind, n.toNat?, parseSnap init, k.toNat? with
    | some kd, some n, some s0, some k =>
      let r := runTrace n kd "none" s0
      if k = 0 then "bad-op" else
      match r.events[k - 1]? with
      | some (_, s) => showSnap (crash s me.1)
      | none => "done"
    | _, _, _, _ => "bad-op"
  | "trace2" :: n :: rk :: init :: evs =>
    match n.toNat?, parseKind rk, parseSnap init with
    | some n, some rk, some s0 => checkTrace2 n rk 0 { s := s0 } evs
    | _, _, _ => "bad-op"
  | ["fromcache", n, snap] =>
    -- what FetchFromCache must answer in the quiescent state `snap`
    match n.toNat?, parseSnap snap with
    | some n, some s0 =>
      let r := runTrace n .fetchFromCache "none" s0
      if r.blocked then "model-blocked" else retOf r.evs
    | _, _ => "bad-op"
  | ["safe", n, snap] =>
    match n.toNat?, parseSnap snap with
    | some n, some s => boolStr (safeB n s)
    | _, _ => "bad-op"
  | _ => "bad-op"

end CueVerif.Driver.C16
