/-
Line protocol for C06 (arithmetic, comparison, number literals, number printing).

  bin <op> <a> <b>        O  value level.  op ∈ add sub mul quo | div mod iquo rem | eq ne lt le gt ge;
                             a, b = CUE number literals as written (ASCII), optionally preceded by `-`
                             (a unary minus).  Answer: `int <c>e<x>` / `float <c>e<x>` with the decimal
                             NORMALISED (no trailing zeros, zero = 0e0), `true` / `false`,
                             `err:divzero` `err:failed` `err:operands` `err:argkind`, `err:lit`.
  shared <field> <op> <x> <y> <A> <B>
                          O  as `bin <op> <x> <y>`, for the field <field> of the shared-operand program
                             `a: A, b: B, div1: div(a, b), …` (harness/c06_shared.go: every operator applied to
                             the same two fields in one evaluation); A, B identify the program.
  binrepr <op> <a> <b>    I  representation level: `<kind> <coeff>e<exp> <json text> <cue text>`
                             (exact apd coefficient/exponent, MarshalJSON text, Syntax+format text).
  cmps <op> <x> <y>       O  comparison of strings / bytes / a number: x, y = `s:<hex>` `y:<hex>` `n:<lit>`.
  lit <hex>               O  value of a string through `literal.ParseNum` + `NumInfo.Decimal` (= `compiler.parse`; a sign is accepted): `int|float <c>e<x>` (normalised),
                             `err`.
  litrepr <hex>           I  the same with the exact coefficient/exponent.
  litspec <ast…>          O  the SPECIFICATION: `<hex spelling> <kind> <num>/<den>` of a grammar tree
                             (`not-wf` if the tree violates the EBNF side conditions, `huge` if the
                             exponent is beyond ±200000).
  round <p> <c> <x>       I  `round p ⟨c,x⟩` as `<c>e<x> <inexact>` (used for the AppendFloat check).
-/
import CueVerif.Driver.Proto
import CueVerif.Model.NumVal
import CueVerif.Spec.Arith
namespace CueVerif.Driver.C06
open CueVerif CueVerif.Driver CueVerif.Arith CueVerif.NumVal

def bytesOf (s : String) : List Nat := s.toList.map Char.toNat
def strOf (bs : List Nat) : String := String.ofList (bs.map Char.ofNat)

def kindStr : Kind → String
  | .int => "int"
  | .float => "float"

def decStr (d : Dec) : String := s!"{d.coeff}e{d.exp}"

def errStr : Err → String
  | .divZero => "err:divzero"
  | .failed => "err:failed"
  | .operands => "err:operands"
  | .argKind => "err:argkind"

/-- an operand: optional `-` then a literal -/
def operand (s : String) : Option Num :=
  match readBack (bytesOf s) with
  | .ok n => some n
  | _ => none

def resValue : Res → String
  | .num n => s!"{kindStr n.k} {decStr (Dec.normalize n.d)}"
  | .bool b => boolStr b
  | .err e => errStr e

def resRepr : Res → String
  | .num n => s!"{kindStr n.k} {decStr n.d} {strOf (jsonNum n)} {strOf (printNum n)}"
  | .bool b => boolStr b
  | .err e => errStr e

def cop? : String → Option COp
  | "eq" => some .eq | "ne" => some .ne | "lt" => some .lt
  | "le" => some .le | "gt" => some .gt | "ge" => some .ge
  | _ => none

def binOp (op : String) (x y : Num) : Option Res :=
  match op with
  | "add" => some (numOp .add x y)
  | "sub" => some (numOp .sub x y)
  | "mul" => some (numOp .mul x y)
  | "quo" => some (quoOp x y)
  | "div" => some (intDivOp .div x y)
  | "mod" => some (intDivOp .mod x y)
  | "iquo" => some (intDivOp .quo x y)
  | "rem" => some (intDivOp .rem x y)
  | _ => (cop? op).map fun c => cmpOp c (.num x) (.num y)

def runBin (show_ : Res → String) (op a b : String) : String :=
  match operand a, operand b with
  | some x, some y =>
    match binOp op x y with
    | some r => show_ r
    | none => "bad-op"
  | _, _ => "err:lit"

def val? (s : String) : Option Val :=
  if s.startsWith "s:" then (unhex (s.drop 2).toString).map Val.str
  else if s.startsWith "y:" then (unhex (s.drop 2).toString).map Val.bytes
  else if s.startsWith "n:" then (operand (s.drop 2).toString).map Val.num
  else none

open CueVerif.Spec.Arith in
def letter? : String → Option MulLetter
  | "K" => some .K | "M" => some .M | "G" => some .G | "T" => some .T | "P" => some .P
  | _ => none

open CueVerif.Spec.Arith in
def ex? (s : String) : Option (Option Exponent) :=
  if s == "-" then some none else
  match s.toList with
  | m :: sg :: ds =>
    let up := m == 'E'
    let sign? : Option Sign := if sg == '+' then some .plus else if sg == '-' then some .minus
      else if sg == 'n' then some .none else none
    if m != 'e' && m != 'E' then none else
    sign?.map fun sg => some { upper := up, sign := sg, ds := ds.map Char.toNat }
  | _ => none

def opt? (s : String) : Option (List Nat) := if s == "-" then none else some (bytesOf s)

open CueVerif.Spec.Arith in
def lit? (ws : List String) : Option Lit :=
  match ws with
  | ["dec", ds] => some (.dec (bytesOf ds))
  | ["bin", ds] => some (.bin (bytesOf ds))
  | ["oct", ds] => some (.oct (bytesOf ds))
  | ["hex", u, ds] => some (.hex (u == "1") (bytesOf ds))
  | ["si", ip, fp, l, i] => (letter? l).map fun l => .si (bytesOf ip) (opt? fp) ⟨l, i == "1"⟩
  | ["sidot", fp, l, i] => (letter? l).map fun l => .siDot (bytesOf fp) ⟨l, i == "1"⟩
  | ["fpoint", ip, fp, ex] => (ex? ex).map fun ex => .fPoint (bytesOf ip) (opt? fp) ex
  | ["fexp", ip, ex] =>
    match ex? ex with
    | some (some x) => some (.fExp (bytesOf ip) x)
    | _ => none
  | ["fdot", fp, ex] => (ex? ex).map fun ex => .fDot (bytesOf fp) ex
  | _ => none

open CueVerif.Spec.Arith in
def litExpOf : Lit → Int
  | .fPoint _ _ ex => exVal ex
  | .fExp _ ex => ex.value
  | .fDot _ ex => exVal ex
  | _ => 0

def litResValue : LitRes → String
  | .ok n => s!"{kindStr n.k} {decStr (Dec.normalize n.d)}"
  | .err => "err"

def litResRepr : LitRes → String
  | .ok n => s!"{kindStr n.k} {decStr n.d}"
  | .err => "err"

def handle (ws : List String) : String :=
  match ws with
  | ["bin", op, a, b] => runBin resValue op a b
  | ["binrepr", op, a, b] => runBin resRepr op a b
  | ["shared", _field, op, x, y, _a, _b] => runBin resValue op x y
  | ["cmps", op, x, y] =>
    match cop? op, val? x, val? y with
    | some c, some vx, some vy => resValue (cmpOp c vx vy)
    | _, _, _ => "bad-op"
  | ["lit", h] =>
    match unhex h with
    | some s => litResValue (parseNumValue s)
    | none => "bad-op"
  | ["litrepr", h] =>
    match unhex h with
    | some s => litResRepr (parseNumValue s)
    | none => "bad-op"
  | "litspec" :: rest =>
    match lit? rest with
    | some l =>
      if !l.wf then "not-wf"
      else if litExpOf l > 200000 || litExpOf l < -200000 then "huge"
      else
        let q := l.denote
        s!"{hex l.spell} {kindStr l.kind} {q.num}/{q.den}"
    | none => "bad-op"
  | ["round", p, c, x] =>
    match p.toNat?, parseInt? c, parseInt? x with
    | some p, some c, some x =>
      let r := Arith.round p ⟨c, x⟩
      s!"{decStr r.1} {boolStr r.2}"
    | _, _, _ => "bad-op"
  | _ => "bad-op"

end CueVerif.Driver.C06
