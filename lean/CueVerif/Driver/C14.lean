import CueVerif.Driver.Proto
import CueVerif.Spec.Semver
import CueVerif.Spec.Mvs
import CueVerif.Model.MvsOps
import CueVerif.Model.Queue
import CueVerif.Model.VersionsMax
namespace CueVerif.Driver.C14
open CueVerif CueVerif.Driver

/-- graph text: `p.v>p.v,p.v;...`  -/
def parseNode (s : String) : Option Mvs.Node :=
  match s.splitOn "." with
  | [a, b] => do let x ← a.toNat?; let y ← b.toNat?; pure (x, y)
  | _ => none

def parseNodes (s : String) : Option (List Mvs.Node) :=
  if s == "-" then some [] else (s.splitOn ",").mapM parseNode

def parseGraph (s : String) : Option (List (Mvs.Node × List Mvs.Node)) :=
  if s == "-" then some [] else
  (s.splitOn ";").mapM fun e =>
    match e.splitOn ">" with
    | [a, b] => do let n ← parseNode a; let ds ← parseNodes b; pure (n, ds)
    | _ => none

def graphFn (es : List (Mvs.Node × List Mvs.Node)) : Mvs.Graph :=
  fun n => match es.find? (fun e => e.1 == n) with
    | some e => e.2
    | none => []

def insertSorted (x : Nat × Nat) : List (Nat × Nat) → List (Nat × Nat)
  | [] => [x]
  | y :: ys => if x.1 ≤ y.1 then x :: y :: ys else y :: insertSorted x ys

def showSel (paths : List Nat) (sel : Nat → Nat) : String :=
  let ps := (paths.eraseDups.map fun p => (p, sel p)).foldr insertSorted []
  ",".intercalate (ps.map fun (p, v) => s!"{p}.{v}")

/-- validate a recorded implementation schedule: the order in which `Required` was
invoked must be a run of the model: each item is in todo when taken; we replay it with
atomic take+require+adds (a legal interleaving) and also check every node is taken once. -/
def replaySchedule (g : Mvs.Graph) (roots : List Mvs.Node) (order : List Mvs.Node) : String :=
  let rec go (fuel : Nat) (s : Mvs.St) (order : List Mvs.Node) : String :=
    match fuel, order with
    | _, [] => if s.todo.isEmpty then "ok " ++ showSel (s.added.map (·.1)) s.sel else "incomplete"
    | 0, _ => "fuel"
    | fuel + 1, m :: rest =>
      if !(s.added.contains m) then s!"not-added {m.1}.{m.2}"
      else if s.required.contains m then s!"twice {m.1}.{m.2}"
      else
        let ds := g m
        let new := (ds.eraseDups).filter (fun r => !(s.added.contains r))
        go fuel { s with todo := (s.todo.erase m) ++ new, added := s.added ++ new,
                         required := m :: s.required, sel := Mvs.bumpAll s.sel ds } rest
  go (order.length + 1) (Mvs.init roots) order

def showNodes (l : List Mvs.Node) : String :=
  if l.isEmpty then "-" else ",".intercalate (l.map fun (p, v) => s!"{p}.{v}")

def showOpt : Option (List Mvs.Node) → String
  | none => "fuel"
  | some l => showNodes l

def opsFuel (es : List (Mvs.Node × List Mvs.Node)) (extra : Nat) : Nat :=
  2 * (es.length + (es.foldl (fun a e => a + e.2.length) 0) + extra) + 10

/-- `reqs.Upgrade` of the harness: the highest known version of the path -/
def latestFn (avail : List Mvs.Node) (m : Mvs.Node) : Mvs.Node :=
  (m.1, (avail.filter fun a => a.1 == m.1).foldl (fun b a => if b < a.2 then a.2 else b) m.2)

/-- the newer operations of mvs.go (Model/MvsOps.lean) -/
def handleOps (ws : List String) : String :=
  match ws with
  | ["build", target, graph] =>
    match parseNode target, parseGraph graph with
    | some t, some es => showOpt (Mvs.buildList (graphFn es) (opsFuel es 0) t)
    | _, _ => "bad-op"
  | ["upgrade", target, graph, ups] =>
    match parseNode target, parseGraph graph, parseNodes ups with
    | some t, some es, some us =>
      showOpt (Mvs.buildListUp (Mvs.upgradeGraph (graphFn es) t us) (opsFuel es us.length) t)
    | _, _, _ => "bad-op"
  | ["upgradeall", target, graph, avail] =>
    match parseNode target, parseGraph graph, parseNodes avail with
    | some t, some es, some av =>
      showOpt (Mvs.buildListUp (Mvs.upgradeAllGraph (graphFn es) t (latestFn av)) (opsFuel es av.length) t)
    | _, _, _ => "bad-op"
  | ["req", target, graph, base] =>
    match parseNode target, parseGraph graph, natList? base with
    | some t, some es, some b => showOpt (Mvs.req (graphFn es) (opsFuel es 0) t b)
    | _, _, _ => "bad-op"
  | ["downgrade", target, graph, avail, downs] =>
    match parseNode target, parseGraph graph, parseNodes avail, parseNodes downs with
    | some t, some es, some av, some ds =>
      showOpt (Mvs.downgrade (graphFn es) av (opsFuel es (av.length + ds.length)) t ds)
    | _, _, _, _ => "bad-op"
  | _ => "bad-op"

/-! par.Queue: validate a recorded event log as a run of the model (Model/Queue.lean).
Events: `a<i>` Add(i) (logged atomically with the call), `s<i>` / `e<i>` start / end of
item i's function, `c` a call of Idle(), `I` the idle channel was observed closed. -/

structure QV where
  st : Queue.St
  started : List Nat
  maxRun : Nat

def parseEv (w : String) : Option (Char × Nat) :=
  match w.toList with
  | [c] => some (c, 0)
  | c :: rest => (String.ofList rest).toNat?.map fun n => (c, n)
  | [] => none

def queueReplay (max : Nat) (evs : List String) : String :=
  let rec go (evs : List String) (q : QV) : String :=
    match evs with
    | [] =>
      if q.st.panic then "panic"
      else if !(q.st.backlog.isEmpty && q.st.running.isEmpty) then "unfinished"
      else s!"ok {q.st.done.length} {q.st.added.length}"
    | w :: rest =>
      match parseEv w with
      | some ('a', i) =>
        match Queue.apply max q.st (.add i) with
        | some st => go rest { q with st := st }
        | none => "bad-add"
      | some ('s', i) =>
        if !q.st.running.contains i then s!"start-not-running {i}"
        else if q.started.contains i then s!"started-twice {i}"
        else
          let nrun := (q.started.filter fun j => q.st.running.contains j).length + 1
          if nrun > max then s!"too-many-running {i}"
          else go rest { q with started := i :: q.started, maxRun := Nat.max q.maxRun nrun }
      | some ('e', i) =>
        if !q.started.contains i then s!"end-before-start {i}"
        else match Queue.apply max q.st (.fin i) with
          | some st => go rest { q with st := st }
          | none => s!"end-not-running {i}"
      | some ('c', _) =>
        match Queue.apply max q.st .idle with
        | some st => go rest { q with st := st }
        | none => "bad-idle"
      | some ('I', _) =>
        if q.st.idle == some true && q.st.active == 0 && q.st.backlog.isEmpty then go rest q
        else "idle-fired-early"
      | _ => "bad-event"
  go evs { st := Queue.init, started := [], maxRun := 0 }

def handleQueue (ws : List String) : String :=
  match ws with
  | ["vmax", a, b] =>
    match unhex a, unhex b with
    | some x, some y => hex (Semver.versionsMax x y)
    | _, _ => "bad-op"
  | ["mvscmp", a, b] =>
    match unhex a, unhex b with
    | some x, some y => ordStr (Semver.mvsCmp x y)
    | _, _ => "bad-op"
  | ["queue", max, evs] =>
    match max.toNat? with
    | some m => queueReplay m (if evs == "-" then [] else evs.splitOn ",")
    | none => "bad-op"
  | _ => handleOps ws

def handle (ws : List String) : String :=
  match ws with
  | ["cmp", a, b] =>
    match unhex a, unhex b with
    | some x, some y => ordStr (Semver.compare' x y)
    | _, _ => "bad-op"
  | ["valid", a] =>
    match unhex a with
    | some x => boolStr (Semver.isValid x)
    | _ => "bad-op"
  | ["canon", a] =>
    match unhex a with
    | some x => hex (Semver.canonical x)
    | _ => "bad-op"
  | ["speccmp", a, b] =>
    -- the SemVer 2.0 spec verdict for two valid versions ("na" otherwise)
    match unhex a, unhex b with
    | some x, some y =>
      match Semver.parse x, Semver.parse y with
      | some px, some py => ordStr (Semver.specCmp (Semver.structure' px) (Semver.structure' py))
      | _, _ => "na"
    | _, _ => "bad-op"
  | ["mvs", roots, graph] =>
    match parseNodes roots, parseGraph graph with
    | some rs, some es =>
      let g := graphFn es
      let fuel := es.length + rs.length + (es.foldl (fun a e => a + e.2.length) 0) + 1
      let s := Mvs.runFifo g fuel (Mvs.init rs)
      if s.todo.isEmpty then showSel (s.added.map (·.1)) s.sel else "fuel"
    | _, _ => "bad-op"
  | ["sched", roots, graph, order] =>
    match parseNodes roots, parseGraph graph, parseNodes order with
    | some rs, some es, some ord => replaySchedule (graphFn es) rs ord
    | _, _, _ => "bad-op"
  | _ => handleQueue ws

end CueVerif.Driver.C14
