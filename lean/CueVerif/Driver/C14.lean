import CueVerif.Driver.Proto
import CueVerif.Spec.Semver
import CueVerif.Spec.Mvs
namespace CueVerif.Driver.C14
open CueVerif CueVerif.Driver

/-- graph text: `p.v>p.v,p.v;...`  -/
def parseNode (s : String) : Option Mvs.Node :=
  match s.splitOn "." with
  | [a, b] => do let x ← a.toNat?; let y ← b.toNat?; pure (x, y)
  | _ => none

def parseNodes (s : String) : Option (List Mvs.Node) :=
  if s == "-" then some [] else (s.splitOn ",").mapM parseNode

def parseGraph (s : String) : Option (List (Mvs.Node × List Mvs.Node)) :=
  if s == "-" then some [] else
  (s.splitOn ";").mapM fun e =>
    match e.splitOn ">" with
    | [a, b] => do let n ← parseNode a; let ds ← parseNodes b; pure (n, ds)
    | _ => none

def graphFn (es : List (Mvs.Node × List Mvs.Node)) : Mvs.Graph :=
  fun n => match es.find? (fun e => e.1 == n) with
    | some e => e.2
    | none => []

def insertSorted (x : Nat × Nat) : List (Nat × Nat) → List (Nat × Nat)
  | [] => [x]
  | y :: ys => if x.1 ≤ y.1 then x :: y :: ys else y :: insertSorted x ys

def showSel (paths : List Nat) (sel : Nat → Nat) : String :=
  let ps := (paths.eraseDups.map fun p => (p, sel p)).foldr insertSorted []
  ",".intercalate (ps.map fun (p, v) => s!"{p}.{v}")

/-- validate a recorded implementation schedule: the order in which `Required` was
invoked must be a run of the model: each item is in todo when taken; we replay it with
atomic take+require+adds (a legal interleaving) and also check every node is taken once. -/
def replaySchedule (g : Mvs.Graph) (roots : List Mvs.Node) (order : List Mvs.Node) : String :=
  let rec go (fuel : Nat) (s : Mvs.St) (order : List Mvs.Node) : String :=
    match fuel, order with
    | _, [] => if s.todo.isEmpty then "ok " ++ showSel (s.added.map (·.1)) s.sel else "incomplete"
    | 0, _ => "fuel"
    | fuel + 1, m :: rest =>
      if !(s.added.contains m) then s!"not-added {m.1}.{m.2}"
      else if s.required.contains m then s!"twice {m.1}.{m.2}"
      else
        let ds := g m
        let new := (ds.eraseDups).filter (fun r => !(s.added.contains r))
        go fuel { s with todo := (s.todo.erase m) ++ new, added := s.added ++ new,
                         required := m :: s.required, sel := Mvs.bumpAll s.sel ds } rest
  go (order.length + 1) (Mvs.init roots) order

def handle (ws : List String) : String :=
  match ws with
  | ["cmp", a, b] =>
    match unhex a, unhex b with
    | some x, some y => ordStr (Semver.compare' x y)
    | _, _ => "bad-op"
  | ["valid", a] =>
    match unhex a with
    | some x => boolStr (Semver.isValid x)
    | _ => "bad-op"
  | ["canon", a] =>
    match unhex a with
    | some x => hex (Semver.canonical x)
    | _ => "bad-op"
  | ["speccmp", a, b] =>
    -- the SemVer 2.0 spec verdict for two valid versions ("na" otherwise)
    match unhex a, unhex b with
    | some x, some y =>
      match Semver.parse x, Semver.parse y with
      | some px, some py => ordStr (Semver.specCmp (Semver.structure' px) (Semver.structure' py))
      | _, _ => "na"
    | _, _ => "bad-op"
  | ["mvs", roots, graph] =>
    match parseNodes roots, parseGraph graph with
    | some rs, some es =>
      let g := graphFn es
      let fuel := es.length + rs.length + (es.foldl (fun a e => a + e.2.length) 0) + 1
      let s := Mvs.runFifo g fuel (Mvs.init rs)
      if s.todo.isEmpty then showSel (s.added.map (·.1)) s.sel else "fuel"
    | _, _ => "bad-op"
  | ["sched", roots, graph, order] =>
    match parseNodes roots, parseGraph graph, parseNodes order with
    | some rs, some es, some ord => replaySchedule (graphFn es) rs ord
    | _, _, _ => "bad-op"
  | _ => "bad-op"

end CueVerif.Driver.C14
