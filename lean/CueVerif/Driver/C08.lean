import CueVerif.Driver.Proto
import CueVerif.Spec.Fmt
namespace CueVerif.Driver.C08
open CueVerif CueVerif.Driver CueVerif.Fmt

/-! expression wire format (one word): `I<letters/digits>` ident, `N<digits>` int,
`U<code>(x)`, `B<code>(x,y)`, `P(x)`; operator codes are the Go token numbers. -/

def takeWhileC (p : Char → Bool) : List Char → List Char × List Char
  | [] => ([], [])
  | c :: cs => if p c then let (a, b) := takeWhileC p cs; (c :: a, b) else ([], c :: cs)

def natOfDigits (ds : List Char) : Nat := ds.foldl (fun n c => n * 10 + (c.toNat - 48)) 0

def parseX : Nat → List Char → Option (Expr × List Char)
  | 0, _ => none
  | _ + 1, [] => none
  | n + 1, c :: cs =>
    if c = 'I' then
      let (s, r) := takeWhileC isIdentChar cs
      some (.atom (.ident s), r)
    else if c = 'N' then
      let (s, r) := takeWhileC isDigit cs
      some (.atom (.int s), r)
    else if c = 'M' then
      -- a negative number built as ONE literal (BasicLit "-12"): see `Fmt.negLit`
      let (s, r) := takeWhileC isDigit cs
      some (negLit s, r)
    else if c = 'P' then
      match cs with
      | '(' :: r =>
        match parseX n r with
        | some (x, ')' :: r') => some (.paren x, r')
        | _ => none
      | _ => none
    else if c = 'U' then
      let (ds, r) := takeWhileC isDigit cs
      match OpTok.ofCode (natOfDigits ds), r with
      | some o, '(' :: r1 =>
        match parseX n r1 with
        | some (x, ')' :: r') => some (.un o x, r')
        | _ => none
      | _, _ => none
    else if c = 'B' then
      let (ds, r) := takeWhileC isDigit cs
      match OpTok.ofCode (natOfDigits ds), r with
      | some o, '(' :: r1 =>
        match parseX n r1 with
        | some (x, ',' :: r2) =>
          match parseX n r2 with
          | some (y, ')' :: r') => some (.bin o x y, r')
          | _ => none
        | _ => none
      | _, _ => none
    else none

def readExpr (s : String) : Option Expr :=
  match parseX (s.length + 1) s.toList with
  | some (e, []) => some e
  | _ => none

partial def showExpr : Expr → String
  | .atom (.ident s) => "I" ++ String.ofList s
  | .atom (.int s) => "N" ++ String.ofList s
  | .un o x => s!"U{o.code}({showExpr x})"
  | .bin o x y => s!"B{o.code}({showExpr x},{showExpr y})"
  | .paren x => s!"P({showExpr x})"

def showTok : Tok → String
  | .op o => toString o.code
  | .atom (.ident s) => "I" ++ String.ofList s
  | .atom (.int s) => "N" ++ String.ofList s

def showToks (ts : List Tok) : String :=
  if ts.isEmpty then "-" else " ".intercalate (ts.map showTok)

def bytesOfChars (cs : List Char) : List Nat := cs.map (·.toNat)
def charsOfBytes (bs : List Nat) : List Char := bs.map Char.ofNat

/-- protocol handler for C08: words of one op line (after the property id) → answer -/
def handle (ws : List String) : String :=
  match ws with
  | ["prec", n] =>
    match n.toNat? with
    | some k => match OpTok.ofCode k with
      | some o => toString o.prec
      | none => "0"
    | none => "bad-op"
  | ["unop", n] =>
    match n.toNat? with
    | some k => match OpTok.ofCode k with
      | some o => boolStr o.isUnary
      | none => "false"
    | none => "bad-op"
  | ["spell", n] =>
    match n.toNat? with
    | some k => match OpTok.ofCode k with
      | some o => hex (bytesOfChars o.spell)
      | none => "none"
    | none => "bad-op"
  | ["scan", h] =>
    match unhex h with
    | some bs => match scan (charsOfBytes bs) with
      | some ts => showToks ts
      | none => "none"
    | none => "bad-op"
  | ["hazard", a, b] =>
    -- the spec's hazard verdict for two operator tokens
    match a.toNat?, b.toNat? with
    | some x, some y => match OpTok.ofCode x, OpTok.ofCode y with
      | some p, some q => boolStr (hazard (.op p) (.op q))
      | _, _ => "bad-op"
    | _, _ => "bad-op"
  | ["parse", h] =>
    match unhex h with
    | some bs => match (scan (charsOfBytes bs)).bind parseE with
      | some e => showExpr e
      | none => "none"
    | none => "bad-op"
  | ["print", _, e] =>
    match readExpr e with
    | some x => showToks (printE x)
    | none => "bad-op"
  | ["norm", _, e] =>
    match readExpr e with
    | some x => showExpr (norm x)
    | none => "bad-op"
  | ["fmt1", e] =>
    match readExpr e with
    | some x => hex (bytesOfChars (render (fmtV1 x)))
    | none => "bad-op"
  | ["fmt1fixed", e] =>
    match readExpr e with
    | some x => hex (bytesOfChars (render (fmtV1g true x)))
    | none => "bad-op"
  | ["fmt2", e] =>
    match readExpr e with
    | some x => hex (bytesOfChars (render (fmtV2 x)))
    | none => "bad-op"
  | ["safe1", e] =>
    match readExpr e with
    | some x => boolStr (sepOK (fmtV1 x))
    | none => "bad-op"
  | ["nomerge", e] =>
    match readExpr e with
    | some x => boolStr (NoUnaryMerge x)
    | none => "bad-op"
  | _ => "bad-op"

end CueVerif.Driver.C08
