import CueVerif.Driver.Proto
import CueVerif.Model.Tidy
import CueVerif.Spec.Tidy
import CueVerif.Driver.C17Modfile
namespace CueVerif.Driver.C17
open CueVerif CueVerif.Driver CueVerif.Tidy

/-! universe text (see harness/c17_univ.go):
  path   = n.n.n          mpath = path@major      import = path | path@major
  deps   = mpath=rank[!],…  ("-" = none)          pkgs = path>imp,imp;…  ("-" = none)
  main   = mpath#deps#pkgs                        module = mpath=rank#deps#pkgs, joined by "|" -/

def parsePath (s : String) : Option Path := (s.splitOn ".").mapM (·.toNat?)

def parseMPath (s : String) : Option MPath :=
  match s.splitOn "@" with
  | [p, m] => do pure ⟨← parsePath p, ← m.toNat?⟩
  | _ => none

def parseImp (s : String) : Option Imp :=
  match s.splitOn "@" with
  | [p] => do pure ⟨← parsePath p, none⟩
  | [p, m] => do pure ⟨← parsePath p, some (← m.toNat?)⟩
  | _ => none

def parseDep (s : String) : Option Dep :=
  let (s, d) := if s.endsWith "!" then ((String.ofList (s.toList.dropLast)), true) else (s, false)
  match s.splitOn "=" with
  | [mp, r] => do pure ⟨← parseMPath mp, ← r.toNat?, d⟩
  | _ => none

def parseDeps (s : String) : Option (List Dep) :=
  if s == "-" then some [] else (s.splitOn ",").mapM parseDep

def parsePkg (s : String) : Option Pkg :=
  match s.splitOn ">" with
  | [p, is] => do
    let path ← parsePath p
    let imps ← if is == "-" then some [] else (is.splitOn ",").mapM parseImp
    pure ⟨path, imps⟩
  | _ => none

def parsePkgs (s : String) : Option (List Pkg) :=
  if s == "-" then some [] else (s.splitOn ";").mapM parsePkg

def parseMain (s : String) : Option Mod :=
  match s.splitOn "#" with
  | [mp, ds, ps] => do pure ⟨← parseMPath mp, 0, ← parseDeps ds, ← parsePkgs ps⟩
  | _ => none

def parseMod (s : String) : Option Mod :=
  match s.splitOn "#" with
  | [mv, ds, ps] =>
    match mv.splitOn "=" with
    | [mp, r] => do pure ⟨← parseMPath mp, ← r.toNat?, ← parseDeps ds, ← parsePkgs ps⟩
    | _ => none
  | _ => none

def parseMods (s : String) : Option (List Mod) :=
  if s == "-" then some [] else (s.splitOn "|").mapM parseMod

def showPath (p : Path) : String := ".".intercalate (p.map toString)

def showDep (d : Dep) : String :=
  s!"{showPath d.mp.base}@{d.mp.major}={d.rank}" ++ (if d.dflt then "!" else "")

def showDeps (ds : List Dep) : String :=
  if ds.isEmpty then "-" else ",".intercalate (ds.map showDep)

def flawStr : Flaw → String
  | .unresolved => "unresolved" | .ambiguous => "ambiguous" | .unused => "unused"
  | .unlisted => "unlisted" | .belowSelected => "below-selected" | .missingModule => "missing-module"
  | .fuel => "fuel"

def fuel : Nat := 20000

def handleTidy (ws : List String) : String :=
  match ws with
  | ["tidy", m, r] =>
    match parseMain m, parseMods r with
    | some main, some mods =>
      match tidy main (regOf mods) fuel with
      | .ok ds => "ok " ++ showDeps ds
      | .error _ => "error"
    | _, _ => "bad-op"
  | ["check", m, r] =>
    match parseMain m, parseMods r with
    | some main, some mods =>
      match checkTidy main (regOf mods) fuel with
      | .ok => "ok" | .nottidy => "nottidy" | .error => "error"
    | _, _ => "bad-op"
  | ["spec", m, r, ds] =>
    -- the specification's verdict on a module file (the implementation's answer)
    match parseMain m, parseMods r, parseDeps ds with
    | some main, some mods, some deps =>
      match specFlaws main (regOf mods) deps fuel with
      | [] => "ok"
      | fs => "flawed:" ++ ",".intercalate (fs.map flawStr)
    | _, _, _ => "bad-op"
  | _ => "bad-op"

def handle (ws : List String) : String :=
  match C17Modfile.handleModfile ws with
  | some a => a
  | none => handleTidy ws

end CueVerif.Driver.C17
