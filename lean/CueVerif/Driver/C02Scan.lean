import CueVerif.Driver.Proto
import CueVerif.Model.ScanLoops
namespace CueVerif.Driver.C02Scan
open CueVerif CueVerif.Driver CueVerif.ScanLoops

/-- one rune: `code`, `code:L` (unicode letter), `code:D` (unicode digit) → (code, class) -/
def rune? (s : String) : Option (Nat × Nat) :=
  match s.splitOn ":" with
  | [c] => c.toNat?.map fun n => (n, 0)
  | [c, "L"] => c.toNat?.map fun n => (n, 1)
  | [c, "D"] => c.toNat?.map fun n => (n, 2)
  | _ => none

def runes? (s : String) : Option (List (Nat × Nat)) :=
  if s == "-" then some [] else (s.splitOn ",").mapM rune?

def pair? (s : String) : Option (Nat × Nat) :=
  match s.splitOn ">" with
  | [a, b] => do let x ← a.toNat?; let y ← b.toNat?; pure (x, y)
  | _ => none

def table? (s : String) : Option (List (Nat × Nat)) :=
  if s == "-" then some [] else (s.splitOn ",").mapM pair?

def clsStr : Cls → String
  | .EOF => "EOF" | .COMMA => "COMMA" | .COMMA_ELIDED => "COMMA_ELIDED" | .IDENT => "IDENT"
  | .BOTTOM => "BOTTOM" | .NUM => "NUM" | .STRING => "STRING" | .INTERP => "INTERP" | .ATTR => "ATTR"
  | .COMMENT => "COMMENT" | .ILLEGAL => "ILLEGAL" | .COLON => "COLON" | .SEMI => "SEMI"
  | .OPTION => "OPTION" | .TILDE => "TILDE" | .ELLIPSIS => "ELLIPSIS" | .PERIOD => "PERIOD"
  | .LPAREN => "LPAREN" | .RPAREN => "RPAREN" | .LBRACK => "LBRACK" | .RBRACK => "RBRACK"
  | .LBRACE => "LBRACE" | .RBRACE => "RBRACE" | .ADD => "ADD" | .SUB => "SUB" | .MUL => "MUL"
  | .QUO => "QUO" | .ARROW => "ARROW" | .LSS => "LSS" | .LEQ => "LEQ" | .GTR => "GTR" | .GEQ => "GEQ"
  | .MAT => "MAT" | .BIND => "BIND" | .EQL => "EQL" | .NMAT => "NMAT" | .NOT => "NOT" | .NEQ => "NEQ"
  | .LAND => "LAND" | .AND => "AND" | .LOR => "LOR" | .OR => "OR"
  | .RESUME => "RESUME" | .RESUME_OPEN => "RESUME_OPEN"

def mkEnv (rs : List (Nat × Nat)) (tbl : List (Nat × Nat)) : Env :=
  { src := rs.map (·.1)
    uniLetter := fun r => rs.any fun x => x.1 == r && x.2 == 1
    uniDigit := fun r => rs.any fun x => x.1 == r && x.2 == 2
    numEnd := fun p => (tbl.find? fun x => x.1 == p).map (·.2) }

def showTrace (t : Trace) : String :=
  if t.isEmpty then "-" else
  ";".intercalate (t.map fun x => s!"{x.1}:{x.2.1}:{clsStr x.2.2}")

/-- ops of the scanner loop model: `none` = not one of ours -/
def handle (ws : List String) : Option String :=
  match ws with
  | ["scan", rs, tbl] =>
    match runes? rs, table? tbl with
    | some rs, some tbl =>
      match scanAll (mkEnv rs tbl) with
      | .ok t => some (showTrace t)
      | .fuel => some "fuel"
      | .badOracle => some "bad-oracle"
      | .panic => some "panic"
    | _, _ => some "bad-op"
  | _ => none

end CueVerif.Driver.C02Scan
