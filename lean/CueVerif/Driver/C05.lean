import CueVerif.Driver.Proto
import CueVerif.Spec.Closed
import CueVerif.Spec.ClosedDenied
import CueVerif.Model.Typo
import CueVerif.Model.PatMatch
/-!
Protocol handler for C05.  Expressions travel as one space-free word:

  T `_`   B `_|_`   I int   S string   i<n> int literal   s<n> string literal
  {d,d,…}  struct literal; d ::= `...` | `[pat]:e` | `label:e` | `label?:e` | `label!:e` | e (embedding)
           pat ::= `*` ([string]) | `^xyz` (=~"^xyz") | `xyz$` (=~"xyz$") | `!xyz` (!="xyz")
           label ::= name | _name (hidden) | #name (definition)
  c(e) close(e)     d(e) reference to a definition whose body is e     &(e,e,…) conjunction

Ops:
  val <schema> <data>          model: unify + validate → `ok <field set>` | `err`
  adm <schema> <data>          spec checker `admits` → `ok` | `err`
  allows <schema> <data> <label>   model: may `label` be added to schema & data (`T` = no data)
  uni / fill <schema> <data>   model verdict (`ok` | `err`) for Value.Unify / Value.FillPath
  den <schema> <data>          spec: minimal denied paths (`a.b,c` | `-`)
  tyev <schema> <data>         evidence model (typocheck.go transcription): minimal denied paths
  pm <pattern> <labelhex>      matchPattern model: does the pattern constraint match the string label
                               pattern ::= T | S | I | b<op>:<hex> | bne:null | s<hex> | n<int> | &(p,p) | |(p,p)
                               op ::= lt le gt ge ne mat nmat; regexps are `^lit` / `lit$`
-/
namespace CueVerif.Driver.C05
open CueVerif CueVerif.Driver CueVerif.Closed

def isIdent (c : Char) : Bool := c.isAlphanum || c == '_' || c == '#'

def mkLabel (cs : List Char) : Label :=
  match cs with
  | '#' :: r => ⟨.dfn, r.map (·.toNat)⟩
  | '_' :: '#' :: r => ⟨.dfn, ('_' :: r).map (·.toNat)⟩
  | '_' :: r => ⟨.hid, r.map (·.toNat)⟩
  | r => ⟨.reg, r.map (·.toNat)⟩

def labelStr (l : Label) : String :=
  let n := String.ofList (l.name.map Char.ofNat)
  match l.cls with
  | .reg => n
  | .hid => "_" ++ n
  | .dfn => "#" ++ n

def mkPat (cs : List Char) : Option Pat :=
  match cs with
  | ['*'] => some .any
  | '^' :: r => some (.pre (r.map (·.toNat)))
  | '!' :: r => some (.ne (r.map (·.toNat)))
  | r => match r.reverse with
    | '$' :: q => some (.suf (q.reverse.map (·.toNat)))
    | _ => none

def andAll : List Expr → Expr
  | [] => .top
  | [e] => e
  | e :: es => .and e (andAll es)

mutual
partial def pExpr (cs : List Char) : Option (Expr × List Char) :=
  match cs with
  | 'T' :: r => some (.top, r)
  | 'B' :: r => some (.bot, r)
  | 'I' :: r => some (.sc .int, r)
  | 'S' :: r => some (.sc .str, r)
  | 'i' :: r =>
    let ds := r.takeWhile Char.isDigit
    (String.ofList ds).toNat?.map fun n => (.sc (.i n), r.dropWhile Char.isDigit)
  | 's' :: r =>
    let ds := r.takeWhile Char.isDigit
    (String.ofList ds).toNat?.map fun n => (.sc (.s n), r.dropWhile Char.isDigit)
  | '{' :: '}' :: r => some (.nil, r)
  | '{' :: r => pDecls r
  | 'c' :: '(' :: r => do
    let (e, r) ← pExpr r
    match r with
    | ')' :: r => some (.close e, r)
    | _ => none
  | 'd' :: '(' :: r => do
    let (e, r) ← pExpr r
    match r with
    | ')' :: r => some (.defn e, r)
    | _ => none
  | '&' :: '(' :: r => do
    let (es, r) ← pList r
    some (andAll es, r)
  | _ => none
/-- comma separated expressions up to `)` -/
partial def pList (cs : List Char) : Option (List Expr × List Char) := do
  let (e, r) ← pExpr cs
  match r with
  | ',' :: r => do
    let (es, r) ← pList r
    some (e :: es, r)
  | ')' :: r => some ([e], r)
  | _ => none
/-- declarations up to `}`; returns the spine -/
partial def pDecls (cs : List Char) : Option (Expr × List Char) := do
  let next (k : Expr → Expr) (r : List Char) : Option (Expr × List Char) :=
    match r with
    | ',' :: r => do
      let (rest, r) ← pDecls r
      some (k rest, r)
    | '}' :: r => some (k .nil, r)
    | _ => none
  match cs with
  | '.' :: '.' :: '.' :: r => next .ell r
  | '[' :: r =>
    let ps := r.takeWhile (· != ']')
    match r.dropWhile (· != ']') with
    | ']' :: ':' :: r => do
      let p ← mkPat ps
      let (v, r) ← pExpr r
      next (.pat p v) r
    | _ => none
  | _ =>
    let id := cs.takeWhile isIdent
    let r := cs.dropWhile isIdent
    match id, r with
    | _ :: _, '?' :: ':' :: r => do
      let (v, r) ← pExpr r
      next (.field (mkLabel id) .optional v) r
    | _ :: _, '!' :: ':' :: r => do
      let (v, r) ← pExpr r
      next (.field (mkLabel id) .required v) r
    | _ :: _, ':' :: r => do
      let (v, r) ← pExpr r
      next (.field (mkLabel id) .member v) r
    | _, _ => do
      let (e, r) ← pExpr cs
      next (.emb e) r
end

def parseExpr (s : String) : Option Expr :=
  match pExpr s.toList with
  | some (e, []) => some e
  | _ => none

/-- data words use the same syntax (regular fields and literals only) -/
def toData : Expr → Option Data
  | .sc s => some (.atom s)
  | .nil => some .nil
  | .field l .member v rest => do
    let dv ← toData v
    let dr ← toData rest
    some (.cons l dv dr)
  | _ => none

def insertStr (x : String) : List String → List String
  | [] => [x]
  | y :: ys => if x ≤ y then x :: y :: ys else y :: insertStr x ys

partial def showFields (v : Val) : String :=
  match v with
  | .st labels kind val _ _ _ _ _ _ =>
    let ls := labels.eraseDups
    let items := ls.filterMap fun l =>
      match kind l with
      | none => none
      | some .optional => some (labelStr l ++ "?")
      | some .required => some (labelStr l ++ "!")
      | some .member => some (labelStr l ++ (if l.isReg then showFields (val l) else ""))
    "{" ++ ",".intercalate (items.foldr insertStr []) ++ "}"
  | _ => ""

/-! pattern values for `pm` -/
open CueVerif.PatMatch in
mutual
partial def pPat (cs : List Char) : Option (PatV × List Char) :=
  match cs with
  | 'T' :: r => some (.top, r)
  | 'S' :: r => some (.basic .string, r)
  | 'I' :: r => some (.basic .int, r)
  | 'b' :: r =>
    let opS := String.ofList (r.takeWhile (· != ':'))
    let r := (r.dropWhile (· != ':')).drop 1
    let arg := r.takeWhile (fun c => c != ',' && c != ')')
    let r := r.dropWhile (fun c => c != ',' && c != ')')
    let op : Option Scalar.Op := match opS with
      | "lt" => some .lt | "le" => some .le | "gt" => some .gt | "ge" => some .ge
      | "ne" => some .ne | "mat" => some .mat | "nmat" => some .nmat | _ => none
    match op with
    | none => none
    | some op =>
      if String.ofList arg == "null" then some (.bound ⟨op, .null⟩, r)
      else (unhex (String.ofList arg)).map fun bs => (.bound ⟨op, .str bs⟩, r)
  | 's' :: r =>
    let arg := r.takeWhile (fun c => c != ',' && c != ')')
    (unhex (String.ofList arg)).map fun bs => (.str bs, r.dropWhile (fun c => c != ',' && c != ')'))
  | 'n' :: r =>
    let arg := r.takeWhile (fun c => c != ',' && c != ')')
    (parseInt? (String.ofList arg)).map fun z => (.num z, r.dropWhile (fun c => c != ',' && c != ')'))
  | '&' :: '(' :: r => pPat2 PatV.conj r
  | '|' :: '(' :: r => pPat2 PatV.disj r
  | _ => none
partial def pPat2 (k : PatV → PatV → PatV) (cs : List Char) : Option (PatV × List Char) := do
  let (a, r) ← pPat cs
  match r with
  | ',' :: r => do
    let (b, r) ← pPat r
    match r with
    | ')' :: r => some (k a b, r)
    | _ => none
  | _ => none
end

/-- the regular expressions of the generated patterns: `^lit` and `lit$` -/
def reAnchored (p s : List Nat) : Bool :=
  match p with
  | 94 :: q => q.isPrefixOf s
  | _ => match p.reverse with
    | 36 :: q => q.reverse.isSuffixOf s
    | _ => false

/-- canonical form of a set of paths: only the minimal ones (no proper prefix in the set),
dotted, sorted, comma separated; `-` for the empty set -/
def showPaths (ps : List (List Label)) : String :=
  let min := ps.filter fun p => !(ps.any fun q => q.length < p.length && q.isPrefixOf p)
  let strs := (min.map fun p => ".".intercalate (p.map labelStr)).eraseDups
  if strs.isEmpty then "-" else ",".intercalate (strs.foldr insertStr [])

def handle (ws : List String) : String :=
  match ws with
  | ["pm", p, l] =>
    match pPat p.toList, unhex l with
    | some (pv, []), some lb => boolStr (PatMatch.matchPattern reAnchored (some pv) true lb)
    | _, _ => "bad-op"
  -- spec: minimal paths of fields present in the result that some closed conjunct denies
  | ["den", s, d] =>
    match parseExpr s, (parseExpr d).bind toData with
    | some se, some dd => showPaths (denied se dd)
    | _, _ => "bad-op"
  -- evidence model (transcription of typocheck.go): paths of the arcs checkTypos denies
  | ["tyev", s, d] =>
    match parseExpr s, parseExpr d with
    | some se, some de => showPaths (Typo.typoDenied se de)
    | _, _ => "bad-op"
  | ["val", s, d] =>
    match parseExpr s, parseExpr d with
    | some se, some de =>
      let v := unify (ev se) (ev de)
      if validate true v then "ok " ++ showFields v else "err"
    | _, _ => "bad-op"
  | ["adm", s, d] =>
    match parseExpr s, (parseExpr d).bind toData with
    | some se, some dd => if admits se dd then "ok" else "err"
    | _, _ => "bad-op"
  -- the same verdict, asked for cue.Value.Unify / FillPath of separately compiled values
  | ["uni", s, d] =>
    match parseExpr s, parseExpr d with
    | some se, some de => if validate true (unify (ev se) (ev de)) then "ok" else "err"
    | _, _ => "bad-op"
  | ["fill", s, d] =>
    match parseExpr s, parseExpr d with
    | some se, some de => if validate true (unify (ev se) (ev de)) then "ok" else "err"
    | _, _ => "bad-op"
  | ["allows", s, d, l] =>
    match parseExpr s, parseExpr d with
    | some se, some de => boolStr ((unify (ev se) (ev de)).allows (mkLabel l.toList))
    | _, _ => "bad-op"
  | _ => "bad-op"

end CueVerif.Driver.C05
