import CueVerif.Driver.Proto
import CueVerif.Spec.Trim
namespace CueVerif.Driver.C20
open CueVerif CueVerif.Driver CueVerif.Trim

/-- one conjunct: `<v>.<d>.<p|n>` (value mask, default mask, pattern / plain) -/
def parseCj (s : String) : Option (Cj (DV Mask)) :=
  match s.splitOn "." with
  | [v, d, k] => do
    let v ← v.toNat?
    let d ← d.toNat?
    pure { val := ⟨BitVec.ofNat 32 v, BitVec.ofNat 32 d⟩, pattern := k == "p" }
  | _ => none

def parseCjs (s : String) : Option (List (Cj (DV Mask))) :=
  if s == "-" then some [] else (s.splitOn ",").mapM parseCj

def showFinal : Option Mask → String
  | none => "absent"
  | some m => toString m.toNat

def select : List α → List Char → List α
  | x :: xs, '1' :: ks => x :: select xs ks
  | _ :: xs, _ :: ks => select xs ks
  | _, _ => []

def handle (ws : List String) : String :=
  match ws with
  | ["final", cs] =>
    -- the default-resolved value of one vertex
    match parseCjs cs with
    | some C => showFinal (finalMask C)
    | none => "bad-op"
  | ["red", cs, keep] =>
    -- is dropping the conjuncts not marked in `keep` invisible in the final value?
    match parseCjs cs with
    | some C =>
      if keep.length != C.length then "bad-op" else
      let Kp := select C keep.toList
      if finalMask Kp == finalMask C then "ok"
      else s!"changed {showFinal (finalMask C)} {showFinal (finalMask Kp)}"
    | none => "bad-op"
  | ["model-trim", cs] =>
    -- what the specification-level trimmer keeps on a vertex of plain conjuncts
    -- (answer: number kept, final value); pattern conjuncts are not accepted here
    match parseCjs cs with
    | some C =>
      if C.any (·.pattern) then "bad-op" else
      let T := trimModel bits.dv (fun c : Cj (DV Mask) => c.val) (fun _ => true) C
      s!"{T.length} {showFinal (finalMask T)}"
    | none => "bad-op"
  | _ => "bad-op"

end CueVerif.Driver.C20
