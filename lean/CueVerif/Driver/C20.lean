import CueVerif.Driver.Proto
import CueVerif.Spec.Trim
namespace CueVerif.Driver.C20
open CueVerif CueVerif.Driver CueVerif.Trim

/-- one conjunct: `<v>.<d>.<p|n>` (value mask, default mask, pattern / plain) -/
def parseCj (s : String) : Option (Cj (DV Mask)) :=
  match s.splitOn "." with
  | [v, d, k] => do
    let v ← v.toNat?
    let d ← d.toNat?
    pure { val := ⟨BitVec.ofNat 32 v, BitVec.ofNat 32 d⟩, pattern := k == "p" }
  | _ => none

def parseCjs (s : String) : Option (List (Cj (DV Mask))) :=
  if s == "-" then some [] else (s.splitOn ",").mapM parseCj

def showFinal : Option Mask → String
  | none => "absent"
  | some m => toString m.toNat

def handle (ws : List String) : String :=
  match ws with
  | ["final", cs] =>
    -- the default-resolved value of one vertex
    match parseCjs cs with
    | some C => showFinal (finalMask C)
    | none => "bad-op"
  | ["red", bs, as] =>
    -- `bs`: the conjuncts of one vertex before trim, `as`: what trim left of them.
    -- "ok" iff every conjunct left was there before (or is `_`, trim's replacement for a
    -- value it emptied) and the default-resolved final value (incl. existence) is the same.
    match parseCjs bs, parseCjs as with
    | some B, some A =>
      let isTop (c : Cj (DV Mask)) : Bool := c.val.v == 16777215#32 && c.val.d == 16777215#32 && !c.pattern
      if !(A.all fun a => B.contains a || isTop a) then "not-sub"
      else if finalMask A == finalMask B then "ok"
      else s!"changed {showFinal (finalMask B)} {showFinal (finalMask A)}"
    | _, _ => "bad-op"
  | ["model-trim", cs] =>
    -- what the specification-level trimmer keeps on a vertex of plain conjuncts
    -- (answer: number kept, final value); pattern conjuncts are not accepted here
    match parseCjs cs with
    | some C =>
      if C.any (·.pattern) then "bad-op" else
      let T := trimModel bits.dv (fun c : Cj (DV Mask) => c.val) (fun _ => true) C
      s!"{T.length} {showFinal (finalMask T)}"
    | none => "bad-op"
  | _ => "bad-op"

end CueVerif.Driver.C20
