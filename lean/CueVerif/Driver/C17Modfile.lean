import CueVerif.Driver.Proto
import CueVerif.Model.Modfile
/-!
Protocol handler for the module-file part of C17.

  mfdecode <tree> <current> <okmain> <okdeps>

* `<tree>`: comma separated prefix notation, no spaces:
    `s<hex>` string (`s-` empty) · `t` / `f` booleans · `z` null · `n<int>` number ·
    `o<k>` struct with k fields, followed by k × (`<hex key>`, tree) ·
    `l<k>` list with k elements, followed by k trees
* `<current>`: hex of `cueversion.LanguageVersion()`
* `<okmain>`: `_` or comma separated hex strings: the `module` values the main-module checks
  of `File.init` accept (library verdict supplied by the implementation side)
* `<okdeps>`: `_` or comma separated `<hex m>:<hex v>` pairs accepted by `module.NewVersion`
  with `Path() == m`

Answer: `reject` or
  `ok m=<hex> l=<hex|_> s=<hex|_> d=<m:v:0|1:rw;…|_> c=<_|tree>`
with deps sorted by key bytes and the two outer key levels of custom sorted by key bytes
(deeper structs are printed in input order: the generator emits them sorted).
-/
namespace CueVerif.Driver.C17Modfile
open CueVerif CueVerif.Driver CueVerif.Modfile

/-! ### tree parser (fuel = number of tokens) -/
mutual
def parseVal : Nat → List String → Option (Val × List String)
  | 0, _ => none
  | _ + 1, [] => none
  | fuel + 1, tok :: rest =>
    match tok.toList with
    | ['t'] => some (.bool true, rest)
    | ['f'] => some (.bool false, rest)
    | ['z'] => some (.null, rest)
    | 's' :: h => (unhex (String.ofList h)).map fun s => (.str s, rest)
    | 'n' :: d => (parseInt? (String.ofList d)).map fun n => (.num n, rest)
    | 'o' :: d =>
      match (String.ofList d).toNat? with
      | none => none
      | some k => (parseFields fuel k rest).map fun (fs, r) => (.struct fs, r)
    | 'l' :: d =>
      match (String.ofList d).toNat? with
      | none => none
      | some k => (parseElems fuel k rest).map fun (vs, r) => (.list vs, r)
    | _ => none
def parseFields : Nat → Nat → List String → Option (Fields × List String)
  | 0, _, _ => none
  | _ + 1, 0, ts => some ([], ts)
  | _ + 1, _ + 1, [] => none
  | fuel + 1, k + 1, key :: ts =>
    match unhex key with
    | none => none
    | some kb =>
      match parseVal fuel ts with
      | none => none
      | some (v, ts1) =>
        match parseFields fuel k ts1 with
        | none => none
        | some (fs, ts2) => some ((kb, v) :: fs, ts2)
def parseElems : Nat → Nat → List String → Option (List Val × List String)
  | 0, _, _ => none
  | _ + 1, 0, ts => some ([], ts)
  | fuel + 1, k + 1, ts =>
    match parseVal fuel ts with
    | none => none
    | some (v, ts1) =>
      match parseElems fuel k ts1 with
      | none => none
      | some (vs, ts2) => some (v :: vs, ts2)
end

def parseTree (s : String) : Option Val :=
  let toks := s.splitOn ","
  match parseVal (2 * toks.length + 2) toks with
  | some (v, []) => some v
  | _ => none

/-! ### rendering -/
mutual
def showVal : Val → List String
  | .str s => ["s" ++ hex s]
  | .bool true => ["t"]
  | .bool false => ["f"]
  | .null => ["z"]
  | .num n => ["n" ++ toString n]
  | .struct fs => ("o" ++ toString fs.length) :: showFields fs
  | .list vs => ("l" ++ toString vs.length) :: showElems vs
def showFields : List (Str × Val) → List String
  | [] => []
  | (k, v) :: r => hex k :: (showVal v ++ showFields r)
def showElems : List Val → List String
  | [] => []
  | v :: r => showVal v ++ showElems r
end

def insertBy {α : Type} (key : α → Str) (x : α) : List α → List α
  | [] => [x]
  | y :: ys => if Semver.lexCmp (key x) (key y) != .gt then x :: y :: ys else y :: insertBy key x ys

def sortBy {α : Type} (key : α → Str) (xs : List α) : List α := xs.foldr (insertBy key) []

def optHex : Option Str → String
  | none => "_"
  | some s => hex s

def showDeps (ds : List (Str × Dep)) : String :=
  if ds.isEmpty then "_" else
  ";".intercalate ((sortBy (·.1) ds).map fun (m, d) =>
    s!"{hex m}:{hex d.v}:{if d.dflt then "1" else "0"}:{hex d.replaceWith}")

def showCustom : Option (List (Str × Fields)) → String
  | none => "_"
  | some c =>
    let c' : Fields := (sortBy (·.1) c).map fun (k, fs) => (k, Val.struct (sortBy (·.1) fs))
    ",".intercalate (showVal (.struct c'))

def showModfile (f : Modfile) : String :=
  s!"ok m={hex f.module} l={optHex f.language} s={optHex f.source} d={showDeps f.deps} c={showCustom f.custom}"

/-! ### oracle words -/
def parseHexList (s : String) : Option (List Str) :=
  if s == "_" then some [] else (s.splitOn ",").mapM unhex

def parsePairs (s : String) : Option (List (Str × Str)) :=
  if s == "_" then some [] else
  (s.splitOn ",").mapM fun p =>
    match p.splitOn ":" with
    | [a, b] => do let x ← unhex a; let y ← unhex b; pure (x, y)
    | _ => none

def mkLib (cur : Str) (mains : List Str) (deps : List (Str × Str)) : Lib :=
  { current := cur
    okMain := fun m => mains.contains m
    okDep := fun m v => deps.contains (m, v) }

def handleModfile (ws : List String) : Option String :=
  match ws with
  | ["mfdecode", tree, cur, mains, deps] =>
    some <|
      match parseTree tree, unhex cur, parseHexList mains, parsePairs deps with
      | some t, some c, some ms, some ds =>
        match decode (mkLib c ms ds) t with
        | .ok f => showModfile f
        | .error _ => "reject"
      | _, _, _, _ => "bad-args"
  | "mfdecode" :: _ => some "bad-args"
  | _ => none

end CueVerif.Driver.C17Modfile
