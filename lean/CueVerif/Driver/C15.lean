import CueVerif.Driver.Proto
import CueVerif.Spec.Modzip
import CueVerif.Model.ModzipDir
import CueVerif.Model.ModzipEsc
import CueVerif.Model.ModzipJoin
namespace CueVerif.Driver.C15
open CueVerif CueVerif.Driver CueVerif.Modzip

/-! Line protocol for C15.  A `uni` word carries the unicode parameters for the non-ASCII
runes occurring in the case: `-` or `rune.isLetter.fold,…` (decimal). -/

def parseUni (s : String) : Option Uni :=
  if s == "-" then some ⟨fun _ => false, fun r => r⟩ else do
    let tbl ← (s.splitOn ",").mapM fun w =>
      match w.splitOn "." with
      | [a, b, c] => do
        let r ← a.toNat?; let l ← b.toNat?; let f ← c.toNat?
        pure (r, l, f)
      | _ => none
    let find (r : Nat) : Option (Nat × Nat × Nat) := tbl.find? (fun e => e.1 == r)
    pure ⟨fun r => match find r with | some e => e.2.1 == 1 | none => false,
          fun r => match find r with | some e => e.2.2 | none => r⟩

def pathErrStr : PathErr → String
  | .invalidUTF8 => "utf8" | .empty => "empty" | .doubleSlash => "dslash"
  | .trailingSlash => "tslash" | .emptyElem => "emptyelem" | .dots => "dots"
  | .trailingDot => "tdot" | .invalidChar => "char" | .windows => "windows"

def whyStr : Why → String
  | .lstat => "lstat" | .notClean => "notclean" | .notRelative => "notrel"
  | .vendored => "vendored" | .submodule => "submodule" | .hgArchival => "hg"
  | .localModule => "localmodule" | .path e => "path-" ++ pathErrStr e
  | .cueModCase => "cuemodcase" | .cueModuleCase => "cuemodulecase"
  | .collCase => "collcase" | .collFileDir => "collfiledir" | .collDup => "colldup"
  | .symlink => "symlink" | .notRegular => "notregular" | .cueModSize => "cuemodsize"
  | .licenseSize => "licensesize" | .cueModNotRoot => "cuemodnotroot" | .cueModNotDir => "cuemodnotdir"

def commaNats (xs : List Nat) : String :=
  if xs.isEmpty then "-" else ",".intercalate (xs.map toString)

def hexList (xs : List Str) : String :=
  if xs.isEmpty then "." else ",".intercalate (xs.map hex)

def showChecked (cf : Checked) : String :=
  s!"V={hexList cf.valid};O={hexList (cf.omitted.map (·.1))};I={hexList (cf.invalid.map (·.1))};S={boolStr cf.sizeError};N={boolStr cf.noMod}"

def showWhy (cf : Checked) : String :=
  let f (xs : List (Str × Why)) : String :=
    if xs.isEmpty then "." else ",".intercalate (xs.map fun (p, w) => hex p ++ ":" ++ whyStr w)
  s!"O={f cf.omitted};I={f cf.invalid}"

def parseKind : String → Option FKind
  | "f" => some .regular | "d" => some .dir | "l" => some .symlink
  | "o" => some .other | "e" => some .lstatErr | _ => none

/-- `hexpath,kind,size` -/
def parseFEnt (w : String) : Option FEnt :=
  match w.splitOn "," with
  | [p, k, s] => do
    let p ← unhex p; let k ← parseKind k; let s ← parseInt? s
    pure ⟨p, k, s⟩
  | _ => none

/-- `hexpath,kind,size,contentLen` -/
def parseSrc (w : String) : Option SrcFile :=
  match w.splitOn "," with
  | [p, k, s, n] => do
    let p ← unhex p; let k ← parseKind k; let s ← parseInt? s; let n ← n.toNat?
    pure ⟨⟨p, k, s⟩, List.replicate n 0⟩
  | _ => none

/-- `hexname,declared[,openErr,dataLen,streamErr]` -/
def parseZEnt (w : String) : Option ZEnt :=
  match w.splitOn "," with
  | [p, d] => do
    let p ← unhex p; let d ← d.toNat?
    pure { name := p, declared := d }
  | [p, d, oe, n, se] => do
    let p ← unhex p; let d ← d.toNat?; let n ← n.toNat?
    pure { name := p, declared := d, openErr := oe == "1", data := List.replicate n 0, streamErr := se == "1" }
  | _ => none

def insertSorted (x : String) : List String → List String
  | [] => [x]
  | y :: ys => if x ≤ y then x :: y :: ys else y :: insertSorted x ys

def sortStrs (xs : List String) : List String := xs.foldr insertSorted []

def relStr (rel : List Str) : String := hex (joinSlash rel)

/-- the nodes of a file system, canonically: files and directories strictly under `dir`
(relative, sorted) and the number of other nodes apart from `dir` and its ancestors -/
def showFS (fs : FS) (dir : Path) : String :=
  let keys := (fs.map (·.1)).eraseDups
  let under := keys.filter fun q => dir.isPrefixOf q && q.length > dir.length
  let files := under.filterMap fun q =>
    match fs.get q with
    | some (.file c) => some s!"{relStr (q.drop dir.length)}:{c.length}"
    | _ => none
  let dirs := under.filterMap fun q =>
    match fs.get q with
    | some .dir => some (relStr (q.drop dir.length))
    | _ => none
  let outside := keys.filter fun q => !(dir.isPrefixOf q && q.length > dir.length) && !(q.isPrefixOf dir)
  let j (xs : List String) : String := if xs.isEmpty then "." else ",".intercalate (sortStrs xs)
  s!"files={j files} dirs={j dirs} outside={outside.length}"

/-- a directory tree in pre-order: `f,<hexname>,<size>` `i,<hexname>` `d,<hexname>` … `)` -/
def parseDList : Nat → List String → Option (DList × List String)
  | 0, _ => none
  | _ + 1, [] => some (.nil, [])
  | fuel + 1, w :: rest =>
    if w == ")" then some (.nil, rest) else
    match w.splitOn "," with
    | ["f", n, sz] => do
      let n ← unhex n; let sz ← parseInt? sz
      let (more, rest') ← parseDList fuel rest
      pure (.cons n (.file sz) more, rest')
    | ["i", n] => do
      let n ← unhex n
      let (more, rest') ← parseDList fuel rest
      pure (.cons n .irregular more, rest')
    | ["d", n] => do
      let n ← unhex n
      let (ch, rest1) ← parseDList fuel rest
      let (more, rest2) ← parseDList fuel rest1
      pure (.cons n (.dir ch) more, rest2)
    | _ => none

def dirWhyStr : DirWhy → String
  | .vendored => "vendored" | .vcs => "vcs" | .submoduleDir => "submoduledir" | .notRegular => "notregular"

def showListing (l : Listing) : String :=
  let f := if l.files.isEmpty then "." else ",".intercalate (sortStrs (l.files.map fun e => hex e.path))
  let o := if l.omitted.isEmpty then "." else ",".intercalate (l.omitted.map fun (p, w) => hex p ++ ":" ++ dirWhyStr w)
  s!"F={f};W={o}"

def optStr : Option Str → String
  | some e => "ok " ++ hex e
  | none => "err"

def targetDir : Path := [[84]]     -- "/T"

def handle (ws : List String) : String :=
  match ws with
  | ["fnok", u, r] =>
    match parseUni u, r.toNat? with
    | some U, some r => boolStr (fileNameOK U.isLetter r)
    | _, _ => "bad-op"
  | ["runes", s] =>
    match unhex s with
    | some s => s!"{boolStr (validUTF8 s)} {commaNats (runes s)}"
    | none => "bad-op"
  | ["clean", s] =>
    match unhex s with
    | some s => hex (pathClean s)
    | none => "bad-op"
  | ["dir", s] =>
    match unhex s with
    | some s => hex (pathDir s)
    | none => "bad-op"
  | ["eqfold", u, a, b] =>
    match parseUni u, unhex a, unhex b with
    | some U, some a, some b => boolStr (equalFold U a b)
    | _, _, _ => "bad-op"
  | ["checkpath", u, s] =>
    match parseUni u, unhex s with
    | some U, some s => if (checkFilePath U s).isNone then "ok" else "err"
    | _, _ => "bad-op"
  | ["checkpathwhy", u, s] =>
    match parseUni u, unhex s with
    | some U, some s =>
      match checkFilePath U s with
      | none => "ok"
      | some e => pathErrStr e
    | _, _ => "bad-op"
  | "checkfiles" :: u :: ents =>
    match parseUni u, ents.mapM parseFEnt with
    | some U, some fs => showChecked (checkFiles U fs).1
    | _, _ => "bad-op"
  | "checkfileswhy" :: u :: ents =>
    match parseUni u, ents.mapM parseFEnt with
    | some U, some fs => showWhy (checkFiles U fs).1
    | _, _ => "bad-op"
  | "checkzip" :: u :: zs :: ents =>
    match parseUni u, zs.toNat?, ents.mapM parseZEnt with
    | some U, some zs, some z => showChecked (checkZip U zs z)
    | _, _, _ => "bad-op"
  | "checkzipwhy" :: u :: zs :: ents =>
    match parseUni u, zs.toNat?, ents.mapM parseZEnt with
    | some U, some zs, some z => showWhy (checkZip U zs z)
    | _, _, _ => "bad-op"
  | "create" :: u :: ents =>
    match parseUni u, ents.mapM parseSrc with
    | some U, some fs =>
      match create U fs with
      | none => "fail"
      | some z => "ok " ++ (if z.isEmpty then "." else ",".intercalate (z.map fun e => s!"{hex e.name}:{e.declared}"))
    | _, _ => "bad-op"
  | "unzip" :: u :: zs :: ents =>
    match parseUni u, zs.toNat?, ents.mapM parseZEnt with
    | some U, some zs, some z =>
      let r := unzip U [] targetDir zs z
      (if r.2 then "ok " else "fail ") ++ showFS r.1 targetDir
    | _, _, _ => "bad-op"
  | ["escape", s] =>
    match unhex s with
    | some s => match escapeString s with
      | some e => "ok " ++ hex e
      | none => "err"
    | none => "bad-op"
  | "createfull" :: u :: ents =>
    match parseUni u, ents.mapM parseSrc with
    | some U, some fs =>
      match createFull U fs with
      | none => "fail"
      | some z => "ok " ++ (if z.isEmpty then "." else ",".intercalate (z.map fun e => s!"{hex e.name}:{e.declared}"))
    | _, _ => "bad-op"
  | "listdir" :: toks =>
    match parseDList (2 * toks.length + 2) toks with
    | some (root, []) => showListing (listFilesInDir root)
    | _ => "bad-op"
  | "checkdir" :: u :: toks =>
    match parseUni u, parseDList (2 * toks.length + 2) toks with
    | some U, some (root, []) => showChecked (checkDir U root).1
    | _, _ => "bad-op"
  | ["escapelit", s] =>
    match unhex s with
    | some s => optStr (escapeStringLit s)
    | none => "bad-op"
  | ["escapev", u, sv, s] =>
    match parseUni u, unhex s with
    | some U, some s => optStr (escapeVersion U (sv == "1") s)
    | _, _ => "bad-op"
  | ["unescape", s] =>
    match unhex s with
    | some s => optStr (unescapeString s)
    | none => "bad-op"
  | ["fpjoin", a, b] =>
    match unhex a, unhex b with
    | some a, some b => hex (fpJoin a b)
    | _, _ => "bad-op"
  | ["cmp", a, b] =>
    match unhex a, unhex b with
    | some a, some b => toString (createCmp a b)
    | _, _ => "bad-op"
  | _ => "bad-op"

end CueVerif.Driver.C15
