import CueVerif.Driver.Proto
import CueVerif.Model.TokenFile
/-! driver ops of the C09 extension: the position table (`token.File`) -/
namespace CueVerif.Driver.C09Token
open CueVerif CueVerif.Driver CueVerif.TokenFile

/-- a comma separated list of integers, "-" for empty -/
def intList? (s : String) : Option (List Int) :=
  if s == "-" then some [] else (s.splitOn ",").mapM parseInt?

def intsStr (l : List Int) : String :=
  if l.isEmpty then "-" else ",".intercalate (l.map toString)

/-- one query `off:rel:n` → `offset:line:col:offsetAfterAdd(n):RelPos:HasComma:Scanned`; the
harness builds the position as `f.Pos(off, rel&15).WithComma(rel&16).WithScanned(rel&32)` -/
def query (f : File) (q : String) : String :=
  match (q.splitOn ":").mapM parseInt? with
  | some [o, rel, n] =>
    let p := pos f o rel
    match position f p with
    | .ok r =>
      let b (x : Bool) : Nat := if x then 1 else 0
      s!"{r.offset}:{r.line}:{r.column}:{offset f (add p n)}:{relPos p}:{b (hasComma p)}:{b (scanned p)}"
    | .oob => "panic"
    | .fuel => "fuel"
  | _ => "bad"

def handle (ws : List String) : Option String :=
  match ws with
  | ["pos", size, adds, qs] =>
    match parseInt? size, intList? adds with
    | some sz, some a =>
      let f := addLines (newFile sz) a
      some (intsStr f.lines ++ " " ++ " ".intercalate ((qs.splitOn ";").map (query f)))
    | _, _ => some "bad-op"
  | ["setlines", size, ls] =>
    match parseInt? size, intList? ls with
    | some sz, some l =>
      let r := setLines (newFile sz) l
      some (boolStr r.2 ++ " " ++ intsStr r.1.lines)
    | _, _ => some "bad-op"
  | ["content", c] =>
    match unhex c with
    | some b =>
      some (intsStr (setLinesForContent (newFile b.length) b).lines ++ " " ++ intsStr (scannedFile b).lines)
    | none => some "bad-op"
  | _ => none

end CueVerif.Driver.C09Token
