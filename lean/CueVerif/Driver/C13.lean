import CueVerif.Driver.Proto
import CueVerif.Spec.JsonSchema
import CueVerif.Model.JsonSchemaSkel
import CueVerif.Model.JsonSchemaCC
/-!
Driver for C13.  Ops:

* `valid <schema-json-hex> <instance-json-hex>` → `true` | `false` | `undetermined` |
  `bad-schema:<why>` | `bad-json` — the ORACLE's verdict `JS.valid tinyRe root fuel root j`.
* `agree <schema1-hex> <schema2-hex> <instance-hex>` → `same` | `differ:<v1>/<v2>` | … — the
  reverse direction: both schemas judged by the oracle on the same instance.
* `skel <allowed> <known> <presence> <nAll>` → the kind skeleton `Skel.finalize` assembles (internal
  correspondence with `state.finalize`).
* `cc <schema-json-hex>` → canonical text of `CCm.translate` (the transcribed builders) for the
  schema, or `outside` when the schema leaves the transcribed subset (`CCm.inModel`) — internal
  correspondence with the CUE AST the real importer builds.

Contains a small total JSON parser (RFC 8259; numbers as exact decimals) and the
JSON → `JS.Schema` reader.  Core Lean only.
-/
namespace CueVerif.Driver.C13
open CueVerif CueVerif.Driver CueVerif.JS

/-! ### JSON parser -/

def isWs (c : Char) : Bool := c == ' ' || c == '\n' || c == '\t' || c == '\r'

def skipWs : List Char → List Char
  | c :: r => if isWs c then skipWs r else c :: r
  | [] => []

def takeDigits : List Char → List Char → List Char × List Char
  | c :: r, acc => if c.isDigit then takeDigits r (c :: acc) else (acc.reverse, c :: r)
  | [], acc => (acc.reverse, [])

def digitsVal (ds : List Char) : Nat := ds.foldl (fun a c => a * 10 + (c.toNat - 48)) 0

/-- `-?int(.frac)?([eE][+-]?digits)?` → exact rational -/
def parseNumber (cs : List Char) : Option (Num × List Char) :=
  let (neg, cs) := match cs with | '-' :: r => (true, r) | _ => (false, cs)
  let (ip, cs) := takeDigits cs []
  if ip.isEmpty then none else
  if ip.length > 1 && ip.head? == some '0' then none else
  let (fp, cs, okf) := match cs with
    | '.' :: r => let (f, r') := takeDigits r []; (f, r', !f.isEmpty)
    | _ => ([], cs, true)
  if !okf then none else
  let (ex, cs, oke) : Int × List Char × Bool := match cs with
    | c :: r =>
      if c == 'e' || c == 'E' then
        let (sgn, r) := match r with | '+' :: r' => (false, r') | '-' :: r' => (true, r') | _ => (false, r)
        let (e, r') := takeDigits r []
        ((if sgn then - (digitsVal e : Int) else (digitsVal e : Int)), r', !e.isEmpty)
      else (0, cs, true)
    | [] => (0, cs, true)
  if !oke then none else
  let mant : Int := (digitsVal (ip ++ fp) : Int)
  let mant := if neg then -mant else mant
  let e10 : Int := ex - (fp.length : Int)
  let n : Num := if e10 ≥ 0 then ⟨mant * (10 : Int) ^ e10.toNat, 1⟩ else ⟨mant, 10 ^ (-e10).toNat⟩
  some (n, cs)

def hex4 : List Char → Option (Nat × List Char)
  | a :: b :: c :: d :: r =>
    match hexVal a, hexVal b, hexVal c, hexVal d with
    | some w, some x, some y, some z => some (((w * 16 + x) * 16 + y) * 16 + z, r)
    | _, _, _, _ => none
  | _ => none

/-- after the opening quote; total by recursion on fuel = remaining length -/
def parseStringBody : Nat → List Char → List Char → Option (String × List Char)
  | 0, _, _ => none
  | _ + 1, '"' :: r, acc => some (String.ofList acc.reverse, r)
  | n + 1, '\\' :: e :: r, acc =>
    if e == 'u' then
      match hex4 r with
      | some (u, r') =>
        if 0xD800 ≤ u && u < 0xDC00 then
          match r' with
          | '\\' :: 'u' :: r'' =>
            match hex4 r'' with
            | some (l, r3) =>
              if 0xDC00 ≤ l && l < 0xE000 then
                parseStringBody n r3 (Char.ofNat (0x10000 + (u - 0xD800) * 0x400 + (l - 0xDC00)) :: acc)
              else none
            | none => none
          | _ => none
        else if 0xDC00 ≤ u && u < 0xE000 then none
        else parseStringBody n r' (Char.ofNat u :: acc)
      | none => none
    else
      let c? : Option Char :=
        if e == '"' then some '"' else if e == '\\' then some '\\' else if e == '/' then some '/'
        else if e == 'b' then some (Char.ofNat 8) else if e == 'f' then some (Char.ofNat 12)
        else if e == 'n' then some '\n' else if e == 'r' then some '\r' else if e == 't' then some '\t'
        else none
      match c? with
      | some c => parseStringBody n r (c :: acc)
      | none => none
  | n + 1, c :: r, acc => if c.toNat < 0x20 then none else parseStringBody n r (c :: acc)
  | _ + 1, [], _ => none

def dropPrefix (p : List Char) (cs : List Char) : Option (List Char) :=
  if p.isPrefixOf cs then some (cs.drop p.length) else none

mutual
def parseValue : Nat → List Char → Option (Json × List Char)
  | 0, _ => none
  | n + 1, cs =>
    match skipWs cs with
    | 'n' :: r => (dropPrefix "ull".toList r).map fun r => (Json.null, r)
    | 't' :: r => (dropPrefix "rue".toList r).map fun r => (Json.bool true, r)
    | 'f' :: r => (dropPrefix "alse".toList r).map fun r => (Json.bool false, r)
    | '"' :: r => (parseStringBody (r.length + 1) r []).map fun (s, r) => (Json.str s, r)
    | '[' :: r =>
      match skipWs r with
      | ']' :: r' => some (Json.arr [], r')
      | r' => (parseElems n r' []).map fun (xs, r) => (Json.arr xs, r)
    | '{' :: r =>
      match skipWs r with
      | '}' :: r' => some (Json.obj [], r')
      | r' => (parseMembers n r' []).map fun (kvs, r) => (Json.obj kvs, r)
    | cs' => (parseNumber cs').map fun (x, r) => (Json.num x, r)
def parseElems : Nat → List Char → List Json → Option (List Json × List Char)
  | 0, _, _ => none
  | n + 1, cs, acc =>
    match parseValue n cs with
    | none => none
    | some (v, r) =>
      match skipWs r with
      | ',' :: r' => parseElems n r' (v :: acc)
      | ']' :: r' => some ((v :: acc).reverse, r')
      | _ => none
def parseMembers : Nat → List Char → List (String × Json) → Option (List (String × Json) × List Char)
  | 0, _, _ => none
  | n + 1, cs, acc =>
    match skipWs cs with
    | '"' :: r =>
      match parseStringBody (r.length + 1) r [] with
      | none => none
      | some (k, r) =>
        match skipWs r with
        | ':' :: r' =>
          match parseValue n r' with
          | none => none
          | some (v, r) =>
            match skipWs r with
            | ',' :: r' => parseMembers n r' ((k, v) :: acc)
            | '}' :: r' => some (((k, v) :: acc).reverse, r')
            | _ => none
        | _ => none
    | _ => none
end

def parseJson (s : String) : Option Json :=
  let cs := s.toList
  match parseValue (cs.length + 2) cs with
  | some (v, r) => if (skipWs r).isEmpty then some v else none
  | none => none

def bytesToString (bs : List Nat) : Option String :=
  String.fromUTF8? (ByteArray.mk (bs.map UInt8.ofNat).toArray)

def parseHexJson (h : String) : Option Json := do
  let bs ← unhex h
  let s ← bytesToString bs
  parseJson s

/-! ### JSON → Schema -/

def typeNameOf : Json → Except String TypeName
  | .str "null" => .ok .null | .str "boolean" => .ok .boolean | .str "number" => .ok .number
  | .str "integer" => .ok .integer | .str "string" => .ok .string | .str "array" => .ok .array
  | .str "object" => .ok .object
  | _ => .error "type-name"

def natOf : Json → Except String Nat
  | .num n => if n.isInt && n.num ≥ 0 then .ok (n.num / (n.den : Int)).toNat else .error "not-a-natural"
  | _ => .error "not-a-number"

def numOf : Json → Except String Num
  | .num n => .ok n
  | _ => .error "not-a-number"

def strOf : Json → Except String String
  | .str s => .ok s
  | _ => .error "not-a-string"

def refOf (s : String) : Except String Ref :=
  if s == "#" then .ok .root
  else if s.startsWith "#/$defs/" then
    let name := (s.drop 8).toString
    if name.toList.any (fun c => c == '/' || c == '~' || c == '%') then .error "unsupported-ref" else .ok (.defn name)
  else .error "unsupported-ref"

def annotations : List String :=
  ["$schema", "title", "description", "$comment", "default", "examples", "deprecated"]

mutual
def toSchema : Nat → Json → Except String Schema
  | 0, _ => .error "too-deep"
  | _ + 1, .bool b => .ok (.bool b)
  | n + 1, .obj kvs => do
    let kws ← toKws n kvs
    .ok (.obj kws)
  | _ + 1, _ => .error "schema-not-object-or-bool"
def toSchemas : Nat → List Json → Except String (List Schema)
  | 0, _ => .error "too-deep"
  | _ + 1, [] => .ok []
  | n + 1, j :: r => do
    let s ← toSchema n j
    let ss ← toSchemas n r
    .ok (s :: ss)
def toNamed : Nat → Bool → List (String × Json) → Except String (List (String × Schema))
  | 0, _, _ => .error "too-deep"
  | _ + 1, _, [] => .ok []
  | n + 1, isPat, (k, j) :: r => do
    if isPat && !tinyReKnown k then .error "unsupported-pattern" else
    let s ← toSchema n j
    let ss ← toNamed n isPat r
    .ok ((k, s) :: ss)
def toKws : Nat → List (String × Json) → Except String (List Kw)
  | 0, _ => .error "too-deep"
  | _ + 1, [] => .ok []
  | n + 1, (k, v) :: r => do
    let kw ← toKw n k v
    let kws ← toKws n r
    .ok (kw :: kws)
def toKw : Nat → String → Json → Except String Kw
  | 0, _, _ => .error "too-deep"
  | n + 1, k, v =>
    if k == "type" then
      match v with
      | .arr ts => do let l ← ts.mapM typeNameOf; .ok (.type l)
      | t => do let x ← typeNameOf t; .ok (.type [x])
    else if k == "enum" then (match v with | .arr vs => .ok (.enum vs) | _ => .error "enum-not-array")
    else if k == "const" then .ok (.const v)
    else if k == "minimum" then do let x ← numOf v; .ok (.minimum x)
    else if k == "maximum" then do let x ← numOf v; .ok (.maximum x)
    else if k == "exclusiveMinimum" then do let x ← numOf v; .ok (.exclusiveMinimum x)
    else if k == "exclusiveMaximum" then do let x ← numOf v; .ok (.exclusiveMaximum x)
    else if k == "multipleOf" then do
      let x ← numOf v
      if x.num ≤ 0 then .error "multipleOf-not-positive" else .ok (.multipleOf x)
    else if k == "minLength" then do let x ← natOf v; .ok (.minLength x)
    else if k == "maxLength" then do let x ← natOf v; .ok (.maxLength x)
    else if k == "pattern" then do
      let p ← strOf v
      if tinyReKnown p then .ok (.pattern p) else .error "unsupported-pattern"
    else if k == "properties" then
      (match v with | .obj m => do let l ← toNamed n false m; .ok (.properties l) | _ => .error "properties-not-object")
    else if k == "patternProperties" then
      (match v with | .obj m => do let l ← toNamed n true m; .ok (.patternProperties l) | _ => .error "patternProperties-not-object")
    else if k == "$defs" then
      (match v with | .obj m => do let l ← toNamed n false m; .ok (.defs l) | _ => .error "defs-not-object")
    else if k == "additionalProperties" then do let s ← toSchema n v; .ok (.additionalProperties s)
    else if k == "propertyNames" then do let s ← toSchema n v; .ok (.propertyNames s)
    else if k == "required" then
      (match v with | .arr ks => do let l ← ks.mapM strOf; .ok (.required l) | _ => .error "required-not-array")
    else if k == "minProperties" then do let x ← natOf v; .ok (.minProperties x)
    else if k == "maxProperties" then do let x ← natOf v; .ok (.maxProperties x)
    else if k == "items" then do let s ← toSchema n v; .ok (.items s)
    else if k == "prefixItems" then
      (match v with | .arr l => do let ss ← toSchemas n l; .ok (.prefixItems ss) | _ => .error "prefixItems-not-array")
    else if k == "minItems" then do let x ← natOf v; .ok (.minItems x)
    else if k == "maxItems" then do let x ← natOf v; .ok (.maxItems x)
    else if k == "uniqueItems" then (match v with | .bool b => .ok (.uniqueItems b) | _ => .error "uniqueItems-not-bool")
    else if k == "contains" then do let s ← toSchema n v; .ok (.contains s)
    else if k == "minContains" then do let x ← natOf v; .ok (.minContains x)
    else if k == "maxContains" then do let x ← natOf v; .ok (.maxContains x)
    else if k == "allOf" then
      (match v with | .arr (a :: l) => do let ss ← toSchemas n (a :: l); .ok (.allOf ss) | _ => .error "allOf-not-nonempty-array")
    else if k == "anyOf" then
      (match v with | .arr (a :: l) => do let ss ← toSchemas n (a :: l); .ok (.anyOf ss) | _ => .error "anyOf-not-nonempty-array")
    else if k == "oneOf" then
      (match v with | .arr (a :: l) => do let ss ← toSchemas n (a :: l); .ok (.oneOf ss) | _ => .error "oneOf-not-nonempty-array")
    else if k == "not" then do let s ← toSchema n v; .ok (.not s)
    else if k == "if" then do let s ← toSchema n v; .ok (.ifS s)
    else if k == "then" then do let s ← toSchema n v; .ok (.thenS s)
    else if k == "else" then do let s ← toSchema n v; .ok (.elseS s)
    else if k == "$ref" then do let p ← strOf v; let r ← refOf p; .ok (.ref r)
    else if annotations.contains k then .ok (.annot k)
    else .error ("unsupported-keyword:" ++ k)
end

/-- fuel for the oracle: ample for the generators (schema depth ≤ 4 incl. `$defs`, instance
depth ≤ 5, each reference unfolding guarded by an instance descent) -/
def oracleFuel : Nat := 200

def verdictStr : Option Bool → String
  | some true => "true" | some false => "false" | none => "undetermined"

def readSchema (h : String) : Except String Schema :=
  match parseHexJson h with
  | none => .error "bad-json"
  | some j => toSchema 1000000 j


/-! ### canonical text of a `CC` (mirrored by harness/c13_cc.go on the importer's AST) -/

open CueVerif.CCm in
def numText (n : Num) : String := toString n.num ++ "/" ++ toString n.den

def strHex (s : String) : String := hex (s.toUTF8.toList.map (·.toNat))

open CueVerif.CCm in
mutual
def litText : Json → String
  | .null => "null"
  | .bool b => boolStr b
  | .num n => numText n
  | .str s => "\"" ++ strHex s ++ "\""
  | .arr xs => "[" ++ ",".intercalate (litTexts xs) ++ "]"
  | .obj kvs => "close{" ++ ",".intercalate (litFields kvs) ++ "}"
def litTexts : List Json → List String
  | [] => []
  | x :: r => litText x :: litTexts r
def litFields : List (String × Json) → List String
  | [] => []
  | (k, v) :: r => ("\"" ++ strHex k ++ "\"!:" ++ litText v) :: litFields r
end

open CueVerif.CCm in
def cmpText : Cmp → String
  | .ge => ">=" | .gt => ">" | .le => "<=" | .lt => "<"

open CueVerif.CCm CueVerif.Skel in
mutual
def ccText : CC → String
  | .top => "_"
  | .disallowed => "!"
  | .kind t => coreName t
  | .int => "int"
  | .bound op n => cmpText op ++ numText n
  | .multipleOf n => "mul(" ++ numText n ++ ")"
  | .minRunes n => "minR(" ++ toString n ++ ")"
  | .maxRunes n => "maxR(" ++ toString n ++ ")"
  | .matches p => "=~\"" ++ strHex p ++ "\""
  | .lit v => litText v
  | .listOpen pre rest =>
    "[" ++ ",".intercalate (ccTexts pre ++ [if rest.isTop then "..." else "..." ++ ccText rest]) ++ "]"
  | .listClosed pre => "[" ++ ",".intercalate (ccTexts pre) ++ "]"
  | .maxItems n => "maxI(" ++ toString n ++ ")"
  | .uniqueItems => "uniq"
  | .listMatchN lo hi c =>
    "lmN(>=" ++ toString lo ++ (match hi with | some h => "&<=" ++ toString h | none => "") ++ "," ++ ccText c ++ ")"
  | .and a b => "(" ++ ccText a ++ "&" ++ ccText b ++ ")"
  | .or a b => "(" ++ ccText a ++ "|" ++ ccText b ++ ")"
  | .matchN b vs =>
    "mN(" ++ (match b with | .eq n => toString n | .ge n => ">=" ++ toString n) ++ ",[" ++
      ",".intercalate (ccTexts vs) ++ "])"
  | .matchIf i t e => "mIf(" ++ ccText i ++ "," ++ ccText t ++ "," ++ ccText e ++ ")"
def ccTexts : List CC → List String
  | [] => []
  | c :: r => ccText c :: ccTexts r
end

/-- fuel for `translate` / `inModel`: ample for generated schemas (depth ≤ 6) -/
def ccFuel : Nat := 64

def ccAnswer (s : Schema) : String :=
  if CCm.inModel ccFuel s then ccText (CCm.translate ccFuel Skel.KSet.full s).expr else "outside"

def handle (ws : List String) : String :=
  match ws with
  | ["valid", sh, ih] =>
    match readSchema sh, parseHexJson ih with
    | .ok s, some j => verdictStr (valid tinyRe s oracleFuel s j)
    | .error e, _ => "bad-schema:" ++ e
    | _, none => "bad-json"
  | ["agree", s1, s2, ih] =>
    match readSchema s1, readSchema s2, parseHexJson ih with
    | .ok a, .ok b, some j =>
      let va := valid tinyRe a oracleFuel a j
      let vb := valid tinyRe b oracleFuel b j
      if va == vb then "same" else "differ:" ++ verdictStr va ++ "/" ++ verdictStr vb
    | .error e, _, _ => "bad-schema:" ++ e
    | _, .error e, _ => "bad-generated-schema:" ++ e
    | _, _, none => "bad-json"
  | ["cc", sh] =>
    match readSchema sh with
    | .ok s => ccAnswer s
    | .error e => "bad-schema:" ++ e
  | ["skel", a, k, p, n] =>
    match a.toNat?, k.toNat?, p.toNat?, n.toNat? with
    | some a, some k, some p, some n => Skel.finalizeShapeStr a k p n
    | _, _, _, _ => "bad-op"
  | _ => "bad-op"

end CueVerif.Driver.C13
