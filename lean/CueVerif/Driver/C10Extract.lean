import CueVerif.Driver.Proto
import CueVerif.Model.JsonExtract
/-!
Protocol helpers for C10, reading direction.

  extract <env> <nq> <text>   the ast.Expr json.Extract returns, as words in prefix order:
        `n` `t` `f` `N<0/1>:<hex literal>` `S<hex literal>` `[<k>` e1 … ek
        `{<k>` (`Li<hex name>` | `Ls<hex literal>`) v1 …           | `reject`
     <env>: `cp:flags,…` (bit 0 strconv.IsPrint, bit 1 strconv.IsGraphic) or `-`
     <nq>:  `<hex label>:<0/1>,…` = ast.StringLabelNeedsQuoting per member name, or `-`
  extractdata <env> <nq> <text>   `same` if evalData (extractModel text) = normZero (parseJSON text)
        and both are defined | `reject` | `nodata` | `differs`
-/
namespace CueVerif.Driver.C10Extract
open CueVerif CueVerif.Driver CueVerif.Json

def parseEnv (w : String) : Option Quote.Env :=
  if w == "-" then some { isPrint := fun _ => false, isGraphic := fun _ => false } else
  let items := (w.splitOn ",").mapM fun it =>
    match it.splitOn ":" with
    | [a, b] => do let x ← a.toNat?; let y ← b.toNat?; pure (x, y)
    | _ => none
  items.map fun tbl =>
    let look (r : Nat) : Nat := match tbl.find? (fun e => e.1 == r) with
      | some e => e.2
      | none => 0
    { isPrint := fun r => look r % 2 == 1, isGraphic := fun r => look r / 2 % 2 == 1 }

def parseNq (w : String) : Option (List Nat → Bool) :=
  if w == "-" then some (fun _ => true) else
  let items := (w.splitOn ",").mapM fun it =>
    match it.splitOn ":" with
    | [a, b] => do let k ← unhex a; pure (k, b == "1")
    | _ => none
  items.map fun tbl => fun u =>
    match tbl.find? (fun e => e.1 == u) with
    | some e => e.2
    | none => true

mutual
def showC : CLit → List String
  | .null => ["n"]
  | .bool true => ["t"]
  | .bool false => ["f"]
  | .num neg lit => [s!"N{if neg then "1" else "0"}:{hex lit}"]
  | .str lit => ["S" ++ hex lit]
  | .list es => s!"[{es.length}" :: showCs es
  | .struct fs => ("{" ++ toString fs.length) :: showFs fs
def showCs : List CLit → List String
  | [] => []
  | v :: vs => showC v ++ showCs vs
def showFs : List (CLabel × CLit) → List String
  | [] => []
  | (.ident n, v) :: fs => ("Li" ++ hex n) :: (showC v ++ showFs fs)
  | (.str l, v) :: fs => ("Ls" ++ hex l) :: (showC v ++ showFs fs)
end

mutual
def jvEq : JVal → JVal → Bool
  | .null, .null => true
  | .bool a, .bool b => a == b
  | .num n c e, .num n' c' e' => n == n' && c == c' && e == e'
  | .str a, .str b => a == b
  | .arr a, .arr b => jvEqs a b
  | .obj a, .obj b => jvEqm a b
  | _, _ => false
def jvEqs : List JVal → List JVal → Bool
  | [], [] => true
  | a :: as, b :: bs => jvEq a b && jvEqs as bs
  | _, _ => false
def jvEqm : List (List Nat × JVal) → List (List Nat × JVal) → Bool
  | [], [] => true
  | (k, a) :: as, (k', b) :: bs => k == k' && jvEq a b && jvEqm as bs
  | _, _ => false
end

def handleExtract (ws : List String) : Option String :=
  match ws with
  | ["extract", env, nq, h] =>
    match parseEnv env, parseNq nq, unhex h with
    | some E, some q, some t =>
      match extractModel E q t with
      | some c => some (" ".intercalate (showC c))
      | none => some "reject"
    | _, _, _ => some "bad-op"
  | ["extractdata", env, nq, h] =>
    match parseEnv env, parseNq nq, unhex h with
    | some E, some q, some t =>
      match extractModel E q t with
      | none => some "reject"
      | some c =>
        match evalData c, parseJSON t with
        | some d, some w => some (if jvEq d w.normZero then "same" else "differs")
        | _, _ => some "nodata"
    | _, _, _ => some "bad-op"
  | _ => none

end CueVerif.Driver.C10Extract
