import CueVerif.Driver.Proto
import CueVerif.Spec.Json
import CueVerif.Model.Json
import CueVerif.Driver.C10Doc
import CueVerif.Driver.C10Extract
import CueVerif.Driver.C10Err
/-!
Protocol handler for C10 (byte strings in hex, "-" = empty):

  str <tok>     what CUE's JSON decoder makes of a string token: `ok <hex>` | `reject`
                (reject also when the token is not an RFC 8259 string token: json.Valid runs first)
  scan <tok>    the CUE scanner lexes the token as one clean "…" STRING token: true | false
  sden <tok>    SPEC: `ok <hex of the denoted string> <wellPaired>` | `invalid`
  num <tok>     what the decoder makes of a number token: kind and exact value, normalised
                (`<int|float> <-?digits>e<exp>`, trailing zeros moved into the exponent, zero = 0e0;
                `bad:<hex>` when the decimal is NaN/Infinity) | `reject`
  numfmt <tok>  the same token printed back by the encoder, byte for byte:
                `<int|float> <hex of Append 'G'>` | `reject`
  nspec <tok>   SPEC: `<neg> <coeff> <exp> <isFloat>` | `invalid`
  setstr <s>    apd SetString: `finite <neg> <coeff> <exp> <err>` | `nan <neg> <err>` | `inf <neg> <err>`
  esc <s>       encoder: hex of internal/encoding/json.Marshal(s)
  fmt <neg> <coeff> <exp>   encoder: hex of apd Append 'G' of a finite decimal
  doc <tree words>          encoder: hex of Value.MarshalJSON of the value tree (Driver/C10Doc.lean)
  mstream <tree words of a list>   hex of pkg/encoding/json.MarshalStream
  docdata <text>            SPEC: `ok <tree words>` of the data the reference parser reads | `invalid`
  extract <env> <nq> <text>, extractdata <env> <nq> <text>   reading direction (Driver/C10Extract.lean)
  encerr <tree words>   Value.MarshalJSON incl. error branches, bytes, non-finite (Driver/C10Err.lean)
  jstream <text>            SPEC: `<n> <eof|err> | tree | tree …` the values of a stream of JSON texts
-/
namespace CueVerif.Driver.C10
open CueVerif CueVerif.Driver CueVerif.Json

def kindStr : NumLit.Kind → String
  | .int => "int"
  | .float => "float"

/-- strip factors of ten from a non-zero coefficient (fuel = number of digits is enough) -/
def stripZeros : Nat → Nat → Int → Nat × Int
  | 0, c, e => (c, e)
  | fuel + 1, c, e => if c % 10 == 0 && c != 0 then stripZeros fuel (c / 10) (e + 1) else (c, e)

/-- canonical exact decimal, as the harness prints it -/
def normDec : ApdDec → String
  | .finite neg c e =>
    if c == 0 then "0e0"
    else
      let (c', e') := stripZeros (toString c).length c e
      (if neg then "-" else "") ++ toString c' ++ "e" ++ toString e'
  | d => "bad:" ++ hex (fmtDec d)

def decStr : ApdDec × Bool → String
  | (.finite neg c e, err) => s!"finite {boolStr neg} {c} {e} {boolStr err}"
  | (.nan neg, err) => s!"nan {boolStr neg} {boolStr err}"
  | (.inf neg, err) => s!"inf {boolStr neg} {boolStr err}"

/-- protocol handler for C10: words of one op line (after the property id) → answer -/
def handle (ws : List String) : String :=
  match C10Doc.handleDoc ws with
  | some a => a
  | none =>
  match C10Extract.handleExtract ws with
  | some a => a
  | none =>
  match C10Err.handleErr ws with
  | some a => a
  | none =>
  match ws with
  | ["str", h] =>
    match unhex h with
    | none => "bad-op"
    | some t =>
      match parseString t with
      | none => "reject"
      | some _ =>
        match decodeString t with
        | .ok s => "ok " ++ hex s
        | .error _ => "reject"
  | ["scan", h] =>
    match unhex h with
    | none => "bad-op"
    | some t => boolStr (scanStringTok t)
  | ["sden", h] =>
    match unhex h with
    | none => "bad-op"
    | some t =>
      match parseString t with
      | none => "invalid"
      | some items => "ok " ++ hex (denote items) ++ " " ++ boolStr (wellPaired items)
  | ["num", h] =>
    match unhex h with
    | none => "bad-op"
    | some t =>
      match parseNumber t with
      | none => "reject"
      | some _ =>
        match decodeNumber t with
        | none => "reject"
        | some (k, d) => kindStr k ++ " " ++ normDec d
  | ["numfmt", h] =>
    match unhex h with
    | none => "bad-op"
    | some t =>
      match parseNumber t with
      | none => "reject"
      | some _ =>
        match decodeNumber t with
        | none => "reject"
        | some (k, d) => kindStr k ++ " " ++ hex (fmtDec d)
  | ["nspec", h] =>
    match unhex h with
    | none => "bad-op"
    | some t =>
      match parseNumber t with
      | none => "invalid"
      | some n => s!"{boolStr n.neg} {n.coeff} {n.exponent} {boolStr n.isFloat}"
  | ["setstr", h] =>
    match unhex h with
    | none => "bad-op"
    | some s => decStr (apdSetString s)
  | ["esc", h] =>
    match unhex h with
    | none => "bad-op"
    | some s => hex (jsonEscape s)
  | ["fmt", neg, c, e] =>
    match c.toNat?, parseInt? e with
    | some c, some e => hex (fmtG (neg == "1") c e)
    | _, _ => "bad-op"
  | _ => "bad-op"

end CueVerif.Driver.C10
