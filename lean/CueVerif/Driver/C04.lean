import CueVerif.Driver.Proto
import CueVerif.Spec.Disj
import CueVerif.Model.DisjFinal
import CueVerif.Model.DisjFrag
namespace CueVerif.Driver.C04
open CueVerif CueVerif.Driver CueVerif.Disj

/-! Protocol for C04.  Values of the instantiation are bit masks (down-sets of the finite
meet-closure of the harness's atoms, computed with the implementation's own scalar/struct
unification), meet = bitwise and, bottom = 0.

Expressions travel in postfix, comma separated: `a<mask>` atom, `&` `|` binary, `*` mark,
`p` parentheses.

ops:  model <expr> <probeBits> <concreteBits>   the transcribed algorithm's observables
      spec  <expr> <probeBits> <concreteBits>   the spec's value-default pair observables
      mvals <expr> <probeBits>                  disjunct values only (expressions with nested marks)
      (element ids are a linear extension of the order: a value's own id is the highest bit
      of its mask; <concreteBits> has the id bits of the concrete elements, <probeBits> those
      of the concrete MINIMAL elements — for a minimal p, "v unifies with p" is "p's bit is in
      v's mask")
      order <expr>                  Disjunction.Values in the implementation's ORDER (unsorted) and NumDefaults
                                    (transcription of finalizeDisjunctions' swap loop)
      class <expr>                  wf / no-nested-marks / flat / counts
      mode <hasDefault> <marked>, comb <a> <b>, comb2 <a> <b> <da> <db>   table cells -/

def parseExpr (s : String) : Option (Expr Nat) :=
  let step (st : Option (List (Expr Nat))) (tok : String) : Option (List (Expr Nat)) :=
    match st with
    | none => none
    | some stack =>
      if tok == "&" then
        match stack with
        | r :: l :: rest => some (.and l r :: rest)
        | _ => none
      else if tok == "|" then
        match stack with
        | r :: l :: rest => some (.or l r :: rest)
        | _ => none
      else if tok == "*" then
        match stack with
        | e :: rest => some (.mark e :: rest)
        | _ => none
      else if tok == "p" then
        match stack with
        | e :: rest => some (.paren e :: rest)
        | _ => none
      else if tok.startsWith "a" then
        match (tok.drop 1).toNat? with
        | some n => some (.atom n :: stack)
        | none => none
      else none
  match (s.splitOn ",").foldl step (some []) with
  | some [e] => some e
  | _ => none

def insertSorted (x : Nat) : List Nat → List Nat
  | [] => [x]
  | y :: ys => if x ≤ y then x :: y :: ys else y :: insertSorted x ys

def sortNats (xs : List Nat) : List Nat := xs.foldr insertSorted []

def showNats (xs : List Nat) : String :=
  if xs.isEmpty then "-" else ".".intercalate ((sortNats xs).map toString)

def orAll (xs : List Nat) : Nat := xs.foldl (· ||| ·) 0

/-- ok = a concrete value, inc = incomplete (non-concrete or ambiguous), err = bottom -/
def clsOf (r : Res Nat) (conc : Nat → Bool) : String :=
  match r with
  | .bottom => "err"
  | .ambiguous => "inc"
  | .value x => if conc x then "ok" else "inc"

/-- ids are a linear extension of the order, so a value's own id is the highest bit of its
down-set mask; `c` has the bits of the concrete elements -/
def conc (c : Nat) (x : Nat) : Bool := x != 0 && c.testBit (Nat.log2 x)

def modeOf (s : String) : Option Mode :=
  if s == "0" then some .maybe else if s == "1" then some .isDef else if s == "2" then some .notDef else none

def boolOf (s : String) : Option Bool :=
  if s == "true" then some true else if s == "false" then some false else none

def handle (ws : List String) : String :=
  match ws with
  | ["model", es, ps, cs] =>
    match parseExpr es, ps.toNat?, cs.toNat? with
    | some e, some pb, some c =>
      let o := eval bits e
      s!"vals={showNats o.values} defs={showNats o.defaults} has={boolStr o.hasDefault} acc={orAll o.values &&& pb} dacc={orAll o.defaultSet &&& pb} cls={clsOf o.resolve (conc c)}"
    | _, _, _ => "bad-op"
  | ["mvals", es, ps] =>
    match parseExpr es, ps.toNat? with
    | some e, some pb =>
      let o := eval bits e
      s!"vals={showNats o.values} acc={orAll o.values &&& pb}"
    | _, _ => "bad-op"
  | ["order", es] =>
    match parseExpr es with
    | some e =>
      let o := (eval bits e).ordered
      s!"values={if o.1.isEmpty then "-" else ".".intercalate (o.1.map toString)} numDefaults={o.2}"
    | none => "bad-op"
  | ["spec", es, ps, cs] =>
    match parseExpr es, ps.toNat?, cs.toNat? with
    | some e, some pb, some c =>
      let p := specPair bits e
      s!"acc={orAll p.v &&& pb} dacc={orAll p.defaultSet &&& pb} cls={clsOf p.resolve (conc c)}"
    | _, _, _ => "bad-op"
  | ["class", es] =>
    match parseExpr es with
    | some e =>
      s!"wf={boolStr e.WF} nn={boolStr e.NoNestedMarks} flat={boolStr e.Flat} chains={e.chains} marked={e.markedChains} markfree={boolStr (!e.hasAnyMark)} nested1={boolStr e.NestedSingle} prenested={boolStr e.PreNested}"
    | none => "bad-op"
  | ["mode", a, b] =>
    match boolOf a, boolOf b with
    | some x, some y => toString (mode x y).toNat
    | _, _ => "bad-op"
  | ["comb", a, b] =>
    match modeOf a, modeOf b with
    | some x, some y => toString (combineDefault x y).toNat
    | _, _ => "bad-op"
  | ["comb2", a, b, da, db] =>
    match modeOf a, modeOf b, boolOf da, boolOf db with
    | some x, some y, some p, some q => toString (combineDefault2 x y p q).toNat
    | _, _, _, _ => "bad-op"
  | _ => "bad-op"

end CueVerif.Driver.C04
