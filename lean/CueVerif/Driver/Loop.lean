import CueVerif.Driver.Proto
/-! stdin → handler → stdout loop shared by every per-property driver executable -/
namespace CueVerif.Driver

partial def loop (h : IO.FS.Stream) (out : IO.FS.Stream) (prop : String)
    (handle : List String → String) : IO Unit := do
  let line ← h.getLine
  if line.isEmpty then return ()
  let l := String.ofList (line.toList.filter (fun c => c != (Char.ofNat 10) && c != (Char.ofNat 13)))
  let ans := match words l with
    | p :: rest => if p == prop then handle rest else "bad-op"
    | [] => "bad-op"
  out.putStrLn ans
  loop h out prop handle

def runDriver (prop : String) (handle : List String → String) : IO Unit := do
  let out ← IO.getStdout
  loop (← IO.getStdin) out prop handle
  out.flush

end CueVerif.Driver
