import CueVerif.Driver.Proto
import CueVerif.Spec.Toml
/-!
Protocol handler for C12 (the TOML codec model).

A DOCUMENT is one word: `-` (empty) or root expressions joined with `;`
    K<keys>=<val>      key-value            T<keys>   [table]        A<keys>   [[array table]]
  keys : names joined with `.`; a name is lowercase hex of its bytes, `~` for the empty name
  val  : a<kind>:<hex|~>                      scalar (kind 0 string, 1 int, 2 float, 3 bool)
       | [] | [<val>,…]                       array
       | {} | {<keys>=<val>,…}                inline table
A TREE is a val whose inline tables have one-part keys only.
FACTS are rendered `path=leaf` joined with `,`, sorted, deduplicated; path = `/` followed by
segments `k<hex|~>` / `i<n>` joined with `/`; leaf = `T` | `A` | `a<kind>:<hex|~>`.

  tomldecode <doc>         MODEL of encoding/toml.Decoder: `err dupKey|arrayAsTable|keyAsArray|panic`,
                           `conflict` (the facts are contradictory: CUE reports conflicting values),
                           or `ok <facts>` (closed)
  tomlphase <doc>          MODEL, decoding phase only: `err …` | `ok` (used for randomly mutated
                           documents, where two LIST literals may meet at one path and the facts
                           abstraction of CUE's unification is not exact, see Model/Toml.lean)
  tomlvalid <doc>          SPEC: `accept` | `reject`
  tomldata <doc> <facts>   SPEC as judge of the implementation's answer: `agree` when the document
                           is invalid (nothing promised) or its meaning has exactly these facts,
                           else `differ <facts of the spec>`
  tomlround <tree>         MODEL: decode (emit tree): `ok <facts>` when it succeeds with the facts
                           of the tree and the SPEC accepts the emission with the same meaning
                           (theorems C12_toml_roundtrip / C12_toml_emit_valid say: always)
  tomlemit <tree>          MODEL of the encoder: the emitted document
-/
namespace CueVerif.Driver.C12
open CueVerif CueVerif.Driver CueVerif.Toml CueVerif.Toml.Spec

abbrev P (α : Type) := List Char → Option (α × List Char)

def isHexChar (c : Char) : Bool := (hexVal c).isSome && !c.isUpper

def takeHex : List Char → List Char × List Char
  | c :: r => if isHexChar c then let (a, b) := takeHex r; (c :: a, b) else ([], c :: r)
  | [] => ([], [])

def pName : P Name
  | '~' :: r => some ([], r)
  | cs =>
    let (h, r) := takeHex cs
    if h.isEmpty then none else (unhexAux h []).map (fun n => (n, r))

def pKeys (fuel : Nat) : P (List Name)
  | cs =>
    match fuel with
    | 0 => none
    | fuel + 1 =>
      match pName cs with
      | none => none
      | some (n, '.' :: r) => (pKeys fuel r).map (fun (ns, r') => (n :: ns, r'))
      | some (n, r) => some ([n], r)

def takeDigits : List Char → List Char × List Char
  | c :: r => if c.isDigit then let (a, b) := takeDigits r; (c :: a, b) else ([], c :: r)
  | [] => ([], [])

def pAtom : P Atom
  | cs =>
    let (d, r) := takeDigits cs
    match (String.ofList d).toNat?, r with
    | some k, ':' :: r' => (pName r').map (fun (t, r'') => ({ kind := k, text := t }, r''))
    | _, _ => none

mutual
def pVal (fuel : Nat) : P Val
  | cs =>
    match fuel with
    | 0 => none
    | fuel + 1 =>
      match cs with
      | 'a' :: r => (pAtom r).map (fun (a, r') => (.sc a, r'))
      | '[' :: ']' :: r => some (.arr [], r)
      | '[' :: r => (pElems fuel r).map (fun (xs, r') => (.arr xs, r'))
      | '{' :: '}' :: r => some (.inl [], r)
      | '{' :: r => (pFields fuel r).map (fun (kvs, r') => (.inl kvs, r'))
      | _ => none
def pElems (fuel : Nat) : P (List Val)
  | cs =>
    match fuel with
    | 0 => none
    | fuel + 1 =>
      match pVal fuel cs with
      | some (v, ',' :: r) => (pElems fuel r).map (fun (vs, r') => (v :: vs, r'))
      | some (v, ']' :: r) => some ([v], r)
      | _ => none
def pFields (fuel : Nat) : P (List (List Name × Val))
  | cs =>
    match fuel with
    | 0 => none
    | fuel + 1 =>
      match pKeys fuel cs with
      | some (ks, '=' :: r) =>
        match pVal fuel r with
        | some (v, ',' :: r') => (pFields fuel r').map (fun (kvs, r'') => ((ks, v) :: kvs, r''))
        | some (v, '}' :: r') => some ([(ks, v)], r')
        | _ => none
      | _ => none
end

def pEv (fuel : Nat) : P Ev
  | 'K' :: r =>
    match pKeys fuel r with
    | some (ks, '=' :: r') => (pVal fuel r').map (fun (v, r'') => (.kv ks v, r''))
    | _ => none
  | 'T' :: r => (pKeys fuel r).map (fun (ks, r') => (.table ks, r'))
  | 'A' :: r => (pKeys fuel r).map (fun (ks, r') => (.arrayTable ks, r'))
  | _ => none

def pDoc (fuel : Nat) : Nat → List Char → Option (List Ev)
  | 0, _ => none
  | n + 1, cs =>
    match pEv fuel cs with
    | some (e, []) => some [e]
    | some (e, ';' :: r) => (pDoc fuel n r).map (e :: ·)
    | _ => none

def parseDoc (w : String) : Option (List Ev) :=
  if w == "-" then some [] else pDoc (w.length + 1) (w.length + 1) w.toList

def parseVal (w : String) : Option Val :=
  match pVal (w.length + 1) w.toList with
  | some (v, []) => some v
  | _ => none

mutual
def valToTree : Val → Option Tree
  | .sc a => some (.sc a)
  | .arr xs => (elemsToTree xs).map .arr
  | .inl kvs => (fieldsToTree kvs).map .tbl
def elemsToTree : List Val → Option (List Tree)
  | [] => some []
  | x :: xs => match valToTree x, elemsToTree xs with
    | some t, some ts => some (t :: ts)
    | _, _ => none
def fieldsToTree : List (List Name × Val) → Option (List (Name × Tree))
  | [] => some []
  | kv :: rest => match kv.1, valToTree kv.2, fieldsToTree rest with
    | [k], some t, some ts => some ((k, t) :: ts)
    | _, _, _ => none
end

/-! rendering -/

def showName (n : Name) : String := if n.isEmpty then "~" else hex n

def showSeg : Seg → String
  | .key n => "k" ++ showName n
  | .idx i => "i" ++ toString i

def showAtom (a : Atom) : String := "a" ++ toString a.kind ++ ":" ++ showName a.text

def showLeaf : Leaf → String
  | .atom a => showAtom a
  | .tbl => "T"
  | .arr => "A"

def showFact (f : Fact) : String :=
  "/" ++ "/".intercalate (f.1.map showSeg) ++ "=" ++ showLeaf f.2

def insertStr (x : String) : List String → List String
  | [] => [x]
  | y :: ys => if x < y then x :: y :: ys else if x == y then y :: ys else y :: insertStr x ys

/-- merge sort would be nicer; documents are small -/
def sortDedup (xs : List String) : List String := xs.foldr insertStr []

def showFacts (fs : List Fact) : String :=
  let l := sortDedup ((closure fs).map showFact)
  if l.isEmpty then "-" else ",".intercalate l

def showKeys (ks : List Name) : String := ".".intercalate (ks.map showName)

mutual
def showVal : Val → String
  | .sc a => showAtom a
  | .arr xs => "[" ++ ",".intercalate (showElems xs) ++ "]"
  | .inl kvs => "{" ++ ",".intercalate (showFields kvs) ++ "}"
def showElems : List Val → List String
  | [] => []
  | x :: xs => showVal x :: showElems xs
def showFields : List (List Name × Val) → List String
  | [] => []
  | kv :: rest => (showKeys kv.1 ++ "=" ++ showVal kv.2) :: showFields rest
end

def showEv : Ev → String
  | .kv ks v => "K" ++ showKeys ks ++ "=" ++ showVal v
  | .table ks => "T" ++ showKeys ks
  | .arrayTable ks => "A" ++ showKeys ks

def showDoc (evs : List Ev) : String :=
  if evs.isEmpty then "-" else ";".intercalate (evs.map showEv)

def errStr : DecErr → String
  | .dupKey => "dupKey"
  | .arrayAsTable => "arrayAsTable"
  | .keyAsArray => "keyAsArray"
  | .stalePanic => "panic"

/-- protocol handler for C12: words of one op line (after the property id) → answer -/
def handle (ws : List String) : String :=
  match ws with
  | ["tomldecode", d] =>
    match parseDoc d with
    | none => "bad-op"
    | some evs =>
      match decode evs with
      | .error e => "err " ++ errStr e
      | .ok fs => if conflictB fs then "conflict" else "ok " ++ showFacts fs
  | ["tomlphase", d] =>
    match parseDoc d with
    | none => "bad-op"
    | some evs =>
      match decode evs with
      | .error e => "err " ++ errStr e
      | .ok _ => "ok"
  | ["tomlvalid", d] =>
    match parseDoc d with
    | none => "bad-op"
    | some evs =>
      match tomlSpec evs with
      | .error _ => "reject"
      | .ok _ => "accept"
  | ["tomldata", d, facts] =>
    match parseDoc d with
    | none => "bad-op"
    | some evs =>
      match tomlSpec evs with
      | .error _ => "agree"
      | .ok fs => if showFacts fs == facts then "agree" else "differ " ++ showFacts fs
  | ["tomlround", t] =>
    match (parseVal t).bind valToTree with
    | none => "bad-op"
    | some tr =>
      match emit tr with
      | none => "noemit"
      | some evs =>
        match decode evs, tomlSpec evs with
        | .ok fs, .ok gs =>
          if sameDataB fs (tr.facts []) && sameDataB gs (tr.facts []) && !conflictB fs
          then "ok " ++ showFacts fs else "fail"
        | .error e, _ => "fail decode " ++ errStr e
        | _, .error _ => "fail spec"
  | ["tomlemit", t] =>
    match (parseVal t).bind valToTree with
    | none => "bad-op"
    | some tr =>
      match emit tr with
      | none => "noemit"
      | some evs => showDoc evs
  | _ => "bad-op"

end CueVerif.Driver.C12
