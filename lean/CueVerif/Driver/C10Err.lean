import CueVerif.Driver.Proto
import CueVerif.Model.JsonDocErr
/-!
  encerr <tree words>   Value.MarshalJSON incl. error branches: `ok <hex>` | `error`
     tree words as in Driver/C10Doc.lean plus `b<hex>` (bytes), `#inf:<0/1>`, `#nan:<0/1>`
     (non-finite decimal, sign), `!inc` (incomplete / non-concrete), `!bot` (error value)
-/
namespace CueVerif.Driver.C10Err
open CueVerif CueVerif.Driver CueVerif.Json

mutual
def readE : Nat → List String → Option (EVal × List String)
  | 0, _ => none
  | _ + 1, [] => none
  | fuel + 1, w :: ws =>
    if w == "!inc" then some (.incomplete, ws)
    else if w == "!bot" then some (.bottom, ws)
    else
    match w.toList with
    | ['n'] => some (.null, ws)
    | ['t'] => some (.bool true, ws)
    | ['f'] => some (.bool false, ws)
    | '#' :: cs =>
      match (String.ofList cs).splitOn ":" with
      | ["inf", a] => some (.num (.inf (a == "1")), ws)
      | ["nan", a] => some (.num (.nan (a == "1")), ws)
      | [a, b, c] =>
        match b.toNat?, parseInt? c with
        | some co, some e => some (.num (.finite (a == "1") co e), ws)
        | _, _ => none
      | _ => none
    | 's' :: cs => (unhex (String.ofList cs)).map fun s => (.str s, ws)
    | 'b' :: cs => (unhex (String.ofList cs)).map fun s => (.bytes s, ws)
    | 'a' :: cs =>
      match (String.ofList cs).toNat? with
      | some k => (readEs fuel k ws).map fun p => (.list p.1, p.2)
      | none => none
    | 'o' :: cs =>
      match (String.ofList cs).toNat? with
      | some k => (readEf fuel k ws).map fun p => (.struct p.1, p.2)
      | none => none
    | _ => none
def readEs : Nat → Nat → List String → Option (List EVal × List String)
  | 0, _, _ => none
  | _ + 1, 0, ws => some ([], ws)
  | fuel + 1, k + 1, ws =>
    match readE fuel ws with
    | some (v, ws') =>
      match readEs fuel k ws' with
      | some (vs, ws'') => some (v :: vs, ws'')
      | none => none
    | none => none
def readEf : Nat → Nat → List String → Option (List (List Nat × EVal) × List String)
  | 0, _, _ => none
  | _ + 1, 0, ws => some ([], ws)
  | _ + 1, _ + 1, [] => none
  | fuel + 1, k + 1, kw :: ws =>
    match unhex kw with
    | none => none
    | some key =>
      match readE fuel ws with
      | some (v, ws') =>
        match readEf fuel k ws' with
        | some (fs, ws'') => some ((key, v) :: fs, ws'')
        | none => none
      | none => none
end

def handleErr (ws : List String) : Option String :=
  match ws with
  | "encerr" :: tree =>
    match readE (2 * tree.length + 2) tree with
    | some (v, []) =>
      match appendJSONE v with
      | some out => some ("ok " ++ hex out)
      | none => some "error"
    | _ => some "bad-op"
  | _ => none

end CueVerif.Driver.C10Err
