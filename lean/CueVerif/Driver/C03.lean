/-
Line protocol of the C03 model driver.

  atom        n | t | f | i:<int> | d:<coeff>:<exp> | s:<hex> | y:<hex>
              (null, true, false, int, float = coeff·10^exp exactly as apd holds it,
               string, bytes; hex "-" = empty)
  constraint  a:<atom> | t:<bool|int|float|number|string|bytes|top> | b:<lt|le|gt|ge|ne|mat|nmat>:<atom> | r:<range name>
  list        constraints joined by ",", "-" for the empty list
  kind        a decimal bit mask (adt.Kind)

  ops   accept <list> <atom>   O  `c₁ & … & cₙ` (the list contains the atom as one conjunct, at any
                                  position) evaluates to that atom: yes | no          (model `evalS`)
        sat <list> <atom>      O  the SPEC: the atom satisfies every conjunct: yes | no
        acceptv <list> <atoms> O  for each atom a of the ";"-joined list: `list & a` evaluates to a
                                  (y), is an error (n), anything else (o)              (model)
        satv <list> <atoms>    O  for each atom: the SPEC says it satisfies every conjunct (y/n)
        eval <list>            O  atom <atom> | nonatom                               (model `evalS`)
        resid <list>           I  bottom | atom <atom> | residual <kind> <sorted bounds>
                                  (the list is given in the order the scheduler inserts it)
        cell <kind> <b> <b>    I  outcome of SimplifyBounds: keepX | keepY | both | err
                                  (bounds written <op>:<atom>)

Regular expressions: the harness only uses patterns `[^]lit[$]` with a literal body; `re` below
implements exactly that class (the theorems are for an arbitrary oracle).
-/
import CueVerif.Driver.Proto
import CueVerif.Spec.Scalar
namespace CueVerif.Driver.C03
open CueVerif CueVerif.Driver CueVerif.Scalar

/-! regexp oracle for the literal class -/
def isPrefix : List Nat → List Nat → Bool
  | [], _ => true
  | _ :: _, [] => false
  | a :: as, b :: bs => a == b && isPrefix as bs

def containsAt (anchoredEnd : Bool) (p : List Nat) : List Nat → Bool
  | [] => p.isEmpty
  | s@(_ :: rest) =>
    (isPrefix p s && (!anchoredEnd || p.length == s.length)) || containsAt anchoredEnd p rest

def reLit (p s : List Nat) : Bool :=
  let (anchS, p1) := match p with
    | 94 :: r => (true, r)
    | _ => (false, p)
  let (anchE, body) := match p1.reverse with
    | 36 :: r => (true, r.reverse)
    | _ => (false, p1)
  if anchS then isPrefix body s && (!anchE || body.length == s.length)
  else containsAt anchE body s

/-! parsing -/
def parseAtomW : List String → Option Atom
  | ["n"] => some .null
  | ["t"] => some (.bool true)
  | ["f"] => some (.bool false)
  | ["i", z] => (parseInt? z).map .int
  | ["d", c, e] => do let c ← parseInt? c; let e ← parseInt? e; pure (.float ⟨c, e⟩)
  | ["s", h] => (unhex h).map .str
  | ["y", h] => (unhex h).map .bytes
  | _ => none

def parseAtom (s : String) : Option Atom := parseAtomW (s.splitOn ":")

def parseOp : String → Option Op
  | "lt" => some .lt | "le" => some .le | "gt" => some .gt | "ge" => some .ge
  | "ne" => some .ne | "mat" => some .mat | "nmat" => some .nmat
  | _ => none

def parseKindName : String → Option BType
  | "bool" => some .bool | "int" => some .int | "float" => some .float
  | "number" => some .number | "string" => some .string | "bytes" => some .bytes
  | "top" => some .top
  | _ => none

def parseRange : String → Option Range
  | "rune" => some .rune | "int8" => some .int8 | "int16" => some .int16 | "int32" => some .int32
  | "int64" => some .int64 | "int128" => some .int128 | "uint" => some .uint | "uint8" => some .uint8
  | "uint16" => some .uint16 | "uint32" => some .uint32 | "uint64" => some .uint64
  | "uint128" => some .uint128 | "float32" => some .float32 | "float64" => some .float64
  | _ => none

def parseBoundW : List String → Option Bound
  | op :: rest => do let o ← parseOp op; let v ← parseAtomW rest; pure ⟨o, v⟩
  | _ => none

def parseConstraint (s : String) : Option Constraint :=
  match s.splitOn ":" with
  | "a" :: rest => (parseAtomW rest).map .atom
  | ["t", k] => (parseKindName k).map .type
  | "b" :: rest => (parseBoundW rest).map .bound
  | ["r", r] => (parseRange r).map .range
  | _ => none

def parseList (s : String) : Option (List Constraint) :=
  if s == "-" then some [] else (s.splitOn ",").mapM parseConstraint

/-! printing -/
def showAtom : Atom → String
  | .null => "n"
  | .bool true => "t"
  | .bool false => "f"
  | .int z => s!"i:{z}"
  | .float d => let n := d.normalize; s!"d:{n.coeff}:{n.exp}"
  | .str s => "s:" ++ hex s
  | .bytes s => "y:" ++ hex s

def showOp : Op → String
  | .lt => "lt" | .le => "le" | .gt => "gt" | .ge => "ge" | .ne => "ne" | .mat => "mat" | .nmat => "nmat"

/-- value-canonical text of a bound (numbers normalised, int/float operand not distinguished) -/
def showBound (b : Bound) : String :=
  let v := match b.val.num? with
    | some d => let n := d.normalize; s!"num:{n.coeff}:{n.exp}"
    | none => showAtom b.val
  showOp b.op ++ ":" ++ v

def insertSorted (x : String) : List String → List String
  | [] => [x]
  | y :: ys => if x ≤ y then x :: y :: ys else y :: insertSorted x ys

def showOutcome : Outcome → String
  | .keepX => "keepX" | .keepY => "keepY" | .both => "both" | .err => "err"

def handle (ws : List String) : String :=
  match ws with
  | ["accept", cs, a] =>
    match parseList cs, parseAtom a with
    | some cs, some a =>
      match evalS reLit cs with
      | .atom b => if b.same a then "yes" else "other"
      | _ => "no"
    | _, _ => "bad-op"
  | ["sat", cs, a] =>
    match parseList cs, parseAtom a with
    | some cs, some a => if satAll reLit cs a then "yes" else "no"
    | _, _ => "bad-op"
  | ["acceptv", cs, as] =>
    match parseList cs, (as.splitOn ";").mapM parseAtom with
    | some cs, some as =>
      String.ofList (as.map fun a =>
        match evalS reLit (cs ++ [.atom a]) with
        | .atom b => if b.same a then 'y' else 'o'
        | _ => 'n')
    | _, _ => "bad-op"
  | ["satv", cs, as] =>
    match parseList cs, (as.splitOn ";").mapM parseAtom with
    | some cs, some as =>
      String.ofList (as.map fun a => if satAll reLit (cs ++ [.atom a]) a then 'y' else 'n')
    | _, _ => "bad-op"
  | ["eval", cs] =>
    match parseList cs with
    | some cs =>
      match evalS reLit cs with
      | .atom b => "atom " ++ showAtom b
      | _ => "nonatom"
    | none => "bad-op"
  | ["resid", cs] =>
    match parseList cs with
    | some cs =>
      match evalS reLit cs with
      | .bottom => "bottom"
      | .atom b => "atom " ++ showAtom b
      | .residual k bs =>
        let ss := (bs.map showBound).foldr insertSorted []
        s!"residual {k} " ++ (if ss.isEmpty then "-" else ",".intercalate ss)
    | none => "bad-op"
  | ["cell", k, x, y] =>
    match k.toNat?, parseBoundW (x.splitOn ":"), parseBoundW (y.splitOn ":") with
    | some k, some x, some y => showOutcome (simplifyBounds reLit k x y)
    | _, _, _ => "bad-op"
  | _ => "bad-op"

end CueVerif.Driver.C03
