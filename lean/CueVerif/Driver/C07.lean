import CueVerif.Driver.Proto
import CueVerif.Driver.C01
import CueVerif.Spec.Export
/-!
Line protocol of the C07 model driver (words separated by single blanks; byte strings as
lowercase hex, "-" = empty).

  conjunct words   T:int | T:float | T:number | T:string | T:bool | T:bytes | T:top
                   B:<op>:<operand>   op ∈ lt le gt ge ne
                                      operand = i<decimal int> (int atom, e.g. i-128)
                                              | f<coeff>e<exp> (float atom coeff·10^exp, e.g. f15e-1)
                                              | s<hex> (string)
                   R:<name>           a predeclared range (accepted in `sat`; answered by `simp`)
                   T:uint             the prefix word `simp` answers (accepted in `sat`: = R:uint)
  atom words       i… | f… | s<hex> | null | true | false

  label <hex s>          O  `id <hex name>` when `printLabel` gives an identifier, `str <hex literal
                            text incl. quotes>` otherwise; `nonascii` when s has a byte ≥ 0x80
                            (unicode.IsLetter/IsDigit are not available to the driver)
  plabel id <hex name>   O  `str <hex s>` | `def` | `hid` | `hiddef` | `bad`   (`parseLabel`, nfc = id:
  plabel str <hex text>      compare on NFC-stable text only)
  range <c1> <c2> …      O  `adt.MatchBuiltinRange`: the predeclared name or `-`
  simp <c1> <c2> …       O  the `*adt.Conjunction` arm with Simplify (`exportConj`): `R:<name>` when
                            MatchBuiltinRange matches (two or more words); otherwise ALL conjunct words
                            of the result — the unchanged input when `boundSimplifier.expr` is nil or
                            there are fewer than two words, else the prefix word `T:int`/`T:uint` if
                            any, min, max, the unused words — sorted ascending, joined by `,`; `-` when
                            empty
  simpraw <c1> …         I  `-` when `expr` returns nil, else `<prefix>;<min>;<max>;<rest>` (prefix
                            int | uint | -, min/max a word or -, rest the unused words in input order
                            joined by `,` or -)
  sat <atom> <c1> …      O  `true`/`false`: the atom satisfies every conjunct (C03's `satAll`, regexp
                            oracle constantly false)
  rtv <tokens…>          O  CueCore (token syntax of Driver/C01.lean): v := eval e;
                            `ok` when eval (exportV v) = v, else `differs`
  final <tokens…>        O  the Final projection of eval e, rendered as by C01's driver, followed by
                            ` ok`/` differs` for eval (exportFinal v) = projFinal v
Unknown / ill-formed → `bad-op`.
-/
namespace CueVerif.Driver.C07
open CueVerif CueVerif.Driver CueVerif.Scalar CueVerif.Export

/-! parsing -/

def parseDecWord (s : String) : Option Dec :=
  match s.splitOn "e" with
  | [c, e] => do
    let c ← parseInt? c
    let e ← parseInt? e
    pure ⟨c, e⟩
  | _ => none

/-- `i…` | `f…` | `s<hex>` -/
def parseOperand (w : String) : Option Atom :=
  if w.startsWith "i" then (parseInt? (w.drop 1).toString).map .int
  else if w.startsWith "f" then (parseDecWord (w.drop 1).toString).map .float
  else if w.startsWith "s" then (unhex (w.drop 1).toString).map .str
  else none

def parseAtomWord (w : String) : Option Atom :=
  if w == "null" then some .null
  else if w == "true" then some (.bool true)
  else if w == "false" then some (.bool false)
  else parseOperand w

def parseOp : String → Option Op
  | "lt" => some .lt | "le" => some .le | "gt" => some .gt | "ge" => some .ge | "ne" => some .ne
  | _ => none

def parseType : String → Option BType
  | "bool" => some .bool | "int" => some .int | "float" => some .float
  | "number" => some .number | "string" => some .string | "bytes" => some .bytes
  | "top" => some .top
  | _ => none

def parseConjunct (w : String) : Option Constraint :=
  match w.splitOn ":" with
  | ["T", "uint"] => some (.range .uint)       -- the prefix word the `simp` op answers
  | ["T", t] => (parseType t).map .type
  | ["B", op, v] => do
    let op ← parseOp op
    let v ← parseOperand v
    pure (.bound ⟨op, v⟩)
  | ["R", n] => (Range.ofName? n).map .range
  | _ => none

/-! rendering -/

def showOperand : Atom → String
  | .int z => "i" ++ toString z
  | .float d => "f" ++ toString d.coeff ++ "e" ++ toString d.exp
  | .str s => "s" ++ hex s
  | .bytes s => "y" ++ hex s
  | .null => "null"
  | .bool b => boolStr b

def showOp : Op → String
  | .lt => "lt" | .le => "le" | .gt => "gt" | .ge => "ge" | .ne => "ne" | .mat => "mat" | .nmat => "nmat"

def showType : BType → String
  | .bool => "bool" | .int => "int" | .float => "float" | .number => "number"
  | .string => "string" | .bytes => "bytes" | .top => "top"

def showConjunct : Constraint → String
  | .type t => "T:" ++ showType t
  | .bound b => "B:" ++ showOp b.op ++ ":" ++ showOperand b.val
  | .range r => "R:" ++ Range.name r
  | .atom a => "A:" ++ showOperand a

/-- the word the conjunct was given as (so that the input spelling is echoed), else its rendering -/
def wordOf (pairs : List (String × Constraint)) (c : Constraint) : String :=
  match pairs.find? (fun p => p.2 == c) with
  | some p => p.1
  | none => showConjunct c

def sortWords (ws : List String) : List String := (ws.toArray.qsort (· < ·)).toList

def joinOrDash (ws : List String) : String := if ws.isEmpty then "-" else ",".intercalate ws

def optWord (pairs : List (String × Constraint)) : Option Bound → String
  | some b => wordOf pairs (.bound b)
  | none => "-"

def prefixStr : Prefix → String
  | .none => "-" | .int => "int" | .uint => "uint"

/-- the words of the printed conjunction (the `simp` op) -/
def simpWords (ws : List String) (pairs : List (String × Constraint)) : String :=
  let cs := pairs.map (·.2)
  if cs.length < 2 then joinOrDash (sortWords ws)
  else if matchBuiltinName cs != "" then "R:" ++ matchBuiltinName cs
  else
    match simplify cs with
    | none => joinOrDash (sortWords ws)
    | some r =>
      let pre := match r.pre with
        | .none => []
        | .int => ["T:int"]
        | .uint => ["T:uint"]
      let mn := match r.min with | some b => [wordOf pairs (.bound b)] | none => []
      let mx := match r.max with | some b => [wordOf pairs (.bound b)] | none => []
      joinOrDash (sortWords (pre ++ mn ++ mx ++ r.rest.map (wordOf pairs)))

def asciiE : Quote.Env :=
  { isPrint := fun r => decide (0x20 ≤ r) && decide (r < 0x7F),
    isGraphic := fun r => decide (0x20 ≤ r) && decide (r < 0x7F) }

def noU : Nat → Bool := fun _ => false

def featureStr : Option Feature → String
  | some (.str s) => "str " ++ hex s
  | some (.def_ _) => "def"
  | some (.hidden _) => "hid"
  | some (.hiddenDef _) => "hiddef"
  | none => "bad"

def parsePairs (ws : List String) : Option (List (String × Constraint)) :=
  ws.mapM fun w => (parseConjunct w).map fun c => (w, c)

/-- protocol handler for C07: words of one op line (after the property id) → answer -/
def handle (ws : List String) : String :=
  match ws with
  | ["label", s] =>
    match unhex s with
    | some b =>
      if b.any (fun x => decide (0x80 ≤ x)) then "nonascii" else
      match printLabel asciiE noU noU b with
      | .ident n => "id " ++ hex n
      | .lit t => "str " ++ hex t
    | none => "bad-op"
  | ["xlabel", s] =>
    match unhex s with
    | some b =>
      if b.any (fun x => decide (0x80 ≤ x)) then "nonascii" else
      match exportLabel asciiE noU noU b with
      | .ident n => "id " ++ hex n
      | .lit t => "str " ++ hex t
    | none => "bad-op"
  | ["plabel", "id", s] =>
    match unhex s with
    | some b => featureStr (parseLabel id (.ident b))
    | none => "bad-op"
  | ["plabel", "str", s] =>
    match unhex s with
    | some b => featureStr (parseLabel id (.lit b))
    | none => "bad-op"
  | "range" :: cws =>
    match parsePairs cws with
    | some pairs =>
      let n := matchBuiltinName (pairs.map (·.2))
      if n == "" then "-" else n
    | none => "bad-op"
  | "simp" :: cws =>
    match parsePairs cws with
    | some pairs => simpWords cws pairs
    | none => "bad-op"
  | "simpraw" :: cws =>
    match parsePairs cws with
    | some pairs =>
      match simplify (pairs.map (·.2)) with
      | none => "-"
      | some r =>
        prefixStr r.pre ++ ";" ++ optWord pairs r.min ++ ";" ++ optWord pairs r.max ++ ";" ++
          joinOrDash (r.rest.map (wordOf pairs))
    | none => "bad-op"
  | "sat" :: aw :: cws =>
    match parseAtomWord aw, parsePairs cws with
    | some a, some pairs => boolStr (satAll (fun _ _ => false) (pairs.map (·.2)) a)
    | _, _ => "bad-op"
  | "rtv" :: toks =>
    match C01.parseExpr (2 * toks.length + 4) toks with
    | some (e, []) =>
      let v := Core.eval e
      if Core.eval (exportV v) == v then "ok" else "differs"
    | _ => "bad-op"
  | "final" :: toks =>
    match C01.parseExpr (2 * toks.length + 4) toks with
    | some (e, []) =>
      let v := Core.eval e
      C01.showVal (projFinal v) ++ (if Core.eval (exportFinal v) == projFinal v then " ok" else " differs")
    | _ => "bad-op"
  | _ => "bad-op"

end CueVerif.Driver.C07
