/-
C18 — Workflow tasks run once, after everything they depend on, under every schedule.

Statements only; proofs are in CueVerif/Proofs/{Flow,FlowCycle}.lean.  The model
(CueVerif/Model/Flow.lean) transcribes tools/flow's controller; a *run* is any sequence of
`Step`s: the result of any running task arrives next (successful or failed, with or without a
filled result), the re-initialisation that follows may discover any new tasks and any new
dependency edges, and the context may be cancelled at any point.  `Reachable g0 s` ranges
over every state of every such run of every workflow (`g0` = what `flow.New` discovers), so
each theorem below is quantified over all task graphs, all growth histories, all completion
orders and all failure/cancellation points.  History is recorded with a logical clock.
-/
import CueVerif.Proofs.Flow
import CueVerif.Proofs.FlowCycle
namespace CueVerif.C18
open CueVerif CueVerif.Flow

theorem cycleSpec : CycleSpec := fun n deps h => checkCycle_iff n deps h
theorem blockedSpec : BlockedSpec := fun n deps hwf hac S hS => no_blocked_set n deps hwf hac S hS

/-- the whole invariant, in every state of every run -/
theorem C18_invariant (g0 : Growth) (s : Ctl) (h : Reachable g0 s) : Inv s :=
  reachable_inv cycleSpec blockedSpec g0 s h

/-- **Dependencies first.**  Whenever a task has been started, every task it depended on at
that moment had its completion received strictly earlier (logical clock), had terminated
successfully, and — if it filled a result — that result is contained in the configuration the
started task's runner was handed. -/
theorem C18_deps_first (g0 : Growth) (s : Ctl) (h : Reachable g0 s) : DepsFirst s :=
  (C18_invariant g0 s h).depsFirst

/-- **At most once.**  In every state every task's runner has been started at most once, and
exactly the tasks that are Running or Terminated have been started. -/
theorem C18_once (g0 : Growth) (s : Ctl) (h : Reachable g0 s) : Once s :=
  (C18_invariant g0 s h).once

/-- … and task states, run counters, recorded start data, the task set and the dependency
sets only ever move forward along a step. -/
theorem C18_forward (g0 : Growth) (s s' : Ctl) (h : Reachable g0 s) (hs : Step s s') (t : Nat) :
    (s.tasks t).state.rank ≤ (s'.tasks t).state.rank ∧
    (s.tasks t).runs ≤ (s'.tasks t).runs ∧
    (∀ k, (s.tasks t).startAt = some k → (s'.tasks t).startAt = some k ∧
        (s'.tasks t).startDeps = (s.tasks t).startDeps ∧ (s'.tasks t).startSeen = (s.tasks t).startSeen) ∧
    s.n ≤ s'.n ∧
    (∀ d, d ∈ (s.tasks t).deps → d ∈ (s'.tasks t).deps) :=
  step_forward s s' (C18_invariant g0 s h) hs t

/-- **All run.**  When the run loop has returned without an error and without cancellation,
every registered task — including those discovered on the way — has run exactly once and
terminated successfully. -/
theorem C18_all_run (g0 : Growth) (s : Ctl) (h : Reachable g0 s)
    (hstop : s.stopped = true) (herr : s.errs = false) (hc : s.cancelled = false) : AllRan s := by
  have hi := C18_invariant g0 s h
  intro t ht
  have hterm := hi.finished hstop herr hc t ht
  refine ⟨hterm, ?_, ?_⟩
  · cases hf : (s.tasks t).failed with
    | false => rfl
    | true => have := hi.failed_errs t ht hf; simp [herr] at this
  · exact ((hi.once t ht).2.1).2 (by rw [hterm]; decide)

/-- An error is only ever recorded because a task failed or because the dependency graph of
that state has a cycle.  Together with `C18_all_run`: in a run that ends without
cancellation, if no task failed and the graph is acyclic, every task ran. -/
theorem C18_errs_cause (g0 : Growth) (s : Ctl) (h : Reachable g0 s) (he : s.errs = true) :
    (∃ t, t < s.n ∧ (s.tasks t).failed = true) ∨ Cyclic s.n s.deps := by
  rcases errs_cause cycleSpec blockedSpec g0 s h he with hf | hc
  · exact Or.inl hf
  · exact Or.inr ((checkCycle_iff s.n s.deps (C18_invariant g0 s h).wf).1 hc)

/-- **Progress / no deadlock.**  While the loop has not returned, no error is recorded,
nothing is left Ready and some task is Running (so the `select` always has a completion to
wait for); the defensive "deadlock" branch of `runLoop` is unreachable. -/
theorem C18_no_deadlock (g0 : Growth) (s : Ctl) (h : Reachable g0 s) :
    s.deadlock = false ∧
    (s.stopped = false → s.errs = false ∧ (∀ t, t < s.n → (s.tasks t).state ≠ .ready) ∧
      ∃ t, t < s.n ∧ (s.tasks t).state = .running) :=
  ⟨(C18_invariant g0 s h).no_deadlock, (C18_invariant g0 s h).live⟩

/-- **A failure stops everything.**  Receiving a failed completion records an error and
returns from the loop without touching any other task: nothing is dispatched … -/
theorem C18_fail_stops (s : Ctl) (i : Nat) (fill : Bool) (g : Growth) :
    (onComplete s i false fill g).stopped = true ∧ (onComplete s i false fill g).errs = true ∧
    (onComplete s i false fill g).n = s.n ∧
    (∀ t, t ≠ i → (onComplete s i false fill g).tasks t = s.tasks t) ∧
    ((onComplete s i false fill g).tasks i).runs = (s.tasks i).runs ∧
    ((onComplete s i false fill g).tasks i).state = .terminated :=
  failure_stops s i fill g

/-- … and once the loop has returned — after a failure, a cancellation, a reported cycle or
the normal end — no step exists any more, so no dependant (nor any other task) is started. -/
theorem C18_stopped_final (s s' : Ctl) (h : s.stopped = true) : ¬ Step s s' :=
  stopped_final s s' h

/-- No started task ever had a failed task among its dependencies, in any state of any run. -/
theorem C18_no_dependant_of_failed (g0 : Growth) (s : Ctl) (h : Reachable g0 s)
    (t d k : Nat) (ht : t < s.n) (hk : (s.tasks t).startAt = some k)
    (hd : d ∈ (s.tasks t).startDeps) : (s.tasks d).failed = false :=
  ((C18_deps_first g0 s h) t ht k hk d hd).2.2.2.1

/-- **Cycles.**  `checkCycle` (the depth-first search of cycle.go) reports an error exactly
when some registered task depends, directly or indirectly, on itself. -/
theorem C18_cycle (n : Nat) (deps : Nat → List Nat) (h : WfDeps n deps) :
    checkCycle n deps = true ↔ Cyclic n deps :=
  checkCycle_iff n deps h

/-- While no error is recorded the dependency graph of every reachable state is acyclic. -/
theorem C18_acyclic (g0 : Growth) (s : Ctl) (h : Reachable g0 s) (he : s.errs = false) :
    ¬ Cyclic s.n s.deps := by
  have hi := C18_invariant g0 s h
  intro hc
  have := (C18_cycle s.n s.deps hi.wf).2 hc
  rw [hi.acyclic he] at this
  exact Bool.noConfusion this

/-- **Final value.**  In every state the configuration `Controller.Value()` returns is up to
date and is evaluated from the initial conjuncts plus exactly one conjunct per task that
filled a result. -/
theorem C18_final_value (g0 : Growth) (s : Ctl) (h : Reachable g0 s) : FinalValue s :=
  (C18_invariant g0 s h).value

/-- Hence two runs (any two schedules, of any two workflows) in which the same tasks filled
results build their configuration from the same conjuncts up to order.  (That unifying the
same conjuncts in a different order gives the same value is property C01.) -/
theorem C18_schedule_indep (g0 g0' : Growth) (s s' : Ctl)
    (h : Reachable g0 s) (h' : Reachable g0' s')
    (hsame : ∀ t, (t < s.n ∧ (s.tasks t).filled = true) ↔ (t < s'.n ∧ (s'.tasks t).filled = true)) :
    s.inst.Perm s'.inst :=
  final_perm s s' (C18_final_value g0 s h) (C18_final_value g0' s' h') hsame

/-! ### non-vacuity (tests of the definitions on concrete runs, not the property) -/

/-- a diamond 0 ← {1,2} ← 3 plus a task 4 that appears (depending on 3 and 1) when task 0
completes; the two middle tasks finish in the "wrong" order -/
def exDiamond : Growth := { newTasks := 4, newDeps := [(1, 0), (2, 0), (3, 1), (3, 2)] }

def exRun : Ctl :=
  runSchedule (start (new exDiamond))
    [ { task := 0, grow := { newTasks := 1, newDeps := [(4, 3), (4, 1)] } },
      { task := 2 }, { task := 1 }, { task := 3 }, { task := 4 } ]

example : Reachable exDiamond exRun :=
  runSchedule_reachable exDiamond _ _ Reachable.init

-- the run ends normally with five tasks, all started once, and task 3 saw both results
example : exRun.stopped = true ∧ exRun.errs = false ∧ exRun.cancelled = false ∧ exRun.n = 5 := by decide
example : (exRun.tasks 3).startDeps = [1, 2] ∧ (exRun.tasks 3).startSeen = [1, 2, 0] ∧
    (exRun.tasks 3).startAt = some 6 ∧ (exRun.tasks 1).endAt = some 5 ∧ (exRun.tasks 2).endAt = some 4 := by decide
example : exRun.inst = [4, 3, 1, 2, 0] := by decide

-- a failing run: task 1 fails while 2 is running; 3 (depends on 1 and 2) is never started
example : (let s := runSchedule (start (new exDiamond)) [{ task := 0 }, { task := 1, ok := false }, { task := 2 }]
    (s.stopped, s.errs, (s.tasks 3).runs, (s.tasks 2).state, (s.tasks 3).state)) =
    (true, true, 0, TState.running, TState.waiting) := by decide

-- a cyclic graph is reported and nothing runs
example : (let s := start (new { newTasks := 3, newDeps := [(0, 2), (1, 0), (2, 1)] })
    (s.errs, s.stopped, s.deadlock, (s.tasks 0).runs)) = (true, true, false, 0) := by decide
example : Cyclic 3 (fun i => if i = 0 then [2] else if i = 1 then [0] else if i = 2 then [1] else []) :=
  ⟨0, by decide, .trans (d := 2) (by decide) (.trans (d := 1) (by decide) (.edge (by decide)))⟩

end CueVerif.C18
