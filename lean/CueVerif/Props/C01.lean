/-
C01 — The evaluation result is independent of declaration and conjunct order.

The reference semantics "CueCore" (Model/Core.lean: scalars, structs with regular /
required / optional arcs, close(), closed lists, `&`, embeddings) has the algebraic laws that make the
result of evaluation independent of every rearrangement the property talks about.
The harness compares this semantics with the implementation on generated programs and
their rearrangements.

The last section does the same for TOP-LEVEL disjunctions with default marks
(Model/CoreDisj.lean), where values are compared by `DEquiv` (same disjuncts, same
defaults, same "has marks").

Only statements live here; the proofs are in CueVerif/Proofs/Core*.lean.
-/
import CueVerif.Proofs.Core
import CueVerif.Proofs.CoreDisj
namespace CueVerif.C01
open CueVerif CueVerif.Core

/-! ### sample values for the non-vacuity examples (tests, not the property) -/

/-- `{a: 1, c?: int}` (labels a, b, c = 0, 1, 2) -/
def exA : Val := .struct (.cons (.some .regular (.sc (.int 1)))
  (.cons .none (.cons (.some .optional (.sc .tInt)) .nil))) false
/-- `close({a: >=0 & <=5, b!: string})` -/
def exB : Val := .struct (.cons (.some .regular (.sc (.rng (some 0) (some 5))))
  (.cons (.some .required (.sc .tStr)) .nil)) true
/-- `{a: 1, b: "x", c?: _|_}` closed: what `exA & exB` is -/
def exAB : Val := .struct (.cons (.some .regular (.sc (.int 1)))
  (.cons (.some .required (.sc .tStr)) (.cons (.some .optional .bot) .nil))) true
/-- `{a: {b: 2}} & close({a: {}})`-like expression: `{a: int & >=1, {a: <=1 & int}} & close({a: _})` -/
def exE : Expr :=
  .and (.structL [.field 0 .regular (.and (.lit .tInt) (.lit (.rng (some 1) none))),
                  .embed (.structL [.field 0 .regular (.lit (.rng none (some 1)))])])
       (.close (.structL [.field 0 .regular .top]))

/-- `[int, {a: 1, c?: int}]` and `[>=0 & <=5, close({…})]` -/
def exL1 : Val := .list (.cons (.sc .tInt) (.cons exA .nil))
def exL2 : Val := .list (.cons (.sc (.rng (some 0) (some 5))) (.cons exB .nil))

/-! ### the algebra of unification -/

/-- Conjunct order: unification is commutative — for ALL values, normal form or not. -/
theorem C01_comm (a b : Val) : unify a b = unify b a :=
  unify_comm a b

example : unify exA exB = exAB ∧ unify exB exA = exAB := by decide
example : unify exL1 exL2 = .list (.cons (.sc (.rng (some 0) (some 5))) (.cons exAB .nil)) ∧
    unify exL2 exL1 = unify exL1 exL2 := by decide

/-- Conjunct grouping: unification is associative — for ALL values. -/
theorem C01_assoc (a b c : Val) : unify (unify a b) c = unify a (unify b c) :=
  unify_assoc a b c

/-- a non-trivial instance: the closedness of `exB` kills the field `c` that only the
third operand has -/
example : unify (unify exA exB) (.struct (.cons .none (.cons .none
    (.cons (.some .regular (.sc (.int 7))) .nil))) false) = .bot := by decide

/-- Repeating a conjunct changes nothing: unification is idempotent on normal forms. -/
theorem C01_idem (a : Val) (h : a.WF) : unify a a = a :=
  unify_idem a h

example : exAB.WF ∧ exL1.WF ∧ exL2.WF := by decide

/-- … and every evaluation result is a normal form, so no hypothesis is needed there. -/
theorem C01_idem_eval (e : Expr) : unify (eval e) (eval e) = eval e :=
  unify_idem _ (eval_wf e)

/-- Top is the identity of unification, on both sides, for ALL values. -/
theorem C01_top (a : Val) : unify a .top = a ∧ unify .top a = a :=
  ⟨unify_top_right a, unify_top_left a⟩

/-- Bottom absorbs, on both sides, for ALL values. -/
theorem C01_bot (a : Val) : unify a .bot = .bot ∧ unify .bot a = .bot :=
  ⟨unify_bot_right a, unify_bot_left a⟩

/-- Evaluation yields normal forms (no trailing empty slot, no bottom regular field,
normalised scalars — recursively) … -/
theorem C01_wf (e : Expr) : (eval e).WF :=
  eval_wf e

/-- … because unification preserves them. -/
theorem C01_unify_wf (a b : Val) (ha : a.WF) (hb : b.WF) : (unify a b).WF :=
  unify_wf a b ha hb

example : exA.WF ∧ exB.WF := by decide

/-- The scalar lattice the driver uses: meet is commutative, associative (bottom = `none`
propagating) and idempotent on normalised scalars. -/
theorem C01_scalar_laws :
    (∀ a b : Sc, Sc.meet a b = Sc.meet b a) ∧
    (∀ a b c : Sc, (Sc.meet a b).bind (fun r => Sc.meet r c)
        = (Sc.meet b c).bind (fun r => Sc.meet a r)) ∧
    (∀ a : Sc, a.WF → Sc.meet a a = some a) ∧
    (∀ a b r : Sc, Sc.meet a b = some r → r.WF) :=
  ⟨Sc.meet_comm, Sc.meet_assoc, Sc.meet_idem, Sc.meet_wf⟩

example : Sc.meet (.rng (some 0) (some 5)) (.rng (some 5) none) = some (.int 5) := by decide

/-! ### declaration order -/

/-- Declaration order: permuting the declarations (fields and embeddings) of a struct
literal does not change its value. -/
theorem C01_perm (ds ds' : List Decl) (h : ds.Perm ds') :
    eval (.structL ds) = eval (.structL ds') :=
  eval_structL_perm h

example : [Decl.field 0 .regular (.lit (.int 1)), .embed .top, .field 2 .optional (.lit .tInt)].Perm
    [.field 2 .optional (.lit .tInt), .field 0 .regular (.lit (.int 1)), .embed .top] := by decide

/-- `l: a & b` and the two declarations `l: a`, `l: b` are the same … -/
theorem C01_split (l : Nat) (t : ArcTy) (a b : Expr) :
    eval (.structL [.field l t (.and a b)]) = eval (.structL [.field l t a, .field l t b]) :=
  eval_split [] [] l t a b

/-- … also in the middle of a longer declaration list. -/
theorem C01_split_in (pre post : List Decl) (l : Nat) (t : ArcTy) (a b : Expr) :
    eval (.structL (pre ++ .field l t (.and a b) :: post)) =
      eval (.structL (pre ++ .field l t a :: .field l t b :: post)) :=
  eval_split pre post l t a b

/-- a conflicting pair: both sides are bottom -/
example : eval (.structL [.field 3 .regular (.and (.lit (.int 1)) (.lit (.int 2)))]) = .bot ∧
    eval (.structL [.field 3 .regular (.lit (.int 1)), .field 3 .regular (.lit (.int 2))]) = .bot := by
  decide

/-- A struct literal whose only declaration is an embedding is that expression. -/
theorem C01_embed (e : Expr) : eval (.structL [.embed e]) = eval e :=
  eval_embed e

/-- Files of a package: evaluating each file separately and unifying is the same as
evaluating all declarations as one file … -/
theorem C01_files_flatten (fs : List (List Decl)) : evalFiles fs = evalDeclsL fs.flatten :=
  evalFiles_flatten fs

/-- … so any redistribution / reordering of the declarations over files (in particular
any file order) gives the same package value. -/
theorem C01_files (fs fs' : List (List Decl)) (h : fs.flatten.Perm fs'.flatten) :
    evalFiles fs = evalFiles fs' :=
  evalFiles_perm fs fs' h

example : ([[Decl.embed .top, .embed .bot], [.embed .top]].flatten).Perm
    ([[Decl.embed .top], [], [.embed .bot, .embed .top]].flatten) := by decide

/-! ### the general statement -/

/-- Any composition of the rearrangements of Spec/Core.lean (declaration permutation,
`&` commutation / re-association / duplication / `& _`, field splitting, embedding
wrapping), applied at any nesting depth, preserves the evaluation result. -/
theorem C01_rearrangement (e e' : Expr) (h : Rearr e e') : eval e = eval e' :=
  eval_rearr h

/-- a nested instance: commute inside a field value inside an embedding, then permute -/
example : Rearr
    (.structL [.embed (.structL [.field 0 .regular (.and (.lit .tInt) (.lit (.int 1)))]), .embed .top])
    (.structL [.embed .top, .embed (.structL [.field 0 .regular (.and (.lit (.int 1)) (.lit .tInt))])]) :=
  .trans
    (.embed_congr [] [.embed .top] (.field_congr [] [] 0 .regular (.and_comm _ _)))
    (.perm (List.Perm.swap _ _ _))

/-- … and inside a list element -/
example : Rearr (.listL [.lit .tStr, .and (.lit .tInt) (.lit (.int 1))])
    (.listL [.lit .tStr, .structL [.embed (.and (.lit (.int 1)) (.lit .tInt))]]) :=
  .list_congr [.lit .tStr] [] (.trans (.and_comm _ _) (.embed _))

/-- test: lists of different length do not unify; a bottom element makes the list bottom -/
example : eval (.and (.listL [.lit .tInt]) (.listL [.lit .tInt, .lit .tInt])) = .bot ∧
    eval (.listL [.lit (.int 1), .and (.lit (.int 1)) (.lit (.int 2))]) = .bot := by decide

/-- test: the sample expression evaluates to the closed struct `{a: 1}` -/
example : eval exE = .struct (.cons (.some .regular (.sc (.int 1))) .nil) true := by decide

/-! ### top-level disjunctions with default marks (phase 3) -/

/-- Conjunct order with disjunctive operands: same disjuncts, same defaults. -/
theorem C01_disj_comm (x y : DVal) : DEquiv (unifyD x y) (unifyD y x) :=
  unifyD_comm x y

/-- Conjunct grouping with disjunctive operands. -/
theorem C01_disj_assoc (x y z : DVal) : DEquiv (unifyD (unifyD x y) z) (unifyD x (unifyD y z)) :=
  unifyD_assoc x y z

/-- `& _` changes nothing. -/
theorem C01_disj_top (x : DVal) : DEquiv (unifyD x (.single .top)) x :=
  unifyD_top x

/-- On disjunction-free operands `unifyD` is `unify`. -/
theorem C01_disj_single (a b : Val) : DEquiv (unifyD (.single a) (.single b)) (.single (unify a b)) :=
  unifyD_single a b

/-- `DEquiv` is an equivalence respected by `&`, `|` and `*`. -/
theorem C01_disj_congr :
    (∀ x, DEquiv x x) ∧ (∀ x y, DEquiv x y → DEquiv y x) ∧
    (∀ x y z, DEquiv x y → DEquiv y z → DEquiv x z) ∧
    (∀ x x' y y', DEquiv x x' → DEquiv y y' → DEquiv (unifyD x y) (unifyD x' y')) ∧
    (∀ x x' y y', DEquiv x x' → DEquiv y y' → DEquiv (orD x y) (orD x' y')) ∧
    (∀ x x', DEquiv x x' → DEquiv (markD x) (markD x')) :=
  ⟨DEquiv.refl, fun _ _ => DEquiv.symm, fun _ _ _ => DEquiv.trans,
   fun _ _ _ _ => unifyD_congr, fun _ _ _ _ => orD_congr, fun _ _ => markD_congr⟩

/-- Disjunct order and grouping (with the D1/D2 default rules). -/
theorem C01_or_comm (x y : DVal) : DEquiv (orD x y) (orD y x) :=
  orD_comm x y

theorem C01_or_assoc (x y z : DVal) : DEquiv (orD (orD x y) z) (orD x (orD y z)) :=
  orD_assoc x y z

/-- test: `(*1 | 2) & (1 | *2)` has the disjuncts 1, 2 and no default; and the other order -/
example : unifyD ⟨[(.sc (.int 1), true), (.sc (.int 2), false)], true⟩
      ⟨[(.sc (.int 1), false), (.sc (.int 2), true)], true⟩ =
    ⟨[(.sc (.int 1), false), (.bot, true), (.bot, false), (.sc (.int 2), false)], true⟩ := by
  decide

/-- `{a: 1}`, `{b: 2}`, `{a: 1, b: 2}` -/
def exSA : Val := .struct (.cons (.some .regular (.sc (.int 1))) .nil) false
def exSB : Val := .struct (.cons .none (.cons (.some .regular (.sc (.int 2))) .nil)) false
def exSAB : Val := .struct (.cons (.some .regular (.sc (.int 1)))
  (.cons (.some .regular (.sc (.int 2))) .nil)) false
/-- `{a: 1} | {b: 2}` -/
def exD : DVal := { items := [(exSA, true), (exSB, true)], hm := false }

/-- Repeating a disjunctive conjunct: FALSE in general — `x & x` for `x = {a: 1} | {b: 2}`
has the extra disjunct `{a: 1, b: 2}` (unification distributes, the cross terms of
overlapping open structs are not bottom).  To be replayed on the implementation by the
harness. -/
def C01_disj_idem_stmt : Prop :=
  ∀ x : DVal, (∀ a, x.mem a → a.WF) → DEquiv (unifyD x x) x

theorem C01_disj_idem_false : ¬ C01_disj_idem_stmt := by
  intro h
  have hwf : ∀ a, exD.mem a → a.WF := by
    rintro a ⟨_, b, hb⟩
    simp only [exD, List.mem_cons, Prod.mk.injEq, List.not_mem_nil, or_false] at hb
    rcases hb with ⟨rfl, _⟩ | ⟨rfl, _⟩ <;> decide
  have h1 : (unifyD exD exD).mem exSAB :=
    (mem_unifyD _ _ _).2 ⟨by decide, exSA, exSB,
      ⟨by decide, true, by simp [exD]⟩, ⟨by decide, true, by simp [exD]⟩, by decide⟩
  obtain ⟨_, b, hb⟩ := ((h exD hwf).mem exSAB).1 h1
  simp only [exD, List.mem_cons, Prod.mk.injEq, List.not_mem_nil, or_false] at hb
  rcases hb with ⟨hb, _⟩ | ⟨hb, _⟩ <;> exact absurd hb (by decide)


/-- … but TRUE when distinct disjuncts exclude each other (e.g. distinct scalars, closed
structs with different fields). -/
theorem C01_disj_idem_partial (x : DVal) (hwf : ∀ a, x.mem a → a.WF)
    (hex : ∀ a b, x.mem a → x.mem b → a ≠ b → unify a b = .bot) : DEquiv (unifyD x x) x :=
  unifyD_idem_of_exclusive x hwf hex

/-- Any composition of: conjunct order / grouping / `& _`, disjunct order / grouping, any
rearrangement inside a disjunction-free leaf, moving `&` between the levels — under `&`,
`|` and `*` at any depth — preserves the value (disjuncts, defaults, marks). -/
theorem C01_disj_rearrangement (e e' : DExpr) (h : DRearr e e') : DEquiv (evalD e) (evalD e') :=
  evalD_rearr h

example : DRearr (.and (.or (.mark (.leaf (.lit (.int 1)))) (.leaf (.lit (.int 2)))) (.leaf (.lit .tInt)))
    (.and (.leaf (.lit .tInt)) (.or (.leaf (.lit (.int 2))) (.mark (.leaf (.lit (.int 1)))))) :=
  .trans (.and_comm _ _) (.and_congr (.refl _) (.or_comm _ _))

end CueVerif.C01
