/-
C03 — Unifying scalars, basic types and bounds is exact set intersection.

Objects (Model/Scalar.lean, Spec/Scalar.lean):
  * `evalS re cs`  — the model of the evaluator on the conjunction `c₁ & … & cₙ`
                     (`insertValueConjunct` / `SimplifyBounds` / `updateNodeType` / `validateValue` /
                     `getValidators`, transcribed), result `bottom | atom a | residual kind bounds`;
  * `sat re a c`   — the specification: the atom `a` satisfies the conjunct `c`;
                     `Sat re cs a` = it satisfies every conjunct;
  * `accepts r a`  — `r` is the atom `a` (same kind, same exact value);
  * `re`           — an arbitrary regular-expression oracle.

Every theorem is for EVERY list of conjuncts (any length, any order, the atom at any position),
every atom and every oracle, WITHOUT side conditions.  (Before repository commit 2ca10eb the
statements were false for bound operands with a fraction and an integer part of more than 34
digits — `BaseContext.Ceil/Floor` rounded and the condition was dropped; the model now
transcribes the repaired code, which skips the simplification when Ceil/Floor is Inexact, and
the former witness is kept as a regression example.)

Only statements live here; proofs are in Proofs/{Dec,Scalar,ScalarNode}.lean.
-/
import CueVerif.Proofs.ScalarNode
namespace CueVerif.C03
open CueVerif CueVerif.Scalar

/-! ### an atom unifies with the expression exactly when it satisfies every conjunct -/

/-- For every conjunction that contains the atom `a` as one conjunct — at any position — the
evaluation succeeds with (an atom equal to) `a` exactly when `a` satisfies every conjunct. -/
theorem C03_accept (re : Bytes → Bytes → Bool) (cs : List Constraint) (a : Atom)
    (ha : Constraint.atom a ∈ cs) :
    accepts (evalS re cs) a ↔ Sat re cs a :=
  accept_iff re cs a ha

/-- "... and the result is then that atom". -/
theorem C03_result (re : Bytes → Bytes → Bool) (cs : List Constraint) (a : Atom)
    (ha : Constraint.atom a ∈ cs) (hsat : Sat re cs a) :
    ∃ b, evalS re cs = .atom b ∧ b.same a = true :=
  (accept_iff re cs a ha).2 hsat

/-- Never accepted wrongly: a successful unification means every conjunct is satisfied. -/
theorem C03_accept_sound (re : Bytes → Bytes → Bool) (cs : List Constraint) (a b : Atom)
    (ha : Constraint.atom a ∈ cs) (h : evalS re cs = .atom b) (hb : b.same a = true) :
    ∀ c ∈ cs, sat re a c = true :=
  (accept_iff re cs a ha).1 ⟨b, h, hb⟩

-- non-vacuity: a conjunction with a satisfying atom in the middle
example : Sat (fun _ _ => false)
    [.type .int, .atom (.int 3), .bound ⟨.ge, .float ⟨25, -1⟩⟩, .bound ⟨.lt, .int 4⟩] (.int 3) := by
  unfold Sat; decide

/-- the witness of the defect repaired by 2ca10eb: `int & >=1234567890123456789012345678901234567.5
& <=1234567890123456789012345678901234569 & 1234567890123456789012345678901234568` -/
def formerWitness : List Constraint :=
  [.type .int,
   .bound ⟨.ge, .float ⟨12345678901234567890123456789012345675, -1⟩⟩,
   .bound ⟨.le, .int 1234567890123456789012345678901234569⟩,
   .atom (.int 1234567890123456789012345678901234568)]

/-- regression example (a test, not the property): the former witness is accepted now -/
theorem formerWitness_accepted :
    evalS (fun _ _ => false) formerWitness = .atom (.int 1234567890123456789012345678901234568) := by
  decide +kernel

/-! ### bottom only if no atom satisfies the expression -/

/-- The expression evaluates to bottom only if no atom satisfies every conjunct. -/
theorem C03_bottom_sound (re : Bytes → Bytes → Bool) (cs : List Constraint)
    (h : evalS re cs = .bottom) : ∀ a, ¬ Sat re cs a :=
  bottom_sound re cs h

-- non-vacuity: a conjunction that is bottom (`int & >3.4 & <3.6`)
example : evalS (fun _ _ => false)
    [.type .int, .bound ⟨.gt, .float ⟨34, -1⟩⟩, .bound ⟨.lt, .float ⟨36, -1⟩⟩] = .bottom := by
  decide

/-! ### never a different atom -/

/-- When the evaluator reports an atom, that atom satisfies every conjunct and it is the only
one that does (up to `1.0 = 1.00`). -/
theorem C03_pinned (re : Bytes → Bytes → Bool) (cs : List Constraint)
    (b : Atom) (h : evalS re cs = .atom b) :
    Sat re cs b ∧ ∀ a, Sat re cs a → a.same b = true :=
  pinned re cs b h

example : evalS (fun _ _ => false) [.bound ⟨.le, .float ⟨15, -1⟩⟩, .atom (.float ⟨10, -1⟩)] = .atom (.float ⟨10, -1⟩) := by
  decide

/-! ### a non-concrete result is exact too -/

/-- When the result is not concrete (`getValidators`: kind + surviving bounds) it admits exactly
the atoms that satisfy every conjunct: nothing is lost by tightening, de-duplication or the
pruning of a `!=` that another bound already excludes. -/
theorem C03_residual_exact (re : Bytes → Bytes → Bool) (cs : List Constraint) (k : Kind)
    (bs : List Bound) (h : evalS re cs = .residual k bs) (a : Atom) :
    Sat re cs a ↔ (Kind.has k a = true ∧ ∀ b ∈ bs, satBound re a b = true) :=
  residual_exact re cs k bs h a

example : evalS (fun _ _ => false) [.bound ⟨.lt, .int 5⟩, .bound ⟨.ne, .int 7⟩, .bound ⟨.lt, .int 3⟩] =
    .residual Kind.number [⟨.lt, .int 3⟩] := by decide

/-! ### every outcome of `SimplifyBounds` is sound (the cell lemma the above rest on) -/

/-- For an atom of a kind `k` allows and both bounds admit: `keepX`/`keepY` drop a bound the other
implies, an error means the two bounds exclude each other. -/
theorem C03_simplify_sound (re : Bytes → Bytes → Bool) (k : Kind) (x y : Bound) (v : Atom)
    (hax : boundAdmits x v = true) (hay : boundAdmits y v = true) (hk : Kind.has k v = true) :
    match simplifyBounds re k x y with
    | .keepX => boundHolds re x v = true → boundHolds re y v = true
    | .keepY => boundHolds re y v = true → boundHolds re x v = true
    | .err => ¬ (boundHolds re x v = true ∧ boundHolds re y v = true)
    | .both => True :=
  simplify_sound re k x y v hax hay hk

/-! ### int and float stay distinct kinds; comparison is by exact decimal value -/

theorem C03_kinds (re : Bytes → Bytes → Bool) (n : Int) (d : Dec) :
    sat re (.int n) (.type .float) = false ∧ sat re (.float d) (.type .int) = false ∧
    (Atom.int n).same (.float d) = false ∧ sat re (.int n) (.atom (.float d)) = false ∧
    sat re (.int n) (.type .number) = true ∧ sat re (.float d) (.type .number) = true :=
  ⟨(by decide : Nat.testBit 8 2 = false), (by decide : Nat.testBit 4 3 = false), rfl, rfl,
   (by decide : Nat.testBit 12 2 = true), (by decide : Nat.testBit 12 3 = true)⟩

/-- A numeric atom satisfies `<=e` / `>=e` exactly when its exact value is below / above `e`'s,
whatever the spelling (`1.0`, `1.00`, `10e-1`) and whether the operand is an int or a float. -/
theorem C03_exact_compare (re : Bytes → Bytes → Bool) (v m : Atom) (d e : Dec)
    (hv : v.num? = some d) (hm : m.num? = some e) :
    sat re v (.bound ⟨.le, m⟩) = (Dec.cmp d e).isLE ∧ sat re v (.bound ⟨.ge, m⟩) = (Dec.cmp e d).isLE :=
  ⟨sat_le_num re v m d e hv hm, sat_ge_num re v m d e hv hm⟩

/-- `Dec.cmp` is the comparison of the scaled integer numerators at any common exponent, and a
total preorder. -/
theorem C03_cmp_exact (a b : Dec) (e : Int) (ha : e ≤ a.exp) (hb : e ≤ b.exp) :
    Dec.cmp a b = compare (a.coeff * 10 ^ (a.exp - e).toNat) (b.coeff * 10 ^ (b.exp - e).toNat) :=
  Dec.cmp_at a b e ha hb

theorem C03_cmp_trans (a b c : Dec) (h1 : (Dec.cmp a b).isLE = true) (h2 : (Dec.cmp b c).isLE = true) :
    (Dec.cmp a c).isLE = true :=
  Std.TransCmp.isLE_trans h1 h2

end CueVerif.C03
