/-
C03 — Unifying scalars, basic types and bounds is exact set intersection.

Objects (Model/Scalar.lean, Spec/Scalar.lean):
  * `evalS re cs`  — the model of the evaluator on the conjunction `c₁ & … & cₙ`
                     (`insertValueConjunct` / `SimplifyBounds` / `updateNodeType` / `validateValue` /
                     `getValidators`, transcribed), result `bottom | atom a | residual …`;
  * `sat re a c`   — the specification: the atom `a` satisfies the conjunct `c`;
                     `Sat re cs a` = it satisfies every conjunct;
  * `accepts r a`  — `r` is the atom `a` (same kind, same exact value);
  * `re`           — an arbitrary regular-expression oracle.

Every theorem is for EVERY list of conjuncts (any length, any order, the atom at any position),
every atom and every oracle.

One region is excluded by hypothesis (`Regular cs`): a bound whose operand has a non-zero
fraction and an integer part needing more than 34 digits.  There `internal.BaseContext.Ceil/Floor`
round (precision 34) and `SimplifyBounds` ignores the Inexact condition; the full statements are
FALSE of model and code alike — `C03_accept_false`, `C03_bottom_sound_false` prove the negations on
a witness that the harness replays on the implementation (known finding
`int-bound-fraction-over-34-digits`).  `Regular` also asks that a basic type has a non-empty kind
mask, which every type CUE source can express has.

Only statements live here; proofs are in Proofs/{Dec,Scalar,ScalarNode}.lean.
-/
import CueVerif.Proofs.ScalarNode
namespace CueVerif.C03
open CueVerif CueVerif.Scalar

/-! ### an atom unifies with the expression exactly when it satisfies every conjunct -/

/-- FULL statement (no side condition). -/
def C03_accept_stmt : Prop :=
  ∀ (re : Bytes → Bytes → Bool) (cs : List Constraint) (a : Atom), Constraint.atom a ∈ cs →
    (accepts (evalS re cs) a ↔ Sat re cs a)

/-- For every conjunction that contains the atom `a` as one conjunct — at any position — the
evaluation succeeds with (an atom equal to) `a` exactly when `a` satisfies every conjunct. -/
theorem C03_accept_partial (re : Bytes → Bytes → Bool) (cs : List Constraint) (a : Atom)
    (hreg : Regular cs) (ha : Constraint.atom a ∈ cs) :
    accepts (evalS re cs) a ↔ Sat re cs a :=
  accept_iff re cs a hreg ha

/-- "... and the result is then that atom". -/
theorem C03_result (re : Bytes → Bytes → Bool) (cs : List Constraint) (a : Atom)
    (hreg : Regular cs) (ha : Constraint.atom a ∈ cs) (hsat : Sat re cs a) :
    ∃ b, evalS re cs = .atom b ∧ b.same a = true :=
  (accept_iff re cs a hreg ha).2 hsat

/-- Never accepted wrongly: a successful unification means every conjunct is satisfied. -/
theorem C03_accept_sound (re : Bytes → Bytes → Bool) (cs : List Constraint) (a b : Atom)
    (hreg : Regular cs) (ha : Constraint.atom a ∈ cs) (h : evalS re cs = .atom b) (hb : b.same a = true) :
    ∀ c ∈ cs, sat re a c = true :=
  (accept_iff re cs a hreg ha).1 ⟨b, h, hb⟩

-- non-vacuity: a regular conjunction with a satisfying atom in the middle
example : Regular [.type Kind.int, .atom (.int 3), .bound ⟨.ge, .float ⟨25, -1⟩⟩, .bound ⟨.lt, .int 4⟩] ∧
    Sat (fun _ _ => false) [.type Kind.int, .atom (.int 3), .bound ⟨.ge, .float ⟨25, -1⟩⟩, .bound ⟨.lt, .int 4⟩] (.int 3) := by
  unfold Regular Sat; decide

/-- the witness of the defect: `int & >=1234567890123456789012345678901234567.5 &
<=1234567890123456789012345678901234569 & 1234567890123456789012345678901234568` -/
def witness : List Constraint :=
  [.type Kind.int,
   .bound ⟨.ge, .float ⟨12345678901234567890123456789012345675, -1⟩⟩,
   .bound ⟨.le, .int 1234567890123456789012345678901234569⟩,
   .atom (.int 1234567890123456789012345678901234568)]

theorem witness_bottom : evalS (fun _ _ => false) witness = .bottom := by decide +kernel

theorem witness_sat : Sat (fun _ _ => false) witness (.int 1234567890123456789012345678901234568) := by
  unfold Sat witness; decide +kernel

/-- The full statement is false (of the model, and — replayed by the harness — of the code). -/
theorem C03_accept_false : ¬ C03_accept_stmt := by
  intro h
  have := (h (fun _ _ => false) witness (.int 1234567890123456789012345678901234568)
    (by unfold witness; decide)).2 witness_sat
  obtain ⟨b, hb, _⟩ := this
  rw [witness_bottom] at hb; cases hb

/-! ### bottom only if no atom satisfies the expression -/

def C03_bottom_sound_stmt : Prop :=
  ∀ (re : Bytes → Bytes → Bool) (cs : List Constraint), evalS re cs = .bottom → ∀ a, ¬ Sat re cs a

/-- The expression evaluates to bottom only if no atom satisfies every conjunct. -/
theorem C03_bottom_sound_partial (re : Bytes → Bytes → Bool) (cs : List Constraint)
    (hreg : Regular cs) (h : evalS re cs = .bottom) : ∀ a, ¬ Sat re cs a :=
  bottom_sound re cs hreg h

theorem C03_bottom_sound_false : ¬ C03_bottom_sound_stmt := fun h =>
  h (fun _ _ => false) witness witness_bottom _ witness_sat

-- non-vacuity: a regular conjunction that is bottom (`int & >3.4 & <3.6`)
example : Regular [.type Kind.int, .bound ⟨.gt, .float ⟨34, -1⟩⟩, .bound ⟨.lt, .float ⟨36, -1⟩⟩] ∧
    evalS (fun _ _ => false) [.type Kind.int, .bound ⟨.gt, .float ⟨34, -1⟩⟩, .bound ⟨.lt, .float ⟨36, -1⟩⟩] = .bottom := by
  unfold Regular; decide

/-! ### never a different atom -/

/-- OPEN without the side condition (believed true: an atom result always stems from an atom
conjunct). -/
def C03_pinned_stmt : Prop :=
  ∀ (re : Bytes → Bytes → Bool) (cs : List Constraint) (b : Atom), evalS re cs = .atom b →
    Sat re cs b ∧ ∀ a, Sat re cs a → a.same b = true

/-- When the evaluator reports an atom, that atom satisfies every conjunct and it is the only
one that does (up to `1.0 = 1.00`). -/
theorem C03_pinned_partial (re : Bytes → Bytes → Bool) (cs : List Constraint) (hreg : Regular cs)
    (b : Atom) (h : evalS re cs = .atom b) :
    Sat re cs b ∧ ∀ a, Sat re cs a → a.same b = true :=
  pinned re cs hreg b h

example : evalS (fun _ _ => false) [.bound ⟨.le, .float ⟨15, -1⟩⟩, .atom (.float ⟨10, -1⟩)] = .atom (.float ⟨10, -1⟩) := by
  decide

/-! ### every outcome of `SimplifyBounds` is sound (the cell lemma the above rest on) -/

/-- For an atom of a kind `k` allows and both bounds admit: `keepX`/`keepY` drop a bound the other
implies, an error means the two bounds exclude each other. -/
theorem C03_simplify_sound (re : Bytes → Bytes → Bool) (k : Kind) (x y : Bound) (v : Atom)
    (hax : boundAdmits x v = true) (hay : boundAdmits y v = true) (hk : Kind.has k v = true)
    (sx : x.small = true) (sy : y.small = true) :
    match simplifyBounds re k x y with
    | .keepX => boundHolds re x v = true → boundHolds re y v = true
    | .keepY => boundHolds re y v = true → boundHolds re x v = true
    | .err => ¬ (boundHolds re x v = true ∧ boundHolds re y v = true)
    | .both => True :=
  simplify_sound re k x y v hax hay hk sx sy

/-! ### int and float stay distinct kinds; comparison is by exact decimal value -/

theorem C03_kinds (re : Bytes → Bytes → Bool) (n : Int) (d : Dec) :
    sat re (.int n) (.type Kind.float) = false ∧ sat re (.float d) (.type Kind.int) = false ∧
    (Atom.int n).same (.float d) = false ∧ sat re (.int n) (.atom (.float d)) = false ∧
    sat re (.int n) (.type Kind.number) = true ∧ sat re (.float d) (.type Kind.number) = true :=
  ⟨(by decide : Nat.testBit 8 2 = false), (by decide : Nat.testBit 4 3 = false), rfl, rfl,
   (by decide : Nat.testBit 12 2 = true), (by decide : Nat.testBit 12 3 = true)⟩

/-- A numeric atom satisfies `<=e` / `>=e` exactly when its exact value is below / above `e`'s,
whatever the spelling (`1.0`, `1.00`, `10e-1`) and whether the operand is an int or a float. -/
theorem C03_exact_compare (re : Bytes → Bytes → Bool) (v m : Atom) (d e : Dec)
    (hv : v.num? = some d) (hm : m.num? = some e) :
    sat re v (.bound ⟨.le, m⟩) = (Dec.cmp d e).isLE ∧ sat re v (.bound ⟨.ge, m⟩) = (Dec.cmp e d).isLE :=
  ⟨sat_le_num re v m d e hv hm, sat_ge_num re v m d e hv hm⟩

/-- `Dec.cmp` is the comparison of the scaled integer numerators at any common exponent, and a
total preorder. -/
theorem C03_cmp_exact (a b : Dec) (e : Int) (ha : e ≤ a.exp) (hb : e ≤ b.exp) :
    Dec.cmp a b = compare (a.coeff * 10 ^ (a.exp - e).toNat) (b.coeff * 10 ^ (b.exp - e).toNat) :=
  Dec.cmp_at a b e ha hb

theorem C03_cmp_trans (a b c : Dec) (h1 : (Dec.cmp a b).isLE = true) (h2 : (Dec.cmp b c).isLE = true) :
    (Dec.cmp a c).isLE = true :=
  Std.TransCmp.isLE_trans h1 h2

end CueVerif.C03
