/-
C20 — `cue trim` removes only what is implied: the evaluated configuration is unchanged.

Only statements live here; proofs are in CueVerif/Proofs/Trim.lean.  The theorems are about
the removal CRITERION in the value model of Model/Trim.lean (any meet-semilattice of
values, conjunct multisets per path, value/default pairs, absent fields, pattern
conjuncts).  tools/trim/trimv3.go itself (which conjuncts it inspects, dependency linking,
AST rewriting) is NOT transcribed: every run of the check validates its output instead
(harness/c20*.go: evaluated result before = after at every path, idempotence, each removal
implied by the rest, and — for the flat family — each removal judged by `finalMask` below).
-/
import CueVerif.Proofs.Trim
namespace CueVerif.C20
open CueVerif CueVerif.Trim

/-! ### removing what is implied preserves the result at every path -/

/-- Removing one conjunct that the rest of the package implies (`redundant`: the unified
package value is the same without it) leaves the fully evaluated, default-resolved result
unchanged at EVERY path — field present/absent included.  For every value lattice `L`,
path type `P` and conjunct multiset `A ++ c :: B`. -/
theorem C20_removal_sound {V P : Type} (L : SLB V) [DecidableEq V] (A : List (PkgConj P V))
    (c : PkgConj P V) (B : List (PkgConj P V)) (h : redundant (pkgSL L P) A c B) :
    ∀ p, finalAt L (A ++ B) p = finalAt L (A ++ c :: B) p :=
  removal_sound L A c B h

/-- Any sequence of removals, each of a conjunct redundant with respect to the CURRENT
multiset (whatever the "removable" side condition `ok` is), preserves the result at every
path. -/
theorem C20_iterated {V P K : Type} (L : SLB V) [DecidableEq V] (val : K → PkgConj P V)
    (ok : K → Prop) (C C' : List K) (h : Removal (pkgSL L P) val ok C C') :
    ∀ p, finalAt L (C'.map val) p = finalAt L (C.map val) p :=
  removal_final L val ok h

/-- … whereas removing two conjuncts that are each redundant with respect to the ORIGINAL
multiset is unsound (`x: 1`, `x: 1`): this is why trim must keep one "winner" per vertex
and re-judge against what is actually kept. -/
def C20_simultaneous_stmt : Prop :=
  ∀ (a b : Mask), redundant bits.toSL [] a [b] → redundant bits.toSL [a] b [] →
    unifyAll bits.toSL [] = unifyAll bits.toSL [a, b]

theorem C20_simultaneous_false : ¬ C20_simultaneous_stmt := by
  intro h
  have := h 1#32 1#32 (by decide) (by decide)
  revert this
  decide

/-- One winner per path suffices: if the kept conjuncts `Kp` contain, for the path `p`, a
conjunct that is alone as specific as the whole vertex there, the kept part has the same
value at `p` as the whole package (so any hitting set of the per-vertex winner sets is a
sound choice — `solveUndecideds`). -/
theorem C20_winners_per_path {S P : Type} (L : SL S) (Kp R : List (P → S)) (p : P)
    (h : ∃ w ∈ Kp, le L (w p) (unifyAll (L.pi P) (Kp ++ R) p)) :
    unifyAll (L.pi P) Kp p = unifyAll (L.pi P) (Kp ++ R) p :=
  winners_per_path L Kp R p h

/-! ### trimming again removes nothing more -/

/-- The specification-level trimmer (`trimModel`: one scan, dropping each removable conjunct
that is redundant w.r.t. what is currently left) performs a legal removal sequence … -/
theorem C20_model_removal {S K : Type} (L : SL S) [DecidableEq S] (val : K → S) (ok : K → Bool)
    (C : List K) : Removal L val (fun k => ok k = true) C (trimModel L val ok C) :=
  greedy_removal L val ok [] C

/-- … after which no removable conjunct is redundant any more (conjuncts judged early stay
non-redundant when later ones are removed) … -/
theorem C20_idem_spec {S K : Type} (L : SL S) [DecidableEq S] (val : K → S) (ok : K → Bool)
    (C : List K) : Maximal L val (fun k => ok k = true) (trimModel L val ok C) :=
  greedy_maximal L val ok C

/-- … so trimming the trimmed multiset again is the identity. -/
theorem C20_idempotent {S K : Type} (L : SL S) [DecidableEq S] (val : K → S) (ok : K → Bool)
    (C : List K) : trimModel L val ok (trimModel L val ok C) = trimModel L val ok C :=
  greedy_idem L val ok C

/-! ### defaults: trim compares with defaults applied on both sides -/

/-- trim's actual test (`equallySpecific`, `subsume.Profile{Defaults, LeftDefault}`):
keep `Kp`, drop `R`, whenever the kept part with defaults applied is subsumed by the
whole vertex with defaults applied.  As a general criterion this is FALSE: -/
def C20_winner_criterion_stmt : Prop :=
  ∀ (Kp R : List (DV Mask)),
    equallySpecific bits (unifyAll bits.dv (Kp ++ R)) (unifyAll bits.dv Kp) →
    resolve bits (unifyAll bits.dv Kp) = resolve bits (unifyAll bits.dv (Kp ++ R))

/-- witness (`C20_defaults_caveat`): atoms 1 ↦ bit 0, 3 ↦ bit 1, other ints ↦ bit 2;
`x: *1 | int` kept, `x: *3 | int` dropped.  The vertex is `1 | 3 | int` without a default,
the kept conjunct resolves to `1`, which the vertex subsumes — yet the result changes
from "incomplete" to `1`. -/
theorem C20_defaults_caveat : ¬ C20_winner_criterion_stmt := by
  intro h
  have := h [⟨7#32, 1#32⟩] [⟨7#32, 2#32⟩] (by decide)
  revert this
  decide

/-- The criterion is sound outside exactly this region: unless the whole vertex has lost
its default while the kept part still has one. -/
theorem C20_winner_criterion_partial {V : Type} (L : SLB V) [DecidableEq V] (Kp R : List (DV V))
    (hreg : ¬ ((unifyAll L.dv (Kp ++ R)).d = L.bot ∧ (unifyAll L.dv Kp).d ≠ L.bot))
    (h : equallySpecific L (unifyAll L.dv (Kp ++ R)) (unifyAll L.dv Kp)) :
    resolve L (unifyAll L.dv Kp) = resolve L (unifyAll L.dv (Kp ++ R)) :=
  winner_partial L Kp R hreg h

/-- The hypothesis shape trim satisfies: when no DROPPED conjunct carries a default mark
(trimv3 `findDisjunctions` marks every conjunct of a disjunction as required) the region is
unreachable and the defaults-applied test is sound for every lattice and every multiset. -/
theorem C20_winner_criterion_unmarked {V : Type} (L : SLB V) [DecidableEq V] (Kp R : List (DV V))
    (hR : ∀ r ∈ R, r.unmarked)
    (h : equallySpecific L (unifyAll L.dv (Kp ++ R)) (unifyAll L.dv Kp)) :
    resolve L (unifyAll L.dv Kp) = resolve L (unifyAll L.dv (Kp ++ R)) :=
  winner_unmarked L Kp R hR h

/-! ### conjuncts that must not count as winners -/

/-- A pattern-root conjunct (`[string]: 5`) may be as specific as the vertex `o` (value 5)
without being able to keep the field in existence: keeping only it makes `o` disappear. -/
def patRoot : Cj (DV Mask) := { val := ⟨1#32, 1#32⟩, pattern := true }   -- `[string]: 5`
def patDecl : Cj (DV Mask) := { val := ⟨3#32, 3#32⟩ }                    -- `o: int`

theorem C20_pattern_root_caveat :
    unifyAll bits.dv [patRoot.val] = unifyAll bits.dv [patRoot.val, patDecl.val] ∧
    finalMask [patRoot, patDecl] = some 1#32 ∧ finalMask [patRoot] = none := by
  decide

/-- … while dropping conjuncts is sound for field existence too as long as a plain
(non-pattern) conjunct is kept and the unified value is unchanged. -/
theorem C20_pattern_sound {S : Type} (L : SL S) (Kp R : List (Cj S))
    (hplain : Kp.any (fun c => !c.pattern) = true)
    (h : unifyAll L (Kp.map Cj.val) = unifyAll L ((Kp ++ R).map Cj.val)) :
    vertexValue L Kp = vertexValue L (Kp ++ R) := by
  unfold vertexValue
  have : (Kp ++ R).any (fun c => !c.pattern) = true := by
    rw [List.any_append, hplain]; rfl
  rw [hplain, this, h]

/-- A conjunct found inside a selected disjunction branch (`d: 6 | string`, `o: d & int`:
the vertex `o` shows the conjuncts `6` and `int`) makes `int` LOOK redundant although it is
not redundant against what `d` really contributes (bit 0 = 6, bit 1 = other ints,
bit 2 = strings). -/
theorem C20_branch_conjunct_caveat :
    -- d = 5 (`6 | string`), the selected branch six = 1, int = 3
    le bits.toSL (1#32 : Mask) 5#32 ∧ redundant bits.toSL [(1#32 : Mask)] 3#32 [] ∧
      ¬ redundant bits.toSL [(5#32 : Mask)] 3#32 [] := by
  decide

/-! ### non-vacuity -/

-- a removable, redundant conjunct exists and the model trimmer drops exactly it
example : trimModel bits.toSL (fun m : Mask => m) (fun _ => true) [3#32, 1#32, 1#32] = [1#32] := by
  decide
-- a legal removal sequence of length 2 on a two-path package
example : Removal bits.toSL (fun m : Mask => m) (fun _ => True) [3#32, 1#32, 1#32] [1#32] :=
  .step [] _ [1#32, 1#32] _ trivial (by decide) (.step [] _ [1#32] _ trivial (by decide) (.refl _))
-- the unmarked hypothesis is met by `x: *1 | int` kept, `x: 1` dropped
example : equallySpecific bits (unifyAll bits.dv ([⟨7#32, 1#32⟩] ++ [⟨1#32, 1#32⟩]))
    (unifyAll bits.dv [⟨7#32, 1#32⟩]) := by decide

end CueVerif.C20
