/-
C17 — `cue mod tidy` reaches a correct fixpoint and module files round-trip.

Only statements live here; proofs are in CueVerif/Proofs/{TidyFix,TidyOrder,TidyWitness,Modfile}.lean.
The model (`Tidy.tidy`, `Tidy.checkTidy`: Model/Tidy.lean) transcribes modload.Tidy / CheckTidy
with modpkgload / modrequirements underneath; the specification (`Tidy.specFlaws`,
`Tidy.specSel`, `Tidy.PReach`: Spec/Tidy.lean) is written from the property text.

Three clauses of the property are FALSE at full strength — on the model and, replayed by the
harness on the same universes, on the implementation: they are kept as `…_stmt`, refuted on a
concrete witness (`…_false`), and the strongest proved part is `…_partial` / the theorems next
to them.  One statement (soundness of the result w.r.t. the specification under the three
exclusions) is believed true and is OPEN; it is tied by correspondence only (the `spec` op).
-/
import CueVerif.Proofs.TidyFix
import CueVerif.Proofs.TidyOrder
import CueVerif.Proofs.TidyWitness
import CueVerif.Proofs.Modfile
namespace CueVerif.C17
open CueVerif CueVerif.Tidy

/-! ### versions are consistent with minimal version selection (C14) -/

/-- The version the module graph of a requirement list selects for a path — what
`importFromModules` / `updateRoots` read through `ModuleGraph.Selected` — bounds every version
reachable in the pruned requirement graph main → roots → each root's own requirements … -/
theorem C17_mvs_upper (reg : Reg) (roots : List (MPath × Nat)) (mp : MPath) (v : Nat) :
    PReach reg roots (mp, v) → v ≤ specSel reg roots mp :=
  specSel_upper reg roots mp v

/-- … and is attained by a reachable node (or is "none"): it is the maximum, nothing higher. -/
theorem C17_mvs_attained (reg : Reg) (roots : List (MPath × Nat)) (mp : MPath) :
    specSel reg roots mp = 0 ∨ PReach reg roots (mp, specSel reg roots mp) :=
  specSel_attained reg roots mp

/-- The same, stated on C14's requirement-graph model (`Mvs.Reach`, whose terminal states
C14_terminal / C14_minimal_sufficient characterise for every schedule): for any injective
numbering of module paths, the selection is the maximum over `Mvs.Reach` from the main module. -/
theorem C17_mvs_is_C14_selection (reg : Reg) (roots : List (MPath × Nat)) (e : MPath → Nat)
    (hinj : ∀ a b, e a = e b → a = b) (hne : ∀ a, e a ≠ 0) (mp : MPath) :
    (∀ v, Mvs.Reach (mvsGraph reg roots e) [(0, 0)] (e mp, v) → v ≤ specSel reg roots mp) ∧
    (specSel reg roots mp = 0 ∨
      Mvs.Reach (mvsGraph reg roots e) [(0, 0)] (e mp, specSel reg roots mp)) :=
  specSel_mvs reg roots e hinj hne mp

/-- The model's `graphSel` (readModGraph + Selected) is that selection whenever every root's
module file can be read, and fails exactly when one cannot. -/
theorem C17_graph_selects (reg : Reg) (roots : List (MPath × Nat)) :
    (∀ g, graphSel reg roots = some g → g = specSel reg roots) ∧
    (graphSel reg roots = none ↔ ∃ r ∈ roots, reg.find r.1 r.2 = none) :=
  ⟨fun g h => graphSel_eq_specSel reg roots g h, graphSel_none_iff reg roots⟩

/-- FULL CLAUSE (false): every version tidy lists is the version minimal version selection picks
in the tidied file's own graph. -/
def C17_mvs_consistent_stmt : Prop :=
  ∀ (main : Mod) (mods : List Mod) (fuel : Nat) (ds : List Dep),
    tidy main (regOf mods) fuel = .ok ds →
    ∀ d ∈ ds, specSel (regOf mods) (ds.map (fun d => (d.mp, d.rank))) d.mp = d.rank

/-- Witness W1 (harness: `roots-graph-inconsistent`): main lists a v0.1.0 only; a requires b v0.1.0
and c v0.1.0; c v0.1.0 requires b v0.2.0; tidy lists b v0.1.0, its own graph selects b v0.2.0. -/
theorem C17_mvs_consistent_false : ¬ C17_mvs_consistent_stmt := by
  intro h
  have := h Witness.main1 Witness.mods1 60 Witness.deps1 Witness.w1_tidy
    ⟨Witness.mp [8,2] 0, 3, false⟩ (by decide)
  rw [Witness.w1_selected] at this
  exact absurd this (by decide)

/-! ### no unused entry; what "needed" means in the code -/

/-- Every module version tidy lists provided a package of the final package graph: some loaded
import path resolved to it (without error), the registry has that module version and it contains
the package directory.  (The code's rule: the roots are exactly the modules of the loaded
packages — all packages are "in all" because the main module's packages are and the flag
propagates along imports.) -/
theorem C17_no_unused (main : Mod) (reg : Reg) (fuel : Nat) (ds : List Dep)
    (h : tidy main reg fuel = .ok ds) :
    ∀ d ∈ ds, ∃ rs pkgs k imps m,
      resolveLoop (normMod main) reg fuel fuel (initReqs (normMod main)) = .ok (rs, pkgs) ∧
      (k, PkgRes.ok (Prov.ext d.mp d.rank) imps false) ∈ pkgs ∧
      loadOne (normMod main) reg rs k = PkgRes.ok (Prov.ext d.mp d.rank) imps false ∧
      reg.find d.mp d.rank = some m ∧ m.hasPkg k.path = true :=
  tidy_no_unused main reg fuel ds h

/-- Conversely every module a loaded package came from is listed, once (one entry per path). -/
theorem C17_providers_listed (pkgs : List (Imp × PkgRes)) :
    ((tidyRoots pkgs).map (·.1)).Nodup ∧
    (∀ k mp v imps bad, (k, PkgRes.ok (Prov.ext mp v) imps bad) ∈ pkgs → mp ∈ (tidyRoots pkgs).map (·.1)) ∧
    (∀ r ∈ tidyRoots pkgs, ∃ k imps bad, (k, PkgRes.ok (Prov.ext r.1 r.2) imps bad) ∈ pkgs) :=
  ⟨tidyRoots_nodup pkgs, fun k mp v imps bad h => tidyRoots_complete pkgs k mp v imps bad h,
   fun r h => tidyRoots_provides pkgs r h⟩

/-- FULL CLAUSE (false): the tidied file is right in the sense of the specification — every
needed import resolves uniquely in its build list, every provider is listed, every listed module
is used, every listed version is the selected one. -/
def C17_sound_complete_stmt : Prop :=
  ∀ (main : Mod) (mods : List Mod) (fuel : Nat) (ds : List Dep),
    tidy main (regOf mods) fuel = .ok ds → specFlaws main (regOf mods) ds fuel = []

/-- refuted by each of the three witnesses; W3 (harness: `ambiguous-in-build-list`) is used here:
package b/x lies in module t.test and in module t.test/b, both in the build list. -/
theorem C17_sound_complete_false : ¬ C17_sound_complete_stmt := by
  intro h
  have := h Witness.main3 Witness.mods3 60 Witness.deps3 Witness.w3_tidy
  rw [Witness.w3_flaws] at this
  exact absurd this (by decide)

/-- OPEN (believed true, tied by correspondence only: the harness puts `specFlaws` of every
implementation result to the driver; all disagreements observed fall in the three excluded
shapes).  Excluded regions: the root set and the module graph disagree (a listed version below the
selected one, or a promoted root whose requirements change the selection); a needed import
provided by two modules of the build list. -/
def C17_sound_complete_partial_stmt : Prop :=   -- OPEN
  ∀ (main : Mod) (mods : List Mod) (fuel : Nat) (ds : List Dep),
    tidy main (regOf mods) fuel = .ok ds →
    (∀ d ∈ ds, specSel (regOf mods) (ds.map (fun d => (d.mp, d.rank))) d.mp = d.rank) →
    (∀ d ∈ ds, ∀ d' ∈ ds, d.mp.base = d'.mp.base → d.mp.major ≠ d'.mp.major → ∃ e ∈ ds, e.mp.base = d.mp.base ∧ e.dflt = true) →
    Flaw.ambiguous ∉ specFlaws main (regOf mods) ds fuel →
    Flaw.fuel ∉ specFlaws main (regOf mods) ds fuel →
    specFlaws main (regOf mods) ds fuel = []

/-! ### fixpoint: tidy on its own output, and the tidiness check -/

/-- FULL CLAUSE (false): running tidy on its own output changes nothing and the check accepts it. -/
def C17_idem_stmt : Prop :=
  ∀ (main : Mod) (mods : List Mod) (fuel : Nat) (ds : List Dep),
    tidy main (regOf mods) fuel = .ok ds →
    tidy { main with deps := ds } (regOf mods) fuel = .ok ds ∧
    checkTidy { main with deps := ds } (regOf mods) fuel = .ok

/-- Witness W2 (harness: `roots-graph-inconsistent`, shape (c)): main lists u.test/d@v0, which
requires t.test/c@v1; c's package imports "u.test/d/n/x" and c requires u.test/d@v1.  Tidy lists
c@v1 and d@v0; on that file c is a root, its requirement brings d@v1 into the build list, tidy
answers c@v1 and d@v1 and the check answers "not tidy". -/
theorem C17_idem_false : ¬ C17_idem_stmt := by
  intro h
  have h2 := (h Witness.main2 Witness.mods2 60 Witness.deps2 Witness.w2_tidy).2
  rw [Witness.w2_second_differs.2] at h2
  exact absurd h2 (by decide)

/-- The former second counterexample (two majors of one base path listed without a default,
finding `two-majors-no-default`) is repaired by `keepImpliedDefaults` (8593d77): on that universe
the major the unqualified import was resolved with is marked default, the result is a fixpoint,
the check accepts it and the specification finds no flaw.  (A TEST on one universe.) -/
theorem C17_two_majors_repaired :
    tidy Witness.mainR (regOf Witness.modsR) 60 = .ok Witness.depsR ∧
    checkTidy { Witness.mainR with deps := Witness.depsR } (regOf Witness.modsR) 60 = .ok ∧
    specFlaws Witness.mainR (regOf Witness.modsR) Witness.depsR 60 = [] :=
  ⟨Witness.r_tidy, Witness.r_stable.2.1, Witness.r_stable.2.2⟩

/-- The provable core of idempotence: the tidiness check is a fixpoint test.  Whenever
CheckTidy accepts a module file, Tidy succeeds on it and lists exactly the same module versions
with exactly the default marks the file's defaults induce — so `Tidy(Tidy(x)) = Tidy(x)` holds
precisely when the check accepts `Tidy(x)` (the excluded region is "the check rejects tidy's
output", which is what W2 exhibits).  `keepImpliedDefaults` is the identity in that situation. -/
theorem C17_idem_partial (main : Mod) (reg : Reg) (fuel : Nat) (hf : 0 < fuel)
    (h : checkTidy main reg fuel = .ok) :
    ∃ ds, tidy main reg fuel = .ok ds ∧
      (∀ mp v, (mp, v) ∈ (initReqs (normMod main)).roots ↔ ∃ d ∈ ds, d.mp = mp ∧ d.rank = v) ∧
      (∀ d ∈ ds, d.dflt = (lookupD (fileDflts (normMod main)) d.mp.base == some d.mp.major)) :=
  check_ok_tidy_noop main reg fuel hf h

/-- In full: on a file the check accepts, tidy returns the file's own dependency list (same
module versions, same default marks), i.e. it changes nothing. -/
theorem C17_check_accepts_means_unchanged (main : Mod) (reg : Reg) (fuel : Nat) (hf : 0 < fuel)
    (h : checkTidy main reg fuel = .ok) :
    ∃ ds, tidy main reg fuel = .ok ds ∧ ∀ d, d ∈ ds ↔ d ∈ (normMod main).deps :=
  check_ok_tidy_same_deps main reg fuel hf h

-- non-vacuity: W1's tidied file is accepted by the check and is a fixpoint (a TEST on one universe)
example : Witness.okDeps (tidy { Witness.main1 with deps := Witness.deps1 } (regOf Witness.mods1) 60) Witness.deps1 = true ∧
    checkTidy { Witness.main1 with deps := Witness.deps1 } (regOf Witness.mods1) 60 = .ok := Witness.w1_stable

/-! ### order independence -/

/-- The outcome of Tidy and of CheckTidy does not depend on the order of the registry listing,
of the packages (directories / files) of any module, of the imports inside a package, or of the
dependency entries of any module file.  Hypotheses: path elements are proper element ids
(< 1000; the sort keys reserve larger numbers for major versions), module files have one entry
per module path, the registry has one entry per module version. -/
theorem C17_order (main main' : Mod) (mods mods' : List Mod) (fuel : Nat)
    (hm : ModPerm main main') (hs : Mod.small main)
    (hr : ∃ l, Forall₂ ModPerm mods l ∧ l.Perm mods') (hsm : ∀ m ∈ mods, Mod.small m)
    (hn : (mods.map (fun m => (m.mp, m.rank))).Nodup) :
    tidy main' (regOf mods') fuel = tidy main (regOf mods) fuel ∧
      checkTidy main' (regOf mods') fuel = checkTidy main (regOf mods) fuel :=
  tidy_order_indep main main' mods mods' fuel hm hs hr hsm hn

/-- The result is printed in the canonical order of module paths whatever the input order:
permuting the registry alone never changes the registry the algorithm sees. -/
theorem C17_registry_listing (mods mods' : List Mod) (h : mods.Perm mods')
    (hn : (mods.map (fun m => (m.mp, m.rank))).Nodup) : regOf mods' = regOf mods :=
  regOf_perm mods mods' h hn

/-! ### module files: Parse ∘ Format = id; unknown or malformed fields are rejected

The model is tree level: `Modfile.encode` is what Format hands to the CUE printer, `Modfile.decode`
what Parse does with the evaluated data (closed schema of the file's language version, field
types, File.init); lexing/printing of the text is C08/C09's subject.  `L` carries the library
predicates decode takes as parameters (current language version, module-path / version checks). -/

theorem C17_modfile_roundtrip (L : Modfile.Lib) (f : Modfile.Modfile) (h : Modfile.WF L f) :
    Modfile.decode L (Modfile.encode f) = .ok f :=
  Modfile.decode_encode L f h

/-- closedness at every level: an unknown field is rejected wherever it occurs -/
theorem C17_modfile_unknown_rejected (L : Modfile.Lib) (top : Modfile.Fields) :
    (∀ k v, (k, v) ∈ top → k ∉ Modfile.topFields → Modfile.Rejected (Modfile.decode L (.struct top))) ∧
    (∀ lfs k v, Modfile.lookup Modfile.kLanguage top = some (.struct lfs) → (k, v) ∈ lfs → k ≠ Modfile.kVersion →
        Modfile.Rejected (Modfile.decode L (.struct top))) ∧
    (∀ sfs k v, Modfile.lookup Modfile.kSource top = some (.struct sfs) → (k, v) ∈ sfs → k ≠ Modfile.kKind →
        Modfile.Rejected (Modfile.decode L (.struct top))) ∧
    (∀ dfs fs m k v, Modfile.lookup Modfile.kDeps top = some (.struct dfs) → (m, .struct fs) ∈ dfs → (k, v) ∈ fs →
        k ∉ Modfile.depFields → Modfile.Rejected (Modfile.decode L (.struct top))) :=
  ⟨fun k v hm hk => Modfile.unknown_top_rejected L top k v hm hk,
   fun lfs k v hl hm hk => Modfile.unknown_language_field_rejected L top lfs k v hl hm hk,
   fun sfs k v hl hm hk => Modfile.unknown_source_field_rejected L top sfs k v hl hm hk,
   fun dfs fs m k v hl hm hf hk => Modfile.unknown_dep_field_rejected L top dfs fs m k v hl hm hf hk⟩

/-- a known field of the wrong type, or a missing mandatory one, is rejected -/
theorem C17_modfile_malformed_rejected (L : Modfile.Lib) (top : Modfile.Fields)
    (h : Modfile.Malformed top) : Modfile.Rejected (Modfile.decode L (.struct top)) :=
  Modfile.malformed_rejected L top h

/-- FULL CLAUSE (false): every field of an accepted module file survives Parse ∘ Format
("rejected rather than dropped"). -/
def C17_modfile_kept_stmt : Prop := Modfile.accepted_fields_kept_stmt

/-- the schema accepts `description: string`, the File structure has no place for it -/
theorem C17_modfile_kept_false : ¬ C17_modfile_kept_stmt := Modfile.accepted_fields_kept_false

/-- every accepted top-level field other than `description` is kept -/
theorem C17_modfile_kept_partial (L : Modfile.Lib) (top : Modfile.Fields) (f : Modfile.Modfile)
    (k : Modfile.Str) (v : Modfile.Val) (h : Modfile.decode L (.struct top) = .ok f)
    (hl : Modfile.lookup k top = some v) (hv : v ≠ .struct []) (hk : k ≠ Modfile.kDescription) :
    ∃ v', Modfile.lookup k (Modfile.encodeFields f) = some v' :=
  Modfile.accepted_fields_kept_partial L top f k v h hl hv hk

end CueVerif.C17
