/-
C16 — The module cache never serves a partial download, whatever crashes or races.

Only statements live here; the proofs are in CueVerif/Proofs/ModCache*.lean.
The model (CueVerif/Model/ModCache.lean) is a small-step system: any number of processes,
any number of goroutines per process, each running Fetch / FetchFromCache / ModFile for a
module version one file-system effect at a time; the environment may make the registry
fail at any call and may kill any process between any two effects.  `Reachable n s` /
`GReachable n g` quantify over ALL such histories.
-/
import CueVerif.Proofs.ModCacheObs
import CueVerif.Proofs.ModCacheRecover
import CueVerif.Proofs.ModCachePaths
namespace CueVerif.C16
open CueVerif CueVerif.ModCache

/-! ### the invariant is inductive -/

theorem C16_inv_init (n : Nat) : Inv n VSt.init := inv_init n

/-- every step — the next file-system effect of any goroutine of any process, a registry
fault, the crash of a process — preserves the invariant -/
theorem C16_inv_step (n : Nat) (s s' : VSt) (h : Inv n s) (hs : Step n s s') : Inv n s' :=
  inv_step h hs

/-- … hence it holds after every history -/
theorem C16_reachable (n : Nat) (s : VSt) (hr : Reachable n s) : Inv n s := reachable_inv hr

/-! ### what is never observable, in any reachable state of the whole cache -/

/-- In every reachable state and for every module version: a directory that counts as
available (exists, no `.partial` marker — the criterion of `downloadDir`) is exactly the
module's files with the registry's content; a zip / a cached module file at its final name is
complete. -/
theorem C16_safe (n : Ver → Nat) (g : GSt) (hr : GReachable n g) (v : Ver) : Safe (n v) (g v) :=
  safe_of_inv (greachable_inv hr v)

/-- Whenever `Fetch` or `FetchFromCache` actually hands a directory to a caller (the `avail`
event — including the unlocked fast path whose two `stat` calls are separate steps that other
processes interleave with), the directory is the complete module at that moment. -/
theorem C16_served_complete (n : Nat) (s s' : VSt) (t : Tid) (c : Choice) (o : Out)
    (hr : Reachable n s) (hn : next n s t c = some (s', o)) (he : o.ev = .avail) :
    Complete n s' ∧ s'.mark = false :=
  avail_event (reachable_inv hr) hn he

/-- Whenever `ModFile` serves bytes read from `<ver>.mod`, the file is complete. -/
theorem C16_modfile_complete (n : Nat) (s s' : VSt) (t : Tid) (c : Choice) (o : Out)
    (hr : Reachable n s) (hn : next n s t c = some (s', o)) (he : o.ev = .modRead) :
    s.modf = some .full :=
  modRead_event (reachable_inv hr) hn he

/-- Once available, always available: no step of anybody, and no crash, takes a complete
directory away again (so every later fetch of any process obtains that same content). -/
theorem C16_avail_stable (n : Nat) (s s' : VSt) (hr : Reachable n s) (hs : Step n s s')
    (ha : Available s) : Available s' :=
  avail_stable (reachable_inv hr) hs ha

/-- Mutual exclusion: at most one thread (over all processes) is inside a region guarded by
the version's lock file. -/
theorem C16_mutex (n : Nat) (s : VSt) (hr : Reachable n s) (u v : Tid)
    (hu : (s.pc u).crit = true) (hv : (s.pc v).crit = true) : u = v :=
  mutex (reachable_inv hr) u v hu hv

/-- Single flight: within one process `GetZip` (and the module-file download) happens at
most once per version, however many goroutines ask … -/
theorem C16_single_flight (n : Nat) (s : VSt) (hr : Reachable n s) (p : Pid) :
    s.nget p ≤ 1 ∧ s.nmod p ≤ 1 :=
  ⟨(reachable_inv hr).nget_le p, (reachable_inv hr).nmod_le p⟩

/-- … where the counter is exactly the number of `getZip` events of that process. -/
theorem C16_nget_counts (n : Nat) (s s' : VSt) (t : Tid) (c : Choice) (o : Out)
    (hn : next n s t c = some (s', o)) (p : Pid) :
    s'.nget p = s.nget p + (if o.ev = .getZip ∧ t.1 = p then 1 else 0) :=
  nget_event hn p

/-! ### recovery -/

/-- After ANY history (every interruption pattern: any processes killed at any points, any
registry faults) that leaves no thread running, the next `Fetch` by a fresh process — run
alone, registry not failing — terminates (as a sequence of steps of the model), returns the
directory (`avail` event), and the directory is exactly the module. -/
theorem C16_recover (n : Nat) (s : VSt) (hr : Reachable n s) (hq : ∀ u, s.pc u = .idle)
    (t : Tid) (ha : s.dead t.1 = false) (hz : s.zc t.1 = .idle) :
    (cleanFetch n s t).1.pc t = .idle ∧ Complete n (cleanFetch n s t).1 ∧
      (cleanFetch n s t).1.mark = false ∧ Ev.avail ∈ (cleanFetch n s t).2 ∧
      Steps n s (cleanFetch n s t).1 :=
  recover (reachable_inv hr) hq t ha hz

/-! ### independence of the versions on disk

`C16_safe` is about the product of per-version components.  On disk every effect names its
target exactly (different versions, different names) except the cleanup `Fetch` does before
extracting, which goes through the entries of the parent directory and matches them by name
(Bridge: `fx_Fetch_removes`, `cleanup_tmp_suffix`, pins of `isAllDigits`, `isVersionDir`). -/

/-- The cleanup for the directory called `base` removes `base` itself, or an entry
`base.tmp-<digits>` that is not named after a version; nothing else. -/
theorem C16_cleanup_confined (base name : Name) (h : cleanupRemoves base name = true) :
    name = base ∨
      (∃ ds, name = base ++ tmpSuffix ++ ds ∧ isAllDigits ds = true) ∧ isVersionDir name = false :=
  cleanup_confined base name h

/-- **Independence.**  Fetching version v never removes the extraction directory of another
version w of the same module: the entries examined are direct children of the parent
directory, w's directory is the child named `e@w`, and that name is "named after a version".
Needed: the module's last path element `e` contains no '@' (module paths cannot), and w —
the version as written on disk, where an upper-case letter is "!" + the lower-case letter —
is a valid semantic version once the "!" are dropped. -/
theorem C16_cleanup_indep (e v w : Name) (he : ∀ c ∈ e, c ≠ 64)
    (hw : Semver.isValid (stripBang w) = true) (hne : v ≠ w) :
    cleanupRemoves (dirBase e v) (dirBase e w) = false :=
  cleanup_indep e v w he hw hne

/-- The match BEFORE f81b1df (any name with the prefix `base.tmp-`) violated independence:
it removed the directory of the valid version "v0.0.1-a.tmp-x" when "v0.0.1-a" was extracted
(reproduced on the implementation at the time; fixed: f81b1df).  The current match spares it. -/
theorem C16_old_prefix_match_violates :
    ∃ e v w : Name, Semver.isValid v = true ∧ Semver.isValid w = true ∧ v ≠ w ∧
      cleanupRemovesOld (dirBase e v) (dirBase e w) = true ∧
      cleanupRemoves (dirBase e v) (dirBase e w) = false :=
  ⟨_, _, _, old_prefix_match_witness.1, old_prefix_match_witness.2.1, old_prefix_match_witness.2.2.1,
    old_prefix_match_witness.2.2.2.1, old_prefix_match_witness.2.2.2.2.2⟩

/-- The match of f81b1df (`base.tmp-<digits>`) still violated it: "v0.0.1-a.tmp-1" is a valid
version too (fixed: 01b58aa).  The current match spares it. -/
theorem C16_old_digits_match_violates :
    ∃ e v w : Name, Semver.isValid v = true ∧ Semver.isValid w = true ∧ v ≠ w ∧
      cleanupRemovesDigits (dirBase e v) (dirBase e w) = true ∧
      cleanupRemoves (dirBase e v) (dirBase e w) = false :=
  ⟨_, _, _, old_digits_match_witness.1, old_digits_match_witness.2.1, old_digits_match_witness.2.2.1,
    old_digits_match_witness.2.2.2.1, old_digits_match_witness.2.2.2.2⟩

-- non-vacuity (TESTS): the hypotheses of C16_cleanup_indep hold for foo@v0.0.1 / foo@v0.0.10,
-- and a genuine legacy temporary directory `q@v0.0.1.tmp-123` is still cleaned up
example : Semver.isValid (stripBang [118,48,46,48,46,49,48]) = true := by decide
example : cleanupRemoves (dirBase [113] [118,48,46,48,46,49]) (dirBase [113] [118,48,46,48,46,49] ++ tmpSuffix ++ [49,50,51]) = true :=
  legacy_tmp_removed

/-! ### non-vacuity (TESTS on concrete runs, not the property) -/

/-- process 0 fetches a 2-file module and is killed after `k` of its steps; then process 1
fetches -/
def demo (k : Nat) : VSt × List Ev :=
  match next 2 VSt.init (0, 0) { start := .fetch } with
  | none => (VSt.init, [])
  | some (s1, _) => cleanFetch 2 (crash (runAlone 2 (0, 0) k s1 []).1 0) (1, 0)

-- killed in the middle of the extraction (one file written, the second created):
example : (crash ((match next 2 VSt.init (0, 0) { start := .fetch } with
    | some (s1, _) => (runAlone 2 (0, 0) 19 s1 []).1 | none => VSt.init)) 0).dir = some ⟨1, true, true⟩ := by decide
-- … the next fetch (another process) ends with the complete directory and reports it:
example : (demo 19).1.dir = some ⟨2, false, true⟩ ∧ (demo 19).1.mark = false ∧ Ev.avail ∈ (demo 19).2 := by decide
-- an uninterrupted fetch passes 15 = 11 + 2·2 hook points:
example : (coldHooks 2 .fetch).length = 15 := by decide

end CueVerif.C16
