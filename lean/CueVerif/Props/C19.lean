/-
C19 — Values are immutable: concurrent use gives sequential answers, no data races.

WHAT IS PROVED HERE IS NARROW (claims/C19.json says "partial"): the shared-state
PROTOCOLS behind the immutable facade that are small enough to model — the global
label/string intern table (internal/core/runtime/index.go) and the lock bracketing of
every function of package internal/core/runtime that touches the runtime's shared maps
and counters — over ALL numbers of goroutines and ALL interleavings.  Absence of data
races in the pointer-mutating evaluator is NOT a theorem about any pure model and is not
claimed; that half of the property is only observed (race detector + sequential-answer
comparison in the harness).

Only statements live here; the proofs are in Proofs/Lockset.lean and Proofs/Intern.lean.
The protocols the theorems are applied to are REGENERATED from the source
(Bridge/C19.lean).
-/
import CueVerif.Proofs.Lockset
import CueVerif.Proofs.Intern
namespace CueVerif.C19
open CueVerif CueVerif.Lockset

/-! ### Eraser-style lockset theorems, generic in the protocols

For ANY data semantics, ANY set of protocols that pass the static check `wellLocked`
against a guard assignment `g` (variable ↦ mutex), ANY number of threads spawned at any
time and ANY interleaving. -/

/-- (2) of the design: every write happens under the write lock and every read under some
lock ⇒ no two conflicting accesses are ever simultaneously enabled. -/
theorem C19_lockset {D L : Type} (sem : Sem D L) (progs : List Prog) (initL : L → Prop) (d0 : D)
    (g : Loc → Lk) (strict : Bool) (hp : ∀ p ∈ progs, wellLocked g strict p = true)
    (s : St D L) (hr : Run sem progs initL d0 s) : ¬ Race s :=
  Lockset.no_race sem progs initL d0 g strict hp s hr

/-- a write holder excludes every other holder of the same mutex (this is the RWMutex
contract; it holds for all protocols, checked or not) -/
theorem C19_mutual_exclusion {D L : Type} (sem : Sem D L) (progs : List Prog) (initL : L → Prop)
    (d0 : D) (s : St D L) (hr : Run sem progs initL d0 s)
    (i j : Nat) (ti tj : Th L) (l : Lk) (hij : i ≠ j)
    (hi : s.ths[i]? = some ti) (hj : s.ths[j]? = some tj)
    (hw : ti.held.contains (l, true) = true) : holdsAny tj.held l = false :=
  Lockset.mutual_exclusion sem progs initL d0 s hr i j ti tj l hij hi hj hw

/-- no protocol ever unlocks a mutex it does not hold (Go: "fatal error: sync: unlock of
unlocked mutex"), on any path, explicit or deferred -/
theorem C19_no_fatal_unlock {D L : Type} (sem : Sem D L) (progs : List Prog) (initL : L → Prop)
    (d0 : D) (g : Loc → Lk) (strict : Bool) (hp : ∀ p ∈ progs, wellLocked g strict p = true)
    (s : St D L) (hr : Run sem progs initL d0 s) : ∀ t ∈ s.ths, ¬ FatalUnlock t :=
  Lockset.no_fatal_unlock sem progs initL d0 g strict hp s hr

/-- a finished call holds no lock (no leak on any return path) -/
theorem C19_no_lock_leak {D L : Type} (sem : Sem D L) (progs : List Prog) (initL : L → Prop)
    (d0 : D) (g : Loc → Lk) (strict : Bool) (hp : ∀ p ∈ progs, wellLocked g strict p = true)
    (s : St D L) (hr : Run sem progs initL d0 s) : ∀ t ∈ s.ths, t.st = .done → t.held = [] :=
  Lockset.no_lock_leak sem progs initL d0 g strict hp s hr

/-- protocols that pass the STRICT check (no lock taken, no lock-taking function called
while a lock is held) never deadlock: in every reachable state with an unfinished call
some thread can move -/
theorem C19_no_deadlock {D L : Type} (sem : Sem D L) (progs : List Prog) (initL : L → Prop)
    (d0 : D) (g : Loc → Lk) (hp : ∀ p ∈ progs, wellLocked g true p = true)
    (s : St D L) (hr : Run sem progs initL d0 s) : ¬ Deadlock sem s :=
  Lockset.no_deadlock sem progs initL d0 g hp s hr

-- non-vacuity: the check accepts the double-checked-locking protocol of getKey and
-- rejects the same protocol with the insert done under the read lock / without a lock
example : wellLocked Intern.guard true Intern.getKeyProg = true := by decide
example : wellLocked Intern.guard false
    [.acq "mutex" false, .acc "labelMap" .lookup, .acc "labelMap" .store, .rel "mutex" false] = false := by decide
example : wellLocked Intern.guard false [.acc "labelMap" .lookup, .ret] = false := by decide
example : wellLocked Intern.guard false [.acq "mutex" true, .br "ok" 1, .ret, .rel "mutex" true] = false := by decide

/-! ### the intern table: linearizability to an insert-once map

`Intern.IRun d0 s`: `s` is reachable from the table `d0` by any number of concurrent
`getKey(s)` / `IndexToString(i)` calls, interleaved instruction by instruction. -/

/-- the two protocols pass the strict lockset check — so C19_lockset, C19_no_deadlock …
apply to the intern table (stated on the model programs; Bridge.C19 states it for the
regenerated ones) -/
theorem C19_intern_wellLocked : ∀ p ∈ Intern.progs, wellLocked Intern.guard true p = true :=
  Intern.progs_wellLocked

/-- (1a) the table only grows: every step extends `labels` at the end (or leaves it alone) -/
theorem C19_intern_grows (d0 : Intern.Tab) (hc : Intern.Consistent d0) (s s' : Intern.State)
    (hr : Intern.IRun d0 s) (hs : Steps Intern.sem Intern.progs Intern.initL s s') :
    ∃ ext, s'.data.labels = s.data.labels ++ ext :=
  Intern.grows d0 hc s s' hr hs

/-- (1b) indices are never reassigned -/
theorem C19_intern_never_reassigned (d0 : Intern.Tab) (hc : Intern.Consistent d0)
    (s s' : Intern.State) (hr : Intern.IRun d0 s)
    (hs : Steps Intern.sem Intern.progs Intern.initL s s') (i : Nat) (k : Intern.Key)
    (h : s.data.labels[i]? = some k) : s'.data.labels[i]? = some k :=
  Intern.never_reassigned d0 hc s s' hr hs i k h

/-- (1c) no string is ever entered twice -/
theorem C19_intern_nodup (d0 : Intern.Tab) (hc : Intern.Consistent d0) (s : Intern.State)
    (hr : Intern.IRun d0 s) : s.data.labels.Nodup :=
  Intern.nodup d0 hc s hr

/-- (1d) a finished `getKey(s)` returned an index whose table entry is `s` -/
theorem C19_intern_result (d0 : Intern.Tab) (hc : Intern.Consistent d0) (s : Intern.State)
    (hr : Intern.IRun d0 s) (t : Th Intern.Loc) (ht : t ∈ s.ths)
    (hp : t.prog = Intern.getKeyProg) (hd : t.st = .done) :
    s.data.labels[t.loc.p]? = some t.loc.s :=
  Intern.result d0 hc s hr t ht hp hd

/-- (1e) equal strings get equal indices and distinct strings distinct indices, whatever
the interleaving of the calls -/
theorem C19_intern_injective (d0 : Intern.Tab) (hc : Intern.Consistent d0) (s : Intern.State)
    (hr : Intern.IRun d0 s) (t u : Th Intern.Loc) (ht : t ∈ s.ths) (hu : u ∈ s.ths)
    (hpt : t.prog = Intern.getKeyProg) (hpu : u.prog = Intern.getKeyProg)
    (hdt : t.st = .done) (hdu : u.st = .done) :
    t.loc.s = u.loc.s ↔ t.loc.p = u.loc.p :=
  Intern.injective d0 hc s hr t u ht hu hpt hpu hdt hdu

/-- (1f) whenever nobody holds the write lock, `labelMap` is exactly the inverse of
`labels` -/
theorem C19_intern_consistent (d0 : Intern.Tab) (hc : Intern.Consistent d0) (s : Intern.State)
    (hr : Intern.IRun d0 s) (hq : ∀ t ∈ s.ths, t.held.contains ("mutex", true) = false) :
    Intern.Consistent s.data :=
  Intern.consistent_quiescent d0 hc s hr hq

/-- (1g) `IndexToString` of an index that is in the table returns its string, for ever:
any call started after the entry exists, whatever happens concurrently -/
theorem C19_intern_name (d0 : Intern.Tab) (hc : Intern.Consistent d0) (s s' : Intern.State)
    (hr : Intern.IRun d0 s) (i : Nat) (k : Intern.Key) (hk : s.data.labels[i]? = some k)
    (hs : Steps Intern.sem Intern.progs Intern.initL s s')
    (j : Nat) (t : Th Intern.Loc) (hj : s.ths.length ≤ j) (ht : s'.ths[j]? = some t)
    (hp : t.prog = Intern.indexToStringProg) (hi : t.loc.i = i) (hd : t.st = .done) :
    t.loc.out = some k :=
  Intern.name_stable d0 hc s s' hr i k hk hs j t hj ht hp hi hd

/-- (1) LINEARIZABILITY, by linearization points.  Every step of every run is either
* a spawn (a new call starts, nothing else changes), or
* a step of one thread that leaves the abstract table (`labels`) and the thread's ghost
  result `lin` unchanged, or
* THE linearization step of a `getKey(k)` call that has not been linearized yet
  (`lin = none` before): the abstract insert-once table makes exactly the atomic
  transition `InternSpec.intern labels k = (r, labels')` and the call records `r`.
Together with `C19_intern_returns_lin` (a finished call returns the `r` of its own
linearization step) this is the linearization-point characterisation: every concurrent
history of `getKey` calls is equivalent to the sequential history of atomic `intern`s in
linearization order, each placed between its call and its return. -/
theorem C19_intern_linearizable (d0 : Intern.Tab) (hc : Intern.Consistent d0)
    (s s' : Intern.State) (hr : Intern.IRun d0 s) (hst : Intern.IStep s s') :
    (∃ t, s'.ths = s.ths ++ [t] ∧ t.loc.lin = none ∧ s'.data = s.data) ∨
    (∃ i t t', s.ths[i]? = some t ∧ s'.ths = s.ths.set i t' ∧
      ((t'.loc.lin = t.loc.lin ∧ s'.data.labels = s.data.labels) ∨
       (t.prog = Intern.getKeyProg ∧ t.loc.lin = none ∧ t'.loc.s = t.loc.s ∧
        ∃ r, t'.loc.lin = some r ∧
          InternSpec.intern s.data.labels t.loc.s = (r, s'.data.labels)))) :=
  Intern.linearizable d0 hc s s' hr hst

theorem C19_intern_returns_lin (d0 : Intern.Tab) (hc : Intern.Consistent d0) (s : Intern.State)
    (hr : Intern.IRun d0 s) (t : Th Intern.Loc) (ht : t ∈ s.ths)
    (hp : t.prog = Intern.getKeyProg) (hd : t.st = .done) :
    t.loc.lin = some t.loc.p :=
  Intern.returns_lin d0 hc s hr t ht hp hd

-- non-vacuity: a consistent non-empty initial table (the state after `init()` interned
-- "_"), and a reachable state with two finished calls (see also Driver/C19 `sched`)
example : Intern.Consistent { map := [([95], 0)], labels := [[95]] } := by
  intro k i; simp only [Intern.lookup]; constructor
  · intro h; split at h
    · next hk => cases h; simp [hk]
    · cases h
  · intro h; cases i with
    | zero => simp at h; simp [h]
    | succ n => simp at h

end CueVerif.C19
