/-
C04 — Disjunctions and defaults follow the value/default-pair rules of the spec.

Model: CueVerif/Model/Disj.lean (`eval`: the transcribed default-mode algorithm of
internal/core/adt/disjunct2.go, parametric in the value meet-semilattice `S : Sl V`).
Spec:  CueVerif/Spec/Disj.lean (`specPair`, `resolve`: ⟨v,d⟩ pairs with U0–U2, D0–D2,
M0–M3, written from doc/ref/spec.md).
Only statements live here; proofs are in CueVerif/Proofs/Disj{Values,Default,DupFail,Witness}.lean.
All theorems are for EVERY semilattice `V` satisfying `Laws` and every expression tree of
any width and depth (no bound), unless a hypothesis says otherwise.
-/
import CueVerif.Proofs.DisjValues
import CueVerif.Proofs.DisjDefault
import CueVerif.Proofs.DisjDupFail
import CueVerif.Proofs.DisjWitness
namespace CueVerif.C04
open CueVerif CueVerif.Disj

variable {V : Type} [DecidableEq V]

/-! ### values: union over disjuncts distributed over & -/

/-- The set of disjuncts of the implementation model equals the spec's value component
(the union over disjuncts distributed over `&`), for every expression tree — marked or not,
nested or not, well-formed or not. In particular failed (bottom) disjuncts contribute
nothing and the result is bottom exactly when the spec's value is. -/
theorem C04_values (S : Sl V) (h : Laws S) (e : Expr V) (x : V) :
    x ∈ (eval S e).values ↔ x ∈ (specPair S e).v :=
  values_iff S h e x

/-- Duplicate elimination: the model never lists a disjunct value twice. -/
theorem C04_values_nodup (S : Sl V) (e : Expr V) : (eval S e).values.Nodup :=
  values_nodup S e

-- non-vacuity: a nested, marked expression with a failing and a duplicate disjunct
example : (eval Witness.flat4 Witness.w1304).values = [1, 2, 3] := by decide

/-! ### the default -/

/-- The property at full strength: for every well-formed expression whose marks are not
nested inside marked disjunctions, what a use that needs a concrete value sees in the
implementation model is the spec's `resolve` (the unique surviving marked disjunct, else the
unique disjunct, else ambiguous).  FALSE of the transcribed algorithm and of the
implementation alike — see `C04_default_false`. -/
def C04_default_stmt : Prop :=
  ∀ (V : Type) [DecidableEq V] (S : Sl V), Laws S → ∀ e : Expr V,
    e.WF = true → e.NoNestedMarks = true → (eval S e).resolve = (specPair S e).resolve

/-- Witness `(*1|2|3) | (1|*2|3)&2` (a row of the spec's own table, value-default pair
⟨1|2|3, 1|2⟩, i.e. ambiguous): the transcribed algorithm — and the implementation, replayed
by the harness — silently resolves it to `1`. -/
theorem C04_default_false : ¬ C04_default_stmt := fun hstmt =>
  absurd
    ((hstmt (Fin 4) Witness.flat4 Witness.flat4_laws Witness.w1304 Witness.w1304_ok.1 Witness.w1304_ok.2).symm.trans
      Witness.w1304_model)
    (by rw [Witness.w1304_spec_resolve]; decide)

/-- A second, independent way the full statement fails: with two marked disjunctions at one
node the transcribed algorithm depends on the ORDER of the conjuncts
(`A & (B & C)` is ambiguous, `(C & A) & B` resolves to 2, for A = *1|2|3, B = 1|*2|3,
C = 2|3), whereas the spec gives 2 for both. -/
theorem C04_order_dependent :
    (eval Witness.flat4 (.and Witness.A (.and Witness.B Witness.C))).resolve ≠
      (eval Witness.flat4 (.and (.and Witness.C Witness.A) Witness.B)).resolve ∧
    (specPair Witness.flat4 (.and Witness.A (.and Witness.B Witness.C))).resolve =
      (specPair Witness.flat4 (.and (.and Witness.C Witness.A) Witness.B)).resolve := by
  rw [Witness.order_model_ABC, Witness.order_model_CAB, Witness.order_spec_ABC, Witness.order_spec_CAB]
  exact ⟨by decide, rfl⟩

/-- The agreeing fragment: a node whose conjuncts (any number, any nesting of `&` and
parentheses, any order) are atoms and flat disjunctions of any width with any marks,
duplicates and failing disjuncts, at most one of the disjunctions marked (`Expr.Flat`).
There the implementation model resolves exactly as the spec does. -/
theorem C04_default_partial (S : Sl V) (h : Laws S) (e : Expr V) (hf : e.Flat = true) :
    (eval S e).resolve = (specPair S e).resolve :=
  default_flat S h e hf

/-- "never a silently chosen value" on the fragment: when the spec says ambiguous, so does
the implementation model. -/
theorem C04_never_silent (S : Sl V) (h : Laws S) (e : Expr V) (hf : e.Flat = true)
    (ha : (specPair S e).resolve = .ambiguous) : (eval S e).resolve = .ambiguous :=
  (default_flat S h e hf).trans ha

-- non-vacuity: `(*1 | 2 | 3 | 2) & (2 | 3)` is in the fragment and ambiguous;
-- `(*1 | 2 | 3) & (1 | 3)` is in the fragment and resolves to its surviving default
example : (Expr.and (.or Witness.A (Witness.a 2)) Witness.C).Flat = true ∧
    (specPair Witness.flat4 (.and (.or Witness.A (Witness.a 2)) Witness.C)).resolve = .ambiguous := by decide
example : (Expr.and Witness.A (.or (Witness.a 1) (Witness.a 3))).Flat = true ∧
    (eval Witness.flat4 (.and Witness.A (.or (Witness.a 1) (Witness.a 3)))).resolve = .value 1 := by decide

/-! ### duplicates and failed disjuncts -/

/-- Adding to a flat disjunction any number of disjuncts each of which duplicates an
existing disjunct (same mark, same expression) or fails (meets to bottom; with or without a
mark, even when the disjunction had no mark before) does not change the outcome. -/
theorem C04_dup_fail (S : Sl V) (h : Laws S) (c1 c2 t : Expr V)
    (hf : (Expr.or (.or c1 c2) t).flatChain = true)
    (ht : ∀ ms ∈ t.termList false, ms ∈ (Expr.or c1 c2).termList false ∨ (specPair S ms.2).v = []) :
    (eval S (.or (.or c1 c2) t)).resolve = (eval S (.or c1 c2)).resolve :=
  dup_fail_flat S h c1 c2 t hf ht

-- non-vacuity: `*1 | 2` extended by the duplicate `*1` and the failing `*(2 & 3)`
example : (eval Witness.flat4 (.or (.or (.mark (Witness.a 1)) (Witness.a 2))
      (.or (.mark (Witness.a 1)) (.mark (.paren (.and (Witness.a 2) (Witness.a 3))))))).resolve = .value 1 := by
  decide

end CueVerif.C04
