/-
C04 — Disjunctions and defaults follow the value/default-pair rules of the spec.

Model: CueVerif/Model/Disj.lean (`eval`: the transcribed default-mode algorithm of
internal/core/adt/disjunct2.go, parametric in the value meet-semilattice `S : Sl V`).
Spec:  CueVerif/Spec/Disj.lean (`specPair`, `resolve`: ⟨v,d⟩ pairs with U0–U2, D0–D2,
M0–M3, written from doc/ref/spec.md).
Only statements live here; proofs are in CueVerif/Proofs/Disj{Values,Default,DupFail,Witness}.lean.
All theorems are for EVERY semilattice `V` satisfying `Laws` and every expression tree of
any width and depth (no bound), unless a hypothesis says otherwise.
-/
import CueVerif.Proofs.DisjValues
import CueVerif.Proofs.DisjDefault
import CueVerif.Proofs.DisjDupFail
import CueVerif.Proofs.DisjWitness
import CueVerif.Proofs.DisjOrder
import CueVerif.Proofs.DisjNested
import CueVerif.Proofs.DisjNested1
import CueVerif.Proofs.DisjNested2
import CueVerif.Proofs.DisjNested4
import CueVerif.Proofs.DisjFinal
namespace CueVerif.C04
open CueVerif CueVerif.Disj

variable {V : Type} [DecidableEq V]

/-! ### values: union over disjuncts distributed over & -/

/-- The set of disjuncts of the implementation model equals the spec's value component
(the union over disjuncts distributed over `&`), for every expression tree — marked or not,
nested or not, well-formed or not. In particular failed (bottom) disjuncts contribute
nothing and the result is bottom exactly when the spec's value is. -/
theorem C04_values (S : Sl V) (h : Laws S) (e : Expr V) (x : V) :
    x ∈ (eval S e).values ↔ x ∈ (specPair S e).v :=
  values_iff S h e x

/-- Duplicate elimination: the model never lists a disjunct value twice. -/
theorem C04_values_nodup (S : Sl V) (e : Expr V) : (eval S e).values.Nodup :=
  values_nodup S e

-- non-vacuity: a nested, marked expression with a failing and a duplicate disjunct
example : (eval Witness.flat4 Witness.w1304).values = [1, 2, 3] := by decide

/-! ### the default -/

/-- The property at full strength: for every well-formed expression whose marks are not
nested inside marked disjunctions, what a use that needs a concrete value sees in the
implementation model is the spec's `resolve` (the unique surviving marked disjunct, else the
unique disjunct, else ambiguous).  FALSE of the transcribed algorithm and of the
implementation alike — see `C04_default_false`. -/
def C04_default_stmt : Prop :=
  ∀ (V : Type) [DecidableEq V] (S : Sl V), Laws S → ∀ e : Expr V,
    e.WF = true → e.NoNestedMarks = true → (eval S e).resolve = (specPair S e).resolve

/-- Witness `(*1|2|3) | (1|*2|3)&2` (a row of the spec's own table, value-default pair
⟨1|2|3, 1|2⟩, i.e. ambiguous): the transcribed algorithm — and the implementation, replayed
by the harness — silently resolves it to `1`. -/
theorem C04_default_false : ¬ C04_default_stmt := fun hstmt =>
  absurd
    ((hstmt (Fin 4) Witness.flat4 Witness.flat4_laws Witness.w1304 Witness.w1304_ok.1 Witness.w1304_ok.2).symm.trans
      Witness.w1304_model)
    (by rw [Witness.w1304_spec_resolve]; decide)

/-- A second, independent way the full statement fails: with two marked disjunctions at one
node the transcribed algorithm depends on the ORDER of the conjuncts
(`A & (B & C)` is ambiguous, `(C & A) & B` resolves to 2, for A = *1|2|3, B = 1|*2|3,
C = 2|3), whereas the spec gives 2 for both. -/
theorem C04_order_dependent :
    (eval Witness.flat4 (.and Witness.A (.and Witness.B Witness.C))).resolve ≠
      (eval Witness.flat4 (.and (.and Witness.C Witness.A) Witness.B)).resolve ∧
    (specPair Witness.flat4 (.and Witness.A (.and Witness.B Witness.C))).resolve =
      (specPair Witness.flat4 (.and (.and Witness.C Witness.A) Witness.B)).resolve := by
  rw [Witness.order_model_ABC, Witness.order_model_CAB, Witness.order_spec_ABC, Witness.order_spec_CAB]
  exact ⟨by decide, rfl⟩

/-- The agreeing fragment: a node whose conjuncts (any number, any nesting of `&` and
parentheses, any order) are atoms and flat disjunctions of any width with any marks,
duplicates and failing disjuncts, at most one of the disjunctions marked (`Expr.Flat`).
There the implementation model resolves exactly as the spec does. -/
theorem C04_default_partial (S : Sl V) (h : Laws S) (e : Expr V) (hf : e.Flat = true) :
    (eval S e).resolve = (specPair S e).resolve :=
  default_flat S h e hf

/-- "never a silently chosen value" on the fragment: when the spec says ambiguous, so does
the implementation model. -/
theorem C04_never_silent (S : Sl V) (h : Laws S) (e : Expr V) (hf : e.Flat = true)
    (ha : (specPair S e).resolve = .ambiguous) : (eval S e).resolve = .ambiguous :=
  (default_flat S h e hf).trans ha

-- non-vacuity: `(*1 | 2 | 3 | 2) & (2 | 3)` is in the fragment and ambiguous;
-- `(*1 | 2 | 3) & (1 | 3)` is in the fragment and resolves to its surviving default
example : (Expr.and (.or Witness.A (Witness.a 2)) Witness.C).Flat = true ∧
    (specPair Witness.flat4 (.and (.or Witness.A (Witness.a 2)) Witness.C)).resolve = .ambiguous := by decide
example : (Expr.and Witness.A (.or (Witness.a 1) (Witness.a 3))).Flat = true ∧
    (eval Witness.flat4 (.and Witness.A (.or (Witness.a 1) (Witness.a 3)))).resolve = .value 1 := by decide

/-! ### beyond the flat fragment: arbitrary nesting of unmarked disjunctions -/

/-- For EVERY expression tree without marks — any nesting depth of `|` under `&` under `|` …,
any widths, duplicates, failing disjuncts; i.e. every path through the nested-disjunction
(unroll) arm of `crossProduct`, the single-survivor collapse of `doDisjunct` and the
`hasNonMaybe` demotion — the transcribed algorithm resolves exactly as the spec's pair
(rules U0, D0: no default; the unique disjunct, else ambiguous). -/
theorem C04_default_unmarked (S : Sl V) (h : Laws S) (e : Expr V) (hm : e.hasAnyMark = false) :
    (eval S e).resolve = (specPair S e).resolve :=
  default_unmarked S h e hm

/-- … and it never reports a default there (`NumDefaults = 0`): all modes stay
`maybeDefault`, the `hasNonMaybe` demotion never fires. -/
theorem C04_no_default_unmarked (S : Sl V) (e : Expr V) (hm : e.hasAnyMark = false) :
    (eval S e).defaults = [] :=
  defaults_unmarked S e hm

-- non-vacuity: `(1 | (2 | 3) & (3 | 2)) & ((2 | 3) | 1)`, nested two levels, not flat
example : (Expr.and (.or (Witness.a 1) (.and (.paren Witness.C) (.paren (.or (Witness.a 3) (Witness.a 2)))))
      (.or (.paren Witness.C) (Witness.a 1))).hasAnyMark = false ∧
    (Expr.and (.or (Witness.a 1) (.and (.paren Witness.C) (.paren (.or (Witness.a 3) (Witness.a 2)))))
      (.or (.paren Witness.C) (Witness.a 1))).Flat = false ∧
    (eval Witness.flat4 (Expr.and (.or (Witness.a 1) (.and (.paren Witness.C) (.paren (.or (Witness.a 3) (Witness.a 2)))))
      (.or (.paren Witness.C) (Witness.a 1)))).values = [1, 2, 3] := by decide

/-- UNMARKED DISJUNCTIONS NESTED UNDER A MARKED ONE: for a disjunction `t1 | … | tn` (any
width, any subset of the terms `*`-marked) whose terms are, below their own mark, mark-free
expressions of ARBITRARY nesting (`Expr.NestedChain`, e.g. `*(1 | 2) | 3 | (2 | (4 | 5) & (5 | 4))`),
the transcribed algorithm computes the spec's pair (D0–D2, M0–M3: the default set is the union
of the values of the marked terms) and resolves as the spec.  Both arms of `crossProduct`'s
second loop are covered: the leaf arm (`combineDefault2(…, leftDrops, rightDrops)`) and the
unroll arm with its `false` of Issue #1304 — they agree here because `rightDropsDefault` is
false whenever a marked term survives. -/
theorem C04_default_nested (S : Sl V) (h : Laws S) (e : Expr V) (hf : e.NestedChain = true) :
    (eval S e).resolve = (specPair S e).resolve :=
  default_nestedChain S h e hf

-- non-vacuity: `*(1 | 2) | 3 | (2 | 3) & (3 | 2)` is in the fragment, not flat, and keeps both
-- values of its marked nested term as defaults (ambiguous, as the spec's ⟨1|2|3, 1|2⟩)
example : (Expr.or (.or (.mark (.paren (.or (Witness.a 1) (Witness.a 2)))) (Witness.a 3))
      (.and (.paren Witness.C) (.paren (.or (Witness.a 3) (Witness.a 2))))).NestedChain = true ∧
    (eval Witness.flat4 (Expr.or (.or (.mark (.paren (.or (Witness.a 1) (Witness.a 2)))) (Witness.a 3))
      (.and (.paren Witness.C) (.paren (.or (Witness.a 3) (Witness.a 2)))))).defaults = [1, 2] ∧
    (specPair Witness.flat4 (Expr.or (.or (.mark (.paren (.or (Witness.a 1) (Witness.a 2)))) (Witness.a 3))
      (.and (.paren Witness.C) (.paren (.or (Witness.a 3) (Witness.a 2)))))) = { v := [1, 2, 3], d := [1, 2] } := by
  decide

/-- … and unified with any number of atoms, in any order / bracketing / parenthesisation
(`Expr.NestedSingle`: `int & (*(1 | 2) | "a" | (3 | (4 | 5)))`): rules U0/U1 including the
clause "if all the marked disjuncts of a marked disjunction are eliminated, the remaining
unmarked disjuncts are considered as if they originated from an unmarked disjunction". -/
theorem C04_default_nested_scalars (S : Sl V) (h : Laws S) (e : Expr V)
    (hf : e.NestedSingle = true) : (eval S e).resolve = (specPair S e).resolve :=
  default_nestedSingle S h e hf

-- non-vacuity: `2 & (*(1 | 3) | (2 | 3))`: the marked nested term is eliminated by the atom,
-- the unmarked nested one survives with one value: resolves to 2 without a default
example : (Expr.and (Witness.a 2) (.or (.mark (.paren (.or (Witness.a 1) (Witness.a 3)))) (.paren Witness.C))).NestedSingle = true ∧
    (eval Witness.flat4 (Expr.and (Witness.a 2) (.or (.mark (.paren (.or (Witness.a 1) (Witness.a 3)))) (.paren Witness.C)))).resolve = .value 2 := by
  decide

/-- A node whose earlier conjuncts are mark-free expressions of ANY shape (atoms, unmarked
disjunctions, nested ones, any number) and whose last conjunct is a (marked) disjunction with
arbitrarily nested mark-free terms (`Expr.PreNested`, e.g.
`int & (1 | (2 | 3)) & (*(1 | 2) | 3 | (2 | (3 | 4)))`): resolves as the spec.  Uses
`chain_sets_cross`: the marked nested disjunction evaluated against ANY list of partial
disjuncts without default (`leftDropsDefault` stays true, dedup across operands). -/
theorem C04_default_pre_nested (S : Sl V) (h : Laws S) (e : Expr V) (hf : e.PreNested = true) :
    (eval S e).resolve = (specPair S e).resolve :=
  default_preNested S h e hf

-- non-vacuity: `(2 | (3 | 1)) & (*(1 | 2) | 3)`: prefix nested and unmarked, two defaults survive
example : (Expr.and (.or (Witness.a 2) (.paren (.or (Witness.a 3) (Witness.a 1))))
      (.paren (.or (.mark (.paren (.or (Witness.a 1) (Witness.a 2)))) (Witness.a 3)))).PreNested = true ∧
    (eval Witness.flat4 (Expr.and (.or (Witness.a 2) (.paren (.or (Witness.a 3) (Witness.a 1))))
      (.paren (.or (.mark (.paren (.or (Witness.a 1) (Witness.a 2)))) (Witness.a 3))))).defaults = [2, 1] := by
  decide

/-- OPEN (believed true, not refuted by 10^6 generated cases): the general one-marked nested
statement — any number of atoms and of disjunctions with mark-free nested terms among the
conjuncts of the node, IN ANY ORDER, at most one of the disjunctions marked.  Proved so far:
no marked one (`C04_default_unmarked`), flat terms (`C04_default_partial`), the marked one
alone with atoms (`C04_default_nested_scalars`), the marked one LAST (`C04_default_pre_nested`).
Missing: mark-free disjunction conjuncts AFTER the marked nested one.  Invariant to carry
through such a conjunct `e` (mark-free, any depth) for a cross list `c` with
`NoStale c` (odm = isDefault → dm = isDefault):
  `valsP (conj c) = mt (valsP c) V(e)` and `defsP (conj c) = mt (defsP c) V(e)`,
i.e. isDefault-ness is inherited per source disjunct: under a left operand `p` every nested
leaf has mode `f p.dm` with `f isDefault = isDefault`, `f _ = maybeDefault` (nested
`leftDrops = (p.dm ≠ isDefault)`), the leaf arm yields `cd2(f p.dm, maybe, ld, true)`, the
unroll arm `cd2(p.dm, f p.dm, ld, false) = (ld ? f p.dm : p.dm)`, both isDefault iff
`p.dm = isDefault` (`ld` is false whenever an isDefault `p` survives); the non-default leaves
may be `maybe` or `notDefault` (the `hasNonMaybe` demotion), which no later step of this
fragment distinguishes because no second marked disjunction follows. -/
def C04_default_nested_conj_stmt : Prop :=   -- OPEN
  ∀ (V : Type) [DecidableEq V] (S : Sl V), Laws S → ∀ e : Expr V,
    e.nestedConj = true → e.markedChains ≤ 1 → (eval S e).resolve = (specPair S e).resolve

/-! ### order independence of `d1 & d2 & … & dn` (also serves C01)

`Expr.Reorder e e'` (Spec/DisjOrder.lean): `e'` unifies the same conjuncts as `e`, permuted,
re-associated, re-parenthesised.  `C04_reorder_of_perm`: every permutation of the conjunct
list is one. -/

/-- every permutation `l'` of the conjunct list `l` gives a `Reorder` of `d1 & (d2 & …)` -/
theorem C04_reorder_of_perm (top : V) {l l' : List (Expr V)} (hp : l.Perm l') :
    Expr.Reorder (andList top l) (andList top l') :=
  reorder_of_perm top hp

/-- The VALUE SET of the transcribed algorithm is invariant under permutation and
re-association of the conjuncts — for every expression tree (marks, nesting included). -/
theorem C04_values_order (S : Sl V) (h : Laws S) {e e' : Expr V} (hr : Expr.Reorder e e') (x : V) :
    x ∈ (eval S e).values ↔ x ∈ (eval S e').values :=
  values_reorder S h hr x

/-- The DEFAULT SET of the transcribed algorithm (the disjuncts `Default()` returns) is
invariant under permutation and re-association of the conjuncts on the fragment `Flat`
(any number of atoms and flat disjunctions, at most one marked).  The restriction is sharp:
with two marked disjunctions `C04_order_dependent` exhibits a dependence. -/
theorem C04_defaults_order (S : Sl V) (h : Laws S) {e e' : Expr V} (hr : Expr.Reorder e e')
    (hf : e.Flat = true) (x : V) :
    x ∈ (eval S e).defaultSet ↔ x ∈ (eval S e').defaultSet :=
  defaultSet_reorder S h hr hf x

/-- … and so is what a use that needs a concrete value sees. -/
theorem C04_resolve_order (S : Sl V) (h : Laws S) {e e' : Expr V} (hr : Expr.Reorder e e')
    (hf : e.Flat = true) : (eval S e).resolve = (eval S e').resolve :=
  resolve_reorder S h hr hf

-- non-vacuity: `A & (2 & C)` and `(C & A) & 2` (A = *1|2|3, C = 2|3) are related, in the
-- fragment, and have the non-trivial default set {2}
example : Expr.Reorder (Expr.and Witness.A (.and (Witness.a 2) Witness.C))
    (.and (.and Witness.C Witness.A) (Witness.a 2)) :=
  .trans (.cong (.refl _) (.comm _ _)) (.trans (.symm (.assoc _ _ _)) (.cong (.comm _ _) (.refl _)))
example : (Expr.and Witness.A (.and (Witness.a 2) Witness.C)).Flat = true ∧
    (eval Witness.flat4 (.and Witness.A (.and (Witness.a 2) Witness.C))).defaultSet = [2] := by decide

/-! ### `finalizeDisjunctions`: the emitted `Disjunction` (Model/DisjFinal.lean transcribes the
swap loop; the harness op `order` compares `Values` element by element, in order) -/

/-- `Disjunction.Values[:NumDefaults]` are exactly the isDefault disjuncts, in their order -/
theorem C04_finalize_defaults (ds : List (Leaf V)) :
    (finalizeDisjunctions ds).1.take (finalizeDisjunctions ds).2 =
      (ds.filter (·.dm = .isDef)).map (·.v) :=
  finalize_defaults ds

/-- `NumDefaults` counts exactly the isDefault disjuncts -/
theorem C04_finalize_numDefaults (ds : List (Leaf V)) :
    (finalizeDisjunctions ds).2 = (ds.filter (·.dm = .isDef)).length :=
  finalize_numDefaults ds

/-- the swap loop loses and duplicates nothing: `Values` is a permutation of the disjuncts -/
theorem C04_finalize_perm (ds : List (Leaf V)) :
    (finalizeDisjunctions ds).1.Perm (ds.map (·.v)) :=
  finalize_perm ds

-- non-vacuity: `1 | 2 | *3 | 0`-like list [n, n, D, n]: the default comes first, the
-- non-defaults are rotated (NOT a stable partition), NumDefaults = 1
example : finalizeDisjunctions ([⟨1, .notDef, .notDef⟩, ⟨2, .notDef, .notDef⟩, ⟨3, .isDef, .isDef⟩,
    ⟨0, .notDef, .notDef⟩] : List (Leaf (Fin 4))) = ([3, 2, 1, 0], 1) := by decide

/-! ### duplicates and failed disjuncts -/

/-- Adding to a flat disjunction any number of disjuncts each of which duplicates an
existing disjunct (same mark, same expression) or fails (meets to bottom; with or without a
mark, even when the disjunction had no mark before) does not change the outcome. -/
theorem C04_dup_fail (S : Sl V) (h : Laws S) (c1 c2 t : Expr V)
    (hf : (Expr.or (.or c1 c2) t).flatChain = true)
    (ht : ∀ ms ∈ t.termList false, ms ∈ (Expr.or c1 c2).termList false ∨ (specPair S ms.2).v = []) :
    (eval S (.or (.or c1 c2) t)).resolve = (eval S (.or c1 c2)).resolve :=
  dup_fail_flat S h c1 c2 t hf ht

-- non-vacuity: `*1 | 2` extended by the duplicate `*1` and the failing `*(2 & 3)`
example : (eval Witness.flat4 (.or (.or (.mark (Witness.a 1)) (Witness.a 2))
      (.or (.mark (Witness.a 1)) (.mark (.paren (.and (Witness.a 2) (Witness.a 3))))))).resolve = .value 1 := by
  decide

end CueVerif.C04
