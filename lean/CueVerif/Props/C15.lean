/-
C15 — Module archives round-trip and can never write outside their directory.

Only statements live here; the proofs are in CueVerif/Proofs/Modzip*.lean.
`Uni` (unicode.IsLetter and case folding on non-ASCII runes) is universally quantified in
every theorem: nothing depends on the Unicode tables.  Archives are arbitrary lists of
entries with arbitrary reader behaviour (`ZEnt`), file systems arbitrary finite maps.
-/
import CueVerif.Proofs.ModzipPath
import CueVerif.Proofs.ModzipColl
import CueVerif.Proofs.ModzipSizes
import CueVerif.Proofs.ModzipUnzip
import CueVerif.Proofs.ModzipExtract
import CueVerif.Proofs.ModzipEscape
import CueVerif.Proofs.ModzipCreate
import CueVerif.Proofs.ModzipAgree
import CueVerif.Proofs.ModzipTotal
import CueVerif.Proofs.ModzipDir
import CueVerif.Proofs.ModzipEsc
import CueVerif.Proofs.ModzipJoin
namespace CueVerif.C15
open CueVerif CueVerif.Modzip

/-! ### names -/

/-- A name accepted by module.CheckFilePath can never leave the directory it is joined to:
it is a non-empty list of elements none of which is empty, "." or "..", it contains no
backslash, colon or NUL byte, and filepath.Join(dir, name) is `dir` followed by exactly those
elements — strictly beneath `dir`, for every `dir`. -/
theorem C15_confined (U : Uni) (p : Str) (h : checkFilePath U p = none) :
    SafeName p ∧ ∀ dir : Path, fjoin dir p = dir ++ splitOn 47 p ∧ StrictUnder dir (fjoin dir p) :=
  ⟨checkFilePath_safe U p h, fun dir => fjoin_of_safe dir p (checkFilePath_safe U p h)⟩

/-- ... and it is relative, has no trailing slash and is its own path.Clean. -/
theorem C15_accepted_clean (U : Uni) (p : Str) (h : checkFilePath U p = none) :
    pathClean p = p ∧ isAbs p = false ∧ p.getLast? ≠ some 47 :=
  checkFilePath_clean U p h

-- non-vacuity: a unicode name with spaces and punctuation is accepted; hostile ones are not
example : checkFilePath ⟨fun r => r == 233, id⟩ [99,117,101,46,109,111,100,47,195,169,32,40,49,41,46,99,117,101] = none := by decide
example : checkFilePath ⟨fun _ => false, id⟩ [46,46,47,120] = some .dots := by decide
example : checkFilePath ⟨fun _ => false, id⟩ [97,92,46,46,92,120] = some .invalidChar := by decide

/-- Confinement at byte level, for the join Unzip performs (`filepath.Join(dir, name)` after
CheckFilePath): for a clean absolute `dir` = `/d1/…/dn` and an accepted `name` the result is
literally `dir ++ "/" ++ name` — Clean removes nothing and resolves no `..` — its elements are
those of `dir` followed by those of `name` (the `fjoin` of `C15_confined`), and every element
of `name` obeys the Windows rules the code applies on every OS (`WinSafeElem`: not empty, not
dots only, no trailing dot, none of the bytes `\ / : * ? " < > |`, quotes, `;`, backquote, DEL
or control characters — hence no drive letter, UNC prefix or alternate data stream — and the
part before the first dot is no reserved device name in any case). -/
theorem C15_confined_bytes (U : Uni) (ds : List Str) (hds : ds ≠ [])
    (hd : ∀ e ∈ ds, e ≠ [] ∧ e ≠ sDot ∧ e ≠ sDotDot ∧ 47 ∉ e)
    (p : Str) (hp : checkFilePath U p = none) :
    fpJoin (47 :: joinSlash ds) p = (47 :: joinSlash ds) ++ 47 :: p ∧
    splitOn 47 (fpJoin (47 :: joinSlash ds) p) = [] :: fjoin ds p ∧
    ∀ e ∈ splitOn 47 p, WinSafeElem U e :=
  ⟨(fpJoin_accepted U ds hds hd p hp).1, (fpJoin_accepted U ds hds hd p hp).2,
   checkFilePath_winSafe U p hp⟩

example : fpJoin [47,84] [99,117,101,46,109,111,100,47,120] = [47,84,47,99,117,101,46,109,111,100,47,120] := by decide
-- what Join would do to a hostile name (a test): `..` climbs out — such names never reach Join
example : fpJoin [47,84] [46,46,47,120] = [47,120] := by decide

/-- What the Windows rules of the code do NOT give: an element may end in a space (`.. `,
`a `, `CON .txt` are accepted; only a trailing DOT is rejected).  Replayed on the implementation
by the harness; outside the C15 statement (not observable on this host), for maintainers. -/
def C15_no_trailing_space_stmt : Prop :=
  ∀ (U : Uni) (p : Str), checkFilePath U p = none → ∀ e ∈ splitOn 47 p, e.getLast? ≠ some 32

theorem C15_no_trailing_space_false : ¬ C15_no_trailing_space_stmt := by
  intro h
  have := h ⟨fun _ => false, id⟩ [46,46,32] (by decide) [46,46,32] (by decide)
  revert this
  decide

/-! ### extraction: ANY archive, ANY outcome -/

/-- For every archive whatsoever (hostile names, forged sizes, readers that fail or deliver
too much, write failures), every target directory and every prior file system: whatever
Unzip returns, and wherever it stopped, the file system afterwards differs from the one
before only by nodes that did not exist before and lie strictly beneath the target, plus
missing directories at or above the target itself.  Nothing that existed is replaced or
removed; no regular file appears anywhere but strictly beneath the target. -/
theorem C15_unzip_safe (U : Uni) (fs : FS) (dir : Path) (zipSize : Nat) (z : List ZEnt) :
    Confined dir fs (unzip U fs dir zipSize z).1 :=
  unzip_confined U fs dir zipSize z

/-- An archive that CheckZip rejects is not extracted at all: the file system is unchanged. -/
theorem C15_unzip_rejected (U : Uni) (fs : FS) (dir : Path) (zipSize : Nat) (z : List ZEnt)
    (h : (checkZip U zipSize z).isErr = true) : unzip U fs dir zipSize z = (fs, false) :=
  unzip_rejected U fs dir zipSize z h

/-- Every regular file that Unzip brought into being belongs to a file entry of the archive,
sits at that entry's name beneath the target, holds a prefix of what the entry's reader
delivers, never more than declared+1 bytes (the LimitedReader bound, unconditional), never
more than declared when the container keeps its contract (no reader yields more than
UncompressedSize64 bytes), and when Unzip succeeds exactly the entry's data, of at most the
declared size. -/
theorem C15_unzip_sizes (U : Uni) (fs : FS) (dir : Path) (zipSize : Nat) (z : List ZEnt)
    (h64 : ∀ e ∈ z, e.declared < 2 ^ 64) :
    ∀ q c, fs.get q = none → (unzip U fs dir zipSize z).1.get q = some (.file c) →
      ∃ e ∈ z, skipEntry e = false ∧ q = dir ++ splitOn 47 e.name ∧ splitOn 47 e.name ≠ [] ∧
        c <+: e.data ∧ c.length ≤ e.declared + 1 ∧
        (e.data.length ≤ e.declared → c.length ≤ e.declared) ∧
        ((unzip U fs dir zipSize z).2 = true → c = e.data ∧ c.length ≤ e.declared) :=
  unzip_sizes U fs dir zipSize z h64

-- non-vacuity / sample (a test, not the property): a hostile archive is refused and writes
-- nothing; an entry whose stream is longer than declared stops at declared+1 bytes
example : unzip ⟨fun _ => false, id⟩ [] [[84]] 100
    [{ name := sCueModModule, declared := 1, data := [1] }, { name := [46,46,47,120], declared := 1, data := [1] }]
    = ([], false) := by decide
example : (unzip ⟨fun _ => false, id⟩ [] [[84]] 100
    [{ name := sCueModModule, declared := 1, data := [1,2,3,4] }]).1.get [[84],sCueMod,sModuleCue]
    = some (.file [1,2]) := by decide

/-- **The byte budget of an extraction, as one statement.**  For every archive whatsoever
(forged declared sizes, readers that fail or deliver too much, write failures), every target,
every prior file system and every outcome of Unzip:
* over any set `qs` of distinct paths that did not exist before, the regular files found there
  afterwards hold in total at most MaxZipFile + |qs| bytes (the LimitedReader cuts every entry
  at declared+1 bytes and CheckZip bounds the sum of the declared sizes), and at most
  MaxZipFile bytes when Unzip succeeded or no reader yields more than its declared size (the
  container contract of archive/zip);
* a `cue.mod/module.cue` created beneath the target holds at most MaxCUEMod+1 bytes, at most
  MaxCUEMod under the same condition; a `LICENSE` likewise with MaxLICENSE. -/
theorem C15_unzip_budget (U : Uni) (fs : FS) (dir : Path) (zipSize : Nat) (z : List ZEnt)
    (h64 : ∀ e ∈ z, e.declared < 2 ^ 64) :
    let r := unzip U fs dir zipSize z
    let fine := r.2 = true ∨ (∀ e ∈ z, e.data.length ≤ e.declared)
    (∀ qs : List Path, qs.Nodup → (∀ q ∈ qs, fs.get q = none) →
      r.1.bytesAt qs ≤ maxZipFile + qs.length ∧ (fine → r.1.bytesAt qs ≤ maxZipFile)) ∧
    (∀ c, fs.get (dir ++ [sCueMod, sModuleCue]) = none →
      r.1.get (dir ++ [sCueMod, sModuleCue]) = some (.file c) →
      c.length ≤ maxCUEMod + 1 ∧ (fine → c.length ≤ maxCUEMod)) ∧
    (∀ c, fs.get (dir ++ [sLICENSE]) = none → r.1.get (dir ++ [sLICENSE]) = some (.file c) →
      c.length ≤ maxLICENSE + 1 ∧ (fine → c.length ≤ maxLICENSE)) :=
  ⟨fun qs hnd hnew => unzip_total U fs dir zipSize z h64 qs hnd hnew,
   fun c hq hc => unzip_special U fs dir zipSize z h64 sCueModModule maxCUEMod
     (Or.inl ⟨rfl, rfl⟩) c hq hc,
   fun c hq hc => unzip_special U fs dir zipSize z h64 sLICENSE maxLICENSE
     (Or.inr ⟨rfl, rfl⟩) c hq hc⟩

-- non-vacuity / sample (a test): a forged header (declared 1, stream of 4 bytes) leaves
-- declared+1 = 2 bytes behind and Unzip fails
example : (unzip ⟨fun _ => false, id⟩ [] [[84]] 100
    [{ name := sCueModModule, declared := 1, data := [1,2,3,4] }]).1.bytesAt
      [[[84], sCueMod, sModuleCue]] = 2 := by decide

/-! ### collisions and sizes -/

/-- The names CheckZip reports valid are pairwise distinct under case folding and none is,
under case folding, a directory another lies in. -/
theorem C15_no_collision_zip (U : Uni) (zipSize : Nat) (z : List ZEnt) :
    CollisionFree U (checkZip U zipSize z).valid :=
  checkZip_collisionFree U zipSize z

/-- The same for the file-list / directory check (checkFiles is the core of CheckFiles,
CheckDir and Create). -/
theorem C15_no_collision_files (U : Uni) (files : List FEnt) :
    CollisionFree U (checkFiles U files).1.valid :=
  checkFiles_collisionFree U files

/-- When CheckZip reports no error: the zip is within MaxZipFile, every entry name passed
CheckFilePath, the declared sizes of the file entries add up to at most MaxZipFile,
cue.mod/module.cue is at most MaxCUEMod and LICENSE at most MaxLICENSE, no entry is
cue.mod/local-module.cue, and the valid list is exactly the file entries' names. -/
theorem C15_sizes_zip (U : Uni) (zipSize : Nat) (z : List ZEnt)
    (h64 : ∀ e ∈ z, isDirName e.name = false → e.declared < 2 ^ 64)
    (h : (checkZip U zipSize z).isErr = false) :
    zipSize ≤ maxZipFile ∧
    (∀ e ∈ z, checkFilePath U (if isDirName e.name then e.name.dropLast else e.name) = none) ∧
    declaredTotal z ≤ maxZipFile ∧
    (∀ e ∈ z, isDirName e.name = false → e.name = sCueModModule → e.declared ≤ maxCUEMod) ∧
    (∀ e ∈ z, isDirName e.name = false → e.name = sLICENSE → e.declared ≤ maxLICENSE) ∧
    (∀ e ∈ z, e.name ≠ sLocalModule) ∧
    (checkZip U zipSize z).valid = (z.filter (fun e => !isDirName e.name)).map (·.name) :=
  checkZip_ok U zipSize z h64 h

/-- The same accounting for the file list: when the report has no error the valid entries are
regular files with checked names and non-negative sizes adding up to at most MaxZipFile,
cue.mod/module.cue is among them and at most MaxCUEMod, LICENSE at most MaxLICENSE, and
neither cue.mod/local-module.cue nor a vendored file is ever valid. -/
theorem C15_sizes_files (U : Uni) (files : List FEnt)
    (h : (checkFiles U files).1.isErr = false) :
    let r := checkFiles U files
    r.1.valid = r.2.map (·.path) ∧
    (∀ f ∈ r.2, f ∈ files ∧ f.kind = .regular ∧ 0 ≤ f.size ∧ checkFilePath U f.path = none) ∧
    ((r.2.map (·.size)).foldl (· + ·) 0 ≤ (maxZipFile : Int)) ∧
    sCueModModule ∈ r.1.valid ∧
    (∀ f ∈ r.2, f.path = sCueModModule → f.size ≤ maxCUEMod) ∧
    (∀ f ∈ r.2, f.path = sLICENSE → f.size ≤ maxLICENSE) ∧
    (∀ f ∈ r.2, f.path ≠ sLocalModule ∧ isVendoredPackage f.path = false) :=
  checkFiles_ok U files h

-- non-vacuity: a two-file module is accepted by both checks
example : (checkZip ⟨fun _ => false, id⟩ 100
    [{ name := sCueModModule, declared := 5 }, { name := [97,47,98], declared := 7 }]).isErr = false := by decide
example : (checkFiles ⟨fun _ => false, id⟩
    [⟨sCueModModule, .regular, 5⟩, ⟨[97,47,98], .regular, 7⟩]).1.isErr = false := by decide
-- sample (a test): case collision through U+212A KELVIN SIGN folding to 'k' is caught
example : (checkZip ⟨fun r => r == 8490, fun r => if r == 8490 then 107 else r⟩ 100
    [{ name := sCueModModule, declared := 5 }, { name := [107], declared := 1 }, { name := [226,132,170], declared := 1 }]).invalid
    = [([226,132,170], .collCase)] := by decide

/-! ### extraction of an intact archive is exact -/

/-- An archive that passes CheckZip and whose entries are intact (`Honest`: the reader delivers
exactly the declared number of bytes, no I/O error) extracts into a fresh target successfully,
and afterwards the regular files strictly beneath the target are exactly the archive's file
entries, each with exactly its data — nothing missing, nothing extra, nothing truncated. -/
theorem C15_extract_exact (U : Uni) (fs : FS) (dir : Path) (zipSize : Nat) (z : List ZEnt)
    (hck : (checkZip U zipSize z).isErr = false)
    (hh : ∀ e ∈ z, skipEntry e = false → Honest e)
    (hfresh : FreshTarget fs dir) :
    (unzip U fs dir zipSize z).2 = true ∧
    ∀ rel c, rel ≠ [] →
      ((unzip U fs dir zipSize z).1.get (dir ++ rel) = some (.file c) ↔
        ∃ e ∈ z, skipEntry e = false ∧ rel = splitOn 47 e.name ∧ c = e.data) :=
  unzip_honest U fs dir zipSize z hck hh hfresh

-- non-vacuity: the hypotheses hold for a two-file module and an empty file system
example : (unzip ⟨fun _ => false, id⟩ [] [[84]] 100
    [{ name := sCueModModule, declared := 2, data := [1,2] }, { name := [97,47,98], declared := 1, data := [7] }]).2 = true := by decide

/-! ### round trip -/

/-- Creating a module zip from any file set that Create accepts and extracting it into a fresh
target reproduces exactly the valid files with identical content, and the archive passes the
archive check with the same valid list: `z` is what Create wrote (one intact entry per valid
file, named by its path, holding its content), CheckZip reports no error and the same valid
names, Unzip succeeds, and the regular files beneath the target are exactly the entries of
`z` — i.e. exactly the valid source files — with exactly their content.
(`zipSize ≤ MaxZipFile`: the compressed size of the archive is a property of the container.) -/
theorem C15_roundtrip (U : Uni) (files : List SrcFile) (z : List ZEnt) (zipSize : Nat)
    (fs : FS) (dir : Path)
    (hc : create U files = some z) (hz : zipSize ≤ maxZipFile) (hfresh : FreshTarget fs dir) :
    (checkZip U zipSize z).isErr = false ∧
    (checkZip U zipSize z).valid = (checkFiles U (files.map (·.ent))).1.valid ∧
    z.map (·.name) = (checkFiles U (files.map (·.ent))).1.valid ∧
    (∀ e ∈ z, ∃ s ∈ files, s.ent ∈ (checkFiles U (files.map (·.ent))).2 ∧
        e.name = s.ent.path ∧ e.data = s.content) ∧
    (unzip U fs dir zipSize z).2 = true ∧
    ∀ rel c, rel ≠ [] →
      ((unzip U fs dir zipSize z).1.get (dir ++ rel) = some (.file c) ↔
        ∃ e ∈ z, rel = splitOn 47 e.name ∧ c = e.data) := by
  obtain ⟨h1, h2, h3, h4, h5⟩ := create_passes_checkZip U files z zipSize hc hz
  obtain ⟨h6, h7⟩ := unzip_honest U fs dir zipSize z h1 (fun e he _ => (h4 e he).2) hfresh
  refine ⟨h1, h2, h3, h5, h6, ?_⟩
  intro rel c hrel
  rw [h7 rel c hrel]
  constructor
  · rintro ⟨e, he, -, h⟩; exact ⟨e, he, h⟩
  · rintro ⟨e, he, h⟩; exact ⟨e, he, (h4 e he).1, h⟩

/-- The part of "the three ways of checking agree" that the property needs: whatever the
file-list check (the core of CheckFiles, CheckDir and Create) accepts, the zip check accepts
as an archive, with the same valid names. -/
theorem C15_three_agree_partial (U : Uni) (files : List SrcFile) (z : List ZEnt) (zipSize : Nat)
    (hc : create U files = some z) (hz : zipSize ≤ maxZipFile) :
    (checkZip U zipSize z).isErr = false ∧
    (checkZip U zipSize z).valid = (checkFiles U (files.map (·.ent))).1.valid :=
  ⟨(create_passes_checkZip U files z zipSize hc hz).1, (create_passes_checkZip U files z zipSize hc hz).2.1⟩

/-- The converse (was an OPEN statement): an archive that CheckZip accepts and that has no
directory entries, vendored names or `.hg_archival.txt` — the three kinds of entry the entry
points treat differently by design — is accepted as a list of regular files of the declared
sizes by the file-list check (core of CheckFiles, CheckDir and Create): no error, the same
valid names in the same order (= all entry names), nothing omitted, nothing invalid.
(The three entry points do NOT reject the same files in general: the list check *omits*
vendored, `.hg_archival.txt`, local-module and nested-module files which the zip check
accepts resp. rejects; see notes/C15.md.) -/
theorem C15_three_agree (U : Uni) (zipSize : Nat) (z : List ZEnt)
    (h : (checkZip U zipSize z).isErr = false)
    (hpl : ∀ e ∈ z, isDirName e.name = false ∧ e.declared < 2 ^ 63 ∧
      isVendoredPackage e.name = false ∧ e.name ≠ sHgArchival) :
    let r := checkFiles U (z.map fun e => ⟨e.name, .regular, e.declared⟩)
    r.1.isErr = false ∧ r.1.valid = (checkZip U zipSize z).valid ∧
    r.1.valid = z.map (·.name) ∧ r.1.omitted = [] ∧ r.1.invalid = [] :=
  checkZip_to_checkFiles U zipSize z h hpl

-- non-vacuity: a three-file archive satisfies the hypotheses
example : (checkZip ⟨fun _ => false, id⟩ 100
    [{ name := sCueModModule, declared := 5 }, { name := [97,47,98], declared := 7 },
     { name := sLICENSE, declared := 9 }]).isErr = false := by decide
-- the excluded kinds are exactly where the entry points differ (samples, tests):
-- a directory entry `cue.mod/module.cue/` satisfies CheckZip's "module file present"
example : (checkZip ⟨fun _ => false, id⟩ 100
    [{ name := sCueModModule ++ [47], declared := 0 }]).isErr = false := by decide
example : (checkFiles ⟨fun _ => false, id⟩ [⟨sCueModModule, .dir, 0⟩]).1.isErr = true := by decide

-- non-vacuity of the round trip: Create accepts a two-file module
example : (create ⟨fun _ => false, id⟩
    [⟨⟨[97,47,98], .regular, 1⟩, [7]⟩, ⟨⟨sCueModModule, .regular, 2⟩, [1,2]⟩]).isSome = true := by decide

/-! ### Create with its sort, the directory walk -/

/-- The comparator Create hands to slices.SortFunc counts the separators of `ap` twice, so it
is the plain lexical order of the paths (as transcribed; documented, not a C15 violation). -/
theorem C15_create_cmp_lexical (ap bp : Str) :
    createCmp ap bp = if strLt ap bp then -1 else if strLt bp ap then 1 else 0 :=
  createCmp_eq ap bp

/-- Create as a whole (clone, sort, check, write), for ALL file lists: it succeeds exactly
when the file-list check accepts the sorted list and no valid file delivers more bytes than
Lstat declared; and whenever it succeeds the archive passes CheckZip with the same valid list,
has one intact entry per valid file of the INPUT list (name = path, data = content), extracts
successfully into a fresh target, and the regular files beneath the target are exactly those
entries with exactly their data.  (`sortFiles` is one sort by the comparator; since
slices.SortFunc is not stable the statement is also available for every other ordering:
`C15_roundtrip` quantifies over the list as handed to checkFiles.) -/
theorem C15_create_full (U : Uni) (files : List SrcFile) :
    ((createFull U files).isSome = true ↔
      ((checkFiles U ((sortFiles files).map (·.ent))).1.isErr = false ∧
       ∀ e ∈ (checkFiles U ((sortFiles files).map (·.ent))).2,
         (srcOf (sortFiles files) e).length ≤ e.size.toNat)) ∧
    ∀ (z : List ZEnt) (zipSize : Nat) (fs : FS) (dir : Path),
      createFull U files = some z → zipSize ≤ maxZipFile → FreshTarget fs dir →
      (checkZip U zipSize z).isErr = false ∧
      (checkZip U zipSize z).valid = (checkFiles U ((sortFiles files).map (·.ent))).1.valid ∧
      (∀ e ∈ z, ∃ s ∈ files, e.name = s.ent.path ∧ e.data = s.content) ∧
      (unzip U fs dir zipSize z).2 = true ∧
      ∀ rel c, rel ≠ [] →
        ((unzip U fs dir zipSize z).1.get (dir ++ rel) = some (.file c) ↔
          ∃ e ∈ z, rel = splitOn 47 e.name ∧ c = e.data) := by
  refine ⟨createFull_iff U files, ?_⟩
  intro z zipSize fs dir hc hz hfresh
  obtain ⟨h1, h2, -, h4, h5, h6⟩ := C15_roundtrip U (sortFiles files) z zipSize fs dir hc hz hfresh
  refine ⟨h1, h2, ?_, h5, h6⟩
  intro e he
  obtain ⟨s, hs, -, hn, hd⟩ := h4 e he
  exact ⟨s, (mem_sortFiles files s).mp hs, hn, hd⟩

example : (createFull ⟨fun _ => false, id⟩
    [⟨⟨[120,47,98], .regular, 1⟩, [7]⟩, ⟨⟨sCueModModule, .regular, 2⟩, [1,2]⟩]).map (·.map (·.name))
    = some [sCueModModule, [120,47,98]] := by decide

/-- "The verdict of the file-list check does not depend on the order of the list" is FALSE on
model and code alike when two entries share a path: a report for a path that was already
reported is dropped (`errPaths`), so `[module, pipe b, regular b]` is accepted (b omitted as
"not a regular file", the "multiple entries" error swallowed) while `[module, regular b, pipe b]`
is rejected.  Replayed on the implementation by the harness (`c15WitnessDupOrder`).  This is why
Create's sort (not stable beyond 12 entries) is modelled by a concrete stable sort and why
`C15_roundtrip` is stated for every ordering. -/
def C15_checkFiles_perm_stmt : Prop :=
  ∀ (U : Uni) (l l' : List FEnt), l.Perm l' →
    (checkFiles U l).1.isErr = (checkFiles U l').1.isErr

theorem C15_checkFiles_perm_false : ¬ C15_checkFiles_perm_stmt := by
  intro h
  have := h ⟨fun _ => false, id⟩
    [⟨sCueModModule, .regular, 1⟩, ⟨[98], .other, 4⟩, ⟨[98], .regular, 7⟩]
    [⟨sCueModModule, .regular, 1⟩, ⟨[98], .regular, 7⟩, ⟨[98], .other, 4⟩]
    (List.Perm.cons _ (List.Perm.swap _ _ _))
  revert this
  decide

/-- listFilesInDir, for ALL trees: whatever the walk lists is a regular file of the tree, at
its slash path, and not below cue.mod/vendor. -/
theorem C15_listdir_sound (root : DList) :
    ∀ f ∈ (listFilesInDir root).files,
      f ∈ allFilesList [] root ∧ f.kind = .regular ∧ isVendoredPackage f.path = false :=
  walkList_sound [] root

/-- CheckDir versus CheckFiles — the part that holds: on a tree without irregular files,
vendored paths, VCS directories and nested `cue.mod` entries (other than the root's), the walk
lists every regular file and omits nothing, so CheckDir IS CheckFiles on the tree's files. -/
theorem C15_dir_agrees_partial (U : Uni) (root : DList) (h : plainList [] root = true) :
    listFilesInDir root = ⟨allFilesList [] root, []⟩ ∧
    checkDir U root = ((checkFiles U (allFilesList [] root)).1, []) :=
  ⟨walkList_plain [] root h, checkDir_plain U root h⟩

/-- The full statement "CheckDir and CheckFiles report the same valid files for the same
regular files" is FALSE on model and code alike (known finding dir-vs-list-nested-cuemod). -/
def C15_dir_vs_list_stmt : Prop :=
  ∀ (U : Uni) (root : DList),
    (checkDir U root).1.valid = (checkFiles U (allFilesList [] root)).1.valid

/-- files cue.mod/module.cue, sub/x.cue and an EMPTY directory sub/cue.mod -/
def dirWitness : DList :=
  .cons sCueMod (.dir (.cons sModuleCue (.file 1) .nil))
    (.cons [115,117,98] (.dir (.cons sCueMod (.dir .nil) (.cons [120,46,99,117,101] (.file 1) .nil)))
      .nil)

theorem C15_dir_vs_list_false : ¬ C15_dir_vs_list_stmt := by
  intro h
  have := h ⟨fun _ => false, id⟩ dirWitness
  revert this
  decide

example : plainList [] (.cons sCueMod (.dir (.cons sModuleCue (.file 1) .nil))
    (.cons [97] (.dir (.cons [98] (.file 3) .nil)) .nil)) = true := by decide

/-! ### cache directory names (module.escapeString) -/

/-- The escaped form of a module path / version contains no upper-case letter … -/
theorem C15_escape_no_upper (s e : Str) (h : escapeString s = some e) :
    ∀ b ∈ e, ¬ (65 ≤ b ∧ b ≤ 90) :=
  escape_no_upper s e h

/-- … and escaping is injective: two different versions never share an extraction directory,
not even on a case-insensitive file system. -/
theorem C15_escape_injective (s t e : Str) (hs : escapeString s = some e)
    (ht : escapeString t = some e) : s = t :=
  escape_injective s t e hs ht

example : escapeString [118,49,45,82,67] = some [118,49,45,33,114,33,99] := by decide

/-- The literal transcription of escapeString (two loops over the runes, `if !haveUpper
{ return s }`) computes the byte-level model the theorems are stated for. -/
theorem C15_escape_literal (s : Str) : escapeStringLit s = escapeString s :=
  escapeStringLit_eq s

/-- unescape (escape s) = s: "!x" ↦ "X", everything else literally (`unescapeString` is the
specification of the encoding; cue-lang/cue has no unescape function). -/
theorem C15_unescape_escape (s e : Str) (h : escapeString s = some e) :
    unescapeString e = some s :=
  unescape_escape s e h

/-- EscapeVersion / EscapePath succeed only on strings that pass their guards, and then
return escapeString's result; the extraction directory name `enc@encVer` of the module cache
determines (path, version) — what C16 trusts — for module paths without '@' (guaranteed by
CheckPathWithoutVersion, which is a parameter here). -/
theorem C15_cache_dir_injective (U : Uni) (ok ok' sv sv' : Bool) (p p' v v' d : Str)
    (hp : 64 ∉ p) (hp' : 64 ∉ p')
    (h : cacheDirName U ok sv p v = some d) (h' : cacheDirName U ok' sv' p' v' = some d) :
    p = p' ∧ v = v' ∧ (∀ b ∈ d, ¬ (65 ≤ b ∧ b ≤ 90)) := by
  obtain ⟨a, b⟩ := cacheDirName_injective U ok ok' sv sv' p p' v v' d hp hp' h h'
  refine ⟨a, b, ?_⟩
  unfold cacheDirName at h
  split at h
  · rename_i ep ev h1 h2
    cases h
    intro x hx
    rcases List.mem_append.mp hx with hx | hx
    · exact escape_no_upper _ _ (escapePath_some h1).2 x hx
    · rcases List.mem_cons.mp hx with rfl | hx
      · omega
      · exact escape_no_upper _ _ (escapeVersion_some h2).2.2.2 x hx
  · cases h

example : cacheDirName ⟨fun _ => false, id⟩ true true [97,46,98] [118,49,45,82]
    = some [97,46,98,64,118,49,45,33,114] := by decide


end CueVerif.C15
