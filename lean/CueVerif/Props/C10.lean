/-
C10 — JSON in and out agrees with the JSON standard and round-trips exactly.

Only statements live here; proofs are in CueVerif/Proofs/{JsonString,JsonNumber,JsonOut,
JsonProps}.lean.  Specification (from RFC 8259, not from the code): CueVerif/Spec/Json.lean —
string tokens as lists of `JItem`s (`stringText` = spelling, `denote` = the string denoted,
`wellPaired` = surrogate escapes come in high+low pairs), number tokens as `JNum`s
(`JNum.text` = spelling, `(-1)^neg * coeff * 10^exponent` = the exact value denoted).
Models (transcribed from the code): CueVerif/Model/Json.lean on top of the C09 models —
decoder: the CUE scanner's string lexing (`scanStringTok`) + `literal.Unquote`
(`Quote.unquote`) = `decodeString`; the scanner's / `literal.ParseNum`'s number automata + apd
`SetString` (an error rejects the literal) + unary minus = `decodeNumber`;
encoder: Go's `appendString` without HTML escaping = `jsonEscape`, apd's 'G' format = `fmtG`.

Arrays/objects, key order, duplicate keys and nesting are NOT modelled (the CUE parser and
evaluator are involved): they are the executable predicates of harness/c10_doc.go, evaluated
on the implementation against Go's encoding/json as ground truth.

Three statements are FALSE on the unchanged tree; each is kept as `…_stmt`, refuted on a
witness that the harness replays on the implementation, and proved with the excluded region as
hypothesis:
  * a raw U+FEFF inside a string is rejected by the scanner (class string-raw-bom),
  * a number whose exponent leaves apd's limits ±100000 is rejected — exactly outside
    `JNum.inApdRange`, and never read as another value (class
    number-exponent-out-of-apd-range-rejected; before commit 1674508 it silently lost its exponent),
  * lone surrogate escapes are rejected (informational: such a token is not Unicode text and is
    excluded from the property by `wellPaired`).
-/
import CueVerif.Proofs.JsonProps
namespace CueVerif.C10
open CueVerif CueVerif.Quote CueVerif.Json

/-! ### decoder: JSON string syntax ⊂ CUE string syntax, same meaning -/

/-- `C10_string_embed`: every RFC 8259 string token whose surrogate escapes are well paired —
any of the escapes `\" \\ \/ \b \f \n \r \t \uXXXX` (either hex case, surrogate pairs), any raw
scalar value ≥ 0x20 other than `"` and `\` incl. DEL, U+2028, U+2029, U+FEFF, non-BMP — is
unquoted by `literal.Unquote` to exactly the string it denotes. -/
theorem C10_string_embed (items : List JItem) (hwf : WfItems items) (hp : wellPaired items = true) :
    Quote.unquote (stringText items) = .ok (denote items) :=
  string_embed items hwf hp

-- non-vacuity: `"é\n\/😀<DEL>"` (raw é, two short escapes, a surrogate pair in
-- mixed case, an escaped U+2028, a raw DEL) meets the hypotheses
example : Quote.unquote (stringText [.raw 0xE9, .esc .n, .esc .slash, .u 0x64 0x38 0x33 0x64,
    .u 0x44 0x45 0x30 0x30, .u 0x32 0x30 0x32 0x38, .raw 0x7F]) =
    .ok (denote [.raw 0xE9, .esc .n, .esc .slash, .u 0x64 0x38 0x33 0x64, .u 0x44 0x45 0x30 0x30,
      .u 0x32 0x30 0x32 0x38, .raw 0x7F]) :=
  C10_string_embed _ (by intro i hi; simp at hi; rcases hi with h | h | h | h | h | h | h <;> subst h <;> decide)
    (by simp [wellPaired, isHigh, isLow, uVal, hexCharVal])

/-- Without the pairing hypothesis the statement (with Go's U+FFFD reading of unpaired
surrogates) … -/
def C10_string_embed_unpaired_stmt : Prop := string_embed_unpaired_stmt
/-- … is FALSE: `"\ud800"` is rejected ("unmatched surrogate pair").  Informational: a lone
surrogate is not "any Unicode"; the harness counts these and does not report them. -/
theorem C10_string_embed_unpaired_false : ¬ C10_string_embed_unpaired_stmt :=
  string_embed_unpaired_false

/-- The CUE scanner lexes an RFC 8259 string token as one clean STRING token if and only if the
token contains no raw U+FEFF (so: `\(` can never be reached, DEL/U+2028/U+2029/non-BMP are
fine, lone surrogate ESCAPES pass the scanner and fail later in `Unquote`). -/
theorem C10_string_scan (items : List JItem) (hwf : WfItems items) :
    scanStringTok (stringText items) = noRawBOM items :=
  string_scan items hwf

/-- The full decoder statement for strings: every RFC 8259 string token with well-paired
surrogates decodes to the string it denotes … -/
def C10_string_decode_stmt : Prop := string_decode_stmt
/-- … is FALSE on the unchanged tree: the token consisting of a raw U+FEFF (`""` written
as the character) is rejected by the scanner ("illegal byte order mark").  Genuine defect — the
property's quantifier names "BOM inside strings"; class string-raw-bom. -/
theorem C10_string_decode_false : ¬ C10_string_decode_stmt := string_decode_false
/-- Outside exactly that region the decoder is right … -/
theorem C10_string_decode_partial (items : List JItem) (hwf : WfItems items)
    (hp : wellPaired items = true) (hb : noRawBOM items = true) :
    decodeString (stringText items) = .ok (denote items) :=
  string_decode_partial items hwf hp hb
/-- … and inside it the decoder always rejects (an error, never a silent change). -/
theorem C10_string_decode_bom (items : List JItem) (hwf : WfItems items)
    (hb : noRawBOM items = false) : decodeString (stringText items) = .error .scanner :=
  string_decode_bom items hwf hb

-- non-vacuity: U+2028 and U+FFFE raw, U+FEFF escaped
example : decodeString (stringText [.raw 0x2028, .raw 0xFFFE, .u 0x66 0x45 0x66 0x46]) =
    .ok (denote [.raw 0x2028, .raw 0xFFFE, .u 0x66 0x45 0x66 0x46]) :=
  C10_string_decode_partial _ (by intro i hi; simp at hi; rcases hi with h | h | h <;> subst h <;> decide)
    (by simp [wellPaired, isHigh, isLow, uVal, hexCharVal]) (by decide)

/-! ### decoder: JSON number spellings ⊂ CUE number spellings, same kind rule and value -/

/-- `C10_number_embed`: every RFC 8259 number spelling (minus sign apart, which CUE parses as a
unary operator) is ONE error-free number token for the CUE scanner and is accepted by
`literal.ParseNum`, both with kind `int` iff it has neither fraction nor exponent — incl. `0`,
`0e0`, `1E400`, 60-digit integers; leading zeros are not JSON and not produced by the grammar. -/
theorem C10_number_embed (n : JNum) (hwf : n.wf = true) :
    NumLit.scannerAccepts n.utext = some n.kind ∧ NumLit.parseNum n.utext = some n.kind :=
  number_kind n hwf

/-- The full value statement: the decoder reads every number token as exactly the decimal it
denotes (`-0` → `0`) … -/
def C10_number_value_stmt : Prop := number_value_stmt
/-- … is FALSE on the unchanged tree: `1e100001` is REJECTED (apd's SetString fails on an
exponent beyond ±100000 and, since commit 1674508, `NumInfo.decimal` returns that error; before
the commit the error was discarded and the number silently read as `1`).  Still a deviation
from "any number spelling is accepted"; class number-exponent-out-of-apd-range-rejected. -/
theorem C10_number_value_false : ¬ C10_number_value_stmt := number_value_false
/-- Within apd's limits (written exponent, number of fraction digits, adjusted exponent and
resulting exponent all within ±100000) the decoder reads exactly the denoted decimal,
coefficient digit for digit … -/
theorem C10_number_value_partial (n : JNum) (hwf : n.wf = true) (hr : n.inApdRange) :
    decodeNumber n.text = some (n.kind, .finite (n.neg && n.coeff != 0) n.coeff n.exponent) :=
  number_value n hwf hr
/-- … and outside them it always rejects: a JSON number is NEVER read as a different value. -/
theorem C10_number_value_reject (n : JNum) (hwf : n.wf = true) (hr : ¬ n.inApdRange) :
    decodeNumber n.text = none :=
  number_reject n hwf hr

-- non-vacuity: `-12.50E+400` meets the hypotheses
example :
    let n : JNum := { neg := true, int := [49, 50], frac := some [53, 48],
                      exp := some { upper := true, sign := some false, digits := [52, 48, 48] } }
    decodeNumber n.text = some (n.kind, .finite (n.neg && n.coeff != 0) n.coeff n.exponent) :=
  C10_number_value_partial _ (by decide)
    (by simp [JNum.inApdRange, JNum.exponent, JNum.coeff, expValue, JExp.value, fracDigits, digitsVal, numDigits])

/-! ### encoder -/

/-- `C10_string_out` (validity, all inputs): whatever bytes a Go string holds, the marshalled
string is an RFC 8259 string token with well-paired surrogate escapes. -/
theorem C10_string_out_valid (s : Bytes) (hb : IsBytes s) :
    ∃ items, WfItems items ∧ jsonEscape s = stringText items ∧ wellPaired items = true :=
  string_out_valid s hb

/-- `C10_string_out`: for every valid UTF-8 string the marshalled token denotes exactly the
string, and `\uXXXX` escapes are used only for control characters and U+2028/U+2029 — never for
`<`, `>`, `&` (no HTML escaping). -/
theorem C10_string_out (s : Bytes) (hb : IsBytes s) (hv : validUTF8 s = true) :
    ∃ items, WfItems items ∧ jsonEscape s = stringText items ∧ denote items = s ∧
      wellPaired items = true ∧ ∀ i ∈ items, i.plainEscape = true :=
  string_out s hb hv

/-- `jsonUnescape (jsonEscape s) = s` through CUE's own reader: `literal.Unquote` reads every
marshalled valid-UTF-8 string back exactly. -/
theorem C10_string_roundtrip (s : Bytes) (hb : IsBytes s) (hv : validUTF8 s = true) :
    Quote.unquote (jsonEscape s) = .ok s :=
  string_roundtrip s hb hv

/-- The same through the whole decoder (scanner included) … -/
def C10_string_roundtrip_decoder_stmt : Prop := string_roundtrip_decoder_stmt
/-- … is FALSE: the encoder writes U+FEFF raw and the decoder then rejects its own output
(same root cause and class as `C10_string_decode_false`). -/
theorem C10_string_roundtrip_decoder_false : ¬ C10_string_roundtrip_decoder_stmt :=
  string_roundtrip_decoder_false

/-- `C10_number_out`: for EVERY finite decimal (any sign, coefficient, exponent — no side
condition) apd's 'G' format is an RFC 8259 number token that denotes exactly that sign,
coefficient and exponent: valid JSON, full precision, no `1.` / `+1` / `.5`. -/
theorem C10_number_out (neg : Bool) (coeff : Nat) (exp : Int) :
    ∃ n : JNum, n.wf = true ∧ fmtG neg coeff exp = n.text ∧ n.neg = neg ∧ n.coeff = coeff ∧
      n.exponent = exp :=
  number_out neg coeff exp

/-- Marshal then decode, numbers: what is printed is read back as exactly the same decimal
whenever the printed spelling is within apd's limits (`-0` comes back as `0`). -/
theorem C10_number_roundtrip (neg : Bool) (coeff : Nat) (exp : Int) :
    ∃ n : JNum, n.wf = true ∧ fmtG neg coeff exp = n.text ∧
      (n.inApdRange → decodeNumber (fmtG neg coeff exp) =
        some (n.kind, .finite (neg && coeff != 0) coeff exp)) :=
  number_roundtrip neg coeff exp

end CueVerif.C10
