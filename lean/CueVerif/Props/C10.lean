/-
C10 — JSON in and out agrees with the JSON standard and round-trips exactly.

Only statements live here; proofs are in CueVerif/Proofs/{JsonString,JsonNumber,JsonOut,
JsonProps}.lean.  Specification (from RFC 8259, not from the code): CueVerif/Spec/Json.lean —
string tokens as lists of `JItem`s (`stringText` = spelling, `denote` = the string denoted,
`wellPaired` = surrogate escapes come in high+low pairs), number tokens as `JNum`s
(`JNum.text` = spelling, `(-1)^neg * coeff * 10^exponent` = the exact value denoted).
Models (transcribed from the code): CueVerif/Model/Json.lean on top of the C09 models —
decoder: the CUE scanner's string lexing (`scanStringTok`) + `literal.Unquote`
(`Quote.unquote`) = `decodeString`; the scanner's / `literal.ParseNum`'s number automata + apd
`SetString` (an error rejects the literal) + unary minus = `decodeNumber`;
encoder: Go's `appendString` without HTML escaping = `jsonEscape`, apd's 'G' format = `fmtG`.

Documents, encoder direction (session 3): `Value.appendJSON` / `listAppendJSON` /
`structValue.appendJSON` are transcribed in CueVerif/Model/JsonDoc.lean (`appendJSON` over value
trees `MVal`), RFC 8259 §2–§5 is written as a reference parser in CueVerif/Spec/JsonDoc.lean
(`parseJSON`, data = `JVal`), and `C10_document_out` proves `parseJSON (appendJSON v) = dataOf v`
for every finite tree.  The DECODER direction above the token layer (the CUE parser, PatchExpr's
relabelling, the evaluator: member order, duplicate keys, nesting limits) is NOT modelled: it
stays with the executable predicates of harness/c10_doc.go, evaluated on the implementation
against Go's encoding/json as ground truth.

Three statements are FALSE on the unchanged tree; each is kept as `…_stmt`, refuted on a
witness that the harness replays on the implementation, and proved with the excluded region as
hypothesis:
  * a raw U+FEFF inside a string is rejected by the scanner (class string-raw-bom),
  * a number whose exponent leaves apd's limits ±100000 is rejected — exactly outside
    `JNum.inApdRange`, and never read as another value (class
    number-exponent-out-of-apd-range-rejected; before commit 1674508 it silently lost its exponent),
  * lone surrogate escapes are rejected (informational: such a token is not Unicode text and is
    excluded from the property by `wellPaired`).
-/
import CueVerif.Proofs.JsonProps
import CueVerif.Proofs.JsonDocProps
import CueVerif.Proofs.JsonDocStream
import CueVerif.Proofs.JsonDocFuel
import CueVerif.Proofs.JsonDocFuelEnough
import CueVerif.Proofs.JsonExtract
import CueVerif.Proofs.JsonDocErr
import CueVerif.Proofs.JsonExtractWf
namespace CueVerif.C10
open CueVerif CueVerif.Quote CueVerif.Json

/-! ### decoder: JSON string syntax ⊂ CUE string syntax, same meaning -/

/-- `C10_string_embed`: every RFC 8259 string token whose surrogate escapes are well paired —
any of the escapes `\" \\ \/ \b \f \n \r \t \uXXXX` (either hex case, surrogate pairs), any raw
scalar value ≥ 0x20 other than `"` and `\` incl. DEL, U+2028, U+2029, U+FEFF, non-BMP — is
unquoted by `literal.Unquote` to exactly the string it denotes. -/
theorem C10_string_embed (items : List JItem) (hwf : WfItems items) (hp : wellPaired items = true) :
    Quote.unquote (stringText items) = .ok (denote items) :=
  string_embed items hwf hp

-- non-vacuity: `"é\n\/😀<DEL>"` (raw é, two short escapes, a surrogate pair in
-- mixed case, an escaped U+2028, a raw DEL) meets the hypotheses
example : Quote.unquote (stringText [.raw 0xE9, .esc .n, .esc .slash, .u 0x64 0x38 0x33 0x64,
    .u 0x44 0x45 0x30 0x30, .u 0x32 0x30 0x32 0x38, .raw 0x7F]) =
    .ok (denote [.raw 0xE9, .esc .n, .esc .slash, .u 0x64 0x38 0x33 0x64, .u 0x44 0x45 0x30 0x30,
      .u 0x32 0x30 0x32 0x38, .raw 0x7F]) :=
  C10_string_embed _ (by intro i hi; simp at hi; rcases hi with h | h | h | h | h | h | h <;> subst h <;> decide)
    (by simp [wellPaired, isHigh, isLow, uVal, hexCharVal])

/-- Without the pairing hypothesis the statement (with Go's U+FFFD reading of unpaired
surrogates) … -/
def C10_string_embed_unpaired_stmt : Prop := string_embed_unpaired_stmt
/-- … is FALSE: `"\ud800"` is rejected ("unmatched surrogate pair").  Informational: a lone
surrogate is not "any Unicode"; the harness counts these and does not report them. -/
theorem C10_string_embed_unpaired_false : ¬ C10_string_embed_unpaired_stmt :=
  string_embed_unpaired_false

/-- The CUE scanner lexes an RFC 8259 string token as one clean STRING token if and only if the
token contains no raw U+FEFF (so: `\(` can never be reached, DEL/U+2028/U+2029/non-BMP are
fine, lone surrogate ESCAPES pass the scanner and fail later in `Unquote`). -/
theorem C10_string_scan (items : List JItem) (hwf : WfItems items) :
    scanStringTok (stringText items) = noRawBOM items :=
  string_scan items hwf

/-- The full decoder statement for strings: every RFC 8259 string token with well-paired
surrogates decodes to the string it denotes … -/
def C10_string_decode_stmt : Prop := string_decode_stmt
/-- … is FALSE on the unchanged tree: the token consisting of a raw U+FEFF (`""` written
as the character) is rejected by the scanner ("illegal byte order mark").  Genuine defect — the
property's quantifier names "BOM inside strings"; class string-raw-bom. -/
theorem C10_string_decode_false : ¬ C10_string_decode_stmt := string_decode_false
/-- Outside exactly that region the decoder is right … -/
theorem C10_string_decode_partial (items : List JItem) (hwf : WfItems items)
    (hp : wellPaired items = true) (hb : noRawBOM items = true) :
    decodeString (stringText items) = .ok (denote items) :=
  string_decode_partial items hwf hp hb
/-- … and inside it the decoder always rejects (an error, never a silent change). -/
theorem C10_string_decode_bom (items : List JItem) (hwf : WfItems items)
    (hb : noRawBOM items = false) : decodeString (stringText items) = .error .scanner :=
  string_decode_bom items hwf hb

-- non-vacuity: U+2028 and U+FFFE raw, U+FEFF escaped
example : decodeString (stringText [.raw 0x2028, .raw 0xFFFE, .u 0x66 0x45 0x66 0x46]) =
    .ok (denote [.raw 0x2028, .raw 0xFFFE, .u 0x66 0x45 0x66 0x46]) :=
  C10_string_decode_partial _ (by intro i hi; simp at hi; rcases hi with h | h | h <;> subst h <;> decide)
    (by simp [wellPaired, isHigh, isLow, uVal, hexCharVal]) (by decide)

/-! ### decoder: JSON number spellings ⊂ CUE number spellings, same kind rule and value -/

/-- `C10_number_embed`: every RFC 8259 number spelling (minus sign apart, which CUE parses as a
unary operator) is ONE error-free number token for the CUE scanner and is accepted by
`literal.ParseNum`, both with kind `int` iff it has neither fraction nor exponent — incl. `0`,
`0e0`, `1E400`, 60-digit integers; leading zeros are not JSON and not produced by the grammar. -/
theorem C10_number_embed (n : JNum) (hwf : n.wf = true) :
    NumLit.scannerAccepts n.utext = some n.kind ∧ NumLit.parseNum n.utext = some n.kind :=
  number_kind n hwf

/-- The full value statement: the decoder reads every number token as exactly the decimal it
denotes (`-0` → `0`) … -/
def C10_number_value_stmt : Prop := number_value_stmt
/-- … is FALSE on the unchanged tree: `1e100001` is REJECTED (apd's SetString fails on an
exponent beyond ±100000 and, since commit 1674508, `NumInfo.decimal` returns that error; before
the commit the error was discarded and the number silently read as `1`).  Still a deviation
from "any number spelling is accepted"; class number-exponent-out-of-apd-range-rejected. -/
theorem C10_number_value_false : ¬ C10_number_value_stmt := number_value_false
/-- Within apd's limits (written exponent, number of fraction digits, adjusted exponent and
resulting exponent all within ±100000) the decoder reads exactly the denoted decimal,
coefficient digit for digit … -/
theorem C10_number_value_partial (n : JNum) (hwf : n.wf = true) (hr : n.inApdRange) :
    decodeNumber n.text = some (n.kind, .finite (n.neg && n.coeff != 0) n.coeff n.exponent) :=
  number_value n hwf hr
/-- … and outside them it always rejects: a JSON number is NEVER read as a different value. -/
theorem C10_number_value_reject (n : JNum) (hwf : n.wf = true) (hr : ¬ n.inApdRange) :
    decodeNumber n.text = none :=
  number_reject n hwf hr

-- non-vacuity: `-12.50E+400` meets the hypotheses
example :
    let n : JNum := { neg := true, int := [49, 50], frac := some [53, 48],
                      exp := some { upper := true, sign := some false, digits := [52, 48, 48] } }
    decodeNumber n.text = some (n.kind, .finite (n.neg && n.coeff != 0) n.coeff n.exponent) :=
  C10_number_value_partial _ (by decide)
    (by simp [JNum.inApdRange, JNum.exponent, JNum.coeff, expValue, JExp.value, fracDigits, digitsVal, numDigits])

/-! ### encoder -/

/-- `C10_string_out` (validity, all inputs): whatever bytes a Go string holds, the marshalled
string is an RFC 8259 string token with well-paired surrogate escapes. -/
theorem C10_string_out_valid (s : Bytes) (hb : IsBytes s) :
    ∃ items, WfItems items ∧ jsonEscape s = stringText items ∧ wellPaired items = true :=
  string_out_valid s hb

/-- `C10_string_out`: for every valid UTF-8 string the marshalled token denotes exactly the
string, and `\uXXXX` escapes are used only for control characters and U+2028/U+2029 — never for
`<`, `>`, `&` (no HTML escaping). -/
theorem C10_string_out (s : Bytes) (hb : IsBytes s) (hv : validUTF8 s = true) :
    ∃ items, WfItems items ∧ jsonEscape s = stringText items ∧ denote items = s ∧
      wellPaired items = true ∧ ∀ i ∈ items, i.plainEscape = true :=
  string_out s hb hv

/-- `jsonUnescape (jsonEscape s) = s` through CUE's own reader: `literal.Unquote` reads every
marshalled valid-UTF-8 string back exactly. -/
theorem C10_string_roundtrip (s : Bytes) (hb : IsBytes s) (hv : validUTF8 s = true) :
    Quote.unquote (jsonEscape s) = .ok s :=
  string_roundtrip s hb hv

/-- The same through the whole decoder (scanner included) … -/
def C10_string_roundtrip_decoder_stmt : Prop := string_roundtrip_decoder_stmt
/-- … is FALSE: the encoder writes U+FEFF raw and the decoder then rejects its own output
(same root cause and class as `C10_string_decode_false`). -/
theorem C10_string_roundtrip_decoder_false : ¬ C10_string_roundtrip_decoder_stmt :=
  string_roundtrip_decoder_false

/-- `C10_number_out`: for EVERY finite decimal (any sign, coefficient, exponent — no side
condition) apd's 'G' format is an RFC 8259 number token that denotes exactly that sign,
coefficient and exponent: valid JSON, full precision, no `1.` / `+1` / `.5`. -/
theorem C10_number_out (neg : Bool) (coeff : Nat) (exp : Int) :
    ∃ n : JNum, n.wf = true ∧ fmtG neg coeff exp = n.text ∧ n.neg = neg ∧ n.coeff = coeff ∧
      n.exponent = exp :=
  number_out neg coeff exp

/-- Marshal then decode, numbers: what is printed is read back as exactly the same decimal
whenever the printed spelling is within apd's limits (`-0` comes back as `0`). -/
theorem C10_number_roundtrip (neg : Bool) (coeff : Nat) (exp : Int) :
    ∃ n : JNum, n.wf = true ∧ fmtG neg coeff exp = n.text ∧
      (n.inApdRange → decodeNumber (fmtG neg coeff exp) =
        some (n.kind, .finite (neg && coeff != 0) coeff exp)) :=
  number_roundtrip neg coeff exp

/-! ### encoder: whole documents -/

/-- `C10_document_out`: for EVERY finite concrete value tree (any depth, any width; null,
booleans, finite decimals, valid-UTF-8 strings, lists, structs with valid-UTF-8 labels) the text
written by `Value.appendJSON` is a JSON text in the sense of RFC 8259 and the reference parser
reads it back as exactly the data of the value: elements in list order, members in field order
with their names byte for byte, strings byte for byte, numbers as the exact decimal (sign,
coefficient, exponent), no trailing comma, nothing left over. -/
theorem C10_document_out (v : MVal) (hwf : v.WF) : parseJSON (appendJSON v) = some (dataOf v) :=
  doc_roundtrip v hwf

-- non-vacuity: the tree of `{"a":[1,-2.50,"&\n<DEL>",null,[]],"":{"<":true}}`: nested list and struct, an
-- empty label, a label that HTML escaping would touch, a negative decimal with a trailing zero
example : parseJSON (appendJSON (.struct [([0x61], .list [.num false 1 0, .num true 250 (-2),
        .str [0x26, 10, 0x7F], .null, .list []]), ([], .struct [([0x3C], .bool true)])])) =
    some (dataOf (.struct [([0x61], .list [.num false 1 0, .num true 250 (-2),
        .str [0x26, 10, 0x7F], .null, .list []]), ([], .struct [([0x3C], .bool true)])])) :=
  C10_document_out _ (by simp [MVal.WF, MVal.WFList, MVal.WFFields, IsBytes, validUTF8, decodeFirst])

/-- the same in front of any text that cannot continue a number token (`,` `]` `}` ws, the next
document of a stream): the value is read and the rest is left untouched — the encoder's output
is self-delimiting. -/
theorem C10_document_out_prefix (v : MVal) (hwf : v.WF) (rest : Bytes) (hs : numStop rest = true) :
    pValue ((appendJSON v ++ rest).length + 1) (appendJSON v ++ rest) = some (dataOf v, rest) :=
  doc_prefix v hwf rest hs

example : pValue ((appendJSON (.list [.num false 0 0]) ++ [0x20, 0x31]).length + 1)
    (appendJSON (.list [.num false 0 0]) ++ [0x20, 0x31]) = some (dataOf (.list [.num false 0 0]), [0x20, 0x31]) :=
  C10_document_out_prefix _ (by simp [MVal.WF, MVal.WFList]) _ (by decide)

/-- `C10_number_out`, through the executable grammar (value round trip): for every finite
decimal the text printed by apd's 'G' format is read by the reference parser as exactly
`(-1)^neg * coeff * 10^exp` — incl. negative zero, trailing zeros, exponents of any size. -/
theorem C10_number_out_parsed (neg : Bool) (coeff : Nat) (exp : Int) :
    parseJSON (fmtG neg coeff exp) = some (.num neg coeff exp) :=
  number_out_parsed neg coeff exp

/-- `C10_string_out`, through the executable grammar -/
theorem C10_string_out_parsed (s : Bytes) (hb : IsBytes s) (hv : validUTF8 s = true) :
    parseJSON (jsonEscape s) = some (.str s) :=
  string_out_parsed s hb hv

/-- Fuel, half one (all texts): more fuel never changes an answer of the reference parser — a
value read with fuel `f` is read identically with every `g ≥ f`. -/
theorem C10_parse_fuel_mono (f g : Nat) (hfg : f ≤ g) (s : Bytes) (x : JVal × Bytes)
    (h : pValue f s = some x) : pValue g s = some x :=
  pValue_mono_le f g hfg s x h

-- non-vacuity: `[[1]]` read with fuel 6 is read the same with fuel 40
example : pValue 40 [0x5B, 0x5B, 0x31, 0x5D, 0x5D] = some (.arr [.arr [.num false 1 0]], []) :=
  C10_parse_fuel_mono 6 40 (by decide) _ _ (by rfl)

/-- Fuel, half two, on ARBITRARY texts: fuel above the length of the text is always enough — an
answer obtained with any fuel whatsoever is the answer for every fuel above the length (every
successful call consumes at least one byte before it recurses: `pValue_fuel`).  So `parseJSON`,
which runs with `length + 1`, computes the fuel-free meaning of the grammar: the spec parser is
total with that fuel, and no text is rejected or misread for lack of fuel. -/
def C10_parse_fuel_stmt : Prop :=
  ∀ (s : Bytes) (f : Nat) (v : JVal) (r : Bytes), pValue f s = some (v, r) →
    ∀ g, s.length < g → pValue g s = some (v, r)

theorem C10_parse_fuel : C10_parse_fuel_stmt :=
  fun s f v r h g hg => pValue_fuel_enough s f (v, r) h g hg

/-- … and every successful parse returns a strictly shorter rest. -/
theorem C10_parse_consumes (f : Nat) (s : Bytes) (v : JVal) (r : Bytes) (h : pValue f s = some (v, r)) :
    r.length < s.length :=
  (pValue_fuel f s (v, r) h).1

/-! ### streams (the framing `Decoder.Extract` gets from json.Decoder: `parseStream`) -/

/-- `C10_stream_out`: what `MarshalStream` writes for n values (each marshalled value followed
by a newline) is framed as exactly those n values, in order, followed by a clean end of input
(`io.EOF`) — no value lost, split, merged or invented, for any n and any finite value trees. -/
theorem C10_stream_out (vs : List MVal) (hwf : ∀ v ∈ vs, v.WF) :
    parseStream (vs.length + 1) (marshalStream vs) = (vs.map dataOf, true) :=
  stream_roundtrip vs hwf

example : parseStream 3 (marshalStream [.num true 0 0, .list [.str [0x61]]]) =
    ([dataOf (.num true 0 0), dataOf (.list [.str [0x61]])], true) :=
  C10_stream_out _ (by simp [MVal.WF, MVal.WFList, IsBytes, validUTF8, decodeFirst])

/-- `C10_stream_prefix`: n marshalled values with arbitrary non-empty white-space separators
(after any leading white space) in front of ANY tail: the stream yields exactly those n values in
order and then continues as the tail alone would — with an empty tail a clean end, with trailing
garbage the error comes after the valid prefix, never instead of it. -/
theorem C10_stream_prefix (l : List (MVal × Bytes))
    (hwf : ∀ p ∈ l, p.1.WF ∧ p.2 ≠ [] ∧ p.2.all isWs = true) (pre tail : Bytes)
    (hpre : pre.all isWs = true) (fuel : Nat) :
    parseStream (l.length + fuel) (pre ++ (streamText l ++ tail)) =
      ((l.map fun p => dataOf p.1) ++ (parseStream fuel tail).1, (parseStream fuel tail).2) :=
  stream_prefix tail fuel l hwf pre hpre

-- non-vacuity: ` 1\n[]\t x`: two values, then the error for the garbage `x`
example : parseStream (2 + 1) ([0x20] ++ (streamText [(.num false 1 0, [0x0A]), (.list [], [0x09, 0x20])] ++ [0x78])) =
    ([dataOf (.num false 1 0), dataOf (.list [])] ++ (parseStream 1 [0x78]).1, (parseStream 1 [0x78]).2) :=
  C10_stream_prefix _ (by
    intro p hp
    simp only [List.mem_cons, List.mem_nil_iff, or_false] at hp
    rcases hp with rfl | rfl <;> simp [MVal.WF, MVal.WFList, isWs]) _ _ (by simp [isWs]) 1

/-! ### encoder: error branches, bytes, non-finite decimals (Model/JsonDocErr.lean) -/

/-- `C10_document_out_total`: `Value.appendJSON` with ALL its branches (`appendJSONE`): whenever
the value holds nothing the appender refuses and only finite numbers (`toM` defined), the call
succeeds and writes a JSON text denoting the value's data — a bytes value as the string of its
padded standard base64 text (`json.Marshal([]byte)`). -/
theorem C10_document_out_total (v : EVal) (m : MVal) (hm : v.toM = some m) (hwf : m.WF) :
    ∃ out, appendJSONE v = some out ∧ parseJSON out = some (dataOf m) :=
  doc_roundtrip_E v m hm hwf

-- non-vacuity: `{"k":'\xff\x00a'}` (bytes → "/wBh")
example : (EVal.struct [([0x6B], .bytes [0xFF, 0x00, 0x61])]).toM =
    some (.struct [([0x6B], .str [0x2F, 0x77, 0x42, 0x68])]) := by rfl

/-- the base64 text of any byte string is a valid-UTF-8 (ASCII) string that needs no escaping -/
theorem C10_bytes_wf (b : Bytes) : GoodStr (base64Std b) ∧ jsonEscape (base64Std b) = 0x22 :: (base64Std b ++ [0x22]) :=
  ⟨safe_good _ (base64_safe _ b (Nat.le_refl _)), (bytes_as_string b).symm⟩

/-- `C10_marshal_error`: an incomplete / non-concrete value or an error value ANYWHERE in the
tree makes the whole call fail: an error and no bytes — never a partial or patched-up document. -/
theorem C10_marshal_error (v : EVal) (h : v.refused = true) : appendJSONE v = none :=
  appendE_refused v h

example : (EVal.list [.null, .struct [([0x61], .incomplete)]]).refused = true := by decide

/-- `C10_nonfinite_invalid`: IF a non-finite decimal reached the appender, the call would succeed
and write `Infinity` / `-Infinity` / `NaN`, which is not JSON.  A statement about the code path
(no check in `appendJSON`); the harness searches for a way to build such a value (op `encerr`,
Direct `nonfinite-marshals-as-invalid-json`). -/
theorem C10_nonfinite_invalid (neg : Bool) :
    parseJSON (fmtDec (.inf neg)) = none ∧ parseJSON (fmtDec (.nan neg)) = none :=
  nonfinite_invalid neg

/-! ### decoder: whole documents (`json.Extract` = `extract` + `PatchExpr`), reading direction

Model: CueVerif/Model/JsonExtract.lean.  `parseTree` (Spec/JsonTree.lean) is the RFC 8259 parse
tree with the tokens kept (`parseJSON = den ∘ parseTree`, `parseJSON_eq`); `astOf` the AST
`parser.ParseExpr` returns for it (assumption, tied by op `extract`); `patch` = `PatchExpr`
(labels → identifiers where `ast.StringLabelNeedsQuoting` says so, strings longer than 10 bytes
or with a backslash re-quoted with `literal.String.WithOptionalTabIndent(depth)
.WithOptionalHashes()` — possibly as multi-line strings — numbers verbatim); `evalData` the
data the literal evaluates to, under the stated assumption that a struct literal with pairwise
distinct string labels and data values evaluates to the map of those labels. -/

/-- `C10_extract_data`: for EVERY JSON text in the covered region (`JTree.Readable`: strings
are Unicode text without raw U+FEFF, numbers within apd's limits, member names of each object
pairwise distinct — the three excluded regions are exactly the known findings) `json.Extract`
succeeds and the CUE data literal it returns denotes the data of the text: same nesting, members
in order with their names byte for byte, strings byte for byte (also after re-quoting, via
C09's round trip), numbers as the exact decimal (`-0` as `0`).  For every `strconv` table
`E` (with `E.Ok`) and every label decision `nq`. -/
theorem C10_extract_data (E : Env) (hE : E.Ok) (nq : Bytes → Bool) (text : Bytes) (t : JTree)
    (ht : parseTree text = some t) (hr : t.Readable) :
    ∃ c, extractModel E nq text = some c ∧ evalData c = (parseJSON text).map JVal.normZero :=
  extract_text hE nq text t ht hr

/-- `C10_extract_accepted`: the same for EVERY text the reference parser accepts, with no
well-formedness hypothesis (the parser only returns well-formed tokens: `C10_parse_tokens_wf`):
if `parseJSON text = some d` then the text has a parse tree `t` denoting `d`, and whenever `t` is
in the region `JTree.InRegion` (strings Unicode text without raw U+FEFF, numbers within apd's
limits, member names pairwise distinct) `json.Extract` succeeds and its data literal evaluates
to `d` (with `-0` read as `0`). -/
theorem C10_extract_accepted (E : Env) (hE : E.Ok) (nq : Bytes → Bool) (text : Bytes) (d : JVal)
    (h : parseJSON text = some d) :
    ∃ t, parseTree text = some t ∧ t.den = d ∧
      (t.InRegion → ∃ c, extractModel E nq text = some c ∧ evalData c = some d.normZero) := by
  obtain ⟨t, ht, hd, -⟩ := parseJSON_tree text d h
  refine ⟨t, ht, hd, fun hr => ?_⟩
  obtain ⟨c, h1, h2⟩ := extract_text_full hE nq text t ht hr
  exact ⟨c, h1, by rw [h2, h]; rfl⟩

/-- the reference parser only returns well-formed tokens -/
theorem C10_parse_tokens_wf (text : Bytes) (t : JTree) (h : parseTree text = some t) : t.TokWf :=
  parseTree_wf text t h

-- non-vacuity: the text `[-0,12]` is accepted, and a tree with a string label is in the region
example : parseJSON [0x5B, 0x2D, 0x30, 0x2C, 0x31, 0x32, 0x5D] =
    some (.arr [.num true 0 0, .num false 12 0]) := by rfl
example : (JTree.obj [([.raw 0x61], .arr [.num { neg := true, int := [48], frac := none, exp := none }])]).InRegion := by
  simp [JTree.InRegion, JTree.InRegionMembers, JTree.InRegionList, wellPaired, JTree.denMembers, distinctKeys,
    JNum.inApdRange, JNum.exponent, JNum.coeff, expValue, fracDigits, digitsVal, numDigits]
  decide

/-- the same statement on parse trees, at any nesting depth of the walk -/
theorem C10_extract_tree (E : Env) (hE : E.Ok) (nq : Bytes → Bool) (t : JTree) (hr : t.Readable)
    (depth : Nat) : ∃ c, astOf t = some c ∧ evalData (patch E nq depth c) = some t.den.normZero :=
  extract_value hE nq t hr depth

-- non-vacuity: the tree of `{"a\n":[-0,"0123456789ab"]}` (a label that keeps its quotes and is
-- re-quoted, a negative zero, a string long enough to be re-quoted) is in the covered region
example : (JTree.obj [([.raw 0x61, .esc .n], .arr [.num { neg := true, int := [48], frac := none, exp := none },
    .str [.raw 48, .raw 49, .raw 50, .raw 51, .raw 52, .raw 53, .raw 54, .raw 55, .raw 56, .raw 57, .raw 0x61, .raw 0x62]])]).Readable := by
  simp only [JTree.Readable, JTree.ReadableMembers, JTree.ReadableList, StrOk, JTree.denMembers, distinctKeys]
  refine ⟨⟨⟨?_, by simp [wellPaired], by decide⟩, ⟨⟨by decide, ?_⟩, ⟨?_, by simp [wellPaired], by decide⟩, trivial⟩, trivial⟩, by simp⟩
  · intro i hi; simp at hi; rcases hi with h | h <;> subst h <;> decide
  · simp [JNum.inApdRange, JNum.exponent, JNum.coeff, expValue, fracDigits, digitsVal, numDigits]
  · intro i hi; simp at hi; rcases hi with h | h | h | h | h | h | h | h | h | h | h | h <;> subst h <;> decide

/-- `C10_extract_duplicate`: an object with a repeated member name (everything else in the
covered region): `Extract` succeeds, and the model makes NO data claim for the literal
(`none`): the struct literal has a repeated label and the evaluator unifies the two values — a
conflict error when they differ (known finding duplicate-key-differing-values; encoding/json
would take the last value), the common value when they are equal.  Kept visible: the reading
direction is proved only for documents without duplicate keys. -/
theorem C10_extract_duplicate (E : Env) (hE : E.Ok) (nq : Bytes → Bool) (ms : List (List JItem × JTree))
    (hm : JTree.ReadableMembers ms) (hd : distinctKeys (JTree.denMembers ms) = false) (depth : Nat) :
    ∃ c, astOf (.obj ms) = some c ∧ evalData (patch E nq depth c) = none :=
  extract_duplicate hE nq ms hm hd depth

-- non-vacuity: `{"a":1,"a":2}`
example : JTree.ReadableMembers [([.raw 0x61], .null), ([.raw 0x61], .bool true)] ∧
    distinctKeys (JTree.denMembers [([.raw 0x61], .null), ([.raw 0x61], .bool true)]) = false := by
  refine ⟨?_, by simp [JTree.denMembers, distinctKeys, denote, encodeRune]⟩
  simp only [JTree.ReadableMembers, JTree.Readable, StrOk]
  refine ⟨⟨?_, by simp [wellPaired], by decide⟩, trivial, ⟨?_, by simp [wellPaired], by decide⟩, trivial, trivial⟩ <;>
    (intro i hi; simp at hi; subst hi; decide)

/-- `C10_extract_bom`: a string token with a raw U+FEFF makes `extract` answer "invalid JSON"
(the scanner half of `C10_string_decode_bom`, at document level; known finding string-raw-bom). -/
theorem C10_extract_bom (items : List JItem) (hwf : WfItems items) (hb : noRawBOM items = false) :
    astOf (.str items) = none :=
  extract_bom items hwf hb

end CueVerif.C10
