/-
C13 — JSON Schema translation preserves which instances are valid.

What is PROVED here (for all schemas / instances of the modelled fragment):
 (1) well-formedness laws of the oracle `JS.valid` (the specification the harness compares the
     real importer with);
 (2) the importer's kind skeleton (`state.finalize`): the assembled
     `null | bool | number | string | [...] | {...}` with per-type constraints accepts an instance
     iff its kind is allowed and the constraints for that kind (and the kind-independent ones) hold;
 (3) each combinator encoding (allOf → matchN(len), anyOf → matchN(>=1), oneOf → matchN(1),
     not → matchN(0), if/then/else → matchIf) is exact w.r.t. `JS.valid`, and the importer's
     short-cuts (dropping members, single-member inlining, oneOf without constraint) are exact —
     except `allOf`, whose encoding is FALSE on model and code alike (`C13_allOf_enc_false`).
The per-keyword builders and the reverse generator are NOT transcribed; they are tied at the
verdict level by the harness with `JS.valid` as the oracle.

Only statements live here; proofs are in CueVerif/Proofs/{JsonSchema,JsonSchemaSkel}.lean.
-/
import CueVerif.Proofs.JsonSchema
import CueVerif.Proofs.JsonSchemaSkel
import CueVerif.Proofs.JsonSchemaCCFlat
import CueVerif.Proofs.JsonSchemaCCMain
import CueVerif.Proofs.JsonSchemaCCEnum
namespace CueVerif.C13
open CueVerif CueVerif.JS CueVerif.Skel CueVerif.CCm

/-! ### (1) the oracle is well-formed -/

/-- double negation -/
theorem C13_oracle_not_not (re root n s j) :
    valid re root (n+2) (sNot (sNot s)) j = valid re root n s j :=
  JS.valid_not_not re root n s j

/-- De Morgan: not(anyOf ss) = allOf (map not ss) -/
theorem C13_oracle_demorgan_any (re root n ss j) :
    valid re root (n+2) (sNot (sAnyOf ss)) j = valid re root (n+2) (sAllOf (ss.map sNot)) j :=
  JS.valid_not_anyOf re root n ss j

/-- De Morgan: not(allOf ss) = anyOf (map not ss) -/
theorem C13_oracle_demorgan_all (re root n ss j) :
    valid re root (n+2) (sNot (sAllOf ss)) j = valid re root (n+2) (sAnyOf (ss.map sNot)) j :=
  JS.valid_not_allOf re root n ss j

/-- oneOf = exactly one member valid (strict in undetermined members) … -/
theorem C13_oracle_oneOf (re root n ss j) :
    valid re root (n+1) (sOneOf ss) j = one3 (ss.map (valid re root n · j)) :=
  JS.valid_oneOf re root n ss j

/-- … and on determined verdicts `one3` is "the number of `true` is 1" -/
theorem C13_oracle_one3 (l : List Bool) : one3 (l.map some) = some (l.count true == 1) :=
  JS.one3_det l

theorem C13_oracle_allOf (re root n ss j) :
    valid re root (n+1) (sAllOf ss) j = all3 (ss.map (valid re root n · j)) :=
  JS.valid_allOf re root n ss j

theorem C13_oracle_anyOf (re root n ss j) :
    valid re root (n+1) (sAnyOf ss) j = any3 (ss.map (valid re root n · j)) :=
  JS.valid_anyOf re root n ss j

/-- if/then/else selects the branch by the verdict of `if` -/
theorem C13_oracle_if (re root n c t e j) :
    valid re root (n+1) (sIf c t e) j =
      match valid re root n c j with
      | none => none
      | some true => valid re root n t j
      | some false => valid re root n e j :=
  JS.valid_if re root n c t e j

/-- a keyword specific to one kind ignores instances of every other kind -/
theorem C13_oracle_other_kind (re rec res kws) (kw : Kw) (k : Kind) (j : Json)
    (hk : kw.kindOf = some k) (hj : j.kind ≠ k) : kwHolds re rec res kws kw j = some true :=
  JS.kw_other_kind re rec res kws kw k j hk hj

/-- fuel is only a budget: a determined verdict never changes with more fuel -/
theorem C13_oracle_fuel_mono (re root n m s j b) (h : n ≤ m)
    (hv : valid re root n s j = some b) : valid re root m s j = some b :=
  JS.valid_mono_le re root n m s j b h hv

-- non-vacuity (tests on samples, not the property): the oracle determines concrete verdicts
example : valid tinyRe (.obj [.type [.integer]]) 5 (.obj [.type [.integer]]) (.num ⟨10, 10⟩) = some true := by decide
example : valid tinyRe (.bool true) 5 (.obj [.oneOf [.obj [.type [.number]], .obj [.minimum ⟨3, 1⟩]]]) (.num ⟨5, 1⟩)
    = some false := by decide
example : valid tinyRe (.bool true) 5 (.obj [.minLength 2]) (.str "😀") = some false := by decide

/-! ### (2) the kind skeleton assembled by `state.finalize` -/

/-- Acceptance by the assembled disjunction ⇔ the instance's kind is allowed ∧ the
kind-independent constraints hold ∧ the constraints for that kind hold.  Hypotheses: the meaning
of `knownTypes` (the all-constraints already restrict to these kinds) and the builders'
invariant `allowedTypes ⊆ knownTypes`. -/
theorem C13_kind_skeleton (st : St) (j : Json)
    (hknown : ∀ j, st.all.all (accepts · j) = true → hasCore st.known (coreOf j) = true)
    (hsub : ∀ t, hasCore st.allowed t = true → hasCore st.known t = true) :
    accepts (finalize st) j =
      (hasCore st.allowed (coreOf j) && st.all.all (accepts · j) && (st.types (coreOf j)).all (· j)) :=
  Skel.finalize_accepts st j hknown hsub

/-- the invariant is needed: without it the statement is false (on the model; the real builders
maintain it, see the next two theorems) -/
theorem C13_kind_skeleton_needs_sub : ¬ Skel.finalize_accepts_nosub_stmt :=
  Skel.finalize_accepts_nosub_false

/-- `constraintType` and `constraintEnum`/`constraintConst` preserve `allowed ⊆ known` -/
theorem C13_type_preserves_sub (lit ts) (st : St) (h : ∀ k, st.allowed k = true → st.known k = true) :
    ∀ k, (applyType lit ts st).allowed k = true → (applyType lit ts st).known k = true :=
  Skel.applyType_sub lit ts st h

theorem C13_enum_preserves_sub (kinds v) (st : St) (h : ∀ k, st.allowed k = true → st.known k = true) :
    ∀ k, (applyEnum kinds v st).allowed k = true → (applyEnum kinds v st).known k = true :=
  Skel.applyEnum_sub kinds v st h

-- non-vacuity: `{"type":["number","string"],"minimum":3}`-like state: allowed = {int,float,string},
-- one numeric constraint; 5 is accepted, 1 and null are not, "a" is
example :
    let st : St := { allowed := fun k => k == .int || k == .float || k == .string, known := KSet.full,
                     types := fun t => if t == .num then [fun j => match j with | .num x => (Num.ofInt 3).le x | _ => false] else [],
                     all := [] }
    (accepts (finalize st) (.num ⟨5, 1⟩), accepts (finalize st) (.num ⟨1, 1⟩),
     accepts (finalize st) .null, accepts (finalize st) (.str "a")) = (true, false, false, true) := by decide

/-! ### (3) combinators -/

/-- matchN counts the members that unify with the value -/
theorem C13_matchN (b : Bound) (vs : List CVal) (j : Json) :
    accepts (.matchN b vs) j = b.ok (vs.countP (accepts · j)) :=
  Skel.accepts_matchN b vs j

/-- not ↦ matchN(0, [s]) -/
theorem C13_not_exact (re root n s j) (v : CVal) (h : valid re root n s j = some (accepts v j)) :
    valid re root (n+1) (sNot s) j = some (accepts (encNot v) j) :=
  Skel.not_exact re root n s j v h

/-- anyOf ↦ matchN(>=1, …) -/
theorem C13_anyOf_exact (re root n j) (ss : List Schema) (vs : List CVal)
    (h : Skel.List.Forall₂ (fun s v => valid re root n s j = some (accepts v j)) ss vs) :
    valid re root (n+1) (sAnyOf ss) j = some (accepts (.matchN (.ge 1) vs) j) :=
  Skel.anyOf_exact re root n j ss vs h

/-- oneOf ↦ matchN(1, …) -/
theorem C13_oneOf_exact (re root n j) (ss : List Schema) (vs : List CVal)
    (h : Skel.List.Forall₂ (fun s v => valid re root n s j = some (accepts v j)) ss vs) :
    valid re root (n+1) (sOneOf ss) j = some (accepts (.matchN (.eq 1) vs) j) :=
  Skel.oneOf_exact re root n j ss vs h

/-- allOf ↦ matchN(len, …) when EVERY member is in the list -/
theorem C13_allOf_exact (re root n j) (ss : List Schema) (vs : List CVal)
    (h : Skel.List.Forall₂ (fun s v => valid re root n s j = some (accepts v j)) ss vs) :
    valid re root (n+1) (sAllOf ss) j = some (accepts (.matchN (.eq vs.length) vs) j) :=
  Skel.allOf_exact re root n j ss vs h

/-- if/then/else ↦ matchIf -/
theorem C13_if_exact (re root n j) (c t e : Schema) (vc vt ve : CVal)
    (hc : valid re root n c j = some (accepts vc j)) (ht : valid re root n t j = some (accepts vt j))
    (he : valid re root n e j = some (accepts ve j)) :
    valid re root (n+1) (sIf c t e) j = some (accepts (.matchIf vc vt ve) j) :=
  Skel.if_exact re root n j c t e vc vt ve hc ht he

/-- translating `then` under the allowed types of `if` does not change the meaning -/
theorem C13_if_then_narrowing (vi vt vt' ve : CVal) (j : Json)
    (h : accepts vi j = true → accepts vt' j = accepts vt j) :
    accepts (.matchIf vi vt' ve) j = accepts (.matchIf vi vt ve) j :=
  Skel.if_then_narrowing vi vt vt' ve j h

-- non-vacuity: the hypotheses of the exactness theorems are met by `vs = ss.map enc` for any
-- translation `enc` that is exact on the members (Forall₂.of_map)
example (re root n j) (ss : List Schema) (enc : Schema → CVal)
    (h : ∀ s ∈ ss, valid re root n s j = some (accepts (enc s) j)) :
    valid re root (n+1) (sOneOf ss) j = some (accepts (.matchN (.eq 1) (ss.map enc)) j) :=
  Skel.oneOf_exact re root n j ss (ss.map enc) (Skel.List.Forall₂.of_map _ enc ss h)

/-! #### the importer's short-cuts -/

/-- FULL statement for allOf as encoded by `constraintAllOf` (members without constraints are
dropped from the list but the count stays `len(items)`): FALSE on the model and on the code. -/
theorem C13_allOf_enc_false : ¬ Skel.allOf_enc_stmt :=
  Skel.allOf_enc_false

/-- … true exactly outside that region: at most one member has constraints (inlined), or all have -/
theorem C13_allOf_enc_partial (subs : List Sub) (j : Json) (hwf : ∀ s ∈ subs, s.WF)
    (hreg : (subs.filter (·.hasConstraints)).length ≤ 1 ∨ subs.all (·.hasConstraints) = true) :
    (encAccepts (encAllOf subs) true j &&
      (subs.filter (!·.hasConstraints)).all (fun s => hasCore s.allowed (coreOf j)))
      = subs.all (fun s => accepts s.expr j) :=
  Skel.allOf_enc_partial subs j hwf hreg

/-- anyOf: dropping members with no allowed type, inlining a single member -/
theorem C13_anyOf_enc (allowed : KSet) (subs : List Sub) (j : Json) (hwf : ∀ s ∈ subs, s.WF) :
    encAccepts (encAnyOf allowed subs).1 false j = subs.any (fun s => accepts s.expr j) :=
  Skel.anyOf_enc allowed subs j hwf

theorem C13_anyOf_allowed_sound (subs : List Sub) (j : Json) (hwf : ∀ s ∈ subs, s.WF)
    (h : subs.any (fun s => accepts s.expr j) = true) :
    hasCore (unionAllowed (subs.filter (!·.allowed.isEmpty))) (coreOf j) = true :=
  Skel.anyOf_allowed_sound subs j hwf h

/-- oneOf: with the matchN(1) constraint when needed, by the narrowed allowed set alone when the
members have no constraints and pairwise disjoint kinds -/
theorem C13_oneOf_enc (allowed : KSet) (subs : List Sub) (j : Json) (hwf : ∀ s ∈ subs, s.WF) :
    (if oneOfNeeds KSet.empty (subs.filter (!·.allowed.isEmpty)) then encAccepts (encOneOf allowed subs).1 false j
     else hasCore (unionAllowed (subs.filter (!·.allowed.isEmpty))) (coreOf j))
      = (subs.countP (fun s => accepts s.expr j) == 1) :=
  Skel.oneOf_enc allowed subs j hwf

-- non-vacuity: a well-formed member without constraints (`{"type":"string"}`) and one with
example : (⟨.kind .string, fun k => k == .string, KSet.full, false⟩ : Sub).WF :=
  ⟨fun j h => by cases j <;> first | rfl | (simp [accepts, coreOf] at h),
   fun _ j => by cases j <;> rfl,
   fun _ => rfl⟩


/-! ### (4) the transcribed per-keyword builders (Model/JsonSchemaCC.lean): target language `CC`,
`translate`, and exactness of the leaf builders and of `type` w.r.t. the oracle -/

/-- the kind skeleton for the SYNTACTIC constraints the transcribed builders produce: `finalize`
accepts iff the kind is allowed, the all-constraints hold and the constraints of that kind hold -/
theorem C13_cc_kind_skeleton (re) (st : TSt) (j : Json) (hOwn : CCm.Own re st)
    (hknown : st.all.all (acc re · j) = true → hasCore st.known (coreOf j) = true)
    (hsub : ∀ t, hasCore st.allowed t = true → hasCore st.known t = true) :
    acc re (CCm.finalize st) j =
      (hasCore st.allowed (coreOf j) && st.all.all (acc re · j) &&
        (st.types (coreOf j)).all (acc re · j)) :=
  CCm.finalize_acc re st j hOwn hknown hsub

/-- EXACTNESS of the leaf builders (minimum, maximum, exclusiveMinimum, exclusiveMaximum, multipleOf,
minLength, maxLength, pattern, minItems, maxItems), for every instance: the builder is `state.add`
of a constraint `c` of core type `t`, and the JSON Schema keyword holds iff the instance is of another
kind or the emitted CUE constraint accepts it -/
theorem C13_leaf_exact (re rec res kws) (kw : Kw) (t c) (h : leafOf kw = some (t, c)) (tr st) (j : Json) :
    stepKw tr st kw = addC st t c ∧
    kwHolds re rec res kws kw j = some (coreOf j != t || acc re c j) :=
  ⟨CCm.stepKw_leaf tr st kw t c h, CCm.leaf_exact re rec res kws kw t c h j⟩

/-- … and on the state: the builder conjoins exactly the keyword's verdict to what `finalize` accepts -/
theorem C13_leaf_step (re tr rec res kws) (st : TSt) (kw : Kw) (t c) (h : leafOf kw = some (t, c))
    (j : Json) (b : Bool) (hb : kwHolds re rec res kws kw j = some b) :
    stAcc re (stepKw tr st kw) j = (stAcc re st j && b) :=
  CCm.leaf_step re tr rec res kws st kw t c h j b hb

/-- the leaf builders keep the ownership invariant `finalize` needs -/
theorem C13_leaf_own (re tr) (st : TSt) (kw : Kw) (t c) (h : leafOf kw = some (t, c))
    (hO : CCm.Own re st) : CCm.Own re (stepKw tr st kw) := by
  rw [CCm.stepKw_leaf tr st kw t c h]
  exact CCm.Own_addC re st t c hO (CCm.leaf_own re kw t c h)

-- non-vacuity: every listed keyword is a leaf; `{"minimum":3}` step on the initial state
example : leafOf (.minimum ⟨3, 1⟩) = some (.num, .bound .ge ⟨3, 1⟩) := rfl
example : leafOf (.minItems 2) = some (.array, .listOpen [.top, .top] .top) := rfl
example : (stAcc tinyRe (stepKw (translate 0) (TSt.init KSet.full) (.minimum ⟨3, 1⟩)) (.num ⟨5, 1⟩),
           stAcc tinyRe (stepKw (translate 0) (TSt.init KSet.full) (.minimum ⟨3, 1⟩)) (.num ⟨1, 1⟩),
           stAcc tinyRe (stepKw (translate 0) (TSt.init KSet.full) (.minimum ⟨3, 1⟩)) (.str "a"))
    = (true, false, true) := by decide

/-- EXACTNESS of `constraintType` under the two guards that exclude the known deviations:
`typeOk` (not both "integer" and "number": `type-integer-and-number`) and `intForm` (an integral
instance is written as an int literal: `number-literal-form`) -/
theorem C13_type_step (re) (ts : List TypeName) (st : TSt) (j : Json)
    (hcl : CCm.IntClosed st.allowed) (hts : typeOk ts = true) (hj : intForm j = true) :
    stAcc re (bType ts st) j = (stAcc re st j && ts.any (typeMatches · j)) :=
  CCm.type_step re ts st j hcl hts hj

/-- FULL statement for `type` (no guards): false on model and code alike -/
def C13_type_step_stmt : Prop :=
  ∀ (ts : List TypeName) (j : Json),
    stAcc tinyRe (bType ts (TSt.init KSet.full)) j =
      (stAcc tinyRe (TSt.init KSet.full) j && ts.any (typeMatches · j))

/-- witness `number-literal-form`: `{"type":"integer"}` on `1.0` (replayed on the real importer) -/
theorem C13_type_step_false_literal : ¬ C13_type_step_stmt := by
  intro h
  have := h [.integer] (.num ⟨10, 10⟩)
  revert this
  decide

/-- witness `type-integer-and-number`: `{"type":["integer","number"]}` on `1.5` -/
theorem C13_type_step_false_both : ¬ C13_type_step_stmt := by
  intro h
  have := h [.integer, .number] (.num ⟨15, 10⟩)
  revert this
  decide

-- non-vacuity of the guards
example : typeOk [.integer, .string] = true ∧ intForm (.num ⟨3, 1⟩) = true ∧
    CCm.IntClosed (TSt.init KSet.full).allowed := ⟨rfl, rfl, fun _ => rfl⟩

/-- `prefixItems` as emitted (`[a, b, ...]`) REQUIRES the prefix elements to be present, JSON
Schema does not: `{"prefixItems":[{"type":"string"}]}` accepts `[]` per the specification, the
translation rejects it (model: here; code: replayed by the harness and counted as an OBSERVATION —
prefixItems is outside the property's keyword subset, so this is not a finding) -/
theorem C13_prefixItems_presence_false :
    let s : Schema := .obj [.prefixItems [.obj [.type [.string]]]]
    valid tinyRe s 5 s (.arr []) = some true ∧
    acc tinyRe (translate 5 KSet.full s).expr (.arr []) = false := by
  decide

/-- SEMANTIC PRESERVATION THROUGH `translate`, by induction over nested schemas (any depth), for the
guarded fragment `fragOK`: leaf keywords (minimum, maximum, exclusiveMinimum, exclusiveMaximum,
multipleOf, minLength, maxLength, pattern, minItems, maxItems), `type`, `not`, `anyOf`, `oneOf`,
minContains/maxContains without contains, uniqueItems:false — with the guards evaluated ALONG the
real translation (on the state each builder sees): `typeOk` for every `type`, and for `oneOf` "the
matchN(1,…) constraint is emitted or no member is kept" (the no-constraint shortcut is proved on the
semantic model, `C13_oneOf_enc`).  Instance guard: `intForm` (the known deviation
`number-literal-form`).  For every such schema and instance the oracle's verdict IS the acceptance
of the translated CUE constraint. -/
theorem C13_translate_exact_partial (re) (n : Nat) (s : Schema) (j : Json)
    (hs : fragOK n KSet.full s = true) (hj : intForm j = true) :
    valid re s n s j = some (acc re (translate n KSet.full s).expr j) :=
  CCm.translate_exact_partial re n s j hs hj

/-- the inductive statement behind it, RELATIVE to the allowed types `T` handed down by the parent
(int-closed) and at kind granularity: exactness, soundness w.r.t. the member's `allowedTypes` /
`knownTypes`, and "a member without constraints accepts exactly its allowed kinds" -/
theorem C13_translate_good (re) (root : Schema) (j : Json) (hj : intForm j = true) (n : Nat) (T : KSet)
    (s : Schema) (hT : CCm.IntClosed T) (hs : fragOK n T s = true) :
    CCm.GoodA re (translate n) (fun s => valid re root n s j) j T s :=
  CCm.translate_good re root j hj n T s hT hs

-- non-vacuity: a nested schema of the fragment (depth 3, combinators inside combinators, `type`
-- narrowing what the members see) passes the guard; and the theorem's two sides on it (a test)
example : fragOK 5 KSet.full (.obj [.type [.number, .string], .minLength 2,
    .anyOf [.obj [.minimum ⟨3, 1⟩, .not (.obj [.multipleOf ⟨2, 1⟩])], .obj [.type [.string]]],
    .oneOf [.obj [.maximum ⟨10, 1⟩], .obj [.pattern "^a"]]]) = true := by decide

/-- the step lemmas of the combinator builders on the state, relative to the allowed types -/
theorem C13_anyOf_step (re tr vf) (st : TSt) (ss : List Schema) (j : Json) (hI : CCm.SInv re st j)
    (hg : ∀ s ∈ ss, CCm.GoodA re tr vf j st.allowed s) :
    CCm.SInv re (bAnyOf tr ss st) j ∧ (any3 (ss.map vf)).isSome = true ∧
    stAcc re (bAnyOf tr ss st) j = (stAcc re st j && (any3 (ss.map vf)).getD false) :=
  CCm.anyOf_step re tr vf st ss j hI hg

theorem C13_oneOf_step (re tr vf) (st : TSt) (ss : List Schema) (j : Json) (hI : CCm.SInv re st j)
    (hg : ∀ s ∈ ss, CCm.GoodA re tr vf j st.allowed s)
    (hneeds : (CCm.oneOfNeeds KSet.empty (keptSubs tr st.allowed ss) ||
      (keptSubs tr st.allowed ss).isEmpty) = true) :
    CCm.SInv re (bOneOf tr ss st) j ∧ (one3 (ss.map vf)).isSome = true ∧
    stAcc re (bOneOf tr ss st) j = (stAcc re st j && (one3 (ss.map vf)).getD false) :=
  CCm.oneOf_step re tr vf st ss j hI hg hneeds

theorem C13_not_step (re tr vf) (st : TSt) (s : Schema) (j : Json) (hI : CCm.SInv re st j)
    (hg : CCm.GoodA re tr vf j KSet.full s) :
    CCm.SInv re (bNot tr s st) j ∧ (not3 (vf s)).isSome = true ∧
    stAcc re (bNot tr s st) j = (stAcc re st j && (not3 (vf s)).getD false) :=
  CCm.not_step re tr vf st s j hI hg

/-! #### enum / const / uniqueItems: CUE literal equality = JSON equality on normal-form data -/

/-- on data in normal form (positive denominators, integral numbers written as int literals — the
complement is the known deviation `number-literal-form`) the equality CUE decides between two
literals is JSON Schema's equality, for nested arrays and objects too -/
theorem C13_litEq_eq_jeq (a b : Json) (ha : CCm.normal a = true) (hb : CCm.normal b = true) :
    CCm.litEq a b = jeq a b :=
  CCm.litEq_eq_jeq a b ha hb

/-- `const` ↦ the literal `constValue(v)`: exact -/
theorem C13_const_exact (re rec res kws) (v j : Json) (hv : CCm.normal v = true)
    (hj : CCm.normal j = true) :
    kwHolds re rec res kws (.const v) j = some (acc re (.lit v) j) :=
  CCm.const_exact re rec res kws v j hv hj

/-- `enum` ↦ the disjunction of the literals whose kind is allowed: exact for every instance whose
own CUE kind is allowed (the values dropped by `constraintEnum` cannot equal such an instance) -/
theorem C13_enum_exact (re rec res kws) (allowed : KSet) (vs : List Json) (j : Json)
    (hvs : ∀ v ∈ vs, CCm.normal v = true) (hj : CCm.normal j = true)
    (hk : allowed (kindOf j) = true) :
    kwHolds re rec res kws (.enum vs) j = some
      (match (vs.filter (fun v => allowed (kindOf v))).map CC.lit with
       | [] => false
       | c :: cs => acc re (CCm.foldOr c cs) j) :=
  CCm.enum_exact re rec res kws allowed vs j hvs hj hk

/-- `uniqueItems: true` ↦ `list.UniqueItems()`: exact on normal-form arrays -/
theorem C13_uniqueItems_exact (re rec res kws) (j : Json) (hj : CCm.normal j = true) :
    kwHolds re rec res kws (.uniqueItems true) j =
      some (coreOf j != .array || acc re .uniqueItems j) :=
  CCm.uniqueItems_exact re rec res kws j hj

-- non-vacuity: nested normal-form data; and outside normal form the two equalities differ (1 vs 1.0)
example : CCm.normal (.arr [.num ⟨1, 1⟩, .obj [("k", .num ⟨15, 10⟩)]]) = true := by decide
example : CCm.litEq (.num ⟨1, 1⟩) (.num ⟨10, 10⟩) = false ∧ jeq (.num ⟨1, 1⟩) (.num ⟨10, 10⟩) = true := by
  decide

/-- THE semantic-preservation statement for the WHOLE transcribed subset (`inModel`): -- OPEN.
Proved: `C13_translate_exact_partial` (fragment above).  Exactly missing, each a `kw_step` case of
Proofs/JsonSchemaCCMain.lean plus its guard in `kwOk`:
 * `allOf_step`: spec of `allOfLoop` (member-by-member narrowing; invariant "hasCore al' ∧ all hasC
   members accept ⇔ all members valid", region of `C13_allOf_enc_partial`, no literal `false` member);
 * `ifThenElse_step`: `bIfThenElse` after the phases + tracking `st.ifS/thenS/elseS = findIf/findThen/
   findElse kws` under distinct keys (the `then` narrowing is covered by `GoodA.sound` of `if`);
 * `oneOf_noNeeds` through `translate` (IntClosed in place of `Sub.WF.whole`);
 * `enum_step` / `const_step`: the constraint-level exactness is proved (`C13_enum_exact`,
   `C13_const_exact`, `C13_litEq_eq_jeq`); missing is the state-level step with the kind-level (not
   core-level) invariant `stAcc st j → st.allowed (kindOf j)`, since enum/const can leave `{float}`;
 * `contains_step`, `items_step`, `uniqueItems_step`: instance guard `intForm` on all array
   elements, `minItems ≥ len(prefixItems)` for prefixItems. -/
def C13_translate_exact_stmt (guard : Nat → Schema → Json → Prop) : Prop :=
  ∀ (n : Nat) (s : Schema) (j : Json), inModel n s = true → guard n s j →
    valid tinyRe s n s j = some (acc tinyRe (translate n KSet.full s).expr j)

end CueVerif.C13
