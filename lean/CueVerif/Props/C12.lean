/-
C12 — `cue export` / `cue import` are inverse across JSON, YAML, TOML and CUE.

The Lean side of this property is the TOML codec (the JSON and YAML legs are C10 / C11; the
CLI composition is exercised by the harness on the `cue` binary built from the working tree).
Only statements live here; the proofs are in CueVerif/Proofs/Toml{Key,Round,Sem,EmitValid}.lean.

Model: CueVerif/Model/Toml.lean (decoder state machine of encoding/toml/decode.go over the
root expressions of the go-toml parser; what the encoder emits for a data tree).
Specification: CueVerif/Spec/Toml.lean (TOML 1.0.0 as a store of defined paths).
-/
import CueVerif.Proofs.TomlKey
import CueVerif.Proofs.TomlRound
import CueVerif.Proofs.TomlSem
import CueVerif.Proofs.TomlEmitValid
namespace CueVerif.C12
open CueVerif CueVerif.Toml CueVerif.Toml.Spec

/-! ### rooted keys -/

/-- Distinct key paths have distinct rooted-key strings: quoting keeps `"a.b"` apart from
`a.b`, and the index of an array element (`a.0`) apart from a label spelled "0" (`a."0"`).
For EVERY pair of paths (labels are arbitrary byte strings, indices arbitrary naturals),
under the contract of `quoteLabelIfNeeded` (`LabelQ.OK`). -/
theorem C12_rooted_key_injective (L : LabelQ) (hL : L.OK) (p q : Path)
    (h : rooted L p = rooted L q) : p = q :=
  Toml.rooted_injective L hL p q h

/-- `strings.HasPrefix(rooted q, rooted p + ".")` — the test `findArrayPrefix` uses to forget
sub-keys and to find the enclosing table array — holds exactly when `p` is a strict path
prefix of `q`.  Together with injectivity this is what lets the decoder model use paths where
the Go code uses strings. -/
theorem C12_rooted_key_prefix (L : LabelQ) (hL : L.OK) (p q : Path) (hp : p ≠ []) :
    (rooted L p ++ [46]).isPrefixOf (rooted L q) = strictPrefix p q :=
  Toml.rooted_prefix L hL p q hp

-- non-vacuity (a sample, not the property): with a quoting function that satisfies the
-- contract, label "0" and index 0 are spelled differently
example : rooted ⟨fun n => n != [97], fun n => 34 :: (n ++ [34])⟩ [.key [97], .key [48]]
    ≠ rooted ⟨fun n => n != [97], fun n => 34 :: (n ++ [34])⟩ [.key [97], .idx 0] := by decide

/-! ### the round trip encoder → decoder -/

/-- For EVERY TOML-safe data tree (any depth and width; tables, arrays of tables nested in
each other, mixed arrays, empty tables and arrays, arbitrary key bytes and scalars): the
decoder accepts what the encoder emits and the produced syntax tree asserts exactly the
facts of the tree — same tables, same arrays with the same elements at the same indices,
same scalars at the same paths. -/
theorem C12_toml_roundtrip (t : Tree) (evs : List Ev) (hs : SafeTree t) (he : emit t = some evs) :
    ∃ fs, decode evs = .ok fs ∧ SameData fs (t.facts []) :=
  Toml.roundtrip t evs hs he

-- non-vacuity: a tree with a nested array of tables, a mixed array and an empty table is
-- TOML-safe and has an emission
example : SafeTree (.tbl [([102], .arr [.tbl [([97], .sc ⟨1, [49]⟩)], .tbl [([98], .arr [.tbl []])]]),
    ([103], .arr [.tbl [], .sc ⟨1, [49]⟩]), ([104], .tbl [])]) ∧
    (emit (.tbl [([102], .arr [.tbl [([97], .sc ⟨1, [49]⟩)], .tbl [([98], .arr [.tbl []])]]),
    ([103], .arr [.tbl [], .sc ⟨1, [49]⟩]), ([104], .tbl [])])).isSome := by
  simp [SafeTree, SafeFields, SafeElems, emit]

/-! ### decoder versus the TOML specification -/

/-- The full statement "the decoder IS the reference semantics, errors included". -/
def C12_toml_sem_stmt : Prop :=
  ∀ evs : List Ev,
    match tomlSpec evs, decode evs with
    | .ok a, .ok b => SameData a b
    | .error _, .error _ => True
    | _, _ => False

/-- It is FALSE on model and code alike: the decoder accepts documents the specification
rejects.  Witness `a.b = 1` followed by `[a]` (a table created by a dotted key re-opened by
a header; `cue export` of that file exits 0; class toml-lenient-redefinition). -/
theorem C12_toml_sem_false : ¬ C12_toml_sem_stmt :=
  Toml.sem_false

/-- What is believed to hold: on EVERY document the specification accepts, the decoder succeeds
and yields the same data (hence: whenever the decoder reports an error, or dereferences its
stale array pointer, the document is invalid TOML).
-- OPEN: proved below for documents without `[[array table]]` headers; the general case is
checked by exhaustive evaluation (every spec-accepted stream up to depth 4 over 8 keys and 6
expression shapes, 1.3 million prefixes, Proofs/TomlSem.lean header) and on every generated
document of every run (op `tomldata`), not proved. -/
def C12_toml_sem_partial_stmt : Prop :=
  ∀ (evs : List Ev) (fs : List Fact), tomlSpec evs = .ok fs →
    ∃ fs', decode evs = .ok fs' ∧ SameData fs fs'

/-- Proved part: every document WITHOUT `[[…]]` headers (tables, sub-tables in any order,
implicit super-tables, dotted keys, inline tables, static arrays, any depth) that the
specification accepts is accepted by the decoder with the same data. -/
theorem C12_toml_sem_partial_noarrays (evs : List Ev) (fs : List Fact)
    (hna : ∀ e ∈ evs, ∀ ks, e ≠ .arrayTable ks) (h : tomlSpec evs = .ok fs) :
    ∃ fs', decode evs = .ok fs' ∧ SameData fs fs' :=
  Toml.sem_partial_noarrays evs fs hna h

/-- Every emission of the encoder is valid TOML (accepted by the reference semantics) with the
meaning of the tree: for EVERY TOML-safe tree.  (Independent of `C12_toml_roundtrip`, which is
proved directly on the decoder model.) -/
theorem C12_toml_emit_valid (t : Tree) (evs : List Ev) (hs : SafeTree t) (he : emit t = some evs) :
    ∃ fs, tomlSpec evs = .ok fs ∧ SameData fs (t.facts []) :=
  Toml.emit_valid t evs hs he

-- non-vacuity: a document without array tables (a sub-table before its super-table, a dotted
-- key, an inline table with a dotted key) is accepted by the specification
example : (tomlSpec [.table [[97], [98]], .table [[97]], .kv [[99], [100]] (.sc ⟨1, [49]⟩),
    .kv [[101]] (.inl [([[102], [103]], .arr [.sc ⟨3, [116]⟩])])]).toOption.isSome = true := by decide

end CueVerif.C12
