/-
C14 — Module version selection is minimal, sufficient, and order/schedule independent;
version comparison is a total order agreeing with SemVer 2.0 precedence.

Only statements live here; the proofs are in CueVerif/Proofs/{Semver,Mvs}.lean.
-/
import CueVerif.Proofs.Semver
import CueVerif.Proofs.Mvs
import CueVerif.Proofs.Work
import CueVerif.Proofs.MvsReq
import CueVerif.Proofs.MvsFifo
import CueVerif.Proofs.MvsDown
import CueVerif.Proofs.MvsOrder
import CueVerif.Proofs.Queue
import CueVerif.Proofs.VersionsMax
namespace CueVerif.C14
open CueVerif

/-! ### version comparison -/

/-- On valid version strings `Compare` is SemVer 2.0.0 precedence of the versions they
denote: numeric fields numerically, pre-release below release, identifiers per §11.4,
build metadata ignored. -/
theorem C14_semver_spec (v w : Semver.Str) (pv pw : Semver.Parsed)
    (hv : Semver.parse v = some pv) (hw : Semver.parse w = some pw) :
    Semver.compare' v w = Semver.specCmp (Semver.structure' pv) (Semver.structure' pw) :=
  Semver.compare'_eq_spec v w pv pw hv hw

/-- Invalid versions are all equal and below every valid one. -/
theorem C14_semver_invalid (v w : Semver.Str) :
    (Semver.parse v = none → Semver.parse w = none → Semver.compare' v w = .eq) ∧
    (Semver.parse v = none → (Semver.parse w).isSome → Semver.compare' v w = .lt) ∧
    ((Semver.parse v).isSome → Semver.parse w = none → Semver.compare' v w = .gt) :=
  Semver.compare'_invalid v w

/-- `Compare` is a total preorder on all strings: reflexive, antisymmetric in the sense
`compare w v = (compare v w).swap`, transitive. -/
theorem C14_semver_refl (v : Semver.Str) : Semver.compare' v v = .eq :=
  Semver.compare'_refl v

theorem C14_semver_swap (v w : Semver.Str) :
    Semver.compare' w v = (Semver.compare' v w).swap :=
  Semver.compare'_swap v w

theorem C14_semver_trans (u v w : Semver.Str)
    (h1 : (Semver.compare' u v).isLE) (h2 : (Semver.compare' v w).isLE) :
    (Semver.compare' u w).isLE :=
  Semver.compare'_trans u v w h1 h2

/-- Two valid versions compare equal exactly when they denote the same structured
version (so: same canonical form; build metadata is ignored). -/
theorem C14_semver_eq_iff (v w : Semver.Str) (pv pw : Semver.Parsed)
    (hv : Semver.parse v = some pv) (hw : Semver.parse w = some pw) :
    Semver.compare' v w = .eq ↔ Semver.structure' pv = Semver.structure' pw :=
  Semver.compare'_eq_iff v w pv pw hv hw

/-- `compareInt` on digit strings without leading zeros is numeric comparison. -/
theorem C14_compareInt (x y : Semver.Str) (hx : Semver.GoodNum x) (hy : Semver.GoodNum y) :
    Semver.compareInt x y = compare (Semver.digitsVal x) (Semver.digitsVal y) :=
  Semver.compareInt_eq x y hx hy

-- non-vacuity: a concrete pair of valid versions meets the hypotheses
example : (Semver.parse ("v1.2.3-rc.1+b".toList.map (·.toNat))).isSome = true := by decide

/-! ### minimal version selection under every schedule -/

/-- Every reachable state of the concurrent traversal: the selected version of each path
is the maximum version over the nodes marked so far, marked nodes are graph-reachable,
and `Require` is called at most once per node and only for reachable nodes (the two
panics of `Graph.Require` can never fire). -/
theorem C14_invariant (g : Mvs.Graph) (roots : List Mvs.Node) (s : Mvs.St)
    (h : Mvs.Run g roots s) : Mvs.Inv g roots s :=
  Mvs.run_inv g roots s h

/-- When `Work.Do` returns, the visited set is exactly the reachable set: nothing
unreachable was visited, nothing reachable was missed. -/
theorem C14_terminal (g : Mvs.Graph) (roots : List Mvs.Node) (s : Mvs.St)
    (h : Mvs.Run g roots s) (ht : Mvs.Terminal s) :
    ∀ n, n ∈ s.added ↔ Mvs.Reach g roots n :=
  Mvs.terminal_added g roots s h ht

/-- ... and the selected version of every path is the maximum of the versions required
along reachable paths, nothing higher: it is attained by a reachable node (or is "none"
when the path is unreachable) and bounds every reachable node of that path. -/
theorem C14_minimal_sufficient (g : Mvs.Graph) (roots : List Mvs.Node) (s : Mvs.St)
    (h : Mvs.Run g roots s) (ht : Mvs.Terminal s) (p : Nat) :
    (∀ v, Mvs.Reach g roots (p, v) → v ≤ s.sel p) ∧
    (s.sel p = 0 ∨ Mvs.Reach g roots (p, s.sel p)) :=
  Mvs.terminal_sel g roots s h ht p

/-- Any two complete runs (any interleaving of any number of runners, any order in which
todo items are picked) select the same versions. -/
theorem C14_schedule_indep (g : Mvs.Graph) (roots : List Mvs.Node) (s t : Mvs.St)
    (hs : Mvs.Run g roots s) (ht : Mvs.Run g roots t)
    (hs' : Mvs.Terminal s) (ht' : Mvs.Terminal t) :
    ∀ p, s.sel p = t.sel p :=
  Mvs.schedule_indep g roots s t hs ht hs' ht'

/-- Permuting requirement lists (and the root list) does not change reachability, hence
(by the two theorems above) not the selection either. -/
theorem C14_req_order (g g' : Mvs.Graph) (roots roots' : List Mvs.Node)
    (hg : ∀ m n, n ∈ g m ↔ n ∈ g' m) (hr : ∀ n, n ∈ roots ↔ n ∈ roots') :
    ∀ n, Mvs.Reach g roots n ↔ Mvs.Reach g' roots' n :=
  Mvs.reach_congr g g' roots roots' hg hr

/-- Each item is handed to a runner at most once: `required` never has duplicates. -/
theorem C14_once (g : Mvs.Graph) (roots : List Mvs.Node) (s : Mvs.St)
    (h : Mvs.Run g roots s) : s.required.Nodup :=
  (Mvs.run_inv g roots s h).nodup_required

-- non-vacuity: a diamond with a back edge has a complete run (the FIFO schedule)
example : (Mvs.runFifo (fun n => if n = (0,1) then [(1,1),(2,1)] else if n = (1,1) then [(3,1)]
    else if n = (2,1) then [(3,2)] else if n = (3,2) then [(1,1)] else []) 10 (Mvs.init [(0,1)])).sel 3 = 2 := by
  decide


/-! ### Upgrade, UpgradeAll, Req (mvs.go; transcribed in Model/MvsOps.lean)

`Mvs.IsSel g roots sel` says `sel` is the per-path maximum over the nodes reachable from the
roots: the specification of a build list, independent of any traversal. -/

/-- What every complete run of the concurrent traversal computes is the selection in the sense
of `IsSel` … -/
theorem C14_terminal_isSel (g : Mvs.Graph) (roots : List Mvs.Node) (s : Mvs.St)
    (h : Mvs.Run g roots s) (ht : Mvs.Terminal s) : Mvs.IsSel g roots s.sel :=
  Mvs.terminal_isSel g roots s h ht

/-- … and there is only one. -/
theorem C14_selection_unique (g : Mvs.Graph) (roots : List Mvs.Node) (s t : Nat → Nat)
    (hs : Mvs.IsSel g roots s) (ht : Mvs.IsSel g roots t) : ∀ p, s p = t p :=
  Mvs.isSel_unique g roots s t hs ht

/-- `buildList` with ANY upgrade callback (this covers `UpgradeAll` and `Upgrade`) never
selects a lower version than `BuildList` does.  `hnone`: the version "none" has no
requirements (`buildList` never calls `Required` for it). -/
theorem C14_up_never_lowers (g : Mvs.Graph) (up : Mvs.Node → Mvs.Node) (roots : List Mvs.Node)
    (s t : Nat → Nat) (hnone : ∀ p, g (p, 0) = [])
    (hs : Mvs.IsSel g roots s) (ht : Mvs.IsSel (Mvs.upGraph g up) roots t) : ∀ p, s p ≤ t p :=
  Mvs.up_never_lowers g up roots s t hnone hs ht

/-- `Upgrade(target, reqs, ups…)` (override list + `upgradeTo` callback) never lowers a
selected version … -/
theorem C14_upgrade_never_lowers (g : Mvs.Graph) (target : Mvs.Node) (ups : List Mvs.Node)
    (s t : Nat → Nat) (ht0 : target.2 ≠ 0) (hnone : ∀ p, g (p, 0) = [])
    (hs : Mvs.IsSel g [target] s) (ht : Mvs.IsSel (Mvs.upgradeGraph g target ups) [target] t) :
    ∀ p, s p ≤ t p :=
  Mvs.upgrade_never_lowers g target ups s t ht0 hnone hs ht

/-- … and selects at least every requested version, whether or not the target required the
path before. -/
theorem C14_upgrade_selects_requested (g : Mvs.Graph) (target : Mvs.Node) (ups : List Mvs.Node)
    (t : Nat → Nat) (ht0 : target.2 ≠ 0)
    (ht : Mvs.IsSel (Mvs.upgradeGraph g target ups) [target] t) (u : Mvs.Node) (hu : u ∈ ups) :
    u.2 ≤ t u.1 :=
  Mvs.upgrade_selects_requested g target ups t ht0 ht u hu

/-- `UpgradeAll`: every module met by the upgraded traversal is selected at least at the
version `reqs.Upgrade` returns for it. -/
theorem C14_upgradeAll_selects_latest (g : Mvs.Graph) (target : Mvs.Node)
    (latest : Mvs.Node → Mvs.Node) (t : Nat → Nat)
    (ht : Mvs.IsSel (Mvs.upgradeAllGraph g target latest) [target] t) (m : Mvs.Node)
    (hm : Mvs.Reach (Mvs.upgradeAllGraph g target latest) [target] m) (hp : m.1 ≠ target.1) :
    (latest m).2 ≤ t (latest m).1 :=
  Mvs.upgradeAll_selects_latest g target latest t ht m hm hp

-- non-vacuity (a test on one graph, not the property): the target requires B1; upgrading
-- C (not required before) to C2 and B to B3: `upgradeList` appends C@none, the callback maps
-- B1 ↦ B3 and C@none ↦ C2
example :
    Mvs.buildListUp (Mvs.upgradeGraph (fun n => if n = (0, 9) then [(1, 1)] else []) (0, 9)
      [(2, 2), (1, 3)]) 10 (0, 9) = some [(0, 9), (1, 3), (2, 2)] := by decide

/-- **Req is sufficient.**  For every graph (cyclic or not), every `base` whose paths are in
the build list, and every fuel with which the transcription of `Req` terminates: the graph
in which the main module requires exactly the returned list has the same selection, i.e.
the same build list.  (`list` is the build list `Req` starts from.) -/
theorem C14_req_sufficient (g : Mvs.Graph) (fuel : Nat) (main : Mvs.Node) (base : List Nat)
    (sel : Nat → Nat) (list min : List Mvs.Node)
    (hsel : Mvs.IsSel g [main] sel) (hbl : Mvs.IsBuildList sel list)
    (hbase : ∀ p ∈ base, sel p ≠ 0)
    (h : Mvs.reqCore g fuel main base list = some min) :
    Mvs.IsSel (Mvs.override g main min) [main] sel :=
  Mvs.req_sufficient g fuel main base sel list min hsel hbl hbase h

/-- **Req is minimal.**  No element whose path is not in `base` can be dropped: without it
the graph no longer has the selection `sel` (the dropped module is not even reachable). -/
theorem C14_req_minimal (g : Mvs.Graph) (fuel : Nat) (main : Mvs.Node) (base : List Nat)
    (sel : Nat → Nat) (list min : List Mvs.Node) (hbl : Mvs.IsBuildList sel list)
    (h : Mvs.reqCore g fuel main base list = some min) (r : Mvs.Node) (hr : r ∈ min)
    (hb : r.1 ∉ base) :
    ¬ Mvs.Reach (Mvs.override g main (min.filter fun x => x != r)) [main] r ∧
    ¬ Mvs.IsSel (Mvs.override g main (min.filter fun x => x != r)) [main] sel :=
  ⟨Mvs.req_minimal_reach g fuel main base sel list min hbl h r hr hb,
   Mvs.req_minimal g fuel main base sel list min hbl h r hr hb⟩

/-- `base` is honoured, and only selected versions are listed. -/
theorem C14_req_base (g : Mvs.Graph) (fuel : Nat) (main : Mvs.Node) (base : List Nat)
    (sel : Nat → Nat) (list min : List Mvs.Node) (hbl : Mvs.IsBuildList sel list)
    (h : Mvs.reqCore g fuel main base list = some min) :
    (∀ p ∈ base, (p, sel p) ∈ min) ∧ (∀ r ∈ min, r.2 = sel r.1) :=
  Mvs.req_base g fuel main base sel list min hbl h

/-- The final sort of `Req` only permutes the list (so, by `C14_req_order`, the three
theorems above hold for the sorted list as well). -/
theorem C14_req_sort (n : Mvs.Node) (l : List Mvs.Node) : n ∈ Mvs.sortByPath l ↔ n ∈ l :=
  Mvs.mem_sortByPath n l

-- non-vacuity (a test on one graph): A → B1, C1; B1 → C1; C1 → B1 (a cycle).
-- Req keeps B1 alone; with base = [C] it keeps C1 alone.
example :
    let g : Mvs.Graph := fun n =>
      if n = (0, 9) then [(1, 1), (2, 1)] else if n = (1, 1) then [(2, 1)]
      else if n = (2, 1) then [(1, 1)] else []
    Mvs.buildList g 10 (0, 9) = some [(0, 9), (1, 1), (2, 1)] ∧
    Mvs.reqCore g 10 (0, 9) [] [(0, 9), (1, 1), (2, 1)] = some [(1, 1)] ∧
    Mvs.reqCore g 10 (0, 9) [2] [(0, 9), (1, 1), (2, 1)] = some [(2, 1)] := by decide

/-- The executable schedule the driver answers with (`buildListUp`: FIFO order, one runner,
then `Graph.BuildList`) returns THE build list of the graph it is given: the result is the
list of selected versions of the unique selection `IsSel`, target first.  Hence every
`mvs` / `build` / `upgrade` / `upgradeall` answer of the driver is the specified build list. -/
theorem C14_fifo_is_selection (g : Mvs.Graph) (fuel : Nat) (target : Mvs.Node)
    (list : List Mvs.Node) (ht0 : target.2 ≠ 0) (h : Mvs.buildListUp g fuel target = some list) :
    ∃ sel, Mvs.IsSel g [target] sel ∧ Mvs.IsBuildList sel list ∧
      list.head? = some (target.1, sel target.1) :=
  Mvs.buildListUp_spec g fuel target list ht0 h

/-- **`Req` end to end** — `BuildList`, Algorithm R and the final sort, as one function of the
graph: for every graph in which "none" has no requirements, every `base` and every fuel with
which the transcription terminates, the returned list (i) contains the selected version of
every `base` path, (ii) is sufficient: the main module requiring exactly it yields the same
selection, (iii) is minimal: dropping an element outside `base` changes the selection. -/
theorem C14_req_spec (g : Mvs.Graph) (fuel : Nat) (main : Mvs.Node) (base : List Nat)
    (out : List Mvs.Node) (hm0 : main.2 ≠ 0) (hnone : ∀ p, g (p, 0) = [])
    (h : Mvs.req g fuel main base = some out) :
    ∃ sel, Mvs.IsSel g [main] sel ∧
      (∀ p ∈ base, (p, sel p) ∈ out) ∧
      ((∀ p ∈ base, sel p ≠ 0) → Mvs.IsSel (Mvs.override g main out) [main] sel) ∧
      (∀ r ∈ out, r.1 ∉ base →
        ¬ Mvs.IsSel (Mvs.override g main (out.filter fun x => x != r)) [main] sel) :=
  Mvs.req_spec g fuel main base out hm0 hnone h

-- non-vacuity (a test): the scenario "blog" of mvs_test.go restricted to B, C, D:
-- A → B1, C2; B1 → D3; C2 → D4.  Req A = B1 C2; with base D: B1 C2 D4.
example :
    let g : Mvs.Graph := fun n =>
      if n = (0, 9) then [(1, 1), (2, 2)] else if n = (1, 1) then [(3, 3)]
      else if n = (2, 2) then [(3, 4)] else []
    Mvs.req g 12 (0, 9) [] = some [(1, 1), (2, 2)] ∧
    Mvs.req g 12 (0, 9) [3] = some [(1, 1), (2, 2), (3, 4)] := by decide

/-- **`Downgrade` stays within the requested versions and never upgrades** — for every graph,
every set of known versions `avail` (what `reqs.Previous` enumerates), every list of requested
downgrades and every fuel with which the transcription terminates: the result `out` is the
build list (`IsBuildList t out`, `t` the selection) of the target with a replaced requirement
list `l`; every path named in `downs` is selected at most at the requested version (or not
at all: `t p = 0`), and no path of the original build list is selected above its original
version `s0 p`.  (Maximality of the result is NOT proved: see notes/C14.md.) -/
theorem C14_downgrade_bound (g : Mvs.Graph) (avail : List Mvs.Node) (fuel : Nat)
    (target : Mvs.Node) (downs out : List Mvs.Node) (ht0 : target.2 ≠ 0)
    (hnone : ∀ p, g (p, 0) = [])
    (h : Mvs.downgrade g avail fuel target downs = some out) :
    ∃ (s0 t : Nat → Nat) (l : List Mvs.Node),
      Mvs.IsSel g [target] s0 ∧ Mvs.IsSel (Mvs.override g target l) [target] t ∧
      Mvs.IsBuildList t out ∧
      (∀ d ∈ downs, d.1 ≠ target.1 → t d.1 ≤ d.2) ∧
      (∀ p, p ≠ target.1 → s0 p ≠ 0 → t p ≤ s0 p) :=
  Mvs.downgrade_bound g avail fuel target downs out ht0 hnone h

-- non-vacuity (a test): A → B2, C2; B2 → D2; B1 → D1; C2 → D1.  Downgrading D to D1
-- excludes B2 (it requires D2), `Previous` offers B1, which is compatible: A B1 C2 D1.
example :
    let g : Mvs.Graph := fun n =>
      if n = (0, 9) then [(1, 2), (2, 2)] else if n = (1, 2) then [(3, 2)]
      else if n = (1, 1) then [(3, 1)] else if n = (2, 2) then [(3, 1)] else []
    Mvs.downgrade g [(1, 1), (1, 2), (2, 2), (3, 1), (3, 2)] 12 (0, 9) [(3, 1)]
      = some [(0, 9), (1, 1), (2, 2), (3, 1)] := by decide

/-- **`Graph.BuildList`'s order is a function of the graph alone.**  The Go code ranges over
the map `g.selected` (unspecified order) and sorts; for any two iteration orders `e1`, `e2`
of the map (the same entries, one per path) the returned list is the same: the selected
versions of the root paths in root order, then everything else strictly increasing by path. -/
theorem C14_buildlist_order (roots : List Mvs.Node) (sel : Nat → Nat) (e1 e2 : List Mvs.Node)
    (h1 : e1.Pairwise fun a b => a.1 ≠ b.1) (h2 : e2.Pairwise fun a b => a.1 ≠ b.1)
    (h : ∀ n, n ∈ e1 ↔ n ∈ e2) :
    Mvs.graphBuildList roots sel e1 = Mvs.graphBuildList roots sel e2 ∧
    Mvs.StrictByPath (Mvs.sortByPath (e1.filter fun x => !(roots.any fun r => r.1 == x.1))) :=
  ⟨Mvs.graphBuildList_order_indep roots sel e1 e2 h1 h2 h, Mvs.graphBuildList_sorted roots e1 h1⟩

-- non-vacuity (a test): two roots of one path, three further paths, two iteration orders
example :
    Mvs.graphBuildList [(0, 9), (0, 3), (4, 1)] (fun p => if p = 0 then 9 else if p = 4 then 2 else p)
      [(3, 3), (0, 9), (4, 2), (1, 1), (2, 2)] = [(0, 9), (4, 2), (1, 1), (2, 2), (3, 3)] ∧
    Mvs.graphBuildList [(0, 9), (0, 3), (4, 1)] (fun p => if p = 0 then 9 else if p = 4 then 2 else p)
      [(2, 2), (4, 2), (1, 1), (0, 9), (3, 3)] = [(0, 9), (4, 2), (1, 1), (2, 2), (3, 3)] := by decide

/-! ### the work set's termination detection (par.Work.Do / runner) -/

/-- A runner returns only when nothing is left: in every reachable state in which some
runner has returned, `todo` is empty and every other runner has returned or has been
woken by the final Broadcast (none is idle, sleeping or still running `f`). -/
theorem C14_work_return_safe (n m : Nat) (s : Work.St) (h : Work.Run n m s)
    (hd : Work.Phase.done ∈ s.phases) :
    s.todo = 0 ∧ ∀ p ∈ s.phases, p = .done ∨ p = .woken :=
  Work.return_safe n m s h hd

/-- No lost wake-up, no deadlock: a reachable state in which no runner can take a step is
one in which every runner has returned (and then, by the theorem above, todo is empty). -/
theorem C14_work_no_deadlock (n m : Nat) (s : Work.St) (h : Work.Run n m s) (hn : 0 < n)
    (hs : Work.Stuck s) : (∀ p ∈ s.phases, p = .done) ∧ s.todo = 0 :=
  Work.no_deadlock n m s h hn hs

-- non-vacuity: two runners, one initial item that adds one more: a concrete run in which the
-- first runner has returned and the second has been woken by the final Broadcast
example : Work.Run 2 1 { todo := 0, waiting := 2, phases := [.done, .woken] } := by
  have s0 : Work.Run 2 1 (Work.init 2 1) := .init
  have s1 := Work.Run.step s0 (Work.Step.idleTake _ 0 1 (by decide) (by decide))
  have s2 := Work.Run.step s1 (Work.Step.idleEmpty _ 1 (by decide) (by decide))
  have s3 := Work.Run.step s2 (Work.Step.add _ 0 0 (by decide))
  have s4 := Work.Run.step s3 (Work.Step.finish _ 0 (by decide))
  have s5 := Work.Run.step s4 (Work.Step.idleTake _ 0 0 (by decide) (by decide))
  have s6 := Work.Run.step s5 (Work.Step.finish _ 0 (by decide))
  have s7 := Work.Run.step s6 (Work.Step.wokenEmpty _ 1 (by decide) (by decide))
  have s8 := Work.Run.step s7 (Work.Step.idleEmpty _ 0 (by decide) (by decide))
  simpa [Work.init, Work.enter, Work.broadcast, Work.signal] using s8

/-! ### par.Queue (queue.go; Model/Queue.lean): any interleaving of Add / Idle / worker steps -/

/-- In every reachable state at most `maxActive` items are running, exactly `active` of them,
and a non-empty backlog means every slot is busy (the comment on `queueState.active`). -/
theorem C14_queue_bounded (max : Nat) (s : Queue.St) (h : Queue.Run max s) :
    s.running.length = s.active ∧ s.active ≤ max ∧ (s.backlog ≠ [] → s.active = max) :=
  let i := Queue.run_inv max s h
  ⟨i.running_len, i.bounded, i.backlog_full⟩

/-- Every added item is in exactly one place — queued, running or done — as often as it was
added: nothing is lost, nothing runs twice. -/
theorem C14_queue_once (max : Nat) (s : Queue.St) (h : Queue.Run max s) (i : Nat) :
    s.added.count i = s.backlog.count i + s.running.count i + s.done.count i :=
  (Queue.run_inv max s h).once i

/-- The idle channel is closed only while nothing is active and nothing is queued, and a
closed channel is never closed again (no panic). -/
theorem C14_queue_idle (max : Nat) (hm : 0 < max) (s : Queue.St) (h : Queue.Run max s) :
    (s.idle = some true → s.active = 0 ∧ s.backlog = [] ∧ s.running = []) ∧ s.panic = false := by
  have i := Queue.run_inv max s h
  refine ⟨fun hc => ?_, i.no_panic⟩
  have h0 := i.idle_closed hc
  refine ⟨h0, ?_, ?_⟩
  · cases hb : s.backlog with
    | nil => rfl
    | cons x xs =>
      have := i.backlog_full (by rw [hb]; exact List.cons_ne_nil _ _)
      omega
  · have := i.running_len
    rw [h0] at this
    exact List.length_eq_zero_iff.mp this

/-- The executable replay used to validate recorded implementation traces takes steps of the
model only. -/
theorem C14_queue_replay_is_run (max : Nat) (s t : Queue.St) (e : Queue.Ev)
    (hs : Queue.Run max s) (h : Queue.apply max s e = some t) : Queue.Run max t :=
  Queue.Run.step hs (Queue.apply_step max s t e h)

-- non-vacuity: maxActive = 1; Add 1, Add 2 (queued), Idle() (open), 1 ends (2 starts),
-- 2 ends: the channel is closed, both are done
example :
    (do let s ← Queue.apply 1 Queue.init (.add 1); let s ← Queue.apply 1 s (.add 2)
        let s ← Queue.apply 1 s .idle; let s ← Queue.apply 1 s (.fin 1)
        let s ← Queue.apply 1 s (.fin 2); pure (s.idle, s.done, s.active)) =
      some (some true, [2, 1], 0) := by decide

/-! ### module.Versions.Max and the comparison mvs derives from it (Model/VersionsMax.lean) -/

/-- `Versions.Max` returns one of its arguments and meets the contract `mvs.Reqs.Max` states:
`Max(v, "none") = v`, and the main module's version "" wins on either side. -/
theorem C14_versions_max_contract (v w : Semver.Str) :
    (Semver.versionsMax v w = v ∨ Semver.versionsMax v w = w) ∧
    Semver.versionsMax v Semver.noneStr = v ∧ Semver.versionsMax Semver.noneStr v = v ∧
    Semver.versionsMax [] v = [] ∧ Semver.versionsMax v [] = [] :=
  ⟨Semver.versionsMax_mem v w, Semver.versionsMax_none_right v, Semver.versionsMax_none_left v,
   Semver.versionsMax_main_left v, Semver.versionsMax_main_right v⟩

/-- The comparison `buildList` derives from two `Max` calls is `semver.Compare` on ordinary
versions (neither "none" nor ""), provided versions that compare equal are equal strings
(canonical versions without build metadata — what `module.NewVersion` admits) … -/
theorem C14_mvs_cmp_is_compare (a b : Semver.Str) (ha : a ≠ Semver.noneStr) (ha' : a ≠ [])
    (hb : b ≠ Semver.noneStr) (hb' : b ≠ []) (hcanon : Semver.compare' a b = .eq → a = b) :
    Semver.mvsCmp a b = Semver.compare' a b :=
  Semver.mvsCmp_ordinary a b ha ha' hb hb' hcanon

/-- … with "none" below and "" above every other version: versions are ranks of a linear
order with a bottom and a top, as the MVS model assumes. -/
theorem C14_mvs_cmp_ends (v : Semver.Str) :
    (v ≠ Semver.noneStr → Semver.mvsCmp v Semver.noneStr = .gt ∧ Semver.mvsCmp Semver.noneStr v = .lt) ∧
    (v ≠ [] → Semver.mvsCmp [] v = .gt ∧ Semver.mvsCmp v [] = .lt) :=
  ⟨Semver.mvsCmp_none v, Semver.mvsCmp_main v⟩

-- non-vacuity (tests): Max("v1.2.0", "v1.10.0") = "v1.10.0"; cmp("v1.0.0", "v1.0.0+b") is
-- `lt` in BOTH directions — the hypothesis `hcanon` is needed (build metadata)
example : Semver.versionsMax ("v1.2.0".toList.map (·.toNat)) ("v1.10.0".toList.map (·.toNat))
    = "v1.10.0".toList.map (·.toNat) := by decide
example : Semver.mvsCmp ("v1.0.0".toList.map (·.toNat)) ("v1.0.0+b".toList.map (·.toNat)) = .lt ∧
    Semver.mvsCmp ("v1.0.0+b".toList.map (·.toNat)) ("v1.0.0".toList.map (·.toNat)) = .lt := by decide

end CueVerif.C14
