/-
C14 — Module version selection is minimal, sufficient, and order/schedule independent;
version comparison is a total order agreeing with SemVer 2.0 precedence.

Only statements live here; the proofs are in CueVerif/Proofs/{Semver,Mvs}.lean.
-/
import CueVerif.Proofs.Semver
import CueVerif.Proofs.Mvs
import CueVerif.Proofs.Work
namespace CueVerif.C14
open CueVerif

/-! ### version comparison -/

/-- On valid version strings `Compare` is SemVer 2.0.0 precedence of the versions they
denote: numeric fields numerically, pre-release below release, identifiers per §11.4,
build metadata ignored. -/
theorem C14_semver_spec (v w : Semver.Str) (pv pw : Semver.Parsed)
    (hv : Semver.parse v = some pv) (hw : Semver.parse w = some pw) :
    Semver.compare' v w = Semver.specCmp (Semver.structure' pv) (Semver.structure' pw) :=
  Semver.compare'_eq_spec v w pv pw hv hw

/-- Invalid versions are all equal and below every valid one. -/
theorem C14_semver_invalid (v w : Semver.Str) :
    (Semver.parse v = none → Semver.parse w = none → Semver.compare' v w = .eq) ∧
    (Semver.parse v = none → (Semver.parse w).isSome → Semver.compare' v w = .lt) ∧
    ((Semver.parse v).isSome → Semver.parse w = none → Semver.compare' v w = .gt) :=
  Semver.compare'_invalid v w

/-- `Compare` is a total preorder on all strings: reflexive, antisymmetric in the sense
`compare w v = (compare v w).swap`, transitive. -/
theorem C14_semver_refl (v : Semver.Str) : Semver.compare' v v = .eq :=
  Semver.compare'_refl v

theorem C14_semver_swap (v w : Semver.Str) :
    Semver.compare' w v = (Semver.compare' v w).swap :=
  Semver.compare'_swap v w

theorem C14_semver_trans (u v w : Semver.Str)
    (h1 : (Semver.compare' u v).isLE) (h2 : (Semver.compare' v w).isLE) :
    (Semver.compare' u w).isLE :=
  Semver.compare'_trans u v w h1 h2

/-- Two valid versions compare equal exactly when they denote the same structured
version (so: same canonical form; build metadata is ignored). -/
theorem C14_semver_eq_iff (v w : Semver.Str) (pv pw : Semver.Parsed)
    (hv : Semver.parse v = some pv) (hw : Semver.parse w = some pw) :
    Semver.compare' v w = .eq ↔ Semver.structure' pv = Semver.structure' pw :=
  Semver.compare'_eq_iff v w pv pw hv hw

/-- `compareInt` on digit strings without leading zeros is numeric comparison. -/
theorem C14_compareInt (x y : Semver.Str) (hx : Semver.GoodNum x) (hy : Semver.GoodNum y) :
    Semver.compareInt x y = compare (Semver.digitsVal x) (Semver.digitsVal y) :=
  Semver.compareInt_eq x y hx hy

-- non-vacuity: a concrete pair of valid versions meets the hypotheses
example : (Semver.parse ("v1.2.3-rc.1+b".toList.map (·.toNat))).isSome = true := by decide

/-! ### minimal version selection under every schedule -/

/-- Every reachable state of the concurrent traversal: the selected version of each path
is the maximum version over the nodes marked so far, marked nodes are graph-reachable,
and `Require` is called at most once per node and only for reachable nodes (the two
panics of `Graph.Require` can never fire). -/
theorem C14_invariant (g : Mvs.Graph) (roots : List Mvs.Node) (s : Mvs.St)
    (h : Mvs.Run g roots s) : Mvs.Inv g roots s :=
  Mvs.run_inv g roots s h

/-- When `Work.Do` returns, the visited set is exactly the reachable set: nothing
unreachable was visited, nothing reachable was missed. -/
theorem C14_terminal (g : Mvs.Graph) (roots : List Mvs.Node) (s : Mvs.St)
    (h : Mvs.Run g roots s) (ht : Mvs.Terminal s) :
    ∀ n, n ∈ s.added ↔ Mvs.Reach g roots n :=
  Mvs.terminal_added g roots s h ht

/-- ... and the selected version of every path is the maximum of the versions required
along reachable paths, nothing higher: it is attained by a reachable node (or is "none"
when the path is unreachable) and bounds every reachable node of that path. -/
theorem C14_minimal_sufficient (g : Mvs.Graph) (roots : List Mvs.Node) (s : Mvs.St)
    (h : Mvs.Run g roots s) (ht : Mvs.Terminal s) (p : Nat) :
    (∀ v, Mvs.Reach g roots (p, v) → v ≤ s.sel p) ∧
    (s.sel p = 0 ∨ Mvs.Reach g roots (p, s.sel p)) :=
  Mvs.terminal_sel g roots s h ht p

/-- Any two complete runs (any interleaving of any number of runners, any order in which
todo items are picked) select the same versions. -/
theorem C14_schedule_indep (g : Mvs.Graph) (roots : List Mvs.Node) (s t : Mvs.St)
    (hs : Mvs.Run g roots s) (ht : Mvs.Run g roots t)
    (hs' : Mvs.Terminal s) (ht' : Mvs.Terminal t) :
    ∀ p, s.sel p = t.sel p :=
  Mvs.schedule_indep g roots s t hs ht hs' ht'

/-- Permuting requirement lists (and the root list) does not change reachability, hence
(by the two theorems above) not the selection either. -/
theorem C14_req_order (g g' : Mvs.Graph) (roots roots' : List Mvs.Node)
    (hg : ∀ m n, n ∈ g m ↔ n ∈ g' m) (hr : ∀ n, n ∈ roots ↔ n ∈ roots') :
    ∀ n, Mvs.Reach g roots n ↔ Mvs.Reach g' roots' n :=
  Mvs.reach_congr g g' roots roots' hg hr

/-- Each item is handed to a runner at most once: `required` never has duplicates. -/
theorem C14_once (g : Mvs.Graph) (roots : List Mvs.Node) (s : Mvs.St)
    (h : Mvs.Run g roots s) : s.required.Nodup :=
  (Mvs.run_inv g roots s h).nodup_required

-- non-vacuity: a diamond with a back edge has a complete run (the FIFO schedule)
example : (Mvs.runFifo (fun n => if n = (0,1) then [(1,1),(2,1)] else if n = (1,1) then [(3,1)]
    else if n = (2,1) then [(3,2)] else if n = (3,2) then [(1,1)] else []) 10 (Mvs.init [(0,1)])).sel 3 = 2 := by
  decide

/-! ### the work set's termination detection (par.Work.Do / runner) -/

/-- A runner returns only when nothing is left: in every reachable state in which some
runner has returned, `todo` is empty and every other runner has returned or has been
woken by the final Broadcast (none is idle, sleeping or still running `f`). -/
theorem C14_work_return_safe (n m : Nat) (s : Work.St) (h : Work.Run n m s)
    (hd : Work.Phase.done ∈ s.phases) :
    s.todo = 0 ∧ ∀ p ∈ s.phases, p = .done ∨ p = .woken :=
  Work.return_safe n m s h hd

/-- No lost wake-up, no deadlock: a reachable state in which no runner can take a step is
one in which every runner has returned (and then, by the theorem above, todo is empty). -/
theorem C14_work_no_deadlock (n m : Nat) (s : Work.St) (h : Work.Run n m s) (hn : 0 < n)
    (hs : Work.Stuck s) : (∀ p ∈ s.phases, p = .done) ∧ s.todo = 0 :=
  Work.no_deadlock n m s h hn hs

-- non-vacuity: two runners, one initial item that adds one more: a concrete run in which the
-- first runner has returned and the second has been woken by the final Broadcast
example : Work.Run 2 1 { todo := 0, waiting := 2, phases := [.done, .woken] } := by
  have s0 : Work.Run 2 1 (Work.init 2 1) := .init
  have s1 := Work.Run.step s0 (Work.Step.idleTake _ 0 1 (by decide) (by decide))
  have s2 := Work.Run.step s1 (Work.Step.idleEmpty _ 1 (by decide) (by decide))
  have s3 := Work.Run.step s2 (Work.Step.add _ 0 0 (by decide))
  have s4 := Work.Run.step s3 (Work.Step.finish _ 0 (by decide))
  have s5 := Work.Run.step s4 (Work.Step.idleTake _ 0 0 (by decide) (by decide))
  have s6 := Work.Run.step s5 (Work.Step.finish _ 0 (by decide))
  have s7 := Work.Run.step s6 (Work.Step.wokenEmpty _ 1 (by decide) (by decide))
  have s8 := Work.Run.step s7 (Work.Step.idleEmpty _ 0 (by decide) (by decide))
  simpa [Work.init, Work.enter, Work.broadcast, Work.signal] using s8

end CueVerif.C14
