/-
C11 — YAML output reads back as the same data; JSON fed to the YAML decoder means JSON.

Only statements live here; proofs are in CueVerif/Proofs/{Yaml,YamlRe}.lean (and, for the
re-quoting of decoded strings, C09's Proofs/QuoteMain.lean; Proofs/YamlBlock.lean for literal blocks).  The model (Model/Yaml.lean)
transcribes the IN-REPO decisions of internal/encoding/yaml/goccy/{encode,decode}.go: which
scalar style a string gets (`valueStyle`, `keyStyle`) and how the decoder classifies a scalar
token (`decodeScalar`).  Third-party behaviour appears only as explicit parameters:

  `lx : Lex`  — the verdict of goccy's `lexer.Tokenize` on the text (one token? its type? is
                its value the text itself?), which both `decodesAsNonString` (encoder) and the
                decoder consult;
  `libq`      — goccy's own `token.IsNeedQuoted` on the text;
  `P : IsPrint` — Go's `unicode.IsPrint` (consulted by `yamlUnprintable` since /repo fb65e27).
                No contract on it is needed: every theorem holds for EVERY predicate P (the
                `Quoted` of the spec quantifies over it); the driver receives the real verdicts.

Emission and parsing of mappings, sequences, flow style, anchors and comments is third-party
code treated as a transport: the theorems are about scalar classification; the rest of the
property is the encode→decode predicate evaluated on the implementation by harness/c11.go
(both YAML implementations).  Level: proof for scalar classification, partial for the whole.
-/
import CueVerif.Spec.Yaml
import CueVerif.Proofs.Yaml
import CueVerif.Proofs.YamlBlock
import CueVerif.Proofs.YamlPrint
import CueVerif.Proofs.YamlClean
import CueVerif.Spec.Quote
import CueVerif.Proofs.QuoteMain
namespace CueVerif.C11
open CueVerif CueVerif.Yaml
open CueVerif.Quote (Bytes)

/-! ### the complete finite tables of implicit spellings -/

/-- Every YAML 1.1 and 1.2 implicit BOOLEAN spelling (y Y yes Yes YES n N no No NO true True
TRUE false False FALSE on On ON off Off OFF) is quoted — as a value written as a single-line
or multi-line literal, and as a key — for EVERY verdict of the third-party lexer and whatever
the library's own quoting rule says.  (`decide` over the complete table × all 44 verdicts.) -/
theorem C11_tables (s : Bytes) (hs : s ∈ boolWords) (lx : Lex) : Quoted lx s :=
  quoted_of lx s (Or.inr (boolWords_quoted s hs lx))

/-- Every null (null Null NULL ~), infinity ([-+]?.inf/.Inf/.INF), NaN (.nan/.NaN/.NAN) and
merge (<<) spelling is quoted, provided the lexer reads the text as ONE token and types it as
the YAML 1.2 core schema does (or hands an infinity/NaN spelling through as an unchanged string
token, as goccy does for `+.inf`: the in-repo `specialFloats` table then decides).  `<<` is
quoted unconditionally.  (`decide` over the complete table × all verdicts.) -/
theorem C11_tables_core (s : Bytes) (hs : s ∈ coreWords) (lx : Lex) (h : CoreTyped lx s) : Quoted lx s :=
  quoted_of lx s (coreWords_quoted s hs lx h)

-- non-vacuity: "Yes" under an absurd lexer verdict, ".NaN" typed NaN, "+.Inf" handed through
example : Quoted ⟨false, .other, false⟩ (b "Yes") := C11_tables _ (by decide) _
example : Quoted ⟨true, .nan, true⟩ (b ".NaN") := C11_tables_core _ (by decide) _ ⟨rfl, Or.inl (by decide)⟩
example : Quoted ⟨true, .str, true⟩ (b "+.Inf") :=
  C11_tables_core _ (by decide) _ ⟨rfl, Or.inr ⟨rfl, rfl, by decide⟩⟩

/-- The one YAML 1.1 implicit spelling the encoder leaves PLAIN is `=` (yaml.org/type/value):
no YAML 1.2 parser and not this package's decoder gives it a meaning, so the round trip of
the property is unaffected; recorded so that the table above is not read as "all of 1.1". -/
theorem C11_tables_value_plain : valueStyle asciiPrint ⟨true, .str, true⟩ false valueWord false = .plain := by decide

/-! ### the heart: what is left plain is read back as the same string -/

/-- For ALL strings s, as a value (single- or multi-line CUE literal): if the scalar appears
PLAIN in the output then the decoder classifies the token as the string s itself — never as a
number, bool, null, infinity or NaN.  Assumed about the third-party library, for this s only:
(hlib) what the library itself leaves unquoted, its lexer reads back as ONE token carrying the
same text, typed as a string or as a non-string scalar; (hstart) the lexer types a text, taken over unchanged as the
token's value, as a non-string scalar only if it begins with one of the bytes of `nonStringStarts`
("0123456789+-.~<tTfFnN", regenerated from the source).  Everything else — legacy strings,
the four regexps, special floats, YAML 1.1 octals, underscores — is the modelled in-repo code. -/
theorem C11_plain_is_string (P : IsPrint) (lx : Lex) (libq : Bool) (s : Bytes) (multi : Bool)
    (hlib : libq = false → lx.single = true ∧ lx.same = true ∧ (lx.ty = .str ∨ lx.ty.nonString = true))
    (hstart : ∀ c t, s = c :: t → nonStringStarts.contains c = false → lx.same = true →
      lx.ty.nonString = false)
    (hp : valueStyle P lx libq s multi = .plain) : decodeScalar lx.ty s = .str s := by
  obtain ⟨hd, hl⟩ := lib_of_plain _ _ hp
  obtain ⟨h1, h2, h3⟩ := hlib hl
  exact decode_str_of_not_quoted lx s h1 h2 h3 hstart (quoteScalar_lib P lx s (valueDecision_lib P lx s multi hd)).2

/-- The same for mapping KEYS (keys take `quoteScalar` too, plus forced double quotes when
they contain a line break). -/
theorem C11_plain_key_is_string (P : IsPrint) (lx : Lex) (libq : Bool) (s : Bytes)
    (hlib : libq = false → lx.single = true ∧ lx.same = true ∧ (lx.ty = .str ∨ lx.ty.nonString = true))
    (hstart : ∀ c t, s = c :: t → nonStringStarts.contains c = false → lx.same = true →
      lx.ty.nonString = false)
    (hp : keyStyle P lx libq s = .plain) : decodeScalar lx.ty s = .str s := by
  obtain ⟨hd, hl⟩ := lib_of_plain _ _ hp
  obtain ⟨h1, h2, h3⟩ := hlib hl
  exact decode_str_of_not_quoted lx s h1 h2 h3 hstart (quoteScalar_lib P lx s (keyDecision_lib P lx s hd)).2

-- non-vacuity: "1Gi" (a CUE number, a YAML string) and "0o8" are left plain and read back
-- as strings; the hypotheses are met by the lexer verdict goccy really gives (one string token)
example : decodeScalar .str (b "1Gi") = .str (b "1Gi") :=
  C11_plain_is_string asciiPrint ⟨true, .str, true⟩ false (b "1Gi") false (fun _ => ⟨rfl, rfl, Or.inl rfl⟩)
    (fun _ _ _ _ _ => rfl) (by decide)
example : keyStyle asciiPrint ⟨true, .str, true⟩ false (b "0o8") = .plain := by decide

/-! ### numbers, dates and YAML 1.1 octals are quoted -/

/-- For ALL strings s that this package's decoder would resolve as a number (`numberKind`:
decimal, 0b/0o/0x, YAML 1.1 leading-zero octal, sign before any base, underscores, floats with
dot or exponent, integers of any size): if the lexer reads s as one scalar token (typed as a
number, or a string token with the text unchanged) then `shouldQuote` holds, hence the scalar
is quoted as value and as key. -/
theorem C11_numeric_quoted (lx : Lex) (s : Bytes) (hn : numberKind s ≠ .illegal) (hl : LexScalar lx) :
    Quoted lx s :=
  quoted_of lx s (Or.inr (shouldQuote_of_number lx s hn hl))

/-- For ALL strings matching the date / time / base-60 regexp `useQuote` or the YAML 1.1
"any octal" regexp (incl. the broken octals 08, 0778 that other decoders read as floats):
quoted for every lexer verdict — i.e. the byte pre-filter `strings.IndexByte("-+0123456789:. \t",
str[0])` placed in front of the two regexps never changes their verdict. -/
theorem C11_dates_quoted (lx : Lex) (s : Bytes)
    (h : reUseQuote.matches s = true ∨ reAnyOctal.matches s = true) : Quoted lx s :=
  quoted_of lx s (Or.inr (shouldQuote_of_regexp lx s h))

-- non-vacuity (samples): a 30-digit integer goccy lexes as a string token; 1:30; 0778
example : Quoted ⟨true, .str, true⟩ (b "123456789012345678901234567890") :=
  C11_numeric_quoted _ _ (by decide) ⟨rfl, Or.inr ⟨rfl, rfl⟩⟩
example : Quoted ⟨false, .other, false⟩ (b "1:30") := C11_dates_quoted _ _ (Or.inl (by decide))
example : Quoted ⟨true, .str, true⟩ (b "0778") := C11_dates_quoted _ _ (Or.inr (by decide))

/-! ### what needs escaping is double-quoted by the in-repo code itself -/

/-- For ALL strings with a rune `yamlUnprintable` rejects — C0 controls other than tab and
line feed, DEL, NEL, LS, PS, U+FFFE/U+FFFF, invalid bytes, and (since /repo fb65e27) every rune
other than the blank that `unicode.IsPrint` rejects: NBSP, U+FEFF, U+200B, C1 controls … — the
decision is `strconv.Quote` (double quotes), as a value from any literal form and as a key, for
every lexer verdict: such a string is never handed to the library (whose own quoting writes a
Go escape inside single quotes, read back literally), never single-quoted, never a block. -/
theorem C11_unprintable_double (P : IsPrint) (lx : Lex) (s : Bytes) (h : yamlUnprintable P s = true) :
    (∀ multi, valueDecision P lx s multi = .double) ∧ keyDecision P lx s = .double :=
  ⟨fun multi => valueDecision_unprintable P lx s multi h, keyDecision_unprintable P lx s h⟩

/-- Single quotes (which cannot escape anything) are chosen only for strings that hold nothing
unprintable and no line feed (since /repo c5058c4 and ae37630). -/
theorem C11_single_quote_safe (P : IsPrint) (lx : Lex) (s : Bytes) (h : quoteScalar P lx s = .single) :
    yamlUnprintable P s = false ∧ s.contains 10 = false :=
  quoteScalar_single P lx s h

-- non-vacuity: "# <NBSP>" (the old witness of the library-quoting defect) and "<U+FEFF>null"
example : keyDecision asciiPrint ⟨true, .other, false⟩ [0x23, 0x20, 0xC2, 0xA0] = .double :=
  (C11_unprintable_double asciiPrint _ _ (by decide)).2
example : valueDecision asciiPrint ⟨true, .str, true⟩ [0xEF, 0xBB, 0xBF, 0x6E, 0x75, 0x6C, 0x6C] false = .double :=
  (C11_unprintable_double asciiPrint _ _ (by decide)).1 false
-- "? a" is single-quoted; "? a\nb" as a key is not (it is double-quoted)
example : quoteScalar asciiPrint ⟨false, .other, false⟩ (b "? a") = .single := by decide
example : keyDecision asciiPrint ⟨false, .other, false⟩ (b "? a\nb") = .double := by decide

/-! ### double-quoted scalars -/

/-- Per escape letter: every escape `strconv.Quote` can emit (\a \b \f \n \r \t \v \\ \" \x \u
\U) is an escape of YAML 1.2 double-quoted scalars with the same meaning (same code point, or
the same number of hex digits giving the code point).  (`\x` denotes a BYTE in Go and a code
point in YAML: the same thing below 0x80, and `strconv.Quote` emits `\x` above that only for
invalid UTF-8, which a CUE string never contains.) -/
theorem C11_double_roundtrip (letter : Nat) (e : Esc) (h : goEscape letter = some e) :
    yamlEscape letter = some e :=
  go_escape_is_yaml_escape letter e h

example : goEscape 'v'.toNat = some (.char 11) ∧ yamlEscape 'v'.toNat = some (.char 11) := by decide

/-! ### the decoded string re-quoted as a CUE literal -/

/-- `quotedString`: the decoder turns every decoded string into the CUE literal
`literal.String.WithOptionalTabIndent(1).WithOptionalHashes().Quote(s)`.  For ALL valid UTF-8
strings without a line break that literal unquotes to s (= C09_roundtrip_hashes; full
strength since /repo a2b8800 — strings beginning with two double quotes used to fail, see
`C09_roundtrip_hashes_old_false`).  Strings WITH a line break take the multi-line form,
whose round trip is C09's OPEN `C09_roundtrip_multi_stmt` (evaluated on the implementation). -/
theorem C11_requote (E : Quote.Env) (hE : E.Ok) (s : Bytes) (hb : Quote.IsBytes s)
    (hu : Quote.validUTF8 s = true) (hnl : s.contains 10 = false) :
    Quote.RoundTrips E ((Quote.stringForm.withOptionalTabIndent 1).withOptionalHashes) s :=
  Quote.roundtrip_single_all hE _ (Or.inl ⟨rfl, rfl⟩) s hb (Or.inr hu)
    (by
      have h10 : ¬ 10 ∈ s := by simpa using hnl
      simp [Quote.Form.effMultiline, Quote.Form.withOptionalHashes, Quote.Form.withOptionalTabIndent,
        Quote.stringForm, h10])

example : Quote.RoundTrips Quote.asciiEnv ((Quote.stringForm.withOptionalTabIndent 1).withOptionalHashes)
    [0x22, 0x22, 0x78] :=
  C11_requote Quote.asciiEnv Quote.asciiEnv_ok _ (by intro b hb; simp at hb; omega)
    (by simp [Quote.validUTF8, Quote.decodeFirst]) (by decide)

/-! ### literal block scalars -/

/-- For ALL strings the in-repo `blockLiteralSafe` admits (a multi-line CUE literal, or a string
with line breaks handed to the library): the literal block the emitter writes — chomping
indicator from the trailing line breaks (`|`, `|-`, `|+`), never an indentation indicator,
every non-empty line indented by ANY number `ind` of blanks, empty lines left empty — is read
back by a YAML 1.2 §8.1.1 parser (indentation detected from the first non-empty line; strip /
clip / keep) as exactly the string.  Full strength since /repo 05f5435.  What the proof uses of
`blockLiteralSafe` is precisely the part added by that commit: the first non-empty line exists
and does not start with a blank.  (The other conjuncts — no line ending in a blank, nothing
unprintable — guard the printer's blank-line padding and escaping, which are library behaviour
outside this model; the `block` ops compare model and library on every block of a run.) -/
theorem C11_block_roundtrip (P : IsPrint) (s : Bytes) (h : blockLiteralSafe P s = true) : BlockRoundTrips s :=
  block_roundtrip P s h

-- non-vacuity: a string with inner and trailing blank lines and an indented inner line
example : BlockRoundTrips (b "a\n\n  b\n\n") := C11_block_roundtrip asciiPrint _ (by decide)

/-! ### the block as PRINTED: padding, `stripBlankLinePadding`, clean bytes (extension round) -/

/-- `stripBlankLinePadding` acts on every line of EVERY document independently (a non-empty
line of blanks becomes empty, every other line is kept): its fast path — "no ` \n` and no
trailing blank: return the input" — never skips a line the loop would have changed. -/
theorem C11_strip_linewise (doc : Bytes) :
    stripBlankLinePadding doc = joinLines ((splitLines doc).map stripLine) :=
  strip_linewise doc

example : stripBlankLinePadding (b "k: |\n  a\n  \n  b\n") = b "k: |\n  a\n\n  b\n" := by decide

/-- For ALL strings `blockLiteralSafe` admits, every indentation and every key without a line
feed: the document `Encode` prints for `{key: <block of s>}` — the key line with the header,
goccy's lines with the blank lines PADDED to the indentation, the final line break, all passed
through `stripBlankLinePadding` — consists of exactly the key line, the lines of `emitBlock`
(non-empty lines indented, empty lines empty) and the end of the last line.  This is where the
conjunct "no line ends in a blank" of `blockLiteralSafe` is used: it makes the blank-only lines
of the print exactly the padded empty lines of s. -/
theorem C11_printed_doc_lines (P : IsPrint) (key : Bytes) (hk : 10 ∉ key) (ind : Nat) (s : Bytes)
    (h : blockLiteralSafe P s = true) :
    splitLines (printedBlockDoc key ind s) =
      (key ++ b ": " ++ (emitBlockRaw ind s).1.text) :: ((emitBlock ind s).2 ++ [[]]) :=
  printed_doc_lines P key hk ind s h

/-- The strengthened block round trip, with no side condition left outside the model: print
the padded block, strip the padding, split into lines, read back by YAML 1.2 §8.1.1 — the
result is s, for ALL strings `blockLiteralSafe` admits and all indentations (leading and
trailing blank lines, inner indentation, all three chomping indicators `|-` `|` `|+`). -/
theorem C11_block_roundtrip_printed (P : IsPrint) (ind : Nat) (s : Bytes) (h : blockLiteralSafe P s = true) :
    parseBlock (emitBlockRaw ind s).1
      (splitLines (stripBlankLinePadding (joinLines (emitBlockRaw ind s).2))) = s :=
  printed_block_roundtrip P ind s h

example : parseBlock (emitBlockRaw 4 (b "\na\n\n  b\n\n")).1
    (splitLines (stripBlankLinePadding (joinLines (emitBlockRaw 4 (b "\na\n\n  b\n\n")).2))) = b "\na\n\n  b\n\n" :=
  C11_block_roundtrip_printed asciiPrint 4 _ (by decide)

/-- The trailing-blank conjunct is not vacuous: a string with a blank-only line (`"a\n \nb"`,
rejected by `blockLiteralSafe`) would NOT survive print + strip + read (it comes back as
`"a\n\nb"`). -/
theorem C11_block_trailing_blank_witness :
    blockLiteralSafe asciiPrint (b "a\n \nb") = false ∧
    parseBlock (emitBlockRaw 2 (b "a\n \nb")).1
      (splitLines (stripBlankLinePadding (joinLines (emitBlockRaw 2 (b "a\n \nb")).2))) = b "a\n\nb" := by decide

/-- For ALL strings `blockLiteralSafe` admits (whatever `unicode.IsPrint` is): every byte is TAB,
LF, printable ASCII or ≥ 0x80 — no CR, no other C0 control, no DEL — so the line break
normalisation of a YAML reader (§5.4: CR LF and CR become LF) is the identity on the string,
and the LF-only line splitting of `parseBlock` is the reader's.  This is what the conjunct
`!yamlUnprintable(s)` contributes to the block path. -/
theorem C11_block_text_clean (P : IsPrint) (s : Bytes) (h : blockLiteralSafe P s = true) :
    (∀ c ∈ s, cleanByte c = true) ∧ normalizeBreaks s = s :=
  ⟨blockLiteralSafe_clean P s h, normalizeBreaks_id s (blockLiteralSafe_noCR P s h)⟩

example : normalizeBreaks (b "a\r\nb\rc") = b "a\nb\nc" ∧ blockLiteralSafe asciiPrint (b "a\rb\nc") = false := by decide

/-! ### single quotes: `singleQuoted`, `quoteFlowUnsafe` (extension round) -/

/-- For ALL strings: the YAML single-quoted scalar `singleQuoted` writes (`'` doubled, nothing
else escaped) is read back (§7.3.2, one line) as the string. -/
theorem C11_single_quoted_roundtrip (s : Bytes) : unquoteSingle (singleQuoted s) = some s :=
  single_quoted_roundtrip s

/-- Keys and values the explicit-key / merge / document-end indicators would change — `?`,
`? …` (complex key), `…<<` (merge key), `...…` (document end) — are never printed plain, for ALL
such strings, every lexer verdict and whatever the library's own rule says. -/
theorem C11_indicator_quoted (lx : Lex) (s : Bytes) (h : needsSingleQuoting s = true) : Quoted lx s :=
  quoted_of lx s (Or.inl h)

example : Quoted ⟨true, .str, true⟩ (b "? a: b") := C11_indicator_quoted _ _ (by decide)

/-- `quoteFlowUnsafe` (string arm): what it quotes reads back as the string; what it leaves alone
holds none of the flow indicators `,[]{}:`. -/
theorem C11_flow_quoted (s q : Bytes) (h : quoteFlowUnsafe s = some q) : unquoteSingle q = some s := by
  unfold quoteFlowUnsafe at h
  split at h
  · injection h with h; subst h; exact single_quoted_roundtrip s
  · cases h
theorem C11_flow_plain_safe (s : Bytes) (h : quoteFlowUnsafe s = none) : containsAny flowUnsafe s = false := by
  unfold quoteFlowUnsafe at h
  split at h
  · cases h
  · rename_i hc; simpa using hc

example : quoteFlowUnsafe (b "it's, a") = some (b "'it''s, a'") := by decide
example : unquoteSingle (b "'it''s, a'") = some (b "it's, a") := C11_flow_quoted _ _ (by decide)

/-- History, about the clearly named OLD predicate `blockLiteralSafeOld` (= the code before
/repo 05f5435, no longer tied to the tree): the same statement … -/
def C11_block_roundtrip_old_stmt : Prop :=
  ∀ (P : IsPrint) (s : Bytes), blockLiteralSafeOld P s = true → BlockRoundTrips s

/-- … was FALSE: "\n" was admitted, written as `|` with an empty body, and read back as "" … -/
theorem C11_block_roundtrip_old_false : ¬ C11_block_roundtrip_old_stmt := by
  intro h
  have h1 := h asciiPrint [10] block_lone_newline.1 2
  rw [block_lone_newline.2] at h1
  cases h1

/-- … and so was "\n a" (a blank line, then a line beginning with a blank, swallowed as
indentation). -/
theorem C11_block_indent_old_false : blockLiteralSafeOld asciiPrint (b "\n a") = true ∧
    parseBlock (emitBlock 2 (b "\n a")).1 (emitBlock 2 (b "\n a")).2 ≠ b "\n a" := by
  refine ⟨block_blank_then_indented.1, ?_⟩
  rw [block_blank_then_indented.2]; decide

/-- The repaired predicate rejects the old witnesses (they take `strconv.Quote` now). -/
theorem C11_block_rejects_old_witnesses (P : IsPrint) :
    blockLiteralSafe P [10] = false ∧ blockLiteralSafe P (b "\n a") = false ∧
    blockLiteralSafe P (b "\n\n") = false := block_rejects_witnesses P

end CueVerif.C11
