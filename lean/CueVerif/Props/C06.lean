/-
Property C06 — arithmetic, comparison and numeric builtins are exact.

Model: CueVerif/Model/DecArith.lean (`numOp`, `quoOp`, `intDivOp`, `cmpOp` over the exact decimal
model `Dec`), CueVerif/Model/NumVal.lean (value of a literal spelling, number printing).
Specification: CueVerif/Spec/Arith.lean (values as rationals `toRat`, the literal grammar tree `Lit`
with `spell`/`denote`, the division identities, "correctly rounded").
Every theorem is a one-line reference into CueVerif/Proofs/{ArithExact,ArithDiv,ArithQuo,
NumValLit,NumValPrint}.lean.  All statements quantify over ALL operands / spellings.

False on model and implementation alike (kept as `…_stmt`, negation proved on a witness that the
harness replays on the real code, recorded in known-findings.d/C06.txt):
* `+ - *` beyond 34 significant digits are rounded silently (ints included);
* an SI literal whose product is not an integer is rejected (the spec truncates) — the only
  literal deviation left: an ACCEPTED grammar spelling always has the spec's value
  (`C06_literal_sound`; /repo 1674508 made exponents outside ±100000 an error, 06ced89 made the
  multiplier product exact);
* an int whose decimal exponent is positive prints in exponent notation and reads back as a float.
-/
import CueVerif.Proofs.ArithExact
import CueVerif.Proofs.ArithDiv
import CueVerif.Proofs.ArithQuo
import CueVerif.Proofs.NumValLit
import CueVerif.Proofs.NumValPrint
namespace CueVerif.Props.C06
open CueVerif CueVerif.Arith CueVerif.NumVal CueVerif.Spec.Arith
open CueVerif.Proofs

abbrev WF := ArithExact.WF

/-! ### `+ - *` -/

/-- The sum is the exact sum whenever that has at most 34 significant digits. -/
theorem C06_add_exact_partial (x y r : Num) (h : numOp .add x y = .num r)
    (hf : FitsVal prec (toRat x.d + toRat y.d)) : toRat r.d = toRat x.d + toRat y.d :=
  ArithExact.arith_exact .add x y r h hf

theorem C06_sub_exact_partial (x y r : Num) (h : numOp .sub x y = .num r)
    (hf : FitsVal prec (toRat x.d - toRat y.d)) : toRat r.d = toRat x.d - toRat y.d :=
  ArithExact.arith_exact .sub x y r h hf

theorem C06_mul_exact_partial (x y r : Num) (h : numOp .mul x y = .num r)
    (hf : FitsVal prec (toRat x.d * toRat y.d)) : toRat r.d = toRat x.d * toRat y.d :=
  ArithExact.arith_exact .mul x y r h hf

-- non-vacuity: 2^32 * 2^63 (29 digits) is beyond int64 and exact
example : numOp .mul ⟨.int, ⟨4294967296, 0⟩⟩ ⟨.int, ⟨9223372036854775808, 0⟩⟩
    = .num ⟨.int, ⟨39614081257132168796771975168, 0⟩⟩ := by decide

/-- The full statements (no 34-digit hypothesis). -/
def C06_add_exact_stmt : Prop := ArithExact.add_exact_stmt
def C06_sub_exact_stmt : Prop := ArithExact.sub_exact_stmt
def C06_mul_exact_stmt : Prop := ArithExact.mul_exact_stmt

/-- FALSE: `12345678901234567890123456789012345678901234567890 + 1` is rounded. -/
theorem C06_add_exact_false : ¬ C06_add_exact_stmt := ArithExact.add_exact_false
theorem C06_sub_exact_false : ¬ C06_sub_exact_stmt := ArithExact.sub_exact_false
/-- FALSE: `100000000000000000001 * 100000000000000000001` = 1.00000000000000000002e+40. -/
theorem C06_mul_exact_false : ¬ C06_mul_exact_stmt := ArithExact.mul_exact_false

/-- Beyond 34 digits the result is still the CORRECTLY ROUNDED exact result (what the spec allows
for floats: "round to the nearest representable value"). -/
theorem C06_arith_rounded (op : AOp) (x y r : Num) (h : numOp op x y = .num r) :
    IsRounding prec r.d (specOp (ArithExact.aop op) (toRat x.d) (toRat y.d)) :=
  ArithExact.arith_rounded op x y r h

/-- `+ - *` never fail except by leaving the exponent window of the decimal package. -/
theorem C06_arith_total (op : AOp) (x y : Num) :
    (∃ r, numOp op x y = .num r) ∨
      (numOp op x y = .err .failed ∧
        (alignOk op x.d y.d = false ∨ inWindow (round34 (exact op x.d y.d)).1 = false)) :=
  ArithExact.arith_total op x y

/-! ### result kinds -/

/-- The result of `+ - *` is an int exactly when both operands are ints. -/
theorem C06_kind_rule (op : AOp) (x y r : Num) (h : numOp op x y = .num r) :
    (r.k = .int ↔ (x.k = .int ∧ y.k = .int)) :=
  ArithExact.kind_rule op x y r h

/-- int op int is an int: kind int, well-formed again, integral value. -/
theorem C06_int_closed (op : AOp) (x y r : Num) (hx : WF x) (hy : WF y)
    (kx : x.k = .int) (ky : y.k = .int) (h : numOp op x y = .num r) :
    r.k = .int ∧ WF r ∧ ∃ z : Int, toRat r.d = (z : Rat) :=
  ArithExact.int_closed op x y r hx hy kx ky h

example : numOp .sub ⟨.int, ⟨3, 0⟩⟩ ⟨.int, ⟨10, 0⟩⟩ = .num ⟨.int, ⟨-7, 0⟩⟩ := by decide

/-! ### `/` -/

/-- `/` always yields a float whose value is the correctly rounded 34-digit quotient … -/
theorem C06_quo_round (x y r : Num) (h : quoOp x y = .num r) :
    r.k = .float ∧ ∃ r0 : Dec, IsRounding prec r0 (toRat x.d / toRat y.d) ∧ toRat r.d = toRat r0 :=
  ArithQuo.quo_rounded x y r h

/-- … and the exact quotient whenever that has at most 34 significant digits (in particular integer
quotients are never lost). -/
theorem C06_quo_exact (x y r : Num) (h : quoOp x y = .num r)
    (hf : FitsVal prec (toRat x.d / toRat y.d)) : toRat r.d = toRat x.d / toRat y.d :=
  ArithQuo.quo_exact x y r h hf

theorem C06_quo_total (x y : Num) :
    (∃ r, quoOp x y = .num r ∧ y.d.coeff ≠ 0) ∨
    (quoOp x y = .err .divZero ∧ y.d.coeff = 0) ∨
    (quoOp x y = .err .failed ∧ y.d.coeff ≠ 0) :=
  ArithQuo.quo_total x y

example : quoOp ⟨.int, ⟨4, 0⟩⟩ ⟨.int, ⟨2, 0⟩⟩ = .num ⟨.float, ⟨20, -1⟩⟩ := by decide

/-! ### div mod quo rem -/

/-- Euclidean division for all operand signs: `x = y·div + mod`, `0 ≤ mod < |y|`. -/
theorem C06_div_mod (x y : Int) (hy : y ≠ 0) : EuclidSpec x y (intFn .div x y) (intFn .mod x y) :=
  ArithDiv.div_mod x y hy

/-- Truncated division for all operand signs: `x = quo·y + rem`, `|rem| < |y|`, `rem` is zero or
has the sign of `x`. -/
theorem C06_quo_rem (x y : Int) (hy : y ≠ 0) : TruncSpec x y (intFn .quo x y) (intFn .rem x y) :=
  ArithDiv.quo_rem x y hy

/-- The builtins compute exactly these functions of the integers their operands denote, and the
result is an int with exponent 0. -/
theorem C06_intdiv_op (op : IOp) (a b : Num) (ha : a.k = .int) (hb : b.k = .int)
    (hz : b.d.coeff ≠ 0) :
    intDivOp op a b = .num ⟨.int, Dec.ofInt (intFn op (toIntegral a.d) (toIntegral b.d))⟩ :=
  ArithDiv.intDivOp_spec op a b ha hb hz

example : intFn .div (-7) 2 = -4 ∧ intFn .mod (-7) 2 = 1 ∧ intFn .quo (-7) 2 = -3 ∧ intFn .rem (-7) 2 = -1 ∧
    intFn .div 7 (-2) = -3 ∧ intFn .mod 7 (-2) = 1 := by decide

/-- Every division form is an error on a zero divisor. -/
theorem C06_zero_div (a b : Num) (hz : b.d.coeff = 0) :
    (∀ op, ∃ e, intDivOp op a b = .err e) ∧ quoOp a b = .err .divZero :=
  ArithDiv.zero_div a b hz

/-! ### comparison -/

/-- Comparison of numbers is comparison of the exact values whatever the kinds (int/float compared
by value); with `specCmp` over ℚ this makes `== != < <= > >=` a consistent total order. -/
theorem C06_cmp_total (op : COp) (x y : Num) :
    cmpOp op (.num x) (.num y) = .bool (specCmp (ArithExact.cop op) (toRat x.d) (toRat y.d)) :=
  ArithExact.cmp_num op x y

/-- the three-way comparison underneath agrees with the order of ℚ -/
theorem C06_cmp_exact (a b : Dec) :
    (Dec.cmp a b = .lt ↔ toRat a < toRat b) ∧ (Dec.cmp a b = .eq ↔ toRat a = toRat b) ∧
    (Dec.cmp a b = .gt ↔ toRat b < toRat a) :=
  ⟨ArithExact.cmp_lt_iff a b, ArithExact.cmp_eq_iff a b, ArithExact.cmp_gt_iff a b⟩

example : cmpOp .eq (.num ⟨.int, ⟨1, 0⟩⟩) (.num ⟨.float, ⟨100, -2⟩⟩) = .bool true := by decide

/-- Strings and bytes: the bytewise (lexicographic) order, a total order. -/
theorem C06_bytes_order (a b c : List Nat) :
    (bytesCmp a b = .eq ↔ a = b) ∧ (bytesCmp a b = .lt ↔ bytesCmp b a = .gt) ∧
    (bytesCmp a b = .lt → bytesCmp b c = .lt → bytesCmp a c = .lt) ∧
    (bytesCmp a b = .lt ↔ a < b) :=
  ⟨ArithExact.bytesCmp_eq_iff a b, ArithExact.bytesCmp_swap a b,
   ArithExact.bytesCmp_trans a b c, ArithExact.bytesCmp_lt_iff a b⟩

/-! ### number literals -/

/-- Every spelling of the grammar — every base, separator position, fraction, exponent and
multiplier — is accepted by `compiler.parse` (gate `ParseNum` + `NumInfo.decimal`) with the
grammar's kind and denotes exactly the spec's value, inside the region where the implementation
accepts it (no superfluous leading zero before a multiplier; exponent window; the multiplied
mantissa an integer — of any number of digits). -/
theorem C06_literal_partial (l : Lit) (hwf : l.wf = true) (hz : l.siLeadingZero = false)
    (hw : l.inWindow) (hi : l.siIntegral) :
    ∃ n, litValue l.spell = .ok n ∧ n.k = l.kind ∧ toRat n.d = l.denote :=
  NumValLit.literal_litValue l hwf hz hw hi

/-- Soundness, unconditionally: whenever a grammar spelling is ACCEPTED its kind and value are the
spec's.  Everything the implementation still gets wrong about literals is a rejection. -/
theorem C06_literal_sound (l : Lit) (hwf : l.wf = true) (n : Num)
    (h : litValue l.spell = .ok n) : n.k = l.kind ∧ toRat n.d = l.denote :=
  NumValLit.literal_sound l hwf n h

/-- Outside the exponent window (written exponent, fraction length or adjusted exponent beyond
±100000; a `decimal_lit` of more than 100001 digits) a literal is an ERROR, never another value
(repaired by /repo 1674508; the spec allows the error). -/
theorem C06_literal_window_error (l : Lit) (hwf : l.wf = true) (hw : ¬ l.inWindow) :
    readValue l.kind l.spell = .err :=
  NumValLit.literal_window_error l hwf hw

/-- `1e100001` is rejected (it used to denote 1). -/
theorem C06_literal_exponent_rejected :
    litValue (Lit.fExp [49] ⟨false, .none, [49, 48, 48, 48, 48, 49]⟩).spell = .err :=
  NumValLit.literal_exponent_rejected

/-- the value reader alone (no gate, leading zeros allowed) -/
theorem C06_literal_value (l : Lit) (hwf : l.wf = true) (hw : l.inWindow)
    (hi : l.siIntegral) :
    ∃ n, readValue l.kind l.spell = .ok n ∧ n.k = l.kind ∧ toRat n.d = l.denote :=
  NumValLit.literal_value l hwf hw hi

/-- C09's automaton `ParseNum` accepts every grammar spelling with the grammar's kind, except
`si_lit`s with a superfluous leading zero. -/
theorem C06_literal_accepted (l : Lit) (hwf : l.wf = true) (hz : l.siLeadingZero = false) :
    NumLit.parseNumUnsigned l.spell = some l.kind :=
  NumValLit.literal_accepted l hwf hz

example : (Lit.si [49] (some [53]) ⟨.K, true⟩).wf = true ∧
    readValue .int (Lit.si [49] (some [53]) ⟨.K, true⟩).spell = .ok ⟨.int, ⟨1536, 0⟩⟩ := by decide

/-- The full statement: every grammar spelling is accepted and denotes the spec's value. -/
def C06_literal_stmt : Prop := NumValLit.literal_stmt

/-- FALSE: `1.3Ki` (spec: 1331) is rejected. -/
theorem C06_literal_false : ¬ C06_literal_stmt := NumValLit.literal_false
theorem C06_literal_false_trunc :
    litValue (Lit.si [49] (some [51]) ⟨.K, true⟩).spell = .err ∧
    (Lit.si [49] (some [51]) ⟨.K, true⟩).denote = 1331 := NumValLit.literal_false_trunc
/-- `12345678901234567890123456789012345678K` is exact (it used to be rounded to 34 digits;
/repo 06ced89). -/
theorem C06_literal_big_mantissa :
    litValue (Lit.si [49,50,51,52,53,54,55,56,57,48,49,50,51,52,53,54,55,56,57,48,49,50,51,52,53,54,55,56,57,48,49,50,51,52,53,54,55,56] none ⟨.K, false⟩).spell
      = .ok ⟨.int, ⟨12345678901234567890123456789012345678000, 0⟩⟩ := NumValLit.literal_big_mantissa_ok

/-- `0K` denotes 0 (kept working by /repo 726bce5). -/
theorem C06_literal_bare_zero :
    litValue (Lit.si [48] none ⟨.K, false⟩).spell = .ok ⟨.int, ⟨0, 0⟩⟩ := NumValLit.literal_bare_zero_ok

/-! ### printing -/

/-- Printing a number as CUE text and reading it back gives the same kind and value (ints with
exponent 0 and at most 100001 digits — every literal and every int result of up to 34 digits —
and all floats in the exponent window). -/
theorem C06_print_parse_partial (n : Num) (h : NumValPrint.PrintRegular n) :
    ∃ n', readBack (printNum n) = .ok n' ∧ n'.k = n.k ∧ toRat n'.d = toRat n.d :=
  NumValPrint.print_parse n h

/-- The JSON text reads back as the same value. -/
theorem C06_json_parse (n : Num) (h : NumValPrint.PrintRegular ⟨.float, n.d⟩) :
    ∃ n', readBack (jsonNum n) = .ok n' ∧ toRat n'.d = toRat n.d :=
  NumValPrint.json_parse n h

def C06_print_parse_stmt : Prop := NumValPrint.print_parse_stmt

/-- FALSE: an int with a positive decimal exponent (e.g. the exact product
`10000000000000000000 * 10000000000000000000`) prints as `1.000…e+38` and reads back as a float. -/
theorem C06_print_parse_false : ¬ C06_print_parse_stmt := NumValPrint.print_parse_false

end CueVerif.Props.C06
