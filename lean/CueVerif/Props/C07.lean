/-
C07 — printing an evaluated value as CUE and evaluating it again gives the same value.

The real exporter (internal/core/export, ~3,500 lines, conjunct-based, with let hoisting, import
inlining and self-contained output) is NOT transcribed; the property's own statement is checked on
it by translation validation in harness/c07*.go.  Proved here, over ALL inputs, are the export
PRIMITIVES that decide what the printed text means (models in Model/Export.lean, hand-transcribed
from the Go functions pinned in Bridge/C07.lean):

 (1) labels       `C07_label`, `C07_label_general`, `C07_label_ident_safe`, `C07_label_scans`;
                  the unconditional statement is FALSE (`C07_label_false`: the compiler NFC-normalises
                  quoted labels, the exporter does not) — a finding, replayed in the harness;
 (2) bounds       `C07_bounds_simplify` (boundSimplifier), `C07_range_exact`, `C07_range_named`,
                  `C07_range_table`, `C07_range_never_rune` (MatchBuiltinRange), `C07_conj_export`
                  (the whole `*adt.Conjunction` arm) — denotations by C03's `sat`;
 (3) parentheses  `C07_disj_reparses`, `C07_conj_reparses` — corollaries of C08;
 (4) values       `C07_value_roundtrip`, `C07_value_roundtrip_final` for the REFERENCE exporters
                  `exportV` / `exportFinal` on C01's CueCore values (not transcriptions).

NOT modelled (assumptions tied in the harness): the parser — in particular that it accepts any
identifier-shaped token, KEYWORDS INCLUDED (`if`, `for`, `in`, `let`, `true`, `false`, `null`), as a
field label with that name (the real exporter prints such labels unquoted; `if: 1` re-parses as
the field "if"); package-qualified hidden labels.  (`Dec` has no negative zero; apd's `Sign`, `IsZero`
and `Cmp` — all that bounds.go / builtinrange.go use — treat `-0` as `0`, so nothing is lost.)
Only statements live here; proofs are in CueVerif/Proofs/Export*.lean.
-/
import CueVerif.Spec.Export
import CueVerif.Proofs.ExportRange
import CueVerif.Proofs.ExportLabel
import CueVerif.Proofs.ExportFinal
import CueVerif.Proofs.ExportParen
namespace CueVerif.C07
open CueVerif CueVerif.Export

/-! ### (1) labels -/

/-- For EVERY label string `s` that is valid UTF-8 (the hypothesis C09's quoting theorem needs:
`literal.String.Quote` is lossy on invalid UTF-8 by design) and that NFC normalisation leaves
alone, the label the exporter prints — an identifier iff `!ast.StringLabelNeedsQuoting(s)`, else
`literal.String.Quote(s)` — compiles back to the regular field named `s`.
`E` = strconv.IsPrint/IsGraphic (only `E.Ok` assumed), `lU`/`dU` = unicode.IsLetter/IsDigit above
0x7F (arbitrary), `nfc` = norm.NFC.String. -/
theorem C07_label (E : Quote.Env) (hE : E.Ok) (lU dU : Nat → Bool) (nfc : Bytes → Bytes) (s : Bytes)
    (hb : Quote.IsBytes s) (hv : Quote.validUTF8 s = true) (hn : nfc s = s) :
    LabelRoundTrips E lU dU nfc s :=
  label_roundtrip hE lU dU nfc s hb hv hn

/-- Without the NFC hypothesis: an unquoted label comes back as `s`, a quoted one as `nfc s`. -/
theorem C07_label_general (E : Quote.Env) (hE : E.Ok) (lU dU : Nat → Bool) (nfc : Bytes → Bytes)
    (s : Bytes) (hb : Quote.IsBytes s) (hv : Quote.validUTF8 s = true) :
    parseLabel nfc (printLabel E lU dU s) =
      some (.str (if needsQuoting lU dU s = true then nfc s else s)) :=
  label_general hE lU dU nfc s hb hv

/-- the statement without the NFC hypothesis … -/
def C07_label_stmt (E : Quote.Env) (lU dU : Nat → Bool) (nfc : Bytes → Bytes) : Prop :=
  ∀ s : Bytes, Quote.IsBytes s → Quote.validUTF8 s = true → LabelRoundTrips E lU dU nfc s

/-- … is FALSE for the real NFC: the label "e"+U+0301 (valid UTF-8; U+0301 is a mark, neither
letter nor digit) is printed quoted and the compiler reads it back as "é" (U+00E9) — a different
field.  Genuine divergence of exporter and compiler (class `label-nfc`). -/
theorem C07_label_false (E : Quote.Env) (hE : E.Ok) (lU dU : Nat → Bool) (nfc : Bytes → Bytes)
    (hl : lU 0x301 = false) (hd : dU 0x301 = false) (hnfc : nfc nfcWitness = [0xC3, 0xA9]) :
    ¬ C07_label_stmt E lU dU nfc := by
  intro h
  have h1 := h nfcWitness nfcWitness_valid.1 nfcWitness_valid.2
  have h2 := label_general hE lU dU nfc nfcWitness nfcWitness_valid.1 nfcWitness_valid.2
  rw [nfcWitness_quoted lU dU hl hd, if_pos rfl, hnfc] at h2
  unfold LabelRoundTrips at h1
  rw [h2] at h1
  revert h1; decide

/-- When an identifier is printed it is the string itself, a valid identifier that starts with
neither `#` nor `_` — so it is neither a definition, nor hidden, nor `_`: a regular label. -/
theorem C07_label_ident_safe (E : Quote.Env) (lU dU : Nat → Bool) (s n : Bytes)
    (h : printLabel E lU dU s = .ident n) :
    n = s ∧ Ident.isValidIdent lU dU (runes n) = true ∧ hasPrefixByte 35 n = false ∧
      hasPrefixByte 95 n = false ∧ identFeature n = some (.str n) :=
  label_ident_safe E lU dU s n h

/-- … and the scanner reads its text back as ONE identifier-shaped token with literal `n`, without
error (C09's agreement of scanner and `IsValidIdent`, same hypotheses on `lU`/`dU`). -/
theorem C07_label_scans (E : Quote.Env) (lU dU : Nat → Bool) (hL1 : lU 0xFFFD = false)
    (hL2 : lU 0xFEFF = false) (hD1 : dU 0xFFFD = false) (hD2 : dU 0xFEFF = false)
    (hdisj : ∀ c, 128 ≤ c → lU c = true → dU c = false) (s n : Bytes)
    (h : printLabel E lU dU s = .ident n) : Ident.scanIdentClean lU dU (runes n) = true :=
  label_scans E lU dU hL1 hL2 hD1 hD2 hdisj s n h

/-- The label `exporter.stringLabel` itself prints (since /repo 6c9a0c0 `package` and `import` are
always quoted, everything else is `ast.NewStringLabel`) compiles back to the regular field `s`, for
every valid-UTF-8, NFC-stable `s`. -/
theorem C07_export_label (E : Quote.Env) (hE : E.Ok) (lU dU : Nat → Bool) (nfc : Bytes → Bytes)
    (s : Bytes) (hb : Quote.IsBytes s) (hv : Quote.validUTF8 s = true) (hn : nfc s = s) :
    parseLabel nfc (exportLabel E lU dU s) = some (.str s) :=
  exportLabel_roundtrip hE lU dU nfc s hb hv hn

/-- An identifier the exporter prints as a label is never `package` or `import` — the two names the
parser does not accept as a field label at the top level of a file — and is what
`ast.NewStringLabel` yields (so `C07_label_ident_safe` / `C07_label_scans` apply to it). -/
theorem C07_export_label_no_file_keyword (E : Quote.Env) (lU dU : Nat → Bool) (s n : Bytes)
    (h : exportLabel E lU dU s = .ident n) :
    isFileKeyword n = false ∧ printLabel E lU dU s = .ident n :=
  exportLabel_ident_not_keyword E lU dU s n h

-- non-vacuity: `package` is quoted by the exporter although ast.NewStringLabel leaves it unquoted;
-- `if` stays an identifier
example : (∃ t, exportLabel Quote.asciiEnv (fun _ => false) (fun _ => false) [112, 97, 99, 107, 97, 103, 101] = .lit t) ∧
    printLabel Quote.asciiEnv (fun _ => false) (fun _ => false) [112, 97, 99, 107, 97, 103, 101] =
      .ident [112, 97, 99, 107, 97, 103, 101] ∧
    exportLabel Quote.asciiEnv (fun _ => false) (fun _ => false) [105, 102] = .ident [105, 102] :=
  ⟨⟨Quote.quote Quote.asciiEnv Quote.stringForm [112, 97, 99, 107, 97, 103, 101], by simp [exportLabel, isFileKeyword]⟩,
    by decide, by decide⟩

-- non-vacuity (samples, not the property): "a-b", "0a", "_x", "#y", "" are quoted; "if" and "é"
-- (with é a letter) are printed as identifiers; all of them meet the hypotheses of `C07_label`
section
private def lU : Nat → Bool := (· == 233)
private def dU : Nat → Bool := fun _ => false
example : needsQuoting lU dU [97, 45, 98] = true ∧ needsQuoting lU dU [48, 97] = true ∧
    needsQuoting lU dU [95, 120] = true ∧ needsQuoting lU dU [35, 121] = true ∧
    needsQuoting lU dU [] = true ∧ needsQuoting lU dU [105, 102] = false ∧
    needsQuoting lU dU [0xC3, 0xA9] = false := by decide
example : LabelRoundTrips Quote.asciiEnv lU dU id [97, 45, 98] :=
  C07_label _ Quote.asciiEnv_ok _ _ _ _ (by intro b hb; simp at hb; omega)
    (by simp [Quote.validUTF8, Quote.decodeFirst]) rfl
example : LabelRoundTrips Quote.asciiEnv lU dU id [0xC3, 0xA9] :=
  C07_label _ Quote.asciiEnv_ok _ _ _ _ (by intro b hb; simp at hb; omega)
    (by simp [Quote.validUTF8, Quote.decodeFirst, Quote.decodeRune, Quote.isCont]) rfl
example : LabelRoundTrips Quote.asciiEnv lU dU id [] :=
  C07_label _ Quote.asciiEnv_ok _ _ _ _ (by intro b hb; simp at hb) (by simp [Quote.validUTF8]) rfl
example : printLabel Quote.asciiEnv lU dU [105, 102] = .ident [105, 102] ∧
    Ident.scanIdentClean lU dU (runes [105, 102]) = true := by decide
end

/-! ### (2) bounds and predeclared ranges -/

/-- `boundSimplifier` (`add` over all values, then `expr`; all values kept when `expr` is nil)
preserves the denotation of EVERY list of conjuncts: the printed conjunction
`[int|uint &] min & max & unused…` is satisfied by exactly the atoms that satisfy the original.
`re` = the regular-expression oracle of C03 (arbitrary). -/
theorem C07_bounds_simplify (re : Scalar.Bytes → Scalar.Bytes → Bool) (cs : List Scalar.Constraint) :
    SameDenotation re cs (simplifyBounds cs) :=
  fun a => simplify_sound re cs a

-- non-vacuity: `int & >=0 & <=300 & !=5` becomes `uint & <=300 & !=5` (min dropped);
-- `>1.5 & >=2 & <10 & int` becomes `uint & >=2 & <10`; a lone `>=3 & int` is left alone
example : simplify [.type .int, .bound ⟨.ge, .int 0⟩, .bound ⟨.le, .int 300⟩, .bound ⟨.ne, .int 5⟩] =
    some ⟨.uint, none, some ⟨.le, .int 300⟩, [.bound ⟨.ne, .int 5⟩]⟩ := by decide
example : simplify [.bound ⟨.gt, .float ⟨15, -1⟩⟩, .bound ⟨.ge, .int 2⟩, .bound ⟨.lt, .int 10⟩, .type .int] =
    some ⟨.uint, some ⟨.ge, .int 2⟩, some ⟨.lt, .int 10⟩, []⟩ := by decide
example : simplify [.bound ⟨.ge, .int 3⟩, .type .int] = none := by decide

/-- The predeclared identifier `MatchBuiltinRange` answers denotes EXACTLY the conjunction it
replaces (C03's semantics of ranges, which C03's bridge ties to compile/predeclared.go). -/
theorem C07_range_exact (re : Scalar.Bytes → Scalar.Bytes → Bool) (cs : List Scalar.Constraint)
    (r : Scalar.Range) (h : matchBuiltinRange cs = some r) :
    ∀ a, Scalar.satAll re cs a = Scalar.sat re a (.range r) :=
  range_exact re cs r h

/-- Every non-empty answer of `MatchBuiltinRange` is the spelling of a predeclared range. -/
theorem C07_range_named (cs : List Scalar.Constraint) (h : matchBuiltinName cs ≠ "") :
    ∃ r, matchBuiltinRange cs = some r ∧ Range.name r = matchBuiltinName cs :=
  range_named cs h

/-- By `decide` over the COMPLETE tables of builtinrange.go: every row is the predeclared range
of the same name with the same numbers (C03's `Range.intSpec` / `floatMax`), and there is no row
for `rune`. -/
theorem C07_range_table :
    intBuiltinRanges.all intRowOK = true ∧ floatBuiltinRanges.all floatRowOK = true ∧
    (intBuiltinRanges ++ floatBuiltinRanges).all (fun r => r.name != "rune") = true :=
  ⟨int_table_ok, float_table_ok, no_rune_row⟩

/-- `rune` is never printed (so `int & >=0 & <=0x10FFFF` goes through the simplifier instead). -/
theorem C07_range_never_rune (cs : List Scalar.Constraint) : matchBuiltinRange cs ≠ some .rune :=
  range_not_rune cs

/-- The whole `*adt.Conjunction` arm with `cfg.Simplify` (fewer than two values: as they are;
a recognised range: its identifier, which the compiler knows; otherwise the simplifier) prints a
conjunction with the same denotation, for EVERY list of conjuncts. -/
theorem C07_conj_export (re : Scalar.Bytes → Scalar.Bytes → Bool) (cs : List Scalar.Constraint) :
    ∃ out, exportConj cs = some out ∧ SameDenotation re cs out :=
  exportConj_sound re cs

-- non-vacuity: `int & >=0.0 & <=255` is `uint8` (numeric equality), `>=-3.4…e38 & <=3.4…e38` is
-- `float32`, `int & >=0` is `uint`, `int & >=0 & <=256` is no range and is simplified instead
example : matchBuiltinRange [.type .int, .bound ⟨.ge, .float ⟨0, -1⟩⟩, .bound ⟨.le, .int 255⟩] = some .uint8 ∧
    matchBuiltinRange [.bound ⟨.le, .float Scalar.float32Max⟩, .bound ⟨.ge, .float Scalar.float32Max.neg⟩] = some .float32 ∧
    matchBuiltinRange [.bound ⟨.ge, .int 0⟩, .type .int] = some .uint ∧
    matchBuiltinRange [.type .int, .bound ⟨.ge, .int 0⟩, .bound ⟨.le, .int 256⟩] = none ∧
    exportConj [.type .int, .bound ⟨.ge, .int 0⟩, .bound ⟨.le, .int 256⟩] =
      some [.range .uint, .bound ⟨.le, .int 256⟩] := by decide

/-! ### (3) parentheses -/

/-- The exporter builds `d₁ | *d₂ | …` as a left-nested chain with `*` as a unary operator and NO
parenthesis node; for ARBITRARY well-formed disjunct trees (nested disjunctions, `&`, unary
bounds …) what either formatter writes scans and parses back to a tree that differs from the
exporter's tree in parenthesis nodes only: `*(a|b)` and `(a|b)&c` keep their grouping. -/
theorem C07_disj_reparses (ds : List (Bool × Fmt.Expr)) (h : ∀ d ∈ ds, d.2.wf = true) (e : Fmt.Expr)
    (he : mkDisj ds = some e) :
    (∃ t, (Fmt.scan (Fmt.render (Fmt.fmtV2 e))).bind Fmt.parseE = some t ∧ Fmt.erase t = Fmt.erase e) ∧
    (∃ t, (Fmt.scan (Fmt.render (Fmt.fmtV1 e))).bind Fmt.parseE = some t ∧ Fmt.erase t = Fmt.erase e) :=
  reparses_same e (mkDisj_wf ds h e he)

/-- the same for the `wrapBin(…, adt.AndOp)` chains of the conjunction arm -/
theorem C07_conj_reparses (es : List Fmt.Expr) (h : ∀ x ∈ es, x.wf = true) (e : Fmt.Expr)
    (he : mkConj es = some e) :
    (∃ t, (Fmt.scan (Fmt.render (Fmt.fmtV2 e))).bind Fmt.parseE = some t ∧ Fmt.erase t = Fmt.erase e) ∧
    (∃ t, (Fmt.scan (Fmt.render (Fmt.fmtV1 e))).bind Fmt.parseE = some t ∧ Fmt.erase t = Fmt.erase e) :=
  reparses_same e (mkConj_wf es h e he)

-- non-vacuity: the default disjunct `a | b` and the disjunct `(a | b) & c` built WITHOUT parenthesis
-- nodes: the formatter writes `*(a|b)|(a|b)&c` and the re-parsed tree has the two parenthesis nodes
example :
    let a := Fmt.Expr.atom (.ident ['a']); let b := Fmt.Expr.atom (.ident ['b'])
    let c := Fmt.Expr.atom (.ident ['c'])
    let ab := Fmt.Expr.bin .or a b
    mkDisj [(true, ab), (false, .bin .and ab c)] =
        some (.bin .or (.un .mul ab) (.bin .and ab c)) ∧
      Fmt.norm (.bin .or (.un .mul ab) (.bin .and ab c)) =
        .bin .or (.un .mul (.paren ab)) (.bin .and (.paren ab) c) := by decide

/-! ### (4) value-based export on CueCore -/

/-- The reference exporter: for EVERY normal-form value (any depth; structs with regular,
required and optional fields, closed or open; lists; scalars and integer ranges; top; bottom)
evaluating the exported expression gives the value back. -/
theorem C07_value_roundtrip (v : Core.Val) (h : v.WF) : Core.eval (exportV v) = v :=
  eval_exportV v h

/-- Under `cue.Final()` (optional fields skipped as by `structComposite` with `!ShowOptional`,
no `close`): evaluating the exported expression gives exactly the Final projection of the value
(`projFinal`, Spec/Export.lean: optional fields dropped, closedness forgotten, recursively) … -/
theorem C07_value_roundtrip_final (v : Core.Val) (h : v.WF) :
    Core.eval (exportFinal v) = projFinal v :=
  eval_exportFinal v h

/-- … which is again a normal form. -/
theorem C07_projFinal_wf (v : Core.Val) (h : v.WF) : (projFinal v).WF :=
  projFinal_wf v h

-- non-vacuity: the closed struct `{f0: 1, f1?: string, f3!: {f0?: int}}` is a normal form; its
-- Final projection is the open `{f0: 1, f3!: {}}` (slot 1 and the inner optional are gone and no
-- trailing empty slot remains)
example :
    let v : Core.Val := .struct (.cons (.some .regular (.sc (.int 1))) (.cons (.some .optional (.sc .tStr))
      (.cons .none (.cons (.some .required (.struct (.cons (.some .optional (.sc .tInt)) .nil) false)) .nil)))) true
    v.WF ∧ exportV v ≠ exportFinal v ∧
    projFinal v = .struct (.cons (.some .regular (.sc (.int 1))) (.cons .none (.cons .none
      (.cons (.some .required (.struct .nil false)) .nil)))) false := by decide

end CueVerif.C07
