/-
C02 — Parsing, compiling, evaluating and exporting never crash and are repeatable.

The property has two halves.

* "never panics / overflows the stack / deadlocks, bounded time and memory" is a RUN-TIME
  behaviour of the Go program.  A pure Lean model is total by construction and cannot exhibit
  a nil dereference, a stack overflow or a scheduler deadlock, so nothing below says anything
  about that half: it is OBSERVED ONLY (harness/c02*.go: isolated worker processes with time
  and memory limits).  The only crash statement proved here is about the one place of the
  modelled code that can panic by construction, `sccReady[0]` in `Graph.Sort`
  (`C02_toposort_ok`).

* "running again yields byte-identical output, including field order and error text" rests,
  in the code, on two mechanisms that turn data collected in an arbitrary order (Go map
  iteration) into a canonical order: `errors.Sanitize` and `toposort.Graph.Sort`.  The
  theorems below state that each mechanism's output is a function of the SET it is given,
  not of the order of presentation — at full strength where that is true, and with the
  proved negation + the exact excluded region where it is false of the code.

Only statements live here; proofs are in Proofs/{Sanitize,Toposort}.lean.
-/
import CueVerif.Proofs.Sanitize
import CueVerif.Proofs.ToposortIndep
namespace CueVerif.C02
open CueVerif CueVerif.Sanitize CueVerif.Toposort

/-! ### errors.Sanitize -/

/-- The comparison `removeMultiples` sorts with (position with NoPos first, then path) is a
total preorder on ALL errors, so `slices.SortFunc`'s precondition is met and "sorted" is
well defined.  (No well-formedness of positions is needed.) -/
theorem C02_sanitize_cmp_preorder : TotalPreorder cmp1 ∧ TotalPreorder cmpMsg :=
  ⟨Sanitize.cmp1_totalPreorder, Sanitize.cmpMsg_totalPreorder⟩

/-- FULL statement: Sanitize's output does not depend on the order in which the errors were
collected.  FALSE of the code (next two theorems). -/
def C02_sanitize_perm_stmt : Prop :=
  ∀ es es' : List Err, es.Perm es' → sanitize es = sanitize es'

/-- False, first reason: duplicates are recognised by position, path and `Error()` text, but
what is printed also shows the input positions / wrapped chain (`aux`); of two such
"duplicates" the one that happened to come first survives.  Witness: two errors equal up to
`aux`, in both orders. -/
theorem C02_sanitize_perm_false : ¬ C02_sanitize_perm_stmt := Sanitize.perm_false

/-- False, second reason, even when duplicates print identically (`MsgDet`): the sort uses
`Pos.Compare` (file NAME and offset), the grouping uses `==` (file POINTER and the whole
packed word).  Two positions that compare equal but are not `==` (two parses of a file name,
or RelPos/comma/scanned bits differing) tie in the sort, so a third error can end up between
two duplicates and the group is split.  Witness: three errors. -/
theorem C02_sanitize_perm_false_alias :
    ¬ (∀ es es' : List Err, es.Perm es' → MsgDet es → sanitize es = sanitize es') :=
  Sanitize.perm_false_alias

/-- What IS true, for every sorting function meeting the contract of `slices.SortFunc` (the
real one is unstable) and even for two different ones: when positions are canonical (H1) and
duplicates print identically (H2) — exactly the two excluded regions above — the output is a
function of the multiset of errors. -/
theorem C02_sanitize_perm_partial (S S' : (Err → Err → Ordering) → List Err → List Err)
    (hS : SortContract S) (hS' : SortContract S') (es es' : List Err)
    (hp : es.Perm es') (h1 : PosCanon es) (h2 : MsgDet es) :
    sanitizeWith S es = sanitizeWith S' es' :=
  Sanitize.sanitizeWith_perm S S' hS hS' es es' hp h1 h2

/-- Under H1 the output is strictly increasing in (position, path, message): sorted, and no
two survivors share position, path and message (duplicate-free). -/
theorem C02_sanitize_sorted_dedup (S : (Err → Err → Ordering) → List Err → List Err)
    (hS : SortContract S) (es : List Err) (h1 : PosCanon es) :
    StrictSorted (sanitizeWith S es) :=
  Sanitize.sanitizeWith_strictSorted S hS es h1

/-- FULL duplicate-freedom (no hypothesis) is false of the code: the split group of the alias
witness keeps both duplicates. -/
def C02_sanitize_dedup_stmt : Prop :=
  ∀ es : List Err, (sanitize es).Pairwise (fun x y => ¬ sameKey x y)

theorem C02_sanitize_dedup_false : ¬ C02_sanitize_dedup_stmt := Sanitize.dedup_false

/-- Nothing is invented and nothing is lost: every survivor is an input error, and every
input error has a survivor with the same position, path and message. -/
theorem C02_sanitize_complete (S : (Err → Err → Ordering) → List Err → List Err)
    (hS : SortContract S) (es : List Err) :
    (∀ e ∈ sanitizeWith S es, e ∈ es) ∧
    (∀ e ∈ es, ∃ e' ∈ sanitizeWith S es, sameKey e e') :=
  Sanitize.sanitizeWith_complete S hS es

/-- Idempotence (same hypotheses as `_perm_partial`). -/
theorem C02_sanitize_idem (S : (Err → Err → Ordering) → List Err → List Err)
    (hS : SortContract S) (es : List Err) (h1 : PosCanon es) (h2 : MsgDet es) :
    sanitizeWith S (sanitizeWith S es) = sanitizeWith S es :=
  Sanitize.sanitizeWith_idem S hS es h1 h2

/-- The contract is satisfiable, by the very algorithm the Go runtime runs for ≤ 12 errors,
so every theorem above applies to the executable `sanitize`. -/
theorem C02_insertionSort_contract : SortContract (fun cmp l => insertionSort cmp l) :=
  Sanitize.insertionSort_contract

-- non-vacuity (tests on samples, not the property): three distinct errors at two positions,
-- canonical and message-determined, are really reordered and de-duplicated
example : sanitize [⟨⟨1, [97], 5, 0⟩, [], [98], 0⟩, ⟨⟨1, [97], 2, 0⟩, [[120]], [99], 0⟩,
                    ⟨⟨1, [97], 5, 0⟩, [], [97], 0⟩, ⟨⟨1, [97], 5, 0⟩, [], [98], 0⟩]
    = [⟨⟨1, [97], 2, 0⟩, [[120]], [99], 0⟩, ⟨⟨1, [97], 5, 0⟩, [], [97], 0⟩, ⟨⟨1, [97], 5, 0⟩, [], [98], 0⟩] := by
  decide

/-! ### toposort.Graph.Sort -/

/-- `Graph.Sort` never reaches `sccReady[0]` with an empty ready list (the index-out-of-range
panic), the model's fuel suffices, and the result is a permutation of the graph's nodes — for
every well-formed graph, every presentation, every order in which the components are
delivered, every conforming sort, the current comparison (`fixed = true`) and the old one. -/
theorem C02_toposort_ok (fixed : Bool) (S : SortFn) (hS : S.Contract) (g : Graph) (comps : List Comp)
    (hg : g.WF) (hc : IsSCC g comps) :
    ∃ l, sortWith fixed S g comps = .ok l ∧ l.Perm g.nodes :=
  Toposort.sortWith_ok fixed S hS g comps hg hc

/-- The order respects every precedence edge that is not on a cycle: if `u → v` is an edge
and `u` is not reachable back from `v`, then `u` comes before `v`. -/
theorem C02_toposort_sound (fixed : Bool) (S : SortFn) (hS : S.Contract) (g : Graph) (comps : List Comp)
    (hg : g.WF) (hc : IsSCC g comps) (l : List Label) (hl : sortWith fixed S g comps = .ok l)
    (u v : Label) (hu : u ∈ g.nodes) (huv : v ∈ g.out u) (hacyc : ¬ Reach g v u) :
    Before l u v :=
  Toposort.sortWith_respects fixed S hS g comps hg hc l hl u v hu huv hacyc

/-- FULL statement: the field order is a function of the vertex and edge SETS, not of the
presentation (map iteration order of `Build`, AddEdge order, component order, tie behaviour
of the unstable sort).  `fixed = true` is `compareNodeByName` as it is in the code since commit
2c855f1 (a tie on `RawString` is broken by the label type); `fixed = false` is the comparison
before that commit. -/
def C02_toposort_perm_stmt (fixed : Bool) : Prop :=
  ∀ (S S' : SortFn), S.Contract → S'.Contract →
  ∀ (g g' : Graph) (comps comps' : List Comp), g.WF → g'.WF → g.Same g' →
    IsSCC g comps → IsSCC g' comps' →
    sortWith fixed S g comps = sortWith fixed S' g' comps'

/-- THE CODE THAT EXISTS: `Graph.Sort` is independent of the presentation, unconditionally —
for every well-formed graph, any two presentations of it, any two conforming sorts, any two
component lists meeting the SCC contract. -/
theorem C02_toposort_perm : C02_toposort_perm_stmt true := Toposort.perm_fixed

/-- Why: the comparison of the code tells all labels apart. -/
theorem C02_toposort_labels_distinct (g : Graph) : LabelsDistinct true g :=
  fun a _ b _ h => Toposort.cmpLabel_fixed_eq a b h

/-- HISTORICAL, about the OLD comparison (before 2c855f1, `fixed = false`: non-integer labels
compared by `RawString` only): the statement was false — the regular field "#a" and the
definition #a tied and came out in presentation order (witness: these two nodes, no edge, in
both orders; observed as run-to-run field order of `x: {"#a": 1} & {#a: 2}`).  Kept so that
the role of the tie-break stays visible: removing it makes exactly this witness reappear. -/
theorem C02_toposort_perm_false_old_comparison : ¬ C02_toposort_perm_stmt false := Toposort.perm_false

/-- Parametric form covering both comparisons: whenever the comparison tells the graph's
labels apart the output is independent of the presentation. -/
theorem C02_toposort_perm_partial (fixed : Bool) (S S' : SortFn) (hS : S.Contract) (hS' : S'.Contract)
    (g g' : Graph) (comps comps' : List Comp) (hg : g.WF) (hg' : g'.WF) (hsame : g.Same g')
    (hc : IsSCC g comps) (hc' : IsSCC g' comps') (hd : LabelsDistinct fixed g) :
    sortWith fixed S g comps = sortWith fixed S' g' comps' :=
  Toposort.sortWith_indep fixed S S' hS hS' g g' comps comps' hg hg' hsame hc hc' hd

/-- The comparisons `Graph.Sort` sorts with are total preorders (the precondition of
`slices.SortFunc`), the current one and the old one. -/
theorem C02_toposort_cmp_preorder (fixed : Bool) :
    TotalPreorder (cmpLabel fixed) ∧ TotalPreorder (cmpComp fixed) :=
  ⟨Toposort.cmpLabel_tp fixed, Toposort.cmpComp_tp fixed⟩

/-- OPEN (believed true, classical; mechanising Tarjan's algorithm is out of budget): the
transcription of scc.go computes the strongly connected components, i.e. the hypothesis
`IsSCC g comps` of the theorems above holds of what `StronglyConnectedComponents()` returns.
Tied instead by pins and by correspondence: on every generated graph the harness compares the
component SETS of the real `Graph.StronglyConnectedComponents()` with those of the executable
transcription `tarjan` (I-level op `scc`), and the final order with `sortG` (O-level op `topo`). -/
def C02_tarjan_stmt : Prop := ∀ g : Graph, g.WF → IsSCC g (tarjan g)

-- non-vacuity: the contract of the sort is met by insertion sort, and `IsSCC` by the
-- singleton partition of the (edgeless) witness graph; with cycles see the test below
example : stableSort.Contract := Toposort.stableSort_contract
example : IsSCC Toposort.wG [[Toposort.wS], [Toposort.wD]] :=
  Toposort.isSCC_singletons Toposort.wG (fun _ => rfl) Toposort.wG_wf.nodup

-- non-vacuity (a test): a diamond a→b, a→c, b→d, c→d with a back edge d→b
-- sorts to a, c, then the component {b, d} (which has to wait for both a and c)
example :
    let g1 : Graph := ⟨[.named 1 [100], .named 1 [99], .named 1 [98], .named 1 [97]], fun
      | .named 1 [97] => [.named 1 [99], .named 1 [98]]
      | .named 1 [98] => [.named 1 [100]]
      | .named 1 [99] => [.named 1 [100]]
      | .named 1 [100] => [.named 1 [98]]
      | _ => []⟩
    sortG true stableSort g1 = .ok [.named 1 [97], .named 1 [99], .named 1 [98], .named 1 [100]] := by
  decide

end CueVerif.C02
