/-
C02 — Parsing, compiling, evaluating and exporting never crash and are repeatable.

The property has two halves.

* "never panics / overflows the stack / deadlocks, bounded time and memory" is a RUN-TIME
  behaviour of the Go program.  A pure Lean model is total by construction and cannot exhibit
  a nil dereference, a stack overflow or a scheduler deadlock, so nothing below says anything
  about that half: it is OBSERVED ONLY (harness/c02*.go: isolated worker processes with time
  and memory limits).  The only crash statement proved here is about the one place of the
  modelled code that can panic by construction, `sccReady[0]` in `Graph.Sort`
  (`C02_toposort_ok`).

* "running again yields byte-identical output, including field order and error text" rests,
  in the code, on two mechanisms that turn data collected in an arbitrary order (Go map
  iteration) into a canonical order: `errors.Sanitize` and `toposort.Graph.Sort`.  The
  theorems below state that each mechanism's output is a function of the SET it is given,
  not of the order of presentation — at full strength where that is true, and with the
  proved negation + the exact excluded region where it is false of the code.

  Session 3 adds: Tarjan's algorithm as transcribed from scc.go is PROVED to deliver the
  strongly connected components (the former OPEN statement), which removes the `IsSCC`
  hypothesis from the statements about `Graph.Sort` as a whole (`C02_sort_*`); and the graph
  construction of `toposort.VertexFeatures` is transcribed and proved to produce well-formed
  graphs only, whatever the struct literals are (`C02_vertexFeatures_*`).

* Scanner: the loops of cue/scanner/scanner.go are transcribed at the level of progress
  (each iteration consumes a rune or stops at end of input) and proved total
  (`C02_scan_*`, Proofs/ScanLoops.lean) — a statement about the MODEL's loops, tied to the
  implementation by a token-boundary trace comparison; it does not turn the observed half
  into a proof.

Only statements live here; proofs are in Proofs/{Sanitize,Toposort,ToposortKahn,ToposortIndep,
ToposortTarjan,VertexFeatures,ScanLoops}.lean.
-/
import CueVerif.Proofs.Sanitize
import CueVerif.Proofs.ToposortIndep
import CueVerif.Proofs.ToposortTarjan
import CueVerif.Proofs.VertexFeatures
import CueVerif.Proofs.ScanLoops
namespace CueVerif.C02
open CueVerif CueVerif.Sanitize CueVerif.Toposort

/-! ### errors.Sanitize -/

/-- The comparison `removeMultiples` sorts with (position with NoPos first, then path) is a
total preorder on ALL errors, so `slices.SortFunc`'s precondition is met and "sorted" is
well defined.  (No well-formedness of positions is needed.) -/
theorem C02_sanitize_cmp_preorder : TotalPreorder cmp1 ∧ TotalPreorder cmpMsg :=
  ⟨Sanitize.cmp1_totalPreorder, Sanitize.cmpMsg_totalPreorder⟩

/-- FULL statement: Sanitize's output does not depend on the order in which the errors were
collected.  FALSE of the code (next two theorems). -/
def C02_sanitize_perm_stmt : Prop :=
  ∀ es es' : List Err, es.Perm es' → sanitize es = sanitize es'

/-- False, first reason: duplicates are recognised by position, path and `Error()` text, but
what is printed also shows the input positions / wrapped chain (`aux`); of two such
"duplicates" the one that happened to come first survives.  Witness: two errors equal up to
`aux`, in both orders. -/
theorem C02_sanitize_perm_false : ¬ C02_sanitize_perm_stmt := Sanitize.perm_false

/-- False, second reason, even when duplicates print identically (`MsgDet`): the sort uses
`Pos.Compare` (file NAME and offset), the grouping uses `==` (file POINTER and the whole
packed word).  Two positions that compare equal but are not `==` (two parses of a file name,
or RelPos/comma/scanned bits differing) tie in the sort, so a third error can end up between
two duplicates and the group is split.  Witness: three errors. -/
theorem C02_sanitize_perm_false_alias :
    ¬ (∀ es es' : List Err, es.Perm es' → MsgDet es → sanitize es = sanitize es') :=
  Sanitize.perm_false_alias

/-- What IS true, for every sorting function meeting the contract of `slices.SortFunc` (the
real one is unstable) and even for two different ones: when positions are canonical (H1) and
duplicates print identically (H2) — exactly the two excluded regions above — the output is a
function of the multiset of errors. -/
theorem C02_sanitize_perm_partial (S S' : (Err → Err → Ordering) → List Err → List Err)
    (hS : SortContract S) (hS' : SortContract S') (es es' : List Err)
    (hp : es.Perm es') (h1 : PosCanon es) (h2 : MsgDet es) :
    sanitizeWith S es = sanitizeWith S' es' :=
  Sanitize.sanitizeWith_perm S S' hS hS' es es' hp h1 h2

/-- Under H1 the output is strictly increasing in (position, path, message): sorted, and no
two survivors share position, path and message (duplicate-free). -/
theorem C02_sanitize_sorted_dedup (S : (Err → Err → Ordering) → List Err → List Err)
    (hS : SortContract S) (es : List Err) (h1 : PosCanon es) :
    StrictSorted (sanitizeWith S es) :=
  Sanitize.sanitizeWith_strictSorted S hS es h1

/-- FULL duplicate-freedom (no hypothesis) is false of the code: the split group of the alias
witness keeps both duplicates. -/
def C02_sanitize_dedup_stmt : Prop :=
  ∀ es : List Err, (sanitize es).Pairwise (fun x y => ¬ sameKey x y)

theorem C02_sanitize_dedup_false : ¬ C02_sanitize_dedup_stmt := Sanitize.dedup_false

/-- Nothing is invented and nothing is lost: every survivor is an input error, and every
input error has a survivor with the same position, path and message. -/
theorem C02_sanitize_complete (S : (Err → Err → Ordering) → List Err → List Err)
    (hS : SortContract S) (es : List Err) :
    (∀ e ∈ sanitizeWith S es, e ∈ es) ∧
    (∀ e ∈ es, ∃ e' ∈ sanitizeWith S es, sameKey e e') :=
  Sanitize.sanitizeWith_complete S hS es

/-- Idempotence (same hypotheses as `_perm_partial`). -/
theorem C02_sanitize_idem (S : (Err → Err → Ordering) → List Err → List Err)
    (hS : SortContract S) (es : List Err) (h1 : PosCanon es) (h2 : MsgDet es) :
    sanitizeWith S (sanitizeWith S es) = sanitizeWith S es :=
  Sanitize.sanitizeWith_idem S hS es h1 h2

/-- The contract is satisfiable, by the very algorithm the Go runtime runs for ≤ 12 errors,
so every theorem above applies to the executable `sanitize`. -/
theorem C02_insertionSort_contract : SortContract (fun cmp l => insertionSort cmp l) :=
  Sanitize.insertionSort_contract

-- non-vacuity (tests on samples, not the property): three distinct errors at two positions,
-- canonical and message-determined, are really reordered and de-duplicated
example : sanitize [⟨⟨1, [97], 5, 0⟩, [], [98], 0⟩, ⟨⟨1, [97], 2, 0⟩, [[120]], [99], 0⟩,
                    ⟨⟨1, [97], 5, 0⟩, [], [97], 0⟩, ⟨⟨1, [97], 5, 0⟩, [], [98], 0⟩]
    = [⟨⟨1, [97], 2, 0⟩, [[120]], [99], 0⟩, ⟨⟨1, [97], 5, 0⟩, [], [97], 0⟩, ⟨⟨1, [97], 5, 0⟩, [], [98], 0⟩] := by
  decide

/-! ### toposort.Graph.Sort -/

/-- `Graph.Sort` never reaches `sccReady[0]` with an empty ready list (the index-out-of-range
panic), the model's fuel suffices, and the result is a permutation of the graph's nodes — for
every well-formed graph, every presentation, every order in which the components are
delivered, every conforming sort, the current comparison (`fixed = true`) and the old one. -/
theorem C02_toposort_ok (fixed : Bool) (S : SortFn) (hS : S.Contract) (g : Graph) (comps : List Comp)
    (hg : g.WF) (hc : IsSCC g comps) :
    ∃ l, sortWith fixed S g comps = .ok l ∧ l.Perm g.nodes :=
  Toposort.sortWith_ok fixed S hS g comps hg hc

/-- The order respects every precedence edge that is not on a cycle: if `u → v` is an edge
and `u` is not reachable back from `v`, then `u` comes before `v`. -/
theorem C02_toposort_sound (fixed : Bool) (S : SortFn) (hS : S.Contract) (g : Graph) (comps : List Comp)
    (hg : g.WF) (hc : IsSCC g comps) (l : List Label) (hl : sortWith fixed S g comps = .ok l)
    (u v : Label) (hu : u ∈ g.nodes) (huv : v ∈ g.out u) (hacyc : ¬ Reach g v u) :
    Before l u v :=
  Toposort.sortWith_respects fixed S hS g comps hg hc l hl u v hu huv hacyc

/-- FULL statement: the field order is a function of the vertex and edge SETS, not of the
presentation (map iteration order of `Build`, AddEdge order, component order, tie behaviour
of the unstable sort).  `fixed = true` is `compareNodeByName` as it is in the code since commit
2c855f1 (a tie on `RawString` is broken by the label type); `fixed = false` is the comparison
before that commit. -/
def C02_toposort_perm_stmt (fixed : Bool) : Prop :=
  ∀ (S S' : SortFn), S.Contract → S'.Contract →
  ∀ (g g' : Graph) (comps comps' : List Comp), g.WF → g'.WF → g.Same g' →
    IsSCC g comps → IsSCC g' comps' →
    sortWith fixed S g comps = sortWith fixed S' g' comps'

/-- THE CODE THAT EXISTS: `Graph.Sort` is independent of the presentation, unconditionally —
for every well-formed graph, any two presentations of it, any two conforming sorts, any two
component lists meeting the SCC contract. -/
theorem C02_toposort_perm : C02_toposort_perm_stmt true := Toposort.perm_fixed

/-- Why: the comparison of the code tells all labels apart. -/
theorem C02_toposort_labels_distinct (g : Graph) : LabelsDistinct true g :=
  fun a _ b _ h => Toposort.cmpLabel_fixed_eq a b h

/-- HISTORICAL, about the OLD comparison (before 2c855f1, `fixed = false`: non-integer labels
compared by `RawString` only): the statement was false — the regular field "#a" and the
definition #a tied and came out in presentation order (witness: these two nodes, no edge, in
both orders; observed as run-to-run field order of `x: {"#a": 1} & {#a: 2}`).  Kept so that
the role of the tie-break stays visible: removing it makes exactly this witness reappear. -/
theorem C02_toposort_perm_false_old_comparison : ¬ C02_toposort_perm_stmt false := Toposort.perm_false

/-- Parametric form covering both comparisons: whenever the comparison tells the graph's
labels apart the output is independent of the presentation. -/
theorem C02_toposort_perm_partial (fixed : Bool) (S S' : SortFn) (hS : S.Contract) (hS' : S'.Contract)
    (g g' : Graph) (comps comps' : List Comp) (hg : g.WF) (hg' : g'.WF) (hsame : g.Same g')
    (hc : IsSCC g comps) (hc' : IsSCC g' comps') (hd : LabelsDistinct fixed g) :
    sortWith fixed S g comps = sortWith fixed S' g' comps' :=
  Toposort.sortWith_indep fixed S S' hS hS' g g' comps comps' hg hg' hsame hc hc' hd

/-- The comparisons `Graph.Sort` sorts with are total preorders (the precondition of
`slices.SortFunc`), the current one and the old one. -/
theorem C02_toposort_cmp_preorder (fixed : Bool) :
    TotalPreorder (cmpLabel fixed) ∧ TotalPreorder (cmpComp fixed) :=
  ⟨Toposort.cmpLabel_tp fixed, Toposort.cmpComp_tp fixed⟩

/-! ### Tarjan's algorithm as written in scc.go -/

/-- The transcription of scc.go computes the strongly connected components: the hypothesis
`IsSCC g comps` of the theorems above holds of what `StronglyConnectedComponents()` returns
(`tarjan`, fuelled with `tarjanFuel g`; the proof shows the fuel is never exhausted). -/
def C02_tarjan_stmt : Prop := ∀ g : Graph, g.WF → IsSCC g (tarjan g)

/-- PROVED (session 3; was OPEN): invariant proof over the fuelled mutual recursion
`findSCC`/`visitOut` (Proofs/ToposortTarjan.lean). -/
theorem C02_tarjan : C02_tarjan_stmt := fun g hg => Toposort.tarjan_isSCC g hg

/-- the components partition the node set: no node twice, no empty component, exactly the nodes -/
theorem C02_tarjan_partition (g : Graph) (hg : g.WF) :
    (tarjan g).flatten.Nodup ∧ (∀ c ∈ tarjan g, c ≠ []) ∧ (∀ v, v ∈ g.nodes ↔ ∃ c ∈ tarjan g, v ∈ c) :=
  Toposort.tarjan_partition g hg

/-- every returned component is strongly connected -/
theorem C02_tarjan_strongly_connected (g : Graph) (hg : g.WF) :
    ∀ c ∈ tarjan g, ∀ u ∈ c, ∀ v ∈ c, Reach g u v ∧ Reach g v u :=
  Toposort.tarjan_strongly_connected g hg

/-- "The components returned are topologically sorted (forwards)" (doc comment of
`StronglyConnectedComponents`): no edge leads from a later component of the returned list
into an earlier one. -/
theorem C02_tarjan_topological (g : Graph) (hg : g.WF) :
    ∀ l1 c l2 d l3, tarjan g = l1 ++ c :: l2 ++ d :: l3 → ∀ u ∈ d, ∀ v ∈ g.out u, v ∉ c :=
  Toposort.tarjan_reverse_topological g hg

-- non-vacuity: a 3-cycle with a tail and an isolated node is well formed; its components
example : Toposort.Tarjan.exG.WF := Toposort.Tarjan.exG_wf
example : tarjan Toposort.Tarjan.exG = [[.int 4], [.int 2, .int 1, .int 0], [.int 3]] := by decide

/-! ### Graph.Sort end to end (components from Tarjan's algorithm: no `IsSCC` hypothesis left) -/

/-- `Graph.Sort` as a whole never panics on `sccReady[0]`, never runs out of the model's fuel
and returns a permutation of the nodes, for every well-formed graph. -/
theorem C02_sort_ok (S : SortFn) (hS : S.Contract) (g : Graph) (hg : g.WF) :
    ∃ l, sortG true S g = .ok l ∧ l.Perm g.nodes :=
  Toposort.sortG_ok S hS g hg

/-- `Graph.Sort` as a whole is a function of the vertex and edge SETS: two presentations of a
graph (node order = Go map iteration, edge order) and two conforming sorts give the same order. -/
theorem C02_sort_perm (S S' : SortFn) (hS : S.Contract) (hS' : S'.Contract) (g g' : Graph)
    (hg : g.WF) (hg' : g'.WF) (hsame : g.Same g') : sortG true S g = sortG true S' g' :=
  Toposort.sortG_indep S S' hS hS' g g' hg hg' hsame

/-- … and respects every precedence edge that is not on a cycle. -/
theorem C02_sort_sound (S : SortFn) (hS : S.Contract) (g : Graph) (hg : g.WF) (l : List Label)
    (hl : sortG true S g = .ok l) (u v : Label) (hu : u ∈ g.nodes) (huv : v ∈ g.out u)
    (hacyc : ¬ Reach g v u) : Before l u v :=
  Toposort.sortG_respects S hS g hg l hl u v hu huv hacyc

/-! ### toposort.VertexFeatures: the graph a list of struct literals induces -/

/-- Whatever the struct literals (positions, explicitness, field orders) and arcs are, the
builder `VertexFeatures` hands to `Build` is a map with distinct keys whose edges join nodes,
and every arc is a node: so EVERY node order `Build` can produce (any permutation of the keys)
is a well-formed graph — the hypothesis `g.WF` of the theorems above is met by construction. -/
theorem C02_vertexFeatures_wf (S0 : SortFn) (arcs : List Label) (roots : List Root) :
    (buildVF S0 arcs roots).WF ∧ (∀ a ∈ arcs, a ∈ (buildVF S0 arcs roots).keys) ∧
    (∀ ns, ns.Perm (buildVF S0 arcs roots).keys → ((buildVF S0 arcs roots).graph ns).WF) :=
  ⟨Toposort.buildVF_wf S0 arcs roots, Toposort.buildVF_arcs S0 arcs roots,
   fun ns hp => Toposort.graph_wf _ (Toposort.buildVF_wf S0 arcs roots) ns hp⟩

/-- The field order `VertexFeatures` returns is a function of the struct literals and arcs it
is given — the same for every order in which `maps.Values(nodesByFeature)` may list the nodes
(Go map iteration), and for every conforming sort inside `Graph.Sort`. -/
theorem C02_vertexFeatures_perm (S0 S S' : SortFn) (hS : S.Contract) (hS' : S'.Contract)
    (arcs : List Label) (roots : List Root) (ns ns' : List Label)
    (hp : ns.Perm (buildVF S0 arcs roots).keys) (hp' : ns'.Perm (buildVF S0 arcs roots).keys) :
    sortG true S ((buildVF S0 arcs roots).graph ns) = sortG true S' ((buildVF S0 arcs roots).graph ns') :=
  Toposort.vertexFeatures_sortG_indep S0 S S' hS hS' arcs roots ns ns' hp hp'

/-- … never the `sccReady[0]` panic; the result lists exactly the builder's nodes. -/
theorem C02_vertexFeatures_ok (S0 S : SortFn) (hS : S.Contract)
    (arcs : List Label) (roots : List Root) (ns : List Label)
    (hp : ns.Perm (buildVF S0 arcs roots).keys) :
    ∃ l, sortG true S ((buildVF S0 arcs roots).graph ns) = .ok l ∧ l.Perm (buildVF S0 arcs roots).keys :=
  Toposort.vertexFeatures_sortG_ok S0 S hS arcs roots ns hp

-- non-vacuity (a test): `x: {z: _, y: _} & {y: _, w: _, z: _}` (case 2 of the comment in
-- vertex.go: an explicit unification introduces the cycle y → w → z → y… here z → y, y → w,
-- w → z): the three labels form one component and come out in name order
example :
    let z : Label := .named 1 [122]
    let y : Label := .named 1 [121]
    let w : Label := .named 1 [119]
    vertexFeatures stableSort [z, y, w]
      [⟨1, ⟨1, [97], 3, 0⟩, true, [z, y]⟩, ⟨2, ⟨1, [97], 20, 0⟩, true, [y, w, z]⟩] = .ok [w, y, z] := by
  decide

-- … and implicit unification in source order keeps the source order: `c: {z: _, y: _}`,
-- `c: {x: _, w: _}` gives z, y, x, w
example :
    let z : Label := .named 1 [122]
    let y : Label := .named 1 [121]
    let x : Label := .named 1 [120]
    let w : Label := .named 1 [119]
    vertexFeatures stableSort [w, x, y, z]
      [⟨1, ⟨1, [97], 3, 0⟩, false, [z, y]⟩, ⟨2, ⟨1, [97], 20, 0⟩, false, [x, w]⟩] = .ok [z, y, x, w] := by
  decide

/-! ### the scanner's loops (cue/scanner/scanner.go): every loop makes progress

The model (Model/ScanLoops.lean) works on the rune sequence `Scanner.next` delivers; `e : Env`
is the input together with two ORACLES that are not this property's to model: the Unicode
letter/digit classes of runes ≥ 0x80, and the extent of a number literal (`scanNumber`, owned
by C09) — a number oracle that does not make progress yields the explicit result `badOracle`.
Every Go `for` loop is a fuelled function; `Res.fuel` = "the loop did not stop within the fuel".
These are theorems about the MODEL's loops; they are tied to the implementation by pins and by
comparing token-boundary traces (op `scan`), and say nothing about run time or memory. -/

/-- `recoverParen` (the loop of seeded change C02-a) stops within `length − position + 1`
iterations, at a position between its start and the end of input — for every input, every
start position and every parenthesis count. -/
theorem C02_scan_recoverParen_total (e : ScanLoops.Env) (f : Nat) (opn : Int) (p : Nat)
    (h : p ≤ e.len) (hf : e.len - p + 1 ≤ f) : ScanLoops.Bnd e p (ScanLoops.recoverParen e f opn p) :=
  ScanLoops.recoverParen_total e f opn p h hf

/-- likewise `skipWhitespace`, `scanComment` and the main loop of `scanString` (single-line,
multi-line, `#`-quoted, resumed after an interpolation) -/
theorem C02_scan_loops_total (e : ScanLoops.Env) (f p : Nat) (h : p ≤ e.len) (hf : e.len - p + 1 ≤ f) :
    (∀ eol, ScanLoops.Bnd e p (ScanLoops.skipWhitespace e eol f p)) ∧
    ScanLoops.Bnd e p (ScanLoops.scanComment e f p) ∧
    (∀ q cont, ∃ r, ScanLoops.scanString e q cont f p = .ok r ∧ p ≤ r.1 ∧ r.1 ≤ e.len) :=
  ⟨fun eol => ScanLoops.skipWhitespace_total e eol f p h hf, ScanLoops.scanComment_total e f p h hf,
   fun q cont => ScanLoops.scanString_total e q cont f p h hf⟩

/-- One call of `Scan` (whole dispatch, incl. the recursion through attributes) never runs out
of fuel `μ + 2`, and every token other than EOF strictly decreases the measure
`μ = 2·(runes left) + (insertEOL ? 1 : 0)`: it either consumes at least one rune or — the
elided comma before a newline comment / at end of input — clears `insertEOL` in place. -/
theorem C02_scan_progress (e : ScanLoops.Env) (F : Nat) (st st' : ScanLoops.St) (start : Nat)
    (cls : ScanLoops.Cls) (h0 : st.pos ≤ e.len) (hF : ScanLoops.μ e st + 2 ≤ F)
    (h : ScanLoops.scan e F st = .ok (st', start, cls)) :
    st'.pos ≤ e.len ∧ ScanLoops.μ e st' ≤ ScanLoops.μ e st ∧
      (cls ≠ .EOF → ScanLoops.μ e st' < ScanLoops.μ e st) :=
  ScanLoops.scan_progress e F st st' start cls h0 hF h

theorem C02_scan_call_total (e : ScanLoops.Env) (F : Nat) (st : ScanLoops.St) (h0 : st.pos ≤ e.len)
    (hF : ScanLoops.μ e st + 2 ≤ F) : ScanLoops.scan e F st ≠ .fuel :=
  ScanLoops.scan_total e F st h0 hF

/-- Scanner totality: the client loop the parser runs (Scan until EOF, ResumeInterpolation
after the parenthesis that closes an interpolation) ends within `2·length + 4` calls for EVERY
rune sequence and EVERY oracle. -/
theorem C02_scan_total (e : ScanLoops.Env) : ScanLoops.scanAll e ≠ .fuel :=
  ScanLoops.scanAll_total e

-- non-vacuity (tests): the input of seeded change C02-a is scanned to the end — the attribute
-- swallows the interpolation, `recoverParen` runs into the end of input and stops there
example : ScanLoops.scanAll (ScanLoops.sampleEnv "@x(\"\\(" []) =
    .ok [(0, 6, .ATTR), (6, 6, .COMMA_ELIDED), (6, 6, .EOF)] := by decide
-- a number oracle that makes no progress is reported, not looped on
example : ScanLoops.scanAll (ScanLoops.sampleEnv "1" [(0, 0)]) = .badOracle := by decide

-- non-vacuity: the contract of the sort is met by insertion sort, and `IsSCC` by the
-- singleton partition of the (edgeless) witness graph; with cycles see the test below
example : stableSort.Contract := Toposort.stableSort_contract
example : IsSCC Toposort.wG [[Toposort.wS], [Toposort.wD]] :=
  Toposort.isSCC_singletons Toposort.wG (fun _ => rfl) Toposort.wG_wf.nodup

-- non-vacuity (a test): a diamond a→b, a→c, b→d, c→d with a back edge d→b
-- sorts to a, c, then the component {b, d} (which has to wait for both a and c)
example :
    let g1 : Graph := ⟨[.named 1 [100], .named 1 [99], .named 1 [98], .named 1 [97]], fun
      | .named 1 [97] => [.named 1 [99], .named 1 [98]]
      | .named 1 [98] => [.named 1 [100]]
      | .named 1 [99] => [.named 1 [100]]
      | .named 1 [100] => [.named 1 [98]]
      | _ => []⟩
    sortG true stableSort g1 = .ok [.named 1 [97], .named 1 [99], .named 1 [98], .named 1 [100]] := by
  decide

end CueVerif.C02
