/-
C08 — `cue fmt` is idempotent and never changes what a file means.

Proved here for the expression core (binary operators with the regenerated precedence table,
unary operators, parentheses, primary atoms), over ALL expression trees of any depth, including
trees built programmatically without positions:

  * the token stream the formatters emit parses back to the same tree up to parentheses
    (`C08_expr_roundtrip`, `C08_same_meaning`, `C08_parser_tree`), and printing is idempotent
    through the parser (`C08_idem`, `C08_norm_idem`);
  * token separation: if a blank is written wherever two adjacent tokens are a maximal-munch
    hazard, scanning the rendered line gives back exactly the tokens (`C08_no_token_merge`);
  * the default formatter (v2, internal/pretty) satisfies that hypothesis (`C08_v2_policy_safe`),
    hence its output re-parses to the same tree (`C08_v2_output_reparses`);
  * so does the legacy v1 printer (cue/format, CUE_EXPERIMENT=formatv2=0) since fix ab8529a mirrored
    internal/pretty's guard in cue/format/node.go (`C08_v1_policy_safe`, `C08_v1_output_reparses`);
    the OLD policy without the guard did not (`C08_v1_OLD_policy_unsafe`; `<` applied to `-1` was
    printed `<-1`), which is kept as a clearly named record.

Whole-file layout, comments and `-s` simplifications are not modelled (harness direct predicates).
Only statements live here; the proofs are in CueVerif/Proofs/Fmt{Parse,Scan,Policy}.lean.
-/
import CueVerif.Proofs.FmtParse
import CueVerif.Proofs.FmtScan
import CueVerif.Proofs.FmtPolicy
namespace CueVerif.C08
open CueVerif CueVerif.Fmt

/-! ### printing preserves the tree -/

/-- Parsing the printed token stream of ANY well-formed tree yields its normal form: the same
tree with a parenthesis node exactly where the printer wrote parentheses and `((x))` collapsed. -/
theorem C08_expr_roundtrip (e : Expr) (h : e.wf = true) : parseE (printE e) = some (norm e) :=
  parse_print e h

/-- The normal form means the same: it differs from `e` in parenthesis nodes only. -/
theorem C08_same_meaning (e : Expr) : erase (norm e) = erase e :=
  erase_normP lowestPrec e

/-- For a tree that obeys the grammar (every tree the parser returns) the normal form is the tree
itself with doubled parentheses collapsed — the only tree change `cue fmt` makes to a source file's
expressions. -/
theorem C08_parser_tree (e : Expr) (h : Shaped 0 e = true) : norm e = collapse e :=
  normP_shaped lowestPrec e h

/-- Formatting is idempotent through the parser: re-printing the re-parsed output gives the same
tokens. -/
theorem C08_idem (e : Expr) (h : e.wf = true) : (parseE (printE e)).map printE = some (printE e) := by
  rw [parse_print e h]; exact congrArg some (printP_normP lowestPrec e)

/-- ... and the tree no longer changes on a second pass. -/
theorem C08_norm_idem (e : Expr) : norm (norm e) = norm e :=
  normP_idem lowestPrec e

/-- The output tree obeys the grammar (nothing relies on the printer's own parenthesisation twice). -/
theorem C08_norm_shaped (e : Expr) (h : e.wf = true) : Shaped 0 (norm e) = true :=
  shaped_normP lowestPrec e (by decide) h

-- non-vacuity: `(a + b) * -(1 - (c - d))` built WITHOUT parenthesis nodes is well-formed, is not
-- grammar-shaped, and its normal form has three parenthesis nodes
example :
    let a := Expr.atom (.ident ['a']); let b := Expr.atom (.ident ['b'])
    let e := Expr.bin .mul (.bin .add a b) (.un .sub (.bin .sub (.atom (.int ['1'])) (.bin .sub a b)))
    e.wf = true ∧ Shaped 0 e = false ∧ norm e ≠ e ∧ parseE (printE e) = some (norm e) := by decide

/-! ### token separation under maximal munch -/

/-- If a blank is written wherever two adjacent tokens are a hazard (would be scanned as
something else when written without a separator), the scanner returns exactly the tokens. Holds for
ANY token list over the operator / punctuation alphabet and atoms, not only printed expressions. -/
theorem C08_no_token_merge (l : Items) (hwf : ∀ x ∈ l, x.2.wf = true) (h : sepOK l = true) :
    scan (render l) = some (toks l) :=
  scan_render l hwf h

/-- The hazard table is tight: a hazardous pair written without a blank is never scanned as the two
tokens (so the hypothesis of `C08_no_token_merge` cannot be weakened). -/
theorem C08_hazard_tight (a b : Tok) (ha : a.wf = true) (hb : b.wf = true) (h : hazard a b = true)
    (rest : List Char) : scanOne (a.spell ++ b.spell ++ rest) ≠ some (a, b.spell ++ rest) :=
  hazard_tight a b ha hb h rest

-- non-vacuity: `< -1` needs its blank, `<-1` is scanned as ARROW
example : sepOK [(false, .op .lss), (true, .op .sub), (false, .atom (.int ['1']))] = true ∧
    scan ['<', '-', '1'] = some [.op .arrow, .atom (.int ['1'])] := by decide

/-! ### the two formatters -/

/-- Both formatters emit the token stream `printE` (same parenthesisation decisions). -/
theorem C08_v2_tokens (e : Expr) : toks (fmtV2 e) = printE e := toks_fmtV2 e
theorem C08_v1_tokens (guard : Bool) (e : Expr) : toks (fmtV1g guard e) = printE e := toks_fmtV1g guard e

/-- The default formatter's blank policy separates every hazardous pair. -/
theorem C08_v2_policy_safe (e : Expr) (h : e.wf = true) : sepOK (fmtV2 e) = true :=
  fmtV2_safe e h

/-- Hence: the characters the default formatter writes for any expression tree scan and parse back
to the tree's normal form. -/
theorem C08_v2_output_reparses (e : Expr) (h : e.wf = true) :
    (scan (render (fmtV2 e))).bind parseE = some (norm e) := by
  have hw : ∀ x ∈ fmtV2 e, x.2.wf = true := by
    intro x hx
    have : x.2 ∈ toks (fmtV2 e) := List.mem_map_of_mem hx
    rw [toks_fmtV2] at this
    exact printP_wf lowestPrec e h _ this
  rw [scan_render _ hw (fmtV2_safe e h), toks_fmtV2]
  exact parse_print e h

/-- The legacy v1 printer (cue/format, CUE_EXPERIMENT=formatv2=0) as it is in the tree — with the
guard `unaryOpMergesWithOperand` in the UnaryExpr arm (fix ab8529a; `fmtV1 = fmtV1g v1GuardEnabled`,
`v1GuardEnabled = true`) — separates every hazardous pair, for every tree. -/
theorem C08_v1_policy_safe (e : Expr) (h : e.wf = true) : sepOK (fmtV1 e) = true :=
  fmtV1g_guard_safe e h

/-- Hence the characters the v1 printer writes for any expression tree scan and parse back to the
tree's normal form. -/
theorem C08_v1_output_reparses (e : Expr) (h : e.wf = true) :
    (scan (render (fmtV1 e))).bind parseE = some (norm e) := by
  have hw : ∀ x ∈ fmtV1g true e, x.2.wf = true := by
    intro x hx
    have : x.2 ∈ toks (fmtV1g true e) := List.mem_map_of_mem hx
    rw [toks_fmtV1g] at this
    exact printP_wf lowestPrec e h _ this
  show (scan (render (fmtV1g true e))).bind parseE = some (norm e)
  rw [scan_render _ hw (fmtV1g_guard_safe e h), toks_fmtV1g]
  exact parse_print e h

/-- `<`, `>`, `!` applied to a negative number built as ONE literal (`negLit`, what the exporter
produces): both printers keep the blank — `< -1`, never `<-1` — and the output re-parses. -/
theorem C08_negative_literal_separated :
    render (fmtV1 (.un .lss (negLit ['1']))) = ['<', ' ', '-', '1'] ∧
    render (fmtV2 (.un .lss (negLit ['1']))) = ['<', ' ', '-', '1'] ∧
    render (fmtV1 (.un .gtr (negLit ['1']))) = ['>', '-', '1'] ∧
    (scan (render (fmtV1 (.un .lss (negLit ['1']))))).bind parseE = some (.un .lss (negLit ['1'])) := by decide

/-! #### the OLD v1 policy (before fix ab8529a): kept as a record of why the guard is needed.
`fmtV1g false` is the printer WITHOUT the guard; nothing below is about the current tree. -/

/-- the statement the OLD policy would have had to satisfy — FALSE -/
def C08_v1_OLD_policy_safe_stmt : Prop := ∀ e : Expr, e.wf = true → sepOK (fmtV1g false e) = true

/-- the witness: `<` applied to `-1` (ast.UnaryExpr{Op: LSS, X: &ast.UnaryExpr{Op: SUB, X: 1}}) -/
def v1Witness : Expr := .un .lss (.un .sub (.atom (.int ['1'])))

/-- the OLD policy printed the witness `<-1`, which the scanner reads as ARROW 1 -/
theorem C08_v1_OLD_policy_witness_merges :
    render (fmtV1g false v1Witness) = ['<', '-', '1'] ∧
    scan (render (fmtV1g false v1Witness)) = some [.op .arrow, .atom (.int ['1'])] ∧
    (scan (render (fmtV1g false v1Witness))).bind parseE = none := by decide

theorem C08_v1_OLD_policy_unsafe : ¬ C08_v1_OLD_policy_safe_stmt := by
  intro h
  have := h v1Witness (by decide)
  revert this
  decide

/-- ... and the CURRENT policy prints the same witness `< -1`, which re-parses -/
theorem C08_v1_witness_now_separated :
    render (fmtV1 v1Witness) = ['<', ' ', '-', '1'] ∧
    (scan (render (fmtV1 v1Witness))).bind parseE = some v1Witness := by decide

/-- the OLD policy was safe exactly outside the region the guard now covers: no unary operator
directly followed by an operand whose first token merges with it -/
theorem C08_v1_OLD_policy_safe_partial (e : Expr) (h : e.wf = true) (hn : NoUnaryMerge e = true) :
    sepOK (fmtV1g false e) = true :=
  fmtV1g_partial e h hn

-- non-vacuity: `a*b + c*-d < -x` has unary operators and satisfies NoUnaryMerge; the witness does not
example :
    let a := Expr.atom (.ident ['a'])
    let e := Expr.bin .lss (.bin .add (.bin .mul a a) (.bin .mul a (.un .sub a))) (.un .sub a)
    e.wf = true ∧ NoUnaryMerge e = true ∧ NoUnaryMerge v1Witness = false := by decide

end CueVerif.C08
