/-
C05 — Field constraints, patterns and closedness admit exactly what the spec allows.

Only statements live here; the proofs are in CueVerif/Proofs/Closed.lean.
Model: CueVerif/Model/Closed.lean (bottom-up evaluation to normal forms with closer lists,
pointwise unification, validation).  Spec: CueVerif/Spec/Closed.lean (top-down membership
checker on the syntax, written from doc/ref/spec.md).  All theorems quantify over ALL
schemas of the fragment (any depth, any labels, any number of conjuncts, any pattern of
the pattern language) and all data.
-/
import CueVerif.Proofs.Closed
namespace CueVerif.C05
open CueVerif CueVerif.Closed

/-! ### the model's verdict is exactly the spec checker's -/

/-- `unify (eval schema) (eval data)` passes `Validate(Concrete(true))` in the model exactly
when the independent membership checker admits the data. -/
theorem C05_exact (s : Expr) (d : Data) (hd : d.WF = true) : accepts s d = admits s d :=
  Closed.accepts_eq_admits s d hd

/-! ### a closed struct never gains a disallowed field -/

/-- At every node the checker visits (any depth: `admits` descends with `sub`), a regular
data field that some closed conjunct of the schema does not allow makes the result fail. -/
theorem C05_closed_never_gains (n : Nat) (full : Bool) (e : Expr) (d : Data) (l : Label)
    (hl : d.labels.contains l = true) (hr : l.isReg = true) (hna : allowedBy e l = false) :
    admitsN n full e (some d) = false :=
  Closed.admitsN_disallowed n full e d l hl hr hna

/-- … and so does the model (top level; deeper levels through `C05_exact`). -/
theorem C05_closed_never_gains_model (s : Expr) (d : Data) (l : Label) (hd : d.WF = true)
    (hl : d.labels.contains l = true) (hr : l.isReg = true) (hna : allowedBy s l = false) :
    accepts s d = false :=
  Closed.accepts_disallowed s d l hd hl hr hna

/-- Hidden and definition labels are never restricted: closedness is only ever asked for
regular labels, and patterns never match anything else. -/
theorem C05_hidden_never_matched (p : Pat) (l : Label) (h : l.isReg = false) : p.matches l = false :=
  Closed.matches_nonreg p l h

/-! ### an open struct never rejects a field -/

/-- If no closed conjunct reaches a node, every label is allowed there. -/
theorem C05_open_never_rejects (e : Expr) (l : Label) (hs : shape e = .st)
    (h : closed e = false) : allowedBy e l = true :=
  Closed.allowedBy_of_open e l hs h

/-! ### optional constraints on absent fields never make a struct fail -/

/-- Adding an optional constraint `l?: v` (with ANY value `v`, even `_|_`) for a label that
is absent from the result (not in the data, not a regular field of the schema) does not
change the verdict. -/
theorem C05_optional_absent (s : Expr) (d : Data) (l : Label) (v : Expr) (hd : d.WF = true)
    (hs : shape s = .st) (hl : d.labels.contains l = false) (hm : hasDecl .member s l = false) :
    admits (.and s (.field l .optional v .nil)) d = admits s d :=
  Closed.admits_and_optional s d l v hd hs hl hm

/-! ### direct / through a definition / as a sole embedding -/

/-- A definition reference closes recursively: what `#D` says about field `l` is what its
body says about `l`, again closed as a definition. -/
theorem C05_definition_closes_recursively (l : Label) (e : Expr) :
    sub l (.defn e) = .defn (sub l e) := rfl

/-- `close()` closes one level only. -/
theorem C05_close_one_level (l : Label) (e : Expr) : sub l (.close e) = sub l e := rfl

/-- Reaching a schema through a definition reference only adds the recursive closing:
whatever the reference admits, the body admits. -/
theorem C05_definition_only_restricts (n : Nat) (full : Bool) (e : Expr) (od : Option Data)
    (h : admitsN n full (.defn e) od = true) : admitsN n full e od = true :=
  Closed.admitsN_defn_imp n full e od h

theorem C05_close_only_restricts (n : Nat) (full : Bool) (e : Expr) (od : Option Data)
    (h : admitsN n full (.close e) od = true) : admitsN n full e od = true :=
  Closed.admitsN_close_imp n full e od h

/-- At the level of the reference itself the definition and `close()` decide alike. -/
theorem C05_definition_vs_close_toplevel (e : Expr) (l : Label) :
    allowedBy (.defn e) l = allowedBy (.close e) l := rfl

/-- The sole embedding `{s}` of a struct schema built without definition references
(`close()` allowed) gives the same verdict as `s`. -/
theorem C05_sole_embedding_partial (s : Expr) (d : Data) (hs : shape s = .st) (hn : noDef s = true) :
    admits (.emb s .nil) d = admits s d :=
  Closed.sole_embedding_noDef s d hs hn

/-- The full statement (spec: "The result of `{ A }` is `A` for any `A`") … -/
def C05_sole_embedding_stmt : Prop :=
  ∀ (s : Expr) (d : Data), shape s = .st → d.WF = true → admits (.emb s .nil) d = admits s d

/-- … is FALSE of the model, because the model follows the implementation in making a
struct literal that embeds a recursively closed value recursively closed as a whole
(typocheck.go addResolver/closeOuter): with `#E: {b?: _}`,
`(#E & {b?: {c?: int}}) & {b: {zz: 1}}` is accepted but `{#E & {b?: {c?: int}}} & {b: {zz: 1}}`
is not.  The harness replays this witness on the real evaluator. -/
theorem C05_sole_embedding_false : ¬ C05_sole_embedding_stmt :=
  Closed.sole_embedding_false

/-! ### non-vacuity (tests on samples, not the property) -/

private def la : Label := ⟨.reg, [97]⟩
private def lb : Label := ⟨.reg, [98]⟩
private def lc : Label := ⟨.reg, [99]⟩
/-- `#S: {a?: int, [=~"^a"]: int}` referenced as a definition -/
private def exS : Expr := .defn (.field la .optional (.sc .int) (.pat (.pre [97]) (.sc .int) .nil))
-- a closed schema that admits some data and rejects other data
example : admits exS (.cons la (.atom (.i 1)) .nil) = true := by decide
example : admits exS (.cons lb (.atom (.i 1)) .nil) = false := by decide
example : accepts exS (.cons la (.atom (.i 1)) .nil) = true := by decide
-- hypotheses of C05_closed_never_gains are satisfiable: `b` is not allowed by `exS`
example : allowedBy exS lb = false ∧ lb.isReg = true := by decide
-- hypotheses of C05_open_never_rejects: an open literal with fields and a pattern
example : closed (.field la .required (.sc .int) (.pat .any (.sc .str) .nil)) = false ∧
    shape (.field la .required (.sc .int) (.pat .any (.sc .str) .nil)) = .st := by decide
-- embeddings widen: `{#S, c?: int}` allows `c` and `a`, not `b`
example : (allowedBy (.emb exS (.field lc .optional (.sc .int) .nil)) lc,
           allowedBy (.emb exS (.field lc .optional (.sc .int) .nil)) la,
           allowedBy (.emb exS (.field lc .optional (.sc .int) .nil)) lb) = (true, true, false) := by decide

end CueVerif.C05
