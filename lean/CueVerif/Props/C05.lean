/-
C05 — Field constraints, patterns and closedness admit exactly what the spec allows.

Only statements live here; the proofs are in CueVerif/Proofs/Closed.lean.
Model: CueVerif/Model/Closed.lean (bottom-up evaluation to normal forms with closer lists,
pointwise unification, validation).  Spec: CueVerif/Spec/Closed.lean (top-down membership
checker on the syntax, written from doc/ref/spec.md).  All theorems quantify over ALL
schemas of the fragment (any depth, any labels, any number of conjuncts, any pattern of
the pattern language) and all data.
-/
import CueVerif.Proofs.Closed
import CueVerif.Proofs.Typo
import CueVerif.Proofs.ArcType
import CueVerif.Proofs.PatMatch
import CueVerif.Spec.ClosedDenied
namespace CueVerif.C05
open CueVerif CueVerif.Closed

/-! ### the model's verdict is exactly the spec checker's -/

/-- `unify (eval schema) (eval data)` passes `Validate(Concrete(true))` in the model exactly
when the independent membership checker admits the data. -/
theorem C05_exact (s : Expr) (d : Data) (hd : d.WF = true) : accepts s d = admits s d :=
  Closed.accepts_eq_admits s d hd

/-! ### a closed struct never gains a disallowed field -/

/-- At every node the checker visits (any depth: `admits` descends with `sub`), a regular
data field that some closed conjunct of the schema does not allow makes the result fail. -/
theorem C05_closed_never_gains (n : Nat) (full : Bool) (e : Expr) (d : Data) (l : Label)
    (hl : d.labels.contains l = true) (hr : l.isReg = true) (hna : allowedBy e l = false) :
    admitsN n full e (some d) = false :=
  Closed.admitsN_disallowed n full e d l hl hr hna

/-- … and so does the model (top level; deeper levels through `C05_exact`). -/
theorem C05_closed_never_gains_model (s : Expr) (d : Data) (l : Label) (hd : d.WF = true)
    (hl : d.labels.contains l = true) (hr : l.isReg = true) (hna : allowedBy s l = false) :
    accepts s d = false :=
  Closed.accepts_disallowed s d l hd hl hr hna

/-- Hidden and definition labels are never restricted: closedness is only ever asked for
regular labels, and patterns never match anything else. -/
theorem C05_hidden_never_matched (p : Pat) (l : Label) (h : l.isReg = false) : p.matches l = false :=
  Closed.matches_nonreg p l h

/-! ### an open struct never rejects a field -/

/-- If no closed conjunct reaches a node, every label is allowed there. -/
theorem C05_open_never_rejects (e : Expr) (l : Label) (hs : shape e = .st)
    (h : closed e = false) : allowedBy e l = true :=
  Closed.allowedBy_of_open e l hs h

/-! ### optional constraints on absent fields never make a struct fail -/

/-- Adding an optional constraint `l?: v` (with ANY value `v`, even `_|_`) for a label that
is absent from the result (not in the data, not a regular field of the schema) does not
change the verdict. -/
theorem C05_optional_absent (s : Expr) (d : Data) (l : Label) (v : Expr) (hd : d.WF = true)
    (hs : shape s = .st) (hl : d.labels.contains l = false) (hm : hasDecl .member s l = false) :
    admits (.and s (.field l .optional v .nil)) d = admits s d :=
  Closed.admits_and_optional s d l v hd hs hl hm

/-! ### direct / through a definition / as a sole embedding -/

/-- A definition reference closes recursively: what `#D` says about field `l` is what its
body says about `l`, again closed as a definition. -/
theorem C05_definition_closes_recursively (l : Label) (e : Expr) :
    sub l (.defn e) = .defn (sub l e) := rfl

/-- `close()` closes one level only. -/
theorem C05_close_one_level (l : Label) (e : Expr) : sub l (.close e) = sub l e := rfl

/-- Reaching a schema through a definition reference only adds the recursive closing:
whatever the reference admits, the body admits. -/
theorem C05_definition_only_restricts (n : Nat) (full : Bool) (e : Expr) (od : Option Data)
    (h : admitsN n full (.defn e) od = true) : admitsN n full e od = true :=
  Closed.admitsN_defn_imp n full e od h

theorem C05_close_only_restricts (n : Nat) (full : Bool) (e : Expr) (od : Option Data)
    (h : admitsN n full (.close e) od = true) : admitsN n full e od = true :=
  Closed.admitsN_close_imp n full e od h

/-- At the level of the reference itself the definition and `close()` decide alike. -/
theorem C05_definition_vs_close_toplevel (e : Expr) (l : Label) :
    allowedBy (.defn e) l = allowedBy (.close e) l := rfl

/-- The sole embedding `{s}` of a struct schema built without definition references
(`close()` allowed) gives the same verdict as `s`. -/
theorem C05_sole_embedding_partial (s : Expr) (d : Data) (hs : shape s = .st) (hn : noDef s = true) :
    admits (.emb s .nil) d = admits s d :=
  Closed.sole_embedding_noDef s d hs hn

/-- The full statement (spec: "The result of `{ A }` is `A` for any `A`") … -/
def C05_sole_embedding_stmt : Prop :=
  ∀ (s : Expr) (d : Data), shape s = .st → d.WF = true → admits (.emb s .nil) d = admits s d

/-- … is FALSE of the model, because the model follows the implementation in making a
struct literal that embeds a recursively closed value recursively closed as a whole
(typocheck.go addResolver/closeOuter): with `#E: {b?: _}`,
`(#E & {b?: {c?: int}}) & {b: {zz: 1}}` is accepted but `{#E & {b?: {c?: int}}} & {b: {zz: 1}}`
is not.  The harness replays this witness on the real evaluator. -/
theorem C05_sole_embedding_false : ¬ C05_sole_embedding_stmt :=
  Closed.sole_embedding_false

/-! ### non-vacuity (tests on samples, not the property) -/

private def la : Label := ⟨.reg, [97]⟩
private def lb : Label := ⟨.reg, [98]⟩
private def lc : Label := ⟨.reg, [99]⟩
/-- `#S: {a?: int, [=~"^a"]: int}` referenced as a definition -/
private def exS : Expr := .defn (.field la .optional (.sc .int) (.pat (.pre [97]) (.sc .int) .nil))
-- a closed schema that admits some data and rejects other data
example : admits exS (.cons la (.atom (.i 1)) .nil) = true := by decide
example : admits exS (.cons lb (.atom (.i 1)) .nil) = false := by decide
example : accepts exS (.cons la (.atom (.i 1)) .nil) = true := by decide
-- hypotheses of C05_closed_never_gains are satisfiable: `b` is not allowed by `exS`
example : allowedBy exS lb = false ∧ lb.isReg = true := by decide
-- hypotheses of C05_open_never_rejects: an open literal with fields and a pattern
example : closed (.field la .required (.sc .int) (.pat .any (.sc .str) .nil)) = false ∧
    shape (.field la .required (.sc .int) (.pat .any (.sc .str) .nil)) = .st := by decide
-- embeddings widen: `{#S, c?: int}` allows `c` and `a`, not `b`
example : (allowedBy (.emb exS (.field lc .optional (.sc .int) .nil)) lc,
           allowedBy (.emb exS (.field lc .optional (.sc .int) .nil)) la,
           allowedBy (.emb exS (.field lc .optional (.sc .int) .nil)) lb) = (true, true, false) := by decide

/-! ## Session 3 — the evidence algorithm of typocheck.go (Model/Typo.lean)

`Typo.*` transcribes addResolver / newReq / injectEmbedNode / splitStruct / getReqSets /
filterTop / hasEvidenceForAll / hasEvidenceForOne / containsDefIDRec / checkTypos.  The
theorems below are about these functions for ALL requirement sets, conjunct infos and
containment relations (Layer A); how the scheduler (Layer B) produces them for a schema is
compared with the real evaluator on generated schemas (harness ops `tyev`, class I, and
`den`, class O against `Closed.denied`). -/

/-- "A field is admitted iff every closing conjunct group that reaches the node admits it":
when every requirement set is active and outside any embedding scope, the evidence check
succeeds exactly when EVERY set has direct evidence (a conjunct of the field whose defID lies
inside the set). -/
theorem C05_typo_all_groups (contains : Nat → Nat → Bool) (a : List Typo.ReqSet) (conj : List Typo.ConjInfo)
    (h : ∀ rs ∈ a, rs.ignored = false ∧ rs.removed = false ∧ rs.embed = 0) :
    Typo.hasEvidenceForAll contains a conj =
      a.all (fun rs => conj.any (fun x => contains rs.id x.id)) :=
  Typo.hasEvidenceForAll_flat a conj h

/-- A closed struct never gains a field (evidence level): one active set outside any embedding
scope without direct evidence denies the field, whatever the other sets say. -/
theorem C05_typo_closed_never_gains (contains : Nat → Nat → Bool) (a : List Typo.ReqSet)
    (conj : List Typo.ConjInfo) (rs : Typo.ReqSet)
    (hm : rs ∈ a) (hi : rs.ignored = false) (hr : rs.removed = false) (he : rs.embed = 0)
    (hn : conj.any (fun x => contains rs.id x.id) = false) :
    Typo.hasEvidenceForAll contains a conj = false :=
  Typo.hasEvidenceForAll_denied a conj rs hm hi hr he hn

/-- An open struct never rejects (evidence level): without an active requirement set no arc is
denied. -/
theorem C05_typo_open_never_rejects (cN cA : Nat → Nat → Bool) (base : List Typo.ReqSet)
    (nodeConj arcConj : List Typo.ConjInfo) (l : Label) (b : Bool)
    (h : ∀ rs ∈ base, rs.ignored = true ∨ rs.removed = true) :
    Typo.arcDenied cN cA base nodeConj l b arcConj = false :=
  Typo.arcDenied_inactive cN cA base nodeConj arcConj l b h

/-- Hidden and definition fields are never restricted (`allowedInClosed`). -/
theorem C05_typo_hidden_never_denied (cN cA : Nat → Nat → Bool) (base : List Typo.ReqSet)
    (nodeConj arcConj : List Typo.ConjInfo) (l : Label) (b : Bool) (h : l.isReg = false) :
    Typo.arcDenied cN cA base nodeConj l b arcConj = false :=
  Typo.arcDenied_nonreg cN cA base nodeConj arcConj l b h

/-- `...`: an ellipsis conjunct of the node inside every requirement set opens the node. -/
theorem C05_typo_ellipsis_opens (cN cA : Nat → Nat → Bool) (base : List Typo.ReqSet)
    (nodeConj arcConj : List Typo.ConjInfo) (l : Label) (b : Bool)
    (h : ∀ rs ∈ base, Typo.hasParentEllipsis cN rs nodeConj ≠ 0) :
    Typo.arcDenied cN cA base nodeConj l b arcConj = false :=
  Typo.arcDenied_ellipsis cN cA base nodeConj arcConj l b h

/-- The complete per-arc decision of `checkTypos` for requirement sets outside embedding
scopes: a regular, non-erroneous arc is denied iff some set has neither an ellipsis nor direct
evidence. -/
theorem C05_typo_arc_decision (cN cA : Nat → Nat → Bool) (base : List Typo.ReqSet)
    (nodeConj arcConj : List Typo.ConjInfo) (l : Label) (hl : l.isReg = true)
    (h : ∀ rs ∈ base, rs.ignored = false ∧ rs.removed = false ∧ rs.embed = 0) :
    Typo.arcDenied cN cA base nodeConj l false arcConj =
      !(base.all fun rs => Typo.hasParentEllipsis cN rs nodeConj != 0 ||
          arcConj.any (fun x => cA rs.id x.id)) :=
  Typo.arcDenied_flat cN cA base nodeConj arcConj l hl h

/-- "Embeddings open their embedder": a requirement that lives in the embedding scope `es`
of an enclosing struct `o` is satisfied by direct evidence OR by any conjunct of the field that
comes from the enclosing struct but from outside that embedding. -/
theorem C05_typo_embedding_widens (contains : Nat → Nat → Bool) (all : List Typo.ReqSet)
    (a es o : Typo.ReqSet) (conj : List Typo.ConjInfo)
    (hs : Typo.lookupSet all a.embed = some es) (hp : a.parent ≠ 0)
    (ho : Typo.lookupSet all a.parent = some o) (hr : o.removed = false) :
    Typo.hasEvidenceForOne contains all a conj =
      (conj.any (fun x => contains a.id x.id) ||
       conj.any (fun c => !(contains es.id c.embed) && contains o.id c.id)) :=
  Typo.hasEvidenceForOne_embedded all a es o conj hs hp ho hr

/-- "close() closes one level": below requirement sets that are all `once` (they come from
`close()`), a node without closing references of its own admits every field. -/
theorem C05_typo_close_one_level (contains : Nat → Nat → Bool) (n : Typo.NodeSt)
    (parentReqs : List Typo.ReqSet) (parentConj conj : List Typo.ConjInfo) (hidden : Bool)
    (hn : n.reqDefIDs = []) (h : ∀ e ∈ parentReqs, e.once = true) :
    Typo.hasEvidenceForAll contains (Typo.getReqSets contains n parentReqs parentConj hidden) conj = true :=
  Typo.getReqSets_all_once n parentReqs parentConj conj hidden hn h

/-- "definitions close recursively": `markIgnored` (the inheritance step of `getReqSets`) keeps
every set that is not `once` exactly as it is. -/
theorem C05_typo_definition_inherited (a : List Typo.ReqSet) (e : Typo.ReqSet) (he : e ∈ a)
    (h : e.once = false) : e ∈ Typo.markIgnored a :=
  Typo.markIgnored_keep a e he h

/-- containment is reflexive and follows a containment edge (`containsDefIDRec`) -/
theorem C05_typo_contains_refl (cont flat : List (Nat × Nat)) (n : Nat) (h : n ≠ 0) :
    Typo.containsDefID cont flat n n = true :=
  Typo.containsDefID_refl cont flat n h

theorem C05_typo_contains_parent (cont : List (Nat × Nat)) (p c : Nat) (hc : c ≠ 0) (hp : p ≠ 0)
    (hne : p ≠ c) (h : Typo.contOf cont c = p) : Typo.containsDefID cont [] p c = true :=
  Typo.containsDefID_parent cont p c hc hp hne h

/-- The full soundness/completeness statement of the evidence algorithm w.r.t. the spec-level
`allowedBy`/`sub` walk (`Closed.denied`), for every schema of the fragment at every depth.
-- OPEN (not proved; FALSE as stated without excluding the known-finding shapes: the evidence
model reproduces close-of-definition-reference, definition-body-is-close-call,
ellipsis-inside-embedding and nested-embedding, see the witnesses below).  It is TESTED on
every generated case by the harness (ops `tyev` and `den` must both equal the evaluator's set
of "field not allowed" paths). -/
def C05_typo_exact_stmt : Prop :=
  ∀ (s : Expr) (d : Data), d.WF = true →
    ∀ p, p ∈ Typo.typoDenied s d.toExpr ↔ p ∈ denied s d

private def lx : Label := ⟨.reg, [120]⟩
private def ly : Label := ⟨.reg, [121]⟩
/-- `#D: close({a?: {x?: int}}); #D & {a: {y: 1}}`: the spec denies `a.y`, the evidence
algorithm (like the real evaluator, finding `definition-body-is-close-call`) does not -/
theorem C05_typo_exact_false : ¬ C05_typo_exact_stmt := by
  intro h
  have := (h (.defn (.close (.field ⟨.reg, [97]⟩ .optional (.field lx .optional (.sc .int) .nil) .nil)))
    (.cons ⟨.reg, [97]⟩ (.cons ly (.atom (.i 1)) .nil) .nil) (by decide) [⟨.reg, [97]⟩, ly]).mpr (by decide)
  revert this
  decide

/-! ## Session 3 — arc types (member / required / optional) -/

theorem C05_arc_merge_comm (a b : Kind) : a.merge b = b.merge a := Kind.merge_comm a b
theorem C05_arc_merge_assoc (a b c : Kind) : (a.merge b).merge c = a.merge (b.merge c) :=
  Kind.merge_assoc a b c
theorem C05_arc_merge_idem (a : Kind) : a.merge a = a := Kind.merge_idem a
/-- a regular field wins over any constraint marker; `?` is the unit; `!` + `?` = `!` -/
theorem C05_arc_merge_member (a : Kind) : a.merge .member = .member := Kind.merge_member a
theorem C05_arc_merge_optional (a : Kind) : a.merge .optional = a := Kind.merge_optional a
theorem C05_arc_required_plus_member : Kind.required.merge .member = .member := rfl
theorem C05_arc_required_plus_optional : Kind.required.merge .optional = .required := rfl
/-- the merge is the meet of member < required < optional, also on possibly absent arcs -/
theorem C05_arc_merge_is_min (a b : Kind) : (a.merge b).rank = min a.rank b.rank := Kind.merge_rank a b
theorem C05_arc_mergeK_comm (a b : Option Kind) : mergeK a b = mergeK b a := mergeK_comm a b
theorem C05_arc_mergeK_assoc (a b c : Option Kind) : mergeK (mergeK a b) c = mergeK a (mergeK b c) :=
  mergeK_assoc a b c
theorem C05_arc_mergeK_idem (a : Option Kind) : mergeK a a = a := mergeK_idem a
theorem C05_arc_mergeK_unit (a : Option Kind) : mergeK none a = a ∧ mergeK a none = a :=
  ⟨mergeK_none_left a, mergeK_none_right a⟩

/-- required-field rule, model: a struct with an arc that is still `!` fails
`Validate(Concrete(true))` in a regular context … -/
theorem C05_required_field_fails (labels : List Label) (kind : Label → Option Kind) (val : Label → Val)
    (hard soft : List Pred) (names wide : Pred) (r e : Bool) (l : Label)
    (hl : l ∈ labels) (hk : kind l = some .required) :
    validate true (.st labels kind val hard soft names wide r e) = false :=
  validate_required_fails labels kind val hard soft names wide r e l hl hk
/-- … but not below a hidden/definition field … -/
theorem C05_required_field_hidden_ok (l : Label) (v : Val) :
    validate false (single l .required v) = true := validate_required_hidden_ok l v
/-- … and spec: whatever `admitsN` accepts has every `l!:` of the schema present (from the
data or as a regular field of another conjunct). -/
theorem C05_required_field_present (n : Nat) (e : Expr) (od : Option Data) (l : Label)
    (hs : (shape e).meet (optShape od) = .st) (h : admitsN (n + 1) true e od = true)
    (hl : l ∈ fieldLabels e) (hr : hasDecl .required e l = true) :
    ((match od with | some d => d.labels | none => []).contains l || hasDecl .member e l) = true :=
  admitsN_required_present n e od l hs h hl hr

/-! ## Session 3 — pattern constraints: matchPattern decides C03's satisfaction relation -/

/-- `matchPatternValue` on a string label = "the label satisfies the constraint the pattern
denotes" in the scalar specification of C03, for every pattern value built from `_`, basic
types, bounds (`<`,`<=`,`>`,`>=`,`!=`,`=~`,`!~` with any operand), string/number literals,
conjunctions and disjunctions, and every regular-expression matcher. -/
theorem C05_pattern_match_exact (re : Scalar.Bytes → Scalar.Bytes → Bool) (p : PatMatch.PatV)
    (l : Scalar.Bytes) : PatMatch.matchValue re p l = p.sat re (.str l) :=
  PatMatch.matchValue_eq_sat re p l

theorem C05_pattern_admits_iff (re : Scalar.Bytes → Scalar.Bytes → Bool) (p : PatMatch.PatV)
    (regular : Bool) (l : Scalar.Bytes) :
    PatMatch.matchPattern re (some p) regular l = PatMatch.admitsLabel re p regular l :=
  PatMatch.matchPattern_eq_admits re p regular l

/-- the pattern language of the closedness model/spec (`Pat.matches`) is `matchPattern` on
`string`, `=~"^q"`, `=~"q$"`, `!="q"` -/
theorem C05_pattern_fragment (re : Scalar.Bytes → Scalar.Bytes → Bool)
    (hpre : ∀ q s, re (94 :: q) s = q.isPrefixOf s) (hsuf : ∀ q s, re (q ++ [36]) s = q.isSuffixOf s)
    (p : Pat) (l : Label) :
    p.matches l = PatMatch.matchPattern re (some (PatMatch.ofPat p)) l.isReg l.name :=
  PatMatch.matches_eq_matchPattern re hpre hsuf p l

/-! ### non-vacuity for session 3 (tests on samples) -/

-- an active flat requirement set with and without direct evidence
example : Typo.hasEvidenceForAll (fun a b => a == b)
    [{ id := 1, parent := 0, embed := 0, kind := .reference, once := false, ignored := false }]
    [{ id := 1, embed := 0 }] = true := by decide
example : Typo.hasEvidenceForAll (fun a b => a == b)
    [{ id := 1, parent := 0, embed := 0, kind := .reference, once := false, ignored := false }]
    [{ id := 0, embed := 0 }] = false := by decide
-- the scheduler on `{#S, c?: int} & {a: 1, b: 1, c: 1}` with `#S: {a?: int}` denies exactly `b`
example : Typo.typoDenied (.emb exS (.field lc .optional (.sc .int) .nil))
    (.field la .member (.sc (.i 1)) (.field lb .member (.sc (.i 1)) (.field lc .member (.sc (.i 1)) .nil)))
    = [[lb]] := by decide
example : denied (.emb exS (.field lc .optional (.sc .int) .nil))
    (.cons la (.atom (.i 1)) (.cons lb (.atom (.i 1)) (.cons lc (.atom (.i 1)) .nil))) = [[lb]] := by decide
-- hypotheses of C05_typo_embedding_widens are satisfiable
example : Typo.lookupSet [{ id := 2, parent := 1, embed := 2, kind := .embedding, once := false, ignored := true },
    { id := 1, parent := 0, embed := 0, kind := .struct, once := false, ignored := false }] 2 ≠ none := by decide
-- patterns: `=~"^a"` admits "ab", `<"b" & !="ab"` does not, `"a" | "b"` admits "b"
example : PatMatch.matchValue (fun p s => (p.drop 1).isPrefixOf s) (PatMatch.ofPat (.pre [97])) [97, 98] = true := by decide
example : PatMatch.matchValue (fun _ _ => false)
    (.conj (.bound ⟨.lt, .str [98]⟩) (.bound ⟨.ne, .str [97, 98]⟩)) [97, 98] = false := by decide
example : PatMatch.matchValue (fun _ _ => false) (.disj (.str [97]) (.str [98])) [98] = true := by decide
-- arc types: `a!: int` & `a: 1` is a regular field; `a!` alone fails validation
example : mergeK (some .required) (some .member) = some .member := by decide
example : validate true (single la .required (.sc .int)) = false := by decide

end CueVerif.C05
