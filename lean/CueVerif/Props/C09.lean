/-
C09 — the parser is total and literals round-trip through quoting.

Only statements live here; proofs are in CueVerif/Proofs/{Utf8,Quote,QuoteHash,QuoteAscii,
QuoteMain,QuoteMulti,NumLit,Ident}.lean.  The models transcribe cue/literal/{quote,string,num}.go,
cue/scanner/scanner.go (number and identifier lexing) and cue/ast/ident.go.

Conventions: Go strings are byte lists (`IsBytes`); `E : Env` carries `strconv.IsPrint` /
`strconv.IsGraphic`, of which only `Env.Ok` is assumed (NUL, LF, CR are neither);
`Form.WF` says the form is one the library exports (`"`-quoted lossy String/Label, or
`'`-quoted exact Bytes), any combination of the With… options; `Representable f s` is
"Bytes form, or s is valid UTF-8" (String quoting of invalid UTF-8 is lossy by design).

Parser totality / node positions are NOT theorems (no model of the 2,000-line parser):
they are the executable predicate of harness/c09.go evaluated on the implementation.
-/
import CueVerif.Spec.Quote
import CueVerif.Proofs.QuoteMain
import CueVerif.Proofs.QuoteMulti
import CueVerif.Proofs.NumLit
import CueVerif.Proofs.Ident
namespace CueVerif.C09
open CueVerif CueVerif.Quote

/-! ### quoting round trips -/

/-- EVERY single-line form the library exports — String, Label, Bytes; with or without
`WithOptionalHashes` (any number of '#'), ASCII-only, graphic-only; `WithOptionalTabIndent`
on a string without newline: `Unquote(Quote(s)) = s` for EVERY byte string s the form can
represent.  Full strength, no side condition on s (holds since /repo a2b8800). -/
theorem C09_roundtrip_hashes (E : Env) (hE : E.Ok) (f : Form) (hf : f.WF) (s : Bytes)
    (hb : IsBytes s) (hr : Representable f s) (hml : f.effMultiline s = false) :
    RoundTrips E f s :=
  roundtrip_single_all hE f hf s hb hr hml

/-- the forms without optional hashes are a special case (kept under its own name: it is
the core theorem of DESIGN.md) -/
theorem C09_roundtrip_single (E : Env) (hE : E.Ok) (f : Form) (hf : f.WF) (s : Bytes)
    (hb : IsBytes s) (hr : Representable f s) (hml : f.effMultiline s = false)
    (_ha : f.autoHash = false) : RoundTrips E f s :=
  roundtrip_single_all hE f hf s hb hr hml

-- non-vacuity: a bytes form on a string with a quote, a backslash, a control character,
-- invalid UTF-8 and a non-BMP rune meets the hypotheses
example : RoundTrips asciiEnv bytesForm [0x27, 0x5C, 0x01, 0xFF, 0xF0, 0x9F, 0x98, 0x80, 0x0A] :=
  C09_roundtrip_single asciiEnv asciiEnv_ok bytesForm (Or.inr ⟨rfl, rfl⟩) _
    (by intro b hb; simp at hb; omega) (Or.inl rfl) (by decide) rfl
-- an optional-hashes form on a string with a quote followed by hashes and a backslash
-- followed by a hash (three hashes are chosen), and on `""x`, the witness of the old defect
example : RoundTrips asciiEnv stringForm.withOptionalHashes [0x61, 0x22, 0x23, 0x23, 0x5C, 0x23] :=
  C09_roundtrip_hashes asciiEnv asciiEnv_ok _ (Or.inl ⟨rfl, rfl⟩) _
    (by intro b hb; simp at hb; omega) (Or.inr (by simp [validUTF8, decodeFirst])) (by decide)
example : RoundTrips asciiEnv stringForm.withOptionalHashes [0x22, 0x22, 0x78] :=
  C09_roundtrip_hashes asciiEnv asciiEnv_ok _ (Or.inl ⟨rfl, rfl⟩) _
    (by intro b hb; simp at hb; omega) (Or.inr (by simp [validUTF8, decodeFirst])) (by decide)

/-- History, about the clearly named OLD variant `quoteOld` (= the code before /repo
a2b8800, no longer tied to the tree): the same full statement … -/
def C09_roundtrip_hashes_old_stmt : Prop := roundtrip_hashes_old_stmt
/-- … was FALSE (`""x` → `#"""x"#`, read as a multi-line opener) … -/
theorem C09_roundtrip_hashes_old_false : ¬ C09_roundtrip_hashes_old_stmt := roundtrip_hashes_old_false
/-- … and true exactly outside `startsTwoQuotes`. -/
theorem C09_roundtrip_hashes_old_partial (E : Env) (hE : E.Ok) (f : Form) (hf : f.WF) (s : Bytes)
    (hb : IsBytes s) (hr : Representable f s) (hml : f.effMultiline s = false)
    (h2 : startsTwoQuotes f.quote s = false) : RoundTripsOld E f s :=
  roundtrip_hashes_old_partial hE f hf s hb hr hml h2

/-- `\u`/`\U` escapes decode to a rune ≤ MaxRune or are a syntax error: an overflowing
`\U` can no longer collide with the loop's sentinels or panic (since /repo 4627158). -/
theorem C09_unquote_U_escape_total (q : QuoteInfo) (e : Nat) (he : e = 0x75 ∨ e = 0x55) (t : Bytes) :
    (∃ v t', unquoteEscape q e t = .ok (.char v true, t') ∧ v ≤ 0x10FFFF) ∨
    unquoteEscape q e t = .error .syntax :=
  unquoteEscape_U_total q e he t

/-- Multi-line forms (`WithTabIndent(n)`, and `WithOptionalTabIndent(n)` on a string with a
newline), any indentation, String/Label/Bytes, any other option: `Unquote(Quote(s)) = s` for
EVERY representable byte string — incl. CR, trailing backslash, blank lines, leading/trailing
LF, `"""` followed by '#' runs (the hash count of `requiredHashCount` exceeds every '#' run
after three or more quotes, so no line of the body starts with the closing delimiter). -/
theorem C09_roundtrip_multi (E : Env) (hE : E.Ok) (f : Form) (hf : f.WF) (s : Bytes)
    (hb : IsBytes s) (hr : Representable f s) (hml : f.effMultiline s = true) : RoundTrips E f s :=
  roundtrip_multi hE f hf s hb hr hml

/-- The literal clause of the property in one statement: EVERY quoting form the library can
produce (single line, multi-line, any number of '#', ASCII-only, graphic-only) unquotes to
exactly the original, for EVERY byte string the form can represent. -/
theorem C09_roundtrip (E : Env) (hE : E.Ok) (f : Form) (hf : f.WF) (s : Bytes)
    (hb : IsBytes s) (hr : Representable f s) : RoundTrips E f s := by
  cases hml : f.effMultiline s with
  | true => exact roundtrip_multi hE f hf s hb hr hml
  | false => exact roundtrip_single_all hE f hf s hb hr hml

-- non-vacuity: a multi-line bytes form on CR LF, a blank line, `'''#`, an invalid byte, a
-- trailing backslash and a trailing LF
example : RoundTrips asciiEnv (bytesForm.withTabIndent 2)
    [0x61, 0x0D, 0x0A, 0x0A, 0x27, 0x27, 0x27, 0x23, 0xFF, 0x5C, 0x0A] :=
  C09_roundtrip asciiEnv asciiEnv_ok _ (Or.inr ⟨rfl, rfl⟩) _
    (by intro b hb; simp at hb; omega) (Or.inl rfl)

/-- `WithASCIIOnly`: every byte of the literal is ASCII — for EVERY form (single line,
multi-line, optional hashes) and every input. -/
theorem C09_ascii_only (E : Env) (f : Form) (hf : f.WF) (ha : f.asciiOnly = true) (s : Bytes) :
    IsAscii (quote E f s) :=
  quote_ascii f hf ha s

-- non-vacuity: a multi-line ASCII-only form on non-ASCII input
example : IsAscii (quote asciiEnv (stringForm.withASCIIOnly.withTabIndent 1) [0xC3, 0xA9, 0x0A, 0x62]) :=
  C09_ascii_only asciiEnv _ (Or.inl ⟨rfl, rfl⟩) rfl _

/-! ### the scanner and the literal package agree on number spellings -/

/-- On every spelling on which `Scan` starts a number token (first byte a digit, or '.'
followed by a digit), except those beginning with "0_", the scanner lexes the whole input
as one error-free INT/FLOAT token iff `literal.ParseNum` accepts it, with the same kind. -/
theorem C09_numbers_agree (s : NumLit.Str) (h : NumLit.startsNumber s = true)
    (hz : NumLit.zeroUnderscore s = false) : NumLit.scannerAccepts s = NumLit.parseNum s :=
  NumLit.numbers_agree s h hz

/-- Everything the scanner accepts as a number, `literal.ParseNum` accepts with the same
kind (unconditionally). -/
theorem C09_numbers_scanner_sub_literal (s : NumLit.Str) (k : NumLit.Kind) :
    NumLit.scannerAccepts s = some k → NumLit.parseNum s = some k :=
  NumLit.scanner_sub_literal s k

/-- The unconditional agreement … -/
def C09_numbers_agree_stmt : Prop := NumLit.numbers_agree_stmt
/-- … is FALSE: `literal.ParseNum` accepts "_1" (the scanner lexes an identifier); genuine
divergence, replayed on the implementation (class parsenum-leading-underscore). -/
theorem C09_numbers_agree_false : ¬ C09_numbers_agree_stmt := NumLit.numbers_agree_false

/-- Agreement on all spellings that start a number token … -/
def C09_numbers_agree_started_stmt : Prop := NumLit.numbers_agree_started_stmt
/-- … is FALSE too: `literal.ParseNum` accepts "0_1.5" as a float, the scanner lexes INT "0"
then an identifier (class parsenum-zero-underscore). -/
theorem C09_numbers_agree_started_false : ¬ C09_numbers_agree_started_stmt :=
  NumLit.numbers_agree_started_false

/-- The spellings only `literal.ParseNum` accepts are exactly in those two regions. -/
theorem C09_numbers_literal_only (s : NumLit.Str) (k : NumLit.Kind) :
    NumLit.parseNum s = some k → NumLit.scannerAccepts s = none →
      NumLit.startsNumber s = false ∨ NumLit.zeroUnderscore s = true :=
  NumLit.literal_only s k

-- non-vacuity (samples, not the property)
example : NumLit.scannerAccepts [49, 46, 53, 101, 51] = some .float ∧
    NumLit.parseNum [49, 46, 53, 101, 51] = some .float := by decide

/-! ### the scanner and `ast.IsValidIdent` agree on identifier spellings -/

/-- For every string of code points the scanner's first token is identifier-shaped (IDENT or
keyword), error-free, with the whole input as its literal iff `ast.IsValidIdent` holds.
`lU`/`dU` stand for `unicode.IsLetter`/`unicode.IsDigit` on runes ≥ 0x80; assumed of them:
U+FFFD and U+FEFF are neither letter nor digit, and no rune is both letter and digit. -/
theorem C09_ident_agree (lU dU : Nat → Bool) (hL1 : lU 0xFFFD = false) (hL2 : lU 0xFEFF = false)
    (hD1 : dU 0xFFFD = false) (hD2 : dU 0xFEFF = false)
    (hdisj : ∀ c, 128 ≤ c → lU c = true → dU c = false) (s : Ident.Str) :
    Ident.scanIdentClean lU dU s = Ident.isValidIdent lU dU s :=
  Ident.ident_agree_clean lU dU hL1 hL2 hD1 hD2 hdisj s

-- non-vacuity (samples): "_#a" and "é" are identifiers for both, "#1" for neither
example : Ident.scanIdentClean (· == 233) (· == 0x663) [95, 35, 97] = true ∧
    Ident.isValidIdent (· == 233) (· == 0x663) [233] = true ∧
    Ident.scanIdentClean (· == 233) (· == 0x663) [35, 49] = false := by decide

end CueVerif.C09
