/-
C09 — the parser is total and literals round-trip through quoting.

Only statements live here; proofs are in CueVerif/Proofs/{Utf8,Quote,QuoteHash,QuoteAscii,
QuoteMain,QuoteMulti,NumLit,Ident}.lean.  The models transcribe cue/literal/{quote,string,num}.go,
cue/scanner/scanner.go (number and identifier lexing) and cue/ast/ident.go.

Conventions: Go strings are byte lists (`IsBytes`); `E : Env` carries `strconv.IsPrint` /
`strconv.IsGraphic`, of which only `Env.Ok` is assumed (NUL, LF, CR are neither);
`Form.WF` says the form is one the library exports (`"`-quoted lossy String/Label, or
`'`-quoted exact Bytes), any combination of the With… options; `Representable f s` is
"Bytes form, or s is valid UTF-8" (String quoting of invalid UTF-8 is lossy by design).

Parser totality / node positions are NOT theorems (no model of the 2,000-line parser):
they are the executable predicate of harness/c09.go evaluated on the implementation.
-/
import CueVerif.Spec.Quote
import CueVerif.Proofs.QuoteMain
import CueVerif.Proofs.QuoteMulti
import CueVerif.Proofs.NumLit
import CueVerif.Proofs.Ident
import CueVerif.Proofs.TokenFile
import CueVerif.Proofs.ScanComma
import CueVerif.Proofs.ScanStream
import CueVerif.Proofs.TokenFileContent
import CueVerif.Proofs.ScanPlain
namespace CueVerif.C09
open CueVerif CueVerif.Quote

/-! ### quoting round trips -/

/-- EVERY single-line form the library exports — String, Label, Bytes; with or without
`WithOptionalHashes` (any number of '#'), ASCII-only, graphic-only; `WithOptionalTabIndent`
on a string without newline: `Unquote(Quote(s)) = s` for EVERY byte string s the form can
represent.  Full strength, no side condition on s (holds since /repo a2b8800). -/
theorem C09_roundtrip_hashes (E : Env) (hE : E.Ok) (f : Form) (hf : f.WF) (s : Bytes)
    (hb : IsBytes s) (hr : Representable f s) (hml : f.effMultiline s = false) :
    RoundTrips E f s :=
  roundtrip_single_all hE f hf s hb hr hml

/-- the forms without optional hashes are a special case (kept under its own name: it is
the core theorem of DESIGN.md) -/
theorem C09_roundtrip_single (E : Env) (hE : E.Ok) (f : Form) (hf : f.WF) (s : Bytes)
    (hb : IsBytes s) (hr : Representable f s) (hml : f.effMultiline s = false)
    (_ha : f.autoHash = false) : RoundTrips E f s :=
  roundtrip_single_all hE f hf s hb hr hml

-- non-vacuity: a bytes form on a string with a quote, a backslash, a control character,
-- invalid UTF-8 and a non-BMP rune meets the hypotheses
example : RoundTrips asciiEnv bytesForm [0x27, 0x5C, 0x01, 0xFF, 0xF0, 0x9F, 0x98, 0x80, 0x0A] :=
  C09_roundtrip_single asciiEnv asciiEnv_ok bytesForm (Or.inr ⟨rfl, rfl⟩) _
    (by intro b hb; simp at hb; omega) (Or.inl rfl) (by decide) rfl
-- an optional-hashes form on a string with a quote followed by hashes and a backslash
-- followed by a hash (three hashes are chosen), and on `""x`, the witness of the old defect
example : RoundTrips asciiEnv stringForm.withOptionalHashes [0x61, 0x22, 0x23, 0x23, 0x5C, 0x23] :=
  C09_roundtrip_hashes asciiEnv asciiEnv_ok _ (Or.inl ⟨rfl, rfl⟩) _
    (by intro b hb; simp at hb; omega) (Or.inr (by simp [validUTF8, decodeFirst])) (by decide)
example : RoundTrips asciiEnv stringForm.withOptionalHashes [0x22, 0x22, 0x78] :=
  C09_roundtrip_hashes asciiEnv asciiEnv_ok _ (Or.inl ⟨rfl, rfl⟩) _
    (by intro b hb; simp at hb; omega) (Or.inr (by simp [validUTF8, decodeFirst])) (by decide)

/-- History, about the clearly named OLD variant `quoteOld` (= the code before /repo
a2b8800, no longer tied to the tree): the same full statement … -/
def C09_roundtrip_hashes_old_stmt : Prop := roundtrip_hashes_old_stmt
/-- … was FALSE (`""x` → `#"""x"#`, read as a multi-line opener) … -/
theorem C09_roundtrip_hashes_old_false : ¬ C09_roundtrip_hashes_old_stmt := roundtrip_hashes_old_false
/-- … and true exactly outside `startsTwoQuotes`. -/
theorem C09_roundtrip_hashes_old_partial (E : Env) (hE : E.Ok) (f : Form) (hf : f.WF) (s : Bytes)
    (hb : IsBytes s) (hr : Representable f s) (hml : f.effMultiline s = false)
    (h2 : startsTwoQuotes f.quote s = false) : RoundTripsOld E f s :=
  roundtrip_hashes_old_partial hE f hf s hb hr hml h2

/-- `\u`/`\U` escapes decode to a rune ≤ MaxRune or are a syntax error: an overflowing
`\U` can no longer collide with the loop's sentinels or panic (since /repo 4627158). -/
theorem C09_unquote_U_escape_total (q : QuoteInfo) (e : Nat) (he : e = 0x75 ∨ e = 0x55) (t : Bytes) :
    (∃ v t', unquoteEscape q e t = .ok (.char v true, t') ∧ v ≤ 0x10FFFF) ∨
    unquoteEscape q e t = .error .syntax :=
  unquoteEscape_U_total q e he t

/-- Multi-line forms (`WithTabIndent(n)`, and `WithOptionalTabIndent(n)` on a string with a
newline), any indentation, String/Label/Bytes, any other option: `Unquote(Quote(s)) = s` for
EVERY representable byte string — incl. CR, trailing backslash, blank lines, leading/trailing
LF, `"""` followed by '#' runs (the hash count of `requiredHashCount` exceeds every '#' run
after three or more quotes, so no line of the body starts with the closing delimiter). -/
theorem C09_roundtrip_multi (E : Env) (hE : E.Ok) (f : Form) (hf : f.WF) (s : Bytes)
    (hb : IsBytes s) (hr : Representable f s) (hml : f.effMultiline s = true) : RoundTrips E f s :=
  roundtrip_multi hE f hf s hb hr hml

/-- The literal clause of the property in one statement: EVERY quoting form the library can
produce (single line, multi-line, any number of '#', ASCII-only, graphic-only) unquotes to
exactly the original, for EVERY byte string the form can represent. -/
theorem C09_roundtrip (E : Env) (hE : E.Ok) (f : Form) (hf : f.WF) (s : Bytes)
    (hb : IsBytes s) (hr : Representable f s) : RoundTrips E f s := by
  cases hml : f.effMultiline s with
  | true => exact roundtrip_multi hE f hf s hb hr hml
  | false => exact roundtrip_single_all hE f hf s hb hr hml

-- non-vacuity: a multi-line bytes form on CR LF, a blank line, `'''#`, an invalid byte, a
-- trailing backslash and a trailing LF
example : RoundTrips asciiEnv (bytesForm.withTabIndent 2)
    [0x61, 0x0D, 0x0A, 0x0A, 0x27, 0x27, 0x27, 0x23, 0xFF, 0x5C, 0x0A] :=
  C09_roundtrip asciiEnv asciiEnv_ok _ (Or.inr ⟨rfl, rfl⟩) _
    (by intro b hb; simp at hb; omega) (Or.inl rfl)

/-- `WithASCIIOnly`: every byte of the literal is ASCII — for EVERY form (single line,
multi-line, optional hashes) and every input. -/
theorem C09_ascii_only (E : Env) (f : Form) (hf : f.WF) (ha : f.asciiOnly = true) (s : Bytes) :
    IsAscii (quote E f s) :=
  quote_ascii f hf ha s

-- non-vacuity: a multi-line ASCII-only form on non-ASCII input
example : IsAscii (quote asciiEnv (stringForm.withASCIIOnly.withTabIndent 1) [0xC3, 0xA9, 0x0A, 0x62]) :=
  C09_ascii_only asciiEnv _ (Or.inl ⟨rfl, rfl⟩) rfl _

/-! ### the scanner and the literal package agree on number spellings -/

/-- On every spelling on which `Scan` starts a number token (first byte a digit, or '.'
followed by a digit), except those beginning with "0_", the scanner lexes the whole input
as one error-free INT/FLOAT token iff `literal.ParseNum` accepts it, with the same kind. -/
theorem C09_numbers_agree (s : NumLit.Str) (h : NumLit.startsNumber s = true)
    (hz : NumLit.zeroUnderscore s = false) : NumLit.scannerAccepts s = NumLit.parseNum s :=
  NumLit.numbers_agree s h hz

/-- Everything the scanner accepts as a number, `literal.ParseNum` accepts with the same
kind (unconditionally). -/
theorem C09_numbers_scanner_sub_literal (s : NumLit.Str) (k : NumLit.Kind) :
    NumLit.scannerAccepts s = some k → NumLit.parseNum s = some k :=
  NumLit.scanner_sub_literal s k

/-- The unconditional agreement … -/
def C09_numbers_agree_stmt : Prop := NumLit.numbers_agree_stmt
/-- … is FALSE: `literal.ParseNum` accepts "_1" (the scanner lexes an identifier); genuine
divergence, replayed on the implementation (class parsenum-leading-underscore). -/
theorem C09_numbers_agree_false : ¬ C09_numbers_agree_stmt := NumLit.numbers_agree_false

/-- Agreement on all spellings that start a number token … -/
def C09_numbers_agree_started_stmt : Prop := NumLit.numbers_agree_started_stmt
/-- … is FALSE too: `literal.ParseNum` accepts "0_1.5" as a float, the scanner lexes INT "0"
then an identifier (class parsenum-zero-underscore). -/
theorem C09_numbers_agree_started_false : ¬ C09_numbers_agree_started_stmt :=
  NumLit.numbers_agree_started_false

/-- The spellings only `literal.ParseNum` accepts are exactly in those two regions. -/
theorem C09_numbers_literal_only (s : NumLit.Str) (k : NumLit.Kind) :
    NumLit.parseNum s = some k → NumLit.scannerAccepts s = none →
      NumLit.startsNumber s = false ∨ NumLit.zeroUnderscore s = true :=
  NumLit.literal_only s k

-- non-vacuity (samples, not the property)
example : NumLit.scannerAccepts [49, 46, 53, 101, 51] = some .float ∧
    NumLit.parseNum [49, 46, 53, 101, 51] = some .float := by decide

/-! ### the scanner and `ast.IsValidIdent` agree on identifier spellings -/

/-- For every string of code points the scanner's first token is identifier-shaped (IDENT or
keyword), error-free, with the whole input as its literal iff `ast.IsValidIdent` holds.
`lU`/`dU` stand for `unicode.IsLetter`/`unicode.IsDigit` on runes ≥ 0x80; assumed of them:
U+FFFD and U+FEFF are neither letter nor digit, and no rune is both letter and digit. -/
theorem C09_ident_agree (lU dU : Nat → Bool) (hL1 : lU 0xFFFD = false) (hL2 : lU 0xFEFF = false)
    (hD1 : dU 0xFFFD = false) (hD2 : dU 0xFEFF = false)
    (hdisj : ∀ c, 128 ≤ c → lU c = true → dU c = false) (s : Ident.Str) :
    Ident.scanIdentClean lU dU s = Ident.isValidIdent lU dU s :=
  Ident.ident_agree_clean lU dU hL1 hL2 hD1 hD2 hdisj s

-- non-vacuity (samples): "_#a" and "é" are identifiers for both, "#1" for neither
example : Ident.scanIdentClean (· == 233) (· == 0x663) [95, 35, 97] = true ∧
    Ident.isValidIdent (· == 233) (· == 0x663) [233] = true ∧
    Ident.scanIdentClean (· == 233) (· == 0x663) [35, 49] = false := by decide

/-! ### the position table of `token.File` (extension round, session 3)

Model: `Model/TokenFile.lean` (cue/token/position.go: `NewFile`, `AddLine`, `fixOffset`, `Pos`,
`Offset`, `Add`, `searchInts`, `unpack`, `Position`).  `GoodPosition` (Spec/TokenFile.lean) is the
property's demand: the reported offset is the clamped offset and lies in `[0, size]`, the line
names an existing line (1-based), column ≥ 1, the line starts at `offset - (column-1)`, and the
offset lies before the start of the next line. -/

/-- Whatever sequence of `AddLine` calls is made on a new file (increasing or not, negative,
beyond the size, duplicates — the invalid ones are ignored), the line table stays
well-formed: it starts with 0, is strictly increasing, and every later line starts inside
the file. -/
theorem C09_linetable_wf (size : Int) (hs : 0 ≤ size) (offs : List Int) :
    TokenFile.WF (TokenFile.addLines (TokenFile.newFile size) offs) :=
  TokenFile.addLines_wf offs _ (TokenFile.newFile_wf size hs)

/-- For EVERY such table and EVERY integer offset (negative and past-EOF offsets are clamped
by `File.Pos`), with any relative-position / comma / scanned bits: `File.Position(File.Pos(o))`
does not panic (the hand-inlined binary search stays in range and terminates) and reports a
`GoodPosition` for the clamped offset: 1 ≤ line ≤ #lines, column ≥ 1, start of that line ≤
offset < start of the next line. -/
theorem C09_position_within_table (size : Int) (hs : 0 ≤ size) (offs : List Int) (o rel : Int)
    (hr0 : 0 ≤ rel) (hr1 : rel < 64) :
    let f := TokenFile.addLines (TokenFile.newFile size) offs
    ∃ p, TokenFile.position f (TokenFile.pos f o rel) = .ok p ∧
      TokenFile.GoodPosition f (TokenFile.fixOffset f o) p :=
  TokenFile.position_good _ (C09_linetable_wf size hs offs) o rel hr0 hr1

-- non-vacuity: file of size 10 with AddLine 3, 5, 5 (ignored), 4 (ignored), 12 (ignored), 9;
-- offset 4 is line 2 column 2; offset 11 is clamped to EOF = line 4 column 2
example : TokenFile.position (TokenFile.addLines (TokenFile.newFile 10) [3, 5, 5, 4, 12, -1, 9])
    (TokenFile.pos (TokenFile.addLines (TokenFile.newFile 10) [3, 5, 5, 4, 12, -1, 9]) 4 2) = .ok ⟨4, 2, 2⟩ ∧
    TokenFile.position (TokenFile.addLines (TokenFile.newFile 10) [3, 5, 5, 4, 12, -1, 9])
    (TokenFile.pos (TokenFile.addLines (TokenFile.newFile 10) [3, 5, 5, 4, 12, -1, 9]) 11 35) = .ok ⟨10, 4, 2⟩ := by
  decide

/-- The same for any well-formed table, however built (`SetLinesForContent`, …). -/
theorem C09_position_good (f : TokenFile.File) (hwf : TokenFile.WF f) (o rel : Int)
    (hr0 : 0 ≤ rel) (hr1 : rel < 64) :
    ∃ p, TokenFile.position f (TokenFile.pos f o rel) = .ok p ∧
      TokenFile.GoodPosition f (TokenFile.fixOffset f o) p :=
  TokenFile.position_good f hwf o rel hr0 hr1

/-- Round trip: `Offset(Pos(o))` is the clamped offset — `o` itself for 0 ≤ o ≤ size — for any
flag bits below `1 << relShift`; and the invariant documented at `File.Pos`,
`f.Pos(f.Offset(p)) == p`, holds for every `p` made by `f.Pos`. -/
theorem C09_pos_offset_roundtrip (f : TokenFile.File) (hs : 0 ≤ f.size) (o rel : Int)
    (hr0 : 0 ≤ rel) (hr1 : rel < 64) :
    TokenFile.offset f (TokenFile.pos f o rel) = TokenFile.fixOffset f o ∧
    (0 ≤ o → o ≤ f.size → TokenFile.offset f (TokenFile.pos f o rel) = o) ∧
    0 ≤ TokenFile.offset f (TokenFile.pos f o rel) ∧ TokenFile.offset f (TokenFile.pos f o rel) ≤ f.size ∧
    TokenFile.pos f (TokenFile.offset f (TokenFile.pos f o rel)) rel = TokenFile.pos f o rel := by
  have h := TokenFile.offset_pos f hs o rel hr0 hr1
  have hr := TokenFile.fixOffset_range f hs o
  exact ⟨h, fun h0 h1 => by rw [h, TokenFile.fixOffset_id f o h0 h1], by omega, by omega,
    TokenFile.pos_offset f hs o rel hr0 hr1⟩

example : TokenFile.offset (TokenFile.newFile 10) (TokenFile.pos (TokenFile.newFile 10) 7 63) = 7 ∧
    TokenFile.offset (TokenFile.newFile 10) (TokenFile.pos (TokenFile.newFile 10) (-3) 0) = 0 := by decide

/-- `Pos.Add(n)` moves the offset by `n` and `Offset` clamps the result: every position
observable through `Offset()` lies within the input, whatever was added (this is why a raw
overshoot past EOF cannot be seen through the public accessors, cf. notes/C09.md). -/
theorem C09_pos_add_clamped (f : TokenFile.File) (hs : 0 ≤ f.size) (p n : Int) :
    TokenFile.offset f (TokenFile.add p n) = TokenFile.fixOffset f (TokenFile.index p - 1 + n) ∧
    0 ≤ TokenFile.offset f (TokenFile.add p n) ∧ TokenFile.offset f (TokenFile.add p n) ≤ f.size := by
  have h := TokenFile.offset_add f p n
  have hr := TokenFile.fixOffset_range f hs (TokenFile.index p - 1 + n)
  exact ⟨h, by omega, by omega⟩

/-- Line/column are monotone in the offset (lexicographically): positions compare like their
offsets. -/
theorem C09_position_monotone (f : TokenFile.File) (hwf : TokenFile.WF f) (o1 o2 : Int)
    (p1 p2 : TokenFile.Position) (h : o1 ≤ o2) (g1 : TokenFile.GoodPosition f o1 p1)
    (g2 : TokenFile.GoodPosition f o2 p2) :
    p1.line < p2.line ∨ (p1.line = p2.line ∧ p1.column ≤ p2.column) :=
  TokenFile.good_monotone f hwf o1 o2 p1 p2 h g1 g2

/-- `searchInts` on any strictly increasing table: never out of range, never out of fuel, and
the result is (number of entries ≤ x) − 1. -/
theorem C09_searchInts_total (a : List Int) (x : Int) (hs : a.Pairwise (· < ·)) :
    ∃ r : Nat, TokenFile.searchInts a x = .ok ((r : Int) - 1) ∧ r ≤ a.length ∧
      (∀ k v, k < r → a[k]? = some v → v ≤ x) ∧ (∀ k v, r ≤ k → a[k]? = some v → x < v) :=
  TokenFile.searchInts_spec a x hs

example : TokenFile.searchInts [0, 3, 5, 9] 4 = .ok 1 ∧ TokenFile.searchInts [0, 3, 5, 9] (-1) = .ok (-1) := by
  decide

/-! ### the scanner as a total function (extension round, session 3)

Model: `Model/Scan.lean` — `scanTok` is `Scanner.Scan` (all token classes, automatic comma
insertion, strings with interpolation and `minLineWS` bookkeeping, attributes with their nested
`Scan` calls, comments) on the state `St` = (remaining input, `insertEOL`, quote stack); `n` is
`len(src)`; `mu st = 2·|remaining| + [insertEOL]`.  `GoodStep n st t st'` (Spec/Scan.lean):
entry offset ≤ `t.off` ≤ `t.fin` = new offset, the remaining input never grows, `mu` never
grows and strictly decreases unless the token is EOF. -/

/-- (a) Totality and progress: from EVERY state, with fuel above `mu` (2·|input|+2 always
suffices), `Scan` returns a token — the recursion through comments, the `return s.Scan()`
after a newline and the nested `Scan` calls of attribute scanning all terminate — and the call
either returns EOF or strictly decreases `mu`: it consumed at least one byte, or it returned
the pending automatic comma without consuming (at most once in a row). -/
theorem C09_scan_total (M : Scan.Mode) (U : Scan.Uni) (n fuel : Nat) (st : Scan.St)
    (h : 2 * st.cur.length + 1 < fuel) :
    ∃ t st', Scan.scanTok M U n fuel st = some (t, st') ∧ Scan.GoodStep n st t st' :=
  Scan.scanTok_ok M U n fuel st (by have := (Scan.mu_bounds st).2; omega)

/-- (b) Offsets: for a state inside a source of length `n`, the token offset and the scanner
offset after the call satisfy entry offset ≤ `t.off` ≤ `t.fin` ≤ n, and `t.fin` is exactly the
new position — so along a token stream offsets never decrease, each token starts at or after
the end of its predecessor, and everything lies within `[0, len]`. -/
theorem C09_scan_offsets (M : Scan.Mode) (U : Scan.Uni) (n fuel : Nat) (st : Scan.St) (t : Scan.Tok)
    (st' : Scan.St) (hn : st.cur.length ≤ n) (hf : 2 * st.cur.length + 1 < fuel)
    (h : Scan.scanTok M U n fuel st = some (t, st')) :
    n - st.cur.length ≤ t.off ∧ t.off ≤ t.fin ∧ t.fin ≤ n ∧ t.fin + st'.cur.length = n ∧
      st'.cur.length ≤ st.cur.length := by
  obtain ⟨t0, st0, h0, hg⟩ := C09_scan_total M U n fuel st hf
  rw [h] at h0
  injection h0 with h0
  injection h0 with h1 h2
  subst h1 h2
  obtain ⟨g1, g2, g3, g4, _, _⟩ := hg
  exact ⟨g2, g3, by omega, by omega, g1⟩

-- non-vacuity (a sample, not the property): `a //c` + newline, scanning comments: IDENT, then
-- the automatic comma WITHOUT consuming (offset 2 = the comment's), then the COMMENT at 2
example : (Scan.scan ⟨true, false⟩ ⟨fun _ => false, fun _ => false⟩ [97, 32, 47, 47, 99, 10]).1.map
    (fun t => (t.kind, t.off, t.fin)) =
    [(.IDENT, 0, 1), (.COMMA, 2, 2), (.COMMENT, 2, 5), (.EOF, 6, 6)] := by decide

/-- (c) Comma insertion vs the language specification (doc/ref/spec.md §Commas: identifier,
keyword, bottom, number, string, interpolation, `)`, `]`, `}`, `?`, `...`; regenerated and
tied by `Bridge.C09.scan_spec_commas`): the full statement "after every token, `insertEOL` is
set exactly for the kinds the spec lists" … -/
def C09_comma_rule_stmt : Prop :=
  ∀ (M : Scan.Mode) (U : Scan.Uni) (n fuel : Nat) (st : Scan.St) (t : Scan.Tok) (st' : Scan.St),
    M.dontInsertCommas = false → Scan.scanTok M U n fuel st = some (t, st') →
      st'.insertEOL = Scan.specComma t.kind

/-- … is FALSE on model and code alike: after `;` (SEMICOLON — a token the spec does not have)
and after an attribute the scanner also inserts a comma (witness `;`; replayed on the
implementation by the harness, class comma-after-token-not-in-spec). -/
theorem C09_comma_rule_false : ¬ C09_comma_rule_stmt := by
  intro h
  have := h ⟨false, false⟩ ⟨fun _ => false, fun _ => false⟩ 1 5 ⟨[59], false, []⟩
    ⟨.SEMICOLON, 0, 1, [], false⟩ ⟨[], true, []⟩ rfl (by rfl)
  exact absurd this (by decide)

-- the attribute witness
example : (Scan.scan ⟨false, false⟩ ⟨fun _ => false, fun _ => false⟩ [64, 97, 40, 41, 10, 98]).1.map
    (fun t => t.kind) = [.ATTRIBUTE, .COMMA, .IDENT, .COMMA, .EOF] := by decide

/-- … and TRUE for every token other than SEMICOLON, ATTRIBUTE and ILLEGAL (which keeps the
previous value): `insertEOL` after the token is exactly the spec's list. -/
theorem C09_comma_rule_partial (M : Scan.Mode) (U : Scan.Uni) (n fuel : Nat) (st : Scan.St)
    (t : Scan.Tok) (st' : Scan.St) (hM : M.dontInsertCommas = false)
    (h : Scan.scanTok M U n fuel st = some (t, st')) (h0 : t.kind ≠ .ILLEGAL)
    (h1 : t.kind ≠ .SEMICOLON) (h2 : t.kind ≠ .ATTRIBUTE) :
    st'.insertEOL = Scan.specComma t.kind := by
  rw [Scan.scanTok_comma M U n hM fuel st t st' h h0]
  exact Scan.insertsComma_spec t.kind h1 h2

/-- … and in general the code's rule is the spec's list plus SEMICOLON and ATTRIBUTE. -/
theorem C09_comma_rule_code (M : Scan.Mode) (U : Scan.Uni) (n fuel : Nat) (st : Scan.St)
    (t : Scan.Tok) (st' : Scan.St) (hM : M.dontInsertCommas = false)
    (h : Scan.scanTok M U n fuel st = some (t, st')) (h0 : t.kind ≠ .ILLEGAL) :
    st'.insertEOL = Scan.insertsComma t.kind :=
  Scan.scanTok_comma M U n hM fuel st t st' h h0

/-- Stream-level totality: for EVERY source text, mode and Unicode classification the client
loop `scan` (fuel 3·len+4 for the loop, 2·|remaining|+3 for each `Scan` call) never emits the
FUEL pseudo token — neither fuel is ever exhausted, `scan` is a total function on byte strings
whose output consists of real tokens (and, after a `ResumeInterpolation` on an empty quote
stack, the PANIC marker). -/
theorem C09_scan_stream_total (M : Scan.Mode) (U : Scan.Uni) (src : Scan.Str) :
    ∀ t ∈ (Scan.scan M U src).1, t.kind ≠ .FUEL :=
  Scan.scan_no_fuel M U src

/-- … and every `Scan` call only returns real tokens (never FUEL or PANIC). -/
theorem C09_scan_real_tokens (M : Scan.Mode) (U : Scan.Uni) (n fuel : Nat) (st : Scan.St) (t : Scan.Tok)
    (st' : Scan.St) (h : Scan.scanTok M U n fuel st = some (t, st')) : Scan.isMarker t.kind = false :=
  Scan.scanTok_real M U n fuel st t st' h

/-! ### the scanner's line table is the content's (extension round, continued) -/

/-- The line table the scanner builds for ANY text `c` (`NewFile(len c)` + the `AddLine` calls
of `next()`: one per line feed, also the ignored one at end of input) is the content-based
table: it is well-formed (strictly increasing, starting at 0) and its entries are EXACTLY
offset 0 and the offsets just after a line feed byte that lie inside the text.  A strictly
increasing list is determined by its members, so this fixes the table. -/
theorem C09_scanner_linetable_is_content (c : List Nat) :
    TokenFile.WF (TokenFile.scannedFile c) ∧
    ∀ x, x ∈ (TokenFile.scannedFile c).lines ↔ TokenFile.IsLineStart c x :=
  ⟨TokenFile.scannedFile_wf c, TokenFile.mem_scannedFile_lines c⟩

/-- `Position` on that table, characterised by the CONTENT alone: for every offset (clamped)
the reported line starts at a line start of the text (offset 0 or just after a line feed; a
line feed in the last byte does not start a line), no line start of the text lies between it
and the offset, and the column is the distance from it plus one.  This is the deciding
argument for "line/column agree with the text"; the harness predicate
`position-differs-from-content` remains as the tie to the implementation. -/
theorem C09_position_from_content (c : List Nat) (o rel : Int) (hr0 : 0 ≤ rel) (hr1 : rel < 64) :
    ∃ p, TokenFile.position (TokenFile.scannedFile c) (TokenFile.pos (TokenFile.scannedFile c) o rel) = .ok p ∧
      TokenFile.GoodPosition (TokenFile.scannedFile c) (TokenFile.fixOffset (TokenFile.scannedFile c) o) p ∧
      TokenFile.IsLineStart c (p.offset - (p.column - 1)) ∧
      (∀ x, TokenFile.IsLineStart c x → x ≤ p.offset → x ≤ p.offset - (p.column - 1)) :=
  TokenFile.position_content c o rel hr0 hr1

-- non-vacuity: "a\n\r\nb\n": line starts 0, 2, 4 (the final line feed starts no line); offset 5
-- (the 'b' is at 4) is line 3 column 2
example : (TokenFile.scannedFile [97, 10, 13, 10, 98, 10]).lines = [0, 2, 4] ∧
    TokenFile.position (TokenFile.scannedFile [97, 10, 13, 10, 98, 10])
      (TokenFile.pos (TokenFile.scannedFile [97, 10, 13, 10, 98, 10]) 5 0) = .ok ⟨5, 3, 2⟩ := by decide

/-- For a non-empty text `SetLinesForContent` (used by the JSON/YAML/TOML/… decoders) builds
the same table as the scanner. -/
theorem C09_setLinesForContent_is_scanner_table (f : TokenFile.File) (c : List Nat) (hc : c ≠ []) :
    (TokenFile.setLinesForContent f c).lines = (TokenFile.scannedFile c).lines :=
  TokenFile.setLinesForContent_eq_scanned f c hc

/-! ### scanner vs `literal.Unquote` on single-line string literals (partial)

The full agreement "the scanner reads `lit` as one error-free STRING token ⇔ `Unquote lit`
succeeds" over ALL literals is FALSE (lone surrogate escapes, raw BOM: known findings; proved
false below on a witness); outside those classes it is OPEN as a theorem and enforced on
generated literals by the harness predicate `string-spelling-disagree`.  Proved is the agreement on
PLAIN literals: a quote character (`"` or `'`), a body of printable ASCII bytes other than that
quote character and backslash, and the closing quote — and on their unterminated variants. -/

/-- The unrestricted statement … -/
def C09_string_agree_stmt : Prop :=
  ∀ (M : Scan.Mode) (U : Scan.Uni) (lit : Scan.Str) (fuel : Nat), lit.length * 2 + 2 < fuel →
    ((∃ st', Scan.scanTok M U lit.length fuel ⟨lit, false, []⟩ =
        some (⟨.STRING, 0, lit.length, lit, false⟩, st') ∧ st'.cur = []) ↔
      ∃ v, Quote.unquote lit = .ok v)

/-- … is FALSE on model and code alike: the scanner reads `"\ud800"` (a lone surrogate escape)
as one error-free STRING token, `literal.Unquote` rejects it — the known finding
string-lone-surrogate-escape, replayed by the harness on every run. -/
theorem C09_string_agree_false : ¬ C09_string_agree_stmt := by
  intro h
  have h1 := (h ⟨false, false⟩ ⟨fun _ => false, fun _ => false⟩ [34, 92, 117, 100, 56, 48, 48, 34] 20
    (by decide)).mp ⟨_, Scan.scanTok_lone_surrogate, rfl⟩
  obtain ⟨v, hv⟩ := h1
  exact Scan.unquote_lone_surrogate v hv

/-- OPEN: the agreement on single-line literals outside the two known classes (here: ASCII
literals without a `\u` / `\U` escape that do not start, after their hashes, with a triple
quote).  Believed true — the harness predicate `string-spelling-disagree` enforces it on
≈ 12,000 / 250,000 generated literals per run — but not proved beyond the plain class below. -/
def C09_string_agree_restricted_stmt : Prop :=   -- OPEN
  ∀ (M : Scan.Mode) (U : Scan.Uni) (lit : Scan.Str) (fuel : Nat), lit.length * 2 + 2 < fuel →
    (∀ b ∈ lit, b < 0x80) →
    (∀ pre post, lit ≠ pre ++ 92 :: 117 :: post ∧ lit ≠ pre ++ 92 :: 85 :: post) →
    (∀ q post, lit.dropWhile (· == 35) ≠ q :: q :: q :: post) →
    ((∃ st', Scan.scanTok M U lit.length fuel ⟨lit, false, []⟩ =
        some (⟨.STRING, 0, lit.length, lit, false⟩, st') ∧ st'.cur = []) ↔
      ∃ v, Quote.unquote lit = .ok v)

/-- Both accept a plain literal: the scanner reads it as ONE error-free STRING token whose
text is the whole input (then only the automatic comma and EOF follow), and `Unquote` returns
exactly the body. -/
theorem C09_string_agree_plain (M : Scan.Mode) (U : Scan.Uni) (f : Quote.Form)
    (hf : f = Quote.stringForm ∨ f = Quote.bytesForm) (body : Scan.Str) (h : Scan.Plain f.quote body)
    (fuel : Nat) :
    Scan.scanTok M U (f.quote :: (body ++ [f.quote])).length (fuel + 1) ⟨f.quote :: (body ++ [f.quote]), false, []⟩ =
      some (⟨.STRING, 0, (f.quote :: (body ++ [f.quote])).length, f.quote :: (body ++ [f.quote]), false⟩,
            ⟨[], if M.dontInsertCommas then false else true, []⟩) ∧
    Quote.unquote (f.quote :: (body ++ [f.quote])) = .ok body := by
  have hq : f.quote = 34 ∨ f.quote = 39 := by
    rcases hf with h | h <;> subst h
    · exact Or.inl rfl
    · exact Or.inr rfl
  exact ⟨Scan.scanTok_plain M U f.quote hq body h fuel, Scan.unquote_plain f hf body h⟩

-- non-vacuity: "a'b #" and 'x"y'
example : Scan.Plain 34 [97, 39, 98, 32, 35] ∧ Scan.Plain 39 [120, 34, 121] := by
  constructor <;> intro b hb <;> simp at hb <;> omega

/-- Both reject an unterminated plain literal (non-empty body): the scanner's STRING token
carries an error ("string literal not terminated"), `Unquote` returns "unmatched quote". -/
theorem C09_string_agree_plain_unterminated (M : Scan.Mode) (U : Scan.Uni) (q : Nat)
    (hq : q = 34 ∨ q = 39) (b : Nat) (rest : Scan.Str) (h : Scan.Plain q (b :: rest)) (fuel : Nat) :
    (∃ t st', Scan.scanTok M U (q :: b :: rest).length (fuel + 1) ⟨q :: b :: rest, false, []⟩ = some (t, st') ∧
      t.kind = .STRING ∧ t.err = true) ∧
    Quote.unquote (q :: b :: rest) = .error .unmatchedQuote :=
  ⟨Scan.scanTok_plain_open M U q hq b rest h fuel,
   Scan.unquote_plain_open q hq (b :: rest) (by simp) h⟩

/-! ### the re-quoting form of `PatchExpr` (goal 3 of the extension brief) -/

/-- `internal/encoding/json` `PatchExpr` (and both YAML decoders) re-quote every long or escaped
string literal with `literal.String.WithOptionalTabIndent(n).WithOptionalHashes()`.  For that
form, ANY indentation `n` and EVERY valid UTF-8 string — single line or, when it contains a
line feed, multi-line with `n` tabs and as many '#' as `requiredHashCount` demands —
`Unquote(Quote(s)) = s`.  A corollary of `C09_roundtrip` (both the single-line optional-hashes
case and the multi-line case); it closes the item C10's notes listed as open for multi-line
forms. -/
theorem C09_roundtrip_patchexpr_form (E : Env) (hE : E.Ok) (n : Nat) (s : Bytes) (hb : IsBytes s)
    (hv : validUTF8 s = true) :
    RoundTrips E ((stringForm.withOptionalTabIndent n).withOptionalHashes) s :=
  C09_roundtrip E hE _ (Or.inl ⟨rfl, rfl⟩) s hb (Or.inr hv)

-- non-vacuity: a string with line feeds (so the form is effectively multi-line), `"""#`, a tab
-- and a trailing backslash
example : RoundTrips asciiEnv ((stringForm.withOptionalTabIndent 2).withOptionalHashes)
    [0x61, 0x0A, 0x22, 0x22, 0x22, 0x23, 0x0A, 0x09, 0x62, 0x5C] ∧
    ((stringForm.withOptionalTabIndent 2).withOptionalHashes).effMultiline
      [0x61, 0x0A, 0x22, 0x22, 0x22, 0x23, 0x0A, 0x09, 0x62, 0x5C] = true :=
  ⟨C09_roundtrip_patchexpr_form asciiEnv asciiEnv_ok 2 _ (by intro b hb; simp at hb; omega)
    (by simp [validUTF8, decodeFirst]), by decide⟩

end CueVerif.C09
