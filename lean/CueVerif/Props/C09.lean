/-
C09 — the parser is total and literals round-trip through quoting.

Only statements live here; proofs are in CueVerif/Proofs/{Utf8,Quote,QuoteHash,QuoteAscii,
QuoteMain,NumLit,Ident}.lean.  The models transcribe cue/literal/{quote,string,num}.go,
cue/scanner/scanner.go (number and identifier lexing) and cue/ast/ident.go.

Conventions: Go strings are byte lists (`IsBytes`); `E : Env` carries `strconv.IsPrint` /
`strconv.IsGraphic`, of which only `Env.Ok` is assumed (NUL, LF, CR are neither);
`Form.WF` says the form is one the library exports (`"`-quoted lossy String/Label, or
`'`-quoted exact Bytes), any combination of the With… options; `Representable f s` is
"Bytes form, or s is valid UTF-8" (String quoting of invalid UTF-8 is lossy by design).

Parser totality / node positions are NOT theorems (no model of the 2,000-line parser):
they are the executable predicate of harness/c09.go evaluated on the implementation.
-/
import CueVerif.Spec.Quote
import CueVerif.Proofs.QuoteMain
import CueVerif.Proofs.NumLit
import CueVerif.Proofs.Ident
namespace CueVerif.C09
open CueVerif CueVerif.Quote

/-! ### quoting round trips -/

/-- Every single-line form without `WithOptionalHashes` (String, Label, Bytes; with or
without ASCII-only / graphic-only; `WithOptionalTabIndent` on a string without newline):
`Unquote(Quote(s)) = s` for EVERY byte string s the form can represent. -/
theorem C09_roundtrip_single (E : Env) (hE : E.Ok) (f : Form) (hf : f.WF) (s : Bytes)
    (hb : IsBytes s) (hr : Representable f s) (hml : f.effMultiline s = false)
    (ha : f.autoHash = false) : RoundTrips E f s :=
  roundtrip_single hE f hf s hb hr hml ha

-- non-vacuity: a bytes form on a string with a quote, a backslash, a control character,
-- invalid UTF-8 and a non-BMP rune meets the hypotheses (and the equation evaluates)
example : RoundTrips asciiEnv bytesForm [0x27, 0x5C, 0x01, 0xFF, 0xF0, 0x9F, 0x98, 0x80, 0x0A] :=
  C09_roundtrip_single asciiEnv asciiEnv_ok bytesForm (Or.inr ⟨rfl, rfl⟩) _
    (by intro b hb; simp at hb; omega) (Or.inl rfl) (by decide) rfl

/-- The full-strength statement for all single-line forms INCLUDING `WithOptionalHashes`. -/
def C09_roundtrip_hashes_stmt : Prop := roundtrip_hashes_stmt

/-- It is FALSE of the code as it is: `literal.String.WithOptionalHashes().Quote("\"\"x")`
is `#"""x"#`, which `Unquote` reads as a multi-line opener (a genuine defect; the harness
replays the witness on the implementation, class optional-hashes-two-leading-quotes). -/
theorem C09_roundtrip_hashes_false : ¬ C09_roundtrip_hashes_stmt := roundtrip_hashes_false

/-- Outside exactly that region — s does not begin with two quote characters followed by
something other than '#' — every single-line form, with or without optional hashes, with
any number of '#', round-trips. -/
theorem C09_roundtrip_hashes_partial (E : Env) (hE : E.Ok) (f : Form) (hf : f.WF) (s : Bytes)
    (hb : IsBytes s) (hr : Representable f s) (hml : f.effMultiline s = false)
    (h2 : startsTwoQuotes f.quote s = false) : RoundTrips E f s :=
  roundtrip_hashes_partial hE f hf s hb hr hml h2

/-- With the one-line repair of `singleLineHashCount` (return 0 when s starts with two
quote characters; `Quote.singleLineHashCountFixed`) the full statement holds. -/
theorem C09_roundtrip_hashes_fixed (E : Env) (hE : E.Ok) (f : Form) (hf : f.WF) (s : Bytes)
    (hb : IsBytes s) (hr : Representable f s) (hml : f.effMultiline s = false) :
    RoundTripsFixed E f s :=
  roundtrip_hashes_fixed hE f hf s hb hr hml

-- non-vacuity: an optional-hashes form on a string with a quote followed by hashes and a
-- backslash followed by a hash: three hashes are chosen and the literal reads back
example : RoundTrips asciiEnv stringForm.withOptionalHashes [0x61, 0x22, 0x23, 0x23, 0x5C, 0x23] :=
  C09_roundtrip_hashes_partial asciiEnv asciiEnv_ok _ (Or.inl ⟨rfl, rfl⟩) _
    (by intro b hb; simp at hb; omega) (Or.inr (by simp [validUTF8, decodeFirst])) (by decide) (by decide)
-- and the repaired variant on the witness of the defect, `""x`
example : RoundTripsFixed asciiEnv stringForm.withOptionalHashes [0x22, 0x22, 0x78] :=
  C09_roundtrip_hashes_fixed asciiEnv asciiEnv_ok _ (Or.inl ⟨rfl, rfl⟩) _
    (by intro b hb; simp at hb; omega) (Or.inr (by simp [validUTF8, decodeFirst])) (by decide)

/-- Multi-line forms (`WithTabIndent(n)`, `WithOptionalTabIndent(n)` on a string with a
newline), incl. CR, trailing backslash, `"""` followed by '#' runs.  -- OPEN: believed true
(the harness evaluates it on the implementation and compares `Quote` byte for byte with the
model for every multi-line form), not proved in Lean. -/
def C09_roundtrip_multi_stmt : Prop :=
  ∀ (E : Env), E.Ok → ∀ (f : Form), f.WF → ∀ (s : Bytes), IsBytes s → Representable f s →
    f.effMultiline s = true → RoundTrips E f s

/-- `WithASCIIOnly`: every byte of the literal is ASCII — for EVERY form (single line,
multi-line, optional hashes) and every input. -/
theorem C09_ascii_only (E : Env) (f : Form) (hf : f.WF) (ha : f.asciiOnly = true) (s : Bytes) :
    IsAscii (quote E f s) :=
  quote_ascii f hf ha s

theorem C09_ascii_only_fixed (E : Env) (f : Form) (hf : f.WF) (ha : f.asciiOnly = true) (s : Bytes) :
    IsAscii (quoteFixed E f s) :=
  quoteFixed_ascii f hf ha s

-- non-vacuity: a multi-line ASCII-only form on non-ASCII input
example : IsAscii (quote asciiEnv (stringForm.withASCIIOnly.withTabIndent 1) [0xC3, 0xA9, 0x0A, 0x62]) :=
  C09_ascii_only asciiEnv _ (Or.inl ⟨rfl, rfl⟩) rfl _

/-! ### the scanner and the literal package agree on number spellings -/

/-- On every spelling on which `Scan` starts a number token (first byte a digit, or '.'
followed by a digit), except those beginning with "0_", the scanner lexes the whole input
as one error-free INT/FLOAT token iff `literal.ParseNum` accepts it, with the same kind. -/
theorem C09_numbers_agree (s : NumLit.Str) (h : NumLit.startsNumber s = true)
    (hz : NumLit.zeroUnderscore s = false) : NumLit.scannerAccepts s = NumLit.parseNum s :=
  NumLit.numbers_agree s h hz

/-- Everything the scanner accepts as a number, `literal.ParseNum` accepts with the same
kind (unconditionally). -/
theorem C09_numbers_scanner_sub_literal (s : NumLit.Str) (k : NumLit.Kind) :
    NumLit.scannerAccepts s = some k → NumLit.parseNum s = some k :=
  NumLit.scanner_sub_literal s k

/-- The unconditional agreement … -/
def C09_numbers_agree_stmt : Prop := NumLit.numbers_agree_stmt
/-- … is FALSE: `literal.ParseNum` accepts "_1" (the scanner lexes an identifier); genuine
divergence, replayed on the implementation (class parsenum-leading-underscore). -/
theorem C09_numbers_agree_false : ¬ C09_numbers_agree_stmt := NumLit.numbers_agree_false

/-- Agreement on all spellings that start a number token … -/
def C09_numbers_agree_started_stmt : Prop := NumLit.numbers_agree_started_stmt
/-- … is FALSE too: `literal.ParseNum` accepts "0_1.5" as a float, the scanner lexes INT "0"
then an identifier (class parsenum-zero-underscore). -/
theorem C09_numbers_agree_started_false : ¬ C09_numbers_agree_started_stmt :=
  NumLit.numbers_agree_started_false

/-- The spellings only `literal.ParseNum` accepts are exactly in those two regions. -/
theorem C09_numbers_literal_only (s : NumLit.Str) (k : NumLit.Kind) :
    NumLit.parseNum s = some k → NumLit.scannerAccepts s = none →
      NumLit.startsNumber s = false ∨ NumLit.zeroUnderscore s = true :=
  NumLit.literal_only s k

-- non-vacuity (samples, not the property)
example : NumLit.scannerAccepts [49, 46, 53, 101, 51] = some .float ∧
    NumLit.parseNum [49, 46, 53, 101, 51] = some .float := by decide

/-! ### the scanner and `ast.IsValidIdent` agree on identifier spellings -/

/-- For every string of code points the scanner's first token is identifier-shaped (IDENT or
keyword), error-free, with the whole input as its literal iff `ast.IsValidIdent` holds.
`lU`/`dU` stand for `unicode.IsLetter`/`unicode.IsDigit` on runes ≥ 0x80; assumed of them:
U+FFFD and U+FEFF are neither letter nor digit, and no rune is both letter and digit. -/
theorem C09_ident_agree (lU dU : Nat → Bool) (hL1 : lU 0xFFFD = false) (hL2 : lU 0xFEFF = false)
    (hD1 : dU 0xFFFD = false) (hD2 : dU 0xFEFF = false)
    (hdisj : ∀ c, 128 ≤ c → lU c = true → dU c = false) (s : Ident.Str) :
    Ident.scanIdentClean lU dU s = Ident.isValidIdent lU dU s :=
  Ident.ident_agree_clean lU dU hL1 hL2 hD1 hD2 hdisj s

-- non-vacuity (samples): "_#a" and "é" are identifiers for both, "#1" for neither
example : Ident.scanIdentClean (· == 233) (· == 0x663) [95, 35, 97] = true ∧
    Ident.isValidIdent (· == 233) (· == 0x663) [233] = true ∧
    Ident.scanIdentClean (· == 233) (· == 0x663) [35, 49] = false := by decide

end CueVerif.C09
