import CueVerif.Driver.Loop
import CueVerif.Driver.C14
def main : IO Unit := CueVerif.Driver.runDriver "C14" CueVerif.Driver.C14.handle
