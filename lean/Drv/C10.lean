import CueVerif.Driver.Loop
import CueVerif.Driver.C10
def main : IO Unit := CueVerif.Driver.runDriver "C10" CueVerif.Driver.C10.handle
