import CueVerif.Driver.Loop
import CueVerif.Driver.C20
def main : IO Unit := CueVerif.Driver.runDriver "C20" CueVerif.Driver.C20.handle
