import CueVerif.Driver.Loop
import CueVerif.Driver.C06
def main : IO Unit := CueVerif.Driver.runDriver "C06" CueVerif.Driver.C06.handle
