import CueVerif.Driver.Loop
import CueVerif.Driver.C18
def main : IO Unit := CueVerif.Driver.runDriver "C18" CueVerif.Driver.C18.handle
