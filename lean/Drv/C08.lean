import CueVerif.Driver.Loop
import CueVerif.Driver.C08
def main : IO Unit := CueVerif.Driver.runDriver "C08" CueVerif.Driver.C08.handle
