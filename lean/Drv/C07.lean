import CueVerif.Driver.Loop
import CueVerif.Driver.C07
def main : IO Unit := CueVerif.Driver.runDriver "C07" CueVerif.Driver.C07.handle
