import CueVerif.Driver.Loop
import CueVerif.Driver.C17
def main : IO Unit := CueVerif.Driver.runDriver "C17" CueVerif.Driver.C17.handle
