import CueVerif.Driver.Loop
import CueVerif.Driver.C19
def main : IO Unit := CueVerif.Driver.runDriver "C19" CueVerif.Driver.C19.handle
