import CueVerif.Driver.Loop
import CueVerif.Driver.C11
def main : IO Unit := CueVerif.Driver.runDriver "C11" CueVerif.Driver.C11.handle
