import CueVerif.Driver.Loop
import CueVerif.Driver.C09
def main : IO Unit := CueVerif.Driver.runDriver "C09" CueVerif.Driver.C09.handle
