import CueVerif.Driver.Loop
import CueVerif.Driver.C03
def main : IO Unit := CueVerif.Driver.runDriver "C03" CueVerif.Driver.C03.handle
