import CueVerif.Driver.Loop
import CueVerif.Driver.C15
def main : IO Unit := CueVerif.Driver.runDriver "C15" CueVerif.Driver.C15.handle
