import CueVerif.Driver.Loop
import CueVerif.Driver.C12
def main : IO Unit := CueVerif.Driver.runDriver "C12" CueVerif.Driver.C12.handle
