import CueVerif.Driver.Loop
import CueVerif.Driver.C04
def main : IO Unit := CueVerif.Driver.runDriver "C04" CueVerif.Driver.C04.handle
