import CueVerif.Driver.Loop
import CueVerif.Driver.C02
def main : IO Unit := CueVerif.Driver.runDriver "C02" CueVerif.Driver.C02.handle
