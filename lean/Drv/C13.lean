import CueVerif.Driver.Loop
import CueVerif.Driver.C13
def main : IO Unit := CueVerif.Driver.runDriver "C13" CueVerif.Driver.C13.handle
