import CueVerif.Driver.Loop
import CueVerif.Driver.C16
def main : IO Unit := CueVerif.Driver.runDriver "C16" CueVerif.Driver.C16.handle
