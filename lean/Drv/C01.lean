import CueVerif.Driver.Loop
import CueVerif.Driver.C01
def main : IO Unit := CueVerif.Driver.runDriver "C01" CueVerif.Driver.C01.handle
