import CueVerif.Driver.Loop
import CueVerif.Driver.C05
def main : IO Unit := CueVerif.Driver.runDriver "C05" CueVerif.Driver.C05.handle
