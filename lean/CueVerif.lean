-- Root of the `CueVerif` library: models, specifications, proofs, property theorems.
import CueVerif.Props.C14
