import CueVerif.Driver.Proto
import CueVerif.Driver.C14
open CueVerif.Driver

def dispatch (line : String) : String :=
  match words line with
  | "C14" :: rest => C14.handle rest
  | _ => "bad-op"

partial def loop (h : IO.FS.Stream) (out : IO.FS.Stream) : IO Unit := do
  let line ← h.getLine
  if line.isEmpty then return ()
  let l := String.ofList (line.toList.filter (fun c => c != (Char.ofNat 10) && c != (Char.ofNat 13)))
  out.putStrLn (dispatch l)
  loop h out

def main : IO Unit := do
  let out ← IO.getStdout
  loop (← IO.getStdin) out
  out.flush
