package main

// C19: generators — CUE programs (structs, definitions, disjunctions with defaults,
// references, lists, comprehensions, a few builtins from imported packages), a second
// value to unify/fill with, and multisets of API calls.

import (
	"fmt"
	"strings"
)

// c19Case is one generated input: a program, how the shared value is made from it, and
// the calls that will be executed concurrently on it.
type c19Case struct {
	ID    int       `json:"id"`
	Seed  uint64    `json:"seed"`
	Src   string    `json:"src"`
	Src2  string    `json:"src2"`
	Mode  int       `json:"mode"` // how the shared value is built, see c19Build
	Paths []string  `json:"paths"`
	Calls []c19Call `json:"calls"`
	G     int       `json:"g"`    // goroutines
	Skew  []int     `json:"skew"` // start skew per goroutine, in spins
}

type c19Call struct {
	Kind string `json:"k"`
	Path string `json:"p"`
	Opt  int    `json:"o"`
	Arg  string `json:"a"`
}

func (c c19Call) String() string { return fmt.Sprintf("%s(%s,%d,%s)", c.Kind, c.Path, c.Opt, c.Arg) }

const (
	c19ModeCompiled  = 0 // ctx.CompileString(src)
	c19ModeValidated = 1 // … and Validate(All) called once before sharing (evaluated)
	c19ModeUnified   = 2 // CompileString(src).Unify(CompileString(src2)), nothing called on it
	c19ModeFilled    = 3 // CompileString(src).FillPath(p, go value), nothing called on it
	c19ModeExpr      = 4 // ctx.BuildExpr of the parsed expression `{src}` (not finalized)
	c19NModes        = 5
)

type c19Gen struct {
	r      *Rng
	sb     strings.Builder
	ints   []string // names of top-level int-valued fields so far
	strs   []string
	lists  []string
	paths  []string
	uses   map[string]bool
	nField int
}

var c19Names = []string{"a", "b", "c", "d", "e", "f", "g", "h", "k", "m", "n", "p", "q", "s", "t", "u"}

func (g *c19Gen) intExpr(depth int) string {
	r := g.r
	switch r.Intn(12) {
	case 0, 1:
		return fmt.Sprint(r.Intn(20))
	case 2:
		if len(g.ints) > 0 {
			return fmt.Sprintf("%s + %d", Pick(r, g.ints), r.Intn(5))
		}
	case 3:
		return fmt.Sprintf("*%d | %d | %d", r.Intn(5), 5+r.Intn(5), 10+r.Intn(5))
	case 4:
		return "int"
	case 5:
		return fmt.Sprintf(">=%d & <=%d", r.Intn(5), 5+r.Intn(20))
	case 6:
		if len(g.lists) > 0 {
			return fmt.Sprintf("len(%s)", Pick(r, g.lists))
		}
	case 7:
		if len(g.lists) > 0 {
			g.uses["list"] = true
			return fmt.Sprintf("list.Sum(%s)", Pick(r, g.lists))
		}
	case 8:
		if len(g.strs) > 0 {
			g.uses["strings"] = true
			return fmt.Sprintf("strings.Count(%s, \"a\")", Pick(r, g.strs))
		}
	case 9:
		if len(g.ints) > 1 {
			return fmt.Sprintf("%s * %s", Pick(r, g.ints), Pick(r, g.ints))
		}
	case 10:
		return fmt.Sprintf("int | *%d", r.Intn(9))
	case 11:
		if r.Chance(1, 6) {
			return "1 & 2" // an error
		}
	}
	return fmt.Sprint(r.Intn(100))
}

func (g *c19Gen) strExpr() string {
	r := g.r
	lits := []string{"\"abc\"", "\"a-b\"", "\"\"", "\"zaza\"", "\"x y\"", "\"ünï\""}
	switch r.Intn(8) {
	case 0, 1:
		return Pick(r, lits)
	case 2:
		if len(g.strs) > 0 {
			return fmt.Sprintf("\"\\(%s)-x\"", Pick(r, g.strs))
		}
	case 3:
		return fmt.Sprintf("*%s | string", Pick(r, lits))
	case 4:
		if len(g.strs) > 0 {
			g.uses["strings"] = true
			return fmt.Sprintf("strings.ToUpper(%s)", Pick(r, g.strs))
		}
	case 5:
		return "string"
	case 6:
		return "=~\"^a\""
	case 7:
		if len(g.ints) > 0 {
			return fmt.Sprintf("\"n\\(%s)\"", Pick(r, g.ints))
		}
	}
	return Pick(r, lits)
}

func (g *c19Gen) listExpr() string {
	r := g.r
	switch r.Intn(7) {
	case 0:
		return "[1, 2, 3]"
	case 1:
		if len(g.lists) > 0 {
			return fmt.Sprintf("[for x in %s {x * 2}]", Pick(r, g.lists))
		}
	case 2:
		return "[...int]"
	case 3:
		if len(g.ints) > 0 {
			return fmt.Sprintf("[%s, %d]", Pick(r, g.ints), r.Intn(9))
		}
	case 4:
		if len(g.lists) > 0 {
			g.uses["list"] = true
			return fmt.Sprintf("list.Sort(%s, list.Ascending)", Pick(r, g.lists))
		}
	case 5:
		return "[\"x\", \"y\"]"
	case 6:
		return fmt.Sprintf("[%d, ...int]", r.Intn(5))
	}
	return fmt.Sprintf("[%d, %d]", r.Intn(9), r.Intn(9))
}

// structBody writes the fields of a nested struct and records their paths.
func (g *c19Gen) structBody(prefix string, depth int) string {
	r := g.r
	var sb strings.Builder
	sb.WriteString("{")
	n := 1 + r.Intn(4)
	sub := []string{"p", "q", "r", "v", "w", "x", "y"}
	Shuffle(r, sub)
	for i := 0; i < n && i < len(sub); i++ {
		name := sub[i]
		path := prefix + "." + name
		switch r.Intn(9) {
		case 0, 1, 2:
			fmt.Fprintf(&sb, "%s: %s, ", name, g.intExpr(depth+1))
			g.paths = append(g.paths, path)
		case 3, 4:
			fmt.Fprintf(&sb, "%s: %s, ", name, g.strExpr())
			g.paths = append(g.paths, path)
		case 5:
			fmt.Fprintf(&sb, "%s?: int, ", name)
			g.paths = append(g.paths, path+"?")
		case 6:
			if depth < 2 {
				fmt.Fprintf(&sb, "%s: %s, ", name, g.structBody(path, depth+1))
				g.paths = append(g.paths, path)
				continue
			}
			fmt.Fprintf(&sb, "%s: true, ", name)
			g.paths = append(g.paths, path)
		case 7:
			fmt.Fprintf(&sb, "[=~\"^z\"]: int, %s: %s, ", name, g.listExpr())
			g.paths = append(g.paths, path)
		case 8:
			if len(g.ints) > 0 {
				fmt.Fprintf(&sb, "if %s > %d {%s: 1}, ", Pick(r, g.ints), r.Intn(10), name)
				g.paths = append(g.paths, path)
			} else {
				fmt.Fprintf(&sb, "%s!: int, ", name)
				g.paths = append(g.paths, path+"!")
			}
		}
	}
	if r.Chance(1, 5) {
		sb.WriteString("#D, ")
	}
	if r.Chance(1, 6) {
		sb.WriteString("..., ")
	}
	sb.WriteString("}")
	return sb.String()
}

func c19GenProgram(r *Rng) (src string, paths []string) {
	g := &c19Gen{r: r, uses: map[string]bool{}}
	var body strings.Builder
	body.WriteString("#D: {x: int, y?: string, z: *1 | int, w: [...int]}\n")
	g.paths = append(g.paths, "#D", "#D.x", "#D.z", "#D.y?")
	names := append([]string(nil), c19Names...)
	Shuffle(r, names)
	n := 3 + r.Intn(7)
	for i := 0; i < n; i++ {
		name := names[i]
		if r.Chance(1, 8) {
			body.WriteString("// doc " + name + "\n")
		}
		switch r.Intn(12) {
		case 0, 1, 2:
			fmt.Fprintf(&body, "%s: %s\n", name, g.intExpr(0))
			g.ints = append(g.ints, name)
		case 3, 4:
			fmt.Fprintf(&body, "%s: %s\n", name, g.strExpr())
			g.strs = append(g.strs, name)
		case 5, 6:
			fmt.Fprintf(&body, "%s: %s\n", name, g.listExpr())
			g.lists = append(g.lists, name)
		case 7, 8:
			fmt.Fprintf(&body, "%s: %s\n", name, g.structBody(name, 0))
		case 9:
			switch r.Intn(3) {
			case 0:
				fmt.Fprintf(&body, "%s: #D & {x: %d}\n", name, r.Intn(9))
			case 1:
				fmt.Fprintf(&body, "%s: #D\n", name)
			case 2:
				fmt.Fprintf(&body, "%s: #D & {x: %d, w: [1, 2]} @tag(v)\n", name, r.Intn(9))
			}
			g.paths = append(g.paths, name+".x", name+".z", name+".w")
		case 10:
			switch r.Intn(3) {
			case 0:
				fmt.Fprintf(&body, "%s: {k: \"a\", v: int} | {k: \"b\", v: string}\n", name)
			case 1:
				fmt.Fprintf(&body, "%s: *{m: 1} | {m: 2}\n", name)
			case 2:
				fmt.Fprintf(&body, "%s: {k: *\"a\" | \"b\", if k == \"a\" {v: 1}}\n", name)
			}
			g.paths = append(g.paths, name+".k", name+".v", name+".m")
		case 11:
			switch r.Intn(3) {
			case 0:
				fmt.Fprintf(&body, "_%s: %d\n%s: _%s + 1\n", name, r.Intn(9), name, name)
				g.paths = append(g.paths, "_"+name)
				g.ints = append(g.ints, name)
			case 1:
				fmt.Fprintf(&body, "let L%s = %d\n%s: L%s * 2\n", name, r.Intn(9), name, name)
				g.ints = append(g.ints, name)
			case 2:
				if len(g.lists) > 0 {
					fmt.Fprintf(&body, "%s: {for i, x in %s {\"k\\(i)\": x}}\n", name, Pick(r, g.lists))
					g.paths = append(g.paths, name+".k0", name+".k1")
				} else {
					fmt.Fprintf(&body, "%s: null\n", name)
				}
			}
		}
		g.paths = append(g.paths, name)
	}
	var sb strings.Builder
	for _, p := range []string{"list", "strings", "math"} {
		if g.uses[p] {
			fmt.Fprintf(&sb, "import %q\n", p)
		}
	}
	sb.WriteString(body.String())
	g.paths = append(g.paths, "zz", "a.b.c", "")
	return sb.String(), g.paths
}

// c19GenSecond makes the value that Unify/FillPath/Subsume/Equals are called with: a
// struct overlapping some of the paths (sometimes compatible, sometimes conflicting).
func c19GenSecond(r *Rng, paths []string) string {
	var sb strings.Builder
	sb.WriteString("{")
	n := 1 + r.Intn(3)
	seen := map[string]bool{}
	for i := 0; i < n; i++ {
		p := Pick(r, paths)
		p = strings.TrimRight(p, "?!")
		if p == "" || strings.HasPrefix(p, "#") || strings.HasPrefix(p, "_") || seen[strings.SplitN(p, ".", 2)[0]] {
			continue
		}
		seen[strings.SplitN(p, ".", 2)[0]] = true
		parts := strings.Split(p, ".")
		val := Pick(r, []string{"3", "7", "\"abc\"", "int", "_", "[1, 2, 3]", "{p: 1}", "true", "number"})
		sb.WriteString(strings.Join(parts, ": {"))
		sb.WriteString(": " + val)
		sb.WriteString(strings.Repeat("}", len(parts)-1))
		sb.WriteString(", ")
	}
	if r.Chance(1, 3) {
		sb.WriteString("extra: 1, ")
	}
	sb.WriteString("}")
	return sb.String()
}

var c19Kinds = []string{
	"lookup", "lookup", "lookup", "fields", "fields", "unify", "unify", "fill", "fill", "fillv",
	"validate", "validate", "default", "syntax", "syntax", "decode", "decode", "decodeT", "json", "yaml",
	"equals", "subsume", "kind", "len", "scalar", "compile", "compileScope", "encode", "encodeType",
	"eval", "walk", "expr", "list", "allows", "attrs", "refpath", "path", "format", "doc", "unifyAccept",
	"intern",
}

func c19GenCalls(r *Rng, paths []string, n int) []c19Call {
	var cs []c19Call
	for i := 0; i < n; i++ {
		k := Pick(r, c19Kinds)
		cs = append(cs, c19Call{Kind: k, Path: Pick(r, paths), Opt: r.Intn(16), Arg: Pick(r, paths)})
	}
	// a multiset: duplicate a few calls so identical calls race with each other
	for i := 0; i < n/4; i++ {
		cs = append(cs, cs[r.Intn(len(cs))])
	}
	Shuffle(r, cs)
	return cs
}

func c19GenCase(r *Rng, id int, nCalls int) *c19Case {
	cs := &c19Case{ID: id, Seed: r.U64()}
	rr := &Rng{s: cs.Seed}
	cs.Src, cs.Paths = c19GenProgram(rr)
	cs.Src2 = c19GenSecond(rr, cs.Paths)
	cs.Mode = rr.Intn(c19NModes)
	cs.Calls = c19GenCalls(rr, cs.Paths, nCalls)
	cs.G = 2 + rr.Intn(15)
	for i := 0; i < cs.G; i++ {
		cs.Skew = append(cs.Skew, rr.Intn(2000)*rr.Intn(3))
	}
	return cs
}
