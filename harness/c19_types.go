package main

// C19: stress of the Go-type caches (runtime index.typeCache via EncodeType / FromGoType,
// convert.astTypeCache, cue/decode.go fieldCache): many distinct struct types made with
// reflect.StructOf, encoded and decoded by 8-16 goroutines at once in a fresh context per
// round; every dump compared with the one obtained alone in a fresh context.

import (
	"encoding/json"
	"fmt"
	"os"
	"reflect"
	"strconv"
	"strings"
	"sync"
	"time"

	"cuelang.org/go/cue"
	"cuelang.org/go/cue/cuecontext"
)

func c19MakeTypes(r *Rng, n int) []reflect.Type {
	base := []reflect.Type{
		reflect.TypeOf(0), reflect.TypeOf(""), reflect.TypeOf(false), reflect.TypeOf([]int{}),
		reflect.TypeOf(map[string]int{}), reflect.TypeOf(new(int)), reflect.TypeOf(1.5), reflect.TypeOf([]string{}),
		reflect.TypeOf(uint8(0)), reflect.TypeOf(c19T2{}),
	}
	var ts []reflect.Type
	for i := 0; i < n; i++ {
		nf := 1 + r.Intn(5)
		var fs []reflect.StructField
		for j := 0; j < nf; j++ {
			t := Pick(r, base)
			if len(ts) > 0 && r.Chance(1, 4) {
				t = ts[r.Intn(len(ts))]
			}
			tag := fmt.Sprintf(`json:"f%d_%d"`, i, j)
			if r.Chance(1, 4) {
				tag = fmt.Sprintf(`json:"f%d_%d,omitempty"`, i, j)
			}
			fs = append(fs, reflect.StructField{Name: fmt.Sprintf("F%d_%d", i, j), Type: t, Tag: reflect.StructTag(tag)})
		}
		ts = append(ts, reflect.StructOf(fs))
	}
	return ts
}

func c19TypeOp(ctx *cue.Context, t reflect.Type) (res string) {
	defer func() {
		if e := recover(); e != nil {
			res = "panic:" + c19Head(fmt.Sprint(e), 120)
		}
	}()
	zero := reflect.New(t).Elem().Interface()
	v := ctx.EncodeType(zero)
	e := ctx.Encode(zero)
	p := reflect.New(t)
	err := e.Decode(p.Interface())
	b, _ := json.Marshal(p.Elem().Interface())
	return c19Dump(v) + "#" + c19Dump(e) + "#" + string(b) + "#" + c19ErrKinds(err) + "#" + c19ErrKinds(v.Unify(e).Validate())
}

type c19TypeOut struct {
	Rounds   int      `json:"rounds"`
	Ops      int      `json:"ops"`
	Mismatch []string `json:"mismatch"`
	Timeout  bool     `json:"timeout"`
}

// c19TypeChild: spec = "<seed>:<rounds>:<out.json>"
func c19TypeChild(spec string) {
	ps := strings.SplitN(spec, ":", 3)
	seed, _ := strconv.ParseUint(ps[0], 10, 64)
	rounds, _ := strconv.Atoi(ps[1])
	r := NewRng(seed).Sub()
	out := c19TypeOut{Rounds: rounds}
	var mu sync.Mutex
	for n := 0; n < rounds; n++ {
		ts := c19MakeTypes(r, 8+r.Intn(24))
		// alone, fresh context per type
		alone := make([]string, len(ts))
		for i, t := range ts {
			alone[i] = c19TypeOp(cuecontext.New(), t)
		}
		ctx := cuecontext.New()
		g := 8 + r.Intn(9)
		start := make(chan struct{})
		var wg sync.WaitGroup
		for k := 0; k < g; k++ {
			order := make([]int, len(ts))
			for i := range order {
				order[i] = i
			}
			Shuffle(r, order)
			wg.Add(1)
			go func(order []int) {
				defer wg.Done()
				<-start
				for _, i := range order {
					got := c19TypeOp(ctx, ts[i])
					mu.Lock()
					out.Ops++
					if got != alone[i] && len(out.Mismatch) < 5 {
						out.Mismatch = append(out.Mismatch, fmt.Sprintf("type %v: concurrent %s / alone %s", ts[i], c19Clip(got), c19Clip(alone[i])))
					}
					mu.Unlock()
				}
			}(order)
		}
		close(start)
		if !c19WaitTimeout(&wg, 120*time.Second) {
			out.Timeout = true
			break
		}
	}
	b, _ := json.Marshal(out)
	os.WriteFile(ps[2], b, 0o666)
}
