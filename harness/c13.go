package main

// C13 — JSON Schema translation preserves which instances are valid.
//
// For generated (schema, instance) pairs the real importer (`jsonschema.Extract` with the
// same zero Config that `cue import jsonschema:` / `cue vet schema.json data.json` use via
// internal/encoding.jsonSchemaFunc) is run, the resulting CUE compiled, and
//   instance.Unify(schemaValue).Validate(cue.Concrete(true)) == nil
// is compared with the verdict of the Lean oracle `JS.valid` (op `valid`, class O).
// Second direction: `jsonschema.Generate` applied to the CUE obtained from Extract must
// give a schema the ORACLE judges identically on every instance (op `agree`, class O).
// Internal correspondence (class I): the top-level shape `state.finalize` produced versus
// the Lean model `Skel.finalize` for schemas made of type / enum / one keyword per kind.
//
// Files: c13.go (driver, evaluation), c13_gen.go (generators), c13_class.go (finding classes,
// keyword white-list, shapes).

import (
	"fmt"
	"os"
	"strings"
	"time"

	"cuelang.org/go/cue"
	"cuelang.org/go/cue/ast"
	"cuelang.org/go/cue/cuecontext"
	cuejson "cuelang.org/go/encoding/json"
	"cuelang.org/go/encoding/jsonschema"
)

func init() { props["C13"] = runC13 }

type c13Case struct {
	schema    jv
	schemaTxt string
	insts     []jv
	instTxt   []string
	fixed     bool // from the fixed corpus

	// results
	importErr  string   // kind of import-time failure ("" = imported and compiled)
	verdicts   []string // per instance: true|false|panic|timeout
	genTxt     string   // JSON text of Generate(Extract(schema)), "" if unavailable
	genSkip    string   // why the reverse direction was skipped
	shape      string   // top-level shape of the extracted CUE (skeleton cases only)
	flags      string   // facts about the extracted CUE used for class tags (c13AstFlags)
	noGen      bool     // a confirmation probe: no reverse direction
	probe      bool     // a confirmation probe: tighter CPU limit

	// filled by the harness after consulting the oracle (c13_confirm.go)
	judged         []c13Judged
	class          []string    // per instance: confirmed root-cause class of a forward divergence
	confirm        [][2]string // per instance: the confirming (schema, instance)
	confirmVerdict [][3]string // (schema, instance, importer verdict) of the confirming pairs
	inconclusive   []bool      // per instance: confirmation could not be completed (blow-up of every retry)
	revClass       []string    // per instance: confirmed class of a reverse divergence
	revConfirm     [][3]string // confirming (schema, generated schema, instance) triples
	skel       *skelCase
	evalMillis int64
}

// The reverse direction is compared only where the root cause of a lossy round trip can be
// attributed by experiment (c13_confirm_rev.go): schemas of at most 800 characters without a
// reference to the root ("#": Extract then introduces a hidden `_schema` field and Generate a
// `$defs._schema` wrapper, where several lossy effects pile up).  Larger / self-referential
// schemas take part in the forward direction only (counted as reverse:skipped:…).
const c13ReverseMaxLen = 800

func c13ReverseSkipped(cs *c13Case) bool {
	return len(cs.schemaTxt) > c13ReverseMaxLen || strings.Contains(cs.schemaTxt, `"$ref":"#"`)
}

func c13ErrKind(err error) string {
	s := err.Error()
	switch {
	case strings.Contains(s, "not possible to satisfy"):
		return "unsatisfiable-root"
	case strings.Contains(s, "duplicate required"):
		return "duplicate-required"
	case strings.Contains(s, "excluded"):
		return "constraint-for-excluded-type"
	case strings.Contains(s, "multipleOf"):
		return "multipleOf"
	case strings.Contains(s, "non-existent"):
		return "dangling-ref"
	}
	if len(s) > 40 {
		s = s[:40]
	}
	return "other:" + strings.Map(func(r rune) rune {
		if r == ' ' || r == '\n' {
			return '_'
		}
		return r
	}, s)
}

func c13Validate(iv, sv cue.Value) (res string) {
	defer func() {
		if p := recover(); p != nil {
			res = "panic"
		}
	}()
	if iv.Unify(sv).Validate(cue.Concrete(true)) == nil {
		return "true"
	}
	return "false"
}

func c13Eval(ctx *cue.Context, cs *c13Case, doGen bool) {
	t0 := time.Now()
	defer func() {
		cs.evalMillis = time.Since(t0).Milliseconds()
		if p := recover(); p != nil {
			cs.importErr = "panic"
		}
	}()
	se, err := cuejson.Extract("schema.json", []byte(cs.schemaTxt))
	if err != nil {
		cs.importErr = "schema-json"
		return
	}
	sv := ctx.BuildExpr(se)
	if sv.Err() != nil {
		cs.importErr = "schema-json-build"
		return
	}
	f, err := jsonschema.Extract(sv, &jsonschema.Config{})
	if err != nil {
		cs.importErr = "import:" + c13ErrKind(err)
		return
	}
	if cs.skel != nil {
		cs.shape = c13Shape(f)
	}
	cv := ctx.BuildFile(f)
	if cv.Err() != nil {
		cs.importErr = "compile-error"
		return
	}
	if err := cv.Validate(); err != nil {
		cs.importErr = "compile-error"
		return
	}
	cs.flags = c13AstFlags(ctx, f)
	for _, it := range cs.instTxt {
		ie, err := cuejson.Extract("instance.json", []byte(it))
		if err != nil {
			cs.verdicts = append(cs.verdicts, "instance-json")
			continue
		}
		iv := ctx.BuildExpr(ie)
		cs.verdicts = append(cs.verdicts, c13Validate(iv, cv))
	}
	if !doGen {
		cs.genSkip = "not-requested"
		return
	}
	func() {
		defer func() {
			if p := recover(); p != nil {
				cs.genSkip = "generate-panic"
			}
		}()
		ge, err := jsonschema.Generate(cv, &jsonschema.GenerateConfig{})
		if err != nil {
			cs.genSkip = "generate-error"
			return
		}
		gv := ctx.BuildExpr(ge)
		b, err := gv.MarshalJSON()
		if err != nil {
			cs.genSkip = "generate-marshal"
			return
		}
		g, err := parseJV(string(b))
		if err != nil {
			cs.genSkip = "generate-reparse"
			return
		}
		if why := c13Unsupported(g, true); why != "" {
			cs.genSkip = "outside-oracle:" + why
			return
		}
		cs.genTxt = string(b)
	}()
}

func runC13(c *Cfg) {
	if c.Replay == "worker" {
		c13Worker()
		return
	}
	if os.Getenv("C13_ONLY_CC") != "" { // development aid: only the structural stream
		c13RunCC(c, NewRng(c.Seed*2654435761+13))
		return
	}
	r := NewRng(c.Seed)
	var cases []*c13Case

	// 1. fixed corpus: minimal inputs of every divergence seen so far + witnesses of the
	//    Lean `_false` theorems (always replayed first)
	for _, fc := range c13Corpus {
		s, err := parseJV(fc.schema)
		if err != nil {
			panic(err)
		}
		cs := &c13Case{schema: s, schemaTxt: fc.schema, fixed: true}
		for _, it := range fc.insts {
			v, err := parseJV(it)
			if err != nil {
				panic(err)
			}
			cs.insts = append(cs.insts, v)
			cs.instTxt = append(cs.instTxt, it)
		}
		cases = append(cases, cs)
	}

	only := os.Getenv("C13_ONLY_CASE") // development aid: file with a schema line + instance lines
	if only != "" {
		b, err := os.ReadFile(only)
		if err != nil {
			panic(err)
		}
		ls := strings.Split(strings.TrimSpace(string(b)), "\n")
		s, err := parseJV(ls[0])
		if err != nil {
			panic(err)
		}
		cs := &c13Case{schema: s, schemaTxt: renderJV(s)}
		for _, it := range ls[1:] {
			v, err := parseJV(it)
			if err != nil {
				panic(err)
			}
			cs.insts = append(cs.insts, v)
			cs.instTxt = append(cs.instTxt, renderJV(v))
		}
		cases = []*c13Case{cs}
	}

	// 2. skeleton cases (internal correspondence with state.finalize)
	if !c.Focus && only == "" {
		nSkel := c.Pick(500, 3000)
		for i := 0; i < nSkel; i++ {
			sk := genSkelCase(r.Sub())
			cs := &c13Case{schema: sk.schema, schemaTxt: renderJV(sk.schema), skel: sk}
			cases = append(cases, cs)
		}
	}

	// 3. generated schemas with schema-directed and random instances
	nSchemas := c.Pick(1500, 8000)
	nInst := c.Pick(8, 10)
	if only != "" {
		nSchemas = 0
	}
	if c.Focus {
		nSchemas = c.Pick(4000, 40000)
	}
	for i := 0; i < nSchemas; i++ {
		sr := r.Sub()
		g := newSchemaGen(sr)
		s := g.root()
		cs := &c13Case{schema: s, schemaTxt: renderJV(s)}
		seen := map[string]bool{}
		for k := 0; k < nInst*2 && len(cs.insts) < nInst; k++ {
			var v jv
			if sr.Chance(7, 10) {
				v = g.instFor(s, 4)
			} else {
				v = genRandomInstance(sr, 3)
			}
			t := renderJV(v)
			if seen[t] {
				continue
			}
			seen[t] = true
			cs.insts = append(cs.insts, v)
			cs.instTxt = append(cs.instTxt, t)
		}
		cases = append(cases, cs)
	}

	// evaluate on 16 worker PROCESSES (this binary re-executed with `-replay worker`), a fresh
	// cue.Context every few cases; a case that exceeds the time limit (the evaluator can take
	// exponential time on nested disjunctions) gets its worker killed and is counted as
	// `timeout`, never as a finding.
	tPhase := time.Now()
	phase := func(name string) {
		if os.Getenv("C13_DEBUG") != "" {
			fmt.Fprintf(os.Stderr, "PHASE %s %.1fs\n", name, time.Since(tPhase).Seconds())
		}
		tPhase = time.Now()
	}
	c13RunWorkers(c, cases)
	phase("evaluate")

	// consult the oracle, then confirm the root cause of every forward divergence by a targeted
	// transformation evaluated on the real importer (c13_confirm.go)
	oracle := c13FindOracle()
	if oracle == nil {
		c.Count("oracle-unavailable")
	} else {
		c13Judge(oracle, cases)
		phase("judge")
		c13Confirm(c, oracle, cases)
		phase("confirm-forward")
		c13ConfirmReverse(c, oracle, cases)
		phase("confirm-reverse")
	}

	// emit in generation order (deterministic)
	emitted := map[string]bool{}
	for _, cs := range cases {
		c13Emit(c, cs)
		// the confirming pairs, untagged: the importer must agree with the oracle on them
		for _, cv := range cs.confirmVerdict {
			line := "valid " + H(cv[0]) + " " + H(cv[1])
			if !emitted[line] {
				emitted[line] = true
				c.Op("O", line, cv[2])
				c.Count("confirming-pairs")
			}
		}
		for _, rc := range cs.revConfirm {
			line := "agree " + H(rc[0]) + " " + H(rc[1]) + " " + H(rc[2])
			if !emitted[line] {
				emitted[line] = true
				c.Op("O", line, "same")
				c.Count("confirming-pairs")
			}
		}
	}

	// structural correspondence of the transcribed per-keyword builders (c13_cc.go); its own
	// random stream, so that the other generators see the same sequence as before
	if !c.Focus && only == "" {
		c13RunCC(c, NewRng(c.Seed*2654435761+13))
	}

	// witnesses of the `_false` theorems, evaluated on the implementation alone
	for _, w := range c13Witnesses {
		ctx := cuecontext.New()
		s, _ := parseJV(w.schema)
		cs := &c13Case{schema: s, schemaTxt: w.schema, instTxt: []string{w.inst}}
		c13Eval(ctx, cs, false)
		got := "import-error"
		if cs.importErr == "" && len(cs.verdicts) == 1 {
			got = cs.verdicts[0]
		}
		c.Direct(got == w.want, w.class, fmt.Sprintf("witness of %s: schema %s instance %s: importer says %s, the specification says %s", w.theorem, w.schema, w.inst, got, w.want),
			map[string]string{"schema": w.schema, "instance": w.inst})
	}
	for _, w := range c13Observations {
		ctx := cuecontext.New()
		s, _ := parseJV(w.schema)
		cs := &c13Case{schema: s, schemaTxt: w.schema, instTxt: []string{w.inst}}
		c13Eval(ctx, cs, false)
		got := "import-error"
		if cs.importErr == "" && len(cs.verdicts) == 1 {
			got = cs.verdicts[0]
		}
		// outside the property's subset: counted, never a finding / failing input
		c.Count("observation:" + w.class + ":importer=" + got + ":spec=" + w.want)
	}
}

func c13Emit(c *Cfg, cs *c13Case) {
	if cs.skel != nil {
		c.Count("skel:cases")
		if cs.importErr != "" && cs.shape == "" {
			c.Count("skel:import-error")
			return
		}
		sk := cs.skel
		c.Op("I", fmt.Sprintf("skel %d %d %d %d", sk.allowed, sk.known, sk.presence, sk.nAll), cs.shape)
		c.Case("skel "+cs.schemaTxt, sk.presence != 0 || sk.allowed != 127)
		return
	}
	c.Count("schemas")
	c.Count(fmt.Sprintf("schema-depth:%d", jvSchemaDepth(cs.schema)))
	for _, k := range c13Keywords(cs.schema) {
		c.Count("kw:" + k)
	}
	if cs.importErr != "" {
		c.Count("import-outcome:" + cs.importErr)
		if cs.importErr == "panic" {
			// a panic out of the public API is never acceptable: always a violation (no known class)
			c.Direct(false, "extract-panic", "jsonschema.Extract / BuildFile / Validate panicked on "+cs.schemaTxt, map[string]string{"schema": cs.schemaTxt})
		}
		return
	}
	c.Count("import-outcome:ok")
	sh := H(cs.schemaTxt)
	nTrue := 0
	for i, it := range cs.instTxt {
		v := cs.verdicts[i]
		if v == "true" {
			nTrue++
		}
		c.Count("verdict:" + v)
		if v == "panic" {
			// a panic out of Value.Unify / Validate: never acceptable, always a violation
			c.Direct(false, "validate-panic", "instance.Unify(schema).Validate panicked on "+cs.schemaTxt+" with "+it, map[string]string{"schema": cs.schemaTxt, "instance": it})
			continue
		}
		tag := ""
		if cs.class != nil {
			tag = cs.class[i]
		}
		if cs.inconclusive != nil && cs.inconclusive[i] && tag == "" {
			// the confirmation probes blew up even when retried alone: counted, never a finding
			c.Count("verdict-not-compared:confirmation-inconclusive")
			continue
		}
		c.OpTag("O", tag, "valid "+sh+" "+H(it), v)
		if tag != "" {
			c.Count("tagged:" + tag)
		}
	}
	c.Case(cs.schemaTxt, nTrue > 0 && nTrue < len(cs.instTxt))
	if cs.genTxt == "" {
		c.Count("reverse:skipped:" + cs.genSkip)
		return
	}
	if c13ReverseSkipped(cs) {
		// the reverse direction is compared only for schemas small enough for the root cause of a
		// lossy round trip to be attributed by experiment (c13_confirm_rev.go)
		c.Count("reverse:skipped:large-or-self-referential")
		return
	}
	c.Count("reverse:compared")
	gh := H(cs.genTxt)
	for i, it := range cs.instTxt {
		tag := ""
		if cs.revClass != nil {
			tag = cs.revClass[i]
		}
		c.OpTag("O", tag, "agree "+sh+" "+gh+" "+H(it), "same")
		if tag != "" {
			c.Count("tagged:" + tag)
		}
	}
}

// c13Shape renders the top-level expression of the extracted file in the canonical form of
// Lean's Skel.finalizeShapeStr.
func c13Shape(f *ast.File) string {
	// the skeleton cases are `{"type":"object","properties":{"p": S}}`: the file holds the
	// field "p"?: <S> at top level (or inside a single embedded struct)
	if sh := shapeOfTop(&ast.StructLit{Elts: f.Decls}); sh != "no-field-p" {
		return sh
	}
	for _, d := range f.Decls {
		if e, ok := d.(*ast.EmbedDecl); ok {
			return shapeOfTop(e.Expr)
		}
	}
	return "no-field-p"
}
