package main

// C13: syntactic helpers — keyword inventory, the white-list of keywords the Lean oracle
// understands, narrow class tags for the known divergences, the fixed corpus, and the
// canonical shape of an extracted top-level expression.

import (
	"fmt"
	"sort"
	"strconv"
	"strings"

	"cuelang.org/go/cue"
	"cuelang.org/go/cue/ast"
	"cuelang.org/go/cue/format"
	"cuelang.org/go/cue/token"
)

// keywords whose value is a schema / list of schemas / map of schemas
var (
	c13SchemaKw    = map[string]bool{"additionalProperties": true, "propertyNames": true, "items": true, "contains": true, "not": true, "if": true, "then": true, "else": true}
	c13SchemaList  = map[string]bool{"allOf": true, "anyOf": true, "oneOf": true, "prefixItems": true}
	c13SchemaMap   = map[string]bool{"properties": true, "patternProperties": true, "$defs": true}
	c13PlainKw     = map[string]bool{"type": true, "enum": true, "const": true, "minimum": true, "maximum": true, "exclusiveMinimum": true, "exclusiveMaximum": true, "multipleOf": true, "minLength": true, "maxLength": true, "pattern": true, "required": true, "minProperties": true, "maxProperties": true, "minItems": true, "maxItems": true, "uniqueItems": true, "minContains": true, "maxContains": true, "$ref": true}
	c13Annotations = map[string]bool{"$schema": true, "title": true, "description": true, "$comment": true, "default": true, "examples": true, "deprecated": true}
)

// walkSchemas calls f on s and every subschema of s.
func walkSchemas(s jv, f func(o jobj)) {
	o, ok := s.(jobj)
	if !ok {
		return
	}
	f(o)
	for _, e := range o {
		switch {
		case c13SchemaKw[e.k]:
			walkSchemas(e.v, f)
		case c13SchemaList[e.k]:
			if a, ok := e.v.([]jv); ok {
				for _, x := range a {
					walkSchemas(x, f)
				}
			}
		case c13SchemaMap[e.k]:
			if m, ok := e.v.(jobj); ok {
				for _, x := range m {
					walkSchemas(x.v, f)
				}
			}
		}
	}
}

func c13Keywords(s jv) []string {
	set := map[string]bool{}
	walkSchemas(s, func(o jobj) {
		for _, e := range o {
			set[e.k] = true
		}
	})
	var ks []string
	for k := range set {
		ks = append(ks, k)
	}
	sort.Strings(ks)
	return ks
}

func jvSchemaDepth(s jv) int {
	o, ok := s.(jobj)
	if !ok {
		return 0
	}
	d := 0
	for _, e := range o {
		sub := 0
		switch {
		case c13SchemaKw[e.k]:
			sub = 1 + jvSchemaDepth(e.v)
		case c13SchemaList[e.k]:
			if a, ok := e.v.([]jv); ok {
				for _, x := range a {
					if k := 1 + jvSchemaDepth(x); k > sub {
						sub = k
					}
				}
			}
		case c13SchemaMap[e.k]:
			if m, ok := e.v.(jobj); ok {
				for _, x := range m {
					k := 1 + jvSchemaDepth(x.v)
					if e.k == "$defs" {
						k--
					}
					if k > sub {
						sub = k
					}
				}
			}
		}
		if sub > d {
			d = sub
		}
	}
	return d
}

// c13Unsupported mirrors the Lean reader (Driver/C13.lean toKw): "" if the oracle can read s.
func c13Unsupported(s jv, isRoot bool) string {
	switch x := s.(type) {
	case bool:
		return ""
	case jobj:
		for _, e := range x {
			switch {
			case c13Annotations[e.k]:
			case e.k == "pattern":
				p, ok := e.v.(string)
				if !ok || !c13KnownPattern(p) {
					return "pattern"
				}
			case e.k == "$ref":
				p, ok := e.v.(string)
				if !ok || !(p == "#" || strings.HasPrefix(p, "#/$defs/") && !strings.ContainsAny(p[8:], "/~%")) {
					return "ref-form"
				}
			case e.k == "multipleOf":
				n, ok := e.v.(jnum)
				if !ok || numRat(n).Sign() <= 0 {
					return "multipleOf"
				}
			case c13PlainKw[e.k]:
			case c13SchemaKw[e.k]:
				if w := c13Unsupported(e.v, false); w != "" {
					return w
				}
			case c13SchemaList[e.k]:
				a, ok := e.v.([]jv)
				if !ok || (len(a) == 0 && e.k != "prefixItems") {
					return e.k + "-form"
				}
				for _, y := range a {
					if w := c13Unsupported(y, false); w != "" {
						return w
					}
				}
			case c13SchemaMap[e.k]:
				m, ok := e.v.(jobj)
				if !ok {
					return e.k + "-form"
				}
				for _, y := range m {
					if e.k == "patternProperties" && !c13KnownPattern(y.k) {
						return "pattern"
					}
					if w := c13Unsupported(y.v, false); w != "" {
						return w
					}
				}
			default:
				return "keyword:" + e.k
			}
		}
		return ""
	}
	return "schema-form"
}

func c13KnownPattern(p string) bool {
	for _, q := range c13Patterns {
		if p == q {
			return true
		}
	}
	return false
}

// ---- instance predicates -------------------------------------------------------------------

func anyNum(v jv, f func(jnum) bool) bool {
	switch x := v.(type) {
	case jnum:
		return f(x)
	case []jv:
		for _, e := range x {
			if anyNum(e, f) {
				return true
			}
		}
	case jobj:
		for _, e := range x {
			if anyNum(e.v, f) {
				return true
			}
		}
	}
	return false
}

// an integral number written with a fraction or exponent (1.0, 1e1): float literal, integer value
func hasIntegralFloat(v jv) bool {
	return anyNum(v, func(n jnum) bool { return !isIntLiteral(n) && numRat(n).IsInt() })
}

func hasKw(s jv, kw string) bool {
	found := false
	walkSchemas(s, func(o jobj) {
		if _, ok := o.get(kw); ok {
			found = true
		}
	})
	return found
}

func typeMentions(s jv, name string) bool {
	found := false
	walkSchemas(s, func(o jobj) {
		if v, ok := o.get("type"); ok {
			switch t := v.(type) {
			case string:
				found = found || t == name
			case []jv:
				for _, e := range t {
					found = found || e == name
				}
			}
		}
	})
	return found
}

// c13AstFlags inspects the extracted CUE on the REAL evaluator: "matchIf-bottom-arg" when some
// matchIf call has an argument that evaluates to bottom on its own (error("disallowed"),
// 1 & >=5, #d0 & (number | {...}) with #d0: bool, matchN(0,[_]) & null, …).  Each argument is
// compiled as a regular field next to the file's top-level definitions / hidden fields (the
// only things an argument refers to).
func c13AstFlags(ctx *cue.Context, f *ast.File) string {
	var args []ast.Expr
	ast.Walk(f, func(n ast.Node) bool {
		if c, ok := n.(*ast.CallExpr); ok {
			if id, ok := c.Fun.(*ast.Ident); ok && id.Name == "matchIf" {
				args = append(args, c.Args...)
			}
		}
		return true
	}, nil)
	if len(args) == 0 {
		return ""
	}
	// imports + the top-level definitions and hidden fields (what the arguments may refer to),
	// without the schema's own root expression; each argument as a regular field
	var body strings.Builder
	var imports []string
	for _, d := range f.Decls {
		switch x := d.(type) {
		case *ast.ImportDecl:
			for _, sp := range x.Specs {
				if path, err := strconv.Unquote(sp.Path.Value); err == nil {
					imports = append(imports, path)
				}
			}
		case *ast.Field:
			if id, ok := x.Label.(*ast.Ident); ok && (strings.HasPrefix(id.Name, "#") || strings.HasPrefix(id.Name, "_")) {
				b, err := format.Node(d)
				if err != nil {
					return ""
				}
				body.Write(b)
				body.WriteString("\n")
			}
		}
	}
	n := 0
	for _, a := range args {
		b, err := format.Node(a)
		if err != nil {
			continue
		}
		fmt.Fprintf(&body, "c13arg%d: %s\n", n, b)
		n++
	}
	var sb strings.Builder
	for _, path := range imports {
		name := path[strings.LastIndex(path, "/")+1:]
		if strings.Contains(body.String(), name+".") { // an unused import is a compile error
			fmt.Fprintf(&sb, "import %q\n", path)
		}
	}
	sb.WriteString(body.String())
	v := ctx.CompileBytes([]byte(sb.String()))
	for i := 0; i < n; i++ {
		fv := v.LookupPath(cue.ParsePath(fmt.Sprintf("c13arg%d", i)))
		if fv.Exists() && fv.Err() != nil {
			return "matchIf-bottom-arg"
		}
	}
	return ""
}

// ---- fixed corpus ----------------------------------------------------------------------------

type c13Fixed struct {
	schema string
	insts  []string
}

var c13Corpus = []c13Fixed{
	// former evaluator panic (disjunctError type assertion), fixed by a312802: must import and judge
	{`{"$defs":{"d":{"enum":[-2.5,2.0],"oneOf":[{"exclusiveMaximum":2.5},false,{"uniqueItems":true}]}},"properties":{"a":{"$ref":"#/$defs/d"}}}`, []string{`{"a":2.0}`, `{"a":-2.5}`, `{"a":1}`, `{}`}},
	{`{"type":"integer"}`, []string{`1`, `1.0`, `1.5`, `"a"`}},
	// anyOf-false-member-second-validator (found by the thorough tier)
	{`{"properties":{"a":{"anyOf":[{"minimum":2},{"maxLength":0}]}},"patternProperties":{"^a":{"anyOf":[{"maxLength":3},false]}}}`, []string{`{"a":0}`, `{"a":"xxxx"}`, `{"b":1}`}},
	{`{"type":["integer","number"]}`, []string{`1`, `1.5`}},
	{`{"const":1}`, []string{`1`, `1.0`, `2`}},
	{`{"enum":[1.0,"a"]}`, []string{`1`, `1.0`, `"a"`}},
	{`{"uniqueItems":true}`, []string{`[1,1.0]`, `[1,2]`, `[1,1]`, `[{"a":1,"b":2},{"b":2,"a":1}]`}},
	{`{"propertyNames":{"pattern":"^a"}}`, []string{`{"a":1}`, `{"b":1}`, `{}`}},
	{`{"propertyNames":false}`, []string{`{}`, `{"a":1}`, `1`}},
	{`{"allOf":[true,{"minimum":3},{"maximum":5}]}`, []string{`4`, `1`, `"a"`}},
	{`{"allOf":[{"type":"number"},{"minimum":3}]}`, []string{`4`, `1`, `"a"`}},
	{`{"allOf":[{"type":"string"},false]}`, []string{`""`, `1`}},
	{`{"properties":{"x":{"oneOf":[false]}}}`, []string{`{"x":1}`, `{}`}},
	{`{"oneOf":[{"type":"number"},{"minimum":3}]}`, []string{`1`, `5`, `"a"`}},
	{`{"anyOf":[{"type":"number"},{"minimum":3}]}`, []string{`1`, `5`, `"a"`}},
	{`{"not":{"not":{"type":"number"}}}`, []string{`1`, `"a"`}},
	{`{"if":{"not":{}},"then":{"not":{}},"else":{"type":"number"}}`, []string{`1`, `"a"`}},
	{`{"if":{"type":"number"},"then":{"minimum":3},"else":{"type":"string"}}`, []string{`1`, `5`, `"a"`, `null`}},
	{`{"properties":{"a":{"if":false,"else":{"type":"string"}}}}`, []string{`{"a":1}`, `{"a":"x"}`}},
	{`{"items":{"if":{"const":10},"then":{"enum":[true,null]}}}`, []string{`[1]`, `[10]`}},
	{`{"enum":[{},3],"minimum":-1}`, []string{`{"c":null}`, `{}`, `3`}},
	{`{"additionalProperties":false,"allOf":[{"pattern":"^$"}]}`, []string{`{"ab":null}`, `{}`}},
	{`{"additionalProperties":false,"required":["a"]}`, []string{`{"a":1}`, `{}`}},
	{`{"contains":{"minProperties":1}}`, []string{`[{}]`, `[{"a":1}]`}},
	{`{"enum":[{"a":null},null,{}]}`, []string{`{}`, `{"a":null}`, `null`}},
	{`{"$defs":{"d":{"maxProperties":2}},"$ref":"#/$defs/d"}`, []string{`{"a":1}`, `{}`}},
	{`{"$defs":{"d":{"maxItems":1}},"$ref":"#/$defs/d"}`, []string{`[[]]`, `[1]`, `[1,2]`}},
	{`{"properties":{"a":{"type":"string"}},"patternProperties":{"^a":{"minLength":2}},"additionalProperties":false}`, []string{`{"a":"x"}`, `{"a":"xx"}`, `{"ab":"xx"}`, `{"b":1}`, `{"ab":1}`}},
	{`{"properties":{"a":true},"patternProperties":{"^a":true},"additionalProperties":{"type":"number"}}`, []string{`{"a":"x","ab":"y","b":1}`, `{"b":"x"}`}},
	{`{"minLength":2,"maxLength":2}`, []string{`"a"`, `"ab"`, `"😀"`, `"😀😀"`, `"😀😀😀"`, `1`}},
	{`{"$defs":{"t":{"properties":{"c":{"$ref":"#/$defs/t"},"v":{"type":"number"}}}},"$ref":"#/$defs/t"}`, []string{`{"c":{"c":{"v":1}}}`, `{"c":{"c":{"v":"x"}}}`}},
	{`{"properties":{"c":{"$ref":"#"},"v":{"type":"number"}}}`, []string{`{"c":{"c":{"v":1}}}`, `{"c":{"c":{"v":"x"}}}`}},
	{`{"multipleOf":0.1}`, []string{`0.3`, `1`, `0.35`}},
	{`{"required":["a"],"properties":{"a":{"type":"string"}}}`, []string{`{}`, `{"a":"x"}`, `{"a":1}`, `1`}},
	{`{"items":{"type":"number"},"minItems":1,"maxItems":2,"contains":{"minimum":2}}`, []string{`[]`, `[1]`, `[2]`, `[1,2,3]`, `["a"]`, `{}`}},
}

type c13Witness struct {
	theorem, class, schema, inst, want string
}

// witnesses of the Lean theorems that state a defect (`*_false`), replayed on the real importer
var c13Witnesses = []c13Witness{
	{"C13_allOf_enc_false", "allOf-member-without-constraints", `{"allOf":[true,{"minimum":3},{"maximum":5}]}`, `4`, "true"},
	{"C13_type_step_false_literal", "number-literal-form", `{"type":"integer"}`, `1.0`, "true"},
	{"C13_type_step_false_both", "type-integer-and-number", `{"type":["integer","number"]}`, `1.5`, "true"},
}

// observations OUTSIDE the property's keyword subset (prefixItems is not in the quantifier): the
// Lean witness is replayed on the real importer and the outcome only counted/logged
var c13Observations = []c13Witness{
	{"C13_prefixItems_presence_false", "prefixItems-requires-presence", `{"prefixItems":[{"type":"string"}]}`, `[]`, "true"},
}

// ---- shapes ------------------------------------------------------------------------------------

func flattenBin(e ast.Expr, op token.Token, out *[]ast.Expr) {
	if p, ok := e.(*ast.ParenExpr); ok {
		e = p.X
	}
	if b, ok := e.(*ast.BinaryExpr); ok && b.Op == op {
		flattenBin(b.X, op, out)
		flattenBin(b.Y, op, out)
		return
	}
	*out = append(*out, e)
}

func leftmostAtom(e ast.Expr) ast.Expr {
	for {
		switch x := e.(type) {
		case *ast.ParenExpr:
			e = x.X
		case *ast.BinaryExpr:
			e = x.X
		default:
			return e
		}
	}
}

// isEnumConjunct: a disjunction of concrete literals (the skeleton cases never put null in enum)
func isEnumConjunct(e ast.Expr) bool {
	a := leftmostAtom(e)
	if l, ok := a.(*ast.BasicLit); ok {
		switch l.Kind {
		case token.INT, token.FLOAT, token.STRING, token.TRUE, token.FALSE:
			return true
		}
	}
	return false
}

func atomShape(e ast.Expr) string {
	switch x := e.(type) {
	case *ast.ParenExpr:
		return atomShape(x.X)
	case *ast.BasicLit:
		if x.Kind == token.NULL {
			return "null"
		}
		return "?lit"
	case *ast.Ident:
		switch x.Name {
		case "bool", "number", "string":
			return x.Name
		case "int":
			return "C:number"
		case "_":
			return "_"
		}
		return "?ident:" + x.Name
	case *ast.ListLit:
		if len(x.Elts) == 1 {
			if el, ok := x.Elts[0].(*ast.Ellipsis); ok && el.Type == nil {
				return "[...]"
			}
		}
		return "C:[...]"
	case *ast.StructLit:
		if len(x.Elts) == 1 {
			if el, ok := x.Elts[0].(*ast.Ellipsis); ok && el.Type == nil {
				return "{...}"
			}
		}
		return "C:{...}"
	case *ast.UnaryExpr:
		switch x.Op {
		case token.MAT, token.NMAT:
			return "C:string"
		}
		return "C:number"
	case *ast.CallExpr:
		if sel, ok := x.Fun.(*ast.SelectorExpr); ok {
			if id, ok := sel.X.(*ast.Ident); ok {
				switch id.Name {
				case "strings":
					return "C:string"
				case "list":
					return "C:[...]"
				case "struct":
					return "C:{...}"
				case "math":
					return "C:number"
				}
			}
		}
		if id, ok := x.Fun.(*ast.Ident); ok {
			switch id.Name {
			case "close":
				return "C:{...}"
			case "error":
				return "!"
			}
		}
		return "?call"
	case *ast.BinaryExpr:
		if x.Op == token.AND {
			var cs []ast.Expr
			flattenBin(x, token.AND, &cs)
			var parts []string
			for _, c := range cs {
				parts = append(parts, atomShape(c))
			}
			return strings.Join(parts, "&")
		}
	}
	return "?expr"
}

// shapeOfTop: for the skeleton cases the extracted file is `{"p"?: <expr>, ...}`; render <expr>.
func shapeOfTop(top ast.Expr) string {
	var e ast.Expr
	if st, ok := top.(*ast.StructLit); ok {
		for _, d := range st.Elts {
			if f, ok := d.(*ast.Field); ok {
				if name, _, err := ast.LabelName(f.Label); err == nil && name == "p" {
					e = f.Value
				}
			}
		}
	}
	if e == nil {
		return "no-field-p"
	}
	if id, ok := e.(*ast.Ident); ok && id.Name == "_" {
		return "_"
	}
	if c, ok := e.(*ast.CallExpr); ok {
		if id, ok := c.Fun.(*ast.Ident); ok && id.Name == "error" {
			return "!"
		}
	}
	var conj []ast.Expr
	flattenBin(e, token.AND, &conj)
	// the all-constraints (enum disjunctions of literals) come first; what follows is the type
	// disjunction, or — when a single type is left — the conjunction of its constraints
	var parts []string
	nA := 0
	for nA < len(conj) && isEnumConjunct(conj[nA]) {
		parts = append(parts, "A")
		nA++
	}
	rest := conj[nA:]
	if len(rest) > 0 {
		if len(rest) == 1 {
			var ds []ast.Expr
			flattenBin(rest[0], token.OR, &ds)
			var dparts []string
			for _, d := range ds {
				dparts = append(dparts, atomShape(d))
			}
			parts = append(parts, "("+strings.Join(dparts, "|")+")")
		} else {
			var dparts []string
			for _, d := range rest {
				dparts = append(dparts, atomShape(d))
			}
			parts = append(parts, "("+strings.Join(dparts, "&")+")")
		}
	}
	return strings.Join(parts, "&")
}
