package main

// C01 — the REFERENCES stream: several references to same-labelled arcs of DIFFERENT structs /
// definitions meeting at one node with different constraints, the same vertex reached through
// different paths, a vertex referenced both directly and through an embedding, references
// whose arcs are shared structure. Built for the idempotence cache of scheduleVertexConjuncts
// (arcMap), structure sharing and closedness bookkeeping.
//
//   #A: {x: {a: int}}        #B: {x: {a: <5, b?: string}}       A: {x: …}  B: {x: …}
//   C: #A   D: {A}   (aliases: same vertex, other path / through an embedding)
//   y: #A.x & #B.x & {a: 7}      z: {A.x, b: "s"} & B.x      w: C.x & #A.x     u: {p: A.x, q: B.x, r: p & q}
//
// (a) direct predicate under every rearrangement (stream "refs");
// (b) O-level: for references to REGULAR fields of non-definitions a reference is its value,
//     so `y: A.x & B.x & e` is compared with the model's eval of `ea & eb & e` — for the program
//     as generated and for rearrangements of it (the model's answer is proved invariant).

import (
	"fmt"
	"strings"

	"cuelang.org/go/cue"
	"cuelang.org/go/cue/build"
	"cuelang.org/go/cue/cuecontext"
	"cuelang.org/go/internal/core/eval"
	"cuelang.org/go/internal/value"
)

type c1refgen struct{ r *Rng }

func (g *c1refgen) intC() string {
	if g.r.Chance(1, 20) {
		return "7"
	}
	return Pick(g.r, []string{"int", "int", "<5", ">0", "1", "1", ">=1 & <=3", "number", "<=1", "_"})
}

func (g *c1refgen) strC() string {
	if g.r.Chance(1, 20) {
		return `"t"`
	}
	return Pick(g.r, []string{"string", `"s"`, `"s"`, `=~"^s"`, `!="t"`, "_"})
}

func (g *c1refgen) mark() string {
	switch g.r.Intn(12) {
	case 0, 1, 2:
		return "?"
	case 3:
		return "!"
	}
	return ""
}

// body: a struct literal over a (ints), b (strings), c (nested), l (list).
func (g *c1refgen) body(depth int) string {
	var ds []string
	n := 1 + g.r.Intn(3)
	for i := 0; i < n; i++ {
		switch w := g.r.Intn(10); {
		case w < 5:
			ds = append(ds, "a"+g.mark()+": "+g.intC())
		case w < 8:
			ds = append(ds, "b"+g.mark()+": "+g.strC())
		case w < 9 && depth > 0:
			ds = append(ds, "c"+g.mark()+": "+g.body(depth-1))
		default:
			ds = append(ds, "l: "+Pick(g.r, []string{"[int]", "[1]", "[...int]", "[1, ...]", "[<5]"}))
		}
	}
	if g.r.Chance(1, 10) {
		ds = append(ds, "...")
	}
	s := "{" + strings.Join(ds, ", ") + "}"
	if g.r.Chance(1, 25) {
		s = "close(" + s + ")"
	}
	return s
}

func (g *c1refgen) Program() string {
	var lines []string
	var refs []string // expressions denoting an `x`-like struct
	holders := []string{"#A", "#B", "A", "B"}
	Shuffle(g.r, holders)
	holders = holders[:2+g.r.Intn(2)]
	for _, h := range holders {
		fields := []string{"x: " + g.body(1)}
		refs = append(refs, h+".x")
		if g.r.Chance(1, 3) {
			fields = append(fields, "y: "+g.body(1))
			refs = append(refs, h+".y")
		}
		lines = append(lines, h+": {"+strings.Join(fields, ", ")+"}")
	}
	// aliases: the same vertex through another path / through an embedding / unified with {}
	for i, h := range holders {
		if !g.r.Chance(1, 2) {
			continue
		}
		name := string(rune('C' + i))
		switch g.r.Intn(4) {
		case 0, 1:
			lines = append(lines, name+": "+h)
		case 2:
			lines = append(lines, name+": {"+h+"}")
		default:
			lines = append(lines, name+": "+h+" & {}")
		}
		refs = append(refs, name+".x")
	}
	// a definition's struct-valued field reached BOTH through the definition and through a
	// regular field that is just a reference to it (shared vertex), unified at one node in a
	// random order with an extra undeclared field from a literal or from a further declaration
	for _, h := range holders {
		if !strings.HasPrefix(h, "#") || !g.r.Chance(2, 3) {
			continue
		}
		al := "S" + h[1:]
		lines = append(lines, al+": "+h)
		ops := []string{al + ".x", h + ".x"}
		extra := Pick(g.r, []string{"{d: 1}", "{d: _}", "{d?: 1}", "{d: {}}", "{a: _, d: 1}"})
		name := "s" + strings.ToLower(h[1:])
		switch g.r.Intn(4) {
		case 0:
			ops = append(ops, extra)
			Shuffle(g.r, ops)
			lines = append(lines, name+": "+strings.Join(ops, " & "))
		case 1:
			Shuffle(g.r, ops)
			lines = append(lines, name+": "+ops[0], name+": "+ops[1], name+": "+extra)
		case 2:
			Shuffle(g.r, ops)
			lines = append(lines, name+": "+ops[0]+" & ("+ops[1]+" & "+extra+")")
		default:
			Shuffle(g.r, ops)
			lines = append(lines, name+": ("+ops[0]+" & "+extra+") & "+ops[1])
		}
	}
	pick := func() string { return Pick(g.r, refs) }
	uses := 2 + g.r.Intn(3)
	names := []string{"y", "z", "w", "v", "u"}
	for i := 0; i < uses; i++ {
		n := names[i]
		switch g.r.Intn(9) {
		case 0:
			lines = append(lines, fmt.Sprintf("%s: %s & %s", n, pick(), pick()))
		case 1:
			extra := g.body(0)
			if g.r.Chance(1, 2) {
				// an extra, undeclared field to observe closedness
				extra = Pick(g.r, []string{"{d: 1}", "{d: 1, a: _}", "{d?: 1}", "{d: {}}"})
			}
			lines = append(lines, fmt.Sprintf("%s: %s & %s & %s", n, pick(), pick(), extra))
		case 2:
			lines = append(lines, fmt.Sprintf("%s: %s", n, pick()), fmt.Sprintf("%s: %s", n, pick()))
			if g.r.Chance(1, 2) {
				lines = append(lines, fmt.Sprintf("%s: d: 1", n))
			}
		case 3:
			lines = append(lines, fmt.Sprintf("%s: {%s, a: %s}", n, pick(), g.intC()))
		case 4:
			lines = append(lines, fmt.Sprintf("%s: {%s} & %s", n, pick(), pick()))
		case 5:
			r := pick()
			lines = append(lines, fmt.Sprintf("%s: %s & %s", n, r, r))
		case 6:
			lines = append(lines, fmt.Sprintf("%s: [%s, %s]", n, pick(), pick()))
		case 7:
			lines = append(lines, fmt.Sprintf("%s: {p: %s, q: %s, r: p & q}", n, pick(), pick()))
		default:
			lines = append(lines, fmt.Sprintf("%s: %s & %s & %s", n, pick(), pick(), pick()))
		}
	}
	return strings.Join(lines, "\n") + "\n"
}

// ---- O-level: references inlined in the model ------------------------------------------------

func c1mHasClose(e *c1mx) bool {
	if e.op == 'c' {
		return true
	}
	for _, a := range e.args {
		if c1mHasClose(a) {
			return true
		}
	}
	for _, d := range e.decls {
		if c1mHasClose(d.v) {
			return true
		}
	}
	return false
}

// c1mImplTexts evaluates the file(s) and projects the value at y.
func c1mImplTexts(texts []string) (ans string) {
	defer func() {
		if e := recover(); e != nil {
			ans = "panic"
		}
	}()
	ctx := cuecontext.New()
	var v cue.Value
	if len(texts) == 1 {
		v = ctx.CompileString(texts[0])
	} else {
		inst := &build.Instance{}
		for i, t := range texts {
			f, err := c1parse(t)
			if err != nil {
				return "parse-error"
			}
			f.Filename = fmt.Sprintf("f%d.cue", i)
			inst.AddSyntax(f)
		}
		v = ctx.BuildInstance(inst)
	}
	v = v.LookupPath(cue.ParsePath("y"))
	if !v.Exists() {
		return "bot"
	}
	r, vx := value.ToInternal(v)
	s, _ := c1mProject(eval.NewContext(r, vx), r, vx)
	return s
}

func c1ModelRefOps(c *Cfg, r *Rng) {
	n := c.Pick(800, 4000)
	g := &c1mgen{r: r}
	kinds := c1kinds("perm", "comm", "assoc", "dup", "top", "split", "merge", "files")
	and := func(a, b *c1mx) *c1mx { return &c1mx{op: '&', args: []*c1mx{a, b}} }
	for i := 0; i < n; i++ {
		ea, eb, ec := g.structExpr(1, true), g.structExpr(1, true), g.structExpr(1, true)
		bang := map[int]bool{}
		c1mBang(bang, ea, eb, ec)
		ea, eb, ec = c1mSanitize(ea, bang), c1mSanitize(eb, bang), c1mSanitize(ec, bang)
		cueOf := func(e *c1mx) string {
			var sb strings.Builder
			e.cue(&sb)
			return sb.String()
		}
		var ydecl []string
		var model *c1mx
		form := g.r.Intn(6)
		if form == 3 && (c1mHasClose(ea) || c1mHasClose(eb)) {
			form = 0
		}
		switch form {
		case 0:
			ydecl, model = []string{"y: A.x & B.x & " + cueOf(ec)}, and(and(ea, eb), ec)
		case 1:
			ydecl, model = []string{"y: D.x & A.x"}, and(ea, ea)
		case 2:
			ydecl, model = []string{"y: A.x & " + cueOf(ec) + " & B.x"}, and(and(ea, ec), eb)
		case 3:
			ydecl, model = []string{"y: {A.x} & B.x"}, and(ea, eb)
		case 4:
			ydecl, model = []string{"y: A.x", "y: B.x"}, and(ea, eb)
		default:
			ydecl, model = []string{"y: D.x & B.x & A.x"}, and(and(ea, eb), ea)
		}
		src := "A: {x: " + cueOf(ea) + "}\nB: {x: " + cueOf(eb) + "}\nD: A\n" + strings.Join(ydecl, "\n") + "\n"
		var toks []string
		model.tokens(&toks)
		line := "eval " + strings.Join(toks, " ")
		emit := func(texts []string) {
			ans := c1mImplTexts(texts)
			tag := ""
			if strings.Contains(ans, "!:bot") {
				tag = "closedness-check-skipped-next-to-bottom-required-field"
			}
			c.OpTag("O", tag, line, ans)
			c.Count("model-refs:" + map[bool]string{true: "bot", false: "value"}[ans == "bot"])
		}
		emit([]string{src})
		for j := 0; j < 2; j++ {
			texts, _, err := c1Rearrange(src, r.Sub(), kinds, 40)
			if err != nil {
				continue
			}
			emit(texts)
			c.Count("model-refs:rearranged")
		}
		c.Case(src, len(toks) > 6)
	}
}
