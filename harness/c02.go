package main

// C02 — parsing, compiling, evaluating and exporting never crash and are repeatable.
//
// Observed half (no model can exhibit it): every input runs through the whole pipeline in
// isolated worker processes (c02_worker.go): twice (or more) in one process with fresh
// contexts and once in ANOTHER process; a panic escaping the API, a dead worker (fatal
// error, stack overflow), a CPU-time or memory overrun, a deadlock, or any byte difference
// between the runs is a concrete failing input, minimised by delta debugging and tagged
// with a narrow class.  The same inputs (a sample) go through the real CLI entry point
// (cmd.Main: load → eval/export/vet), whose exit status must be 0 or 1.
//
// Proved half: errors.Sanitize and toposort.Graph.Sort against the Lean model (c02_mech.go).

import (
	"bytes"
	"fmt"
	"os"
	"os/exec"
	"path/filepath"
	"regexp"
	"runtime"
	"runtime/debug"
	"sort"
	"strconv"
	"strings"
	"sync"
	"syscall"
	"time"

	"cuelang.org/go/cmd/cue/cmd"
	"cuelang.org/go/cue/ast"
	"cuelang.org/go/cue/parser"
	"cuelang.org/go/cue/token"
)

func init() { props["C02"] = runC02 }

type c02Case struct {
	// cpuMs overrides the CPU budget of the run (0 = the tier's default)
	cpuMs  int
	id     int
	src    []byte
	origin string // seed name / generator
	kind   string // mutation kind or "program"
	runs   int
	// known: one of the hand-written idioms at the end of c02Idioms that are KNOWN to die of a
	// runaway recursion (known-findings.d/C02.txt; confirmed with Go's 1 GB default stack in
	// earlier rounds and again in every thorough run): the quick tier does not pay the thirty
	// CPU seconds of the 1 GB confirmation for them again
	known bool
}

type c02Failure struct {
	kind   string // panic | crash | stack-overflow | timeout | deadlock | memory | nondeterministic
	sig    string // recursion cycle of a stack overflow
	detail string
	src    []byte
	origin string
}

// c02Phase records wall and CPU time (this process + reaped children) of the phases of a run;
// printed to stderr and counted, so that the budget of the quick tier can be read off a run.
type c02PhaseTimer struct {
	c    *Cfg
	t0   time.Time
	cpu0 time.Duration
}

func c02AllCPU() time.Duration {
	var a, b syscall.Rusage
	syscall.Getrusage(syscall.RUSAGE_SELF, &a)
	syscall.Getrusage(syscall.RUSAGE_CHILDREN, &b)
	return time.Duration(a.Utime.Nano() + a.Stime.Nano() + b.Utime.Nano() + b.Stime.Nano())
}

func c02StartPhase(c *Cfg) *c02PhaseTimer {
	return &c02PhaseTimer{c: c, t0: time.Now(), cpu0: c02AllCPU()}
}

func (p *c02PhaseTimer) done(name string) {
	w, u := time.Since(p.t0), c02AllCPU()-p.cpu0
	fmt.Fprintf(os.Stderr, "C02-PHASE %-10s wall %6.1fs cpu %7.1fs\n", name, w.Seconds(), u.Seconds())
	p.c.Count(fmt.Sprintf("phase/%s/wall-s=%d/cpu-s=%d", name, int(w.Seconds())/10*10, int(u.Seconds())/20*20))
	p.t0, p.cpu0 = time.Now(), c02AllCPU()
}

func runC02(c *Cfg) {
	switch {
	case c.Replay == "worker":
		c02Worker()
		return
	case strings.HasPrefix(c.Replay, "cli:"):
		// act as the cue command: `<self> C02 -replay cli:<cmd> -out <dir>` runs
		// `cue <cmd> <args from C02_CLI_ARGS>` in the current directory
		if n, err := strconv.Atoi(os.Getenv("C02_MAXSTACK")); err == nil && n > 0 {
			debug.SetMaxStack(n)
		}
		if ms, err := strconv.Atoi(os.Getenv("C02_CLI_CPUMS")); err == nil && ms > 0 {
			// the same CPU-time watchdog as in the workers: a command that spins is stopped
			// with exit status 98 after its CPU budget, whatever the load of the machine
			go func() {
				for {
					time.Sleep(20 * time.Millisecond)
					if c02CPU() > time.Duration(ms)*time.Millisecond {
						fmt.Fprintln(os.Stderr, "C02-WATCHDOG: CPU time above limit")
						os.Exit(c02ExitTime)
					}
				}
			}()
		}
		args := strings.Split(os.Getenv("C02_CLI_ARGS"), "\x1f")
		os.Args = append([]string{"cue"}, args...)
		os.Exit(cmd.Main())
	}
	root := NewRng(c.Seed).Sub()
	repo := os.Getenv("VERIF_REPO")
	if repo == "" {
		repo = "/repo"
	}
	t0 := time.Now()

	// C02_ONLY (development aid): comma list of the streams to run: mech,scan,vf,pipe,cli
	only := os.Getenv("C02_ONLY")
	want := func(s string) bool { return only == "" || strings.Contains(","+only+",", ","+s+",") }

	// ---- the two mechanisms against the Lean model --------------------------------
	ph := c02StartPhase(c)
	rs1, rs2 := root.Sub(), root.Sub()
	// The mechanism / scanner / graph-construction streams are single-threaded and in-process;
	// they run next to the pipeline workers (c.Op, c.Direct, c.Count are serialised by Cfg).
	var aux sync.WaitGroup
	aux.Add(1)
	go func() {
		defer aux.Done()
		pm := c02StartPhase(c)
		if want("mech") {
			c02RunSanitize(c, rs1)
			c02RunToposort(c, rs2)
			pm.done("mech")
		}
		// streams added later draw from roots of their own, so that the cases of the older
		// streams stay what they were for a given seed
		if want("scan") {
			c02RunScan(c, NewRng(c.Seed^0x5ca9).Sub())
			pm.done("scan")
		}
		if want("vf") {
			c02RunVF(c, NewRng(c.Seed^0x7f07).Sub())
			pm.done("vf")
		}
	}()
	defer aux.Wait()
	if !want("pipe") {
		return
	}

	// ---- pipeline cases -------------------------------------------------------------
	maxSize := c.Pick(4<<10, 64<<10)
	seeds := c02LoadSeeds(repo, maxSize)
	c.Count(fmt.Sprintf("seeds/%d", len(seeds)/1000*1000))
	nRaw := c.Pick(1100, 10000)
	nProg := c.Pick(1100, 10000)
	if c.Focus {
		nRaw, nProg = nRaw*2, nProg*2
	}
	var cases []*c02Case
	rr := root.Sub()
	// every run starts with the hand-written idioms (cycles, closedness, …) as they are
	for i, id := range c02Idioms {
		src := id
		for strings.Contains(src, "%s") {
			src = strings.Replace(src, "%s", "1", 1)
		}
		cases = append(cases, &c02Case{src: []byte(src), origin: fmt.Sprintf("idiom#%d", i), kind: "idiom", runs: 8,
			known: i >= len(c02Idioms)-c02KnownTail && !c.Thorough()})
	}
	// structure-sharing amplification (seeded change C02-b): a chain of structs each referring
	// k times to the level below is a DAG of depth·k edges for the evaluator; a stage that walks
	// it once per PATH instead of once per vertex costs k^depth.  The leaf is not concrete, so
	// the programs carry the marker comment c02SharedMarker, which makes the pipeline skip the
	// stages whose OUTPUT is the expanded tree (k^depth nodes: Final syntax, JSON, YAML, Walk);
	// parse, compile, evaluate, Validate, Validate(Concrete) and the reference-preserving
	// exports (All, Raw) remain, all of which are linear in the shared graph on the unchanged tree.
	for i, src := range c02SharingPrograms() {
		cases = append(cases, &c02Case{src: []byte(src), origin: fmt.Sprintf("sharing#%d", i), kind: "sharing", runs: 2})
	}
	for i, src := range c02LiteralPrefixes() {
		cases = append(cases, &c02Case{src: []byte(src), origin: fmt.Sprintf("literal-prefix#%d", i), kind: "literal-prefix", runs: 2})
	}
	// every prefix of every syntactic idiom + every suffix, raw bytes, NO newline appended; a
	// scanner/parser that does not come back on a few dozen bytes within 5 CPU seconds hangs
	for i, src := range c02SyntaxPrefixes() {
		cases = append(cases, &c02Case{src: []byte(src), origin: fmt.Sprintf("syntax-prefix#%d", i), kind: "syntax-prefix", runs: 2, cpuMs: 5000})
	}
	for i := 0; i < nRaw && len(seeds) > 0; i++ {
		r := rr.Sub()
		s := Pick(r, seeds)
		o := Pick(r, seeds)
		src, kind := c02Mutate(r, s.Src, o.Src, maxSize)
		// a mutation of a mutation now and then
		for r.Chance(1, 4) {
			var k2 string
			src, k2 = c02Mutate(r, src, o.Src, maxSize)
			kind += "+" + k2
			if strings.Count(kind, "+") > 2 {
				break
			}
		}
		// the end of input is never normalised; a third of the raw cases additionally lose
		// their final newline(s), so that every construct also occurs AT the end of input
		if r.Chance(1, 3) {
			src = bytes.TrimRight(src, "\r\n")
			kind += "+no-final-newline"
		}
		cases = append(cases, &c02Case{src: src, origin: s.Name, kind: kind, runs: 2})
	}
	rp := root.Sub()
	for i := 0; i < nProg; i++ {
		r := rp.Sub()
		p, feat := c02Program(r)
		var fs []string
		for f := range feat {
			fs = append(fs, f)
		}
		sort.Strings(fs)
		for _, f := range fs {
			c.Count("program-feature/" + f)
		}
		cases = append(cases, &c02Case{src: []byte(p), origin: "generated", kind: "program", runs: 6})
	}
	for i, cs := range cases {
		cs.id = i
	}
	ph.done("generate")

	cpuMs := c.Pick(20000, 40000)
	c02CLICPUms = cpuMs
	pool := &c02Pool{dir: filepath.Join(c.Out, "workers"), wall: time.Duration(c.Pick(60, 120)) * time.Second}
	defer pool.closeAll()
	workers := min(runtime.NumCPU(), 16)
	var mu sync.Mutex
	var failures []*c02Failure
	var wg sync.WaitGroup
	next := make(chan *c02Case, 256)
	var cliSample []*c02Case
	for w := 0; w < workers; w++ {
		wg.Add(1)
		go func() {
			defer wg.Done()
			for cs := range next {
				f, stage := c02RunCase(pool, cs, cpuMs)
				c.Count("stage/" + stage)
				c.Count("input/" + strings.SplitN(cs.kind, "+", 2)[0])
				c.Case(string(cs.src), stage != "parse-error")
				if f != nil {
					mu.Lock()
					failures = append(failures, f)
					mu.Unlock()
				} else {
					c.Direct(true, "", "", nil)
				}
			}
		}()
	}
	// ---- the CLI entry point on a sample, next to the pipeline workers -------------------
	// every hand-written idiom, and evenly spaced samples of the three other families
	// (truncated literals / syntax idioms, mutated corpus files, generated programs)
	{
		fam := map[string][]*c02Case{}
		for _, cs := range cases {
			switch cs.kind {
			case "idiom":
				cliSample = append(cliSample, cs)
			case "sharing":
				// pipeline only (the CLI commands print the expanded tree, which is k^depth nodes)
			case "literal-prefix", "syntax-prefix":
				fam["prefix"] = append(fam["prefix"], cs)
			case "program":
				fam["program"] = append(fam["program"], cs)
			default:
				fam["raw"] = append(fam["raw"], cs)
			}
		}
		for _, q := range []struct {
			name string
			n    int
		}{{"prefix", c.Pick(6, 100)}, {"raw", c.Pick(10, 220)}, {"program", c.Pick(10, 220)}} {
			l := fam[q.name]
			for k := 0; k < q.n && k < len(l); k++ {
				cliSample = append(cliSample, l[k*len(l)/q.n])
			}
		}
	}
	// the hand-written idioms (among them the known crashes, the longest-running commands) go
	// FIRST so that they do not form the tail of the run; their failures do not count towards
	// the cap after which further CLI cases are skipped
	var cliFailures []*c02Failure
	var cliWG sync.WaitGroup
	if want("cli") {
		cliWG.Add(1)
		go func() {
			defer cliWG.Done()
			pc := c02StartPhase(c)
			cliFailures = c02RunCLI(c, pool, cliSample)
			pc.done("cli")
		}()
	}
	for i, cs := range cases {
		pool.mu.Lock()
		settled := pool.confirmed >= 8 && pool.skipped > 40
		pool.mu.Unlock()
		if settled {
			// 8 confirmed and 40 more dead workers: the verdict is settled, every further
			// dying case only costs its CPU budget
			c.Count(fmt.Sprintf("cases-not-run-after-verdict-settled/%d", len(cases)-i))
			break
		}
		next <- cs
	}
	close(next)
	wg.Wait()
	ph.done("pipeline")
	c02PrintCPU()
	c.Count(fmt.Sprintf("workers-started/%d", pool.started))
	if pool.skipped > 0 {
		c.Count(fmt.Sprintf("worker-deaths-not-confirmed-after-8-confirmed/%d", pool.skipped))
	}
	cliWG.Wait()
	failures = append(failures, cliFailures...)

	// ---- minimise, classify, report ---------------------------------------------------
	c02Report(c, pool, failures, cpuMs)
	ph.done("report")
	c.Count(fmt.Sprintf("wall-seconds/%d", int(time.Since(t0).Seconds())/30*30))
}

// c02RunCase runs one input: `runs` times in one worker and once in another process, and
// compares all digests.
func c02RunCase(pool *c02Pool, cs *c02Case, cpuMs int) (*c02Failure, string) {
	// the budget is per pipeline run-pair: a request of 6 or 8 runs gets proportionally more
	if cs.cpuMs > 0 {
		cpuMs = cs.cpuMs
	}
	rq := &c02Req{ID: cs.id, Src: cs.src, Runs: cs.runs, CPUms: cpuMs * max(1, cs.runs/2), Known: cs.known}
	fail := func(kind, detail string) *c02Failure {
		return &c02Failure{kind: kind, detail: detail, src: cs.src, origin: cs.origin + " [" + cs.kind + "]"}
	}
	if cs.known {
		// a known runaway recursion (quick tier): one run, alone in a fresh process with a 32 MB
		// stack limit (two CPU seconds instead of the thirty-odd of the ordinary path: 128 MB
		// overflow in a shared worker, confirmation alone, first of its cycle with 1 GB). If the
		// input does NOT die any more it takes the ordinary path below.
		o := pool.AskFresh(&c02Req{ID: cs.id, Src: cs.src, Runs: 1, CPUms: cpuMs}, "C02_MAXSTACK=33554432")
		if o.Kind != "" {
			pool.firstBigStack(o.Sig)
			pool.mu.Lock()
			pool.confirmedKnown++
			pool.mu.Unlock()
			f := fail(o.Kind, o.Detail)
			f.sig = o.Sig
			return f, "died"
		}
	}
	o := pool.Ask(rq)
	if strings.HasPrefix(o.Kind, "skipped:") {
		pool.mu.Lock()
		pool.skipped++
		pool.mu.Unlock()
		return nil, "died-unconfirmed"
	}
	if strings.HasPrefix(o.Kind, "unconfirmed:") {
		// the worker died or hung but the case alone in a fresh worker was fine: not a
		// failing input (another case of that worker may have damaged it; machine load)
		o.Kind = ""
	}
	if o.Kind != "" {
		f := fail(o.Kind, o.Detail)
		f.sig = o.Sig
		return f, "died"
	}
	rs := o.Resp
	c02NoteCPU(strings.SplitN(cs.kind, "+", 2)[0], rs.CPUms)
	if rs.Panic != "" {
		return fail("panic", rs.Panic), rs.Stage
	}
	for _, d := range rs.Digests[1:] {
		if d != rs.Digests[0] {
			return fail("nondeterministic", "two runs in one process differ: "+c02Diff(rs.Out, rs.Out2)), rs.Stage
		}
	}
	// another process
	rq2 := &c02Req{ID: cs.id, Src: cs.src, Runs: 1, CPUms: cpuMs, Full: false}
	o2 := pool.Ask(rq2)
	if o2.Kind == "" && o2.Resp.Digests[0] != rs.Digests[0] {
		// fetch both texts for the report
		a := pool.Ask(&c02Req{ID: cs.id, Src: cs.src, Runs: 1, CPUms: cpuMs, Full: true})
		b := pool.Ask(&c02Req{ID: cs.id, Src: cs.src, Runs: 1, CPUms: cpuMs, Full: true})
		d := "digests differ"
		if a.Resp != nil && b.Resp != nil {
			d = c02Diff(a.Resp.Out, b.Resp.Out)
		}
		return fail("nondeterministic", "runs in two processes differ: "+d), rs.Stage
	}
	return nil, rs.Stage
}

var (
	c02KindCPUMu sync.Mutex
	c02KindCPU   = map[string]int64{}
	c02KindN     = map[string]int64{}
	c02KindMax   = map[string]int64{}
)

// c02NoteCPU accumulates the workers' CPU time per input kind (printed with the phases)
func c02NoteCPU(kind string, ms int64) {
	c02KindCPUMu.Lock()
	c02KindCPU[kind] += ms
	c02KindN[kind]++
	c02KindMax[kind] = max(c02KindMax[kind], ms)
	c02KindCPUMu.Unlock()
}

func c02PrintCPU() {
	c02KindCPUMu.Lock()
	defer c02KindCPUMu.Unlock()
	var ks []string
	for k := range c02KindCPU {
		ks = append(ks, k)
	}
	sort.Strings(ks)
	for _, k := range ks {
		fmt.Fprintf(os.Stderr, "C02-CPU %-16s n=%5d cpu %7.1fs max %5.1fs\n", k, c02KindN[k], float64(c02KindCPU[k])/1000, float64(c02KindMax[k])/1000)
	}
}

// c02Diff shows the first differing line of two outputs.
func c02Diff(a, b string) string {
	la, lb := strings.Split(a, "\n"), strings.Split(b, "\n")
	for i := 0; i < len(la) && i < len(lb); i++ {
		if la[i] != lb[i] {
			sec := ""
			for j := i; j >= 0; j-- {
				if strings.HasPrefix(la[j], "## ") {
					sec = la[j]
					break
				}
			}
			return fmt.Sprintf("section %q line %d: %q vs %q", sec, i, c02Trunc(la[i], 120), c02Trunc(lb[i], 120))
		}
	}
	return fmt.Sprintf("lengths %d vs %d", len(a), len(b))
}

func c02Trunc(s string, n int) string {
	if len(s) > n {
		return s[:n] + "…"
	}
	return s
}

// ---- CLI ----------------------------------------------------------------------------

var c02GoTrace = regexp.MustCompile(`(?m)^(panic: |fatal error: |goroutine \d+ \[)`)

// c02CLIStack is the stack limit of the CLI runs: small, so that a runaway recursion costs two
// CPU seconds instead of thirty; the first stack overflow of every recursion cycle is
// confirmed with Go's default limit (c02CLIConfirm).
const c02CLIStack = 64 << 20

// c02CLICPUms: CPU budget of one CLI command (set from the tier in runC02)
var c02CLICPUms = 20000

// c02CLIConfirm reports whether a stack overflow seen with the small limit is real: the first
// one per recursion signature — over the worker pool and the CLI runs together — is re-run
// with the default 1 GB limit (known: see c02Case.known).
func c02CLIConfirm(pool *c02Pool, dir string, args []string, sig string, timeout time.Duration, known bool) bool {
	if sig == "" {
		return true
	}
	if !pool.firstBigStack(sig) || known {
		return true
	}
	code, _, se, to := c02CLIOnceStack(dir, args, 4*timeout, 1000000000)
	return !to && code == 2 && strings.Contains(se, "stack overflow")
}

func c02CLIOnce(dir string, args []string, timeout time.Duration) (code int, stdout, stderr string, timedOut bool) {
	return c02CLIOnceStack(dir, args, timeout, c02CLIStack)
}

func c02CLIOnceStack(dir string, args []string, timeout time.Duration, stack int) (code int, stdout, stderr string, timedOut bool) {
	cm := exec.Command(c02Self(), "C02", "-replay", "cli:"+args[0], "-out", dir)
	cm.Dir = dir
	cm.Env = append(os.Environ(), fmt.Sprintf("C02_MAXSTACK=%d", stack), fmt.Sprintf("C02_CLI_CPUMS=%d", c02CLICPUms), "C02_CLI_ARGS="+strings.Join(args, "\x1f"), "GOMEMLIMIT=1GiB", "GOMAXPROCS=2",
		"CUE_CACHE_DIR="+filepath.Join(dir, ".cache"), "HOME="+dir, "GOTRACEBACK=single")
	var so, se bytes.Buffer
	cm.Stdout, cm.Stderr = &so, &se
	if err := cm.Start(); err != nil {
		return -1, "", err.Error(), false
	}
	done := make(chan error, 1)
	go func() { done <- cm.Wait() }()
	select {
	case err := <-done:
		code = 0
		if ee, ok := err.(*exec.ExitError); ok {
			code = ee.ExitCode()
		} else if err != nil {
			code = -1
		}
	case <-time.After(timeout):
		cm.Process.Kill()
		<-done
		return -1, so.String(), se.String(), true
	}
	return code, so.String(), se.String(), false
}

func c02RunCLI(c *Cfg, pool *c02Pool, sample []*c02Case) []*c02Failure {
	var mu sync.Mutex
	var out []*c02Failure
	capped := 0 // failures of sampled (non-idiom) cases
	var wg sync.WaitGroup
	ch := make(chan *c02Case, 64)
	sample = append([]*c02Case(nil), sample...)
	sort.SliceStable(sample, func(i, j int) bool { return sample[i].kind == "idiom" && sample[j].kind != "idiom" })
	cmds := [][]string{{"eval", "-a", "in.cue"}, {"export", "--out", "json", "in.cue"}, {"export", "--out", "yaml", "in.cue"}, {"vet", "-c", "in.cue"}}
	if c.Thorough() {
		cmds = append(cmds, []string{"def", "in.cue"}, []string{"fmt", "--check", "in.cue"})
	}
	timeout := time.Duration(c.Pick(120, 240)) * time.Second
	for w := 0; w < min(runtime.NumCPU(), 16); w++ {
		wg.Add(1)
		go func(w int) {
			defer wg.Done()
			dir := filepath.Join(c.Out, "cli", fmt.Sprint(w))
			os.MkdirAll(dir, 0o777)
			for cs := range ch {
				mu.Lock()
				settled := capped >= 8
				mu.Unlock()
				if settled && cs.kind != "idiom" {
					// the verdict is settled; crashing CLI runs cost tens of CPU seconds each
					c.Count("cli/skipped-after-8-failures")
					continue
				}
				os.WriteFile(filepath.Join(dir, "in.cue"), cs.src, 0o666)
				for _, args := range cmds {
					stack := c02CLIStack
					if cs.known {
						stack = 32 << 20
					}
					code, so, se, to := c02CLIOnceStack(dir, args, timeout, stack)
					c.Count("cli/" + args[0] + fmt.Sprintf("/exit=%d", code))
					var f *c02Failure
					switch {
					case to:
						// wall-clock only: confirm with the CPU-budgeted worker path instead of
						// reporting (the machine may be loaded); the worker run of the same case
						// reports a genuine timeout
						c.Count("cli/wall-timeout")
					case code == c02ExitTime:
						f = &c02Failure{kind: "timeout", detail: fmt.Sprintf("cue %s: CPU time above %d ms", strings.Join(args, " "), c02CLICPUms), src: cs.src, origin: cs.origin + " [" + cs.kind + "]"}
					case strings.Contains(se, "stack overflow") && !c02CLIConfirm(pool, dir, args, c02RecursionSig(se), timeout, cs.known):
						// deep but finite recursion: fine with the default stack limit
						c.Count("cli/stack-overflow-only-with-small-stack")
					case code != 0 && code != 1 || c02GoTrace.MatchString(se):
						f = &c02Failure{kind: "cli-crash", sig: c02RecursionSig(se), detail: fmt.Sprintf("cue %s: exit %d: %s", strings.Join(args, " "), code, c02FirstLines(se, 10)), src: cs.src, origin: cs.origin + " [" + cs.kind + "]"}
					case !c.Thorough() && args[0] != "eval":
						// quick tier: the second run (same command, same input, another process) is
						// made for `eval -a` only; repeatability of the exporters is what the worker
						// pipeline compares in and across processes for EVERY case
					default:
						code2, so2, se2, to2 := c02CLIOnce(dir, args, timeout)
						if !to2 && (code2 != code || so2 != so || se2 != se) {
							f = &c02Failure{kind: "cli-nondeterministic", detail: fmt.Sprintf("cue %s: two runs differ: exit %d/%d; stdout %s; stderr %s", strings.Join(args, " "), code, code2, c02Diff(so, so2), c02Diff(se, se2)), src: cs.src, origin: cs.origin + " [" + cs.kind + "]"}
						}
					}
					if f != nil {
						mu.Lock()
						out = append(out, f)
						if cs.kind != "idiom" {
							capped++
						}
						mu.Unlock()
						c.Direct(true, "", "", nil) // counted; reported after minimisation
					} else {
						c.Direct(true, "", "", nil)
					}
				}
			}
		}(w)
	}
	for _, cs := range sample {
		ch <- cs
	}
	close(ch)
	wg.Wait()
	return out
}

// ---- minimisation and classification --------------------------------------------------

// c02Still reports whether src still fails in the same way.
func c02Still(c *Cfg, pool *c02Pool, f *c02Failure, src []byte, cpuMs int) bool {
	switch f.kind {
	case "cli-crash", "cli-nondeterministic":
		os.MkdirAll(filepath.Join(c.Out, "cli"), 0o777)
		dir, err := os.MkdirTemp(filepath.Join(c.Out, "cli"), "min")
		if err != nil {
			return false
		}
		defer os.RemoveAll(dir)
		os.WriteFile(filepath.Join(dir, "in.cue"), src, 0o666)
		args := strings.Fields(strings.SplitN(strings.TrimPrefix(f.detail, "cue "), ":", 2)[0])
		if f.kind == "cli-crash" {
			code, _, se, to := c02CLIOnce(dir, args, 120*time.Second)
			return !to && (code != 0 && code != 1 || c02GoTrace.MatchString(se))
		}
		var first string
		for i := 0; i < 24; i++ {
			code, so, se, to := c02CLIOnce(dir, args, 120*time.Second)
			if to {
				return false
			}
			s := fmt.Sprint(code) + so + se
			if i > 0 && s != first {
				return true
			}
			first = s
		}
		return false
	case "nondeterministic":
		o := pool.Ask(&c02Req{Src: src, Runs: 40, CPUms: cpuMs})
		if o.Kind != "" || o.Resp == nil {
			return false
		}
		for _, d := range o.Resp.Digests[1:] {
			if d != o.Resp.Digests[0] {
				return true
			}
		}
		return false
	case "panic":
		o := pool.Ask(&c02Req{Src: src, Runs: 1, CPUms: cpuMs})
		return o.Kind == "" && o.Resp != nil && o.Resp.Panic != "" && c02PanicSite(o.Resp.Panic) == c02PanicSite(f.detail)
	default:
		// timeouts are minimised with a smaller budget so that the loop finishes; the final
		// candidate is confirmed with the full budget by the caller
		budget := cpuMs
		if c02Resource[f.kind] {
			budget = cpuMs / 4
		}
		o := pool.AskFresh(&c02Req{Src: src, Runs: 1, CPUms: budget})
		// which resource gives out first depends on limits and load: any of them counts
		return o.Kind != "" && (o.Kind == f.kind || c02Resource[o.Kind] && c02Resource[f.kind])
	}
}

var c02Resource = map[string]bool{"timeout": true, "deadlock": true, "stack-overflow": true, "memory": true}

// c02PanicSite: the panic value and innermost frame without line-independent noise
func c02PanicSite(p string) string {
	if i := strings.Index(p, " < "); i >= 0 {
		p = p[:i]
	}
	return p
}

// c02Minimise: delta debugging, first on lines, then on bytes.
func c02Minimise(c *Cfg, pool *c02Pool, f *c02Failure, cpuMs int, budget time.Duration) []byte {
	t0 := time.Now()
	cur := f.src
	test := func(b []byte) bool {
		if time.Since(t0) > budget {
			return false
		}
		return c02Still(c, pool, f, b, cpuMs)
	}
	if !test(cur) {
		return cur // not reproducible in the minimiser's setting: keep as is
	}
	split := func(b []byte, byLine bool) [][]byte {
		if byLine {
			return bytes.SplitAfter(b, []byte("\n"))
		}
		out := make([][]byte, len(b))
		for i := range b {
			out[i] = b[i : i+1]
		}
		return out
	}
	for _, byLine := range []bool{true, false} {
		if !byLine && len(cur) > 3000 {
			continue
		}
		parts := split(cur, byLine)
		n := 2
		for len(parts) >= 2 && time.Since(t0) < budget {
			chunk := (len(parts) + n - 1) / n
			reduced := false
			for i := 0; i < len(parts); i += chunk {
				var cand [][]byte
				cand = append(cand, parts[:i]...)
				cand = append(cand, parts[min(i+chunk, len(parts)):]...)
				b := bytes.Join(cand, nil)
				if len(b) < len(cur) && test(b) {
					parts, cur = cand, b
					n = max(n-1, 2)
					reduced = true
					break
				}
			}
			if !reduced {
				if chunk == 1 {
					break
				}
				n = min(n*2, len(parts))
			}
		}
	}
	return cur
}

// c02Classify gives a failure a NARROW class.  Nondeterminism and resource failures (stack
// overflow, CPU time, memory, deadlock — which of these a runaway recursion ends in depends on
// the limits and on machine load) are classed by the CONSTRUCT of the minimised input when it
// is a recognised one, otherwise by the failure kind; panics by panic value + innermost frame.
func c02Classify(f *c02Failure, min []byte) string {
	switch f.kind {
	case "nondeterministic", "cli-nondeterministic":
		// no nondeterminism is a known finding any more (the "#D" vs #D field order was
		// repaired by 2c855f1; the inputs stay in the repeated-run stream)
		return f.kind
	case "cli-crash":
		if i := strings.Index(f.detail, "panic: "); i >= 0 && f.sig == "" && !strings.Contains(f.detail, "stack overflow") {
			msg := f.detail[i+len("panic: "):]
			for _, cut := range []string{" | ", " [recovered", "\n"} {
				if j := strings.Index(msg, cut); j >= 0 {
					msg = msg[:j]
				}
			}
			msg = regexp.MustCompile(`0x[0-9a-f]+`).ReplaceAllString(msg, "0x")
			msg = regexp.MustCompile(`[^A-Za-z0-9_.:()*\[\]-]+`).ReplaceAllString(msg, "_")
			return "cli-panic/" + c02Trunc(msg, 120)
		}
		return c02ClassifyResource(f, min)
	case "panic":
		site := c02PanicSite(f.detail)
		site = regexp.MustCompile(`0x[0-9a-f]+`).ReplaceAllString(site, "0x…")
		site = regexp.MustCompile(`[^A-Za-z0-9_.:()*\[\]-]+`).ReplaceAllString(site, "_")
		return "panic/" + c02Trunc(site, 140)
	default:
		return c02ClassifyResource(f, min)
	}
}

func c02ClassifyResource(f *c02Failure, min []byte) string {
	{
		// recognised constructs first (narrowest), then the recursion cycle of a stack overflow
		// (names the root cause; NOT used when it is the generic structural-expansion cycle,
		// which any lost cycle check would produce), then the bare failure kind
		if c02HasBoundWithRequired(min) {
			return "struct-embeds-ordered-bound-and-required-field"
		}
		if c02NaNLiteral.Match(min) {
			return "nan-literal-exponent-overflow"
		}
		if c02CloseOfEnclosing(min) {
			return "close-builtin-of-enclosing-field"
		}
		if f.sig != "" && f.sig != "adt.(*Vertex).unify+adt.(*nodeContext).completeAllArcs" {
			return "runaway-recursion/" + f.sig
		}
		return f.kind
	}
}

// c02SafeParse parses src in THIS process for the classification of a failing input — which
// may be an input on which the scanner or parser itself never returns (seeded change C02-a:
// the harness hung here, after having found and confirmed the hang in its workers). The parse
// runs in a goroutine that is abandoned after ten seconds (it keeps spinning until the process
// exits, shortly afterwards); a panic is swallowed. nil = no syntax tree.
func c02SafeParse(src []byte) *ast.File {
	ch := make(chan *ast.File, 1)
	go func() {
		defer func() {
			if recover() != nil {
				ch <- nil
			}
		}()
		f, _ := parser.ParseFile("in.cue", src)
		ch <- f
	}()
	select {
	case f := <-ch:
		return f
	case <-time.After(10 * time.Second):
		return nil
	}
}

// c02CloseOfEnclosing: a call close(X) (possibly close(X) & …) where X names a field that
// encloses the call (a structural cycle through the close builtin).
func c02CloseOfEnclosing(src []byte) bool {
	f := c02SafeParse(src)
	if f == nil {
		return false
	}
	found := false
	var stack []string
	var walk func(n ast.Node)
	walk = func(n ast.Node) {
		ast.Walk(n, func(n ast.Node) bool {
			switch x := n.(type) {
			case *ast.Field:
				name := ""
				switch l := x.Label.(type) {
				case *ast.Ident:
					name = l.Name
				case *ast.BasicLit:
					name = strings.Trim(l.Value, "\"")
				}
				stack = append(stack, name)
				walk(x.Value)
				stack = stack[:len(stack)-1]
				return false
			case *ast.CallExpr:
				if id, ok := x.Fun.(*ast.Ident); ok && id.Name == "close" && len(x.Args) == 1 {
					if a, ok := x.Args[0].(*ast.Ident); ok {
						for _, s := range stack {
							if s == a.Name {
								found = true
							}
						}
					}
				}
			}
			return true
		}, nil)
	}
	walk(f)
	return found
}

// c02NaNLiteral: a number literal whose exponent has 19 or more digits (|exponent| >= 2^63
// overflows and the literal silently evaluates to NaN)
var c02NaNLiteral = regexp.MustCompile(`[0-9.][eE][+-]?[0-9]{19,}`)

// c02HasBoundWithRequired: some struct literal (or the file) embeds an expression containing
// an ordered bound (< <= > >=) and declares a regular required field (`b!:`).
func c02HasBoundWithRequired(src []byte) bool {
	f := c02SafeParse(src)
	if f == nil {
		return false
	}
	found := false
	check := func(decls []ast.Decl) {
		bound, req := false, false
		for _, d := range decls {
			switch x := d.(type) {
			case *ast.EmbedDecl:
				ast.Walk(x.Expr, func(n ast.Node) bool {
					if u, ok := n.(*ast.UnaryExpr); ok {
						switch u.Op {
						case token.LSS, token.LEQ, token.GTR, token.GEQ:
							bound = true
						}
					}
					_, isStruct := n.(*ast.StructLit)
					return !isStruct
				}, nil)
			case *ast.Field:
				if x.Constraint == token.NOT {
					if id, ok := x.Label.(*ast.Ident); !ok || !strings.HasPrefix(id.Name, "_") && !strings.HasPrefix(id.Name, "#") {
						req = true
					}
				}
			}
		}
		if bound && req {
			found = true
		}
	}
	check(f.Decls)
	ast.Walk(f, func(n ast.Node) bool {
		if s, ok := n.(*ast.StructLit); ok {
			check(s.Elts)
		}
		return true
	}, nil)
	return found
}

func c02Report(c *Cfg, pool *c02Pool, failures []*c02Failure, cpuMs int) {
	// group by (kind, site) so that one defect hit 200 times is minimised once or twice
	groups := map[string][]*c02Failure{}
	var order []string
	for _, f := range failures {
		k := f.kind
		if f.kind == "panic" {
			k += c02PanicSite(f.detail)
		}
		if _, ok := groups[k]; !ok {
			order = append(order, k)
		}
		groups[k] = append(groups[k], f)
	}
	sort.Strings(order)
	perGroup := c.Pick(2, 6)
	budget := time.Duration(c.Pick(20, 90)) * time.Second
	// minimise in parallel (every test is a process of its own), report in a fixed order
	type item struct {
		f     *c02Failure
		min   []byte
		did   bool
		class string
	}
	var items []*item
	var wg sync.WaitGroup
	sem := make(chan struct{}, 8)
	for _, k := range order {
		fs := groups[k]
		sort.Slice(fs, func(i, j int) bool { return len(fs[i].src) < len(fs[j].src) })
		for i, f := range fs {
			it := &item{f: f, min: f.src}
			items = append(items, it)
			first := i < perGroup
			wg.Add(1)
			go func() {
				defer wg.Done()
				sem <- struct{}{}
				defer func() { <-sem }()
				// inputs of at most 48 bytes (the hand-written idioms) are not worth minimising
				if first && len(f.src) > 48 {
					it.min = c02Minimise(c, pool, f, cpuMs, budget)
					it.did = true
				}
				if f.sig == "" && c02Resource[f.kind] && first {
					// is the time/memory overrun a runaway recursion? a small stack tells, and names it
					o := pool.AskFresh(&c02Req{Src: it.min, Runs: 1, CPUms: cpuMs}, "C02_MAXSTACK=33554432")
					if o.Kind == "stack-overflow" {
						f.sig = o.Sig
					}
				}
				it.class = c02Classify(f, it.min)
			}()
		}
	}
	wg.Wait()
	for _, it := range items {
		c.Count("failure/" + it.class)
		c.Direct(false, it.class, fmt.Sprintf("%s: %s", it.f.kind, c02Trunc(it.f.detail, 600)),
			map[string]any{"input": string(it.min), "input_hex": H(string(it.min)), "minimised": it.did || len(it.f.src) <= 48, "original_bytes": len(it.f.src), "origin": it.f.origin})
	}
}

// c02SharedMarker (first line of a program) selects the pipeline without tree-expanding stages.
const c02SharedMarker = "// c02:shared-dag"

// c02SharingPrograms: small programs whose evaluated value is a heavily shared DAG.
func c02SharingPrograms() []string {
	var out []string
	gen := func(depth, k int, leaf string, fields []string) string {
		var b strings.Builder
		b.WriteString(c02SharedMarker + "\n")
		fmt.Fprintf(&b, "a0: %s\n", leaf)
		for n := 1; n <= depth; n++ {
			fmt.Fprintf(&b, "a%d: {", n)
			for j := 0; j < k; j++ {
				if j > 0 {
					b.WriteString(", ")
				}
				fmt.Fprintf(&b, "%s: a%d", fields[j], n-1)
			}
			b.WriteString("}\n")
		}
		return b.String()
	}
	out = append(out,
		gen(24, 2, `{x: int, y: "s"}`, []string{"l", "r"}),
		gen(64, 2, `{x: int, y: "s"}`, []string{"l", "r"}),
		gen(20, 3, `{x: string, y: 1}`, []string{"p", "q", "r"}),
		gen(40, 2, `{x: >0, y: [1, 2]}`, []string{"first", "second"}),
		gen(32, 2, `{x: 1, y: "s"}`, []string{"l", "r"}),
	)
	return out
}
