package main

// C11 extension: byte-level correspondence for the printing steps modelled in
// lean/CueVerif/Model/{YamlEmit,YamlPrint}.lean —
//   blocktext  the whole document Encode prints for {k: <literal block of s>} (header, padded
//              lines, stripBlankLinePadding) vs `printedBlockDoc`;
//   sq         the single-quoted text the in-repo `singleQuoted` writes (values and keys that
//              needsSingleQuoting) vs `singleQuoted`;
//   flow       a string the block-context rules leave plain, as the element of a flow sequence
//              (`quoteFlowUnsafe`) vs `quoteFlowUnsafe`.
// I-level: the model's answers are proved to read back (C11_printed_doc_lines,
// C11_block_roundtrip_printed, C11_single_quoted_roundtrip, C11_flow_quoted); a disagreement
// means the print differs from the modelled one and starts the failing-input search.

import (
	"strings"

	"cuelang.org/go/cue/literal"
	"cuelang.org/go/cue/parser"
	cueyaml "cuelang.org/go/internal/encoding/yaml"
)

func c11NeedsSingleQuoting(s string) bool {
	return s == "?" || strings.HasPrefix(s, "? ") || strings.HasSuffix(s, "<<") || strings.HasPrefix(s, "...")
}

// c11BlockText: out is the real output for {k: <multi-line literal s>} whose style is literal.
func c11BlockText(c *Cfg, s, out string) {
	c.Count("print/blocktext")
	if strings.Contains(s, "\n\n") || strings.HasPrefix(s, "\n") {
		c.Count("print/blocktext/with-blank-lines(padding stripped)")
	}
	c.Op("I", "blocktext 2 "+H(s), H(out))
}

// c11SingleText: text is the scalar as printed ('…') where the in-repo code chose single quotes.
func c11SingleText(c *Cfg, s, text string, key bool) {
	if !c11NeedsSingleQuoting(s) {
		return // the library's own single quoting, not singleQuoted
	}
	if key {
		c.Count("print/sq/key")
	} else {
		c.Count("print/sq/value")
	}
	c.Op("I", "sq "+H(s), H(text))
}

// c11FlowOp: s is printed plain in block context; what does it look like inside `[ … ]`?
func c11FlowOp(c *Cfg, s string) {
	if strings.ContainsAny(s, "\n\r") || len(s) > 200 {
		return
	}
	src := "x: [" + literal.String.Quote(s) + "]\n"
	f, err := parser.ParseFile("flow.cue", src)
	if err != nil {
		c.Count("print/flow/source-does-not-parse(skipped)")
		return
	}
	var b []byte
	if err := c11Guard(func() (e error) { b, e = cueyaml.Encode(f); return }); err != nil {
		c.Count("print/flow/encode-error(skipped)")
		return
	}
	out := string(b)
	ans := "weird"
	if strings.HasPrefix(out, "x: [") && strings.HasSuffix(out, "]\n") {
		ans = H(out[4 : len(out)-2])
	}
	if strings.ContainsAny(s, ",[]{}:") {
		c.Count("print/flow/quoted")
	} else {
		c.Count("print/flow/plain")
	}
	c.Op("I", "flow "+H(s), ans)
}
