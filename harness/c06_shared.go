package main

// C06: the "shared operands" stream.  One CUE program per operand pair:
//
//	a: <A>
//	b: <B>
//	s: a + b, … every operator and builtin applied to the FIELDS a and b, the division builtins
//	twice, list comprehensions repeating an op, div(a, -a) …
//
// evaluated in ONE context, so that an operator which damages its operands (aliasing of the
// big.Int behind an apd coefficient, in-place negation, …) shows up in a later result.  Each
// result is compared with the proved model (O level, the same `bin` op as the isolated stream);
// Direct: the operands, printed AFTER all operations, still are their literals; the division
// identities hold between the shared results; a second evaluation in a fresh context gives the
// same answers.  Magnitudes straddle the inline/heap boundary of apd.BigInt (two machine words).

import (
	"fmt"
	"math/big"
	"strings"
	"time"

	"cuelang.org/go/cue"
	"cuelang.org/go/cue/cuecontext"
)

type c06Field struct {
	name string
	op   string // bin op ("" = not compared with the model)
	x, y c06Num
	idx  int // ≥ 0: element of the list field name
}

func c06Neg(n c06Num) c06Num {
	m := n
	m.neg = !n.neg
	m.coeff = new(big.Int).Neg(n.coeff)
	if m.coeff.Sign() == 0 {
		m.neg = false
	}
	return m
}

// c06SharedProgram builds the program text and the list of result fields.
func c06SharedProgram(a, b c06Num) (string, []c06Field) {
	var sb strings.Builder
	var fs []c06Field
	fmt.Fprintf(&sb, "a: %s\nb: %s\n", strings.Trim(a.src(), "()"), strings.Trim(b.src(), "()"))
	add := func(name, expr, op string, x, y c06Num) {
		fmt.Fprintf(&sb, "%s: %s\n", name, expr)
		fs = append(fs, c06Field{name: name, op: op, x: x, y: y, idx: -1})
	}
	sym := map[string]string{"add": "+", "sub": "-", "mul": "*", "quo": "/", "eq": "==", "ne": "!=", "lt": "<", "le": "<=", "gt": ">", "ge": ">="}
	fn := map[string]string{"div": "div", "mod": "mod", "iquo": "quo", "rem": "rem"}
	// the division builtins first and twice (the second use sees what the first left behind)
	for round := 1; round <= 2; round++ {
		for _, op := range []string{"div", "mod", "iquo", "rem"} {
			add(fmt.Sprintf("%s%d", op, round), fn[op]+"(a, b)", op, a, b)
		}
	}
	for _, op := range []string{"add", "sub", "mul", "quo", "eq", "ne", "lt", "le", "gt", "ge"} {
		add("o_"+op, "a "+sym[op]+" b", op, a, b)
	}
	// swapped roles
	for _, op := range []string{"div", "mod", "iquo", "rem", "sub", "lt"} {
		if e, ok := fn[op]; ok {
			add("sw_"+op, e+"(b, a)", op, b, a)
		} else {
			add("sw_"+op, "b "+sym[op]+" a", op, b, a)
		}
	}
	// an operand against its own negation / itself
	na, nb := c06Neg(a), c06Neg(b)
	add("self_div", "div(a, -a)", "div", a, na)
	add("self_mod", "mod(a, -a)", "mod", a, na)
	add("self_quo", "quo(-b, b)", "iquo", nb, b)
	add("self_rem", "rem(a, a)", "rem", a, a)
	add("self_sub", "a - a", "sub", a, a)
	add("self_eq", "a == a", "eq", a, a)
	// once more after everything else
	for _, op := range []string{"div", "mod", "iquo", "rem"} {
		add(op+"3", fn[op]+"(a, b)", op, a, b)
	}
	add("o_add2", "a + b", "add", a, b)
	add("o_lt2", "a < b", "lt", a, b)
	// repetition inside a comprehension
	for _, op := range []string{"iquo", "div", "mod"} {
		name := "rep_" + op
		fmt.Fprintf(&sb, "%s: [for i in [1, 2, 3] {%s(a, b)}]\n", name, fn[op])
		for i := 0; i < 3; i++ {
			fs = append(fs, c06Field{name: name, op: op, x: a, y: b, idx: i})
		}
	}
	return sb.String(), fs
}

// c06EvalProgram evaluates the program in a FRESH context and describes every field in order,
// then the operands.
func c06EvalProgram(src string, fs []c06Field, timeout time.Duration) (res []c06Res, opA, opB c06Res, status string) {
	type out struct {
		res      []c06Res
		opA, opB c06Res
		status   string
	}
	ch := make(chan out, 1)
	go func() {
		defer func() {
			if r := recover(); r != nil {
				ch <- out{status: fmt.Sprintf("panic: %v", r)}
			}
		}()
		ctx := cuecontext.New()
		v := ctx.CompileString(src)
		var o out
		for _, f := range fs {
			sels := []cue.Selector{cue.Str(f.name)}
			if f.idx >= 0 {
				sels = append(sels, cue.Index(f.idx))
			}
			o.res = append(o.res, c06Describe(v.LookupPath(cue.MakePath(sels...))))
		}
		o.opA = c06Describe(v.LookupPath(cue.ParsePath("a")))
		o.opB = c06Describe(v.LookupPath(cue.ParsePath("b")))
		o.status = "ok"
		ch <- o
	}()
	select {
	case o := <-ch:
		return o.res, o.opA, o.opB, o.status
	case <-time.After(timeout):
		return nil, c06Res{}, c06Res{}, "timeout"
	}
}

func c06SharedOperands(r *Rng, thorough bool) [][2]c06Num {
	pow2 := func(n uint) *big.Int { return new(big.Int).Lsh(big.NewInt(1), n) }
	off := func(z *big.Int, d int64) *big.Int { return new(big.Int).Add(z, big.NewInt(d)) }
	mags := []*big.Int{
		off(pow2(64), -1), pow2(64), off(pow2(64), 1), pow2(127), off(pow2(128), -1), pow2(128), off(pow2(128), 1),
		off(c06Pow10(38), -1), off(c06Pow10(38), 1), c06Pow10(39), c06RandDigits(r, 50), c06RandDigits(r, 100),
		big.NewInt(7), off(pow2(63), 0), off(c06Pow10(33), 7),
	}
	var as []c06Num
	for _, m := range mags {
		as = append(as, c06Int(m), c06Int(new(big.Int).Neg(m)))
	}
	bs := []c06Num{
		c06Int(big.NewInt(7)), c06Int(big.NewInt(-7)), c06Int(big.NewInt(2)), c06Int(big.NewInt(-1)),
		c06Int(off(pow2(64), 1)), c06Int(new(big.Int).Neg(off(pow2(128), 1))), c06Int(c06RandDigits(r, 45)),
		c06Int(new(big.Int).Neg(c06RandDigits(r, 60))), c06Int(big.NewInt(0)),
	}
	var pairs [][2]c06Num
	for i, a := range as {
		for j, b := range bs {
			if !thorough && (i+j)%2 != 0 {
				continue
			}
			pairs = append(pairs, [2]c06Num{a, b})
		}
	}
	n := 80
	if thorough {
		n = 1500
	}
	for i := 0; i < n; i++ {
		rr := r.Sub()
		mk := func() c06Num {
			if rr.Chance(1, 6) {
				return c06RandNum(rr, 60, 20) // sometimes a float: the builtins must refuse it
			}
			d := Pick(rr, []int{1, 5, 18, 19, 20, 21, 37, 38, 39, 40, 41, 50, 77, 100, 150})
			z := c06RandDigits(rr, d)
			if rr.Chance(3, 5) {
				z.Neg(z)
			}
			return c06Int(z)
		}
		pairs = append(pairs, [2]c06Num{mk(), mk()})
	}
	return pairs
}

func c06Shared(c *Cfg, r *Rng) {
	pairs := c06SharedOperands(r, c.Thorough())
	type job struct {
		a, b   c06Num
		src    string
		fs     []c06Field
		r1, r2 []c06Res
		a1, b1 c06Res
		a2, b2 c06Res
		s1, s2 string
	}
	jobs := make([]*job, len(pairs))
	for i, p := range pairs {
		src, fs := c06SharedProgram(p[0], p[1])
		jobs[i] = &job{a: p[0], b: p[1], src: src, fs: fs}
	}
	// evaluate on several cores (each program has its own fresh context)
	sem := make(chan struct{}, 12)
	done := make(chan struct{}, len(jobs))
	for _, j := range jobs {
		sem <- struct{}{}
		go func(j *job) {
			defer func() { <-sem; done <- struct{}{} }()
			j.r1, j.a1, j.b1, j.s1 = c06EvalProgram(j.src, j.fs, 60*time.Second)
			j.r2, j.a2, j.b2, j.s2 = c06EvalProgram(j.src, j.fs, 60*time.Second)
		}(j)
	}
	for range jobs {
		<-done
	}
	for _, j := range jobs {
		c.Count("shared-programs")
		c.Case("shared "+j.a.proto()+" "+j.b.proto(), j.a.coeff.Sign() != 0 && j.b.coeff.Sign() != 0)
		if j.s1 != "ok" || j.s2 != "ok" {
			c.Direct(false, "hang-or-panic", "shared-operand program: "+j.s1+" / "+j.s2+"\n"+j.src, j.src)
			continue
		}
		// O level: every field against the model
		vals := map[string]*big.Int{}
		for i, f := range j.fs {
			res := j.r1[i]
			fname := f.name
			if f.idx >= 0 {
				fname = fmt.Sprintf("%s[%d]", f.name, f.idx)
			}
			// `shared <field> <op> <x> <y> <A> <B>`: field <field> of the program built from the
			// operands A, B (c06SharedProgram) computes `x op y`; the model answers as for `bin`
			c.Op("O", "shared "+fname+" "+f.op+" "+f.x.proto()+" "+f.y.proto()+" "+j.a.proto()+" "+j.b.proto(), c06ValueAns(res))
			if res.kind == "int" && f.idx < 0 {
				if z, e, ok := c06ParseDec(res.json); ok && e >= 0 {
					vals[f.name] = new(big.Int).Mul(z, c06Pow10(e))
				}
			}
			// stability across a second, fresh evaluation
			c.Direct(c06ReprAns(res) == c06ReprAns(j.r2[i]), "shared-eval-unstable",
				fmt.Sprintf("field %s = %s in one evaluation and %s in another\n%s", f.name, c06ReprAns(res), c06ReprAns(j.r2[i]), j.src), j.src)
		}
		// the operands after all operations are still their literals
		for _, t := range []struct {
			name string
			n    c06Num
			res  c06Res
		}{{"a", j.a, j.a1}, {"b", j.b, j.b1}, {"a", j.a, j.a2}, {"b", j.b, j.b2}} {
			ok := t.res.kind == t.n.kind
			if ok {
				z, e, ok2 := c06ParseDec(t.res.json)
				ok = ok2 && c06Rat(z, e).Cmp(t.n.rat()) == 0
			}
			if ok { // the CUE text must read back as the operand too
				z, e, ok2 := c06ParseDec(strings.ReplaceAll(t.res.syntax, "_", ""))
				ok = ok2 && c06Rat(z, e).Cmp(t.n.rat()) == 0
			}
			c.Direct(ok, "operand-changed-by-evaluation",
				fmt.Sprintf("operand %s: %s prints as %s / %s (%s) after the operations of\n%s", t.name, t.n.src(), t.res.json, t.res.syntax, t.res.kind, j.src), j.src)
		}
		// division identities between the shared results (int operands, non-zero divisor)
		if j.a.kind == "int" && j.b.kind == "int" && j.b.coeff.Sign() != 0 {
			x, y := j.a.coeff, j.b.coeff
			ay := new(big.Int).Abs(y)
			for _, k := range []string{"1", "2", "3"} {
				dv, md, qo, rm := vals["div"+k], vals["mod"+k], vals["iquo"+k], vals["rem"+k]
				ok := dv != nil && md != nil && qo != nil && rm != nil
				if ok {
					ok = new(big.Int).Add(new(big.Int).Mul(y, dv), md).Cmp(x) == 0 && md.Sign() >= 0 && md.Cmp(ay) < 0 &&
						new(big.Int).Add(new(big.Int).Mul(qo, y), rm).Cmp(x) == 0 && new(big.Int).Abs(rm).Cmp(ay) < 0 &&
						(rm.Sign() == 0 || rm.Sign() == x.Sign())
				}
				c.Direct(ok, "division-identity-shared",
					fmt.Sprintf("round %s: div=%v mod=%v quo=%v rem=%v violate b*div+mod = a / quo*b+rem = a for\n%s", k, dv, md, qo, rm, j.src), j.src)
			}
		}
	}
}
