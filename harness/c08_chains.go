package main

// C08: (1) the token-level side condition for attributing a `tree-changed` failure to a comment
// shape, (2) generated binary-operator chains with comments after the operators.

import (
	"fmt"
	"strings"

	"cuelang.org/go/cue"
	"cuelang.org/go/cue/ast"
	"cuelang.org/go/cue/cuecontext"
	"cuelang.org/go/cue/token"
)

// sigTokens: the significant tokens of a source as comparable keys: operators, keywords and
// punctuation by kind, identifiers by name, literals by kind only (the formatter may re-spell
// them: re-indented strings, 1E3 -> 1e3).  Comments and commas are left out.
func sigTokens(src []byte, simplify bool) ([]string, bool) {
	toks, ok := c08Tokens(src)
	if !ok {
		return nil, false
	}
	var out []string
	for _, t := range toks {
		switch t.tok {
		case token.COMMENT, token.COMMA:
			continue
		case token.IDENT:
			out = append(out, "id:"+string(src[t.off:t.end]))
		case token.INT, token.FLOAT, token.STRING, token.INTERPOLATION:
			if w := string(src[t.off:t.end]); simplify && t.tok == token.STRING && len(w) > 2 && w[0] == '"' && w[len(w)-1] == '"' &&
				!strings.ContainsAny(w[1:len(w)-1], "\\\"") && !ast.StringLabelNeedsQuoting(w[1:len(w)-1]) {
				// -s may print the label "foo" as foo (documented simplification)
				out = append(out, "id:"+w[1:len(w)-1])
				continue
			}
			out = append(out, "lit:"+t.tok.String())
		case token.ATTRIBUTE:
			out = append(out, "attr:"+string(src[t.off:t.end]))
		default:
			out = append(out, t.tok.String())
		}
	}
	return out, true
}

// c08OnlyLostTokens: every significant token of the output occurs, in order, in the input — tokens
// may have been LOST (swallowed by a comment, doubled parentheses collapsed) but none was altered,
// added or reordered.  A tree change in which an operator, identifier, literal kind or attribute
// differs is never explained by comment handling.
func c08OnlyLostTokens(in, out []byte, ordered, simplify bool) bool {
	a, ok1 := sigTokens(in, simplify)
	b, ok2 := sigTokens(out, simplify)
	if !ok1 || !ok2 {
		return false
	}
	if ordered {
		i := 0
		for _, t := range b {
			for i < len(a) && a[i] != t {
				i++
			}
			if i == len(a) {
				return false
			}
			i++
		}
		return true
	}
	// unordered (the -s rewrites move `...` to the end): multiset inclusion, where `...` may appear
	// (it replaces `[_]: _`) and `_`, `string`, brackets and colons may vanish
	cnt := map[string]int{}
	for _, t := range a {
		cnt[t]++
	}
	for _, t := range b {
		if t == "..." {
			continue
		}
		if cnt[t] == 0 {
			return false
		}
		cnt[t]--
	}
	return true
}

// ---- generated operator chains --------------------------------------------------------

var c08ChainGroups = [][]string{
	{"+", "-"}, {"*", "/"}, {"==", "!=", "<", "<=", ">", ">=", "=~", "!~"}, {"&&"}, {"||"}, {"&"}, {"|"},
}

// c08GenChain builds one field whose value is a chain of 2-4 binary operators; concrete reports
// whether it is plain integer arithmetic (so that its value can be compared).
func c08GenChain(r *Rng, k int) (src string, concrete bool) {
	n := 2 + r.Intn(3)
	mode := r.Intn(4) // 0: one same-precedence group, mixed operators; 1: same operator; 2,3: any mixture
	grp := Pick(r, c08ChainGroups[:3])
	ops := make([]string, n)
	for i := range ops {
		switch mode {
		case 0:
			ops[i] = Pick(r, grp)
		case 1:
			ops[i] = grp[0]
		default:
			ops[i] = Pick(r, Pick(r, c08ChainGroups))
		}
	}
	concrete = true
	for _, o := range ops {
		if o != "+" && o != "-" && o != "*" {
			concrete = false
		}
	}
	operand := func() string {
		if concrete || r.Chance(1, 2) {
			return fmt.Sprint(1 + r.Intn(20))
		}
		return Pick(r, []string{"x", "y", "z", "a.b", `"s"`, "f(1)", "[1]", "{a: 1}"})
	}
	var sb strings.Builder
	sb.WriteString(operand())
	nc := 0
	for i, o := range ops {
		sb.WriteString(Pick(r, []string{" ", " ", ""}) + o)
		switch r.Intn(5) {
		case 0, 1: // a same-line comment directly after the operator
			nc++
			sb.WriteString(fmt.Sprintf(" // c%d\n\t", i))
		case 2: // only a line break
			sb.WriteString("\n\t")
		default:
			sb.WriteString(" ")
		}
		sb.WriteString(operand())
	}
	e := sb.String()
	// context: top level, parenthesised, list element, call argument, index
	switch r.Intn(7) {
	case 0:
		if nc == 0 { // (a line comment before `)` would swallow it)
			e = "(" + e + ")"
			if r.Bool() {
				e += " * 2"
			}
		}
	case 1:
		e = "[" + e + ",\n]"
		concrete = false
	case 2:
		e = "f(" + e + ",\n)"
		concrete = false
	case 3:
		if nc == 0 {
			e = "l[" + e + "]"
			concrete = false
		}
	}
	src = fmt.Sprintf("v%d: %s", k, e)
	if r.Chance(1, 5) {
		src += " @tag(t)"
	}
	if r.Chance(1, 4) {
		src += " // end"
	}
	return src + "\n", concrete
}

type c08ChainInput struct {
	c08Input
	concrete []string // field names whose value is integer arithmetic
}

func c08GenChainPrograms(c *Cfg, r *Rng, n int) []c08ChainInput {
	var out []c08ChainInput
	seen := map[string]bool{}
	for tries := 0; len(out) < n && tries < n*6; tries++ {
		rr := r.Sub()
		seed := rr.s
		var sb strings.Builder
		var conc []string
		nested := rr.Chance(1, 3)
		if nested {
			sb.WriteString("s: {\n")
		}
		nf := 1 + rr.Intn(3)
		for k := 0; k < nf; k++ {
			f, ok := c08GenChain(rr, k)
			if nested {
				f = "\t" + strings.ReplaceAll(strings.TrimSuffix(f, "\n"), "\n", "\n\t") + "\n"
			}
			sb.WriteString(f)
			if ok && !nested {
				conc = append(conc, fmt.Sprintf("v%d", k))
			}
		}
		if nested {
			sb.WriteString("}\n")
		}
		s := sb.String()
		if seen[s] {
			continue
		}
		seen[s] = true
		if _, err := c08Parse([]byte(s)); err != nil {
			c.Count("chain-program-rejected-by-parser")
			continue
		}
		c.Case("chain:"+s, true)
		c.Count("generated-chain-programs")
		out = append(out, c08ChainInput{c08Input{fmt.Sprintf("chains(seed %d)", seed), []byte(s)}, conc})
	}
	return out
}

// c08EvalFields evaluates the named top-level fields of a source.
func c08EvalFields(src []byte, names []string) (res []string) {
	defer func() {
		if r := recover(); r != nil {
			res = []string{"panic"}
		}
	}()
	v := cuecontext.New().CompileBytes(src)
	for _, n := range names {
		f := v.LookupPath(cue.ParsePath(n))
		if err := f.Err(); err != nil {
			res = append(res, n+"=error")
			continue
		}
		res = append(res, fmt.Sprintf("%s=%v", n, f))
	}
	return res
}

// c08ChainValues: formatting must not change what the concrete chains evaluate to.
func c08ChainValues(c *Cfg, m fmtMode, ins []c08ChainInput) {
	setFormatter(m.v2)
	for _, in := range ins {
		if len(in.concrete) == 0 {
			continue
		}
		out, err, _ := c08Format(in.src, m)
		if err != nil {
			continue // reported by the sweep
		}
		a := strings.Join(c08EvalFields(in.src, in.concrete), " ")
		b := strings.Join(c08EvalFields(out, in.concrete), " ")
		c.Direct(a == b, "value-changed-"+m.name[:2], fmt.Sprintf("[%s] %s: evaluates to %s before and %s after formatting", m.name, in.origin, a, b),
			map[string]any{"mode": m.name, "origin": in.origin, "input": string(in.src)})
	}
}
