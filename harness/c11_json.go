package main

// C11 — a small JSON document generator (text level: escapes, white space, number forms).

import (
	"fmt"
	"strings"
	"unicode/utf8"
)

// c11StripForJSON rewrites a tree to what JSON can carry: no bytes, no multi-line literal
// flag, numbers in JSON spellings.
func c11StripForJSON(t *c11V) {
	switch t.k {
	case 'y':
		t.k, t.s = 's', strings.ToValidUTF8(t.s, "?")
	case 's':
		t.multi = false
	case 'i':
		ok := t.num != ""
		for i := 0; i < len(t.num); i++ {
			if t.num[i] < '0' || t.num[i] > '9' {
				ok = false
			}
		}
		if !ok || (len(t.num) > 1 && t.num[0] == '0') {
			t.num = "42"
		}
	case 'f':
		if !c11JSONFloat(t.num) {
			t.num = "1.5"
		}
	}
	for _, e := range t.elems {
		c11StripForJSON(e)
	}
}

// JSON number grammar with a fraction or an exponent (so that it is a float for CUE)
func c11JSONFloat(s string) bool {
	i := 0
	digits := func() int {
		n := 0
		for i < len(s) && s[i] >= '0' && s[i] <= '9' {
			i++
			n++
		}
		return n
	}
	start := i
	if digits() == 0 || (s[start] == '0' && i-start > 1) {
		return false
	}
	frac := false
	if i < len(s) && s[i] == '.' {
		i++
		if digits() == 0 {
			return false
		}
		frac = true
	}
	exp := false
	if i < len(s) && (s[i] == 'e' || s[i] == 'E') {
		i++
		if i < len(s) && (s[i] == '+' || s[i] == '-') {
			i++
		}
		if digits() == 0 {
			return false
		}
		exp = true
	}
	return i == len(s) && (frac || exp)
}

// c11JSONStr renders a JSON string literal; mode 0 = random mix, 1 = minimal escapes,
// 2 = every character escaped as \uXXXX (surrogate pairs for non-BMP).
func c11JSONStr(r *Rng, s string, mode int) string {
	var sb strings.Builder
	sb.WriteByte('"')
	for _, c := range s {
		m := mode
		if m == 0 {
			m = 1
			if r.Chance(1, 6) {
				m = 2
			}
		}
		switch {
		case m == 2 && c != utf8.RuneError:
			if c >= 0x10000 {
				c -= 0x10000
				fmt.Fprintf(&sb, "\\u%04x\\u%04X", 0xd800+(c>>10), 0xdc00+(c&0x3ff))
			} else {
				fmt.Fprintf(&sb, "\\u%04x", c)
			}
		case c == '"':
			sb.WriteString(`\"`)
		case c == '\\':
			sb.WriteString(`\\`)
		case c == '\n':
			sb.WriteString(`\n`)
		case c == '\r':
			sb.WriteString(`\r`)
		case c == '\t':
			sb.WriteString(`\t`)
		case c == '\b':
			sb.WriteString(`\b`)
		case c == '\f':
			sb.WriteString(`\f`)
		case c == '/' && r.Chance(1, 3):
			sb.WriteString(`\/`)
		case c < 0x20:
			fmt.Fprintf(&sb, "\\u%04x", c)
		default:
			sb.WriteRune(c)
		}
	}
	sb.WriteByte('"')
	return sb.String()
}

func c11RenderJSON(r *Rng, t *c11V) string {
	ws := func() string {
		switch r.Intn(8) {
		case 0:
			return " "
		case 1:
			return "\n"
		case 2:
			return "\n  "
		case 3:
			return "\t"
		}
		return ""
	}
	var rec func(v *c11V) string
	rec = func(v *c11V) string {
		switch v.k {
		case 'n':
			return "null"
		case 'b':
			return fmt.Sprint(v.b)
		case 'i', 'f':
			if v.neg {
				return "-" + v.num
			}
			return v.num
		case 's':
			return c11JSONStr(r, v.s, 0)
		case 'l':
			var ps []string
			for _, e := range v.elems {
				ps = append(ps, ws()+rec(e)+ws())
			}
			return "[" + strings.Join(ps, ",") + ws() + "]"
		default:
			var ps []string
			for i, e := range v.elems {
				ps = append(ps, ws()+c11JSONStr(r, v.keys[i], 0)+ws()+":"+ws()+rec(e)+ws())
			}
			if len(ps) == 0 {
				return "{" + ws() + "}"
			}
			return "{" + strings.Join(ps, ",") + "}"
		}
	}
	return ws() + rec(t) + ws()
}
